import Bifrost.Model.Dispatch
import Bifrost.Lemmas.Dispatch
/-!
C35 — RPC and HTTP lookups reach only matching services, with exact prefix stripping.

`reMatch` / `srvMatch` stand for Go's `regexp.MatchString` of the configured patterns and are
arbitrary predicates here; `hasRe` / `hasServerRe` say whether a pattern is configured at all.
`p <+: s` is "`p` is a prefix of `s`".

The full statement is false for `InvokerController` when the prefix list contains the empty
prefix (`invoker_answers_iff_false`): `srpc.CheckStripPrefix` reports the matched prefix, and an
empty matched prefix is read as "no match". The strongest true statements are
`invoker_answers_iff` (exact characterisation) and `invoker_answers_partial` (no empty prefix).
-/
namespace Bifrost.Props.C35
open Bifrost Bifrost.Dispatch

/-! ### RpcServiceController -/

/-- The lookup is answered exactly when the service ID passes the filter chain (no filter at all,
or some prefix, or the regexp, or the explicit list) and the server ID passes the server filter. -/
theorem rpc_answers_iff (c : RpcSvc) (reMatch srvMatch : Bytes → Bool) (sid srv : Bytes) :
    c.answers reMatch srvMatch sid srv = true ↔
      ((c.prefixes = [] ∧ c.hasRe = false ∧ c.list = []) ∨ (∃ p ∈ c.prefixes, p <+: sid) ∨
        (c.hasRe = true ∧ reMatch sid = true) ∨ sid ∈ c.list) ∧
      (c.hasServerRe = true → srvMatch srv = true) := by
  unfold RpcSvc.answers
  have hany := any_hasPrefix c.prefixes sid
  by_cases he : c.prefixes = []
  · cases hr : c.hasRe <;> cases hs : c.hasServerRe <;> cases hm : reMatch sid <;>
      cases hv : srvMatch srv <;> by_cases hl : sid ∈ c.list <;> by_cases hle : c.list = [] <;>
      simp_all
  · have he' : c.prefixes.isEmpty = false := by simpa using he
    cases ha : c.prefixes.any (fun p => hasPrefix sid p)
    · have hno : ¬ ∃ p ∈ c.prefixes, p <+: sid := by rw [← hany, ha]; simp
      cases hr : c.hasRe <;> cases hs : c.hasServerRe <;> cases hm : reMatch sid <;>
        cases hv : srvMatch srv <;> by_cases hl : sid ∈ c.list <;>
        simp [he, he', ha, hr, hs, hm, hv, hl, hno]
    · have hyes : ∃ p ∈ c.prefixes, p <+: sid := hany.mp ha
      cases hs : c.hasServerRe <;> cases hv : srvMatch srv <;> simp [he, he', ha, hs, hv, hyes]

/-- `CheckStripPrefix`: when it reports a prefix, that is the first matching prefix of the list and
the stripped ID is the rest. -/
theorem checkStripPrefix_spec (id : Bytes) (ps : List Bytes) :
    (∀ p, firstPrefix ps id = some p → checkStripPrefix id ps = (id.drop p.length, p) ∧ id = p ++ id.drop p.length) ∧
    (firstPrefix ps id = none → checkStripPrefix id ps = (id, [])) := by
  unfold checkStripPrefix
  constructor
  · intro p hp
    have hne : ps ≠ [] := by
      intro h; subst h; simp [firstPrefix] at hp
    have he : ps.isEmpty = false := by simpa using hne
    simp only [he, Bool.false_eq_true, ↓reduceIte, hp, true_and]
    exact prefix_drop p id (firstPrefix_mem ps id p hp).2
  · intro hn
    simp [hn]

/-- What the wrapped service sees: exactly the request with the first matching prefix removed
(stripping on, prefixes configured), otherwise the request unchanged. -/
theorem rpc_strip_exact (c : RpcSvc) (sid s : Bytes) (h : c.seen sid = some s) :
    ((c.strip = false ∨ c.prefixes = []) ∧ s = sid) ∨
    (c.strip = true ∧ ∃ p, firstPrefix c.prefixes sid = some p ∧ p ≠ [] ∧ sid = p ++ s) := by
  unfold RpcSvc.seen at h
  cases hs : c.strip with
  | false => simp [hs] at h; exact Or.inl ⟨Or.inl rfl, h.symm⟩
  | true =>
    simp only [hs, ↓reduceIte] at h
    unfold prefixInvoke at h
    by_cases he : c.prefixes = []
    · simp [he] at h; exact Or.inl ⟨Or.inr he, h.symm⟩
    · have he' : c.prefixes.isEmpty = false := by simpa using he
      simp only [he', Bool.not_false, ↓reduceIte] at h
      cases hf : firstPrefix c.prefixes sid with
      | none =>
        rw [(checkStripPrefix_spec sid c.prefixes).2 hf] at h
        simp at h
      | some p =>
        obtain ⟨hc, hid⟩ := (checkStripPrefix_spec sid c.prefixes).1 p hf
        rw [hc] at h
        by_cases hpe : p = []
        · simp [hpe] at h
        · have : p.isEmpty = false := by simpa using hpe
          simp only [this, Bool.false_eq_true, ↓reduceIte, Option.some.injEq] at h
          subst h
          exact Or.inr ⟨rfl, p, rfl, hpe, hid⟩

/-- The documented corner: with stripping on and prefixes configured, a request that matches
only through the regexp / the list (no prefix matches) — or whose first matching prefix is the
empty one — is refused by the prefix stripper; and these are the only refusals. -/
theorem rpc_strip_refused_iff (c : RpcSvc) (sid : Bytes) :
    c.seen sid = none ↔
      c.strip = true ∧ c.prefixes ≠ [] ∧ (firstPrefix c.prefixes sid = none ∨ firstPrefix c.prefixes sid = some []) := by
  unfold RpcSvc.seen
  cases hs : c.strip with
  | false => simp
  | true =>
    simp only [↓reduceIte, true_and]
    unfold prefixInvoke
    by_cases he : c.prefixes = []
    · simp [he]
    · have he' : c.prefixes.isEmpty = false := by simpa using he
      simp only [he', Bool.not_false, ↓reduceIte, ne_eq, he, not_false_eq_true, true_and]
      cases hf : firstPrefix c.prefixes sid with
      | none =>
        rw [(checkStripPrefix_spec sid c.prefixes).2 hf]
        simp
      | some p =>
        obtain ⟨hc, _⟩ := (checkStripPrefix_spec sid c.prefixes).1 p hf
        rw [hc]
        by_cases hpe : p = []
        · simp [hpe]
        · have : p.isEmpty = false := by simpa using hpe
          simp [this, hpe]

/-- In particular: a regexp- or list-only match with stripping enabled cannot be stripped — the
lookup is answered but the invocation is refused. -/
theorem rpc_regex_only_cannot_strip (c : RpcSvc) (reMatch srvMatch : Bytes → Bool) (sid srv : Bytes)
    (hstrip : c.strip = true) (hps : c.prefixes ≠ []) (hnone : ∀ p ∈ c.prefixes, ¬ p <+: sid)
    (hre : (c.hasRe = true ∧ reMatch sid = true) ∨ sid ∈ c.list) (hsrv : c.hasServerRe = false) :
    c.answers reMatch srvMatch sid srv = true ∧ c.seen sid = none := by
  constructor
  · rw [rpc_answers_iff]
    refine ⟨?_, by simp [hsrv]⟩
    rcases hre with h | h
    · exact Or.inr (Or.inr (Or.inl h))
    · exact Or.inr (Or.inr (Or.inr h))
  · rw [rpc_strip_refused_iff]
    exact ⟨hstrip, hps, Or.inl ((firstPrefix_none _ _).mpr hnone)⟩

/-! ### InvokerController -/

/-- Exact characterisation: answered iff no prefixes are configured or the *first* matching
prefix is non-empty. -/
theorem invoker_answers_iff (ps : List Bytes) (sid : Bytes) :
    invokerAnswers ps sid = true ↔ ps = [] ∨ ∃ p, firstPrefix ps sid = some p ∧ p ≠ [] := by
  unfold invokerAnswers
  by_cases he : ps = []
  · simp [he]
  · have he' : ps.isEmpty = false := by simpa using he
    simp only [he', Bool.not_false, ↓reduceIte, he, false_or]
    cases hf : firstPrefix ps sid with
    | none =>
      rw [(checkStripPrefix_spec sid ps).2 hf]
      simp
    | some p =>
      obtain ⟨hc, _⟩ := (checkStripPrefix_spec sid ps).1 p hf
      rw [hc]
      by_cases hpe : p = []
      · simp [hpe]
      · have : p.isEmpty = false := by simpa using hpe
        simp [this, hpe]

/-- The property's clause for the invoker registration holds when no configured prefix is empty. -/
theorem invoker_answers_partial (ps : List Bytes) (sid : Bytes) (hne : [] ∉ ps) :
    invokerAnswers ps sid = true ↔ ps = [] ∨ ∃ p ∈ ps, p <+: sid := by
  rw [invoker_answers_iff]
  constructor
  · rintro (h | ⟨p, hf, _⟩)
    · exact Or.inl h
    · exact Or.inr ⟨p, (firstPrefix_mem ps sid p hf).1, (firstPrefix_mem ps sid p hf).2⟩
  · rintro (h | hex)
    · exact Or.inl h
    · right
      have := (firstPrefix_isSome ps sid).mpr hex
      cases hf : firstPrefix ps sid with
      | none => simp [hf] at this
      | some p =>
        refine ⟨p, rfl, ?_⟩
        intro hpe
        exact hne (hpe ▸ (firstPrefix_mem ps sid p hf).1)

/-- REFUTED: "the invoker registration answers exactly when the service ID has one of the
configured prefixes". Witness: prefixes `[""]`, any service ID (known finding). -/
theorem invoker_answers_iff_false :
    ¬ (∀ (ps : List Bytes) (sid : Bytes),
        invokerAnswers ps sid = true ↔ ps = [] ∨ ∃ p ∈ ps, p <+: sid) := by
  intro h
  have := (h [[]] [97]).mpr (Or.inr ⟨[], by simp, List.nil_prefix⟩)
  exact absurd this (by decide)

/-- An empty prefix also hides every later prefix: `["", "a"]` does not serve `"a…"`. -/
theorem invoker_empty_prefix_shadows : invokerAnswers [[], [97]] [97, 98] = false := by decide

/-- What the invoker sees: the request with exactly the first matching prefix removed. -/
theorem invoker_strip_exact (ps : List Bytes) (sid s : Bytes) (h : invokerSeen ps sid = some s) :
    (ps = [] ∧ s = sid) ∨ ∃ p, firstPrefix ps sid = some p ∧ p ≠ [] ∧ sid = p ++ s := by
  have := rpc_strip_exact ⟨ps, true, false, [], false⟩ sid s (by simpa [RpcSvc.seen, invokerSeen] using h)
  rcases this with ⟨h1 | h1, h2⟩ | ⟨_, h2⟩
  · simp at h1
  · exact Or.inl ⟨h1, h2⟩
  · exact Or.inr h2

/-- Invocation is served exactly for the lookups that are answered. -/
theorem invoker_seen_iff_answers (ps : List Bytes) (sid : Bytes) :
    (invokerSeen ps sid).isSome = invokerAnswers ps sid := by
  unfold invokerSeen prefixInvoke invokerAnswers
  by_cases he : ps.isEmpty = true
  · simp [he]
  · simp only [he, Bool.not_false, ↓reduceIte, Bool.false_eq_true]
    by_cases h2 : (checkStripPrefix sid ps).2.isEmpty = true <;> simp [h2]

/-! ### `LookupRpcClient`: rpc.ClientController and the controller stream/srpc/client/controller builds -/

/-- `ClientController` with a given prefix list: answered iff no prefixes, or the *first*
matching prefix is non-empty (the same `CheckStripPrefix` reading as the invoker registration). -/
theorem client_answers_iff (ps : List Bytes) (sid : Bytes) :
    clientAnswers ps sid = true ↔ ps = [] ∨ ∃ p, firstPrefix ps sid = some p ∧ p ≠ [] :=
  invoker_answers_iff ps sid

/-- The property's clause for a client registration whose prefixes are all non-empty. -/
theorem client_answers_partial (ps : List Bytes) (sid : Bytes) (hne : [] ∉ ps) :
    clientAnswers ps sid = true ↔ ps = [] ∨ ∃ p ∈ ps, p <+: sid :=
  invoker_answers_partial ps sid hne

/-- What the remote sees: the request with exactly the first matching prefix removed. -/
theorem client_strip_exact (ps : List Bytes) (sid s : Bytes) (h : prefixClientSeen ps sid = some s) :
    (ps = [] ∧ s = sid) ∨ ∃ p, firstPrefix ps sid = some p ∧ p ≠ [] ∧ sid = p ++ s :=
  invoker_strip_exact ps sid s h

/-- A call through the resolved client is forwarded exactly for the lookups that are answered. -/
theorem client_seen_iff_answers (ps : List Bytes) (sid : Bytes) :
    (prefixClientSeen ps sid).isSome = clientAnswers ps sid :=
  invoker_seen_iff_answers ps sid

/-- What `NewController` hands on: nothing for an empty list or a leading empty prefix, the
configured list otherwise. -/
theorem clientPrefixes_spec (cfg : List Bytes) :
    ((cfg = [] ∨ cfg.head? = some []) → clientPrefixes cfg = []) ∧
    (cfg ≠ [] → cfg.head? ≠ some [] → clientPrefixes cfg = cfg) := by
  cases cfg with
  | nil => simp [clientPrefixes]
  | cons p rest =>
    by_cases hp : p = []
    · subst hp; simp [clientPrefixes]
    · have : p.isEmpty = false := by simpa using hp
      simp [clientPrefixes, this, hp]

/-- "If empty slice or empty string: matches all LookupRpcClient calls" (config.proto): a
controller configured without prefixes answers every lookup and forwards the ID unchanged
(audit row 4: it answered none before the fix). -/
theorem client_built_default (sid : Bytes) :
    clientCtlAnswers [] sid = true ∧ clientCtlSeen [] sid = some sid := by
  simp [clientCtlAnswers, clientCtlSeen, clientPrefixes, clientAnswers, prefixClientSeen]

/-- …and so does one whose list starts with the empty prefix. -/
theorem client_built_leading_empty (rest : List Bytes) (sid : Bytes) :
    clientCtlAnswers ([] :: rest) sid = true ∧ clientCtlSeen ([] :: rest) sid = some sid := by
  simp [clientCtlAnswers, clientCtlSeen, clientPrefixes, clientAnswers, prefixClientSeen]

/-- Exact characterisation of the built controller. -/
theorem client_built_answers_iff (cfg : List Bytes) (sid : Bytes) :
    clientCtlAnswers cfg sid = true ↔
      cfg = [] ∨ cfg.head? = some [] ∨ ∃ p, firstPrefix cfg sid = some p ∧ p ≠ [] := by
  cases cfg with
  | nil => simp [(client_built_default sid).1]
  | cons p rest =>
    by_cases hp : p = []
    · subst hp
      simp [(client_built_leading_empty rest sid).1]
    · have hpre := (clientPrefixes_spec (p :: rest)).2 (by simp) (by simpa using hp)
      unfold clientCtlAnswers
      rw [hpre, client_answers_iff]
      simp [hp]

/-- The property's clause for the built controller: it answers exactly when it has no filter or
the service ID has one of the configured prefixes — provided no empty prefix is configured after
the first position. -/
theorem client_built_answers_partial (cfg : List Bytes) (sid : Bytes) (hne : [] ∉ cfg.tail) :
    clientCtlAnswers cfg sid = true ↔ cfg = [] ∨ ∃ p ∈ cfg, p <+: sid := by
  cases cfg with
  | nil => simp [(client_built_default sid).1]
  | cons p rest =>
    by_cases hp : p = []
    · subst hp
      simp only [(client_built_leading_empty rest sid).1, true_iff]
      exact Or.inr ⟨[], by simp, List.nil_prefix⟩
    · have hpre := (clientPrefixes_spec (p :: rest)).2 (by simp) (by simpa using hp)
      unfold clientCtlAnswers
      rw [hpre]
      apply client_answers_partial
      intro hmem
      rcases List.mem_cons.mp hmem with h | h
      · exact hp h.symm
      · exact hne (by simpa using h)

/-- REFUTED for the built controller too when an empty prefix follows a non-empty one: config
`["a", ""]` has the prefix `""` of `"b"` but does not answer it (same root cause as the invoker
registration: `CheckStripPrefix` cannot report a match of the empty prefix; known finding). -/
theorem client_built_answers_iff_false :
    ¬ (∀ (cfg : List Bytes) (sid : Bytes),
        clientCtlAnswers cfg sid = true ↔ cfg = [] ∨ ∃ p ∈ cfg, p <+: sid) := by
  intro h
  have := (h [[97], []] [98]).mpr (Or.inr ⟨[], by simp, List.nil_prefix⟩)
  exact absurd this (by decide)

/-- What the remote sees through the built controller. -/
theorem client_built_strip_exact (cfg : List Bytes) (sid s : Bytes) (h : clientCtlSeen cfg sid = some s) :
    ((cfg = [] ∨ cfg.head? = some []) ∧ s = sid) ∨
      ∃ p, firstPrefix cfg sid = some p ∧ p ≠ [] ∧ sid = p ++ s := by
  by_cases hc : cfg = [] ∨ cfg.head? = some []
  · have hpre := (clientPrefixes_spec cfg).1 hc
    unfold clientCtlSeen at h
    rw [hpre] at h
    simp [prefixClientSeen] at h
    exact Or.inl ⟨hc, h.symm⟩
  · have hpre := (clientPrefixes_spec cfg).2 (fun h0 => hc (Or.inl h0)) (fun h0 => hc (Or.inr h0))
    unfold clientCtlSeen at h
    rw [hpre] at h
    rcases client_strip_exact cfg sid s h with ⟨h0, _⟩ | h1
    · exact absurd (Or.inl h0) hc
    · exact Or.inr h1

/-! ### rpc/access.ClientController (the registration of a remote bus) -/

/-- Exact characterisation: each regexp is applied to a NON-EMPTY ID only. -/
theorem access_answers_iff (c : AccessClient) (reMatch srvMatch : Bytes → Bool) (sid srv : Bytes) :
    c.answers reMatch srvMatch sid srv = true ↔
      (c.hasRe = true → sid = [] ∨ reMatch sid = true) ∧
      (c.hasServerRe = true → srv = [] ∨ srvMatch srv = true) := by
  unfold AccessClient.answers
  cases c.hasRe <;> cases c.hasServerRe <;> cases hm : reMatch sid <;> cases hv : srvMatch srv <;>
    cases h1 : sid.isEmpty <;> cases h2 : srv.isEmpty <;> simp_all

/-- The property's clause ("answers exactly when the service ID satisfies the pattern and the
server ID satisfies the server filter, or there is no filter") for lookups that name both IDs. -/
theorem access_answers_partial (c : AccessClient) (reMatch srvMatch : Bytes → Bool) (sid srv : Bytes)
    (h1 : sid ≠ []) (h2 : srv ≠ []) :
    c.answers reMatch srvMatch sid srv = true ↔
      (c.hasRe = true → reMatch sid = true) ∧ (c.hasServerRe = true → srvMatch srv = true) := by
  rw [access_answers_iff]
  simp [h1, h2]

/-- REFUTED as stated: an empty server ID (or service ID) passes a configured pattern it does
not match. Witness: server pattern that matches nothing, server ID `""` (known finding; the
sibling `RpcServiceController` applies its server pattern to the empty ID, `rpc_answers_iff`). -/
theorem access_answers_iff_false :
    ¬ (∀ (c : AccessClient) (reMatch srvMatch : Bytes → Bool) (sid srv : Bytes),
        c.answers reMatch srvMatch sid srv = true ↔
          (c.hasRe = true → reMatch sid = true) ∧ (c.hasServerRe = true → srvMatch srv = true)) := by
  intro h
  have := (h ⟨false, true⟩ (fun _ => false) (fun _ => false) [97] []).mp (by decide)
  simp at this

/-! ### HTTPHandlerController -/

/-- The prefix the handler will be stripped of: the first matching one (empty if none). -/
theorem http_decide_snd (c : HttpCtl) (reMatch : Bytes → Bool) (path : Bytes) :
    (c.decide reMatch path).2 = (firstPrefix c.prefixes path).getD [] := by
  unfold HttpCtl.decide
  by_cases he : c.prefixes = []
  · simp [he, firstPrefix]
  · have he' : c.prefixes.isEmpty = false := by simpa using he
    cases hf : firstPrefix c.prefixes path <;> simp [he', hf]

theorem http_answers_iff (c : HttpCtl) (reMatch : Bytes → Bool) (path : Bytes) :
    c.answers reMatch path = true ↔
      (c.prefixes = [] ∧ c.hasRe = false) ∨ (∃ p ∈ c.prefixes, p <+: path) ∨
        (c.hasRe = true ∧ reMatch path = true) := by
  unfold HttpCtl.answers HttpCtl.decide
  have hsome := firstPrefix_isSome c.prefixes path
  by_cases he : c.prefixes = []
  · cases hr : c.hasRe <;> cases hm : reMatch path <;> simp [he, hr, hm]
  · have he' : c.prefixes.isEmpty = false := by simpa using he
    cases hf : firstPrefix c.prefixes path with
    | none =>
      have hno : ¬ ∃ p ∈ c.prefixes, p <+: path := by rw [← hsome, hf]; simp
      cases hr : c.hasRe <;> cases hm : reMatch path <;> simp [he, he', hf, hr, hm, hno]
    | some p =>
      have hyes : ∃ p ∈ c.prefixes, p <+: path := by rw [← hsome, hf]; simp
      simp [he', hf, hyes]

/-- `http.StripPrefix` with a non-empty prefix that the path carries: the handler sees the path
(and the escaped path, if any) with exactly that prefix removed; it is refused (404) exactly when
an escaped path is present that does not carry the prefix. -/
theorem httpStripPrefix_spec (pfx path raw : Bytes) (hne : pfx ≠ []) (hp : pfx <+: path) :
    (raw = [] → httpStripPrefix pfx path raw = some (path.drop pfx.length, [])) ∧
    (raw ≠ [] → pfx <+: raw → httpStripPrefix pfx path raw = some (path.drop pfx.length, raw.drop pfx.length)) ∧
    (raw ≠ [] → ¬ pfx <+: raw → httpStripPrefix pfx path raw = none) := by
  have he : pfx.isEmpty = false := by simpa using hne
  have hlt := drop_length_lt pfx path hp hne
  have hpp : hasPrefix path pfx = true := (hasPrefix_iff _ _).mpr hp
  unfold httpStripPrefix trimPrefix
  simp only [he, Bool.false_eq_true, ↓reduceIte, hpp]
  refine ⟨?_, ?_, ?_⟩
  · intro hr
    subst hr
    have : hasPrefix [] pfx = false := by
      cases hb : hasPrefix [] pfx
      · rfl
      · have := (hasPrefix_iff _ _).mp hb
        exact absurd (List.prefix_nil.mp this) hne
    have h0 : 0 < path.length := Nat.lt_of_le_of_lt (Nat.zero_le _) hlt
    simp [this, h0, hne]
  · intro hr hpr
    have hrr : hasPrefix raw pfx = true := (hasPrefix_iff _ _).mpr hpr
    have hlt2 := drop_length_lt pfx raw hpr hne
    have h0 : 0 < path.length := Nat.lt_of_le_of_lt (Nat.zero_le _) hlt
    have h1 : 0 < raw.length := Nat.lt_of_le_of_lt (Nat.zero_le _) hlt2
    have h2 : 0 < pfx.length := List.length_pos_iff.mpr hne
    simp [hrr, h0, h1, h2, hne]
  · intro hr hnpr
    have hrr : hasPrefix raw pfx = false := by
      cases hb : hasPrefix raw pfx
      · rfl
      · exact absurd ((hasPrefix_iff _ _).mp hb) hnpr
    have : raw.isEmpty = false := by simpa using hr
    simp [hrr, this]

/-- What the registered HTTP handler sees (`path`, `raw` = URL.Path, URL.RawPath of the request the
lookup was made for): with stripping on and a non-empty first matching prefix `pfx`, exactly the
path with `pfx` removed; otherwise (no stripping, regexp-only match, empty prefix) unchanged. -/
theorem http_strip_exact (c : HttpCtl) (reMatch : Bytes → Bool) (path raw p' r' : Bytes)
    (h : c.seen reMatch path raw = some (p', r')) :
    (c.strip = true ∧ ∃ pfx, firstPrefix c.prefixes path = some pfx ∧ pfx ≠ [] ∧ path = pfx ++ p' ∧
        ((raw = [] ∧ r' = []) ∨ raw = pfx ++ r')) ∨
    ((c.strip = false ∨ firstPrefix c.prefixes path = none ∨ firstPrefix c.prefixes path = some []) ∧
        p' = path ∧ r' = raw) := by
  unfold HttpCtl.seen at h
  rw [http_decide_snd] at h
  cases hs : c.strip with
  | false => simp [hs] at h; exact Or.inr ⟨Or.inl rfl, h.1.symm, h.2.symm⟩
  | true =>
    cases hf : firstPrefix c.prefixes path with
    | none => simp [hs, hf] at h; exact Or.inr ⟨Or.inr (Or.inl rfl), h.1.symm, h.2.symm⟩
    | some pfx =>
      by_cases hpe : pfx = []
      · subst hpe
        simp [hs, hf] at h
        exact Or.inr ⟨Or.inr (Or.inr rfl), h.1.symm, h.2.symm⟩
      · have hpi : pfx.isEmpty = false := by simpa using hpe
        simp only [hs, hf, Option.getD_some, hpi, Bool.not_false, Bool.and_self, ↓reduceIte] at h
        have hpre := (firstPrefix_mem c.prefixes path pfx hf).2
        obtain ⟨s1, s2, s3⟩ := httpStripPrefix_spec pfx path raw hpe hpre
        left
        refine ⟨rfl, pfx, rfl, hpe, ?_⟩
        by_cases hr : raw = []
        · rw [s1 hr] at h
          simp only [Option.some.injEq, Prod.mk.injEq] at h
          exact ⟨h.1 ▸ prefix_drop pfx path hpre, Or.inl ⟨hr, h.2.symm⟩⟩
        · by_cases hpr : pfx <+: raw
          · rw [s2 hr hpr] at h
            simp only [Option.some.injEq, Prod.mk.injEq] at h
            exact ⟨h.1 ▸ prefix_drop pfx path hpre, Or.inr (h.2 ▸ prefix_drop pfx raw hpr)⟩
          · rw [s3 hr hpr] at h
            simp at h

/-- The handler is not reached only in `http.StripPrefix`'s 404 branch: stripping is active and
the request's escaped path does not carry the prefix the unescaped path matched. -/
theorem http_strip_refused_iff (c : HttpCtl) (reMatch : Bytes → Bool) (path raw : Bytes) :
    c.seen reMatch path raw = none ↔
      c.strip = true ∧ ∃ pfx, firstPrefix c.prefixes path = some pfx ∧ pfx ≠ [] ∧ raw ≠ [] ∧ ¬ pfx <+: raw := by
  unfold HttpCtl.seen
  rw [http_decide_snd]
  cases hs : c.strip with
  | false => simp
  | true =>
    cases hf : firstPrefix c.prefixes path with
    | none => simp
    | some pfx =>
      by_cases hpe : pfx = []
      · subst hpe; simp
      · have hpi : pfx.isEmpty = false := by simpa using hpe
        simp only [Option.getD_some, hpi, Bool.not_false, Bool.and_self, ↓reduceIte, true_and,
          Option.some.injEq, exists_eq_left', ne_eq, hpe, not_false_eq_true]
        have hpre := (firstPrefix_mem c.prefixes path pfx hf).2
        obtain ⟨s1, s2, s3⟩ := httpStripPrefix_spec pfx path raw hpe hpre
        by_cases hr : raw = []
        · rw [s1 hr]; simp [hr]
        · by_cases hpr : pfx <+: raw
          · rw [s2 hr hpr]; simp [hpr]
          · rw [s3 hr hpr]; simp [hr, hpr]

/-! ### ServeMux registration (transport/websocket/http), after the fix of F23 -/

/-- The lookup is answered iff `ServeMux.Handler` reports a matched (non-empty) pattern. -/
theorem mux_answers_iff (pattern : Bytes) : muxAnswers pattern = true ↔ pattern ≠ [] := by
  unfold muxAnswers
  simp

/-- `MatchServeMuxPattern` asks the mux with the lookup's method, or `OPTIONS` when it has none. -/
theorem muxMethod_spec (m : Bytes) :
    (m = [] → muxMethod m = [79, 80, 84, 73, 79, 78, 83]) ∧ (m ≠ [] → muxMethod m = m) := by
  unfold muxMethod
  constructor
  · intro h; simp [h]
  · intro h; simp [h]

/-- …and with the host of the lookup URL as `Request.Host`, so that a host-qualified pattern
(`"GET example.com/my/ws"`) can answer a lookup that names that host. -/
theorem muxHost_spec (h : Bytes) : muxHost h = h := rfl

/-! ### non-vacuity -/

/-- A stripping registration that serves a request: prefixes `["a"]`, service ID `"ab"` → `"b"`. -/
example : (RpcSvc.mk [[97]] true false [] false).seen [97, 98] = some [98] := by decide

/-- The refusal corner is inhabited: list-only match with stripping on. -/
example : (RpcSvc.mk [[97]] true false [[98]] false).answers (fun _ => false) (fun _ => false) [98] [] = true ∧
    (RpcSvc.mk [[97]] true false [[98]] false).seen [98] = none := by decide

/-- The `[] ∉ ps` hypothesis of `invoker_answers_partial` is satisfiable with a served request. -/
example : ([] : Bytes) ∉ [[97]] ∧ invokerAnswers [[97]] [97, 98] = true := by decide

/-- The built client controller: `["a"]` serves `"ab"` as `"b"`; the hypothesis of
`client_built_answers_partial` holds for it. -/
example : ([] : Bytes) ∉ ([[97]] : List Bytes).tail ∧ clientCtlAnswers [[97]] [97, 98] = true ∧
    clientCtlSeen [[97]] [97, 98] = some [98] := by decide

/-- Access client: both patterns configured, both IDs named and matching. -/
example : (AccessClient.mk true true).answers (fun _ => true) (fun _ => true) [97] [115] = true ∧
    (AccessClient.mk true true).answers (fun _ => false) (fun _ => true) [97] [115] = false := by decide

/-- HTTP: escaped path that does not carry the prefix → 404 branch. -/
example : (HttpCtl.mk [[47, 97, 47]] true false).seen (fun _ => false) [47, 97, 47, 98] [47, 97, 37, 50, 70, 98] = none := by
  decide

end Bifrost.Props.C35
