import Bifrost.Model.SolicitSys
import Bifrost.Lemmas.SolicitSysInv
import Bifrost.Props.C30
import Bifrost.Props.C31
import Bifrost.Props.C32
/-!
C30 (with C31, C32) on the two-sided exchange — `Bifrost.SolicitSys`: two solicitation
controllers on the two ends of ONE link, directive sets that change over time, the hash lists
exchanged in FIFO order per direction, solicited streams opened by the lower peer and resolved on
both sides (`link/solicit/controller/controller.go`: `addLink`, `runControlStream`,
`evaluateMatches`, `openSolicitedStream`, `handleIncomingSolicitedStream`, `resolveMatch` as fixed
by "fix: a solicited stream that no directive takes was never closed").

Every theorem quantifies over ALL op sequences (`run H c ops`): any number of directives added
and removed on either side at any time, any interleaving of the loop iterations, message
deliveries, stream opens and stream arrivals. BLAKE3 is the parameter `H`; nothing is assumed about
it except the explicit no-collision hypothesis on the two preimages concerned (as in
`Props.C30.matched_iff`).
-/
namespace Bifrost.Props.C30Sys
open Bifrost Bifrost.Solicit Bifrost.SolicitSys

/-! ### Session identifier and the lower peer (C32 on the exchange) -/

/-- Both sides compute the same session identifier, each from its own (local, remote) view. -/
theorem session_id_agrees (H : Bytes → Bytes) (c : Cfg) : c.sid H .A = c.sid H .B := by
  unfold Cfg.sid Cfg.remotePeer
  exact C32.sessionID_comm H c.pA c.pB

/-- A controller that hashed `ComputeSessionID(local, local)` would break this: the identifier
is the one of the PAIR. -/
theorem session_id_is_pair (H : Bytes → Bytes) (c : Cfg) (x : Side) : c.sid H x = sessionID H c.pA c.pB := by
  cases x
  · rfl
  · exact (session_id_agrees H c).symm

/-- The hash list a side offers depends on the two peers only through the session identifier
(and through the constraint filter `view`): equal session IDs, equal filter, equal limit give
equal lists, whatever the peers are. -/
theorem hashList_through_session (H : Bytes → Bytes) (c c' : Cfg) (x : Side) (n : Node)
    (hs : c.sid H x = c'.sid H x) (hv : c.view x = c'.view x) (hm : c.max x = c'.max x) :
    hashList H c x n = hashList H c' x n := by
  unfold hashList
  rw [hs, hv, hm]

/-- With two different peer IDs exactly one side is the lower peer. -/
theorem exactly_one_lower (c : Cfg) (hne : c.pA ≠ c.pB) :
    (c.isLower .A = true ∧ c.isLower .B = false) ∨ (c.isLower .A = false ∧ c.isLower .B = true) := by
  rcases isLower_total c hne .A with h | h
  · exact Or.inl ⟨h, isLower_other c .A h⟩
  · exact Or.inr ⟨isLower_other c .B h, h⟩

/-! ### Matched ⇒ same protocol, same context, constraints admit (all reachable states) -/

/-- Directive instance `iA` of A and `iB` of B are matched with each other: each received a value
wrapping one end of the SAME solicited stream. -/
def MatchedSys (st : State) (iA iB : Inst) : Prop :=
  ∃ s, (⟨iA.id, iA.d, s⟩ : Delivery) ∈ st.a.recv ∧ (⟨iB.id, iB.d, s⟩ : Delivery) ∈ st.b.recv

/-- Whatever the history, two deliveries of the same stream — one on each side — went to
directives with the same protocol ID and the same context whose constraints admit the link. -/
theorem matched_sound (H : Bytes → Bytes) (c : Cfg) (ops : List Op) (rA rB : Delivery)
    (hA : rA ∈ (run H c ops).a.recv) (hB : rB ∈ (run H c ops).b.recv) (hs : rA.stream = rB.stream)
    (hpA : rA.d.pid.length < 2 ^ 64) (hpB : rB.d.pid.length < 2 ^ 64)
    (hcr : H (protocolPreimage (c.sid H .A) rA.d.pid rA.d.ctx) = H (protocolPreimage (c.sid H .A) rB.d.pid rB.d.ctx) →
      protocolPreimage (c.sid H .A) rA.d.pid rA.d.ctx = protocolPreimage (c.sid H .A) rB.d.pid rB.d.ctx) :
    rA.d.pid = rB.d.pid ∧ rA.d.ctx = rB.d.ctx ∧
      admits rA.d (c.view .A) = true ∧ admits rB.d (c.view .B) = true := by
  have hI := (inv_run H c ops).c'
  obtain ⟨srA, hsA, haA, hhA⟩ := hI.recvSound .A rA hA
  obtain ⟨srB, hsB, haB, hhB⟩ := hI.recvSound .B rB hB
  rw [hs, hsB] at hsA
  cases hsA
  rw [dirHash_side H c .B .A] at hhB
  have hpre := hcr (by unfold dirHash protocolHash at hhA hhB; rw [hhA, hhB])
  obtain ⟨_, h1, h2⟩ := C30.protocolPreimage_injective _ _ _ _ _ _ rfl hpA hpB hpre
  exact ⟨h1, h2, haA, haB⟩

/-! ### One solicited stream per matched hash, opened by the lower peer -/

/-- Every solicited stream was opened by the lower peer… -/
theorem opened_by_lower (H : Bytes → Bytes) (c : Cfg) (ops : List Op) :
    ∀ sr ∈ (run H c ops).streams, c.isLower sr.opener = true :=
  (inv_run H c ops).b.openerLower

/-- …the higher peer opens none… -/
theorem higher_never_opens (H : Bytes → Bytes) (c : Cfg) (ops : List Op) (x : Side)
    (hx : c.isLower x = false) : ∀ sr ∈ (run H c ops).streams, sr.opener ≠ x := by
  intro sr hsr e
  have := opened_by_lower H c ops sr hsr
  rw [e, hx] at this
  cases this

/-- …and no two streams carry the same hash: however often the lists are re-exchanged and
re-evaluated, a matched hash gets ONE stream. -/
theorem one_stream_per_hash (H : Bytes → Bytes) (c : Cfg) (ops : List Op) :
    ((run H c ops).streams.map (·.hash)).Nodup := by
  have hI := (inv_run H c ops).b
  cases hst : (run H c ops).streams with
  | nil => simp
  | cons sr0 rest =>
    have h0 : sr0 ∈ (run H c ops).streams := by rw [hst]; exact List.mem_cons_self
    have hall : ∀ sr ∈ (run H c ops).streams, sr.opener = sr0.opener := by
      intro sr hsr
      rcases eq_or_other sr0.opener sr.opener with e | e
      · exact e
      · have h1 := hI.openerLower sr hsr
        have h2 := isLower_other c _ (hI.openerLower sr0 h0)
        rw [e, h2] at h1
        cases h1
    have hnd := hI.openNodup sr0.opener
    rw [List.nodup_append] at hnd
    have : opened (run H c ops) sr0.opener = (run H c ops).streams.map (·.hash) := by
      unfold opened
      rw [List.filter_eq_self.mpr]
      intro sr hsr
      simpa using hall sr hsr
    rw [this, hst] at hnd
    exact hnd.2.1

/-- A stream is opened only for a hash that its opener has recorded as matched and that BOTH
sides have offered. -/
theorem stream_only_for_matched (H : Bytes → Bytes) (c : Cfg) (ops : List Op) :
    ∀ sr ∈ (run H c ops).streams, sr.hash ∈ ((run H c ops).node sr.opener).matched ∧
      sr.hash ∈ (run H c ops).a.everSent ∧ sr.hash ∈ (run H c ops).b.everSent := by
  intro sr hsr
  have hI := inv_run H c ops
  refine ⟨hI.b.openMatched sr.opener sr.hash (Or.inr ?_), hI.e.streamEver sr hsr .A, hI.e.streamEver sr hsr .B⟩
  unfold opened
  exact List.mem_map.mpr ⟨sr, List.mem_filter.mpr ⟨hsr, by simp⟩, rfl⟩

/-- At quiescence every hash the lower peer has matched has its stream — exactly one. -/
theorem exactly_one_stream (H : Bytes → Bytes) (c : Cfg) (ops : List Op) (x : Side)
    (hq : quiescent H c (run H c ops)) (hx : c.isLower x = true) (h : Bytes)
    (hm : h ∈ ((run H c ops).node x).matched) :
    ((run H c ops).streams.map (·.hash)).count h = 1 := by
  have hI := (inv_run H c ops).b
  have hin : h ∈ (run H c ops).streams.map (·.hash) := by
    rcases hI.matchedOpen x hx h hm with hp | ho
    · rw [(hq x).2.1] at hp; cases hp
    · unfold opened at ho
      obtain ⟨sr, hsr, rfl⟩ := List.mem_map.mp ho
      exact List.mem_map.mpr ⟨sr, (List.mem_filter.mp hsr).1, rfl⟩
  exact count_eq_one_of_nodup_mem _ (one_stream_per_hash H c ops) h hin

/-! ### Every stream is resolved once per side; a stream nobody takes is closed (C31 on the exchange) -/

/-- On each side a stream is passed to `resolveMatch` at most once (the assumption of
`Props.C31`: one `resolve` op per stream)… -/
theorem resolved_once (H : Bytes → Bytes) (c : Cfg) (ops : List Op) (x : Side) :
    ((run H c ops).node x).resolved.Nodup :=
  (inv_run H c ops).c'.resolvedNodup x

/-- …and at quiescence every opened stream has been resolved on BOTH sides. -/
theorem resolved_on_both_sides (H : Bytes → Bytes) (c : Cfg) (ops : List Op)
    (hq : quiescent H c (run H c ops)) (s : Nat) (hs : s < (run H c ops).streams.length) (x : Side) :
    s ∈ ((run H c ops).node x).resolved := by
  have hI := (inv_run H c ops).c'
  obtain ⟨sr, hsr⟩ : ∃ sr, (run H c ops).streams[s]? = some sr := ⟨_, List.getElem?_eq_getElem hs⟩
  obtain ⟨h1, h2⟩ := hI.streamHandled s sr hsr
  rcases eq_or_other sr.opener x with rfl | rfl
  · exact h1
  · rcases h2 with h2 | h2
    · rw [(hq _).2.2.1] at h2; cases h2
    · exact h2

/-- The values of one side, as ops of the single-owner model of C31: one `resolve k` per stream
passed to `resolveMatch`, `k` = the number of directives that received the value. -/
def smsResolves (st : State) (x : Side) : List Wrappers.Sms.Op :=
  (st.node x).resolved.map fun s => .resolve ((st.node x).recv.filter (·.stream = s)).length

/-- So `Props.C31.one_owner` applies to the values created on either side of the exchange:
whatever accept/close calls follow, at most one `AcceptMountedStream` call returns a given
stream end. -/
theorem one_owner_on_exchange (H : Bytes → Bytes) (c : Cfg) (ops : List Op) (x : Side)
    (calls : List Wrappers.Sms.Op) (m : Nat) :
    (Wrappers.Sms.runRes {} (smsResolves (run H c ops) x ++ calls)).2.count (.stream (some m)) ≤ 1 :=
  C31.one_owner _ m

/-- A resolved stream is closed by the controller exactly when no directive received it:
handed to nobody ⇒ closed; handed to somebody ⇒ not closed by the controller. -/
theorem closed_iff_unowned (H : Bytes → Bytes) (c : Cfg) (ops : List Op) (x : Side) (s : Nat) :
    s ∈ ((run H c ops).node x).closed ↔
      (s ∈ ((run H c ops).node x).resolved ∧ ∀ r ∈ ((run H c ops).node x).recv, r.stream ≠ s) :=
  (inv_run H c ops).c'.closedIff x s

/-- A stream arriving for a hash that no local directive (admitting the link) offers is closed
and handed to nobody. -/
theorem arrive_unoffered_closed (H : Bytes → Bytes) (c : Cfg) (ops : List Op) (x : Side) (s : Nat)
    (sr : Stream) (ha : s ∈ ((run H c ops).node x).arriving) (hs : (run H c ops).streams[s]? = some sr)
    (hno : ∀ i ∈ ((run H c ops).node x).dirs, ¬ (admits i.d (c.view x) = true ∧ dirHash H c x i.d = sr.hash)) :
    s ∈ ((step H c (run H c ops) (.arrive x s)).node x).closed ∧
      ∀ r ∈ ((step H c (run H c ops) (.arrive x s)).node x).recv, r.stream ≠ s := by
  have hI := (inv_run H c ops).c'
  have hx : (step H c (run H c ops) (.arrive x s)).node x =
      resolveOn H c x { (run H c ops).node x with arriving := ((run H c ops).node x).arriving.erase s } sr.hash s := by
    simp [step, ha, hs]
  rw [hx]
  have hrecv : ∀ r ∈ (resolveOn H c x { (run H c ops).node x with arriving := ((run H c ops).node x).arriving.erase s } sr.hash s).recv,
      r.stream ≠ s := by
    intro r hr
    rw [mem_resolveOn_recv] at hr
    rcases hr with hr | ⟨i, hi, h1, h2, _⟩
    · intro e
      exact (hI.arrivingOk x s ha).1 (e ▸ hI.recvResolved x r hr)
    · exact absurd ⟨h1, h2⟩ (hno i hi)
  refine ⟨?_, hrecv⟩
  rw [mem_resolveOn_closed]
  exact Or.inr ⟨rfl, hno⟩

/-! ### Matched ⇔ same protocol ∧ same context ∧ constraints admit, at quiescence -/

/-- No side's offer is truncated by either controller's `maxHashes`. -/
def NoTrunc (H : Bytes → Bytes) (c : Cfg) (st : State) : Prop :=
  ∀ x y : Side, (offered H (c.sid H x) ((st.node x).dirs.map (·.d)) (c.view x)).length ≤ c.max y

/-- At quiescence, two present directives with the same protocol ID and context whose constraints
admit the link — each issued before its side had ever offered that hash (`early`) — have received
the two ends of one stream. -/
theorem matched_complete (H : Bytes → Bytes) (c : Cfg) (ops : List Op) (iA iB : Inst)
    (hq : quiescent H c (run H c ops)) (hne : c.pA ≠ c.pB) (hnt : NoTrunc H c (run H c ops))
    (hA : iA ∈ (run H c ops).a.dirs) (hB : iB ∈ (run H c ops).b.dirs)
    (eA : iA.early = true) (eB : iB.early = true)
    (hpid : iA.d.pid = iB.d.pid) (hctx : iA.d.ctx = iB.d.ctx)
    (haA : admits iA.d (c.view .A) = true) (haB : admits iB.d (c.view .B) = true) :
    MatchedSys (run H c ops) iA iB := by
  have hI := inv_run H c ops
  generalize run H c ops = st at *
  let h := dirHash H c .A iA.d
  have hhB : dirHash H c .B iB.d = h := by
    show dirHash H c .B iB.d = dirHash H c .A iA.d
    rw [dirHash_side H c .B .A]; unfold dirHash; rw [hpid, hctx]
  have hdir : ∀ x : Side, ∃ i ∈ (st.node x).dirs, admits i.d (c.view x) = true ∧ dirHash H c x i.d = h := by
    intro x; cases x
    · exact ⟨iA, hA, haA, rfl⟩
    · exact ⟨iB, hB, haB, hhB⟩
  -- the hash is in both sides' current lists
  have hsent : ∀ x : Side, h ∈ (st.node x).sent := by
    intro x
    rw [(hq x).2.2.2, mem_hashList_of_le H c x _ (hnt x x), C30.offered_iff]
    obtain ⟨i, hi, ha, hh⟩ := hdir x
    exact ⟨i.d, List.mem_map.mpr ⟨i, hi, rfl⟩, ha, hh⟩
  -- each side holds the other's current list
  have hremote : ∀ x : Side, (st.node x).remote = (st.node x.other).sent := by
    intro x
    have hc := hI.a.chan x
    unfold pendingRemote at hc
    rw [(hq x).1] at hc
    simp only [List.getLast?_nil] at hc
    rw [hc, List.take_of_length_le]
    rw [(hq x.other).2.2.2]
    exact Nat.le_trans (hashList_length_le H c x.other _) (hnt x.other x)
  -- so both sides have recorded the match
  have hmatched : ∀ x : Side, h ∈ (st.node x).matched := by
    intro x
    apply hI.a.evald x
    rw [findMatching_mem_iff _ _ (hI.a.sentSorted x) (hI.a.remoteSorted x), hremote x]
    exact ⟨hsent x, hsent x.other⟩
  -- the lower side has opened its stream
  obtain ⟨L, hL⟩ : ∃ L, c.isLower L = true := by
    rcases isLower_total c hne .A with h' | h'
    · exact ⟨_, h'⟩
    · exact ⟨_, h'⟩
  have hop : h ∈ opened st L := by
    rcases hI.b.matchedOpen L hL h (hmatched L) with hp | ho
    · rw [(hq L).2.1] at hp; cases hp
    · exact ho
  unfold opened at hop
  obtain ⟨sr, hsr, hsrh⟩ := List.mem_map.mp hop
  obtain ⟨hsr, hopn⟩ := List.mem_filter.mp hsr
  have hopn : sr.opener = L := by simpa using hopn
  obtain ⟨s, hs⟩ := List.getElem?_of_mem hsr
  -- which both sides have resolved
  have hres : ∀ x : Side, s ∈ (st.node x).resolved := by
    intro x
    obtain ⟨h1, h2⟩ := hI.c'.streamHandled s sr hs
    rcases eq_or_other sr.opener x with rfl | rfl
    · exact h1
    · rcases h2 with h2 | h2
      · rw [(hq _).2.2.1] at h2; cases h2
      · exact h2
  refine ⟨s, ?_, ?_⟩
  · exact hI.e.earlyRecv .A s (hres .A) sr hs iA hA eA haA (by rw [hsrh])
  · exact hI.e.earlyRecv .B s (hres .B) sr hs iB hB eB haB (by rw [hsrh]; exact hhB)

/-- **Matched exactly when** same protocol ID, same context bytes, and each side's peer and
transport constraints admit the link — at quiescence, for directives issued before their side
first offered that hash, without truncation, and provided BLAKE3 does not collide on the two
preimages. -/
theorem matched_iff_quiescent_partial (H : Bytes → Bytes) (c : Cfg) (ops : List Op) (iA iB : Inst)
    (hq : quiescent H c (run H c ops)) (hne : c.pA ≠ c.pB) (hnt : NoTrunc H c (run H c ops))
    (hA : iA ∈ (run H c ops).a.dirs) (hB : iB ∈ (run H c ops).b.dirs)
    (eA : iA.early = true) (eB : iB.early = true)
    (hpA : iA.d.pid.length < 2 ^ 64) (hpB : iB.d.pid.length < 2 ^ 64)
    (hcr : H (protocolPreimage (c.sid H .A) iA.d.pid iA.d.ctx) = H (protocolPreimage (c.sid H .A) iB.d.pid iB.d.ctx) →
      protocolPreimage (c.sid H .A) iA.d.pid iA.d.ctx = protocolPreimage (c.sid H .A) iB.d.pid iB.d.ctx) :
    MatchedSys (run H c ops) iA iB ↔
      (iA.d.pid = iB.d.pid ∧ iA.d.ctx = iB.d.ctx ∧
        admits iA.d (c.view .A) = true ∧ admits iB.d (c.view .B) = true) := by
  constructor
  · rintro ⟨s, h1, h2⟩
    exact matched_sound H c ops _ _ h1 h2 rfl hpA hpB hcr
  · rintro ⟨h1, h2, h3, h4⟩
    exact matched_complete H c ops iA iB hq hne hnt hA hB eA eB h1 h2 h3 h4

/-! ### The full statement is false of the code: a hash is matched once per link -/

namespace Witness
/-- peers `01` (lower) and `02`; transports 7 / 8; no truncation -/
def cfg : Cfg := ⟨[1], [2], 7, 8, 4, 4⟩
/-- a toy hash without collisions -/
def Hid : Bytes → Bytes := fun x => x
def d : Dir := ⟨[5], [6], [], 0⟩
/-- the same solicitation restricted to the peer `02` -/
def dPeer : Dir := ⟨[5], [6], [2], 0⟩
def h : Bytes := dirHash Hid cfg .A d
/-- A and B solicit `d`, the stream is opened and handed to both. -/
def first : List Op :=
  [.add .A d, .add .B d, .sync .A, .sync .B, .deliver .A, .deliver .B, .open .A h, .arrive .B 0]
/-- …then A adds a second solicitation for the same protocol and context (peer-restricted). -/
def late : List Op := first ++ [.add .A dPeer, .sync .A, .deliver .B]
/-- …or both sides drop their solicitation and issue it again. -/
def again : List Op :=
  first ++ [.remove .A 0, .remove .B 0, .sync .A, .sync .B, .deliver .A, .deliver .B,
            .add .A d, .add .B d, .sync .A, .sync .B, .deliver .A, .deliver .B]
end Witness

open Witness in
/-- REFUTED: "at quiescence two present solicitations are matched exactly when same protocol,
same context and admitting constraints" without the `early` hypothesis. After the stream for a
hash has been opened, a further solicitation for the same protocol and context on the same link
(here restricted to the peer) is never matched: the hash stays in `ls.matched`. -/
theorem matched_iff_quiescent_false :
    ¬ (∀ (H : Bytes → Bytes) (c : Cfg) (ops : List Op) (iA iB : Inst),
        quiescent H c (run H c ops) → c.pA ≠ c.pB → NoTrunc H c (run H c ops) →
        iA ∈ (run H c ops).a.dirs → iB ∈ (run H c ops).b.dirs →
        iA.d.pid.length < 2 ^ 64 → iB.d.pid.length < 2 ^ 64 →
        (H (protocolPreimage (c.sid H .A) iA.d.pid iA.d.ctx) = H (protocolPreimage (c.sid H .A) iB.d.pid iB.d.ctx) →
          protocolPreimage (c.sid H .A) iA.d.pid iA.d.ctx = protocolPreimage (c.sid H .A) iB.d.pid iB.d.ctx) →
        (MatchedSys (run H c ops) iA iB ↔
          (iA.d.pid = iB.d.pid ∧ iA.d.ctx = iB.d.ctx ∧
            admits iA.d (c.view .A) = true ∧ admits iB.d (c.view .B) = true))) := by
  intro hall
  have hrecv : (run Hid cfg late).a.recv = [⟨0, d, 0⟩] := by decide +kernel
  have := (hall Hid cfg late ⟨1, dPeer, false⟩ ⟨0, d, true⟩ (by decide +kernel) (by decide)
    (by intro x y; cases x <;> cases y <;> decide +kernel) (by decide +kernel) (by decide +kernel)
    (by decide) (by decide) (fun e => e)).mpr (by decide)
  obtain ⟨s, h1, _⟩ := this
  rw [hrecv] at h1
  simp [dPeer, d] at h1

open Witness in
/-- REFUTED likewise: after a solicitation has been matched once, the same solicitation issued
AGAIN by both peers (both dropped it, both lists went empty and were re-exchanged) is never
matched on that link. -/
theorem resolicit_never_matched :
    quiescent Hid cfg (run Hid cfg again) ∧
    (⟨1, d, false⟩ : Inst) ∈ (run Hid cfg again).a.dirs ∧ (⟨1, d, false⟩ : Inst) ∈ (run Hid cfg again).b.dirs ∧
    ¬ MatchedSys (run Hid cfg again) ⟨1, d, false⟩ ⟨1, d, false⟩ := by
  refine ⟨by decide +kernel, by decide +kernel, by decide +kernel, ?_⟩
  have hrecv : (run Hid cfg again).a.recv = [⟨0, d, 0⟩] := by decide +kernel
  rintro ⟨s, h1, _⟩
  rw [hrecv] at h1
  simp at h1

open Witness in
/-- Non-vacuity: the first exchange does match the two solicitations — through one stream,
opened by the lower peer A — and every hypothesis of `matched_iff_quiescent_partial` holds. -/
example : quiescent Hid cfg (run Hid cfg first) ∧ NoTrunc Hid cfg (run Hid cfg first) ∧
    (⟨0, d, true⟩ : Inst) ∈ (run Hid cfg first).a.dirs ∧ (⟨0, d, true⟩ : Inst) ∈ (run Hid cfg first).b.dirs ∧
    MatchedSys (run Hid cfg first) ⟨0, d, true⟩ ⟨0, d, true⟩ ∧
    (run Hid cfg first).streams = [⟨h, .A⟩] ∧ cfg.isLower .A = true := by
  refine ⟨by decide +kernel, by intro x y; cases x <;> cases y <;> decide +kernel, by decide +kernel,
    by decide +kernel, ⟨0, by decide +kernel, by decide +kernel⟩, by decide +kernel, by decide⟩

open Witness in
/-- Non-vacuity: a stream that arrives after its solicitation was dropped is closed and handed
to nobody. -/
example : (run Hid cfg [.add .A d, .add .B d, .sync .A, .sync .B, .deliver .A, .deliver .B,
      .open .A h, .remove .B 0, .arrive .B 0]).b.closed = [0] ∧
    (run Hid cfg [.add .A d, .add .B d, .sync .A, .sync .B, .deliver .A, .deliver .B,
      .open .A h, .remove .B 0, .arrive .B 0]).b.recv = [] := by
  constructor <;> decide +kernel

end Bifrost.Props.C30Sys
