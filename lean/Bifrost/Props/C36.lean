import Bifrost.Model.Dispatch
import Bifrost.Lemmas.DispatchLookup
/-!
C36 — Remote RPC lookups report service availability faithfully.

`run evs` is the `LookupRpcService` closure of `rpc/access/server.go` fed with the bus callbacks
`evs` (value added / removed, idle changed); its second component is everything appended to the
send queue, in order (the send loop forwards the queue in order and drops at most a suffix when the
stream ends, and every statement below that is about the reports — `alternates`, `idleChanges` —
is closed under taking prefixes).

`Fresh [] evs` is the controller-bus contract that a value ID is not handed out again while the
value is live; `dup_add_double_exists` shows what the server does without it.
-/
namespace Bifrost.Props.C36
open Bifrost Bifrost.Dispatch

/-- The reports are exactly the availability / idle *changes* of the history: `Exists` when the
provider count goes 0→1, `Removed` when it goes 1→0, an idle report when the idle state changes,
in order, nothing else; the final state is the live provider set and the last idle state. -/
theorem reports_exactly_changes (evs : List Ev) (h : Fresh [] evs) :
    (run evs).2 = specFrom [] false evs ∧ (run evs).1 = ⟨liveAfter [] evs, idleAfter false evs⟩ :=
  runFrom_spec evs [] false h

/-- Never two `Exists` or two `Removed` in a row; the first availability report is `Exists`;
no report says both. -/
theorem alternates (evs : List Ev) (h : Fresh [] evs) : Dispatch.alternates true (run evs).2 := by
  rw [(reports_exactly_changes evs h).1]
  exact alternates_spec evs [] false

/-- From any reachable situation too (providers `live` attached, not necessarily none). -/
theorem alternates_from (live : List Nat) (idle : Bool) (evs : List Ev) (h : Fresh live evs) :
    Dispatch.alternates live.isEmpty (runFrom ⟨live, idle⟩ evs).2 := by
  rw [(runFrom_spec evs live idle h).1]
  exact alternates_spec evs live idle

/-- Idle is reported on change only, starting from "not idle" — for every history. -/
theorem idle_changes_only (evs : List Ev) : idleChanges false (run evs).2 :=
  idleChanges_runFrom evs {}

/-- What the receiver concludes from the stream is the truth: it believes the service exists iff
a provider is attached, and the last idle state it was told is the bus's current one. -/
theorem view_faithful (evs : List Ev) (h : Fresh [] evs) :
    clientExists false (run evs).2 = !(liveAfter [] evs).isEmpty ∧
    clientIdle false (run evs).2 = idleAfter false evs := by
  rw [(reports_exactly_changes evs h).1]
  exact ⟨clientExists_spec evs [] false, clientIdle_spec evs [] false⟩

/-- Values that are not RPC services, and removals of values the server never counted, are ignored. -/
theorem foreign_ignored (s : St) (id : Nat) :
    step s (.added id false) = (s, []) ∧ (id ∉ s.vals → step s (.removed id) = (s, [])) := by
  constructor
  · simp [step]
  · intro h
    simp only [step, contains_false h, Bool.not_false, ↓reduceIte]

/-- Without the bus contract: the same live value ID added twice is reported as `Exists` twice
(the server tests `len(vals) == 1` after a map insert). The real bus never does this. -/
theorem dup_add_double_exists :
    (run [.added 1 true, .added 1 true]).2 = [Msg.mkExists, Msg.mkExists] := by decide

/-! ### component IDs -/

/-- Every request with a service ID or a server ID survives the component-ID round trip, with no
unknown fields left over. (Lengths below 2^63: Go strings cannot be longer.) -/
theorem componentID_roundtrip (r : Req) (hne : r.serviceId ≠ [] ∨ r.serverId ≠ [])
    (h1 : r.serviceId.length < 2 ^ 63) (h2 : r.serverId.length < 2 ^ 63) :
    unmarshalComponentID (marshalComponentID r) = some (r, []) := by
  unfold unmarshalComponentID marshalComponentID
  have hm : r.marshal ≠ [] := by
    intro h0
    have := (marshal_eq_nil_iff r).mp h0
    rcases hne with h | h
    · exact h this.1
    · exact h this.2
  rw [B58.decode_encode r.marshal hm]
  exact unmarshal_marshal r h1 h2

/-- Component IDs of different requests differ. -/
theorem componentID_injective (a b : Req) (ha : a.serviceId ≠ [] ∨ a.serverId ≠ [])
    (hb : b.serviceId ≠ [] ∨ b.serverId ≠ [])
    (la1 : a.serviceId.length < 2 ^ 63) (la2 : a.serverId.length < 2 ^ 63)
    (lb1 : b.serviceId.length < 2 ^ 63) (lb2 : b.serverId.length < 2 ^ 63)
    (h : marshalComponentID a = marshalComponentID b) : a = b := by
  have h1 := componentID_roundtrip a ha la1 la2
  have h2 := componentID_roundtrip b hb lb1 lb2
  rw [h, h2] at h1
  simp only [Option.some.injEq, Prod.mk.injEq, and_true] at h1
  exact h1.symm

/-- The one request that does not round-trip: the empty one (its component ID is the empty
string, which base58 decoding refuses). It is not a valid request (`Validate` requires a service ID). -/
theorem componentID_empty : marshalComponentID ⟨[], []⟩ = [] ∧ unmarshalComponentID [] = none := by
  constructor
  · decide
  · unfold unmarshalComponentID
    rw [B58.decode_nil]

/-! ### non-vacuity -/

/-- The contract is satisfiable by a history that exercises every kind of report. -/
example : Fresh [] [.added 1 true, .idle true, .added 2 true, .removed 1, .removed 2, .idle false] ∧
    (run [.added 1 true, .idle true, .added 2 true, .removed 1, .removed 2, .idle false]).2 =
      [Msg.mkExists, Msg.mkIdle true, Msg.mkRemoved, Msg.mkIdle false] := by
  constructor
  · simp [Fresh]
  · decide

example : ∃ r : Req, (r.serviceId ≠ [] ∨ r.serverId ≠ []) ∧ r.serviceId.length < 2 ^ 63 ∧ r.serverId.length < 2 ^ 63 :=
  ⟨⟨[97], []⟩, Or.inl (by simp), by simp, by simp⟩

end Bifrost.Props.C36
