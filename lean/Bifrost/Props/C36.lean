import Bifrost.Model.Dispatch
import Bifrost.Lemmas.DispatchLookup
import Bifrost.Lemmas.DispatchLookupErr
import Bifrost.Gen.Directives
/-!
C36 — Remote RPC lookups report service availability faithfully.

`run evs` is the `LookupRpcService` closure of `rpc/access/server.go` fed with the bus callbacks
`evs` (value added / removed, idle changed); its second component is everything appended to the
send queue, in order (the send loop forwards the queue in order and drops at most a suffix when the
stream ends, and every statement below that is about the reports — `alternates`, `idleChanges` —
is closed under taking prefixes).

`Fresh [] evs` is the controller-bus contract that a value ID is not handed out again while the
value is live; `dup_add_double_exists` shows what the server does without it.
-/
namespace Bifrost.Props.C36
open Bifrost Bifrost.Dispatch

/-- The reports are exactly the availability / idle *changes* of the history: `Exists` when the
provider count goes 0→1, `Removed` when it goes 1→0, an idle report when the idle state changes,
in order, nothing else; the final state is the live provider set and the last idle state. -/
theorem reports_exactly_changes (evs : List Ev) (h : Fresh [] evs) :
    (run evs).2 = specFrom [] false evs ∧ (run evs).1 = ⟨liveAfter [] evs, idleAfter false evs⟩ :=
  runFrom_spec evs [] false h

/-- Never two `Exists` or two `Removed` in a row; the first availability report is `Exists`;
no report says both. -/
theorem alternates (evs : List Ev) (h : Fresh [] evs) : Dispatch.alternates true (run evs).2 := by
  rw [(reports_exactly_changes evs h).1]
  exact alternates_spec evs [] false

/-- From any reachable situation too (providers `live` attached, not necessarily none). -/
theorem alternates_from (live : List Nat) (idle : Bool) (evs : List Ev) (h : Fresh live evs) :
    Dispatch.alternates live.isEmpty (runFrom ⟨live, idle⟩ evs).2 := by
  rw [(runFrom_spec evs live idle h).1]
  exact alternates_spec evs live idle

/-- Idle is reported on change only, starting from "not idle" — for every history. -/
theorem idle_changes_only (evs : List Ev) : idleChanges false (run evs).2 :=
  idleChanges_runFrom evs {}

/-- What the receiver concludes from the stream is the truth: it believes the service exists iff
a provider is attached, and the last idle state it was told is the bus's current one. -/
theorem view_faithful (evs : List Ev) (h : Fresh [] evs) :
    clientExists false (run evs).2 = !(liveAfter [] evs).isEmpty ∧
    clientIdle false (run evs).2 = idleAfter false evs := by
  rw [(reports_exactly_changes evs h).1]
  exact ⟨clientExists_spec evs [] false, clientIdle_spec evs [] false⟩

/-- Values that are not RPC services, and removals of values the server never counted, are ignored. -/
theorem foreign_ignored (s : St) (id : Nat) :
    step s (.added id false) = (s, []) ∧ (id ∉ s.vals → step s (.removed id) = (s, [])) := by
  constructor
  · simp [step]
  · intro h
    simp only [step, contains_false h, Bool.not_false, ↓reduceIte]

/-- Without the bus contract: the same live value ID added twice is reported as `Exists` twice
(the server tests `len(vals) == 1` after a map insert). The real bus never does this. -/
theorem dup_add_double_exists :
    (run [.added 1 true, .added 1 true]).2 = [Msg.mkExists, Msg.mkExists] := by decide

/-! ### component IDs -/

/-- Every request with a service ID or a server ID survives the component-ID round trip, with no
unknown fields left over. (Lengths below 2^63: Go strings cannot be longer.) -/
theorem componentID_roundtrip (r : Req) (hne : r.serviceId ≠ [] ∨ r.serverId ≠ [])
    (h1 : r.serviceId.length < 2 ^ 63) (h2 : r.serverId.length < 2 ^ 63) :
    unmarshalComponentID (marshalComponentID r) = some (r, []) := by
  unfold unmarshalComponentID marshalComponentID
  have hm : r.marshal ≠ [] := by
    intro h0
    have := (marshal_eq_nil_iff r).mp h0
    rcases hne with h | h
    · exact h this.1
    · exact h this.2
  rw [B58.decode_encode r.marshal hm]
  exact unmarshal_marshal r h1 h2

/-- Component IDs of different requests differ. -/
theorem componentID_injective (a b : Req) (ha : a.serviceId ≠ [] ∨ a.serverId ≠ [])
    (hb : b.serviceId ≠ [] ∨ b.serverId ≠ [])
    (la1 : a.serviceId.length < 2 ^ 63) (la2 : a.serverId.length < 2 ^ 63)
    (lb1 : b.serviceId.length < 2 ^ 63) (lb2 : b.serverId.length < 2 ^ 63)
    (h : marshalComponentID a = marshalComponentID b) : a = b := by
  have h1 := componentID_roundtrip a ha la1 la2
  have h2 := componentID_roundtrip b hb lb1 lb2
  rw [h, h2] at h1
  simp only [Option.some.injEq, Prod.mk.injEq, and_true] at h1
  exact h1.symm

/-- A request the codec is stated for: it names something, and its IDs fit a Go string. -/
def Encodable (r : Req) : Prop :=
  (r.serviceId ≠ [] ∨ r.serverId ≠ []) ∧ r.serviceId.length < 2 ^ 63 ∧ r.serverId.length < 2 ^ 63

/-- Processing any sequence of requests, in any order: every one of them decodes back to itself
(the codec is a function of the request alone — there is no history in the model; the engine's
history phase and the separator-ambiguity pairs check that of the code). -/
theorem componentIDs_roundtrip_all (rs : List Req) (h : ∀ r ∈ rs, Encodable r) :
    (rs.map marshalComponentID).map unmarshalComponentID = rs.map (fun r => some (r, [])) := by
  rw [List.map_map]
  apply List.map_congr_left
  intro r hr
  obtain ⟨h0, h1, h2⟩ := h r hr
  exact componentID_roundtrip r h0 h1 h2

/-- Marshal is injective on every set of requests: pairwise different requests get pairwise
different component IDs, wherever a separator character sits in their IDs. -/
theorem componentIDs_nodup (rs : List Req) (h : ∀ r ∈ rs, Encodable r) (hd : rs.Nodup) :
    (rs.map marshalComponentID).Nodup := by
  induction rs with
  | nil => simp
  | cons a l ih =>
    rw [List.nodup_cons] at hd
    rw [List.map_cons, List.nodup_cons]
    refine ⟨?_, ih (fun r hr => h r (List.mem_cons_of_mem _ hr)) hd.2⟩
    intro hm
    obtain ⟨b, hb, he⟩ := List.mem_map.mp hm
    obtain ⟨a0, a1, a2⟩ := h a List.mem_cons_self
    obtain ⟨b0, b1, b2⟩ := h b (List.mem_cons_of_mem _ hb)
    have := componentID_injective a b a0 b0 a1 a2 b1 b2 he.symm
    exact hd.1 (this ▸ hb)

/-- The separator-ambiguity pair of the engine in small: ("b/c", "a") and ("c", "a/b") — equal
under `server ++ "/" ++ service` — have different component IDs. -/
example : marshalComponentID ⟨[98, 47, 99], [97]⟩ ≠ marshalComponentID ⟨[99], [97, 47, 98]⟩ := by
  intro h
  have := componentID_injective _ _ (Or.inl (by decide)) (Or.inl (by decide))
    (by decide) (by decide) (by decide) (by decide) h
  exact absurd this (by decide)

/-- The one request that does not round-trip: the empty one (its component ID is the empty
string, which base58 decoding refuses). It is not a valid request (`Validate` requires a service ID). -/
theorem componentID_empty : marshalComponentID ⟨[], []⟩ = [] ∧ unmarshalComponentID [] = none := by
  constructor
  · decide
  · unfold unmarshalComponentID
    rw [B58.decode_nil]

/-! ### resolver errors: the end of the stream

`runSync` is the stream a client that keeps up sees: after every callback the send loop runs its
test `currIdle && currResErr != nil && currResErr != context.Canceled` and then sends the queue. -/

/-- Without resolver errors the stream never ends by itself and carries exactly `run`'s reports
(so every statement above is a statement about the stream). -/
theorem sync_no_errors (evs : List Ev) : runSync {} (evs.map .ev) = ((run evs).2, none) := by
  have := runSync_append_noerr evs {} [] rfl
  simpa [runSync, run] using this

/-- Whatever errors occur: up to its end the stream carries exactly the availability / idle
changes of the history (a prefix of them once it has ended). -/
theorem sync_reports (evs : List EvE) :
    ((runSync {} evs).2 = none → (runSync {} evs).1 = (run (evs.map EvE.toEv)).2) ∧
    (runSync {} evs).1 <+: (run (evs.map EvE.toEv)).2 :=
  runSync_reports evs {}

/-- The first resolver error handed over together with "idle" ends the stream with exactly that
error — the client is told — after exactly the reports of the history before it; the idle report
of that same callback and everything later is not sent. -/
theorem error_reported (pre : List Ev) (errs : List (Option RErr)) (n : Nat) (post : List EvE)
    (h : firstErr errs = some (.other n)) :
    runSync {} (pre.map .ev ++ .idleErrs true errs :: post) = ((run pre).2, some (.other n)) := by
  rw [runSync_append_noerr pre {} _ rfl]
  have hf : fatal (stepE ⟨(runFrom ({} : StE).st pre).1, none⟩ (.idleErrs true errs)).1 = some (.other n) := by
    apply fatal_other
    · simp only [stepE]
      exact step_idle_resIdle _ true
    · simp [stepE, h]
  rw [runSync]
  simp only [hf, List.append_nil]
  rfl

/-- An error handed over while the directive is busy is kept and ends the stream as soon as the
directive goes idle, after exactly the reports up to there. -/
theorem busy_error_reported_when_idle (pre mid : List Ev) (errs : List (Option RErr)) (n : Nat)
    (post : List EvE) (h : firstErr errs = some (.other n)) (hmid : ∀ e ∈ mid, e ≠ Ev.idle true) :
    runSync {} (pre.map .ev ++ .idleErrs false errs :: (mid.map .ev ++ .ev (.idle true) :: post)) =
      ((run (pre ++ .idle false :: mid)).2, some (.other n)) := by
  rw [runSync_append_noerr pre {} _ rfl]
  generalize hs0 : (runFrom ({} : StE).st pre) = r0
  -- the callback carrying the error
  rw [runSync]
  have hb1 : (stepE ⟨r0.1, none⟩ (.idleErrs false errs)).1.st.resIdle = false := by
    simp only [stepE]
    exact step_idle_resIdle _ false
  have he1 : (stepE ⟨r0.1, none⟩ (.idleErrs false errs)).1.resErr = some (.other n) := by
    simp [stepE, h]
  simp only [fatal_none_of_busy _ hb1]
  -- the busy stretch
  obtain ⟨hb2, hrun⟩ := runSync_append_busy mid (stepE ⟨r0.1, none⟩ (.idleErrs false errs)).1
    (.ev (.idle true) :: post) hb1 hmid
  rw [hrun]
  -- the callback that goes idle
  have hf : fatal (stepE ⟨(runFrom (stepE ⟨r0.1, none⟩ (.idleErrs false errs)).1.st mid).1,
      (stepE ⟨r0.1, none⟩ (.idleErrs false errs)).1.resErr⟩ (.ev (.idle true))).1 = some (.other n) := by
    apply fatal_other
    · rw [stepE_ev]
      exact step_idle_resIdle _ true
    · rw [stepE_ev]
      exact he1
  rw [runSync]
  simp only [hf, List.append_nil]
  -- reassemble the reports
  have hrn : (run (pre ++ .idle false :: mid)).2 =
      r0.2 ++ ((step r0.1 (.idle false)).2 ++ (runFrom (step r0.1 (.idle false)).1 mid).2) := by
    unfold run
    rw [runFrom_append, runFrom_cons]
    simp only
    have : ({} : St) = ({} : StE).st := rfl
    rw [this, hs0]
  rw [hrn]
  have hst := stepE_toEv ⟨r0.1, none⟩ (.idleErrs false errs)
  simp only [EvE.toEv] at hst
  rw [hst.1, hst.2]

/-- What the code does with `context.Canceled`: it is not reported (the stream goes on), and since
`resErr` is only ever set once, no later resolver error ends the stream either. (Outside the
property's text, which speaks of availability and idle reports only; recorded as an observation.) -/
theorem canceled_masks_later_errors (pre : List Ev) (b : Bool) (errs : List (Option RErr)) (rest : List EvE)
    (h : firstErr errs = some .canceled) :
    (runSync {} (pre.map .ev ++ .idleErrs b errs :: rest)).2 = none := by
  rw [runSync_append_noerr pre {} _ rfl]
  simp only
  have hk : (stepE ⟨(runFrom ({} : StE).st pre).1, none⟩ (.idleErrs b errs)).1.resErr = some .canceled := by
    simp [stepE, h]
  rw [runSync]
  simp only [fatal_none_of_canceled _ hk]
  exact runSync_canceled rest _ hk

/-! ### the directive a lookup request becomes -/

/-- The directive the server places on the bus carries exactly the request's service ID and server
ID (no `serverIdCb`) … -/
theorem placed_exactly_requested (r : Req) : lookupPlaced none r = some (r.serviceId, r.serverId) := rfl

/-- … or the service ID and the callback's rewriting of the server ID; a failing callback places
nothing. -/
theorem placed_with_callback (f : Bytes → Option Bytes) (r : Req) :
    lookupPlaced (some f) r = (f r.serverId).map (fun srv => (r.serviceId, srv)) := rfl

/-- Lookups of different requests are different directives for the bus: they are never
de-duplicated into one another (`isEquivalent` is regenerated from rpc/lookup-rpc-service.go). -/
theorem lookups_not_merged (r1 r2 : Req) (h : r1 ≠ r2) (d1 d2 : Bytes × Bytes)
    (h1 : lookupPlaced none r1 = some d1) (h2 : lookupPlaced none r2 = some d2) :
    Gen.Directives.LookupRpcService.isEquivalent ⟨d1.1, d1.2⟩ ⟨d2.1, d2.2⟩ = false := by
  cases r1; cases r2
  simp only [lookupPlaced, applyServerIdCb, Option.map_some, Option.some.injEq] at h1 h2
  subst h1 h2
  cases hb : Gen.Directives.LookupRpcService.isEquivalent _ _
  · rfl
  · simp only [Gen.Directives.LookupRpcService.isEquivalent, Bool.and_eq_true, beq_iff_eq] at hb
    exact absurd (by rw [hb.1, hb.2]) h

/-- `RequestFromDirective ∘ ToDirective = id` and back. -/
theorem request_directive_roundtrip (r : Req) : requestFromDirective r.toDirective = r := rfl

theorem directive_request_roundtrip (d : Bytes × Bytes) : (requestFromDirective d).toDirective = d := rfl

/-- `Validate` accepts exactly the requests with a service ID (the server ID may be empty). -/
theorem validate_iff (r : Req) : r.validate = true ↔ r.serviceId ≠ [] := by
  cases r with
  | mk sid srv => cases sid <;> simp [Req.validate]

/-- Every request `Validate` accepts survives the component-ID round trip. -/
theorem valid_request_roundtrips (r : Req) (hv : r.validate = true)
    (h1 : r.serviceId.length < 2 ^ 63) (h2 : r.serverId.length < 2 ^ 63) :
    unmarshalComponentID (marshalComponentID r) = some (r, []) :=
  componentID_roundtrip r (Or.inl ((validate_iff r).mp hv)) h1 h2

/-! ### CallRpcService -/

/-- For the component ID of a valid request the call is served by the invokers of exactly that
(service ID, rewritten server ID) if the bus has any, and fails otherwise. -/
theorem call_dispatch_exact (cb : Option (Bytes → Option Bytes)) (provided : Bytes → Bytes → Bool) (r : Req)
    (hv : r.validate = true) (h1 : r.serviceId.length < 2 ^ 63) (h2 : r.serverId.length < 2 ^ 63) :
    callRpcService cb provided (marshalComponentID r) =
      match applyServerIdCb cb r.serverId with
      | none => .errServerId
      | some srv => if provided r.serviceId srv then .ok r.serviceId srv else .errNoServer := by
  unfold callRpcService
  rw [valid_request_roundtrips r hv h1 h2]
  simp only [hv, Bool.not_true, Bool.false_eq_true, ↓reduceIte]
  cases applyServerIdCb cb r.serverId <;> rfl

/-- Whatever text arrives as component ID: a call is only ever served by invokers of the service ID
it decodes to (under the rewritten server ID), and only if that request is valid. -/
theorem call_never_other (cb : Option (Bytes → Option Bytes)) (provided : Bytes → Bytes → Bool) (cid sid srv : Bytes)
    (h : callRpcService cb provided cid = .ok sid srv) :
    ∃ r unk, unmarshalComponentID cid = some (r, unk) ∧ r.validate = true ∧ r.serviceId = sid ∧
      applyServerIdCb cb r.serverId = some srv ∧ provided sid srv = true := by
  unfold callRpcService at h
  cases hu : unmarshalComponentID cid with
  | none => simp [hu] at h
  | some p =>
    obtain ⟨r, unk⟩ := p
    simp only [hu] at h
    cases hv : r.validate with
    | false => simp [hv] at h
    | true =>
      simp only [hv, Bool.not_true, Bool.false_eq_true, ↓reduceIte] at h
      cases ha : applyServerIdCb cb r.serverId with
      | none => simp [ha] at h
      | some s =>
        simp only [ha] at h
        cases hp : provided r.serviceId s with
        | false => simp [hp] at h
        | true =>
          simp only [hp, ↓reduceIte, CallOut.ok.injEq] at h
          exact ⟨r, unk, rfl, hv, h.1, by rw [← h.2]; exact ha, by rw [← h.1, ← h.2]; exact hp⟩

/-! ### stream ends other than dispose: cancelled stream context, failing `Send` -/

/-- The reports of a prefix of a history are a prefix of the reports of the history. -/
theorem run_take_prefix (evs : List Ev) (n : Nat) : (run (evs.take n)).2 <+: (run evs).2 := by
  have h := runFrom_append {} (evs.take n) (evs.drop n)
  rw [List.take_append_drop] at h
  unfold run
  rw [h]
  exact List.prefix_append _ _

/-- However the call ends — cancelled context after any number of callbacks, a `Send` failing at
any message, a resolver error, or not at all — the client has received a prefix of the
availability / idle changes of the history: nothing invented, nothing reordered, nothing skipped. -/
theorem ends_prefix (evs : List EvE) (c f : Option Nat) :
    (runEnds evs c f).1 <+: (run (evs.map EvE.toEv)).2 := by
  have key : ∀ evs' : List EvE, (∃ n, evs' = evs.take n) ∨ evs' = evs →
      (runSync {} evs').1 <+: (run (evs.map EvE.toEv)).2 := by
    intro evs' h
    have h1 := (sync_reports evs').2
    rcases h with ⟨n, hn⟩ | h
    · subst hn
      rw [List.map_take] at h1
      exact h1.trans (run_take_prefix _ n)
    · subst h; exact h1
  unfold runEnds
  cases c with
  | none =>
    have hk := key evs (Or.inr rfl)
    cases f with
    | none => cases h2 : (runSync {} evs).2 <;> simp [h2, hk]
    | some k =>
      by_cases hlt : k < (runSync {} evs).1.length
      · simp only [hlt, ↓reduceIte]
        exact (List.take_prefix _ _).trans hk
      · cases h2 : (runSync {} evs).2 <;> simp [hlt, h2, hk]
  | some n =>
    have hk := key (evs.take n) (Or.inl ⟨n, rfl⟩)
    cases f with
    | none => cases h2 : (runSync {} (evs.take n)).2 <;> simp [h2, hk]
    | some k =>
      by_cases hlt : k < (runSync {} (evs.take n)).1.length
      · simp only [hlt, ↓reduceIte]
        exact (List.take_prefix _ _).trans hk
      · cases h2 : (runSync {} (evs.take n)).2 <;> simp [hlt, h2, hk]

/-- A `Send` that fails at message `k` of a stream that would have carried more than `k`
messages ends the call there: exactly the first `k` reports were delivered. -/
theorem ends_sendFailed (evs : List EvE) (k : Nat) (h : k < (runSync {} evs).1.length) :
    runEnds evs none (some k) = ((runSync {} evs).1.take k, .sendFailed) := by
  simp [runEnds, h]

/-- A context cancelled after `n` callbacks none of which ended the stream: the call returns
`context.Canceled` after exactly the changes of those `n` callbacks. -/
theorem ends_canceled (evs : List EvE) (n : Nat) (h : (runSync {} (evs.take n)).2 = none) :
    runEnds evs (some n) none = ((run ((evs.take n).map EvE.toEv)).2, .canceled) := by
  have := (sync_reports (evs.take n)).1 h
  simp [runEnds, h, this]

/-- Without cancellation and send failure `runEnds` is the stream of `runSync`. -/
theorem ends_plain (evs : List EvE) :
    (runEnds evs none none).1 = (runSync {} evs).1 ∧
      ((runEnds evs none none).2 = .open ↔ (runSync {} evs).2 = none) := by
  unfold runEnds
  cases h : (runSync {} evs).2 <;> simp [h]

/-! ### the consumer: `LookupRpcServiceResolver` -/

/-- No response of the server says both "exists" and "removed". -/
theorem step_not_both (s : St) (e : Ev) : ∀ m ∈ (step s e).2, (m.exist && m.removed) = false := by
  intro m hm
  cases e with
  | added id isSvc =>
    simp only [step] at hm
    split at hm
    · simp at hm
    · split at hm
      · simp at hm; subst hm; rfl
      · simp at hm
  | removed id =>
    simp only [step] at hm
    split at hm
    · simp at hm
    · split at hm
      · simp at hm; subst hm; rfl
      · simp at hm
  | idle b =>
    simp only [step] at hm
    split at hm
    · simp at hm
    · simp at hm; subst hm; rfl

theorem runFrom_not_both : ∀ (evs : List Ev) (s : St), ∀ m ∈ (runFrom s evs).2, (m.exist && m.removed) = false
  | [], _, m, hm => by simp [runFrom] at hm
  | e :: rest, s, m, hm => by
    rw [runFrom_cons] at hm
    rcases List.mem_append.mp hm with h | h
    · exact step_not_both s e m h
    · exact runFrom_not_both rest _ m h

/-- The resolver's availability state is the receiver view `clientExists` of the stream (for
responses that do not say both "exists" and "removed"). -/
theorem resolverView_hasVal (msgs : List Msg) (v : ResolverView)
    (hno : ∀ m ∈ msgs, (m.exist && m.removed) = false) :
    (resolverView v msgs).hasVal = clientExists v.hasVal msgs := by
  induction msgs generalizing v with
  | nil => rfl
  | cons m rest ih =>
    simp only [resolverView, List.foldl_cons] at ih ⊢
    rw [ih _ (fun x hx => hno x (List.mem_cons_of_mem _ hx))]
    have hm := hno m (List.mem_cons_self)
    simp only [clientExists, resolverStep]
    revert hm
    cases m.removed <;> cases m.exist <;> cases v.hasVal <;> simp

/-- The production consumer holds its proxy value exactly while the remote has a provider. -/
theorem resolver_exists_faithful (evs : List Ev) (h : Fresh [] evs) :
    (resolverView {} (run evs).2).hasVal = !(liveAfter [] evs).isEmpty := by
  have hno : ∀ m ∈ (run evs).2, (m.exist && m.removed) = false := runFrom_not_both evs {}
  rw [resolverView_hasVal _ _ hno]
  exact (view_faithful evs h).1

/-- Its idle mark is sticky: idle iff it started idle or was ever told "idle". -/
theorem resolver_idle_sticky (msgs : List Msg) (v : ResolverView) :
    (resolverView v msgs).idle = (v.idle || msgs.any (·.idle)) := by
  induction msgs generalizing v with
  | nil => simp [resolverView]
  | cons m rest ih =>
    simp only [resolverView, List.foldl_cons] at ih ⊢
    rw [ih]
    simp only [resolverStep, List.any_cons]
    cases m.idle <;> cases v.idle <;> simp

/-- It never misses idleness: whenever the remote lookup is idle, the resolver is marked idle. -/
theorem resolver_idle_partial (evs : List Ev) (hf : Fresh [] evs) (h : idleAfter false evs = true) :
    (resolverView {} (run evs).2).idle = true := by
  rw [resolver_idle_sticky]
  have hv : clientIdle false (run evs).2 = true := by rw [(view_faithful evs hf).2]; exact h
  -- the last reported idle state is `true`, so some report says idle
  have key : ∀ (msgs : List Msg) (cur : Bool), clientIdle cur msgs = true → cur = true ∨ msgs.any (·.idle) = true := by
    intro msgs
    induction msgs with
    | nil => intro cur hh; exact Or.inl (by simpa [clientIdle] using hh)
    | cons m rest ih =>
      intro cur hh
      simp only [clientIdle] at hh
      rcases ih _ hh with h1 | h1
      · by_cases hm : (m.exist || m.removed) = true
        · simp only [hm, ↓reduceIte] at h1
          exact Or.inl h1
        · simp only [hm, Bool.false_eq_true, ↓reduceIte] at h1
          right; simp [h1]
      · right; simp [h1]
  rcases key _ _ hv with h1 | h1
  · simp at h1
  · simp [h1]

/-- REFUTED: "the resolver is marked idle exactly while the remote lookup is idle". It is never
marked busy again: after idle, busy the remote is busy and the resolver still idle (observation:
`Resolve` only ever calls `MarkIdle(true)`; replayed on the real resolver every run). -/
theorem resolver_idle_faithful_false :
    ¬ (∀ evs : List Ev, Fresh [] evs → (resolverView {} (run evs).2).idle = idleAfter false evs) := by
  intro h
  have := h [.idle true, .idle false] (by simp [Fresh])
  exact absurd this (by decide)

/-! ### non-vacuity -/

/-- The contract is satisfiable by a history that exercises every kind of report. -/
example : Fresh [] [.added 1 true, .idle true, .added 2 true, .removed 1, .removed 2, .idle false] ∧
    (run [.added 1 true, .idle true, .added 2 true, .removed 1, .removed 2, .idle false]).2 =
      [Msg.mkExists, Msg.mkIdle true, Msg.mkRemoved, Msg.mkIdle false] := by
  constructor
  · simp [Fresh]
  · decide

example : ∃ r : Req, (r.serviceId ≠ [] ∨ r.serverId ≠ []) ∧ r.serviceId.length < 2 ^ 63 ∧ r.serverId.length < 2 ^ 63 :=
  ⟨⟨[97], []⟩, Or.inl (by simp), by simp, by simp⟩

/-- An idle-with-error history: provider, then "idle" with error 7 — the client got `Exists` and
then the error; "busy" with error 7, provider, "idle" — `Exists`, then the error; `Canceled` then a
real error — the stream goes on and reports the idle changes. -/
example : runSync {} [.ev (.added 1 true), .idleErrs true [none, some (.other 7)], .ev (.removed 1)] =
      ([Msg.mkExists], some (.other 7)) ∧
    runSync {} [.idleErrs false [some (.other 7)], .ev (.added 1 true), .ev (.idle true)] =
      ([Msg.mkExists], some (.other 7)) ∧
    runSync {} [.idleErrs true [some .canceled], .ev (.idle false), .idleErrs true [some (.other 1)]] =
      ([Msg.mkIdle true, Msg.mkIdle false, Msg.mkIdle true], none) := by decide

/-- The three other ends are inhabited: cancel after the first of two changes, the second `Send`
failing, and a send failure that comes before a resolver error would have ended the stream. -/
example : runEnds [.ev (.added 1 true), .ev (.idle true)] (some 1) none = ([Msg.mkExists], .canceled) ∧
    runEnds [.ev (.added 1 true), .ev (.idle true), .ev (.removed 1)] none (some 1) = ([Msg.mkExists], .sendFailed) ∧
    runEnds [.ev (.added 1 true), .idleErrs true [some (.other 3)]] none (some 0) = ([], .sendFailed) ∧
    runEnds [.ev (.added 1 true), .idleErrs true [some (.other 3)]] (some 2) (some 1) = ([Msg.mkExists], .resolverErr (.other 3)) := by
  decide

/-- The consumer over a history that satisfies the bus contract: provider, idle, busy, provider
gone — no value left, still marked idle. -/
example : Fresh [] [.added 1 true, .idle true, .idle false, .removed 1] ∧
    resolverView {} (run [.added 1 true, .idle true, .idle false, .removed 1]).2 = ⟨false, true⟩ ∧
    resolverView {} (run [.added 1 true, .idle true]).2 = ⟨true, true⟩ := by
  refine ⟨by simp [Fresh], by decide, by decide⟩

/-- `call_dispatch_exact` / `call_never_other` are not vacuous: a served and an unserved call. -/
example : callRpcService none (fun sid _ => sid == [97]) (marshalComponentID ⟨[97], [98]⟩) = .ok [97] [98] ∧
    callRpcService none (fun sid _ => sid == [97]) (marshalComponentID ⟨[99], [98]⟩) = .errNoServer ∧
    callRpcService none (fun _ _ => true) (marshalComponentID ⟨[], [98]⟩) = .errInvalid ∧
    callRpcService (some fun _ => none) (fun _ _ => true) (marshalComponentID ⟨[97], []⟩) = .errServerId := by decide

example : ∃ r1 r2 : Req, r1 ≠ r2 ∧ lookupPlaced none r1 = some ([115], []) ∧ lookupPlaced none r2 = some ([115], [47]) :=
  ⟨⟨[115], []⟩, ⟨[115], [47]⟩, by simp, rfl, rfl⟩

end Bifrost.Props.C36
