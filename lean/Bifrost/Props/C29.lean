import Bifrost.Model.Pubsub
import Bifrost.Lemmas.PubsubExec
import Bifrost.Lemmas.PubsubCtl
import Bifrost.Lemmas.Solicit
import Bifrost.Props.C10
/-!
C29 — Pubsub streams are opened once per link and subscriptions end cleanly.
* opener rule of `trackedLink.trackLink` (`Pubsub.opensStream`);
* the subscription handle as a transition system (`Pubsub.Sub`: the subscription mutex makes
  "clear the handlers" and "a delivery goroutine calls the handlers" atomic steps);
* the announcements of the `Execute` loop (`Pubsub.Exec`), model of the code after
  "fix: floodsub did not announce the unsubscribe of a channel released before its first announcement".
-/
namespace Bifrost.Props.C29
open Bifrost Bifrost.Codec Bifrost.Pubsub

/-! ### exactly one side opens the stream -/

/-- For two distinct peer IDs exactly one side opens the pubsub stream: the decision is the
lexicographic order of the base58 texts, base58 is injective and the order is total. -/
theorem opener_xor (a b : Bytes) (h : a ≠ b) : opensStream a b = !opensStream b a := by
  unfold opensStream idB58Encode
  have hne : B58.encode a ≠ B58.encode b := fun e => h (C10.b58_encode_injective a b e)
  cases hab : lexLt (B58.encode a) (B58.encode b) with
  | true =>
    rw [lexLt_asymm _ _ hab]
    rfl
  | false =>
    cases hba : lexLt (B58.encode b) (B58.encode a) with
    | true => rfl
    | false => exact absurd (lexLt_trichotomy _ _ hab hba) hne

theorem opener_exactly_one (a b : Bytes) (h : a ≠ b) :
    (opensStream a b = true ∧ opensStream b a = false) ∨ (opensStream a b = false ∧ opensStream b a = true) := by
  have := opener_xor a b h
  cases hx : opensStream b a with
  | true => right; rw [hx] at this; exact ⟨this, rfl⟩
  | false => left; rw [hx] at this; exact ⟨this, rfl⟩

/-- A link of a peer to itself (not covered by the property) is opened by both ends. -/
theorem opener_self (a : Bytes) : opensStream a a = true := by
  unfold opensStream
  rw [lexLt_irrefl]
  rfl

/-! ### the real controller: one opener per link, for every local identity of a node

`Pubsub.Ctl` is the link table of ONE pubsub controller (`HandleValueAdded/Removed`, the
`incLinks` loop, the link trackers). A controller serves every local identity of its node: each
link carries its own `localId`. -/

/-- The controller opens a stream only on a link for which the link's OWN local identity is the
opening side — in every history of links added, removed, re-added, trackers replaced and run, and
whatever other identities the node's other links have. -/
theorem ctl_opens_only_as_opener (evs : List Ctl.Ev) (l : Ctl.Link) (h : l ∈ (Ctl.run {} evs).opened) :
    opensStream l.localId l.remoteId = true :=
  Ctl.run_openedOk {} evs Ctl.init_openedOk l h

/-- Never both: the two nodes' controllers (any histories, any number of identities on either
node) never both open a stream on the same link between two distinct peer ids. -/
theorem ctl_never_both_open (evsX evsY : List Ctl.Ev) (u : Nat) (a b : Bytes) (hab : a ≠ b) :
    ¬ ((⟨u, a, b⟩ : Ctl.Link) ∈ (Ctl.run {} evsX).opened ∧ (⟨u, b, a⟩ : Ctl.Link) ∈ (Ctl.run {} evsY).opened) := by
  rintro ⟨hx, hy⟩
  have h1 := ctl_opens_only_as_opener evsX _ hx
  have h2 := ctl_opens_only_as_opener evsY _ hy
  have := opener_xor a b hab
  simp only at h1 h2
  rw [h1, h2] at this
  cases this

/-- A link handed to the controller gets a tracker at the next pass of the loop. -/
theorem ctl_added_is_tracked (s : Ctl.State) (l : Ctl.Link) :
    l ∈ (Ctl.step (Ctl.step s (.added l)) .loop).tracked := by
  simp [Ctl.step]

/-- Never neither, exactly one: once the tracker of the link has run on both nodes, exactly one
of the two ends has opened the stream, and it stays that way whatever happens afterwards on
either node (more links of other identities, removals, re-adds). -/
theorem ctl_exactly_one_opener (evsX evsY postX postY : List Ctl.Ev) (kx ky u : Nat) (a b : Bytes) (hab : a ≠ b)
    (hx : (Ctl.run {} evsX).tracked[kx]? = some ⟨u, a, b⟩)
    (hy : (Ctl.run {} evsY).tracked[ky]? = some ⟨u, b, a⟩) :
    ((⟨u, a, b⟩ : Ctl.Link) ∈ (Ctl.run {} (evsX ++ .track kx :: postX)).opened ∧
        (⟨u, b, a⟩ : Ctl.Link) ∉ (Ctl.run {} (evsY ++ .track ky :: postY)).opened) ∨
    ((⟨u, a, b⟩ : Ctl.Link) ∉ (Ctl.run {} (evsX ++ .track kx :: postX)).opened ∧
        (⟨u, b, a⟩ : Ctl.Link) ∈ (Ctl.run {} (evsY ++ .track ky :: postY)).opened) := by
  have opens : ∀ (evs post : List Ctl.Ev) (k : Nat) (l : Ctl.Link), (Ctl.run {} evs).tracked[k]? = some l →
      opensStream l.localId l.remoteId = true → l ∈ (Ctl.run {} (evs ++ .track k :: post)).opened := by
    intro evs post k l hk ho
    rw [Ctl.run_append, Ctl.run_cons]
    apply Ctl.run_opened_mono
    simp [Ctl.step, hk, ho]
  rcases opener_exactly_one a b hab with ⟨h1, h2⟩ | ⟨h1, h2⟩
  · left
    refine ⟨opens evsX postX kx _ hx h1, fun hin => ?_⟩
    have := ctl_opens_only_as_opener _ _ hin
    simp only at this
    rw [h2] at this
    cases this
  · right
    refine ⟨fun hin => ?_, opens evsY postY ky _ hy h2⟩
    have := ctl_opens_only_as_opener _ _ hin
    simp only at this
    rw [h1] at this
    cases this

/-- Why the rule must use the link's own local identity: with the local identity computed once
per controller (`Ctl.stepCached`), a node with the identities [1] and [3] and a remote peer [2]
(base58 texts "2" < "3" < "4") opens the link [3]–[2] although the remote end opens it too. -/
theorem ctl_cached_identity_both_open :
    (⟨2, [3], [2]⟩ : Ctl.Link) ∈
      (Ctl.runCached {} [.added ⟨1, [1], [2]⟩, .loop, .track 0, .added ⟨2, [3], [2]⟩, .loop, .track 0]).opened ∧
    (⟨2, [2], [3]⟩ : Ctl.Link) ∈ (Ctl.run {} [.added ⟨2, [2], [3]⟩, .loop, .track 0]).opened := by
  decide

/-- Non-vacuity: the real rule on the same history opens only the link of identity [1]. -/
example : (Ctl.run {} [.added ⟨1, [1], [2]⟩, .loop, .track 0, .added ⟨2, [3], [2]⟩, .loop, .track 0]).opened =
    [⟨1, [1], [2]⟩] := by decide

/-! ### announcements reach a peer that reads slowly; a closed session leaves nothing behind -/

/-- The per-session send queue loses and re-orders nothing: in every interleaving of
`writePacket` calls, the session goroutine and the stream, what `writePacket` accepted is exactly
what was written to the stream, followed by the packet in flight, followed by the queue. A full
queue makes `writePacket` wait (the `write` step changes nothing but the ghost counter). -/
theorem sendq_lossless (cap : Nat) (evs : List SendQ.Ev) :
    (SendQ.run { cap := cap } evs).accepted =
      (SendQ.run { cap := cap } evs).delivered ++ (SendQ.run { cap := cap } evs).inflight.toList ++
        (SendQ.run { cap := cap } evs).queue :=
  SendQ.run_lossless _ evs rfl

theorem sendq_bounded (cap : Nat) (evs : List SendQ.Ev) : (SendQ.run { cap := cap } evs).queue.length ≤ cap := by
  have := SendQ.run_bounded { cap := cap } evs (Nat.zero_le _)
  have hc : ∀ (s : SendQ.State) (l : List SendQ.Ev), (SendQ.run s l).cap = s.cap := by
    intro s l
    induction l generalizing s with
    | nil => rfl
    | cons e t ih => exact (ih _).trans (SendQ.step_cap s e)
  rw [hc] at this
  exact this

/-- Once the peer has read everything (nothing queued, nothing in flight) it has received every
packet `writePacket` accepted, in order — in particular every `Subscribe=false` the sweep queued
(`Exec.told`), however long the peer had stopped reading. -/
theorem sendq_drained_all_delivered (cap : Nat) (evs : List SendQ.Ev)
    (hq : (SendQ.run { cap := cap } evs).queue = []) (hi : (SendQ.run { cap := cap } evs).inflight = none) :
    (SendQ.run { cap := cap } evs).delivered = (SendQ.run { cap := cap } evs).accepted := by
  have := sendq_lossless cap evs
  rw [hq, hi] at this
  simpa using this.symm

/-- A full queue blocks the caller: nothing is accepted, nothing is lost. -/
theorem sendq_full_blocks (s : SendQ.State) (p : Nat) (h : ¬ s.queue.length < s.cap) :
    (SendQ.step s (.write p)).accepted = s.accepted ∧ (SendQ.step s (.write p)).queue = s.queue ∧
      (SendQ.step s (.write p)).delivered = s.delivered := by
  simp [SendQ.step, h]

/-- The variant that returns from `writePacket` when the queue is full loses packets: capacity 1,
two writes, then the peer reads everything — the second packet was accepted and never delivered. -/
theorem sendq_drop_variant_loses :
    (SendQ.runDrop { cap := 1 } [.write 1, .write 2, .take, .flush, .take, .flush]).accepted = [1, 2] ∧
    (SendQ.runDrop { cap := 1 } [.write 1, .write 2, .take, .flush, .take, .flush]).delivered = [1] ∧
    (SendQ.runDrop { cap := 1 } [.write 1, .write 2, .take, .flush, .take, .flush]).queue = [] := by
  decide

example : (SendQ.run { cap := 1 } [.write 1, .write 2, .take, .flush, .write 2, .take, .flush]).delivered = [1, 2] := by decide

/-- When the registered session of a (peer, link) tuple ends, the router forgets what the peer
announced over it. -/
theorem recv_closed_session_forgotten (s : Recv.State) (k : Nat) (h : s.cur = some k) :
    (Recv.step s (.endS k)).know = [] ∧ (Recv.step s (.endS k)).cur = none := by
  simp [Recv.step, h]

/-- So a session that starts after the previous one ended knows exactly what the peer announced
IN THAT SESSION (its initial set and every later change, in order) — whatever the closed session
had announced. -/
theorem recv_reconnected_session_exact (s : Recv.State) (k : Nat) (h : s.cur = some k) (anns : List (Nat × Bool)) :
    (Recv.run (Recv.step (Recv.step s (.endS k)) .start)
        (anns.map fun a => Recv.Ev.recv (Recv.step s (.endS k)).next a.1 a.2)).know =
      anns.foldl Exec.applyChange [] := by
  have hk : (Recv.step (Recv.step s (.endS k)) .start).live.contains (Recv.step s (.endS k)).next = true := by
    simp [Recv.step]
  rw [Recv.run_recvs _ _ hk]
  simp [Recv.step, h]

/-- Non-vacuity: session 0 announced channel 7 and ended; session 1 of the same tuple announces 8, 9
and withdraws 8: the router lists the peer under 9 only. -/
example : (Recv.run (Recv.step (Recv.step (Recv.run {} [.start, .recv 0 7 true]) (.endS 0)) .start)
    ([(8, true), (9, true), (8, false)].map fun a => Recv.Ev.recv (Recv.step (Recv.run {} [.start, .recv 0 7 true]) (.endS 0)).next a.1 a.2)).know = [9] := by
  rw [recv_reconnected_session_exact _ 0 (by decide)]
  decide

/-- Before the fix the subscriptions of a closed session survived: the peer announces channel 7,
the session ends, the same tuple connects again announcing nothing — the router still lists it
under channel 7 (and, the peer having released the channel while the link was down, is never told). -/
theorem recv_closed_session_survived_pre :
    (Recv.runPre {} [.start, .recv 0 7 true, .endS 0, .start]).know = [7] ∧
    (Recv.run {} [.start, .recv 0 7 true, .endS 0, .start]).know = [] := by
  decide

/-- REFUTED for a session REPLACED while alive: "a session knows exactly what the peer announced
in it" fails when the tuple is connected again over its live session — the table entry of the
tuple survives (only the end of the REGISTERED session clears it). Witness: session 0 announces
channel 7, session 1 of the same tuple starts over it and announces nothing (the peer released 7 in
between and its unsubscribe went to no started session): the router keeps listing the peer under 7.
`recv_reconnected_session_exact` is the part that holds (previous session ended first). The engine
replays the witness on real routers every run (known finding floodsub-replaced-session-stale). -/
theorem recv_replaced_live_session_exact_false :
    ¬ (∀ evs : List Recv.Ev, ∀ k, (Recv.run {} evs).cur = some k →
        (∀ ch b, Recv.Ev.recv k ch b ∉ evs) → (Recv.run {} evs).know = []) := by
  intro h
  have := h [.start, .recv 0 7 true, .start] 1 (by decide) (by intro ch b; simp)
  exact absurd this (by decide)

/-! ### after Release the handlers are never invoked -/

/-- Once `Release` has passed its first critical section (`relA`: the handlers are cleared under
the subscription mutex), no handler is ever invoked again — whatever delivery goroutines were
already started and whenever they run — unless the caller adds a new handler to the released
handle. The log of invocations does not grow. -/
theorem no_callback_after_release (pre post : List Sub.Ev) (hno : ∀ ev ∈ post, ∀ x, ev ≠ .add x) :
    (Sub.run {} (pre ++ .relA :: post)).calls = (Sub.run {} pre).calls := by
  rw [Sub.run_append, Sub.run_cons]
  have := Sub.handlers_nil_stays (Sub.step (Sub.run {} pre) .relA) post rfl hno
  rw [this.2]
  rfl

/-- In EVERY schedule (handlers may also be added after the release): a handler invoked after
the release was added after the release. Handlers registered before `Release` are never
invoked after it. -/
theorem callback_after_release_only_new_handlers (evs : List Sub.Ev) (c : Nat × Nat × Bool)
    (hc : c ∈ (Sub.run {} evs).calls) (hrel : c.2.2 = true) : c.1 ∈ (Sub.run {} evs).fresh :=
  (Sub.run_inv {} evs Sub.init_inv).cs c hc hrel

/-- After `Release` returned (both sections done) no new delivery goroutine is started for the
subscription: the pending ones can only drain. -/
theorem no_delivery_goroutine_after_release (pre post : List Sub.Ev) :
    (Sub.run {} (pre ++ .relB :: post)).pending.length ≤ (Sub.run {} (pre ++ [.relB])).pending.length := by
  have e : pre ++ Sub.Ev.relB :: post = (pre ++ [.relB]) ++ post := by simp
  rw [e, Sub.run_append]
  refine (Sub.pending_after_relB _ post ?_).2
  rw [Sub.run_append]
  rfl

/-- After the remove function of a handler returned, that handler is never invoked again
(handler identities are fresh per `AddHandler`, so it is not added again). -/
theorem no_callback_after_remove (pre post : List Sub.Ev) (x : Nat) (hno : ∀ ev ∈ post, ev ≠ .add x)
    (c : Nat × Nat × Bool) (hc : c ∈ (Sub.run {} (pre ++ .remove x :: post)).calls) :
    c ∈ (Sub.run {} pre).calls ∨ c.1 ≠ x := by
  rw [Sub.run_append, Sub.run_cons] at hc
  have hx : x ∉ (Sub.step (Sub.run {} pre) (.remove x)).handlers := by
    simp [Sub.step]
  exact (Sub.absent_handler_not_called _ post x hx hno).2 c hc

/-! ### the last release is announced -/

/-- Whenever the invariant holds outside the hold-break and no empty or unannounced channel key
is left, every initialised session has been told exactly the set of channels that have a live
subscription. -/
theorem beliefs_exact (s : Exec.State) (h : Exec.Inv s) (hpc : s.pc ≠ 1)
    (hclean : (∀ e ∈ s.channels, e.2 ≠ 0) ∧ (∀ ch ∈ s.channels.map (·.1), ch ∈ s.pubbed))
    (p : Nat) (hp : p ∈ s.running) (ch : Nat) :
    ch ∈ Exec.belief s p ↔ Exec.subscribed s ch = true := by
  obtain ⟨b1, b2, b3⟩ := h.bel p hp ch
  constructor
  · intro hb
    have hk := h.pk ch (b3 hpc hb)
    rw [List.mem_map] at hk
    obtain ⟨e, he, rfl⟩ := hk
    have hne := hclean.1 e he
    have hcnt := Exec.mem_count s h.nodup e.1 e.2 he
    unfold Exec.subscribed
    rw [hcnt]
    cases hx : e.2 with
    | zero => exact absurd hx hne
    | succ k => rfl
  · intro hs
    unfold Exec.subscribed at hs
    split at hs
    · rename_i k hcnt
      have hm := Exec.count_some_mem s ch (k + 1) hcnt
      exact b1 (hclean.2 ch (List.mem_map.mpr ⟨(ch, k + 1), hm, rfl⟩))
    · cases hs

/-- Once the last local subscription to a channel is released the peers are told: in every
history of subscribe / release / new session / session end interleaved arbitrarily with the two
lock regions of the `Execute` loop, whenever the loop is parked with no wake-up pending, every
initialised session has been sent `Subscribe = true` for exactly the channels that still have
a local subscription — in particular `Subscribe = false` for a channel whose last subscription
was released. -/
theorem last_release_unsubscribes (evs : List Exec.Ev) (hpc : (Exec.run {} evs).pc = 2)
    (hw : (Exec.run {} evs).wake = false) (p : Nat) (hp : p ∈ (Exec.run {} evs).running) (ch : Nat) :
    ch ∈ Exec.belief (Exec.run {} evs) p ↔ Exec.subscribed (Exec.run {} evs) ch = true := by
  have hinv := Exec.run_inv {} evs Exec.init_inv
  exact beliefs_exact _ hinv (by rw [hpc]; decide) (hinv.clean hpc hw) p hp ch

/-- …and the loop cannot stay parked after a last release: releasing the last subscription of
a channel sets the wake-up token (so another sweep follows). -/
theorem last_release_wakes (s : Exec.State) (ch : Nat) (h : Exec.count s ch = some 1) :
    (Exec.step s (.release ch)).wake = true := by
  simp [Exec.step, h]

/-- The same holds immediately after EVERY sweep (whether or not a wake-up is pending). -/
theorem after_sweep_exact (evs : List Exec.Ev) (hpc : (Exec.run {} evs).pc = 1)
    (p : Nat) (hp : p ∈ (Exec.run {} evs).running) (ch : Nat) :
    ch ∈ Exec.belief (Exec.region2 (Exec.run {} evs)) p ↔ Exec.subscribed (Exec.region2 (Exec.run {} evs)) ch = true := by
  have hinv := Exec.run_inv {} evs Exec.init_inv
  have hstep : Exec.step (Exec.run {} evs) .region2 = Exec.region2 (Exec.run {} evs) := by
    simp [Exec.step, hpc]
  have hinv2 := Exec.step_inv _ .region2 hinv
  rw [hstep] at hinv2
  refine beliefs_exact _ hinv2 (by show (2 : Nat) ≠ 1; decide) ⟨?_, ?_⟩ p hp ch
  · intro e he
    exact ((Exec.mem_sweptChannels _ _).mp he).2
  · intro c hc
    rw [List.mem_map] at hc
    obtain ⟨e, he, rfl⟩ := hc
    obtain ⟨hm, hk⟩ := (Exec.mem_sweptChannels _ _).mp he
    show e.1 ∈ Exec.sweptPubbed _ _
    rw [Exec.mem_sweptPubbed]
    by_cases hpb : e.1 ∈ (Exec.run {} evs).pubbed
    · left
      refine ⟨hpb, fun h0 => hk ?_⟩
      exact Exec.nodup_unique _ hinv.nodup e.1 e.2 0 hm h0
    · exact Or.inr ⟨e.2, hk, hm, hpb⟩

/-! ### the defect that was fixed (documentation of the witness) -/

/-- The sweep before the fix announced `Subscribe = false` only for channels in `pubbedChannels`. -/
def changesPre (pubbed : List Nat) (channels : List (Nat × Nat)) : List (Nat × Bool) :=
  channels.filterMap fun e =>
    if e.2 = 0 then (if pubbed.contains e.1 then some (e.1, false) else none)
    else if pubbed.contains e.1 then none else some (e.1, true)

def region2Pre (s : Exec.State) : Exec.State :=
  { s with channels := Exec.sweptChannels s.channels
           pubbed := Exec.sweptPubbed s.pubbed s.channels
           told := fun q => if s.running.contains q then s.told q ++ changesPre s.pubbed s.channels else s.told q
           pc := 2 }

/-- With the old sweep: subscribe, release, new session, one loop iteration — the session was
told `Subscribe = true` for channel 7 in its initial set and never `false`, although the channel
has no subscription (and the key is gone, so no later sweep repairs it). -/
theorem prefix_sweep_left_stale_subscribe :
    Exec.belief (region2Pre (Exec.run {} [.addSub 7, .release 7, .addPeer 1, .region1])) 1 = [7] ∧
    Exec.subscribed (region2Pre (Exec.run {} [.addSub 7, .release 7, .addPeer 1, .region1])) 7 = false ∧
    (region2Pre (Exec.run {} [.addSub 7, .release 7, .addPeer 1, .region1])).channels = [] := by
  decide

/-- Non-vacuity: the fixed loop on the same history ends parked-after-sweep with the session
told nothing is subscribed; and a history that reaches the parked state without wake-up. -/
example : Exec.belief (Exec.run {} [.addSub 7, .release 7, .addPeer 1, .region1, .region2]) 1 = [] := by decide

example : (Exec.run {} [.addSub 7, .addSub 7, .addPeer 1, .region1, .region2, .wakeup, .region1, .region2, .release 7]).pc = 2 ∧
    (Exec.run {} [.addSub 7, .addSub 7, .addPeer 1, .region1, .region2, .wakeup, .region1, .region2, .release 7]).wake = false ∧
    1 ∈ (Exec.run {} [.addSub 7, .addSub 7, .addPeer 1, .region1, .region2, .wakeup, .region1, .region2, .release 7]).running ∧
    Exec.belief (Exec.run {} [.addSub 7, .addSub 7, .addPeer 1, .region1, .region2, .wakeup, .region1, .region2, .release 7]) 1 = [7] := by
  decide

example : (Sub.run {} [.add 1, .spawn 5, .relA, .relB, .run 0]).calls = [] := by decide

end Bifrost.Props.C29
