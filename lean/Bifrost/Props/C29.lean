import Bifrost.Model.Pubsub
import Bifrost.Lemmas.PubsubExec
import Bifrost.Lemmas.Solicit
import Bifrost.Props.C10
/-!
C29 — Pubsub streams are opened once per link and subscriptions end cleanly.
* opener rule of `trackedLink.trackLink` (`Pubsub.opensStream`);
* the subscription handle as a transition system (`Pubsub.Sub`: the subscription mutex makes
  "clear the handlers" and "a delivery goroutine calls the handlers" atomic steps);
* the announcements of the `Execute` loop (`Pubsub.Exec`), model of the code after
  "fix: floodsub did not announce the unsubscribe of a channel released before its first announcement".
-/
namespace Bifrost.Props.C29
open Bifrost Bifrost.Codec Bifrost.Pubsub

/-! ### exactly one side opens the stream -/

/-- For two distinct peer IDs exactly one side opens the pubsub stream: the decision is the
lexicographic order of the base58 texts, base58 is injective and the order is total. -/
theorem opener_xor (a b : Bytes) (h : a ≠ b) : opensStream a b = !opensStream b a := by
  unfold opensStream idB58Encode
  have hne : B58.encode a ≠ B58.encode b := fun e => h (C10.b58_encode_injective a b e)
  cases hab : lexLt (B58.encode a) (B58.encode b) with
  | true =>
    rw [lexLt_asymm _ _ hab]
    rfl
  | false =>
    cases hba : lexLt (B58.encode b) (B58.encode a) with
    | true => rfl
    | false => exact absurd (lexLt_trichotomy _ _ hab hba) hne

theorem opener_exactly_one (a b : Bytes) (h : a ≠ b) :
    (opensStream a b = true ∧ opensStream b a = false) ∨ (opensStream a b = false ∧ opensStream b a = true) := by
  have := opener_xor a b h
  cases hx : opensStream b a with
  | true => right; rw [hx] at this; exact ⟨this, rfl⟩
  | false => left; rw [hx] at this; exact ⟨this, rfl⟩

/-- A link of a peer to itself (not covered by the property) is opened by both ends. -/
theorem opener_self (a : Bytes) : opensStream a a = true := by
  unfold opensStream
  rw [lexLt_irrefl]
  rfl

/-! ### after Release the handlers are never invoked -/

/-- Once `Release` has passed its first critical section (`relA`: the handlers are cleared under
the subscription mutex), no handler is ever invoked again — whatever delivery goroutines were
already started and whenever they run — unless the caller adds a new handler to the released
handle. The log of invocations does not grow. -/
theorem no_callback_after_release (pre post : List Sub.Ev) (hno : ∀ ev ∈ post, ∀ x, ev ≠ .add x) :
    (Sub.run {} (pre ++ .relA :: post)).calls = (Sub.run {} pre).calls := by
  rw [Sub.run_append, Sub.run_cons]
  have := Sub.handlers_nil_stays (Sub.step (Sub.run {} pre) .relA) post rfl hno
  rw [this.2]
  rfl

/-- In EVERY schedule (handlers may also be added after the release): a handler invoked after
the release was added after the release. Handlers registered before `Release` are never
invoked after it. -/
theorem callback_after_release_only_new_handlers (evs : List Sub.Ev) (c : Nat × Nat × Bool)
    (hc : c ∈ (Sub.run {} evs).calls) (hrel : c.2.2 = true) : c.1 ∈ (Sub.run {} evs).fresh :=
  (Sub.run_inv {} evs Sub.init_inv).cs c hc hrel

/-- After `Release` returned (both sections done) no new delivery goroutine is started for the
subscription: the pending ones can only drain. -/
theorem no_delivery_goroutine_after_release (pre post : List Sub.Ev) :
    (Sub.run {} (pre ++ .relB :: post)).pending.length ≤ (Sub.run {} (pre ++ [.relB])).pending.length := by
  have e : pre ++ Sub.Ev.relB :: post = (pre ++ [.relB]) ++ post := by simp
  rw [e, Sub.run_append]
  refine (Sub.pending_after_relB _ post ?_).2
  rw [Sub.run_append]
  rfl

/-- After the remove function of a handler returned, that handler is never invoked again
(handler identities are fresh per `AddHandler`, so it is not added again). -/
theorem no_callback_after_remove (pre post : List Sub.Ev) (x : Nat) (hno : ∀ ev ∈ post, ev ≠ .add x)
    (c : Nat × Nat × Bool) (hc : c ∈ (Sub.run {} (pre ++ .remove x :: post)).calls) :
    c ∈ (Sub.run {} pre).calls ∨ c.1 ≠ x := by
  rw [Sub.run_append, Sub.run_cons] at hc
  have hx : x ∉ (Sub.step (Sub.run {} pre) (.remove x)).handlers := by
    simp [Sub.step]
  exact (Sub.absent_handler_not_called _ post x hx hno).2 c hc

/-! ### the last release is announced -/

/-- Whenever the invariant holds outside the hold-break and no empty or unannounced channel key
is left, every initialised session has been told exactly the set of channels that have a live
subscription. -/
theorem beliefs_exact (s : Exec.State) (h : Exec.Inv s) (hpc : s.pc ≠ 1)
    (hclean : (∀ e ∈ s.channels, e.2 ≠ 0) ∧ (∀ ch ∈ s.channels.map (·.1), ch ∈ s.pubbed))
    (p : Nat) (hp : p ∈ s.running) (ch : Nat) :
    ch ∈ Exec.belief s p ↔ Exec.subscribed s ch = true := by
  obtain ⟨b1, b2, b3⟩ := h.bel p hp ch
  constructor
  · intro hb
    have hk := h.pk ch (b3 hpc hb)
    rw [List.mem_map] at hk
    obtain ⟨e, he, rfl⟩ := hk
    have hne := hclean.1 e he
    have hcnt := Exec.mem_count s h.nodup e.1 e.2 he
    unfold Exec.subscribed
    rw [hcnt]
    cases hx : e.2 with
    | zero => exact absurd hx hne
    | succ k => rfl
  · intro hs
    unfold Exec.subscribed at hs
    split at hs
    · rename_i k hcnt
      have hm := Exec.count_some_mem s ch (k + 1) hcnt
      exact b1 (hclean.2 ch (List.mem_map.mpr ⟨(ch, k + 1), hm, rfl⟩))
    · cases hs

/-- Once the last local subscription to a channel is released the peers are told: in every
history of subscribe / release / new session / session end interleaved arbitrarily with the two
lock regions of the `Execute` loop, whenever the loop is parked with no wake-up pending, every
initialised session has been sent `Subscribe = true` for exactly the channels that still have
a local subscription — in particular `Subscribe = false` for a channel whose last subscription
was released. -/
theorem last_release_unsubscribes (evs : List Exec.Ev) (hpc : (Exec.run {} evs).pc = 2)
    (hw : (Exec.run {} evs).wake = false) (p : Nat) (hp : p ∈ (Exec.run {} evs).running) (ch : Nat) :
    ch ∈ Exec.belief (Exec.run {} evs) p ↔ Exec.subscribed (Exec.run {} evs) ch = true := by
  have hinv := Exec.run_inv {} evs Exec.init_inv
  exact beliefs_exact _ hinv (by rw [hpc]; decide) (hinv.clean hpc hw) p hp ch

/-- …and the loop cannot stay parked after a last release: releasing the last subscription of
a channel sets the wake-up token (so another sweep follows). -/
theorem last_release_wakes (s : Exec.State) (ch : Nat) (h : Exec.count s ch = some 1) :
    (Exec.step s (.release ch)).wake = true := by
  simp [Exec.step, h]

/-- The same holds immediately after EVERY sweep (whether or not a wake-up is pending). -/
theorem after_sweep_exact (evs : List Exec.Ev) (hpc : (Exec.run {} evs).pc = 1)
    (p : Nat) (hp : p ∈ (Exec.run {} evs).running) (ch : Nat) :
    ch ∈ Exec.belief (Exec.region2 (Exec.run {} evs)) p ↔ Exec.subscribed (Exec.region2 (Exec.run {} evs)) ch = true := by
  have hinv := Exec.run_inv {} evs Exec.init_inv
  have hstep : Exec.step (Exec.run {} evs) .region2 = Exec.region2 (Exec.run {} evs) := by
    simp [Exec.step, hpc]
  have hinv2 := Exec.step_inv _ .region2 hinv
  rw [hstep] at hinv2
  refine beliefs_exact _ hinv2 (by show (2 : Nat) ≠ 1; decide) ⟨?_, ?_⟩ p hp ch
  · intro e he
    exact ((Exec.mem_sweptChannels _ _).mp he).2
  · intro c hc
    rw [List.mem_map] at hc
    obtain ⟨e, he, rfl⟩ := hc
    obtain ⟨hm, hk⟩ := (Exec.mem_sweptChannels _ _).mp he
    show e.1 ∈ Exec.sweptPubbed _ _
    rw [Exec.mem_sweptPubbed]
    by_cases hpb : e.1 ∈ (Exec.run {} evs).pubbed
    · left
      refine ⟨hpb, fun h0 => hk ?_⟩
      exact Exec.nodup_unique _ hinv.nodup e.1 e.2 0 hm h0
    · exact Or.inr ⟨e.2, hk, hm, hpb⟩

/-! ### the defect that was fixed (documentation of the witness) -/

/-- The sweep before the fix announced `Subscribe = false` only for channels in `pubbedChannels`. -/
def changesPre (pubbed : List Nat) (channels : List (Nat × Nat)) : List (Nat × Bool) :=
  channels.filterMap fun e =>
    if e.2 = 0 then (if pubbed.contains e.1 then some (e.1, false) else none)
    else if pubbed.contains e.1 then none else some (e.1, true)

def region2Pre (s : Exec.State) : Exec.State :=
  { s with channels := Exec.sweptChannels s.channels
           pubbed := Exec.sweptPubbed s.pubbed s.channels
           told := fun q => if s.running.contains q then s.told q ++ changesPre s.pubbed s.channels else s.told q
           pc := 2 }

/-- With the old sweep: subscribe, release, new session, one loop iteration — the session was
told `Subscribe = true` for channel 7 in its initial set and never `false`, although the channel
has no subscription (and the key is gone, so no later sweep repairs it). -/
theorem prefix_sweep_left_stale_subscribe :
    Exec.belief (region2Pre (Exec.run {} [.addSub 7, .release 7, .addPeer 1, .region1])) 1 = [7] ∧
    Exec.subscribed (region2Pre (Exec.run {} [.addSub 7, .release 7, .addPeer 1, .region1])) 7 = false ∧
    (region2Pre (Exec.run {} [.addSub 7, .release 7, .addPeer 1, .region1])).channels = [] := by
  decide

/-- Non-vacuity: the fixed loop on the same history ends parked-after-sweep with the session
told nothing is subscribed; and a history that reaches the parked state without wake-up. -/
example : Exec.belief (Exec.run {} [.addSub 7, .release 7, .addPeer 1, .region1, .region2]) 1 = [] := by decide

example : (Exec.run {} [.addSub 7, .addSub 7, .addPeer 1, .region1, .region2, .wakeup, .region1, .region2, .release 7]).pc = 2 ∧
    (Exec.run {} [.addSub 7, .addSub 7, .addPeer 1, .region1, .region2, .wakeup, .region1, .region2, .release 7]).wake = false ∧
    1 ∈ (Exec.run {} [.addSub 7, .addSub 7, .addPeer 1, .region1, .region2, .wakeup, .region1, .region2, .release 7]).running ∧
    Exec.belief (Exec.run {} [.addSub 7, .addSub 7, .addPeer 1, .region1, .region2, .wakeup, .region1, .region2, .release 7]) 1 = [7] := by
  decide

example : (Sub.run {} [.add 1, .spawn 5, .relA, .relB, .run 0]).calls = [] := by decide

end Bifrost.Props.C29
