import Bifrost.Model.Packets
import Bifrost.Gen.Limits
import Bifrost.Lemmas.Framing
import Bifrost.Lemmas.Writers
/-!
C09 — Buffered connection never silently loses or reorders bytes (`rwc.Conn`).
-/
namespace Bifrost.Props.C09
open Bifrost Bifrost.Framing Bifrost.Packets

abbrev pktSize : Nat := Bifrost.Gen.Limits.connPktSize

/-- The pump queues exactly the bytes the peer wrote, in order, in pieces of 1..pktSize bytes. -/
theorem pump_preserves_stream (k : Nat) (hk : 0 < k) (cs : Reader) :
    (connPump k cs).flatten = cs.flatten := by
  have _ := hk
  exact connPump_flatten k cs

theorem pump_piece_sizes (k : Nat) (hk : 0 < k) (cs : Reader) :
    ∀ p ∈ connPump k cs, 0 < p.length ∧ p.length ≤ k := by
  exact connPump_sizes k hk cs

/-- For arbitrary read-buffer sizes: re-inserting, after each read, the bytes that read
discarded gives back a prefix of the written stream; a read discards bytes only if it
reported a short buffer. So bytes are never reordered, and lost only with notice. -/
theorem loss_only_when_reported (k : Nat) (hk : 0 < k) (cs : Reader) (bufs : List Nat) :
    ∃ dropped : List Bytes,
      dropped.length = (connReads (connPump k cs) bufs).length ∧
      (List.zipWith (fun r d => r.1 ++ d) (connReads (connPump k cs) bufs) dropped).flatten
        <+: cs.flatten ∧
      (∀ i (h : i < (connReads (connPump k cs) bufs).length) (h' : i < dropped.length),
        (dropped[i] ≠ [] ↔ ((connReads (connPump k cs) bufs)[i]).2 = true)) := by
  have _ := hk
  have h := connReads_loss (connPump k cs) bufs
  rw [connPump_flatten k cs] at h
  exact h

/-- With read buffers at least as large as the pump buffer nothing is ever discarded: the
bytes returned are exactly the next unread bytes of the stream, and no short buffer is reported. -/
theorem reads_are_next_bytes (k : Nat) (hk : 0 < k) (cs : Reader) (bufs : List Nat)
    (hb : ∀ b ∈ bufs, k ≤ b) :
    ((connReads (connPump k cs) bufs).map (·.1)).flatten <+: cs.flatten ∧
    (∀ r ∈ connReads (connPump k cs) bufs, r.2 = false) := by
  have hq : ∀ p ∈ connPump k cs, p.length ≤ k := fun p hp => (connPump_sizes k hk cs p hp).2
  constructor
  · rw [connReads_big_fst k _ bufs hq hb, ← connPump_flatten k cs]
    conv => rhs; rw [← List.take_append_drop bufs.length (connPump k cs)]
    rw [List.flatten_append]
    exact List.prefix_append _ _
  · rw [connReads_big k _ bufs hq hb]
    intro r hr
    simp only [List.mem_map] at hr
    obtain ⟨p, -, rfl⟩ := hr
    rfl

/-- When enough reads are made, every byte written is returned. -/
theorem all_bytes_delivered (k : Nat) (hk : 0 < k) (cs : Reader) (bufs : List Nat)
    (hb : ∀ b ∈ bufs, k ≤ b) (hn : (connPump k cs).length ≤ bufs.length) :
    ((connReads (connPump k cs) bufs).map (·.1)).flatten = cs.flatten := by
  have hq : ∀ p ∈ connPump k cs, p.length ≤ k := fun p hp => (connPump_sizes k hk cs p hp).2
  rw [connReads_big_fst k _ bufs hq hb, List.take_of_length_le hn, connPump_flatten k cs]

/-! ### `Conn.Write` loops until all bytes are written -/

/-- Whatever the underlying writer does on each call (accept any number of bytes, report an
error or not), what reaches it is always a prefix of the packet, in order — nothing is
duplicated, skipped or reordered — and the count returned is the length of that prefix. A nil
error means the WHOLE packet was written; an error is reported only if some underlying call
reported one, with the count of bytes written up to and including that call. -/
theorem write_all_or_error (script : List (Nat × Bool)) (pkt : Bytes) :
    (connWrite script pkt).2 <+: pkt ∧
    (match (connWrite script pkt).1 with
     | .ok n => (connWrite script pkt).2 = pkt ∧ n = pkt.length
     | .err n => (connWrite script pkt).2 = pkt.take n ∧ n ≤ pkt.length ∧ ∃ s ∈ script, s.2 = true
     | .spin => (connWrite script pkt).2.length < pkt.length) := by
  obtain ⟨t, h1, h2⟩ := connWriteLoop_spec script pkt [] 0
  unfold connWrite
  rw [h1]
  refine ⟨by simpa using List.take_prefix t pkt, ?_⟩
  revert h2
  generalize (connWriteLoop script pkt [] 0).1 = r
  cases r with
  | ok n =>
    intro ⟨ha, hb⟩
    exact ⟨by simpa using List.take_of_length_le hb, by omega⟩
  | err n =>
    intro ⟨ha, hb, hc⟩
    have : n = t := by omega
    subst this
    exact ⟨by simp, hb, hc⟩
  | spin =>
    intro ⟨_, hb⟩
    simp only [List.nil_append, List.length_take]
    omega

/-- For EVERY acceptance pattern in which each call takes at least one byte and none fails
(1 byte per call, 7 per call, 2047/2048/2049 per call, any mix), the loop ends with all bytes
written, in order, and reports `len(pkt), nil`. -/
theorem write_completes (script : List (Nat × Bool)) (pkt : Bytes)
    (hs : ∀ s ∈ script, 1 ≤ s.1 ∧ s.2 = false) (hl : pkt.length ≤ script.length) :
    connWrite script pkt = (.ok pkt.length, pkt) := by
  have h := connWriteLoop_progress script pkt [] 0 hs hl
  have h2 := write_all_or_error script pkt
  unfold connWrite at h2 ⊢
  rw [h] at h2
  simp only [Nat.zero_add] at h h2
  exact Prod.ext h h2.2.1

/-! ### End of stream -/

/-- A connection whose underlying reader has ended with error `e` (`none` = EOF): read number
`i` returns queued data exactly while `i` is below the number of queued pieces, and reports the
end condition — the underlying error itself, or EOF — exactly from then on, on every later
read. The error is never reported before the buffered bytes are drained, and never replaced. -/
theorem end_reported_after_drain (k : Nat) (cs : Reader) (e : Option Nat) (bufs : List Nat)
    (i : Nat) (hi : i < bufs.length) :
    (connReadsEnd (connPump k cs) e bufs)[i]? =
      if h : i < (connPump k cs).length then
        some (.data ((connPump k cs)[i].take bufs[i]) (decide (bufs[i] < (connPump k cs)[i].length)))
      else some (.ended e) :=
  connReadsEnd_getElem? (connPump k cs) e bufs i hi

/-- Until the end is reported the reads are exactly those of the running connection
(`connReads`), so everything proved above about order and loss applies to them. -/
theorem end_reads_extend_reads (q : List Bytes) (e : Option Nat) (bufs : List Nat) :
    (connReadsEnd q e bufs).take q.length =
      (connReads q bufs).map (fun r => ReadRes.data r.1 r.2) := by
  induction bufs generalizing q with
  | nil => cases q <;> simp [connReadsEnd, connReads]
  | cons b bs ih =>
    cases q with
    | nil => simp [connReadsEnd, connReads]
    | cons p q' => simp [connReadsEnd, connReads, ih q']

/-- Non-vacuity: a writer taking 2, then 0, then 3 bytes; one failing at the second call; a
reader ending with error 5 after two pieces. -/
example : connWrite [(2, false), (0, false), (3, false)] [1, 2, 3, 4] = (.ok 4, [1, 2, 3, 4]) ∧
    connWrite [(2, false), (1, true), (3, false)] [1, 2, 3, 4] = (.err 3, [1, 2, 3]) ∧
    connReadsEnd (connPump 4 [[1, 2, 3, 4, 5]]) (some 5) [10, 10, 10, 10]
      = [.data [1, 2, 3, 4] false, .data [5] false, .ended (some 5), .ended (some 5)] := by
  decide

/-- Non-vacuity (pump buffer 4): a 5-byte chunk is split 4+1; a zero-size read loses with notice. -/
example : connReads (connPump 4 [[1, 2, 3, 4, 5], [6]]) [10, 10, 0]
    = [([1, 2, 3, 4], false), ([5], false), ([], true)] := by decide

end Bifrost.Props.C09
