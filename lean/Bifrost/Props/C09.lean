import Bifrost.Model.Packets
import Bifrost.Gen.Limits
import Bifrost.Lemmas.Framing
/-!
C09 — Buffered connection never silently loses or reorders bytes (`rwc.Conn`).
-/
namespace Bifrost.Props.C09
open Bifrost Bifrost.Framing Bifrost.Packets

abbrev pktSize : Nat := Bifrost.Gen.Limits.connPktSize

/-- The pump queues exactly the bytes the peer wrote, in order, in pieces of 1..pktSize bytes. -/
theorem pump_preserves_stream (k : Nat) (hk : 0 < k) (cs : Reader) :
    (connPump k cs).flatten = cs.flatten := by
  have _ := hk
  exact connPump_flatten k cs

theorem pump_piece_sizes (k : Nat) (hk : 0 < k) (cs : Reader) :
    ∀ p ∈ connPump k cs, 0 < p.length ∧ p.length ≤ k := by
  exact connPump_sizes k hk cs

/-- For arbitrary read-buffer sizes: re-inserting, after each read, the bytes that read
discarded gives back a prefix of the written stream; a read discards bytes only if it
reported a short buffer. So bytes are never reordered, and lost only with notice. -/
theorem loss_only_when_reported (k : Nat) (hk : 0 < k) (cs : Reader) (bufs : List Nat) :
    ∃ dropped : List Bytes,
      dropped.length = (connReads (connPump k cs) bufs).length ∧
      (List.zipWith (fun r d => r.1 ++ d) (connReads (connPump k cs) bufs) dropped).flatten
        <+: cs.flatten ∧
      (∀ i (h : i < (connReads (connPump k cs) bufs).length) (h' : i < dropped.length),
        (dropped[i] ≠ [] ↔ ((connReads (connPump k cs) bufs)[i]).2 = true)) := by
  have _ := hk
  have h := connReads_loss (connPump k cs) bufs
  rw [connPump_flatten k cs] at h
  exact h

/-- With read buffers at least as large as the pump buffer nothing is ever discarded: the
bytes returned are exactly the next unread bytes of the stream, and no short buffer is reported. -/
theorem reads_are_next_bytes (k : Nat) (hk : 0 < k) (cs : Reader) (bufs : List Nat)
    (hb : ∀ b ∈ bufs, k ≤ b) :
    ((connReads (connPump k cs) bufs).map (·.1)).flatten <+: cs.flatten ∧
    (∀ r ∈ connReads (connPump k cs) bufs, r.2 = false) := by
  have hq : ∀ p ∈ connPump k cs, p.length ≤ k := fun p hp => (connPump_sizes k hk cs p hp).2
  constructor
  · rw [connReads_big_fst k _ bufs hq hb, ← connPump_flatten k cs]
    conv => rhs; rw [← List.take_append_drop bufs.length (connPump k cs)]
    rw [List.flatten_append]
    exact List.prefix_append _ _
  · rw [connReads_big k _ bufs hq hb]
    intro r hr
    simp only [List.mem_map] at hr
    obtain ⟨p, -, rfl⟩ := hr
    rfl

/-- When enough reads are made, every byte written is returned. -/
theorem all_bytes_delivered (k : Nat) (hk : 0 < k) (cs : Reader) (bufs : List Nat)
    (hb : ∀ b ∈ bufs, k ≤ b) (hn : (connPump k cs).length ≤ bufs.length) :
    ((connReads (connPump k cs) bufs).map (·.1)).flatten = cs.flatten := by
  have hq : ∀ p ∈ connPump k cs, p.length ≤ k := fun p hp => (connPump_sizes k hk cs p hp).2
  rw [connReads_big_fst k _ bufs hq hb, List.take_of_length_le hn, connPump_flatten k cs]

/-- Non-vacuity (pump buffer 4): a 5-byte chunk is split 4+1; a zero-size read loses with notice. -/
example : connReads (connPump 4 [[1, 2, 3, 4, 5], [6]]) [10, 10, 0]
    = [([1, 2, 3, 4], false), ([5], false), ([], true)] := by decide

end Bifrost.Props.C09
