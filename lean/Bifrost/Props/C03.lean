import Bifrost.Model.Tls
import Bifrost.Model.Crypto
import Bifrost.Gen.Tls
import Bifrost.Lemmas.Tls
import Bifrost.Lemmas.Codec
/-!
C03 — Links are authenticated to the peer that holds the key. Property theorems only.

Stated over the constants regenerated from the source on every run: the extension OID
`Gen.Tls.extensionID` and the signed-message prefix `Gen.Tls.certificatePrefix`.
`V`/`S.verify` is the signature scheme of the identity keys, `P` the ASN.1 decoder of the
`signedKey` extension value (trusted `encoding/asn1`); certificates are abstracted to the
features the code inspects (`Bifrost.Tls.Cert`). TRUSTED, not modelled: the TLS 1.3 handshake's
proof of possession of the certificate key, that `crypto/tls` hands the same certificates to
`VerifyPeerCertificate` and to `ConnectionState().PeerCertificates`, `crypto/x509` parsing and
`Verify`, quic-go.
-/
namespace Bifrost.Props.C03
open Bifrost Bifrost.Codec Bifrost.Tls Bifrost.Crypto

abbrev EXT : Oid := Bifrost.Gen.Tls.extensionID
abbrev PFX : Bytes := Bifrost.Gen.Tls.certificatePrefix

/-! ### exact characterisation of acceptance -/

/-- `PubKeyFromCertChain` accepts a chain and returns `pk` exactly when: the chain is a single
certificate; its FIRST extension with the libp2p OID has — after that OID is struck from the
unhandled critical extensions — an otherwise x509-valid, self-signed certificate around it; the
extension value decodes to (key bytes, signature); the key bytes are a well-formed Ed25519 public
key message for `pk`; and the signature verifies under `pk` over `certificatePrefix ‖ PKIX(cert
key)`. -/
theorem chain_ok_iff (V : VerifyFn) (P : ParseFn) (chain : List Cert) (pk : Bytes) :
    pubKeyFromCertChain EXT PFX V P chain = .ok pk ↔
      ∃ cert ext pkb sig spki,
        chain = [cert] ∧
        findKeyExt EXT cert.exts = some ext ∧
        removeFirst ext.id cert.unhandledCritical = [] ∧ cert.verifyRest = true ∧
        cert.selfSigOk = true ∧
        P ext.value = some (pkb, sig) ∧
        unmarshalPublicKey pkb = some pk ∧
        cert.pkix = some spki ∧
        V pk (PFX ++ spki) sig = true :=
  pubKeyFromCertChain_ok_iff EXT PFX V P chain pk

/-- Which extension is "the" key extension: the first one carrying the OID; later ones (and
everything before it) are irrelevant to the outcome. -/
theorem first_key_extension_decides (V : VerifyFn) (P : ParseFn) (cert : Cert)
    (pre post : List Ext) (e : Ext) (he : e.id = EXT) (hpre : ∀ x ∈ pre, x.id ≠ EXT) :
    pubKeyFromCertChain EXT PFX V P [{ cert with exts := pre ++ e :: post }] =
      pubKeyFromCertChain EXT PFX V P [{ cert with exts := [e] }] := by
  have h1 : findKeyExt EXT (pre ++ e :: post) = some e :=
    (findKeyExt_some EXT _ e).mpr ⟨pre, post, rfl, he, hpre⟩
  have h2 : findKeyExt EXT [e] = some e :=
    (findKeyExt_some EXT _ e).mpr ⟨[], [], rfl, he, by simp⟩
  simp only [pubKeyFromCertChain, h1, h2]

/-- The certificate may mark the key extension critical (it is then struck from the unhandled
list), but any OTHER unhandled critical extension makes the chain unacceptable. -/
theorem unhandled_critical_iff (ext : Ext) (unh : List Oid) :
    removeFirst ext.id unh = [] ↔ unh = [] ∨ unh = [ext.id] :=
  removeFirst_nil ext.id unh

/-! ### the established link names the key that signed the presented certificate key -/

/-- MAIN. Under ideal unforgeability: if a link is established from the certificates a remote
presented, the link's remote peer ID is the ID of a public key whose PRIVATE half produced the
binding signature over `certificatePrefix ‖ PKIX(key of the presented, self-signed
certificate)`; and if the caller required a specific peer, it is that peer. -/
theorem link_remote_authentic (S : SigScheme) (P : ParseFn) (remote : Bytes)
    (presented : List Cert) (id : Bytes)
    (h : establish EXT PFX S.verify P remote presented = .ok id) :
    ∃ cert ext pkb spki sk,
      presented = [cert] ∧ cert.selfSigOk = true ∧ cert.pkix = some spki ∧
      findKeyExt EXT cert.exts = some ext ∧
      P ext.value = some (pkb, S.sign sk (PFX ++ spki)) ∧
      unmarshalPublicKey pkb = some (S.pub sk) ∧
      id = idFromPublicKey (S.pub sk) ∧
      (remote = [] ∨ remote = id) := by
  obtain ⟨pk, hpk, hid, hrem⟩ := (establish_ok_iff _ _ _ _ _ _ _).mp h
  obtain ⟨cert, ext, pkb, sig, spki, hc, hext, _, _, hss, hp, hkey, hspki, hv⟩ :=
    (chain_ok_iff _ _ _ _).mp hpk
  obtain ⟨sk, hpub, hsig⟩ := S.unforge _ _ _ hv
  subst hpub
  subst hsig
  exact ⟨cert, ext, pkb, spki, sk, hc, hss, hspki, hext, hp, hkey, hid, hrem⟩

/-- The same for what `DetermineSessionIdentity` / `NewLink` alone derive from a session's peer
certificates. -/
theorem session_identity_authentic (S : SigScheme) (P : ParseFn) (certs : List Cert) (id pk : Bytes)
    (h : determineSessionIdentity EXT PFX S.verify P certs = .ok (id, pk)) :
    id = idFromPublicKey pk ∧ pk.length = 32 ∧
      ∃ cert spki sk, certs = [cert] ∧ cert.pkix = some spki ∧ S.pub sk = pk ∧
        ∃ ext pkb, findKeyExt EXT cert.exts = some ext ∧
          P ext.value = some (pkb, S.sign sk (PFX ++ spki)) := by
  unfold determineSessionIdentity at h
  split at h
  · cases h
  · rename_i pk' hpk
    injection h with h
    injection h with h1 h2
    subst h1 h2
    obtain ⟨cert, ext, pkb, sig, spki, hc, hext, _, _, _, hp, hkey, hspki, hv⟩ :=
      (chain_ok_iff _ _ _ _).mp hpk
    obtain ⟨sk, hpub, hsig⟩ := S.unforge _ _ _ hv
    subst hsig
    refine ⟨rfl, ?_, cert, spki, sk, hc, hspki, hpub, ext, pkb, hext, hp⟩
    unfold unmarshalPublicKey at hkey
    split at hkey
    · cases hkey
    · split at hkey
      · cases hkey
      · simp only at hkey
        split at hkey
        · cases hkey
        · rename_i hl
          injection hkey with hkey
          subst hkey
          simpa using hl

/-- A link that names the identity of a 32-byte key `pk₀` can only be established by a holder of
the private key of `pk₀` (IDs are injective on keys): no other key's holder can obtain it. -/
theorem impersonation_impossible (S : SigScheme) (P : ParseFn) (remote : Bytes)
    (presented : List Cert) (pk₀ : Bytes) (h0 : pk₀.length = 32)
    (h : establish EXT PFX S.verify P remote presented = .ok (idFromPublicKey pk₀)) :
    ∃ cert spki sk ext pkb, presented = [cert] ∧ cert.pkix = some spki ∧ S.pub sk = pk₀ ∧
      findKeyExt EXT cert.exts = some ext ∧ P ext.value = some (pkb, S.sign sk (PFX ++ spki)) := by
  obtain ⟨cert, ext, pkb, spki, sk, hc, _, hspki, hext, hp, hkey, hid, _⟩ :=
    link_remote_authentic S P remote presented _ h
  refine ⟨cert, spki, sk, ext, pkb, hc, hspki, ?_, hext, hp⟩
  have hl : (S.pub sk).length = 32 := by
    unfold unmarshalPublicKey at hkey
    split at hkey
    · cases hkey
    · split at hkey
      · cases hkey
      · simp only at hkey
        split at hkey
        · cases hkey
        · rename_i hl
          injection hkey with hkey
          rw [← hkey]
          simpa using hl
  have e1 := Codec.extract_idFromPublicKey pk₀ h0
  have e2 := Codec.extract_idFromPublicKey (S.pub sk) hl
  rw [hid, e2] at e1
  injection e1

/-! ### the expected peer is enforced -/

/-- The `VerifyPeerCertificate` closure of `ConfigForPeer(remote)` returns nil (and hands out a
key) only if no peer was required or the key's ID is the required peer. -/
theorem expected_peer_only (V : VerifyFn) (P : ParseFn) (remote : Bytes)
    (raw : List (Option Cert)) (pk : Bytes)
    (h : verifyPeerCertificate EXT PFX V P remote raw = .ok pk) :
    (remote = [] ∨ remote = idFromPublicKey pk) ∧
      ∃ chain, raw = chain.map some ∧ pubKeyFromCertChain EXT PFX V P chain = .ok pk := by
  unfold verifyPeerCertificate at h
  split at h
  · cases h
  · rename_i chain hchain
    split at h
    · cases h
    · rename_i pk' hpk
      split at h
      · cases h
      · rename_i hc
        injection h with h
        subst h
        refine ⟨?_, chain, parseAll_some raw chain hchain, hpk⟩
        cases remote with
        | nil => exact Or.inl rfl
        | cons r rs =>
          right
          simp only [List.isEmpty_cons, Bool.not_false, Bool.true_and, Bool.not_eq_eq_eq_not,
            Bool.not_true, Bool.not_eq_false, matchesPublicKey, decide_eq_true_eq] at hc
          exact hc.symm

/-- A required peer that differs from the derived identity: the handshake is refused, whatever
valid chain the answering peer presents… -/
theorem expected_peer_enforced (V : VerifyFn) (P : ParseFn) (remote : Bytes) (chain : List Cert)
    (pk : Bytes) (hne : remote ≠ []) (hpk : pubKeyFromCertChain EXT PFX V P chain = .ok pk)
    (hdiff : remote ≠ idFromPublicKey pk) :
    verifyPeerCertificate EXT PFX V P remote (chain.map some) = .error .peerMismatch := by
  unfold verifyPeerCertificate
  rw [parseAll_map_some]
  simp only [hpk]
  cases remote with
  | nil => exact absurd rfl hne
  | cons r rs =>
    have : matchesPublicKey (r :: rs) pk = false := by
      simp only [matchesPublicKey, decide_eq_false_iff_not]
      exact fun e => hdiff e.symm
    simp [this]

/-- …and no link results. -/
theorem expected_peer_no_link (V : VerifyFn) (P : ParseFn) (remote : Bytes) (chain : List Cert)
    (pk : Bytes) (hne : remote ≠ []) (hpk : pubKeyFromCertChain EXT PFX V P chain = .ok pk)
    (hdiff : remote ≠ idFromPublicKey pk) :
    establish EXT PFX V P remote chain = .error .peerMismatch := by
  unfold establish
  rw [expected_peer_enforced V P remote chain pk hne hpk hdiff]

/-! ### refusals -/

/-- zero or ≥ 2 certificates -/
theorem refuse_chain_length (V : VerifyFn) (P : ParseFn) (remote : Bytes) (chain : List Cert)
    (h : chain.length ≠ 1) :
    pubKeyFromCertChain EXT PFX V P chain = .error .chainLen ∧
      establish EXT PFX V P remote chain = .error .chainLen := by
  have : pubKeyFromCertChain EXT PFX V P chain = .error .chainLen := by
    match chain, h with
    | [], _ => rfl
    | [_], h => exact absurd rfl h
    | _ :: _ :: _, _ => rfl
  exact ⟨this, establish_error_of_chain_error _ _ _ _ _ _ _ this⟩

/-- an unparsable certificate anywhere in what the remote sent -/
theorem refuse_unparsable_certificate (V : VerifyFn) (P : ParseFn) (remote : Bytes)
    (raw : List (Option Cert)) (h : none ∈ raw) :
    verifyPeerCertificate EXT PFX V P remote raw = .error .certParse := by
  unfold verifyPeerCertificate
  rw [parseAll_none_of_mem raw h]

/-- no extension with the libp2p OID -/
theorem refuse_missing_extension (V : VerifyFn) (P : ParseFn) (remote : Bytes) (cert : Cert)
    (h : ∀ x ∈ cert.exts, x.id ≠ EXT) :
    pubKeyFromCertChain EXT PFX V P [cert] = .error .noExt ∧
      establish EXT PFX V P remote [cert] = .error .noExt := by
  have : pubKeyFromCertChain EXT PFX V P [cert] = .error .noExt := by
    simp only [pubKeyFromCertChain, (findKeyExt_none EXT cert.exts).mpr h]
  exact ⟨this, establish_error_of_chain_error _ _ _ _ _ _ _ this⟩

/-- not self-signed (signature by another key, or garbage) -/
theorem refuse_bad_self_signature (V : VerifyFn) (P : ParseFn) (remote : Bytes) (cert : Cert)
    (h : cert.selfSigOk = false) (r : Bytes) :
    pubKeyFromCertChain EXT PFX V P [cert] ≠ .ok r ∧ establish EXT PFX V P remote [cert] ≠ .ok r := by
  constructor
  · intro hok
    obtain ⟨c, _, _, _, _, hc, _, _, _, hss, _⟩ := (chain_ok_iff _ _ _ _).mp hok
    injection hc with hc
    subst hc
    rw [h] at hss
    cases hss
  · intro hok
    obtain ⟨pk, hpk, _, _⟩ := (establish_ok_iff _ _ _ _ _ _ _).mp hok
    obtain ⟨c, _, _, _, _, hc, _, _, _, hss, _⟩ := (chain_ok_iff _ _ _ _).mp hpk
    injection hc with hc
    subst hc
    rw [h] at hss
    cases hss

/-- expired / not yet valid / wrong key usage, or an unhandled critical extension other than
the key extension -/
theorem refuse_x509_invalid (V : VerifyFn) (P : ParseFn) (remote : Bytes) (cert : Cert)
    (h : cert.verifyRest = false ∨ ∃ o ∈ cert.unhandledCritical, o ≠ EXT) (r : Bytes) :
    pubKeyFromCertChain EXT PFX V P [cert] ≠ .ok r ∧ establish EXT PFX V P remote [cert] ≠ .ok r := by
  have key : ∀ pk, pubKeyFromCertChain EXT PFX V P [cert] ≠ .ok pk := by
    intro pk hok
    obtain ⟨c, ext, _, _, _, hc, hext, hr, hvr, _⟩ := (chain_ok_iff _ _ _ _).mp hok
    injection hc with hc
    subst hc
    rcases h with h | ⟨o, ho, hne⟩
    · rw [h] at hvr
      cases hvr
    · have hid := findKeyExt_id _ _ _ hext
      rcases (removeFirst_nil _ _).mp hr with h0 | h1
      · rw [h0] at ho
        cases ho
      · rw [h1, hid] at ho
        exact hne (by simpa using ho)
  refine ⟨key r, ?_⟩
  intro hok
  obtain ⟨pk, hpk, _, _⟩ := (establish_ok_iff _ _ _ _ _ _ _).mp hok
  exact key pk hpk

/-- the key extension's value is not a `signedKey` structure (corrupted ASN.1), or the key bytes
in it are not a well-formed Ed25519 public key message -/
theorem refuse_unparsable_binding (V : VerifyFn) (P : ParseFn) (remote : Bytes) (cert : Cert)
    (ext : Ext) (hext : findKeyExt EXT cert.exts = some ext)
    (h : P ext.value = none ∨ ∃ pkb sig, P ext.value = some (pkb, sig) ∧ unmarshalPublicKey pkb = none)
    (r : Bytes) :
    pubKeyFromCertChain EXT PFX V P [cert] ≠ .ok r ∧ establish EXT PFX V P remote [cert] ≠ .ok r := by
  have key : ∀ pk, pubKeyFromCertChain EXT PFX V P [cert] ≠ .ok pk := by
    intro pk hok
    obtain ⟨c, ext', pkb, sig, _, hc, hext', _, _, _, hp, hkey, _⟩ := (chain_ok_iff _ _ _ _).mp hok
    injection hc with hc
    subst hc
    rw [hext] at hext'
    injection hext' with hext'
    subst hext'
    rcases h with h | ⟨pkb', sig', hp', hk'⟩
    · rw [h] at hp
      cases hp
    · rw [hp'] at hp
      injection hp with hp
      injection hp with h1 h2
      subst h1
      rw [hk'] at hkey
      cases hkey
  refine ⟨key r, ?_⟩
  intro hok
  obtain ⟨pk, hpk, _, _⟩ := (establish_ok_iff _ _ _ _ _ _ _).mp hok
  exact key pk hpk

/-- The binding signature was made — by anyone — over a different message: another certificate's
key (e.g. a victim's extension replayed on the attacker's certificate) or another prefix. -/
theorem refuse_signature_over_other_message (S : SigScheme) (P : ParseFn) (remote : Bytes)
    (cert : Cert) (ext : Ext) (pkb sk pfx' spki' spki : Bytes)
    (hext : findKeyExt EXT cert.exts = some ext)
    (hp : P ext.value = some (pkb, S.sign sk (pfx' ++ spki')))
    (hspki : cert.pkix = some spki)
    (hdiff : pfx' ++ spki' ≠ PFX ++ spki) (r : Bytes) :
    pubKeyFromCertChain EXT PFX S.verify P [cert] ≠ .ok r ∧
      establish EXT PFX S.verify P remote [cert] ≠ .ok r := by
  have key : ∀ pk, pubKeyFromCertChain EXT PFX S.verify P [cert] ≠ .ok pk := by
    intro pk hok
    obtain ⟨c, ext', pkb', sig, spki'', hc, hext', _, _, _, hp', _, hs, hv⟩ :=
      (chain_ok_iff _ _ _ _).mp hok
    injection hc with hc
    subst hc
    rw [hext] at hext'
    injection hext' with hext'
    subst hext'
    rw [hp] at hp'
    injection hp' with hp'
    injection hp' with _ h2
    subst h2
    rw [hspki] at hs
    injection hs with hs
    subst hs
    obtain ⟨sk', _, hsig⟩ := S.unforge _ _ _ hv
    exact hdiff (S.sign_inj _ _ _ _ hsig).2
  refine ⟨key r, ?_⟩
  intro hok
  obtain ⟨pk, hpk, _, _⟩ := (establish_ok_iff _ _ _ _ _ _ _).mp hok
  exact key pk hpk

/-- in particular: a signature over the right prefix but ANOTHER certificate key -/
theorem refuse_signature_over_other_key (S : SigScheme) (P : ParseFn) (remote : Bytes)
    (cert : Cert) (ext : Ext) (pkb sk spki' spki : Bytes)
    (hext : findKeyExt EXT cert.exts = some ext)
    (hp : P ext.value = some (pkb, S.sign sk (PFX ++ spki')))
    (hspki : cert.pkix = some spki) (hdiff : spki' ≠ spki) (r : Bytes) :
    pubKeyFromCertChain EXT PFX S.verify P [cert] ≠ .ok r ∧
      establish EXT PFX S.verify P remote [cert] ≠ .ok r :=
  refuse_signature_over_other_message S P remote cert ext pkb sk PFX spki' spki hext hp hspki
    (fun e => hdiff (List.append_cancel_left e)) r

/-- and: a signature over the right certificate key but another prefix -/
theorem refuse_wrong_prefix (S : SigScheme) (P : ParseFn) (remote : Bytes)
    (cert : Cert) (ext : Ext) (pkb sk pfx' spki : Bytes)
    (hext : findKeyExt EXT cert.exts = some ext)
    (hp : P ext.value = some (pkb, S.sign sk (pfx' ++ spki)))
    (hspki : cert.pkix = some spki) (hdiff : pfx' ≠ PFX) (r : Bytes) :
    pubKeyFromCertChain EXT PFX S.verify P [cert] ≠ .ok r ∧
      establish EXT PFX S.verify P remote [cert] ≠ .ok r :=
  refuse_signature_over_other_message S P remote cert ext pkb sk pfx' spki spki hext hp hspki
    (fun e => hdiff (List.append_cancel_right e)) r

/-- Impersonation: the extension names the key `pk` (the victim) but the signature — over the
right message, or any other — was made with a private key of a different public key. -/
theorem refuse_foreign_signer (S : SigScheme) (P : ParseFn) (remote : Bytes)
    (cert : Cert) (ext : Ext) (pkb pk sk spki : Bytes)
    (hext : findKeyExt EXT cert.exts = some ext)
    (hp : P ext.value = some (pkb, S.sign sk spki))
    (hkey : unmarshalPublicKey pkb = some pk) (hdiff : S.pub sk ≠ pk) (r : Bytes) :
    pubKeyFromCertChain EXT PFX S.verify P [cert] ≠ .ok r ∧
      establish EXT PFX S.verify P remote [cert] ≠ .ok r := by
  have key : ∀ pk', pubKeyFromCertChain EXT PFX S.verify P [cert] ≠ .ok pk' := by
    intro pk' hok
    obtain ⟨c, ext', pkb', sig, spki'', hc, hext', _, _, _, hp', hkey', hs, hv⟩ :=
      (chain_ok_iff _ _ _ _).mp hok
    injection hc with hc
    subst hc
    rw [hext] at hext'
    injection hext' with hext'
    subst hext'
    rw [hp] at hp'
    injection hp' with hp'
    injection hp' with h1 h2
    subst h1 h2
    rw [hkey] at hkey'
    injection hkey' with hkey'
    subst hkey'
    obtain ⟨sk', hpub, hsig⟩ := S.unforge _ _ _ hv
    have := (S.sign_inj _ _ _ _ hsig).1
    exact hdiff (by rw [this, hpub])
  refine ⟨key r, ?_⟩
  intro hok
  obtain ⟨pk', hpk, _, _⟩ := (establish_ok_iff _ _ _ _ _ _ _).mp hok
  exact key pk' hpk

/-! ### honest peers are accepted (the conditions above are satisfiable) -/

/-- The certificate `keyToCertificate` builds for identity key `sk` (any certificate key, key
extension critical or not) is accepted, by a peer requiring nobody or requiring exactly this
identity, and the link names the identity of `sk`. -/
theorem honest_accepted (S : SigScheme) (A : Asn1Codec) (sk spki remote : Bytes) (critical : Bool)
    (hlen : (S.pub sk).length = 32)
    (hrem : remote = [] ∨ remote = idFromPublicKey (S.pub sk)) :
    establish EXT PFX S.verify A.parse remote
      [keyToCertificate EXT PFX (S.sign sk) A.marshal (S.pub sk) spki critical] =
        .ok (idFromPublicKey (S.pub sk)) := by
  rw [establish_ok_iff]
  refine ⟨S.pub sk, ?_, rfl, hrem⟩
  rw [chain_ok_iff]
  refine ⟨_, generateSignedExtension EXT PFX (S.sign sk) A.marshal (S.pub sk) spki,
    marshalPublicKey (S.pub sk), S.sign sk (PFX ++ spki), spki, rfl, ?_, ?_, rfl, rfl, ?_, ?_, rfl, ?_⟩
  · simp only [keyToCertificate, findKeyExt, generateSignedExtension, oidEqual_refl, if_true]
  · cases critical <;> simp [keyToCertificate, generateSignedExtension, removeFirst, oidEqual_refl]
  · simp only [generateSignedExtension, bindingMessage]
    exact A.roundtrip _ _
  · exact Codec.unmarshal_marshalPublicKey _ hlen
  · exact S.complete _ _

/-- Non-vacuity: the hypotheses of the theorems above are satisfiable (toy scheme, toy codec),
an honest link is established and `link_remote_authentic` fires on it. -/
example : ∃ id, establish EXT PFX ToySig.verify ToyAsn1.parse []
      [keyToCertificate EXT PFX (ToySig.sign (List.replicate 32 7)) ToyAsn1.marshal
        (ToySig.pub (List.replicate 32 7)) [1, 2, 3] false] = .ok id ∧
    ∃ sk, id = idFromPublicKey (ToySig.pub sk) :=
  ⟨_, honest_accepted ToySig ToyAsn1 (List.replicate 32 7) [1, 2, 3] [] false (by simp [ToySig]) (Or.inl rfl),
    List.replicate 32 7, rfl⟩

/-- Non-vacuity of the refusals: a concrete re-signed (not self-signed) certificate. -/
example : pubKeyFromCertChain EXT PFX (fun _ _ _ => true) (fun _ => some ([8, 1, 18, 0], [1]))
    [{ exts := [⟨EXT, [0]⟩], selfSigOk := false, pkix := some [] }] = .error .selfSig := by
  decide

end Bifrost.Props.C03
