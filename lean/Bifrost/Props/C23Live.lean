import Bifrost.Lemmas.SigLiveFull
import Bifrost.Lemmas.SigLiveEx
/-!
C23 — Signaling makes progress once both peers are stably attached: the LIVENESS theorem.

Model: `Bifrost.SigSys` (any number of client trackers ∘ relay ∘ one FIFO channel pair per Session
RPC). Executions are infinite: `σ : Nat → SigSys.State`, `ev : Nat → SigSys.Ev` with
`σ (n+1) = SigSys.step (σ n) (ev n)` (`Temporal.IsExec`), starting in any reachable state. Before
the stable suffix ANYTHING may happen (reconnects, usurps, cancellations, other peers, re-opens
while a send is in flight — F11). There is no bound on the number of steps and no search anywhere:
the proof is the ranking rule `Temporal.wf_rank` (well-founded induction, proved once) applied to
the measure `(pending sends, stage of the current send, position in the queue)` of
`Lemmas/SigPairMono.lean` on the projection `Lemmas/SigPair.lean` of the two trackers, which
`Lemmas/SigPairSim.lean` proves to be an exact simulation along a stable suffix; the invariant the
measure needs (`SigPair.PInv`: epochs in flight are bounded, announcement bookkeeping, C22's wake-up
condition, and the token invariant "a message transmitted in the current epoch and not yet
acknowledged is somewhere on its way") is proved for EVERY reachable state with two live calls
(`pair_invariant_everywhere`).

Hypotheses of `signaling_progress` — all about the execution, none about hidden state:
* `Live (σ N) A B ia ib`  — at `N` both trackers hold a live Session RPC at the relay (client has
  the call and the stream pair open; the relay's handler is running and is the registered attachment);
* `StableFrom ev A B ia ib N` — from `N` on no `disconnect` / `sendCancel` of the two trackers and no
  relay-side teardown (`srvEnd`) of their two calls. Every other event is allowed, including everything
  other trackers and other calls do (their connects, teardowns, usurps);
* `NoNewSends ev A B N` — no new `Send` call of the two trackers from `N` on (FINDING: needed — with an
  unbounded stream of new `Send` calls a pending one can be overtaken at the slot forever under weak
  fairness; the property speaks of one or two pending sends; finitely many new sends are covered by
  choosing `N` after the last one);
* `Fair σ ev A B ia ib N` — every internal action of the two trackers, their relay calls and channels
  (`sendStep` of the calls pending at `N`, `recvStep`, `clientTx`, `clientRx`, `srvRx`, `srvLoop`,
  `srvTx`) is scheduled infinitely often (= weak fairness, disabled actions being no-ops of
  `SigSys.step`; `Temporal.infOften_of_weakFair`).
Conclusion: every `Send` of either tracker pending at `N` EVENTUALLY returns success, and its message
is then in the partner's `delivered`.
-/
namespace Bifrost.Props.C23Live
open Bifrost Bifrost.SigSys Bifrost.SigPair Bifrost.SigLive Bifrost.Temporal

/-- **C23 (liveness, full strength).** For every infinite execution of the composed signaling system
from a reachable state, every two trackers `(A → B)`, `(B → A)` and every point `N` at which both hold
live relay calls `ia`, `ib`: if from `N` on the pair is not torn down and no `Send` is cancelled or
newly started, and the schedule is fair for the pair's internal actions, then every `Send` call of
either tracker that is pending at `N` eventually returns success and its message is eventually in the
partner's `delivered` — no matter what happened before `N` (in particular if the session was
re-opened while the send was in flight). -/
theorem signaling_progress {σ : Nat → SigSys.State} {ev : Nat → SigSys.Ev} (hex : IsExec SigSys.step σ ev)
    (h0 : SigSys.Reachable (σ 0)) {A B ia ib N : Nat} (hlive : Live (σ N) A B ia ib)
    (hst : StableFrom ev A B ia ib N) (hns : NoNewSends ev A B N) (hfair : Fair σ ev A B ia ib N) :
    (∀ id, SendPending (σ N) A B id → ∃ m, N ≤ m ∧ SendSucceeded (σ m) A B id ∧ SendDelivered (σ m) A B id) ∧
    (∀ id, SendPending (σ N) B A id → ∃ m, N ≤ m ∧ SendSucceeded (σ m) B A id ∧ SendDelivered (σ m) B A id) :=
  progress_full hex h0 hlive hst hns hfair

/-- The invariant behind it: in EVERY reachable state in which two trackers hold live relay calls with
each other, the projection onto the pair satisfies the pair invariant (nothing that was transmitted in
the current epoch and is still unacknowledged has been lost; stale epochs are bounded by the session
epoch; whoever has something to relay or announce is awake). -/
theorem pair_invariant_everywhere {s : SigSys.State} (hr : SigSys.Reachable s) {A B ia ib : Nat}
    (hl : Live s A B ia ib) : ∃ p, View s A B ia ib p ∧ PInv p :=
  pinv_of_live hr hl

/-- The pair machine is an exact projection along a stable suffix (simulation), and its invariant is
inductive: one step of the composed system = one step (or none) of the pair machine. -/
theorem pair_simulation {s : SigSys.State} (hr : SigSys.Reachable s) {A B ia ib : Nat} {p : PState}
    (hv : View s A B ia ib p) (hp : PInv p) (e : SigSys.Ev) (he : Stable A B ia ib e) :
    View (SigSys.step s e) A B ia ib (stepO p (proj A B ia ib e)) ∧ PInv (stepO p (proj A B ia ib e)) :=
  ⟨view_step hr hv e he, pinv_stepO hp _⟩

/-- Liveness of the pair machine itself (the temporal core): on every fair infinite execution of
`SigPair.stepO` from a state satisfying the pair invariant, without new sends, every pending `Send` of
side x eventually returns success. -/
theorem pair_machine_progress {ρ : Nat → PState} {acts : Nat → PEv} (hex : IsExec stepO ρ acts) {N : Nat}
    {S : Bool → Nat → Prop} (h0 : PInv (ρ N)) (hfair : PFair acts S) (hns : NoStart acts N)
    (hS : ∀ id, SigPairCli.Pending (ρ N).x.cl id → S true id) {id : Nat}
    (hp : SigPairCli.Pending (ρ N).x.cl id) :
    ∃ m, N ≤ m ∧ ∃ c, SigC.getSend (ρ m).x.cl id = some c ∧ c.result = some true :=
  pair_live hex h0 hfair hns hS hp

/-- Non-vacuity (F11): a reachable state in which tracker (1 → 2) has a `Send` in flight that was
transmitted in epoch 2 (`outSent`, request `send 2 m` still on the stream), the session has since been
re-opened (partner re-attached with call 3, epoch 3 — tracker 1 will see `Opened 3` after its
transmission in epoch 2), both calls are live and the `Send` is pending. -/
example : ∃ s, SigSys.Reachable s ∧ Live s 1 2 1 3 ∧ SendPending s 1 2 1 ∧
    (∃ c, getClient s 1 2 = some c ∧ c.st.outSent = true ∧ c.st.open_ = some 2 ∧
      ∃ ch, getChan s 1 = some ch ∧ ch.c2s = [.send 2 ⟨1, 1⟩]) ∧
    (∃ t, Sig.getSess s.srv 2 = some t ∧ t.seqno = 3) := by
  refine ⟨run f11Trace, reachable_run _, live_of_liveB (by decide), sendPending_of_B (by decide), ?_, ?_⟩
  · exact ⟨_, rfl, by decide, by decide, _, rfl, by decide⟩
  · exact ⟨_, rfl, by decide⟩

/-- Non-vacuity of the WHOLE hypothesis set (an infinite fair execution exists), and the theorem at
work: from the F11 state, the round-robin schedule of the pair's internal actions is a stable, fair,
infinite execution without new sends; by `signaling_progress` the `Send` that was in flight across the
re-open eventually succeeds and its message is delivered to tracker (2 → 1)'s application. -/
example : IsExec SigSys.step rrRun rrEv ∧ Live (rrRun 0) 1 2 1 3 ∧ StableFrom rrEv 1 2 1 3 0 ∧
    NoNewSends rrEv 1 2 0 ∧ Fair rrRun rrEv 1 2 1 3 0 ∧ SendPending (rrRun 0) 1 2 1 ∧
    ∃ m, SendSucceeded (rrRun m) 1 2 1 ∧ SendDelivered (rrRun m) 1 2 1 := by
  have hp : SendPending (rrRun 0) 1 2 1 := sendPending_of_B (s := run f11Trace) (by decide)
  have hl : Live (rrRun 0) 1 2 1 3 := live_of_liveB (s := run f11Trace) (by decide)
  refine ⟨rr_exec, hl, rr_stable, rr_noNew, rr_fair, hp, ?_⟩
  obtain ⟨m, _, h1, h2⟩ := (signaling_progress (N := 0) rr_exec (reachable_run _) hl rr_stable rr_noNew rr_fair).1 1 hp
  exact ⟨m, h1, h2⟩

end Bifrost.Props.C23Live
