import Bifrost.Model.Signaling
import Bifrost.Lemmas.SigSessObs
import Bifrost.Lemmas.SigWithdraw
import Bifrost.Lemmas.SigLoopItems
/-!
C22 — Every session re-open is announced before stale messages are dropped.
Relay server model `Bifrost.Sig` (code as fixed by "fix: signaling session did not announce …"
and "fix: signaling server never announced a new session epoch …"). All theorems hold in
EVERY reachable state = after every interleaving of the server's critical sections, for any
number of peers, calls, re-attachments and messages.
-/
namespace Bifrost.Props.C22
open Bifrost Bifrost.Sig

/-- No lost wake-up, no silent epoch: every running, not-replaced session call — including one
that has just attached — either has its write loop awake (it will run), or still has decided
responses to transmit, or has already announced exactly the current state (`Opened epoch` if
the partner is attached, `Closed`/nothing otherwise) and has no relayed message or ack pending. -/
theorem wake_invariant (s : State) (h : Reachable s) : ∀ c ∈ s.scalls, wakeOk s c = true := by
  intro c hc
  obtain ⟨t, ht, hci⟩ := SigSess.reachable_call h hc
  exact SigSess.wakeOk_of ht hci.wake

/-- The write loop announces by VALUE: an iteration of a call that is attached, whose announced
state differs from the current one, puts `Opened epoch` / `Closed` FIRST in what it sends and
records it. -/
theorem loop_announces (s : State) (c : SCall) (t : Sess) (ours : Att)
    (hc : getSCall s c.id = some c) (ht : getSess s c.sess = some t)
    (ho : (t.sides c.isA).1 = some ours) (hcall : ours.call = c.id)
    (hne : c.announced ≠ c.cur s) (hempty : c.outbox = []) :
    ∃ c', getSCall (sLoop s c.id) c.id = some c' ∧ c'.announced = c.cur s ∧
      c'.outbox.head? = some (match c.cur s with | some e => Resp.opened e | none => Resp.closed) := by
  exact SigSess.loop_announces' hc ht ho hcall hne hempty

/-- Consequence: whenever the relay drops a request as stale (its epoch is older than the
session's), the peer that sent it has been, is being, or is about to be told the newer state:
its call is awake, has the announcement queued, or has announced the current state. -/
theorem no_silent_stale_drop (s : State) (h : Reachable s) (c : SCall) (hc : c ∈ s.scalls)
    (hrun : c.ended = false ∧ c.failing = false) :
    c.isAwake s = true ∨ c.outbox ≠ [] ∨ c.announced = c.cur s := by
  obtain ⟨t, ht, hci⟩ := SigSess.reachable_call h hc
  exact SigSess.stale_of ht hci.wake hrun.1 hrun.2

/-- No message submitted in one epoch is delivered in a later one: a message stored for, or
about to be transmitted to, a call was accepted from the partner in exactly the epoch the
receiver has been told. -/
theorem no_cross_epoch_delivery (s : State) (h : Reachable s) :
    ∀ c ∈ s.scalls, forwardOk s c = true ∧ storedOk s c = true := by
  intro c hc
  obtain ⟨t, ht, hci⟩ := SigSess.reachable_call h hc
  exact ⟨SigSess.forwardOk_of hci.fwd, SigSess.storedOk_of ht hci.stored⟩

/-- Stale requests are dropped without any effect. -/
theorem stale_dropped (s : State) (c : SCall) (t : Sess) (epoch : Nat) (m : Msg) (v : Bool) (g : Nat)
    (hc : getSCall s c.id = some c) (ht : getSess s c.sess = some t)
    (hadm : admitOk v g c.src = true) (hstale : epoch < t.seqno) :
    sSend s c.id epoch m v g = s := by
  have h1 : ¬ t.seqno < epoch := by omega
  have h2 : t.seqno ≠ epoch := by omega
  simp [sSend, hc, hadm, ht, h1, h2]

/-- Non-vacuity: a reachable state where B re-attached (usurped) while A stayed: A is awake. -/
example : ∃ s, Reachable s ∧ ∃ c ∈ s.scalls, c.id = 1 ∧ c.isAwake s = true ∧ c.announced ≠ c.cur s := by
  refine ⟨run [.init 1 1 2, .init 2 2 1, .loop 1, .send_ 1 (.opened 2), .init 3 2 1],
    SigSess.reachable_run _ (by decide), ?_⟩
  decide

/-- Wave 6 (no lost wake-up across the announcement): an iteration of the write loop of an attached
call that finds the session open in an epoch it has NOT announced yet decides, in that SAME
iteration, the announcement `Opened epoch` followed by every item already queued for its peer —
the acknowledgement, the withdrawal and the message accepted for the current epoch before the
announcement. (`wake_invariant` gives that such a call is awake, i.e. that this iteration runs;
nothing would wake the call again afterwards, so an iteration that announced and left the item
in place would lose it.) -/
theorem loop_hands_out_queued (s : State) (c : SCall) (t : Sess) (ours other : Att)
    (hc : getSCall s c.id = some c) (ht : getSess s c.sess = some t)
    (ho : t.sides c.isA = (some ours, some other)) (hcall : ours.call = c.id)
    (hne : c.announced ≠ c.cur s) (hempty : c.outbox = []) :
    ∃ c', getSCall (sLoop s c.id) c.id = some c' ∧ c'.announced = some t.seqno ∧
      c'.outbox = [Resp.opened t.seqno]
        ++ (match ours.outAcked with | some k => [Resp.ack k] | none => [])
        ++ (match ours.recvClear with | some k => [Resp.clear k] | none => [])
        ++ (match ours.recv with | some m => [Resp.recv m] | none => []) := by
  exact SigSess.loop_hands_out_queued' hc ht ho hcall hne hempty

/-- Non-vacuity (the seeded history): B's handler (call 2) is parked writing `Closed` while A's
call ends, a new call of A attaches (epoch 4), is told so and submits m for epoch 4 (stored for
B); B's write completes: B has announced nothing of epoch 4, m is queued; its next iteration
decides `Opened 4` followed by m. -/
example : ∃ s, Reachable s ∧ ∃ c ∈ s.scalls, c.id = 2 ∧ c.outbox = [] ∧ c.announced ≠ c.cur s ∧
    c.isAwake s = true ∧
    (getSCall (sLoop s 2) 2).map (·.outbox) = some [Resp.opened 4, Resp.recv ⟨1, 1⟩] := by
  refine ⟨run [.init 1 1 2, .init 2 2 1, .loop 1, .send_ 1 (.opened 2), .loop 2, .send_ 2 (.opened 2),
      .end_ 1, .loop 2, .init 3 1 2, .loop 3, .send_ 3 (.opened 4), .send 3 4 ⟨1, 1⟩ true 1,
      .send_ 2 .closed],
    SigSess.reachable_run _ (by decide), ?_⟩
  decide

/-! ### Withdrawals (`ClearMsg`) stored for a peer

`wake_invariant` deliberately says nothing about a stored withdrawal (`recvClear`): the code
(`handleClearMsg`) stores it WITHOUT waking the receiving call. The statement "a stored
withdrawal wakes the call it is stored for" is false of the code (refuted below, witness
replayed on the real relay by engine `sigsrv`, scenario `stale-ack`, on every run; the property
statements C21/C22 do not require it). What does hold: the call's next write-loop iteration —
whatever wakes it — transmits the withdrawal, after the epoch announcement and BEFORE any later
message, so a held withdrawal can only ever reach the message it names. -/

/-- REFUTED: "whenever a withdrawal is stored for a running call, that call is awake or still has
responses to transmit". -/
theorem withdrawal_wakes_partner_false :
    ¬ (∀ s, Reachable s → s.scalls.all (fun c =>
        c.ended || c.failing || c.isAwake s || !c.outbox.isEmpty || !SigWithdraw.withdrawalPending s c) = true) := by
  intro h
  have h2 := h (run SigWithdraw.witness) (SigSess.reachable_run _ (by decide))
  revert h2
  decide

/-- PARTIAL (what the code guarantees instead): the next write-loop iteration of an attached call
whose partner is attached sends exactly: the epoch announcement if it is due, a pending
acknowledgement, the stored withdrawal, and only then a stored message. -/
theorem withdrawal_announced_partial (s : State) (c : SCall) (t : Sess) (ours other : Att) (k : Nat)
    (hc : getSCall s c.id = some c) (ht : getSess s c.sess = some t)
    (hs : t.sides c.isA = (some ours, some other)) (hcall : ours.call = c.id)
    (hk : ours.recvClear = some k) (hempty : c.outbox = []) :
    ∃ c', getSCall (sLoop s c.id) c.id = some c' ∧
      c'.outbox = (if c.announced ≠ some t.seqno then [Resp.opened t.seqno] else [])
        ++ (match ours.outAcked with | some a => [Resp.ack a] | none => [])
        ++ [Resp.clear k]
        ++ (match ours.recv with | some m => [Resp.recv m] | none => []) := by
  have hu : (ours.call != c.id) = false := by simp [hcall]
  simp only [sLoop, hc, ht, hs, hu]
  simp only [Option.isSome_some, if_true, Option.isNone_some, Bool.false_eq_true, if_false]
  refine ⟨_, SigSess.getSCall_setSCall_self (s := setSess s _) hc, ?_⟩
  cases hA : ours.outAcked <;> cases hR : ours.recv <;> simp [hempty, hk]

/-- Non-vacuity: in the witness state the withdrawal is pending for B, nobody is awake, and B's
next loop iteration transmits exactly the withdrawal. -/
example : (run SigWithdraw.witness).scalls.any (fun c => SigWithdraw.withdrawalPending (run SigWithdraw.witness) c) = true ∧
    (getSCall (sLoop (run SigWithdraw.witness) 2) 2).map (·.outbox) = some [Resp.clear 1] := by decide

end Bifrost.Props.C22
