import Bifrost.Model.Signaling
import Bifrost.Lemmas.SigSessObs
/-!
C22 — Every session re-open is announced before stale messages are dropped.
Relay server model `Bifrost.Sig` (code as fixed by "fix: signaling session did not announce …"
and "fix: signaling server never announced a new session epoch …"). All theorems hold in
EVERY reachable state = after every interleaving of the server's critical sections, for any
number of peers, calls, re-attachments and messages.
-/
namespace Bifrost.Props.C22
open Bifrost Bifrost.Sig

/-- No lost wake-up, no silent epoch: every running, not-replaced session call — including one
that has just attached — either has its write loop awake (it will run), or still has decided
responses to transmit, or has already announced exactly the current state (`Opened epoch` if
the partner is attached, `Closed`/nothing otherwise) and has no relayed message or ack pending. -/
theorem wake_invariant (s : State) (h : Reachable s) : ∀ c ∈ s.scalls, wakeOk s c = true := by
  intro c hc
  obtain ⟨t, ht, hci⟩ := SigSess.reachable_call h hc
  exact SigSess.wakeOk_of ht hci.wake

/-- The write loop announces by VALUE: an iteration of a call that is attached, whose announced
state differs from the current one, puts `Opened epoch` / `Closed` FIRST in what it sends and
records it. -/
theorem loop_announces (s : State) (c : SCall) (t : Sess) (ours : Att)
    (hc : getSCall s c.id = some c) (ht : getSess s c.sess = some t)
    (ho : (t.sides c.isA).1 = some ours) (hcall : ours.call = c.id)
    (hne : c.announced ≠ c.cur s) (hempty : c.outbox = []) :
    ∃ c', getSCall (sLoop s c.id) c.id = some c' ∧ c'.announced = c.cur s ∧
      c'.outbox.head? = some (match c.cur s with | some e => Resp.opened e | none => Resp.closed) := by
  exact SigSess.loop_announces' hc ht ho hcall hne hempty

/-- Consequence: whenever the relay drops a request as stale (its epoch is older than the
session's), the peer that sent it has been, is being, or is about to be told the newer state:
its call is awake, has the announcement queued, or has announced the current state. -/
theorem no_silent_stale_drop (s : State) (h : Reachable s) (c : SCall) (hc : c ∈ s.scalls)
    (hrun : c.ended = false ∧ c.failing = false) :
    c.isAwake s = true ∨ c.outbox ≠ [] ∨ c.announced = c.cur s := by
  obtain ⟨t, ht, hci⟩ := SigSess.reachable_call h hc
  exact SigSess.stale_of ht hci.wake hrun.1 hrun.2

/-- No message submitted in one epoch is delivered in a later one: a message stored for, or
about to be transmitted to, a call was accepted from the partner in exactly the epoch the
receiver has been told. -/
theorem no_cross_epoch_delivery (s : State) (h : Reachable s) :
    ∀ c ∈ s.scalls, forwardOk s c = true ∧ storedOk s c = true := by
  intro c hc
  obtain ⟨t, ht, hci⟩ := SigSess.reachable_call h hc
  exact ⟨SigSess.forwardOk_of hci.fwd, SigSess.storedOk_of ht hci.stored⟩

/-- Stale requests are dropped without any effect. -/
theorem stale_dropped (s : State) (c : SCall) (t : Sess) (epoch : Nat) (m : Msg) (v : Bool) (g : Nat)
    (hc : getSCall s c.id = some c) (ht : getSess s c.sess = some t)
    (hadm : admitOk v g c.src = true) (hstale : epoch < t.seqno) :
    sSend s c.id epoch m v g = s := by
  have h1 : ¬ t.seqno < epoch := by omega
  have h2 : t.seqno ≠ epoch := by omega
  simp [sSend, hc, hadm, ht, h1, h2]

/-- Non-vacuity: a reachable state where B re-attached (usurped) while A stayed: A is awake. -/
example : ∃ s, Reachable s ∧ ∃ c ∈ s.scalls, c.id = 1 ∧ c.isAwake s = true ∧ c.announced ≠ c.cur s := by
  refine ⟨run [.init 1 1 2, .init 2 2 1, .loop 1, .send_ 1 (.opened 2), .init 3 2 1],
    SigSess.reachable_run _ (by decide), ?_⟩
  decide

end Bifrost.Props.C22
