import Bifrost.Model.LinksGen
import Bifrost.Lemmas.LinksGen
/-!
C04 / C06 — links reported through the `TransportHandler` of a PREVIOUS execution of the
controller (restart after shutdown; the closed transport of the old execution still calls its
handler). Model of the code as fixed by "fix: transport controller: a link reported through the
TransportHandler of a previous execution …": such a link is closed and never enters the tables
of the new execution, so every theorem of Props.C06 / Props.C04 about the tables holds for the
history with those reports erased. All theorems quantify over ALL histories (any number of
executions, links, stale reports).
-/
namespace Bifrost.Props.C06Gen
open Bifrost Bifrost.Links Bifrost.LinksGen

/-- A report through a stale handler closes the link and changes no table: nothing the
controller reports (`GetPeerLinks`) or yields (`EstablishLinkWithPeer`) is affected. -/
theorem stale_report_closed_never_entered (t : GState) (g : Nat) (l : Link) (h : g ≠ t.gen) :
    (gstep true t (.estVia g l)).s.links = t.s.links ∧
    (gstep true t (.estVia g l)).s.peerLinks = t.s.peerLinks ∧
    l.id ∈ (gstep true t (.estVia g l)).s.closed ∧
    (∀ p, getPeerLinks (gstep true t (.estVia g l)).s p = getPeerLinks t.s p) ∧
    (∀ src dst, resolveEstablishLink (gstep true t (.estVia g l)).s src dst = resolveEstablishLink t.s src dst) := by
  have hg : (g != t.gen) = true := by simpa using h
  simp [gstep, hg, reject, getPeerLinks, resolveEstablishLink]

/-- A report through the handler of the current execution is `HandleLinkEstablished` as modelled
by `Links.step`. -/
theorem current_report_is_est (t : GState) (l : Link) :
    gstep true t (.estVia t.gen l) = { t with s := step t.s (.est l) } := by
  simp [gstep]

/-- The tables after ANY history with stale reports are the tables of the history with the stale
reports erased (`lower`): links, by-peer table, running flag, local peer — hence `GetPeerLinks` and
the values of every `EstablishLinkWithPeer` request. -/
theorem tables_of_lowered_from (ops : List GOp) (t : GState) (s : State) (h : core s = core t.s) :
    core (gruns true t ops).s = core ((lower t ops).foldl step s) := by
  induction ops generalizing t s with
  | nil => simpa [gruns, lower] using h.symm
  | cons o r ih =>
    cases o with
    | op o =>
      simp only [gruns, List.foldl_cons, lower]
      apply ih
      rw [gstep_op_s]
      exact core_congr h o
    | estVia g l =>
      simp only [gruns, List.foldl_cons, lower]
      by_cases hg : g = t.gen
      · simp only [hg, if_true, List.foldl_cons]
        apply ih
        have : (gstep true t (.estVia t.gen l)).s = step t.s (.est l) := by simp [gstep]
        rw [this]
        exact core_congr h _
      · simp only [hg, if_false]
        apply ih
        have hb : (g != t.gen) = true := by simpa using hg
        have : (gstep true t (.estVia g l)).s = reject t.s l := by simp [gstep, hb]
        rw [this, core_reject]
        exact h

theorem tables_of_lowered (ops : List GOp) :
    (grun true ops).s.links = (run (lower {} ops)).links ∧
    (grun true ops).s.peerLinks = (run (lower {} ops)).peerLinks ∧
    (grun true ops).s.running = (run (lower {} ops)).running ∧
    (grun true ops).s.localPeer = (run (lower {} ops)).localPeer ∧
    (∀ p, getPeerLinks (grun true ops).s p = getPeerLinks (run (lower {} ops)) p) ∧
    (∀ src dst, resolveEstablishLink (grun true ops).s src dst = resolveEstablishLink (run (lower {} ops)) src dst) := by
  have h := tables_of_lowered_from ops {} {} rfl
  have hl : (grun true ops).s.links = (run (lower {} ops)).links := congrArg (fun x => x.links) h
  have hp : (grun true ops).s.peerLinks = (run (lower {} ops)).peerLinks := congrArg (fun x => x.peerLinks) h
  have hr : (grun true ops).s.running = (run (lower {} ops)).running := congrArg (fun x => x.running) h
  have hq : (grun true ops).s.localPeer = (run (lower {} ops)).localPeer := congrArg (fun x => x.localPeer) h
  refine ⟨hl, hp, hr, hq, ?_, ?_⟩
  · intro p; simp [getPeerLinks, hl]
  · intro src dst; simp [resolveEstablishLink, hp, hq]

/-- Every link reported through a stale handler has been closed, whatever happened afterwards. -/
theorem stale_ids_closed (ops : List GOp) (t : GState) :
    ∀ i ∈ staleIds t ops, i ∈ (gruns true t ops).s.closed := by
  induction ops generalizing t with
  | nil => simp [staleIds]
  | cons o r ih =>
    cases o with
    | op o => simpa [staleIds, gruns] using ih _
    | estVia g l =>
      intro i hi
      simp only [staleIds] at hi
      simp only [gruns, List.foldl_cons]
      by_cases hg : g = t.gen
      · simp only [hg, if_true] at hi
        have := ih _ i (by simpa [hg] using hi)
        simpa [gruns, hg] using this
      · simp only [hg, if_false, List.mem_cons] at hi
        rcases hi with rfl | hi
        · apply gruns_closed_mono
          have hb : (g != t.gen) = true := by simpa using hg
          simp [gstep, hb, reject]
        · exact ih _ i hi

/-- The code BEFORE the fix, on the branch of `Await` that returns the transport: the stale report
enters the tables of the new execution (the defect; replayed on the real code by engine `links`,
history class `restart` with `estold` events). -/
theorem unfixed_stale_report_enters :
    (grun false [.op (.start 1), .op .shutdown, .op (.start 1), .estVia 1 ⟨5, 7, 2⟩]).s.links = [⟨5, 7, 2⟩] ∧
    (grun true [.op (.start 1), .op .shutdown, .op (.start 1), .estVia 1 ⟨5, 7, 2⟩]).s.links = [] ∧
    5 ∈ (grun true [.op (.start 1), .op .shutdown, .op (.start 1), .estVia 1 ⟨5, 7, 2⟩]).s.closed := by
  decide

/-- Non-vacuity: a stale report between live reports; the live ones are in the tables. -/
example :
    (grun true [.op (.start 1), .estVia 1 ⟨1, 7, 2⟩, .op .shutdown, .op (.start 1), .estVia 1 ⟨5, 8, 2⟩,
      .estVia 2 ⟨6, 9, 3⟩]).s.links = [⟨6, 9, 3⟩] ∧
    lower {} [.op (.start 1), .estVia 1 ⟨1, 7, 2⟩, .op .shutdown, .op (.start 1), .estVia 1 ⟨5, 8, 2⟩,
      .estVia 2 ⟨6, 9, 3⟩] = [.start 1, .est ⟨1, 7, 2⟩, .shutdown, .start 1, .est ⟨6, 9, 3⟩] ∧
    staleIds {} [.op (.start 1), .estVia 1 ⟨1, 7, 2⟩, .op .shutdown, .op (.start 1), .estVia 1 ⟨5, 8, 2⟩,
      .estVia 2 ⟨6, 9, 3⟩] = [5] := by
  decide

end Bifrost.Props.C06Gen
