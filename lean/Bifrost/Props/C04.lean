import Bifrost.Model.Links
import Bifrost.Model.LinksConc
import Bifrost.Lemmas.Links
import Bifrost.Props.C06
/-!
C04 — Link lookups return only links between the requested peers.
Peer 0 stands for "source not specified". The local peer of every link of a transport is the
transport's own peer (checked by the harness on the real MountedLink values).
-/
namespace Bifrost.Props.C04
open Bifrost Bifrost.Links Bifrost.Props.C06

/-- A request for a link from `src` to `dst` only ever yields live links whose remote peer is
`dst`, and only if `src` is unspecified or is this transport's peer. -/
theorem resolve_only_between (ops : List Op) (h : WF ops) (src dst : Nat) (x : Link)
    (hx : x ∈ resolveEstablishLink (run ops) src dst) :
    x.remote = dst ∧ (src ≠ 0 → src = (run ops).localPeer) ∧
    x ∈ (specRun ops).live ∧ x.remote ≠ (run ops).localPeer := by
  have hI := inv_run ops (wfh_of_eq (f := linkOf) (by funext op; cases op <;> rfl) h)
  obtain ⟨hs, hp, hd⟩ := mem_resolve.1 hx
  have hl := (hI.peer x).1 hp
  refine ⟨hd, ?_, hI.links_eq ▸ hl, hI.notself x hl⟩
  intro h0
  rcases hs with hs | hs
  · exact absurd hs h0
  · exact hs

/-- …and it yields ALL of them. -/
theorem resolve_complete (ops : List Op) (h : WF ops) (src dst : Nat) (x : Link)
    (hsrc : src = 0 ∨ src = (run ops).localPeer)
    (hx : x ∈ (specRun ops).live) (hd : x.remote = dst) :
    x ∈ resolveEstablishLink (run ops) src dst := by
  have hI := inv_run ops (wfh_of_eq (f := linkOf) (by funext op; cases op <;> rfl) h)
  exact mem_resolve.2 ⟨hsrc, (hI.peer x).2 (hI.links_eq ▸ hx), hd⟩

/-- A link whose remote peer is the local peer itself is closed and never yielded. -/
theorem self_link_closed_never_yielded (ops : List Op) (l : Link)
    (h : WF (ops ++ [.est l]))
    (hrun : (run ops).running = true) (hself : l.remote = (run ops).localPeer) :
    l.id ∈ (run (ops ++ [.est l])).closed ∧
    (∀ src dst, l ∉ resolveEstablishLink (run (ops ++ [.est l])) src dst) ∧
    l ∉ (run (ops ++ [.est l])).links := by
  have hI := inv_run ops (WFH_prefix (wfh_of_eq (f := linkOf) (by funext op; cases op <;> rfl) h))
  have _ := hrun  -- (closed also when not running)
  obtain ⟨h1, h2, h3, h4⟩ := est_self_closed (wfh_of_eq (f := linkOf) (by funext op; cases op <;> rfl) h) hself
  refine ⟨h1, ?_, h2 ▸ h4⟩
  intro src dst hx
  have hp := (mem_resolve.1 hx).2.1
  rw [h3] at hp
  exact h4 ((hI.peer l).1 hp)

/-- No request ever yields a link to the local peer. -/
theorem never_yields_self (ops : List Op) (h : WF ops) (src dst : Nat) :
    ∀ x ∈ resolveEstablishLink (run ops) src dst, x.remote ≠ (run ops).localPeer := by
  have hI := inv_run ops (wfh_of_eq (f := linkOf) (by funext op; cases op <;> rfl) h)
  intro x hx
  exact hI.notself x ((hI.peer x).1 (mem_resolve.1 hx).2.1)

example : resolveEstablishLink (run [.start 1, .est ⟨1, 7, 2⟩, .est ⟨2, 8, 3⟩, .est ⟨3, 9, 1⟩]) 0 2
    = [⟨1, 7, 2⟩] := by decide

/-! ### Several transports (local identities) on one bus -/

/-- With any number of controllers on one bus (histories `hs`, one per controller), a request
for a link from `src` to `dst` only ever yields links whose remote peer is `dst`, that are live
in the controller that yielded them, that are not self links of that controller - and, when
`src` is given, only links of the transport whose local peer is `src`. -/
theorem resolve_bus_only_between (hs : List (List Op)) (hwf : ∀ ops ∈ hs, WF ops)
    (src dst lp : Nat) (x : Link) (hx : (lp, x) ∈ resolveBus (hs.map run) src dst) :
    x.remote = dst ∧ (src ≠ 0 → lp = src) ∧
    ∃ ops ∈ hs, lp = (run ops).localPeer ∧ x ∈ (specRun ops).live ∧ x.remote ≠ lp := by
  simp only [resolveBus, List.mem_flatMap, List.mem_map] at hx
  obtain ⟨s, ⟨ops, hops, rfl⟩, y, hy, he⟩ := hx
  simp only [Prod.mk.injEq] at he
  obtain ⟨rfl, rfl⟩ := he
  obtain ⟨h1, h2, h3, h4⟩ := resolve_only_between ops (hwf ops hops) src dst _ hy
  exact ⟨h1, fun h0 => (h2 h0).symm, ops, hops, rfl, h3, h4⟩

/-- Two transports S1 = 1 and S2 = 4 each hold a link to peer 2: a request from S1 yields only
the link of the S1 transport, a request without source yields both. -/
example : resolveBus [run [.start 1, .est ⟨1, 7, 2⟩], run [.start 4, .est ⟨11, 7, 2⟩]] 1 2
      = [(1, ⟨1, 7, 2⟩)] ∧
    resolveBus [run [.start 1, .est ⟨1, 7, 2⟩], run [.start 4, .est ⟨11, 7, 2⟩]] 0 2
      = [(1, ⟨1, 7, 2⟩), (4, ⟨11, 7, 2⟩)] := by decide

end Bifrost.Props.C04
