import Bifrost.Model.Incoming
import Bifrost.Lemmas.Incoming
import Bifrost.Props.C04
import Bifrost.Lemmas.FramingEnd
/-!
C04, stream clause — "Every stream delivered on such a link reports that link's remote peer as
its peer."

Two ways a stream comes to exist on a link: the controller hands an incoming stream to a
protocol handler (`Incoming.handleIncomingStream`), or a caller opens one on the mounted link a
lookup yielded (`Incoming.openMountedStream`). Both build it with `newMountedStream`, whose
`linkPeer` is the mounted link's remote peer. The last theorems compose this with the link-table
theorems of `Props/C04.lean`: on a link yielded for a request S→D, after any history, every
stream reports D. Property theorems only; helpers live in `Lemmas/Incoming*.lean`.
-/
namespace Bifrost.Props.C04Stream
open Bifrost Bifrost.Framing Bifrost.Incoming Bifrost.Props.C06

/-- Every stream handed to a protocol handler reports the link's remote peer as its peer, and
its mounted link reports the link's own local peer, remote peer and uuid — for every link, byte
stream, chunking and answer of the bus. -/
theorem delivered_stream_reports_link_remote (max : Nat) (lnk : Incoming.Link) (cs : Reader)
    (env : Lookup) (f : Facts) (h : (handleIncomingStream max lnk cs env).delivered = some f) :
    f.streamPeer = lnk.remotePeer ∧ f.linkRemote = lnk.remotePeer ∧
    f.linkLocal = lnk.localPeer ∧ f.linkUUID = lnk.uuid := by
  rcases handle_cases max lnk cs env with ⟨pid, rest, _, he⟩ | ⟨_, he⟩
  · rw [he] at h
    cases env <;> first | (injection h with h; subst h; exact ⟨rfl, rfl, rfl, rfl⟩) | cases h
  · rw [he] at h; cases h

/-- The peer the handler was looked up for (the directive's remote peer) is the peer the stream
reports, and the directive's local peer is the mounted link's local peer. -/
theorem lookup_peers_are_stream_peers (max : Nat) (lnk : Incoming.Link) (cs : Reader) (env : Lookup)
    (d : Directive) (f : Facts)
    (hd : (handleIncomingStream max lnk cs env).dispatched = some d)
    (hf : (handleIncomingStream max lnk cs env).delivered = some f) :
    d.remotePeerID = f.streamPeer ∧ d.localPeerID = f.linkLocal ∧ d.protocolID = f.pid := by
  rcases handle_cases max lnk cs env with ⟨pid, rest, _, he⟩ | ⟨_, he⟩
  · rw [he] at hd hf
    injection hd with hd
    subst hd
    cases env <;> first | (injection hf with hf; subst hf; exact ⟨rfl, rfl, rfl⟩) | cases hf
  · rw [he] at hf; cases hf

/-- The mounted stream `OpenMountedStream` returns reports the link's remote peer too (and the
requested protocol ID, and the link's own peers and uuid), whenever one is returned. -/
theorem opened_stream_reports_link_remote (l : MountedLink) (pid : Bytes) (env : OpenEnv) (f : Facts)
    (h : (openMountedStream l pid env).mounted = some f) :
    f.streamPeer = l.link.remotePeer ∧ f.linkRemote = l.link.remotePeer ∧
    f.linkLocal = l.link.localPeer ∧ f.linkUUID = l.link.uuid ∧ f.pid = pid := by
  cases env with
  | openErr => cases h
  | opened w =>
    cases w <;> first | (injection h with h; subst h; exact ⟨rfl, rfl, rfl, rfl, rfl⟩) | cases h

/-- Both ends of one connection: if the receiver's link mirrors the opener's (its local peer is
the opener's remote peer and vice versa), the stream the opener holds reports the receiver and
the stream the receiver's handler holds reports the opener. -/
theorem both_ends_report_each_other (max : Nat) (opener : MountedLink) (lnk : Incoming.Link)
    (pid : Bytes) (oenv : OpenEnv) (cs : Reader) (env : Lookup) (fo fr : Facts)
    (hm1 : lnk.localPeer = opener.link.remotePeer) (hm2 : lnk.remotePeer = opener.link.localPeer)
    (ho : (openMountedStream opener pid oenv).mounted = some fo)
    (hr : (handleIncomingStream max lnk cs env).delivered = some fr) :
    fo.streamPeer = fr.linkLocal ∧ fr.streamPeer = fo.linkLocal := by
  obtain ⟨a1, _, a3, _, _⟩ := opened_stream_reports_link_remote opener pid oenv fo ho
  obtain ⟨b1, _, b3, _⟩ := delivered_stream_reports_link_remote max lnk cs env fr hr
  rw [a1, a3, b1, b3, hm1, hm2]
  exact ⟨rfl, rfl⟩

/-- The `link.Link` object behind an entry of the link-table model (`Bifrost.Links`, peers are
numbers there): `peerId` names the peers; the local peer of every link of a transport is the
transport's own peer (the assumption of `Props/C04.lean`, checked on the real values). -/
def linkOfEntry (peerId : Nat → PeerID) (s : Links.State) (x : Links.Link) : Incoming.Link :=
  { localPeer := peerId s.localPeer, remotePeer := peerId x.remote, uuid := x.uuid }

/-- Composition with the lookup theorem: after ANY history of link events, on any link a request
for a link from `src` to `dst` yields, every stream handed to a handler and every stream opened
through the mounted link reports `dst` as its peer, and `src` (when given) as the mounted link's
local peer. -/
theorem streams_on_yielded_link_report_requested_peer (peerId : Nat → PeerID)
    (ops : List Links.Op) (hwf : WF ops) (src dst : Nat) (x : Links.Link)
    (hx : x ∈ Links.resolveEstablishLink (Links.run ops) src dst) :
    (∀ max cs env f,
      (handleIncomingStream max (linkOfEntry peerId (Links.run ops) x) cs env).delivered = some f →
        f.streamPeer = peerId dst ∧ f.linkRemote = peerId dst ∧ (src ≠ 0 → f.linkLocal = peerId src)) ∧
    (∀ pid env f,
      (openMountedStream (newMountedLink (linkOfEntry peerId (Links.run ops) x)) pid env).mounted = some f →
        f.streamPeer = peerId dst ∧ f.linkRemote = peerId dst ∧ (src ≠ 0 → f.linkLocal = peerId src)) := by
  obtain ⟨hd, hs, _, _⟩ := C04.resolve_only_between ops hwf src dst x hx
  constructor
  · intro max cs env f hf
    obtain ⟨h1, h2, h3, _⟩ := delivered_stream_reports_link_remote max _ cs env f hf
    refine ⟨by rw [h1, ← hd]; rfl, by rw [h2, ← hd]; rfl, ?_⟩
    intro h0
    rw [h3, hs h0]; rfl
  · intro pid env f hf
    obtain ⟨h1, h2, h3, _, _⟩ := opened_stream_reports_link_remote _ pid env f hf
    refine ⟨by rw [h1, ← hd]; rfl, by rw [h2, ← hd]; rfl, ?_⟩
    intro h0
    rw [h3, hs h0]; rfl

/-- …and, peers having distinct names, never the local peer itself. -/
theorem streams_on_yielded_link_never_report_self (peerId : Nat → PeerID)
    (hinj : ∀ a b, peerId a = peerId b → a = b)
    (ops : List Links.Op) (hwf : WF ops) (src dst : Nat) (x : Links.Link)
    (hx : x ∈ Links.resolveEstablishLink (Links.run ops) src dst)
    (max : Nat) (cs : Reader) (env : Lookup) (f : Facts)
    (hf : (handleIncomingStream max (linkOfEntry peerId (Links.run ops) x) cs env).delivered = some f) :
    f.streamPeer ≠ f.linkLocal := by
  obtain ⟨_, _, _, hne⟩ := C04.resolve_only_between ops hwf src dst x hx
  obtain ⟨h1, _, h3, _⟩ := delivered_stream_reports_link_remote max _ cs env f hf
  rw [h1, h3]
  intro h
  exact hne (hinj _ _ h)

/-- Non-vacuity: a history with links to two peers; a stream on the link yielded for peer 2. -/
example :
    Links.resolveEstablishLink (Links.run [.start 1, .est ⟨1, 7, 2⟩, .est ⟨2, 8, 3⟩]) 1 2 = [⟨1, 7, 2⟩] ∧
    (handleIncomingStream 100000
      (linkOfEntry (fun n => [UInt8.ofNat n]) (Links.run [.start 1, .est ⟨1, 7, 2⟩, .est ⟨2, 8, 3⟩]) ⟨1, 7, 2⟩)
      [[3, 0x0a], [1, 0x61, 9]] .accepts).delivered
      = some { pid := [0x61], streamPeer := [2], linkLocal := [1], linkRemote := [2], linkUUID := 7,
               unread := [9], deadlineArmed := false } ∧
    (openMountedStream
      (newMountedLink (linkOfEntry (fun n => [UInt8.ofNat n]) (Links.run [.start 1, .est ⟨1, 7, 2⟩, .est ⟨2, 8, 3⟩]) ⟨1, 7, 2⟩))
      [0x61] (.opened .full)).mounted
      = some { pid := [0x61], streamPeer := [2], linkLocal := [1], linkRemote := [2], linkUUID := 7,
               unread := [], deadlineArmed := false } := by decide

/-- The same on a stream whose `Read` hands out its final bytes together with the end of the
stream (`n > 0, io.EOF`; `handleIncomingStreamE`): whatever is delivered reports the link's peers. -/
theorem delivered_stream_reports_link_remote_any_end (max : Nat) (lnk : Incoming.Link) (cs : Reader)
    (lastWithErr : Bool) (env : Lookup) (f : Facts)
    (h : (handleIncomingStreamE max lnk cs lastWithErr env).delivered = some f) :
    f.streamPeer = lnk.remotePeer ∧ f.linkRemote = lnk.remotePeer ∧
    f.linkLocal = lnk.localPeer ∧ f.linkUUID = lnk.uuid := by
  rw [handleIncomingStreamE_eq] at h
  exact delivered_stream_reports_link_remote max lnk cs env f h

end Bifrost.Props.C04Stream
