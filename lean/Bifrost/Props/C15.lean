import Bifrost.Model.Codec
import Bifrost.Model.Crypto
import Bifrost.Lemmas.Codec
/-!
C15 — Content hashes verify exactly and encode losslessly. Property theorems only.
-/
namespace Bifrost.Props.C15
open Bifrost Bifrost.Codec

/-- Verification succeeds exactly when the digest of the data under the hash's algorithm
equals the stored digest. -/
theorem verifyData_ok_iff (sum : Int → Bytes → Option Bytes) (h : Hash) (data : Bytes) :
    Hash.verifyData sum h data = true ↔ sum h.type data = some h.digest := by
  unfold Hash.verifyData
  cases hs : sum h.type data with
  | none => simp
  | some d =>
    simp only [Bool.and_eq_true, decide_eq_true_eq, Option.some.injEq]
    constructor
    · intro hd; exact hd.2
    · intro hd; subst hd; exact ⟨rfl, rfl⟩

/-- `Validate` as coded: type ∈ {0,1,2,3} and digest of that type's length. -/
theorem validate_iff (h : Hash) :
    h.valid = true ↔ (h.type = 0 ∨ h.type = 1 ∨ h.type = 2 ∨ h.type = 3) ∧ h.digest.length = hashLen h.type := by
  unfold Hash.valid hashTypeValid
  simp only [Bool.and_eq_true, decide_eq_true_eq]

/-- PARTIAL: every valid hash with a non-zero type has a known algorithm and a digest of
exactly that algorithm's length. -/
theorem valid_known_partial (h : Hash) (hv : h.valid = true) (hz : h.type ≠ 0) :
    hashTypeSupported h.type = true ∧ h.digest.length = hashLen h.type ∧ 0 < h.digest.length := by
  have hv' := hv
  unfold Hash.valid hashTypeValid at hv'
  simp only [Bool.and_eq_true, decide_eq_true_eq] at hv'
  obtain ⟨ht, hl⟩ := hv'
  have ht3 : h.type = 1 ∨ h.type = 2 ∨ h.type = 3 := by
    rcases ht with h0 | h1
    · exact absurd h0 hz
    · exact h1
  refine ⟨?_, hl, ?_⟩
  · unfold hashTypeSupported
    simpa using ht3
  · rw [hl]
    rcases ht3 with e | e | e <;> rw [e] <;> decide

/-- Known finding F6: "a hash is valid only if its algorithm is known" is FALSE: the
UNKNOWN/empty hash validates. -/
theorem valid_implies_known_false : ¬ (∀ h : Hash, h.valid = true → hashTypeSupported h.type = true) := by
  intro hall
  have := hall ⟨0, []⟩ (by decide)
  revert this
  decide

/-- Hashes survive the binary encoding unchanged: every int32 type, every digest. -/
theorem unmarshal_marshal (h : Hash) (hlo : -(2 ^ 31) ≤ h.type) (hhi : h.type < 2 ^ 31)
    (hl : h.digest.length < 2 ^ 63) : Hash.unmarshal h.marshal = some h := by
  exact Hash.unmarshal_marshal h hlo hhi hl

/-- …and the base58 encoding (the all-default hash has the empty encoding, which base58
text cannot carry). -/
theorem parse_marshalString (h : Hash) (hlo : -(2 ^ 31) ≤ h.type) (hhi : h.type < 2 ^ 31)
    (hl : h.digest.length < 2 ^ 63) (hne : h.marshal ≠ []) :
    Hash.parseFromB58 h.marshalString = some h := by
  unfold Hash.parseFromB58 Hash.marshalString
  rw [B58.decode_encode h.marshal hne]
  exact Hash.unmarshal_marshal h hlo hhi hl

/-- The empty encoding belongs to exactly one hash: the all-default one. -/
theorem marshal_eq_nil_iff (h : Hash) (hlo : -(2 ^ 31) ≤ h.type) :
    h.marshal = [] ↔ h = ⟨0, []⟩ := by
  constructor
  · intro hm
    unfold Hash.marshal at hm
    obtain ⟨h1, h2⟩ := List.append_eq_nil_iff.mp hm
    have ht : h.type = 0 := by
      unfold PW.encVarintOpt at h1
      split at h1
      · rename_i hz
        unfold int32ToU64 at hz
        split at hz <;> omega
      · exact absurd h1 (PW.encVarint_ne_nil _ _)
    have hd : h.digest = [] := by
      unfold PW.encBytesOpt at h2
      split at h2
      · rename_i he
        simpa using he
      · exact absurd h2 (PW.encBytes_ne_nil _ _)
    cases h
    simp_all
  · intro e
    subst e
    decide

/-- LIVE finding (hash-b58-all-default): "hashes survive the base58 encoding unchanged" is FALSE
for the all-default hash: `MarshalString` gives the empty string and `ParseFromB58("")` is an
error (mr-tron/base58 rejects the empty string). Replayed on the real code every run. -/
theorem parse_marshalString_all_false :
    ¬ (∀ h : Hash, -(2 ^ 31) ≤ h.type → h.type < 2 ^ 31 → h.digest.length < 2 ^ 63 →
        Hash.parseFromB58 h.marshalString = some h) := by
  intro hall
  have := hall ⟨0, []⟩ (by decide) (by decide) (by decide)
  revert this
  decide

/-- PARTIAL (strongest true form): a hash survives the base58 encoding EXACTLY when it is not the
all-default hash — every int32 type, every digest; the single exception is `{UNKNOWN, empty}`. -/
theorem parse_marshalString_iff_partial (h : Hash) (hlo : -(2 ^ 31) ≤ h.type) (hhi : h.type < 2 ^ 31)
    (hl : h.digest.length < 2 ^ 63) :
    Hash.parseFromB58 h.marshalString = some h ↔ h ≠ ⟨0, []⟩ := by
  constructor
  · intro hp e
    subst e
    revert hp
    decide
  · intro hne
    exact parse_marshalString h hlo hhi hl (fun hm => hne ((marshal_eq_nil_iff h hlo).mp hm))

/-- `UnmarshalVT` into a fresh receiver is the plain decoder. -/
theorem unmarshalInto_default (b : Bytes) : Hash.unmarshalInto ⟨0, []⟩ b = Hash.unmarshal b := by
  unfold Hash.unmarshalInto Hash.unmarshal
  cases hd : PW.decode hashSchema b with
  | error e => rfl
  | ok r =>
    have hv : r.has 1 = false → r.lastVarint 1 = 0 := by
      intro hh
      unfold PW.Raw.has at hh
      unfold PW.Raw.lastVarint
      generalize r.fields = fs at hh
      induction fs with
      | nil => rfl
      | cons f fs ih =>
        simp only [List.any_cons, Bool.or_eq_false_iff, decide_eq_false_iff_not] at hh
        simp only [List.foldl_cons, hh.1, if_false]
        exact ih hh.2
    have hb : r.has 2 = false → r.lastBytes 2 = [] := by
      intro hh
      unfold PW.Raw.has at hh
      unfold PW.Raw.lastBytes
      generalize r.fields = fs at hh
      induction fs with
      | nil => rfl
      | cons f fs ih =>
        simp only [List.any_cons, Bool.or_eq_false_iff, decide_eq_false_iff_not] at hh
        simp only [List.foldl_cons, hh.1, if_false]
        exact ih hh.2
    simp only [Option.some.injEq]
    cases h1 : r.has 1 <;> cases h2 : r.has 2 <;> simp [PW.toInt32, hv, hb, h1, h2]

/-- `ParseFromB58` (fixed code: the receiver is reset first) gives the encoded hash WHATEVER the
receiver held before: a hash survives the base58 encoding into a used receiver. -/
theorem parse_into_any_receiver (recv h : Hash) (hlo : -(2 ^ 31) ≤ h.type) (hhi : h.type < 2 ^ 31)
    (hl : h.digest.length < 2 ^ 63) (hne : h.marshal ≠ []) :
    Hash.parseFromB58Into recv h.marshalString = some h := by
  have := parse_marshalString h hlo hhi hl hne
  unfold Hash.parseFromB58 at this
  unfold Hash.parseFromB58Into Hash.parseFromB58IntoPreFix
  cases hd : B58.decode h.marshalString with
  | none => rw [hd] at this; exact this
  | some d => rw [hd] at this; simp only []; rw [unmarshalInto_default]; exact this

/-- Pre-fix behaviour (fixed by patch `fix: hash: ParseFromB58 resets the receiver`): parsing into
a receiver that already held a hash kept the old value of every field the text omits — the hash
`{UNKNOWN, [1]}` parsed into a receiver holding `{SHA1, [9]}` came out as `{SHA1, [1]}`. -/
theorem prefix_parse_into_used_receiver_false :
    ¬ (∀ recv h : Hash, -(2 ^ 31) ≤ h.type → h.type < 2 ^ 31 → h.digest.length < 2 ^ 63 → h.marshal ≠ [] →
        Hash.parseFromB58IntoPreFix recv h.marshalString = some h) := by
  intro hall
  have := hall ⟨2, [9]⟩ ⟨0, [1]⟩ (by decide) (by decide) (by decide) (by decide)
  revert this
  decide

example : Hash.parseFromB58IntoPreFix ⟨2, [9]⟩ (Hash.marshalString ⟨0, [1]⟩) = some ⟨2, [1]⟩ ∧
    Hash.parseFromB58Into ⟨2, [9]⟩ (Hash.marshalString ⟨0, [1]⟩) = some ⟨0, [1]⟩ ∧
    Hash.parseFromB58 (Hash.marshalString ⟨0, []⟩) = none := by
  decide

theorem compare_iff (a b : Hash) : Hash.compare a b = true ↔ a = b := by
  unfold Hash.compare
  simp only [Bool.and_eq_true, decide_eq_true_eq]
  constructor
  · rintro ⟨⟨ht, _⟩, hd⟩
    cases a; cases b
    simp_all
  · intro e; subst e; exact ⟨⟨rfl, rfl⟩, rfl⟩

/-- `CompareHash` including nil receivers / arguments: true exactly when both are nil or both
are the same hash (same type, same digest). In particular a nil hash equals no hash, hashes of
different type, of different digest length or differing in one digest bit are unequal. -/
theorem compareOpt_iff (a b : Option Hash) : Hash.compareOpt a b = true ↔ a = b := by
  cases a <;> cases b <;> simp [Hash.compareOpt, compare_iff]

example : Hash.compareOpt (some ⟨1, [1, 2]⟩) (some ⟨1, [1, 3]⟩) = false ∧
    Hash.compareOpt (some ⟨1, [1, 2]⟩) (some ⟨2, [1, 2]⟩) = false ∧
    Hash.compareOpt (some ⟨0, []⟩) none = false ∧ Hash.compareOpt none none = true := by
  decide

example : Hash.unmarshal (Hash.marshal ⟨3, List.replicate 32 9⟩) = some ⟨3, List.replicate 32 9⟩ := by
  decide

end Bifrost.Props.C15
