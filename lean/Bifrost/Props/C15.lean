import Bifrost.Model.Codec
import Bifrost.Model.Crypto
import Bifrost.Lemmas.Codec
/-!
C15 — Content hashes verify exactly and encode losslessly. Property theorems only.
-/
namespace Bifrost.Props.C15
open Bifrost Bifrost.Codec

/-- Verification succeeds exactly when the digest of the data under the hash's algorithm
equals the stored digest. -/
theorem verifyData_ok_iff (sum : Int → Bytes → Option Bytes) (h : Hash) (data : Bytes) :
    Hash.verifyData sum h data = true ↔ sum h.type data = some h.digest := by
  unfold Hash.verifyData
  cases hs : sum h.type data with
  | none => simp
  | some d =>
    simp only [Bool.and_eq_true, decide_eq_true_eq, Option.some.injEq]
    constructor
    · intro hd; exact hd.2
    · intro hd; subst hd; exact ⟨rfl, rfl⟩

/-- `Validate` as coded: type ∈ {0,1,2,3} and digest of that type's length. -/
theorem validate_iff (h : Hash) :
    h.valid = true ↔ (h.type = 0 ∨ h.type = 1 ∨ h.type = 2 ∨ h.type = 3) ∧ h.digest.length = hashLen h.type := by
  unfold Hash.valid hashTypeValid
  simp only [Bool.and_eq_true, decide_eq_true_eq]

/-- PARTIAL: every valid hash with a non-zero type has a known algorithm and a digest of
exactly that algorithm's length. -/
theorem valid_known_partial (h : Hash) (hv : h.valid = true) (hz : h.type ≠ 0) :
    hashTypeSupported h.type = true ∧ h.digest.length = hashLen h.type ∧ 0 < h.digest.length := by
  have hv' := hv
  unfold Hash.valid hashTypeValid at hv'
  simp only [Bool.and_eq_true, decide_eq_true_eq] at hv'
  obtain ⟨ht, hl⟩ := hv'
  have ht3 : h.type = 1 ∨ h.type = 2 ∨ h.type = 3 := by
    rcases ht with h0 | h1
    · exact absurd h0 hz
    · exact h1
  refine ⟨?_, hl, ?_⟩
  · unfold hashTypeSupported
    simpa using ht3
  · rw [hl]
    rcases ht3 with e | e | e <;> rw [e] <;> decide

/-- Known finding F6: "a hash is valid only if its algorithm is known" is FALSE: the
UNKNOWN/empty hash validates. -/
theorem valid_implies_known_false : ¬ (∀ h : Hash, h.valid = true → hashTypeSupported h.type = true) := by
  intro hall
  have := hall ⟨0, []⟩ (by decide)
  revert this
  decide

/-- Hashes survive the binary encoding unchanged: every int32 type, every digest. -/
theorem unmarshal_marshal (h : Hash) (hlo : -(2 ^ 31) ≤ h.type) (hhi : h.type < 2 ^ 31)
    (hl : h.digest.length < 2 ^ 63) : Hash.unmarshal h.marshal = some h := by
  exact Hash.unmarshal_marshal h hlo hhi hl

/-- …and the base58 encoding (the all-default hash has the empty encoding, which base58
text cannot carry). -/
theorem parse_marshalString (h : Hash) (hlo : -(2 ^ 31) ≤ h.type) (hhi : h.type < 2 ^ 31)
    (hl : h.digest.length < 2 ^ 63) (hne : h.marshal ≠ []) :
    Hash.parseFromB58 h.marshalString = some h := by
  unfold Hash.parseFromB58 Hash.marshalString
  rw [B58.decode_encode h.marshal hne]
  exact Hash.unmarshal_marshal h hlo hhi hl

theorem compare_iff (a b : Hash) : Hash.compare a b = true ↔ a = b := by
  unfold Hash.compare
  simp only [Bool.and_eq_true, decide_eq_true_eq]
  constructor
  · rintro ⟨⟨ht, _⟩, hd⟩
    cases a; cases b
    simp_all
  · intro e; subst e; exact ⟨⟨rfl, rfl⟩, rfl⟩

/-- `CompareHash` including nil receivers / arguments: true exactly when both are nil or both
are the same hash (same type, same digest). In particular a nil hash equals no hash, hashes of
different type, of different digest length or differing in one digest bit are unequal. -/
theorem compareOpt_iff (a b : Option Hash) : Hash.compareOpt a b = true ↔ a = b := by
  cases a <;> cases b <;> simp [Hash.compareOpt, compare_iff]

example : Hash.compareOpt (some ⟨1, [1, 2]⟩) (some ⟨1, [1, 3]⟩) = false ∧
    Hash.compareOpt (some ⟨1, [1, 2]⟩) (some ⟨2, [1, 2]⟩) = false ∧
    Hash.compareOpt (some ⟨0, []⟩) none = false ∧ Hash.compareOpt none none = true := by
  decide

example : Hash.unmarshal (Hash.marshal ⟨3, List.replicate 32 9⟩) = some ⟨3, List.replicate 32 9⟩ := by
  decide

end Bifrost.Props.C15
