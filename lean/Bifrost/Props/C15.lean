import Bifrost.Model.Codec
import Bifrost.Model.Crypto
import Bifrost.Lemmas.Codec
/-!
C15 — Content hashes verify exactly and encode losslessly. Property theorems only.
-/
namespace Bifrost.Props.C15
open Bifrost Bifrost.Codec

/-- Verification succeeds exactly when the digest of the data under the hash's algorithm
equals the stored digest. -/
theorem verifyData_ok_iff (sum : Int → Bytes → Option Bytes) (h : Hash) (data : Bytes) :
    Hash.verifyData sum h data = true ↔ sum h.type data = some h.digest := by
  sorry

/-- `Validate` as coded: type ∈ {0,1,2,3} and digest of that type's length. -/
theorem validate_iff (h : Hash) :
    h.valid = true ↔ (h.type = 0 ∨ h.type = 1 ∨ h.type = 2 ∨ h.type = 3) ∧ h.digest.length = hashLen h.type := by
  sorry

/-- PARTIAL: every valid hash with a non-zero type has a known algorithm and a digest of
exactly that algorithm's length. -/
theorem valid_known_partial (h : Hash) (hv : h.valid = true) (hz : h.type ≠ 0) :
    hashTypeSupported h.type = true ∧ h.digest.length = hashLen h.type ∧ 0 < h.digest.length := by
  sorry

/-- Known finding F6: "a hash is valid only if its algorithm is known" is FALSE: the
UNKNOWN/empty hash validates. -/
theorem valid_implies_known_false : ¬ (∀ h : Hash, h.valid = true → hashTypeSupported h.type = true) := by
  sorry

/-- Hashes survive the binary encoding unchanged: every int32 type, every digest. -/
theorem unmarshal_marshal (h : Hash) (hlo : -(2 ^ 31) ≤ h.type) (hhi : h.type < 2 ^ 31)
    (hl : h.digest.length < 2 ^ 63) : Hash.unmarshal h.marshal = some h := by
  sorry

/-- …and the base58 encoding (the all-default hash has the empty encoding, which base58
text cannot carry). -/
theorem parse_marshalString (h : Hash) (hlo : -(2 ^ 31) ≤ h.type) (hhi : h.type < 2 ^ 31)
    (hl : h.digest.length < 2 ^ 63) (hne : h.marshal ≠ []) :
    Hash.parseFromB58 h.marshalString = some h := by
  sorry

theorem compare_iff (a b : Hash) : Hash.compare a b = true ↔ a = b := by
  sorry

example : Hash.unmarshal (Hash.marshal ⟨3, List.replicate 32 9⟩) = some ⟨3, List.replicate 32 9⟩ := by
  decide

end Bifrost.Props.C15
