import Bifrost.Model.Framing
import Bifrost.Gen.Limits
import Bifrost.Lemmas.Framing
import Bifrost.Lemmas.FramingEnd
/-!
C07 — Stream headers are framed exactly and dispatched to the named protocol.
Property theorems only; helper lemmas live in `Bifrost/Lemmas/Framing.lean`.
-/
namespace Bifrost.Props.C07
open Bifrost Bifrost.Framing

abbrev limit : Nat := Bifrost.Gen.Limits.streamEstablishMaxPacketSize

/-- The observable result of reading a header: protocol ID, the bytes left unread for the
application (independent of how they are chunked), and the allocation size; or the error. -/
def observe (max : Nat) (cs : Reader) : Except HdrErr (Bytes × Bytes × Nat) :=
  match readHeader max cs with
  | .ok (pid, r, a) => .ok (pid, r.flatten, a)
  | .error e => .error e

/-- Every valid protocol ID, every trailing payload, every way of splitting the byte stream
into reads (including empty reads): the receiver decodes exactly the protocol ID that was
written and leaves exactly the payload unread. -/
theorem read_marshal_any_chunking (pid rest : Bytes) (cs : Reader)
    (hv : pidValid pid = true)
    (hs : (encodeEstablish pid).length ≤ limit)
    (hcat : cs.flatten = marshalHeader pid ++ rest) :
    observe limit cs = .ok (pid, rest, (encodeEstablish pid).length) := by
  have h := observeR_eq_flat limit cs
  rw [hcat, readHeaderFlat_marshal limit pid rest hv hs hs] at h
  exact h

/-- The decoded result (success or the error) depends only on the byte stream, never on how
it is split into reads — for arbitrary, also malformed, streams. -/
theorem chunking_independent (max : Nat) (cs cs' : Reader) (h : cs.flatten = cs'.flatten) :
    observe max cs = observe max cs' := by
  show observeR max cs = observeR max cs'
  rw [observeR_eq_flat, observeR_eq_flat, h]

/-- Whatever is accepted carries a valid (non-empty, UTF-8) protocol ID, and the buffer
allocated for the header body is non-zero and within the limit. -/
theorem accepted_valid_and_bounded (max : Nat) (cs : Reader) (pid : Bytes) (r : Reader) (a : Nat)
    (h : readHeader max cs = .ok (pid, r, a)) :
    pidValid pid = true ∧ 0 < a ∧ a ≤ max := by
  exact readHeader_accepted max cs pid r a h

/-- A zero length prefix is rejected, whatever follows. -/
theorem zero_length_rejected (max : Nat) (cs : Reader) (tail : Bytes)
    (hcat : cs.flatten = 0 :: tail) (hlen : 3 ≤ tail.length) :
    ∃ e, readHeader max cs = .error e := by
  refine ⟨.badLen, readHeader_error_of_observeR max cs _ ?_⟩
  rw [observeR_eq_flat, hcat, readHeaderFlat_zero max tail hlen]

/-- A length prefix above the limit is rejected without reading (or allocating) the body. -/
theorem oversize_rejected (max n : Nat) (cs : Reader) (tail : Bytes)
    (hn : max < n) (hn64 : n < 2 ^ 64)
    (hcat : cs.flatten = Pb.append n ++ tail) :
    ∃ e, readHeader max cs = .error e := by
  obtain ⟨e, he⟩ := readHeaderFlat_oversize max n tail hn hn64
  refine ⟨e, readHeader_error_of_observeR max cs _ ?_⟩
  rw [observeR_eq_flat, hcat, he]

/-- A stream that ends before the announced header is complete is rejected. -/
theorem truncated_rejected (pid : Bytes) (cs : Reader) (k : Nat)
    (hs : (encodeEstablish pid).length ≤ limit)
    (hne : pid ≠ [])
    (hk : k < (marshalHeader pid).length)
    (hcat : cs.flatten = (marshalHeader pid).take k) :
    ∃ e, readHeader limit cs = .error e := by
  obtain ⟨e, he⟩ := readHeaderFlat_truncated limit pid k hs hs hne hk
  refine ⟨e, readHeader_error_of_observeR limit cs _ ?_⟩
  rw [observeR_eq_flat, hcat, he]

/-- Non-vacuity: a concrete valid header, split awkwardly, with payload. -/
example : observe limit [[5], [], [0x0a, 3, 0x61], [0x62, 0x63, 0xff], [0xee]]
    = .ok ([0x61, 0x62, 0x63], [0xff, 0xee], 5) := by decide

/-! ### "Every way the stream is split into reads" includes the read that ends it

An `io.Reader` may hand out its final bytes together with the error (`n > 0, io.EOF`: quic-go
when data and FIN arrive together). `readHeaderE … lastWithErr` is the reader of the code on a
stream that ends either way. -/

/-- `observe` on a reader that ends as `lastWithErr` says. -/
def observeE (max : Nat) (cs : Reader) (lastWithErr : Bool) : Except HdrErr (Bytes × Bytes × Nat) :=
  match readHeaderE max cs lastWithErr with
  | .ok (pid, r, a) => .ok (pid, r.flatten, a)
  | .error e => .error e

/-- Whether the end of the stream is reported by a read of its own or by the read that returns
the last bytes makes no difference to what is decoded, left unread, allocated, or rejected — for
arbitrary (also malformed) streams and every chunking. -/
theorem end_mode_independent (max : Nat) (cs : Reader) (lastWithErr : Bool) :
    observeE max cs lastWithErr = observe max cs := by
  unfold observeE observe
  rw [readHeaderE_eq]

/-- A complete header whose last bytes arrive together with the end of the stream (with or
without payload, any chunking) is ACCEPTED, exactly like on any other reader. -/
theorem read_marshal_any_chunking_any_end (pid rest : Bytes) (cs : Reader) (lastWithErr : Bool)
    (hv : pidValid pid = true)
    (hs : (encodeEstablish pid).length ≤ limit)
    (hcat : cs.flatten = marshalHeader pid ++ rest) :
    observeE limit cs lastWithErr = .ok (pid, rest, (encodeEstablish pid).length) := by
  rw [end_mode_independent]
  exact read_marshal_any_chunking pid rest cs hv hs hcat

/-- A truncated header is REJECTED also when its last bytes arrive together with the end of the
stream (the bytes that never arrived are not made up). -/
theorem truncated_rejected_any_end (pid : Bytes) (cs : Reader) (k : Nat) (lastWithErr : Bool)
    (hs : (encodeEstablish pid).length ≤ limit)
    (hne : pid ≠ [])
    (hk : k < (marshalHeader pid).length)
    (hcat : cs.flatten = (marshalHeader pid).take k) :
    ∃ e, readHeaderE limit cs lastWithErr = .error e := by
  rw [readHeaderE_eq]
  exact truncated_rejected pid cs k hs hne hk hcat

/-- Non-vacuity: the same complete header with its last bytes returned together with EOF is
accepted; cut one byte short it is rejected (in the prefix read and in the body read). -/
example : observeE limit [[5, 0x0a], [3, 0x61, 0x62, 0x63]] true = .ok ([0x61, 0x62, 0x63], [], 5) ∧
    observeE limit [[3, 0x0a, 1, 0x61]] true = .ok ([0x61], [], 3) ∧
    observeE limit [[5, 0x0a], [3, 0x61, 0x62]] true = .error .io ∧
    observeE limit [[3, 0x0a, 1]] true = .error .io := by decide

end Bifrost.Props.C07
