import Bifrost.Model.Packets
import Bifrost.Lemmas.Framing
/-!
C08 — Packet framing over byte streams preserves packets exactly
(`rwc.PacketConn` and `stream_packet.Session`). Property theorems only.
-/
namespace Bifrost.Props.C08
open Bifrost Bifrost.Framing Bifrost.Packets

/-- Every packet written (1 ≤ |p| ≤ max) is read exactly once, in order, with identical
content and boundaries, then a clean EOF — for every chunking of the byte stream. -/
theorem rx_frames (max : Nat) (hmax : max < 2 ^ 32) (ps : List Bytes)
    (hps : ∀ p ∈ ps, 0 < p.length ∧ p.length ≤ max)
    (cs : Reader) (hcat : cs.flatten = ps.flatMap frame)
    (fuel : Nat) (hf : cs.flatten.length < fuel) :
    rxPump max fuel cs = (ps, .eof) := by
  exact rxPump_frames max hmax ps hps cs hcat fuel hf

/-- What is delivered (packets and terminal condition) depends only on the byte stream, not
on its chunking — also for malformed streams. -/
theorem rx_chunking_independent (max : Nat) (cs cs' : Reader) (h : cs.flatten = cs'.flatten)
    (fuel fuel' : Nat) (hf : cs.flatten.length < fuel) (hf' : cs'.flatten.length < fuel') :
    rxPump max fuel cs = rxPump max fuel' cs' := by
  exact rxPump_chunking max fuel fuel' cs cs' h hf hf'

/-- A zero or over-limit length prefix after `ps` ends the connection with an error after
exactly `ps` has been delivered; nothing after it is (mis)framed. -/
theorem bad_prefix_stops (max : Nat) (hmax : max < 2 ^ 32) (ps : List Bytes)
    (hps : ∀ p ∈ ps, 0 < p.length ∧ p.length ≤ max)
    (n : Nat) (hn32 : n < 2 ^ 32) (hbad : n = 0 ∨ max < n) (tail : Bytes)
    (cs : Reader) (hcat : cs.flatten = ps.flatMap frame ++ le32 n ++ tail)
    (fuel : Nat) (hf : cs.flatten.length < fuel) :
    rxPump max fuel cs = (ps, if n = 0 then .zeroLen else .tooLarge) := by
  exact rxPump_bad_prefix max hmax ps hps n hn32 hbad tail cs hcat fuel hf

/-- No delivered packet (hence no receive allocation) exceeds the limit or is empty. -/
theorem rx_bounded (max fuel : Nat) (cs : Reader) :
    ∀ p ∈ (rxPump max fuel cs).1, 0 < p.length ∧ p.length ≤ max := by
  exact rxPump_bounded max fuel cs

/-- A reader whose buffer is too small is told so, and receives exactly the packet's prefix;
with a large enough buffer it receives the whole packet. -/
theorem short_buffer_reported (k : Nat) (p : Bytes) :
    (readFrom k p).1 = p.take k ∧ ((readFrom k p).2 = true ↔ k < p.length) ∧
    (p.length ≤ k → readFrom k p = (p, false)) := by
  refine ⟨rfl, by simp [readFrom], fun h => ?_⟩
  simp only [readFrom, List.take_of_length_le h]
  simp; omega

/-- Session: every message (possibly empty, |m| ≤ max) is received exactly once, in order,
for every chunking. -/
theorem session_frames (max : Nat) (hmax : max < 2 ^ 32) (ms : List Bytes)
    (hms : ∀ m ∈ ms, m.length ≤ max)
    (cs : Reader) (hcat : cs.flatten = ms.flatMap frame)
    (fuel : Nat) (hf : cs.flatten.length < fuel) :
    recvMsgs max fuel cs = (ms, .eof) := by
  exact recvMsgs_frames max hmax ms hms cs hcat fuel hf

/-- Session: an over-limit prefix ends the session with an error after exactly `ms`. -/
theorem session_over_limit_stops (max : Nat) (hmax : max < 2 ^ 32) (ms : List Bytes)
    (hms : ∀ m ∈ ms, m.length ≤ max)
    (n : Nat) (hn32 : n < 2 ^ 32) (hbad : max < n) (tail : Bytes)
    (cs : Reader) (hcat : cs.flatten = ms.flatMap frame ++ le32 n ++ tail)
    (fuel : Nat) (hf : cs.flatten.length < fuel) :
    recvMsgs max fuel cs = (ms, .tooLarge) := by
  exact recvMsgs_over_limit max hmax ms hms n hn32 hbad tail cs hcat fuel hf

theorem session_bounded (max fuel : Nat) (cs : Reader) :
    ∀ m ∈ (recvMsgs max fuel cs).1, m.length ≤ max := by
  exact recvMsgs_bounded max fuel cs

/-- Non-vacuity: two packets split across awkward chunk boundaries. -/
example : rxPump 10 100 [[2, 0], [0, 0, 7], [8, 1, 0, 0], [0, 9]] = ([[7, 8], [9]], .eof) := by
  decide

end Bifrost.Props.C08
