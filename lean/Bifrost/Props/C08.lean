import Bifrost.Model.Packets
import Bifrost.Lemmas.Framing
import Bifrost.Lemmas.Writers
import Bifrost.Lemmas.PacketsEnd
/-!
C08 — Packet framing over byte streams preserves packets exactly
(`rwc.PacketConn` and `stream_packet.Session`). Property theorems only.
-/
namespace Bifrost.Props.C08
open Bifrost Bifrost.Framing Bifrost.Packets

/-- Every packet written (1 ≤ |p| ≤ max) is read exactly once, in order, with identical
content and boundaries, then a clean EOF — for every chunking of the byte stream. -/
theorem rx_frames (max : Nat) (hmax : max < 2 ^ 32) (ps : List Bytes)
    (hps : ∀ p ∈ ps, 0 < p.length ∧ p.length ≤ max)
    (cs : Reader) (hcat : cs.flatten = ps.flatMap frame)
    (fuel : Nat) (hf : cs.flatten.length < fuel) :
    rxPump max fuel cs = (ps, .eof) := by
  exact rxPump_frames max hmax ps hps cs hcat fuel hf

/-- What is delivered (packets and terminal condition) depends only on the byte stream, not
on its chunking — also for malformed streams. -/
theorem rx_chunking_independent (max : Nat) (cs cs' : Reader) (h : cs.flatten = cs'.flatten)
    (fuel fuel' : Nat) (hf : cs.flatten.length < fuel) (hf' : cs'.flatten.length < fuel') :
    rxPump max fuel cs = rxPump max fuel' cs' := by
  exact rxPump_chunking max fuel fuel' cs cs' h hf hf'

/-- A zero or over-limit length prefix after `ps` ends the connection with an error after
exactly `ps` has been delivered; nothing after it is (mis)framed. -/
theorem bad_prefix_stops (max : Nat) (hmax : max < 2 ^ 32) (ps : List Bytes)
    (hps : ∀ p ∈ ps, 0 < p.length ∧ p.length ≤ max)
    (n : Nat) (hn32 : n < 2 ^ 32) (hbad : n = 0 ∨ max < n) (tail : Bytes)
    (cs : Reader) (hcat : cs.flatten = ps.flatMap frame ++ le32 n ++ tail)
    (fuel : Nat) (hf : cs.flatten.length < fuel) :
    rxPump max fuel cs = (ps, if n = 0 then .zeroLen else .tooLarge) := by
  exact rxPump_bad_prefix max hmax ps hps n hn32 hbad tail cs hcat fuel hf

/-- No delivered packet (hence no receive allocation) exceeds the limit or is empty. -/
theorem rx_bounded (max fuel : Nat) (cs : Reader) :
    ∀ p ∈ (rxPump max fuel cs).1, 0 < p.length ∧ p.length ≤ max := by
  exact rxPump_bounded max fuel cs

/-- A reader whose buffer is too small is told so, and receives exactly the packet's prefix;
with a large enough buffer it receives the whole packet. -/
theorem short_buffer_reported (k : Nat) (p : Bytes) :
    (readFrom k p).1 = p.take k ∧ ((readFrom k p).2 = true ↔ k < p.length) ∧
    (p.length ≤ k → readFrom k p = (p, false)) := by
  refine ⟨rfl, by simp [readFrom], fun h => ?_⟩
  simp only [readFrom, List.take_of_length_le h]
  simp; omega

/-- Session: every message (possibly empty, |m| ≤ max) is received exactly once, in order,
for every chunking. -/
theorem session_frames (max : Nat) (hmax : max < 2 ^ 32) (ms : List Bytes)
    (hms : ∀ m ∈ ms, m.length ≤ max)
    (cs : Reader) (hcat : cs.flatten = ms.flatMap frame)
    (fuel : Nat) (hf : cs.flatten.length < fuel) :
    recvMsgs max fuel cs = (ms, .eof) := by
  exact recvMsgs_frames max hmax ms hms cs hcat fuel hf

/-- Session: an over-limit prefix ends the session with an error after exactly `ms`. -/
theorem session_over_limit_stops (max : Nat) (hmax : max < 2 ^ 32) (ms : List Bytes)
    (hms : ∀ m ∈ ms, m.length ≤ max)
    (n : Nat) (hn32 : n < 2 ^ 32) (hbad : max < n) (tail : Bytes)
    (cs : Reader) (hcat : cs.flatten = ms.flatMap frame ++ le32 n ++ tail)
    (fuel : Nat) (hf : cs.flatten.length < fuel) :
    recvMsgs max fuel cs = (ms, .tooLarge) := by
  exact recvMsgs_over_limit max hmax ms hms n hn32 hbad tail cs hcat fuel hf

theorem session_bounded (max fuel : Nat) (cs : Reader) :
    ∀ m ∈ (recvMsgs max fuel cs).1, m.length ≤ max := by
  exact recvMsgs_bounded max fuel cs

/-! ### Writer side: concurrent writers, short writes -/

/-- Concurrent writers. Each `WriteTo` puts ONE whole frame on the wire (`writeFrame`); whatever
the interleaving `out` of the writers' sequences `ws`, the reader delivers exactly `out` — every
packet once, unmodified, with its boundaries — for every chunking of the byte stream; `out` is a
permutation of everything submitted, and every writer's own packets appear in that writer's order. -/
theorem concurrent_writers_read_back (max : Nat) (hmax : max < 2 ^ 32) (ws : List (List Bytes))
    (hws : ∀ w ∈ ws, ∀ p ∈ w, 0 < p.length ∧ p.length ≤ max)
    (out : List Bytes) (h : Interleave ws out)
    (cs : Reader) (hcat : cs.flatten = wireOf out)
    (fuel : Nat) (hf : cs.flatten.length < fuel) :
    rxPump max fuel cs = (out, .eof) ∧ out.Perm ws.flatten ∧
      (∀ (j : Nat) (w : List Bytes), ws[j]? = some w → w.Sublist out) := by
  refine ⟨?_, h.perm, h.sublist⟩
  refine rxPump_frames max hmax out (fun p hp => ?_) cs (by rw [hcat, wireOf_eq]) fuel hf
  have hp' : p ∈ ws.flatten := h.perm.mem_iff.mp hp
  obtain ⟨w, hw, hpw⟩ := List.mem_flatten.mp hp'
  exact hws w hw p hpw

/-- The same for `Session.SendMsg` (serialised by `sendMtx`; empty messages allowed). -/
theorem concurrent_senders_read_back (max : Nat) (hmax : max < 2 ^ 32) (ws : List (List Bytes))
    (hws : ∀ w ∈ ws, ∀ m ∈ w, m.length ≤ max)
    (out : List Bytes) (h : Interleave ws out)
    (cs : Reader) (hcat : cs.flatten = wireOf out)
    (fuel : Nat) (hf : cs.flatten.length < fuel) :
    recvMsgs max fuel cs = (out, .eof) ∧ out.Perm ws.flatten ∧
      (∀ (j : Nat) (w : List Bytes), ws[j]? = some w → w.Sublist out) := by
  refine ⟨?_, h.perm, h.sublist⟩
  refine recvMsgs_frames max hmax out (fun p hp => ?_) cs (by rw [hcat, wireOf_eq]) fuel hf
  have hp' : p ∈ ws.flatten := h.perm.mem_iff.mp hp
  obtain ⟨w, hw, hpw⟩ := List.mem_flatten.mp hp'
  exact hws w hw p hpw

/-- The interleavings are exactly what the schedules of the executable model produce: every
schedule that drains the writers yields an interleaving, and every interleaving is some schedule. -/
theorem schedules_are_interleavings (ws : List (List Bytes)) (out : List Bytes) :
    Interleave ws out ↔
      ∃ sched, writeSched ws sched = out ∧ ∀ w ∈ schedLeft ws sched, w = [] := by
  constructor
  · exact interleave_writeSched
  · rintro ⟨sched, rfl, hd⟩
    exact writeSched_interleave ws sched hd

/-- `WriteTo` never truncates silently: whatever the underlying `Write` accepts and reports,
the caller gets a nil error only if the whole frame reached the wire (and is then told the full
payload length); a writer that takes the whole frame without error always gives a nil error. -/
theorem writeTo_full_or_error (p : Bytes) (hp : p ≠ []) (accepted : Nat) (werr : Bool) :
    (∀ n, (writeTo p accepted werr).1 = .ok n →
        (writeTo p accepted werr).2 = frame p ∧ n = p.length ∧ werr = false) ∧
    ((frame p).length ≤ accepted → werr = false → (writeTo p accepted werr).1 = .ok p.length) := by
  have hl : p.length ≠ 0 := by
    intro h; exact hp (List.eq_nil_of_length_eq_zero h)
  have hfl : (frame p).length = 4 + p.length := frame_length p
  constructor
  · intro n h
    unfold writeTo at h ⊢
    simp only [hl, ↓reduceIte] at h ⊢
    cases werr with
    | true => simp at h
    | false =>
      simp only [Bool.false_eq_true, ↓reduceIte] at h ⊢
      split at h
      · cases h
      · rename_i hn
        injection h with h
        have hge : (frame p).length ≤ min accepted (frame p).length := by omega
        rw [if_neg hn]
        refine ⟨List.take_of_length_le hge, ?_, trivial⟩
        omega
  · intro ha he
    subst he
    unfold writeTo
    simp only [hl, ↓reduceIte, Bool.false_eq_true]
    rw [Nat.min_eq_right ha]
    simp only [Nat.lt_irrefl, ↓reduceIte]
    congr 1

/-- `SendMsg` reports success exactly when the whole frame reached the wire without error. -/
theorem sendMsg_full_or_error (p : Bytes) (accepted : Nat) (werr : Bool) :
    (sendMsg p accepted werr).1 = true ↔
      (werr = false ∧ (sendMsg p accepted werr).2 = frame p) := by
  unfold sendMsg
  simp only [Bool.and_eq_true, Bool.not_eq_eq_eq_not, Bool.not_true, decide_eq_false_iff_not,
    Nat.not_lt]
  constructor
  · rintro ⟨h1, h2⟩
    exact ⟨h1, List.take_of_length_le h2⟩
  · rintro ⟨h1, h2⟩
    refine ⟨h1, ?_⟩
    have := congrArg List.length h2
    rw [List.length_take] at this
    omega

/-- Non-vacuity: two writers, schedule w1 w0 w1 — the wire carries three whole frames and the
reader returns them in write order. -/
example : writeSched [[[1, 2]], [[3], [4]]] [1, 0, 1] = [[3], [1, 2], [4]] ∧
    wireOf [[3], [1, 2], [4]] = [1, 0, 0, 0, 3, 2, 0, 0, 0, 1, 2, 1, 0, 0, 0, 4] ∧
    rxPump 10 100 [[1, 0, 0, 0, 3, 2, 0], [0, 0, 1, 2, 1, 0, 0, 0, 4]] = ([[3], [1, 2], [4]], .eof) ∧
    writeTo [7, 8] 5 false = (.err 5, [2, 0, 0, 0, 7]) := by
  decide

/-- Non-vacuity: two packets split across awkward chunk boundaries. -/
example : rxPump 10 100 [[2, 0], [0, 0, 7], [8, 1, 0, 0], [0, 9]] = ([[7, 8], [9]], .eof) := by
  decide

/-! ### The read that ends the stream; calling again after an error -/

/-- Whether the underlying reader reports its end by a read of its own or together with its
final bytes (`n > 0, io.EOF`) changes nothing: the same packets are delivered, with the same
terminal condition — all streams (also malformed), all chunkings. In particular a last packet
whose bytes arrive with the EOF is delivered (`rx_frames`), a truncated one is not. -/
theorem rx_end_mode_independent (max : Nat) (lastWithErr : Bool) (fuel : Nat) (cs : Reader) :
    rxPumpE max lastWithErr fuel cs = rxPump max fuel cs ∧
    recvMsgsE max lastWithErr fuel cs = recvMsgs max fuel cs :=
  ⟨rxPumpE_eq max lastWithErr fuel cs, recvMsgsE_eq max lastWithErr fuel cs⟩

/-- "Ends the connection": once a `Session.RecvMsg` call has returned an error (over-limit
prefix, truncated frame, end of stream), EVERY later call returns an error and hands the caller no
message — whatever follows the bad prefix on the stream, however many times the caller retries. -/
theorem session_error_is_final (max : Nat) (s : Sess) (k : Nat)
    (h : (recvMsg max s).1.isErr = true) :
    ∀ x ∈ recvCalls max k (recvMsg max s).2, x.isErr = true :=
  recvCalls_stuck max k _ (recvMsg_err_stuck max s h)

/-- The messages `k` successive calls hand out — retries after errors included — are exactly the
messages of the read loop that stops at the first error (`recvMsgs`, about which `session_frames`
and `session_over_limit_stops` speak): nothing is ever delivered after the first error. -/
theorem session_calls_deliver_recvMsgs (max k : Nat) (cs : Reader) (lastWithErr : Bool) :
    (recvCalls max k ⟨cs, lastWithErr, false⟩).filterMap RecvRes.msg? = (recvMsgs max k cs).1 := by
  rw [recvCalls_msgs, recvMsgsE_eq]

/-- Non-vacuity: limit 8; an over-limit prefix (9) followed by bytes that look like two frames:
every retry fails. A last message arriving together with EOF is delivered, then EOF for ever. -/
example : recvCalls 8 4 ⟨[[9, 0, 0, 0, 2, 0, 0, 0, 7, 7, 1, 0, 0, 0, 5]], false, false⟩
      = [.tooLarge, .tooLarge, .tooLarge, .tooLarge] ∧
    recvCalls 8 3 ⟨[[1, 0, 0], [0, 5]], true, false⟩ = [.msg [5], .eof, .eof] ∧
    recvCalls 8 2 ⟨[[2, 0, 0], [0, 5]], true, false⟩ = [.unexpectedEof, .eof] ∧
    rxPumpE 8 true 9 [[1, 0, 0], [0, 5]] = ([[5]], .eof) := by
  decide

end Bifrost.Props.C08
