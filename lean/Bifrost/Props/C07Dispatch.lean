import Bifrost.Model.Incoming
import Bifrost.Gen.Limits
import Bifrost.Gen.Directives
import Bifrost.Lemmas.Incoming
import Bifrost.Props.C07
import Bifrost.Lemmas.FramingEnd
/-!
C07, dispatch clause — "Headers that are empty, oversized, truncated, not decodable, or carry an
invalid protocol ID close the stream without being dispatched, and the handler lookup for an
accepted stream carries exactly that protocol ID and the link's local and remote peers."

`Incoming.handleIncomingStream` models `Controller.HandleIncomingStream` on top of the header
reader the framing theorems (`Props/C07.lean`) are stated about; `Framing.WellFormed` is the
declarative reading of "a well-formed header with a valid protocol ID" (Lemmas/IncomingHeader).
Every theorem is for all links (peer IDs), all lookup answers, all byte streams and all ways of
splitting them into reads. Property theorems only; helpers live in `Lemmas/Incoming*.lean`.
-/
namespace Bifrost.Props.C07Dispatch
open Bifrost Bifrost.Framing Bifrost.Incoming

abbrev limit : Nat := Bifrost.Gen.Limits.streamEstablishMaxPacketSize

/-! ### The reader accepts exactly the well-formed headers -/

/-- The header reader of C07 (`C07.observe`: `readStreamEstablishHeader` + `protocol.ID.Validate`
on a chunked stream) accepts with protocol ID `pid` and unread bytes `rest` exactly when the byte
stream is: a varint length prefix ending within the first four bytes, a body of exactly that
(non-zero, in-limit) length that decodes to the valid ID `pid`, then `rest` — however it is
split into reads. -/
theorem header_accepted_iff_wellFormed (max : Nat) (cs : Reader) (pid rest : Bytes) :
    (∃ a, C07.observe max cs = .ok (pid, rest, a)) ↔ WellFormed max cs.flatten pid rest := by
  show (∃ a, observeR max cs = .ok (pid, rest, a)) ↔ _
  rw [observeR_eq_flat]
  exact readHeaderFlat_ok_iff max cs.flatten pid rest

/-! ### Dispatched ⇔ well-formed, and then to exactly (pid, link local, link remote) -/

/-- A `HandleMountedStream` directive is issued iff the stream starts with a well-formed header
carrying a valid protocol ID, and then it is EXACTLY (that protocol ID, the link's local peer,
the link's remote peer) — whatever the bus answers. -/
theorem dispatched_iff_wellFormed (max : Nat) (lnk : Link) (cs : Reader) (env : Lookup)
    (d : Directive) :
    (handleIncomingStream max lnk cs env).dispatched = some d ↔
      ∃ pid rest, WellFormed max cs.flatten pid rest ∧
        d = { protocolID := pid, localPeerID := lnk.localPeer, remotePeerID := lnk.remotePeer } := by
  rcases handle_cases max lnk cs env with ⟨pid, rest, hw, he⟩ | ⟨hn, he⟩
  · rw [he]
    constructor
    · intro h
      injection h with h
      exact ⟨pid, rest, hw, h.symm⟩
    · rintro ⟨pid', rest', hw', hd⟩
      obtain ⟨hp, _⟩ := hw.unique hw'
      subst hp hd
      rfl
  · rw [he]
    constructor
    · intro h; cases h
    · rintro ⟨pid, rest, hw, _⟩
      exact absurd ⟨pid, rest, hw⟩ hn

/-- The same, phrased with the reader function the C07 framing theorems are stated about. -/
theorem dispatched_iff_header_accepted (max : Nat) (lnk : Link) (cs : Reader) (env : Lookup)
    (d : Directive) :
    (handleIncomingStream max lnk cs env).dispatched = some d ↔
      ∃ pid rest a, C07.observe max cs = .ok (pid, rest, a) ∧
        d = { protocolID := pid, localPeerID := lnk.localPeer, remotePeerID := lnk.remotePeer } := by
  rw [dispatched_iff_wellFormed]
  constructor
  · rintro ⟨pid, rest, hw, hd⟩
    obtain ⟨a, ha⟩ := (header_accepted_iff_wellFormed max cs pid rest).2 hw
    exact ⟨pid, rest, a, ha, hd⟩
  · rintro ⟨pid, rest, a, ha, hd⟩
    exact ⟨pid, rest, (header_accepted_iff_wellFormed max cs pid rest).1 ⟨a, ha⟩, hd⟩

/-- The complete outcome for a well-formed stream, for every answer of the bus: the directive,
what the handler is handed (only if a handler was found), and whether the stream was closed
(always, except when a handler accepted it). -/
theorem wellFormed_outcome (max : Nat) (lnk : Link) (cs : Reader) (env : Lookup) (pid rest : Bytes)
    (h : WellFormed max cs.flatten pid rest) :
    handleIncomingStream max lnk cs env =
      { dispatched := some { protocolID := pid, localPeerID := lnk.localPeer, remotePeerID := lnk.remotePeer }
        delivered := if env = .accepts ∨ env = .handlerErr then
            some { pid := pid, streamPeer := lnk.remotePeer, linkLocal := lnk.localPeer,
                   linkRemote := lnk.remotePeer, linkUUID := lnk.uuid, unread := rest,
                   deadlineArmed := false }
          else none
        closed := decide (env ≠ .accepts) } := by
  rw [handle_of_wellFormed h]
  cases env <;> rfl

/-! ### Not dispatched ⇒ closed, nothing delivered; the malformed classes -/

/-- A stream for which no directive was issued was closed and handed to nobody. -/
theorem not_dispatched_closed_undelivered (max : Nat) (lnk : Link) (cs : Reader) (env : Lookup)
    (h : (handleIncomingStream max lnk cs env).dispatched = none) :
    (handleIncomingStream max lnk cs env).closed = true ∧
    (handleIncomingStream max lnk cs env).delivered = none := by
  rcases handle_cases max lnk cs env with ⟨pid, rest, _, he⟩ | ⟨_, he⟩
  · rw [he] at h; cases h
  · rw [he]; exact ⟨rfl, rfl⟩

/-- Anything that is not a well-formed header with a valid protocol ID: closed, no directive,
nothing delivered — whatever the bus would have answered. -/
theorem malformed_closed_not_dispatched (max : Nat) (lnk : Link) (cs : Reader) (env : Lookup)
    (h : ¬ ∃ pid rest, WellFormed max cs.flatten pid rest) :
    handleIncomingStream max lnk cs env =
      { dispatched := none, delivered := none, closed := true } :=
  handle_of_not_wellFormed h

/-- Whatever the header reader of C07 rejects (for any reason) is closed without dispatch. In
particular the three rejection theorems of `Props/C07.lean` (zero length, oversize, truncated)
carry over: see the corollaries below. -/
theorem reader_error_closed_not_dispatched (max : Nat) (lnk : Link) (cs : Reader) (env : Lookup)
    (h : ∃ e, readHeader max cs = .error e) :
    handleIncomingStream max lnk cs env =
      { dispatched := none, delivered := none, closed := true } := by
  obtain ⟨e, he⟩ := h
  exact handle_of_error he

/-- Empty stream, or fewer than four bytes in total (no well-formed header is that short). -/
theorem empty_or_short_closed (max : Nat) (lnk : Link) (cs : Reader) (env : Lookup)
    (h : cs.flatten.length < 4) :
    handleIncomingStream max lnk cs env =
      { dispatched := none, delivered := none, closed := true } :=
  handle_of_not_wellFormed (not_wellFormed_short h)

/-- No varint ends within the first four bytes (continuation bits all set: lengths ≥ 2^28). -/
theorem bad_prefix_closed (max : Nat) (lnk : Link) (cs : Reader) (env : Lookup)
    (h : ∀ L n, Pb.consume (cs.flatten.take 4) ≠ .ok L n) :
    handleIncomingStream max lnk cs env =
      { dispatched := none, delivered := none, closed := true } :=
  handle_of_not_wellFormed (not_wellFormed_badPrefix h)

/-- Zero length prefix (any encoding of zero within four bytes), whatever follows. -/
theorem zero_length_closed (max : Nat) (lnk : Link) (cs : Reader) (env : Lookup) (pre tail : Bytes)
    (hcat : cs.flatten = pre ++ tail) (hC : Pb.consume pre = .ok 0 pre.length) (hp4 : pre.length ≤ 4) :
    handleIncomingStream max lnk cs env =
      { dispatched := none, delivered := none, closed := true } := by
  apply handle_of_not_wellFormed
  rintro ⟨pid, rest, hw⟩
  rw [hcat] at hw
  exact (wellFormed_after_prefix hC hp4 hw).1 rfl

/-- Oversized: a length prefix above the limit, whatever follows (any uint64, any encoding
length: reuses `C07.oversize_rejected`). -/
theorem oversize_closed (max n : Nat) (lnk : Link) (cs : Reader) (env : Lookup) (tail : Bytes)
    (hn : max < n) (hn64 : n < 2 ^ 64) (hcat : cs.flatten = Pb.append n ++ tail) :
    handleIncomingStream max lnk cs env =
      { dispatched := none, delivered := none, closed := true } :=
  reader_error_closed_not_dispatched max lnk cs env (C07.oversize_rejected max n cs tail hn hn64 hcat)

/-- Truncated: after a complete length prefix announcing `L`, fewer than `L` bytes arrive before
the stream ends. -/
theorem truncated_closed (max : Nat) (lnk : Link) (cs : Reader) (env : Lookup) (pre tail : Bytes)
    (L : Nat) (hcat : cs.flatten = pre ++ tail) (hC : Pb.consume pre = .ok L pre.length)
    (hp4 : pre.length ≤ 4) (hshort : tail.length < L) :
    handleIncomingStream max lnk cs env =
      { dispatched := none, delivered := none, closed := true } := by
  apply handle_of_not_wellFormed
  rintro ⟨pid, rest, hw⟩
  rw [hcat] at hw
  have := (wellFormed_after_prefix hC hp4 hw).2.2.1
  omega

/-- …in particular every proper prefix of what the opener writes (reuses `C07.truncated_rejected`). -/
theorem truncated_marshal_closed (lnk : Link) (cs : Reader) (env : Lookup) (pid : Bytes) (k : Nat)
    (hs : (encodeEstablish pid).length ≤ limit) (hne : pid ≠ [])
    (hk : k < (marshalHeader pid).length) (hcat : cs.flatten = (marshalHeader pid).take k) :
    handleIncomingStream limit lnk cs env =
      { dispatched := none, delivered := none, closed := true } :=
  reader_error_closed_not_dispatched limit lnk cs env (C07.truncated_rejected pid cs k hs hne hk hcat)

/-- Not decodable: the announced body is complete but `StreamEstablish.UnmarshalVT` fails on it. -/
theorem undecodable_closed (max : Nat) (lnk : Link) (cs : Reader) (env : Lookup) (pre tail : Bytes)
    (L : Nat) (e : PW.Err) (hcat : cs.flatten = pre ++ tail)
    (hC : Pb.consume pre = .ok L pre.length) (hp4 : pre.length ≤ 4)
    (hdec : decodeEstablish (tail.take L) = .error e) :
    handleIncomingStream max lnk cs env =
      { dispatched := none, delivered := none, closed := true } := by
  apply handle_of_not_wellFormed
  rintro ⟨pid, rest, hw⟩
  rw [hcat] at hw
  have := (wellFormed_after_prefix hC hp4 hw).2.2.2.1
  rw [hdec] at this
  cases this

/-- Invalid protocol ID: the body decodes, but to an empty or non-UTF-8 protocol ID. -/
theorem invalid_pid_closed (max : Nat) (lnk : Link) (cs : Reader) (env : Lookup) (pre tail : Bytes)
    (L : Nat) (pid : Bytes) (hcat : cs.flatten = pre ++ tail)
    (hC : Pb.consume pre = .ok L pre.length) (hp4 : pre.length ≤ 4)
    (hdec : decodeEstablish (tail.take L) = .ok pid) (hbad : pidValid pid = false) :
    handleIncomingStream max lnk cs env =
      { dispatched := none, delivered := none, closed := true } := by
  apply handle_of_not_wellFormed
  rintro ⟨pid', rest, hw⟩
  rw [hcat] at hw
  obtain ⟨_, _, _, hd, hv, _⟩ := wellFormed_after_prefix hC hp4 hw
  rw [hdec] at hd
  injection hd with hd
  subst hd
  rw [hbad] at hv
  cases hv

/-! ### Lookup failure, wrong value type, handler error ⇒ closed -/

/-- Unless a handler accepted the stream it is closed: no handler, lookup deadline, resolver
error, a value of the wrong type, a handler returning an error — and every malformed header. -/
theorem closed_unless_accepted (max : Nat) (lnk : Link) (cs : Reader) (env : Lookup)
    (h : env ≠ .accepts) : (handleIncomingStream max lnk cs env).closed = true := by
  rcases handle_cases max lnk cs env with ⟨pid, rest, _, he⟩ | ⟨_, he⟩
  · rw [he]
    cases env <;> first | rfl | exact absurd rfl h
  · rw [he]; rfl

/-- The stream stays open iff the header was well-formed AND a handler accepted it. -/
theorem open_iff_accepted (max : Nat) (lnk : Link) (cs : Reader) (env : Lookup) :
    (handleIncomingStream max lnk cs env).closed = false ↔
      (∃ pid rest, WellFormed max cs.flatten pid rest) ∧ env = .accepts := by
  rcases handle_cases max lnk cs env with ⟨pid, rest, hw, he⟩ | ⟨hn, he⟩
  · rw [he]
    constructor
    · intro h
      refine ⟨⟨pid, rest, hw⟩, ?_⟩
      cases env <;> first | rfl | cases h
    · rintro ⟨_, rfl⟩; rfl
  · rw [he]
    constructor
    · intro h; cases h
    · rintro ⟨hw, _⟩; exact absurd hw hn

/-- When the lookup yields no usable handler, nobody is handed the stream. -/
theorem no_handler_nothing_delivered (max : Nat) (lnk : Link) (cs : Reader) (env : Lookup)
    (h : env = .noHandler ∨ env = .deadline ∨ env = .resolverErr ∨ env = .wrongType) :
    (handleIncomingStream max lnk cs env).delivered = none ∧
    (handleIncomingStream max lnk cs env).closed = true := by
  rcases handle_cases max lnk cs env with ⟨pid, rest, _, he⟩ | ⟨_, he⟩
  · rw [he]
    rcases h with rfl | rfl | rfl | rfl <;> exact ⟨rfl, rfl⟩
  · rw [he]; exact ⟨rfl, rfl⟩

/-! ### Delivered ⇒ exactly the named protocol, the link's peers, the bytes after the header -/

/-- Whatever a handler is handed: its protocol ID is the one in the (well-formed) header, the
bytes still readable are exactly the bytes after the header — for every chunking —, no deadline
is left armed, the stream's peer and the mounted link's peers/uuid are the link's, and the
directive that found the handler carried exactly that protocol ID and those peers. -/
theorem delivered_exact (max : Nat) (lnk : Link) (cs : Reader) (env : Lookup) (f : Facts)
    (h : (handleIncomingStream max lnk cs env).delivered = some f) :
    ∃ pid rest, WellFormed max cs.flatten pid rest ∧
      f = { pid := pid, streamPeer := lnk.remotePeer, linkLocal := lnk.localPeer,
            linkRemote := lnk.remotePeer, linkUUID := lnk.uuid, unread := rest,
            deadlineArmed := false } ∧
      (handleIncomingStream max lnk cs env).dispatched =
        some { protocolID := pid, localPeerID := lnk.localPeer, remotePeerID := lnk.remotePeer } ∧
      (env = .accepts ∨ env = .handlerErr) := by
  rcases handle_cases max lnk cs env with ⟨pid, rest, hw, he⟩ | ⟨_, he⟩
  · rw [he] at h ⊢
    refine ⟨pid, rest, hw, ?_⟩
    cases env <;> first | (injection h with h; exact ⟨h.symm, rfl, by simp⟩) | cases h
  · rw [he] at h; cases h

/-- The whole outcome depends only on the byte stream, never on how it is split into reads. -/
theorem chunking_independent (max : Nat) (lnk : Link) (cs cs' : Reader) (env : Lookup)
    (h : cs.flatten = cs'.flatten) :
    handleIncomingStream max lnk cs env = handleIncomingStream max lnk cs' env := by
  rw [handle_eq_flat, handle_eq_flat, h]

/-! ### End to end: what the opener writes is dispatched to that protocol, payload unread -/

/-- For every valid protocol ID within the size limit, every payload, every pair of links and
every chunking: the bytes `OpenMountedStream` writes, followed by the payload, make
`HandleIncomingStream` look up exactly (pid, receiver's link local, receiver's link remote) and
hand the accepting handler a stream for `pid` with exactly the payload unread, left open. -/
theorem open_then_handle_round_trip (opener : MountedLink) (lnk : Link) (pid payload : Bytes)
    (cs : Reader) (hv : pidValid pid = true) (hs : (encodeEstablish pid).length ≤ limit)
    (hcat : cs.flatten = (openMountedStream opener pid (.opened .full)).written ++ payload) :
    handleIncomingStream limit lnk cs .accepts =
      { dispatched := some { protocolID := pid, localPeerID := lnk.localPeer, remotePeerID := lnk.remotePeer }
        delivered := some { pid := pid, streamPeer := lnk.remotePeer, linkLocal := lnk.localPeer,
                            linkRemote := lnk.remotePeer, linkUUID := lnk.uuid, unread := payload,
                            deadlineArmed := false }
        closed := false } := by
  have hw : WellFormed limit cs.flatten pid payload := by
    rw [hcat]
    exact wellFormed_marshal limit pid payload hv hs hs
  rw [handle_of_wellFormed hw]
  rfl

/-- The same for every answer of the bus (the directive is always exactly that one). -/
theorem open_then_handle_any_lookup (opener : MountedLink) (lnk : Link) (pid payload : Bytes)
    (cs : Reader) (env : Lookup) (hv : pidValid pid = true)
    (hs : (encodeEstablish pid).length ≤ limit)
    (hcat : cs.flatten = (openMountedStream opener pid (.opened .full)).written ++ payload) :
    (handleIncomingStream limit lnk cs env).dispatched =
        some { protocolID := pid, localPeerID := lnk.localPeer, remotePeerID := lnk.remotePeer } ∧
    ((handleIncomingStream limit lnk cs env).closed = false ↔ env = .accepts) ∧
    (∀ f, (handleIncomingStream limit lnk cs env).delivered = some f →
        f.pid = pid ∧ f.unread = payload ∧ f.streamPeer = lnk.remotePeer) := by
  have hw : WellFormed limit cs.flatten pid payload := by
    rw [hcat]
    exact wellFormed_marshal limit pid payload hv hs hs
  rw [handle_of_wellFormed hw]
  refine ⟨rfl, ?_, ?_⟩
  · cases env <;> simp [afterHeader, Lookup.keepsOpen]
  · intro f hf
    cases env <;> first | (injection hf with hf; subst hf; exact ⟨rfl, rfl, rfl⟩) | cases hf

/-! ### Opener side -/

/-- `OpenMountedStream` writes exactly the marshalled header of the requested protocol ID and
returns a mounted stream for that ID on that link, with no deadline left armed. -/
theorem open_writes_header (l : MountedLink) (pid : Bytes) :
    openMountedStream l pid (.opened .full) =
      { opened := true, written := marshalHeader pid
        mounted := some { pid := pid, streamPeer := l.link.remotePeer, linkLocal := l.link.localPeer,
                          linkRemote := l.link.remotePeer, linkUUID := l.link.uuid, unread := [],
                          deadlineArmed := false }
        closed := false } := rfl

/-- When the header write fails, the stream is closed and no mounted stream is returned; when
the link cannot open a stream, nothing is written. -/
theorem open_write_error_closed (l : MountedLink) (pid : Bytes) (n : Nat) :
    (openMountedStream l pid (.opened (.fail n))).closed = true ∧
    (openMountedStream l pid (.opened (.fail n))).mounted = none ∧
    (openMountedStream l pid .openErr).mounted = none ∧
    (openMountedStream l pid .openErr).written = [] := ⟨rfl, rfl, rfl, rfl⟩

/-! ### The lookups of different streams are never merged -/

/-- The bus de-duplicates equivalent directives. Two `HandleMountedStream` lookups issued for two
incoming streams are equivalent (regenerated `IsEquivalent`) only if the streams named the same
protocol ID on links with the same local and the same remote peer — so the handler found for
one stream is never a handler that was resolved for another protocol or another pair of peers. -/
theorem lookups_merge_only_if_same (max : Nat) (l₁ l₂ : Link) (cs₁ cs₂ : Reader) (e₁ e₂ : Lookup)
    (d₁ d₂ : Directive)
    (h₁ : (handleIncomingStream max l₁ cs₁ e₁).dispatched = some d₁)
    (h₂ : (handleIncomingStream max l₂ cs₂ e₂).dispatched = some d₂)
    (heq : d₁.isEquivalent d₂ = true) :
    d₁ = d₂ ∧ l₁.localPeer = l₂.localPeer ∧ l₁.remotePeer = l₂.remotePeer ∧
    ∃ pid r₁ r₂, WellFormed max cs₁.flatten pid r₁ ∧ WellFormed max cs₂.flatten pid r₂ := by
  obtain ⟨p₁, r₁, w₁, rfl⟩ := (dispatched_iff_wellFormed max l₁ cs₁ e₁ d₁).1 h₁
  obtain ⟨p₂, r₂, w₂, rfl⟩ := (dispatched_iff_wellFormed max l₂ cs₂ e₂ d₂).1 h₂
  simp only [Gen.Directives.HandleMountedStream.isEquivalent, Bool.and_eq_true, beq_iff_eq] at heq
  obtain ⟨⟨hp, hl⟩, hr⟩ := heq
  subst hp
  exact ⟨by rw [hl, hr], hl, hr, p₁, r₁, r₂, w₁, w₂⟩

/-! ### Non-vacuity -/

/-- A concrete well-formed stream (header "abc", payload ff ee), split awkwardly, accepted. -/
example : handleIncomingStream limit ⟨[1], [2], 7⟩ [[5], [], [0x0a, 3, 0x61], [0x62, 0x63, 0xff], [0xee]] .accepts
    = { dispatched := some { protocolID := [0x61, 0x62, 0x63], localPeerID := [1], remotePeerID := [2] }
        delivered := some { pid := [0x61, 0x62, 0x63], streamPeer := [2], linkLocal := [1], linkRemote := [2],
                            linkUUID := 7, unread := [0xff, 0xee], deadlineArmed := false }
        closed := false } := by decide

/-- `WellFormed` is inhabited (also by a non-minimal length prefix). -/
example : WellFormed limit [0x85, 0x00, 0x0a, 3, 0x61, 0x62, 0x63, 0xff] [0x61, 0x62, 0x63] [0xff] :=
  ⟨[0x85, 0x00], [0x0a, 3, 0x61, 0x62, 0x63], by decide, by decide, by decide, by decide, by decide,
    by decide, by decide, by decide⟩

/-- The malformed classes are inhabited: empty, zero length, oversize, truncated, undecodable,
empty protocol ID, non-UTF-8 protocol ID — each closed without a directive, also when a handler
would accept. -/
example : ([[], [[0, 1, 2, 3]], [[0xa1, 0x8d, 0x06, 1]], [[5, 0x0a, 3], [0x61]], [[2, 0x08], [0x85, 9]],
            [[2, 0x0a, 0, 9]], [[3, 0x0a, 1, 0xff]]] : List Reader).all
    (fun cs => handleIncomingStream limit ⟨[1], [2], 7⟩ cs .accepts
      == { dispatched := none, delivered := none, closed := true }) = true := by decide

/-- A handler error closes a stream that was delivered; a wrong value type closes it undelivered. -/
example : (handleIncomingStream limit ⟨[1], [2], 7⟩ [[3, 0x0a, 1, 0x61]] .handlerErr).closed = true ∧
    (handleIncomingStream limit ⟨[1], [2], 7⟩ [[3, 0x0a, 1, 0x61]] .handlerErr).delivered ≠ none ∧
    (handleIncomingStream limit ⟨[1], [2], 7⟩ [[3, 0x0a, 1, 0x61]] .wrongType).delivered = none := by decide

/-! ### The read that ends the stream

`handleIncomingStreamE … lastWithErr` is `HandleIncomingStream` on a stream whose `Read` may hand
out the final bytes together with the error (`n > 0, io.EOF`). -/

/-- The outcome (directive, delivery, closed) does not depend on whether the stream reports its
end by a read of its own or by the read returning its last bytes — all links, lookup answers,
streams and chunkings. With `dispatched_iff_wellFormed`: a complete header ending the stream is
dispatched, a truncated one is closed without dispatch, either way. -/
theorem dispatch_end_mode_independent (max : Nat) (lnk : Link) (cs : Reader) (lastWithErr : Bool)
    (env : Lookup) :
    handleIncomingStreamE max lnk cs lastWithErr env = handleIncomingStream max lnk cs env :=
  handleIncomingStreamE_eq max lnk cs lastWithErr env

/-- …so dispatch ⇔ well-formed holds for such streams as well. -/
theorem dispatched_iff_wellFormed_any_end (max : Nat) (lnk : Link) (cs : Reader) (lastWithErr : Bool)
    (env : Lookup) (d : Directive) :
    (handleIncomingStreamE max lnk cs lastWithErr env).dispatched = some d ↔
      ∃ pid rest, WellFormed max cs.flatten pid rest ∧
        d = { protocolID := pid, localPeerID := lnk.localPeer, remotePeerID := lnk.remotePeer } := by
  rw [dispatch_end_mode_independent]
  exact dispatched_iff_wellFormed max lnk cs env d

/-- Non-vacuity: header + FIN in one read is delivered; one byte short is closed undispatched. -/
example : (handleIncomingStreamE limit ⟨[1], [2], 7⟩ [[3, 0x0a, 1, 0x61]] true .accepts).closed = false ∧
    handleIncomingStreamE limit ⟨[1], [2], 7⟩ [[3, 0x0a], [1]] true .accepts
      = { dispatched := none, delivered := none, closed := true } := by decide

end Bifrost.Props.C07Dispatch
