import Bifrost.Model.Dispatch
import Bifrost.Lemmas.Dispatch
/-!
C34 — Stream handlers only take streams they are configured for.

For each handler: `HandleDirective` returns a resolver for a `HandleMountedStream(protocol, local,
remote)` directive **iff** the protocol is the configured one and, where configured, the local
peer is the served one and the remote peer is in the served list. Stated about the controller
the real constructor builds from a config (`…New cfg = some c`); `validate` is assumed only
where the code relies on it (forwarding: the constructor does not reject an empty protocol ID).
Peer IDs in configs are text; `parsePeerID` is the real parser (`confparse.ParsePeerID`).
-/
namespace Bifrost.Props.C34
open Bifrost Bifrost.Dispatch Bifrost.Gen.DispatchConsts

/-! ### echo -/

/-- The constructor fails exactly when the peer ID text does not parse. -/
theorem echo_ctor_none_iff (cfg : EchoConfig) : echoNew cfg = none ↔ parsePeerID cfg.peerId = none := by
  unfold echoNew
  cases parsePeerID cfg.peerId <;> simp

/-- echo handles a stream iff its protocol is the served one and, if a local peer is configured,
the stream's local peer is that peer. (The remote peer is not filtered by echo.) -/
theorem echo_handles_iff (cfg : EchoConfig) (c : EchoCtl) (h : echoNew cfg = some c) (s : Stream) :
    c.handles s = true ↔
      s.proto = echoProto cfg ∧ (c.localPeerID ≠ [] → s.localPeer = c.localPeerID) := by
  unfold echoNew at h
  cases hp : parsePeerID cfg.peerId with
  | none => simp [hp] at h
  | some pid =>
    simp only [hp, Option.some.injEq] at h
    subst h
    have hd : echoDefaultProtocolID ≠ [] := by decide
    have key : (if cfg.protocolId.isEmpty = true then echoDefaultProtocolID else cfg.protocolId) = echoProto cfg := by
      unfold echoProto
      by_cases h0 : cfg.protocolId = [] <;> simp [h0]
    have hne : echoProto cfg ≠ [] := by
      unfold echoProto
      by_cases h0 : cfg.protocolId = [] <;> simp [h0, hd]
    unfold EchoCtl.handles
    simp only [key]
    exact handles_shape _ _ _ _ hne

/-- The controller's local peer is the parsed config value. -/
theorem echo_local (cfg : EchoConfig) (c : EchoCtl) (h : echoNew cfg = some c) :
    parsePeerID cfg.peerId = some c.localPeerID := by
  unfold echoNew at h
  cases hp : parsePeerID cfg.peerId with
  | none => simp [hp] at h
  | some pid => simp only [hp, Option.some.injEq] at h; subst h; rfl

/-! ### forwarding -/

theorem fwd_local (cfg : FwdConfig) (c : FwdCtl) (h : fwdNew cfg = some c) :
    parsePeerID cfg.peerId = some c.localPeerID ∧ c.protocolId = cfg.protocolId := by
  unfold fwdNew at h
  by_cases ht : cfg.targetOk = true
  · cases hp : parsePeerID cfg.peerId with
    | none => simp [ht, hp] at h
    | some pid => simp [ht, hp] at h; subst h; simp
  · simp [ht] at h

/-- A validated forwarding config always constructs. -/
theorem fwd_validate_ctor (cfg : FwdConfig) (hv : cfg.validate = true) : (fwdNew cfg).isSome = true := by
  unfold FwdConfig.validate at hv
  simp only [Bool.and_eq_true] at hv
  obtain ⟨⟨⟨h1, _⟩, _⟩, h4⟩ := hv
  unfold fwdNew
  cases hp : parsePeerID cfg.peerId with
  | none => simp [hp] at h1
  | some pid => simp [h4]

/-- forwarding (validated config) handles a stream iff protocol and, if configured, local peer match. -/
theorem fwd_handles_iff (cfg : FwdConfig) (hv : cfg.validate = true) (c : FwdCtl)
    (h : fwdNew cfg = some c) (s : Stream) :
    c.handles s = true ↔
      s.proto = cfg.protocolId ∧ (c.localPeerID ≠ [] → s.localPeer = c.localPeerID) := by
  obtain ⟨_, hproto⟩ := fwd_local cfg c h
  have hne : cfg.protocolId ≠ [] := by
    unfold FwdConfig.validate protoValid at hv
    simp only [Bool.and_eq_true, Bool.not_eq_true', List.isEmpty_eq_false_iff] at hv
    exact hv.1.1.2.1
  unfold FwdCtl.handles
  rw [hproto]
  exact handles_shape _ _ _ _ hne

/-- Why `validate` is needed: the constructor accepts an empty protocol ID, and the handler then
takes every protocol (for the configured local peer). -/
theorem fwd_unvalidated_wildcard (cfg : FwdConfig) (c : FwdCtl) (h : fwdNew cfg = some c)
    (h0 : cfg.protocolId = []) (s : Stream) :
    c.handles s = true ↔ (c.localPeerID ≠ [] → s.localPeer = c.localPeerID) := by
  obtain ⟨_, hproto⟩ := fwd_local cfg c h
  unfold FwdCtl.handles
  rw [hproto, h0]
  by_cases h2 : c.localPeerID = []
  · simp [h2]
  · by_cases h3 : s.localPeer = c.localPeerID <;> simp [h2, h3, List.isEmpty_iff, bne_iff_ne]

/-! ### relay -/

/-- The relay constructor itself enforces: source peer set, target peer set, protocol valid. -/
theorem relay_ctor (cfg : RelayConfig) (c : RelayCtl) (h : relayNew cfg = some c) :
    parsePeerID cfg.peerId = some c.srcPeerID ∧ c.srcPeerID ≠ [] ∧ c.protocolId = cfg.protocolId ∧
      protoValid cfg.protocolId = true := by
  unfold relayNew at h
  cases hp : parsePeerID cfg.peerId with
  | none => simp [hp] at h
  | some spid =>
    cases ht : parsePeerID cfg.targetPeerId with
    | none =>
      simp only [hp, ht] at h
      split at h <;> simp at h
    | some tpid =>
      simp only [hp, ht] at h
      split at h
      · simp at h
      · split at h
        · simp at h
        · split at h
          · simp at h
          · split at h
            · simp at h
            · rename_i h1 _ h3 _
              simp only [Option.some.injEq] at h
              subst h
              simp only [Bool.not_eq_true, Bool.not_eq_false'] at h3
              simp only [Bool.not_eq_true, List.isEmpty_eq_false_iff] at h1
              exact ⟨rfl, h1, rfl, by simpa using h3⟩

/-- relay handles a stream iff the protocol is the configured one and the local peer is the
configured source peer (both mandatory). -/
theorem relay_handles_iff (cfg : RelayConfig) (c : RelayCtl) (h : relayNew cfg = some c) (s : Stream) :
    c.handles s = true ↔ s.proto = cfg.protocolId ∧ s.localPeer = c.srcPeerID := by
  obtain ⟨_, _, hproto, _⟩ := relay_ctor cfg c h
  unfold RelayCtl.handles
  rw [hproto]
  by_cases h1 : cfg.protocolId = s.proto
  · by_cases h2 : c.srcPeerID = s.localPeer
    · simp [h1, h2]
    · have : ¬ s.localPeer = c.srcPeerID := fun e => h2 e.symm
      simp [h1, h2, this, bne_iff_ne]
  · have : ¬ s.proto = cfg.protocolId := fun e => h1 e.symm
    simp [h1, this, bne_iff_ne]

/-- The forwarding half of the controller is exactly the configured target: the parsed
`target_peer_id` (mandatory) and the effective target protocol, which is valid. -/
theorem relay_target (cfg : RelayConfig) (c : RelayCtl) (h : relayNew cfg = some c) :
    parsePeerID cfg.targetPeerId = some c.targetPeerID ∧ c.targetPeerID ≠ [] ∧
      c.targetProtocolID = cfg.targetProto ∧ protoValid cfg.targetProto = true := by
  unfold relayNew at h
  cases hp : parsePeerID cfg.peerId with
  | none => simp [hp] at h
  | some spid =>
    cases ht : parsePeerID cfg.targetPeerId with
    | none =>
      simp only [hp, ht] at h
      split at h <;> simp at h
    | some tpid =>
      simp only [hp, ht] at h
      split at h
      · simp at h
      · split at h
        · simp at h
        · split at h
          · simp at h
          · split at h
            · simp at h
            · rename_i _ h2 h3 h4
              simp only [Option.some.injEq] at h
              subst h
              simp only [Bool.not_eq_true, List.isEmpty_eq_false_iff] at h2
              refine ⟨rfl, h2, rfl, ?_⟩
              unfold RelayConfig.targetProto
              by_cases he : cfg.targetProtocolId.isEmpty = true
              · simp only [he, if_true]; simpa using h3
              · simp only [he]
                simp only [Bool.and_eq_true, Bool.not_eq_true', not_and, Bool.not_eq_false] at h4
                simpa [he] using h4

/-- What "unset" and "set" mean for `target_protocol_id`: unset = forward with the protocol the
relay listens on; set = forward with exactly that protocol (equal to the listen protocol or not). -/
theorem relay_targetProto_unset (cfg : RelayConfig) (h : cfg.targetProtocolId = []) :
    cfg.targetProto = cfg.protocolId := by
  simp [RelayConfig.targetProto, h]

theorem relay_targetProto_set (cfg : RelayConfig) (h : cfg.targetProtocolId ≠ []) :
    cfg.targetProto = cfg.targetProtocolId := by
  simp [RelayConfig.targetProto, h]

/-- Dispatched to the configured target: a stream the relay was handed (arrived on a link with
local peer `ll` from `r`) is re-opened from that same local peer, with exactly the configured
target peer and the effective target protocol, and the link it came on is kept up. -/
theorem relay_opens_exact (cfg : RelayConfig) (c : RelayCtl) (h : relayNew cfg = some c) (ll r : Bytes) :
    ∃ tp, parsePeerID cfg.targetPeerId = some tp ∧ tp ≠ [] ∧
      c.opens ll r = ⟨(ll, r), cfg.targetProto, ll, tp⟩ := by
  obtain ⟨h1, h2, h3, _⟩ := relay_target cfg c h
  exact ⟨c.targetPeerID, h1, h2, by simp [RelayCtl.opens, h3]⟩

/-- The target fields never influence which streams are taken: two relays that agree on
`peer_id` and `protocol_id` take exactly the same streams, whatever their targets. -/
theorem relay_filter_ignores_target (cfg cfg' : RelayConfig) (c c' : RelayCtl)
    (h : relayNew cfg = some c) (h' : relayNew cfg' = some c')
    (hp : cfg.peerId = cfg'.peerId) (hq : cfg.protocolId = cfg'.protocolId) (s : Stream) :
    c.handles s = c'.handles s := by
  obtain ⟨a1, _, a3, _⟩ := relay_ctor cfg c h
  obtain ⟨b1, _, b3, _⟩ := relay_ctor cfg' c' h'
  have : c.srcPeerID = c'.srcPeerID := by
    rw [hp, b1] at a1; exact (Option.some.inj a1).symm
  unfold RelayCtl.handles
  rw [a3, b3, hq, this]

/-! ### api/accept -/

theorem accept_ctor (cfg : AcceptConfig) (c : AcceptCtl) (h : acceptNew cfg = some c) :
    parsePeerID cfg.localPeerId = some c.localPeerID ∧ decodeAll cfg.remotePeerIds = some c.remotePeerIDs ∧
      c.protocolID = cfg.protocolId ∧ protoValid cfg.protocolId = true := by
  unfold acceptNew at h
  cases hp : parsePeerID cfg.localPeerId with
  | none => simp [hp] at h
  | some lp =>
    cases hr : decodeAll cfg.remotePeerIds with
    | none => simp [hp, hr] at h
    | some rs =>
      simp only [hp, hr] at h
      split at h
      · simp at h
      · rename_i hv
        simp only [Option.some.injEq] at h
        subst h
        exact ⟨rfl, rfl, rfl, by simpa using hv⟩

/-- accept handles a stream iff the protocol matches, the local peer matches if configured, and
the remote peer is in the configured list if that list is non-empty. -/
theorem accept_handles_iff (cfg : AcceptConfig) (c : AcceptCtl) (h : acceptNew cfg = some c) (s : Stream) :
    c.handles s = true ↔
      s.proto = cfg.protocolId ∧ (c.localPeerID ≠ [] → s.localPeer = c.localPeerID) ∧
        (c.remotePeerIDs ≠ [] → s.remotePeer ∈ c.remotePeerIDs) := by
  obtain ⟨_, _, hproto, _⟩ := accept_ctor cfg c h
  unfold AcceptCtl.handles
  rw [hproto]
  by_cases h1 : cfg.protocolId = s.proto
  · by_cases h2 : c.localPeerID = []
    · by_cases h3 : c.remotePeerIDs = []
      · simp [h1, h2, h3]
      · simp [h1, h2, h3, List.isEmpty_iff]
    · by_cases h3 : c.remotePeerIDs = []
      · simp [h1, h2, h3, List.isEmpty_iff, bne_iff_ne]
      · simp [h1, h2, h3, List.isEmpty_iff, bne_iff_ne]
  · have : ¬ s.proto = cfg.protocolId := fun e => h1 e.symm
    simp [h1, this, bne_iff_ne]

/-- The remote list of the controller is exactly the decoded config entries, in order. -/
theorem accept_remote_mem (cfg : AcceptConfig) (c : AcceptCtl) (h : acceptNew cfg = some c) (id : Bytes) :
    id ∈ c.remotePeerIDs ↔ ∃ t ∈ cfg.remotePeerIds, Codec.idB58Decode t = some id := by
  obtain ⟨_, hr, _, _⟩ := accept_ctor cfg c h
  exact decodeAll_mem cfg.remotePeerIds c.remotePeerIDs hr id

/-- `transport_id` means nothing for the filter: configs that differ only there build
controllers that take the same streams. -/
theorem accept_ignores_transport (cfg : AcceptConfig) (t : Nat) :
    acceptNew { cfg with transportId := t } = acceptNew cfg ∧
      ({ cfg with transportId := t } : AcceptConfig).validate = cfg.validate := ⟨rfl, rfl⟩

/-! ### srpc server -/

/-- The raw server: protocol in the list; local peer's base58 text in the peer list if non-empty. -/
theorem srpc_handles_iff (c : SrpcServer) (s : Stream) :
    c.handles s = true ↔
      s.proto ∈ c.protocolIDs ∧ (c.peerIDs ≠ [] → B58.encode s.localPeer ∈ c.peerIDs) := by
  unfold SrpcServer.handles
  by_cases h1 : s.proto ∈ c.protocolIDs
  · by_cases h2 : c.peerIDs = []
    · simp [h1, h2]
    · simp [h1, h2, List.isEmpty_iff]
  · simp [h1]

/-- A server built from a config (`Config.BuildServer`): the filter is on peer IDs, not text. -/
theorem srpc_built_handles_iff (cfg : SrpcConfig) (c : SrpcServer) (h : srpcBuild cfg = some c) (s : Stream) :
    ∃ ids, parsePeerIDs false cfg.peerIds = some ids ∧ parseProtocolIDs false cfg.protocolIds = some c.protocolIDs ∧
      (c.handles s = true ↔ s.proto ∈ c.protocolIDs ∧ (ids ≠ [] → s.localPeer ∈ ids)) := by
  unfold srpcBuild at h
  cases hp : parseProtocolIDs false cfg.protocolIds with
  | none => simp [hp] at h
  | some ps =>
    cases hi : parsePeerIDs false cfg.peerIds with
    | none => simp [hp, hi] at h
    | some ids =>
      simp only [hp, hi, Option.some.injEq] at h
      subst h
      refine ⟨ids, rfl, rfl, ?_⟩
      rw [srpc_handles_iff]
      simp only [ne_eq, List.map_eq_nil_iff]
      have : B58.encode s.localPeer ∈ ids.map B58.encode ↔ s.localPeer ∈ ids := by
        constructor
        · intro hm
          obtain ⟨x, hx, he⟩ := List.mem_map.mp hm
          have := b58_encode_injective _ _ he
          exact this ▸ hx
        · intro hm; exact List.mem_map.mpr ⟨_, hm, rfl⟩
      rw [this]

/-- Every protocol a built server serves is a valid protocol ID from the config. -/
theorem srpc_built_protocols (cfg : SrpcConfig) (c : SrpcServer) (h : srpcBuild cfg = some c) :
    c.protocolIDs = cfg.protocolIds ∧ ∀ p ∈ cfg.protocolIds, protoValid p = true := by
  unfold srpcBuild at h
  cases hp : parseProtocolIDs false cfg.protocolIds with
  | none => simp [hp] at h
  | some ps =>
    cases hi : parsePeerIDs false cfg.peerIds with
    | none => simp [hp, hi] at h
    | some ids =>
      simp only [hp, hi, Option.some.injEq] at h
      subst h
      exact parseProtocolIDs_false_spec cfg.protocolIds ps hp

/-- `disable_establish_link` is not a filter: it only decides whether the incoming link is kept
up (`backLink`); servers that differ only there take the same streams. -/
theorem srpc_ignores_establish (c : SrpcServer) (b : Bool) (s : Stream) :
    ({ c with disableEstablishLink := b } : SrpcServer).handles s = c.handles s := rfl

theorem srpc_backLink_iff (c : SrpcServer) (ll r : Bytes) :
    (c.backLink ll r = some (ll, r) ↔ c.disableEstablishLink = false) ∧
      (c.backLink ll r = none ↔ c.disableEstablishLink = true) := by
  unfold SrpcServer.backLink
  cases c.disableEstablishLink <;> simp

/-- `ApplyDefaults`: a config that names protocols keeps exactly those; only a config without
any gets the caller's defaults. The peer filter is never touched. -/
theorem srpc_defaults (cfg : SrpcConfig) (defs : List Bytes) :
    (cfg.applyDefaults defs).peerIds = cfg.peerIds ∧
      (cfg.protocolIds ≠ [] → (cfg.applyDefaults defs).protocolIds = cfg.protocolIds) ∧
      (cfg.protocolIds = [] → (cfg.applyDefaults defs).protocolIds = defs) := by
  unfold SrpcConfig.applyDefaults
  cases hq : cfg.protocolIds with
  | nil => simp
  | cons a l => simp [hq]

/-- A server built through `ApplyDefaults` serves exactly the config's own protocols when it has
any, exactly the defaults otherwise. -/
theorem srpc_defaults_built (cfg : SrpcConfig) (defs : List Bytes) (c : SrpcServer)
    (h : srpcBuild (cfg.applyDefaults defs) = some c) (s : Stream) :
    c.handles s = true → s.proto ∈ (if cfg.protocolIds = [] then defs else cfg.protocolIds) := by
  intro hh
  obtain ⟨hpr, _⟩ := srpc_built_protocols _ c h
  have hm := ((srpc_handles_iff c s).mp hh).1
  rw [hpr] at hm
  obtain ⟨_, h2, h3⟩ := srpc_defaults cfg defs
  by_cases he : cfg.protocolIds = []
  · simpa [he, h3 he] using hm
  · simpa [he, h2 he] using hm

/-- The lookup server (`stream/srpc/server/lookup`, built through `NewServerWithMux`) filters
exactly like a server built from the plain config with the same peer and protocol lists; its
`server_id` is not a filter, and it always keeps the incoming link up. -/
theorem srpcLookup_built (cfg : SrpcLookupConfig) (c : SrpcServer) (h : srpcLookupBuild cfg = some c) (s : Stream) :
    c.disableEstablishLink = false ∧
    ∃ ids, parsePeerIDs false cfg.peerIds = some ids ∧ parseProtocolIDs false cfg.protocolIds = some c.protocolIDs ∧
      (c.handles s = true ↔ s.proto ∈ c.protocolIDs ∧ (ids ≠ [] → s.localPeer ∈ ids)) := by
  unfold srpcLookupBuild at h
  refine ⟨?_, srpc_built_handles_iff _ c h s⟩
  unfold srpcBuild at h
  cases hp : parseProtocolIDs false cfg.protocolIds with
  | none => simp [hp] at h
  | some ps =>
    cases hi : parsePeerIDs false cfg.peerIds with
    | none => simp [hp, hi] at h
    | some ids =>
      simp only [hp, hi, Option.some.injEq] at h
      subst h
      rfl

theorem srpcLookup_ignores_serverId (cfg : SrpcLookupConfig) (sid : Bytes) :
    srpcLookupBuild { cfg with serverId := sid } = srpcLookupBuild cfg := rfl

/-! ### pubsub, solicit -/

theorem pubsub_handles_iff (protocolID : Bytes) (s : Stream) :
    pubsubHandles protocolID s = true ↔ s.proto = protocolID := by
  unfold pubsubHandles
  by_cases h : s.proto = protocolID <;> simp [h, bne_iff_ne]

/-- The solicitation controller takes exactly the control protocol and `solicit:`-prefixed IDs. -/
theorem solicit_handles_iff (s : Stream) :
    solicitHandles s = true ↔ s.proto = solicitControlProtocolID ∨ solicitStreamPrefix <+: s.proto := by
  unfold solicitHandles
  by_cases h1 : s.proto = solicitControlProtocolID
  · simp [h1]
  · by_cases h2 : solicitStreamPrefix.isPrefixOf s.proto = true
    · simp [h1, h2, List.isPrefixOf_iff_prefix.mp h2]
    · have : ¬ solicitStreamPrefix <+: s.proto := fun hp => h2 (List.isPrefixOf_iff_prefix.mpr hp)
      simp [h1, h2, this]

/-- The pubsub controller's peer ID is not a filter; the solicitation controller's `max_hashes`
is not one either. -/
theorem pubsub_args_handles_iff (a : PubsubArgs) (s : Stream) :
    a.handles s = true ↔ s.proto = a.protocolID := pubsub_handles_iff a.protocolID s

theorem solicit_config_handles_iff (c : SolicitConfig) (s : Stream) :
    c.handles s = true ↔ s.proto = solicitControlProtocolID ∨ solicitStreamPrefix <+: s.proto :=
  solicit_handles_iff s

/-! ### non-vacuity -/

/-- The hypotheses are satisfiable: a config with a real peer ID text constructs, and the
resulting controller serves one stream and refuses another. -/
example : ∃ cfg c, echoNew cfg = some c ∧ c.handles ⟨echoDefaultProtocolID, [], []⟩ = true ∧
    c.handles ⟨[1], [], []⟩ = false :=
  ⟨⟨[], []⟩, ⟨echoDefaultProtocolID, []⟩, by decide, by decide, by decide⟩

example : ∃ cfg : FwdConfig, cfg.validate = true ∧ (fwdNew cfg).isSome = true :=
  ⟨⟨[], [112], true, true⟩, by decide, by decide⟩

example : ∃ cfg c, acceptNew cfg = some c := ⟨⟨[], [], [112], 7⟩, ⟨[112], [], []⟩, by decide⟩

/-- The lookup server constructs (hypothesis of `srpcLookup_built` is satisfiable) and takes its
protocol only. -/
example : ∃ c, srpcLookupBuild ⟨[], [[112, 47, 97]], [115]⟩ = some c ∧
    c.handles ⟨[112, 47, 97], [], []⟩ = true ∧ c.handles ⟨[112, 47, 97, 47, 120], [], []⟩ = false :=
  ⟨⟨[[112, 47, 97]], [], false⟩, by decide, by decide, by decide⟩

end Bifrost.Props.C34
