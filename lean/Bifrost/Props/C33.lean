import Bifrost.Model.Wrappers
import Bifrost.Model.WrappersSplit
import Bifrost.Lemmas.WrappersHold
/-!
C33 — Hold-open keeps a peer's link request referenced exactly while links exist.

Model: `Bifrost.Wrappers.Hold` — the `establishLinkHandler` of `link/hold-open` as fixed by
"fix: hold-open leaked a strong reference when links changed before the acquire ran". Steps are
the handler's critical sections (`add`, `remove`, `disposed`), the critical section of each
asynchronous acquire goroutine (`acquire`), each asynchronous `go ref.Release()` (`release`) and
the environment releasing the directive instance (`instRelease`). All theorems quantify over ALL
op lists = all interleavings of callbacks and goroutines, any number of links.
-/
namespace Bifrost.Props.C33
open Bifrost.Wrappers.Hold

/-- At quiescence (no acquire goroutine and no release goroutine pending) hold-open has exactly
one live strong reference if at least one link exists and none otherwise (none at all once the
directive instance itself is gone). -/
theorem quiescent_refcount (ops : List Op) (hq : quiescent (run ops)) :
    (run ops).outstanding =
      if (run ops).released then 0 else if (run ops).valCount > 0 then 1 else 0 := by
  have hI := inv_run ops
  obtain ⟨hpa, hpr⟩ := hq
  cases hrel : (run ops).released with
  | true => simp [hI.outRel hrel]
  | false =>
    have h1 := hI.out hrel
    have h3 := hI.rigidPos
    have h4 := hI.need hrel
    cases hr : (run ops).rigid with
    | true => have := h3 hr; simp [hr, hpr] at h1; simp [h1, this]
    | false =>
      simp [hr, hpr] at h1
      by_cases hv : (run ops).valCount > 0
      · have := h4 hv hr; omega
      · simp [h1, hv]

/-- The same with only "no pending acquire" assumed, as long as the instance lives: the references
not yet handed to a release goroutine number exactly `if valCount > 0 then 1 else 0`. -/
theorem quiescent_refcount_acq (ops : List Op)
    (hpa : (run ops).pendingAcq = 0) (hrel : (run ops).released = false) :
    (run ops).outstanding = (if (run ops).valCount > 0 then 1 else 0) + (run ops).pendingRel := by
  have hI := inv_run ops
  have h1 := hI.out hrel
  cases hr : (run ops).rigid with
  | true => have := hI.rigidPos hr; simp [hr] at h1; simp [h1, this]
  | false =>
    simp [hr] at h1
    by_cases hv : (run ops).valCount > 0
    · have := hI.need hrel hv hr; omega
    · simp [h1, hv]

/-- `valCount` is the number of links added and not yet removed in the history… -/
theorem valCount_tracks_links (ops : List Op) : (run ops).valCount = liveLinks ops :=
  valCount_run ops

/-- …so the property in terms of the history alone: at quiescence, while the request exists, a
strong reference is held iff some link added has not been removed. -/
theorem quiescent_refcount_links (ops : List Op) (hq : quiescent (run ops))
    (hrel : (run ops).released = false) :
    (run ops).outstanding = if liveLinks ops > 0 then 1 else 0 := by
  have := quiescent_refcount ops hq
  rw [hrel, valCount_run] at this
  simpa using this

/-- Never a double acquisition: in every reachable state the live references are the one held in
`rigidRef` (if any) plus those already handed to a release goroutine. -/
theorem no_double_acquire (ops : List Op) (hrel : (run ops).released = false) :
    (run ops).outstanding = (if (run ops).rigid then 1 else 0) + (run ops).pendingRel :=
  (inv_run ops).out hrel

/-- No reference is held in `rigidRef` with zero links, in any reachable state. -/
theorem no_ref_without_links (ops : List Op) (h : (run ops).valCount = 0) :
    (run ops).rigid = false := by
  cases hr : (run ops).rigid with
  | false => rfl
  | true => have := (inv_run ops).rigidPos hr; omega

/-- While links exist the reference is held as soon as the acquire goroutines have run. -/
theorem held_while_links (ops : List Op) (hpa : (run ops).pendingAcq = 0)
    (hrel : (run ops).released = false) (hv : (run ops).valCount > 0) :
    (run ops).rigid = true := by
  cases hr : (run ops).rigid with
  | true => rfl
  | false => have := (inv_run ops).need hrel hv hr; omega

/-- Quiescence is always reachable by letting the pending goroutines run (so the hypothesis of
`quiescent_refcount` is not vacuous anywhere), and that does not change the link count. -/
theorem quiescence_reachable (ops : List Op) :
    let s := run ops
    let ops' := ops ++ List.replicate s.pendingAcq .acquire ++ List.replicate s.pendingRel .release
    quiescent (run ops') ∧ (run ops').valCount = s.valCount ∧ (run ops').released = s.released := by
  intro s ops'
  have e : run ops' = (List.replicate s.pendingRel Op.release).foldl step
      ((List.replicate s.pendingAcq Op.acquire).foldl step s) := by
    simp [ops', run, s, List.foldl_append]
  have ha := drain_acquire s.pendingAcq s rfl
  have hr := drain_release s.pendingRel _ ha.2.1
  rw [e]
  refine ⟨⟨?_, hr.1⟩, ?_, ?_⟩
  · rw [hr.2.1]; exact ha.1
  · rw [hr.2.2.1]; exact ha.2.2.1
  · rw [hr.2.2.2]; exact ha.2.2.2

/-- The code BEFORE the fix violates the property: the last link is removed before the acquire
goroutine runs — a strong reference is held with zero links, at quiescence (defect F18). -/
theorem orig_quiescent_refcount_false :
    ¬ (∀ ops : List Op, quiescent (runOrig ops) →
        (runOrig ops).outstanding =
          if (runOrig ops).released then 0 else if (runOrig ops).valCount > 0 then 1 else 0) := by
  intro h
  have := h [.add, .remove, .acquire] (by decide)
  revert this
  decide

/-- The code BEFORE the fix, second schedule: two links are added before the first acquire
goroutine runs — two strong references, of which one is overwritten and never released. -/
theorem orig_double_acquire :
    (runOrig [.add, .add, .acquire, .acquire]).outstanding = 2 ∧
    (runOrig [.add, .add, .acquire, .acquire, .remove, .remove, .release]).outstanding = 1 ∧
    quiescent (runOrig [.add, .add, .acquire, .acquire, .remove, .remove, .release]) := by
  decide

/-- Non-vacuity: the two schedules above on the fixed code. -/
example : (run [.add, .remove, .acquire]).outstanding = 0 ∧ quiescent (run [.add, .remove, .acquire]) ∧
    (run [.add, .add, .acquire, .acquire]).outstanding = 1 ∧
    (run [.add, .add, .acquire, .acquire, .remove, .remove, .release]).outstanding = 0 := by
  decide

/-! ### The duration of `AddReference` (wave 4)

In `Hold.step` the acquire goroutine's check, `AddReference` and store are ONE step. The theorems
below are about `Hold.Split`, where `AddReference` takes time (`check` … `store`), i.e. about a
handler that does not hold its mutex across `AddReference`. -/
open Bifrost.Wrappers.Hold.Split in
/-- If nothing runs between `check` and `store` (the mutex is held across `AddReference`, as in
the code), the two halves are exactly the `acquire` step of the model the theorems above are
about — for every state. -/
theorem split_atomic_is_acquire (s : State) :
    (sstep (sstep { base := s, inFlight := 0 } .check) .store) =
      { base := step s .acquire, inFlight := 0 } := by
  by_cases hp : s.pendingAcq = 0
  · simp [sstep, step, enabled, hp]
  · by_cases hv : s.valCount = 0
    · simp [sstep, step, enabled, hp, hv]
    · cases hr : s.rigid <;> simp [sstep, step, enabled, hp, hv, hr, takeRef]

open Bifrost.Wrappers.Hold.Split in
/-- With the mutex NOT held across `AddReference` the property is false: two links are added, both
acquire goroutines pass the check before either has stored its reference; the second store
overwrites the first reference, which nobody releases — one strong reference with zero links, at
quiescence. (The engine replays this schedule on the real handler with a directive instance whose
`AddReference` blocks: script add,add,go,go,rm,rm.) -/
theorem split_acquire_refcount_false :
    ¬ (∀ ops : List SOp, squiescent (srun ops) →
        (srun ops).base.outstanding =
          if (srun ops).base.released then 0 else if (srun ops).base.valCount > 0 then 1 else 0) := by
  intro h
  have := h [.op .add, .op .add, .check, .check, .store, .store, .op .remove, .op .remove, .op .release]
    (by decide)
  revert this
  decide

open Bifrost.Wrappers.Hold.Split in
/-- The same schedule, spelled out: two references while both links exist, one left when none does. -/
theorem split_acquire_double :
    (srun [.op .add, .op .add, .check, .check, .store, .store]).base.outstanding = 2 ∧
    (srun [.op .add, .op .add, .check, .check, .store, .store, .op .remove, .op .remove, .op .release]).base.outstanding = 1 ∧
    (srun [.op .add, .op .add, .check, .check, .store, .store, .op .remove, .op .remove, .op .release]).base.valCount = 0 ∧
    squiescent (srun [.op .add, .op .add, .check, .check, .store, .store, .op .remove, .op .remove, .op .release]) := by
  decide

open Bifrost.Wrappers.Hold.Split in
/-- Non-vacuity: the same links with each acquisition finishing before the next check. -/
example : (srun [.op .add, .op .add, .check, .store, .check, .store, .op .remove, .op .remove, .op .release]).base.outstanding = 0 ∧
    squiescent (srun [.op .add, .op .add, .check, .store, .check, .store, .op .remove, .op .remove, .op .release]) := by
  decide

end Bifrost.Props.C33
