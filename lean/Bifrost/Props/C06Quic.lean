import Bifrost.Model.QuicTable
import Bifrost.Lemmas.QuicTable
import Bifrost.Lemmas.QuicTableProgress
/-!
C06 through the QUIC transport — the address table `Transport.links` (address → current link)
composed with the controller's link tables.

Model: `Bifrost.QuicTable`, the code as fixed by "fix: quic transport never reported the loss of a
link usurped by another peer at the same address". Every theorem quantifies over ALL step
sequences `ops` (= every order in which the Go scheduler can run the critical sections and the
asynchronous goroutine bodies `go HandleLinkEstablished`, `go x.Close()`, `go handleLinkLost`),
any number of sessions, addresses and peers, and EVERY uuid function `U` (no injectivity assumed).
-/
namespace Bifrost.Props.C06Quic
open Bifrost Bifrost.QuicTable
open Bifrost.Links (Link)

/-- The link is the address table's entry for some address. -/
def InTable (s : State) (l : Link) : Prop := ∃ a, (a, l) ∈ s.table

/-- The property at a state: the controller reports `l` iff `l` is the current link of its
address and has not been closed. -/
def Consistent (s : State) : Prop :=
  ∀ l, l ∈ s.ctrl.links ↔ (InTable s l ∧ l.id ∉ s.closedCb)

/-! ### (a) the address table -/

/-- Every entry of the address table was created by a session at that address and is the LATEST
link created there; there is at most one entry per address. -/
theorem table_invariant (U : Nat → Nat → Nat) (ops : List Op) :
    (∀ e ∈ (run U ops).table,
      e ∈ sessions U ops ∧ (sessions U ops).find? (fun c => c.1 = e.1) = some e) ∧
    (∀ e ∈ (run U ops).table, ∀ e' ∈ (run U ops).table, e.1 = e'.1 → e = e') := by
  have hI := qinv_run U ops
  refine ⟨?_, ?_⟩
  · intro e he
    rw [← created_eq_sessions]
    exact ⟨table_sub_created hI e he, hI.tbl_latest e he⟩
  · intro e he e' he' hk
    exact table_key_unique hI he he' hk

/-- Link objects are the sessions of the history: distinct ids, in creation order; a link's
uuid is `U address peer` (so a replacement by the same peer at the same address has the same
uuid, whatever `U` is). -/
theorem link_ids_unique (U : Nat → Nat → Nat) (ops : List Op) :
    (run U ops).created = sessions U ops ∧
    ((sessions U ops).map (fun e => e.2.id)).Nodup ∧
    (∀ e ∈ sessions U ops, e.2.id < (sessions U ops).length) ∧
    (∀ e ∈ sessions U ops, e.2.uuid = U e.1 e.2.remote) := by
  have hI := qinv_run U ops
  refine ⟨created_eq_sessions U ops, ?_, ?_, sessions_uuid U ops⟩
  · rw [← created_eq_sessions]; exact hI.cr_nd
  · rw [← created_eq_sessions]; exact hI.cr_lt

example : (run (fun a p => a * 1000 + p) [.start 1, .session 5 2, .session 5 3]).table
    = [(5, ⟨1, 5003, 3⟩)] := by decide

/-! ### (b) consistency at quiescence -/

/-- FALSE at full strength (known finding F25, now reached through the real transport): when the
establishment of a usurped link is processed by the controller after its loss, the dead link is
entered in the controller tables, and it replaces (flushes and closes) the live link with the
same uuid. History: two sessions of peer 2 at address 5; the first link is usurped, closed and
its loss processed; then the establishments run in the order new, old. -/
theorem consistent_at_quiescence_false :
    ¬ (∀ (U : Nat → Nat → Nat) (ops : List Op), quiescent (run U ops) = true → Consistent (run U ops)) := by
  intro hall
  have h := hall (fun a p => a * 1000 + p)
    [.start 1, .session 5 2, .session 5 2, .runClose 0, .runLost 5 ⟨0, 5002, 2⟩,
      .runCtrlLost ⟨0, 5002, 2⟩, .runEst ⟨1, 5002, 2⟩, .runEst ⟨0, 5002, 2⟩, .runClose 1,
      .runLost 5 ⟨1, 5002, 2⟩, .runCtrlLost ⟨1, 5002, 2⟩] (by decide) ⟨0, 5002, 2⟩
  have h2 := (h.1 (by decide)).2
  revert h2
  decide

/-- The excluded schedule, named on the history: the controller's `HandleLinkEstablished`
section for link object `i` ran (as an enabled transition) after the controller's
`HandleLinkLost` section for the same link object had run. -/
theorem est_after_lost_iff (U : Nat → Nat → Nat) (ops : List Op) (i : Nat) :
    i ∈ (run U ops).late ↔
      ∃ pre l post, ops = pre ++ .runEst l :: post ∧ l.id = i ∧ l ∈ (run U pre).pendEst ∧
        ∃ pre' l' post', pre = pre' ++ .runCtrlLost l' :: post' ∧ l'.id = i ∧
          l' ∈ (run U pre').pendCtrlLost := by
  rw [late_iff]
  constructor
  · rintro ⟨pre, l, post, h1, h2, h3, h4⟩
    exact ⟨pre, l, post, h1, h2, h3, (lostSeen_iff U pre i).1 h4⟩
  · rintro ⟨pre, l, post, h1, h2, h3, h4⟩
    exact ⟨pre, l, post, h1, h2, h3, (lostSeen_iff U pre i).2 h4⟩

/-- PARTIAL (the strongest true version): at every quiescent state reached by ANY schedule, for
every link object whose establishment was not processed after its own loss, the controller
reports it iff it is the current entry of its address and not closed. The schedules of OTHER
links are unrestricted. -/
theorem consistent_at_quiescence_partial (U : Nat → Nat → Nat) (ops : List Op)
    (hq : quiescent (run U ops) = true) (l : Link) (hl : l.id ∉ (run U ops).late) :
    l ∈ (run U ops).ctrl.links ↔ (InTable (run U ops) l ∧ l.id ∉ (run U ops).closedCb) := by
  have hI := qinv_run U ops
  obtain ⟨hpe, hpc, hpl, hpcl⟩ := (quiescent_iff _).1 hq
  constructor
  · intro hlk
    obtain ⟨a, ha⟩ := ctrl_links_created hI l hlk
    have hopen : l.id ∉ (run U ops).closedCb := by
      intro hcl
      rcases hI.cb_phase (a, l) ha hcl with h | h | h
      · rw [hpl] at h; cases h
      · rw [hpcl] at h; cases h
      · exact hl (hI.seen_late l hlk h)
    exact ⟨⟨a, hI.cr_tbl (a, l) ha hopen (by rw [hpc]; simp)⟩, hopen⟩
  · rintro ⟨⟨a, ha⟩, hopen⟩
    exact hI.tbl_ctrl (a, l) ha hopen (by rw [hpe]; simp) (by rw [hpc]; simp)

/-- One direction needs no hypothesis at all: at quiescence every open table entry is reported. -/
theorem open_entry_reported (U : Nat → Nat → Nat) (ops : List Op)
    (hq : quiescent (run U ops) = true) (a : Nat) (l : Link)
    (ha : (a, l) ∈ (run U ops).table) (hopen : l.id ∉ (run U ops).closedCb) :
    l ∈ (run U ops).ctrl.links ∧ l ∈ reported (run U ops) l.remote := by
  have hI := qinv_run U ops
  obtain ⟨hpe, hpc, _, _⟩ := (quiescent_iff _).1 hq
  have := hI.tbl_ctrl (a, l) ha hopen (by rw [hpe]; simp) (by rw [hpc]; simp)
  refine ⟨this, ?_⟩
  simp only [reported, Links.getPeerLinks, List.mem_filter, decide_true, and_true]
  exact this

/-- The whole statement for schedules without the F25 pattern, stated on the history only:
if no `HandleLinkEstablished` section runs for a link whose `HandleLinkLost` section has already
run, every quiescent state is consistent, and `GetPeerLinks(p)` is exactly the set of open
current links to `p`; both controller tables hold the same links. -/
theorem consistent_at_quiescence_of_no_est_after_lost (U : Nat → Nat → Nat) (ops : List Op)
    (hq : quiescent (run U ops) = true)
    (hno : ∀ pre l post, ops = pre ++ .runEst l :: post → l ∈ (run U pre).pendEst →
      l.id ∉ (run U pre).lostSeen) :
    Consistent (run U ops) ∧
    (∀ p l, l ∈ reported (run U ops) p ↔
      (l.remote = p ∧ InTable (run U ops) l ∧ l.id ∉ (run U ops).closedCb)) ∧
    (∀ x, x ∈ (run U ops).ctrl.peerLinks ↔ x ∈ (run U ops).ctrl.links) := by
  have hlate : ∀ i, i ∉ (run U ops).late := by
    intro i hi
    obtain ⟨pre, l, post, h1, h2, h3, h4⟩ := (late_iff U ops i).1 hi
    exact hno pre l post h1 h3 (h2 ▸ h4)
  have hc : Consistent (run U ops) :=
    fun l => consistent_at_quiescence_partial U ops hq l (hlate _)
  refine ⟨hc, ?_, ctrl_peer_iff (qinv_run U ops)⟩
  intro p l
  simp only [reported, Links.getPeerLinks, List.mem_filter, decide_eq_true_eq]
  rw [hc l]
  constructor
  · rintro ⟨h1, h2⟩; exact ⟨h2, h1⟩
  · rintro ⟨h1, h2⟩; exact ⟨h2, h1⟩

/-- Non-vacuity: a different peer usurps the address; after the asynchronous bodies have run
the controller reports exactly the usurper. -/
example :
    let s := run (fun a p => a * 1000 + p)
      [.start 1, .session 5 2, .runEst ⟨0, 5002, 2⟩, .session 5 3, .runEst ⟨1, 5003, 3⟩,
        .runClose 0, .runLost 5 ⟨0, 5002, 2⟩, .runCtrlLost ⟨0, 5002, 2⟩, .runClose 0]
    quiescent s = true ∧ s.late = [] ∧ s.ctrl.links = [⟨1, 5003, 3⟩] ∧ s.table = [(5, ⟨1, 5003, 3⟩)] := by
  decide

/-! ### (c) losing an old link never removes a newer link that replaced it -/

/-- `handleLinkLost` of ANY link `l` — in particular of a usurped one, however late it runs —
removes no other link object from the address table and leaves the controller alone; and the
controller's `HandleLinkLost(l)` that follows removes no other link object from either controller
table and leaves the address table alone. -/
theorem lost_keeps_usurper (U : Nat → Nat → Nat) (ops : List Op) (a : Nat) (l : Link) :
    (∀ e ∈ (run U ops).table, e.2 ≠ l → e ∈ (run U (ops ++ [.runLost a l])).table) ∧
    (run U (ops ++ [.runLost a l])).ctrl = (run U ops).ctrl ∧
    (run U (ops ++ [.runCtrlLost l])).table = (run U ops).table ∧
    (∀ x ∈ (run U ops).ctrl.links, x.id ≠ l.id → x ∈ (run U (ops ++ [.runCtrlLost l])).ctrl.links) ∧
    (∀ x ∈ (run U ops).ctrl.peerLinks, x.id ≠ l.id →
      x ∈ (run U (ops ++ [.runCtrlLost l])).ctrl.peerLinks) := by
  have hI := qinv_run U ops
  rw [run_snoc, run_snoc]
  obtain ⟨h1, h2⟩ := runLost_keeps (U := U) hI a l
  refine ⟨h1, h2, ?_⟩
  by_cases hin : l ∈ (run U ops).pendCtrlLost
  · exact runCtrlLost_keeps hI l (hI.pcl_cr l hin)
  · have hst : step U (run U ops) (.runCtrlLost l) = run U ops := by simp [step, stepWith, hin]
    rw [hst]
    exact ⟨rfl, fun x hx _ => hx, fun x hx _ => hx⟩

/-- The usurp history, for every prefix and both orders of the two halves of the late loss: the
usurper `l2` (current entry, reported) survives the loss of the usurped link `l1` in both layers. -/
theorem usurper_survives (U : Nat → Nat → Nat) (ops : List Op) (a b : Nat) (l1 l2 : Link)
    (hne : l1.id ≠ l2.id)
    (htbl : (a, l2) ∈ (run U ops).table) (hctrl : l2 ∈ (run U ops).ctrl.links) :
    (a, l2) ∈ (run U (ops ++ [.runLost b l1, .runCtrlLost l1])).table ∧
    l2 ∈ (run U (ops ++ [.runLost b l1, .runCtrlLost l1])).ctrl.links := by
  have e : ops ++ [.runLost b l1, .runCtrlLost l1] = (ops ++ [.runLost b l1]) ++ [.runCtrlLost l1] := by
    simp
  rw [e]
  obtain ⟨h1, h2, _⟩ := lost_keeps_usurper U ops b l1
  obtain ⟨_, _, h3, h4, _⟩ := lost_keeps_usurper U (ops ++ [.runLost b l1]) b l1
  have hne' : l2 ≠ l1 := fun h => hne (h ▸ rfl)
  refine ⟨?_, ?_⟩
  · rw [h3]; exact h1 (a, l2) htbl hne'
  · exact h4 l2 (h2 ▸ hctrl) (fun h => hne h.symm)

example :
    let s := run (fun a p => a * 1000 + p)
      [.start 1, .session 5 2, .runEst ⟨0, 5002, 2⟩, .close 0, .session 5 2, .runEst ⟨1, 5002, 2⟩,
        .runLost 5 ⟨0, 5002, 2⟩, .runCtrlLost ⟨0, 5002, 2⟩]
    s.table = [(5, ⟨1, 5002, 2⟩)] ∧ s.ctrl.links = [⟨1, 5002, 2⟩] := by
  decide

/-! ### (d) a link removed from the address table is closed and reported lost -/

/-- Every link that was created and is no longer the entry of its address is closed, or its
`Close()` has been started; at quiescence it is closed. -/
theorem removed_is_closed (U : Nat → Nat → Nat) (ops : List Op) :
    (∀ e ∈ sessions U ops, e ∉ (run U ops).table →
      e.2.id ∈ (run U ops).closedCb ∨ e.2.id ∈ (run U ops).pendClose) ∧
    (quiescent (run U ops) = true →
      ∀ e ∈ sessions U ops, e ∉ (run U ops).table → e.2.id ∈ (run U ops).closedCb) := by
  have hI := qinv_run U ops
  rw [← created_eq_sessions]
  have key : ∀ e ∈ (run U ops).created, e ∉ (run U ops).table →
      e.2.id ∈ (run U ops).closedCb ∨ e.2.id ∈ (run U ops).pendClose := by
    intro e he hnt
    by_cases h1 : e.2.id ∈ (run U ops).closedCb
    · exact Or.inl h1
    · by_cases h2 : e.2.id ∈ (run U ops).pendClose
      · exact Or.inr h2
      · exact absurd (hI.cr_tbl e he h1 h2) hnt
  refine ⟨key, ?_⟩
  intro hq e he hnt
  obtain ⟨_, hpc, _, _⟩ := (quiescent_iff _).1 hq
  rcases key e he hnt with h | h
  · exact h
  · rw [hpc] at h; cases h

/-- No reachable quiescent state holds a closed link in the controller tables, except a link
whose establishment was processed after its loss (F25; `est_after_lost_iff` names the schedule). -/
theorem no_dead_link_at_quiescence (U : Nat → Nat → Nat) (ops : List Op)
    (hq : quiescent (run U ops) = true) :
    ∀ l ∈ (run U ops).ctrl.links, l.id ∈ (run U ops).closedCb → l.id ∈ (run U ops).late := by
  intro l hl hcl
  apply Classical.byContradiction
  intro hnl
  exact ((consistent_at_quiescence_partial U ops hq l hnl).1 hl).2 hcl

/-- "Eventually": no reachable state is stuck — from EVERY reachable state, running pending
goroutine bodies only (no environment action: no new session, no Close from outside) reaches a
quiescent state; there the controller holds no closed link except under the F25 schedule, and
every link that left the address table is closed. -/
theorem eventually_no_dead_link (U : Nat → Nat → Nat) (ops : List Op) :
    ∃ tail, (∀ op ∈ tail, IsAsync op) ∧ quiescent (run U (ops ++ tail)) = true ∧
      (∀ l ∈ (run U (ops ++ tail)).ctrl.links,
        l.id ∈ (run U (ops ++ tail)).closedCb → l.id ∈ (run U (ops ++ tail)).late) ∧
      (∀ e ∈ sessions U (ops ++ tail), e ∉ (run U (ops ++ tail)).table →
        e.2.id ∈ (run U (ops ++ tail)).closedCb) := by
  obtain ⟨tail, h1, h2⟩ := reach_quiescent U (run U ops) (qinv_run U ops) (pclClosed_run U ops)
  have hq : quiescent (run U (ops ++ tail)) = true := by rw [run_append]; exact h2
  exact ⟨tail, h1, hq, no_dead_link_at_quiescence U (ops ++ tail) hq,
    (removed_is_closed U (ops ++ tail)).2 hq⟩

/-- The code BEFORE the fix (`handleLinkLost` reported the loss only if the link was still the
current entry): a different peer usurps the address; at quiescence the controller still reports
the usurped link, which is closed and no longer in the address table — with no F25 schedule. -/
theorem unfixed_usurp_leaves_dead_link :
    ∃ (U : Nat → Nat → Nat) (ops : List Op) (l : Link),
      quiescent (runWith U false ops) = true ∧ (runWith U false ops).late = [] ∧
      l ∈ (runWith U false ops).ctrl.links ∧ l.id ∈ (runWith U false ops).closedCb ∧
      ∀ e ∈ (runWith U false ops).table, e.2 ≠ l := by
  refine ⟨fun a p => a * 1000 + p,
    [.start 1, .session 5 2, .runEst ⟨0, 5002, 2⟩, .session 5 3, .runEst ⟨1, 5003, 3⟩,
      .runClose 0, .runLost 5 ⟨0, 5002, 2⟩], ⟨0, 5002, 2⟩, ?_⟩
  decide

/-- Non-vacuity: the same history on the fixed code ends with the usurped link reported lost. -/
example :
    let s := run (fun a p => a * 1000 + p)
      [.start 1, .session 5 2, .runEst ⟨0, 5002, 2⟩, .session 5 3, .runEst ⟨1, 5003, 3⟩,
        .runClose 0, .runLost 5 ⟨0, 5002, 2⟩, .runCtrlLost ⟨0, 5002, 2⟩, .runClose 0]
    quiescent s = true ∧ (⟨0, 5002, 2⟩ : Link) ∉ s.ctrl.links ∧ 0 ∈ s.closedCb := by
  decide

end Bifrost.Props.C06Quic
