import Bifrost.Lemmas.EnvelopeField
import Bifrost.Lemmas.EnvelopeToy
/-!
C16 — Envelopes open exactly when enough distinct shares are reachable. Property theorems only.

`build` / `unlock` model `BuildEnvelope` / `UnlockEnvelope` (as fixed). The grant encryption, the
KDF and the payload AEAD are parameters with laws (`PrimsLaw`); the scalars are an arbitrary
field `K` with a lawful byte codec in which the share IDs `1..n` are distinct (`FieldSetting`).
What a key set can reach is `canOpen` / `reachCount` / `reachIdx` (Model/Envelope.lean).
-/
namespace Bifrost.Props.C16
open Bifrost Bifrost.Envelope Polynomial

/-- Shamir, any field: a polynomial of degree ≤ t is recovered (at 0, and everywhere) by
Lagrange interpolation through any t+1 shares with distinct IDs. -/
theorem shamir_recover {K : Type} [Field K] [DecidableEq K] (p : K[X]) (t : ℕ) (hp : p.natDegree ≤ t)
    (ids : Finset K) (hc : ids.card = t + 1) :
    (Lagrange.interpolate ids id (fun i => p.eval i)).eval 0 = p.eval 0 :=
  Envelope.shamir_recover p t hp ids hc 0

/-- The model's `secretsharing.Recover` (first t+1 shares, Lagrange at 0, panic on duplicate IDs)
returns the secret from any t+1 or more shares of the sharing polynomial with distinct IDs. -/
theorem recover_shares {K : Type} [Field K] [DecidableEq K] (dec : Bytes → Option K) (enc : K → Bytes)
    (secret : K) (coeff : Nat → K) (t n : ℕ) (l : List (K × K))
    (hmem : ∀ s ∈ l, s ∈ splitShares (fieldScalars K dec enc) (polyOf secret coeff t) n)
    (hnd : (l.map (·.1)).Nodup) (hlen : t < l.length) :
    recover (fieldScalars K dec enc) t l = .ok secret :=
  hrec_of dec enc secret coeff t n l hmem hnd hlen

section
variable {K : Type} [Field K] [DecidableEq K] (dec : Bytes → Option K) (enc : K → Bytes)
variable (P : Prims)
variable (secret : K) (coeff : Nat → K) (nonce ctx payload : Bytes) (keypairs : List Bytes)
variable (cfg : Config) (env : Envelope)

/-- **Exact outcome.** For every configuration sealing accepts and ANY list of offered private
keys: unsealing returns the payload with `success` iff the grants those keys can decrypt hold at
least threshold+1 (distinct) shares, and otherwise reports "locked"; in both cases shares
available, shares needed and the unlocked grant indexes are exactly what the keys can reach. -/
theorem unlock_exact (hP : PrimsLaw P) (hS : FieldSetting dec enc (buildTotal keypairs.length cfg))
    (hb : build P (fieldScalars K dec enc) secret coeff nonce ctx payload keypairs cfg = .ok env)
    (hn : nonce.length = 24) (hw : cfg.totalShares < 2 ^ 32 ∧ cfg.grants.length ≤ 2 ^ 32) (sks : List Bytes) :
    unlock P (fieldScalars K dec enc) ctx env sks =
      if cfg.threshold + 1 ≤ reachCount (canOpen P keypairs sks) cfg.grants (buildTotal keypairs.length cfg)
      then .opened payload
        { success := true
          sharesAvailable := reachCount (canOpen P keypairs sks) cfg.grants (buildTotal keypairs.length cfg)
          sharesNeeded := cfg.threshold + 1
          unlockedGrantIndexes := reachIdx (canOpen P keypairs sks) 0 cfg.grants }
      else .locked
        { success := false
          sharesAvailable := reachCount (canOpen P keypairs sks) cfg.grants (buildTotal keypairs.length cfg)
          sharesNeeded := cfg.threshold + 1
          unlockedGrantIndexes := reachIdx (canOpen P keypairs sks) 0 cfg.grants } :=
  unlock_build_field dec enc P hP secret coeff nonce ctx payload keypairs cfg env hS hb hn hw sks

/-- Unsealing succeeds exactly when enough shares are reachable. -/
theorem unlock_iff (hP : PrimsLaw P) (hS : FieldSetting dec enc (buildTotal keypairs.length cfg))
    (hb : build P (fieldScalars K dec enc) secret coeff nonce ctx payload keypairs cfg = .ok env)
    (hn : nonce.length = 24) (hw : cfg.totalShares < 2 ^ 32 ∧ cfg.grants.length ≤ 2 ^ 32) (sks : List Bytes) :
    (∃ p r, unlock P (fieldScalars K dec enc) ctx env sks = .opened p r) ↔
      cfg.threshold + 1 ≤ reachCount (canOpen P keypairs sks) cfg.grants (buildTotal keypairs.length cfg) := by
  rw [unlock_exact dec enc P secret coeff nonce ctx payload keypairs cfg env hP hS hb hn hw sks]
  constructor
  · rintro ⟨p, r, h⟩
    split at h
    · assumption
    · cases h
  · intro h
    rw [if_pos h]
    exact ⟨_, _, rfl⟩

/-- … and then it returns exactly the sealed payload. -/
theorem unlock_payload (hP : PrimsLaw P) (hS : FieldSetting dec enc (buildTotal keypairs.length cfg))
    (hb : build P (fieldScalars K dec enc) secret coeff nonce ctx payload keypairs cfg = .ok env)
    (hn : nonce.length = 24) (hw : cfg.totalShares < 2 ^ 32 ∧ cfg.grants.length ≤ 2 ^ 32) (sks : List Bytes)
    (p : Bytes) (r : UnlockResult) (h : unlock P (fieldScalars K dec enc) ctx env sks = .opened p r) :
    p = payload := by
  rw [unlock_exact dec enc P secret coeff nonce ctx payload keypairs cfg env hP hS hb hn hw sks] at h
  split at h
  · simp only [UnlockOutcome.opened.injEq] at h
    exact h.1.symm
  · cases h

/-- Offering keys never produces an error or a panic on a sealed envelope. -/
theorem unlock_total (hP : PrimsLaw P) (hS : FieldSetting dec enc (buildTotal keypairs.length cfg))
    (hb : build P (fieldScalars K dec enc) secret coeff nonce ctx payload keypairs cfg = .ok env)
    (hn : nonce.length = 24) (hw : cfg.totalShares < 2 ^ 32 ∧ cfg.grants.length ≤ 2 ^ 32) (sks : List Bytes) :
    (∃ r, unlock P (fieldScalars K dec enc) ctx env sks = .opened payload r) ∨
      (∃ r, unlock P (fieldScalars K dec enc) ctx env sks = .locked r) := by
  rw [unlock_exact dec enc P secret coeff nonce ctx payload keypairs cfg env hP hS hb hn hw sks]
  split
  · exact Or.inl ⟨_, rfl⟩
  · exact Or.inr ⟨_, rfl⟩

end

/-- More keys never reach fewer shares. -/
theorem reach_monotone (P : Prims) (keypairs sks sks' : List Bytes) (cfg : Config) (n : ℕ)
    (hsub : ∀ sk ∈ sks, sk ∈ sks') :
    reachCount (canOpen P keypairs sks) cfg.grants n ≤ reachCount (canOpen P keypairs sks') cfg.grants n := by
  apply reachCount_mono
  intro gc _ h
  unfold canOpen at h ⊢
  rw [List.any_eq_true] at h ⊢
  obtain ⟨k, hk, hk2⟩ := h
  refine ⟨k, hk, ?_⟩
  split at hk2
  · cases hk2
  · rw [List.any_eq_true] at hk2 ⊢
    obtain ⟨sk, hsk, hpub⟩ := hk2
    exact ⟨sk, hsub sk hsk, hpub⟩

/-! ### key objects that only REPORT a recipient's public key

`crypto.UnmarshalEd25519PrivateKey` accepts a 64-byte key whose second half is any public key, so
an offered key object can claim a recipient's keypair without being able to decrypt anything
sealed to it (`Prims.genuine sk = false`; law `PrimsLaw.shadow_fails`). "The grants those keys can
decrypt" (`canOpen`) counts genuine keys only, and `unlock_exact` above holds for offers that mix
genuine keys, unrelated keys and such shadow keys in any order: `UnlockEnvelope` (as fixed) tries
every offered key that reports a keypair's PEM. Before the fix the first such key took the slot. -/

/-- what the offered keys can reach does not depend on the shadow keys among them -/
theorem canOpen_filter_genuine (P : Prims) (keypairs sks : List Bytes) :
    canOpen P keypairs (sks.filter P.genuine) = canOpen P keypairs sks := by
  funext idxs
  unfold canOpen
  congr 1
  funext k
  split
  · rfl
  · rw [List.any_filter]
    congr 1
    funext sk
    cases P.genuine sk <;> simp

section
variable {K : Type} [Field K] [DecidableEq K] (dec : Bytes → Option K) (enc : K → Bytes)
variable (P : Prims)
variable (secret : K) (coeff : Nat → K) (nonce ctx payload : Bytes) (keypairs : List Bytes)
variable (cfg : Config) (env : Envelope)

/-- **Shadow keys are ignored**: unsealing with any list of offered keys gives exactly the outcome
of unsealing with the genuine keys among them — wherever the shadow keys stand in the list. -/
theorem shadow_keys_ignored (hP : PrimsLaw P) (hS : FieldSetting dec enc (buildTotal keypairs.length cfg))
    (hb : build P (fieldScalars K dec enc) secret coeff nonce ctx payload keypairs cfg = .ok env)
    (hn : nonce.length = 24) (hw : cfg.totalShares < 2 ^ 32 ∧ cfg.grants.length ≤ 2 ^ 32) (sks : List Bytes) :
    unlock P (fieldScalars K dec enc) ctx env sks =
      unlock P (fieldScalars K dec enc) ctx env (sks.filter P.genuine) := by
  rw [unlock_exact dec enc P secret coeff nonce ctx payload keypairs cfg env hP hS hb hn hw sks,
    unlock_exact dec enc P secret coeff nonce ctx payload keypairs cfg env hP hS hb hn hw (sks.filter P.genuine),
    canOpen_filter_genuine]

end

/-- the 2-of-3 configuration of the examples: key 1 alone reaches two shares -/
def exCfg : Config := { threshold := 1, grants := [⟨1, [0]⟩, ⟨2, [1]⟩] }

/-- sealed with the toy primitives that have shadow keys, recipients `[10, 0]` and `[11, 0]` -/
def shadowBuild : Outcome Envelope :=
  build shadowPrims z251 5 (fun i => (i : ZMod 251) + 3) (List.replicate 24 9) [1] [2, 3] [[10, 0], [11, 0]] exCfg

/-- the offer of the witness: a shadow of recipient 1 (`[11, 0, 9]` reports the public key
`[11, 0]`), then the genuine key of recipient 1 -/
def shadowOffer : List Bytes := [[11, 0, 9], [11, 0]]

/-- the pre-fix matching on the witness: slot 1 is bound to the shadow key, nothing is reached -/
def firstMatchLocked : Bool :=
  match shadowBuild with
  | .ok env => decide (unlockFirstMatch shadowPrims z251 [1] env shadowOffer =
      .locked { success := false, sharesAvailable := 0, sharesNeeded := 2, unlockedGrantIndexes := [] })
  | _ => false

set_option maxRecDepth 100000 in
theorem firstMatchLocked_true : firstMatchLocked = true := by decide

/-- **Refuted for the code before the fix** (first key reporting a keypair's PEM takes the slot):
"unsealing succeeds exactly when the offered keys reach threshold+1 shares" fails for the offer
`shadowOffer` — the genuine key of recipient 1 is offered and reaches 2 = threshold+1 shares, yet
the envelope stays locked. The engine replays this offer shape on the real code every run. -/
theorem first_match_exact_false :
    ¬ ∀ (env : Envelope) (sks : List Bytes), shadowBuild = .ok env →
      ((∃ p r, unlockFirstMatch shadowPrims z251 [1] env sks = .opened p r) ↔
        exCfg.threshold + 1 ≤ reachCount (canOpen shadowPrims [[10, 0], [11, 0]] sks) exCfg.grants (buildTotal 2 exCfg)) := by
  intro h
  have hl := firstMatchLocked_true
  unfold firstMatchLocked at hl
  cases hb : shadowBuild with
  | err e => rw [hb] at hl; cases hl
  | panic => rw [hb] at hl; cases hl
  | ok env =>
    rw [hb] at hl
    simp only [decide_eq_true_eq] at hl
    obtain ⟨p, r, ho⟩ := (h env shadowOffer hb).mpr (by decide)
    rw [hl] at ho
    cases ho

/-! Non-vacuity: the hypotheses are satisfiable (toy primitives, ℤ/251) and the theorem fires:
a 2-of-3 configuration, opened by key 1 alone (2 shares) but not by key 0 alone (1 share). -/

example : ∃ env,
    build toyPrims z251 5 (fun i => (i : ZMod 251) + 3) (List.replicate 24 9) [1] [2, 3] [[10], [11]] exCfg = .ok env ∧
    (∃ r, unlock toyPrims z251 [1] env [[11]] = .opened [2, 3] r) ∧
    (∃ r, unlock toyPrims z251 [1] env [[10]] = .locked r) := by
  have exSetting : FieldSetting z251Decode z251Encode (buildTotal 2 exCfg) :=
    { codec := z251_law
      ids := by
        intro i j hi hj h
        have e : buildTotal 2 exCfg = 3 := by decide
        rw [e] at hi hj
        have := (ZMod.natCast_eq_natCast_iff' i j 251).mp h
        omega }
  have hok : (build toyPrims z251 5 (fun i => (i : ZMod 251) + 3) (List.replicate 24 9) [1] [2, 3] [[10], [11]] exCfg).isOk = true := by
    decide
  cases hb : build toyPrims z251 5 (fun i => (i : ZMod 251) + 3) (List.replicate 24 9) [1] [2, 3] [[10], [11]] exCfg with
  | err e => rw [hb] at hok; cases hok
  | panic => rw [hb] at hok; cases hok
  | ok env =>
    refine ⟨env, rfl, ?_, ?_⟩
    · rw [show z251 = fieldScalars (ZMod 251) z251Decode z251Encode from rfl] at hb ⊢
      rw [unlock_exact z251Decode z251Encode toyPrims 5 _ _ [1] [2, 3] [[10], [11]] exCfg env toyPrims_law exSetting hb
        (by decide) (by decide) [[11]]]
      rw [if_pos (by decide)]
      exact ⟨_, rfl⟩
    · rw [show z251 = fieldScalars (ZMod 251) z251Decode z251Encode from rfl] at hb ⊢
      rw [unlock_exact z251Decode z251Encode toyPrims 5 _ _ [1] [2, 3] [[10], [11]] exCfg env toyPrims_law exSetting hb
        (by decide) (by decide) [[10]]]
      rw [if_neg (by decide)]
      exact ⟨_, rfl⟩

/-! Non-vacuity of the shadow-key clause: the laws hold for primitives that HAVE shadow keys
(`shadowPrims_law`), and on the witness of `first_match_exact_false` the code as fixed opens the
envelope (shadow first, genuine key second), while the shadow key alone reaches nothing. -/

example : ∃ env, shadowBuild = .ok env ∧
    (∃ r, unlock shadowPrims z251 [1] env shadowOffer = .opened [2, 3] r) ∧
    (∃ r, unlock shadowPrims z251 [1] env [[11, 0, 9]] = .locked r) ∧
    unlock shadowPrims z251 [1] env shadowOffer = unlock shadowPrims z251 [1] env [[11, 0]] := by
  have exSetting : FieldSetting z251Decode z251Encode (buildTotal 2 exCfg) :=
    { codec := z251_law
      ids := by
        intro i j hi hj h
        have e : buildTotal 2 exCfg = 3 := by decide
        rw [e] at hi hj
        have := (ZMod.natCast_eq_natCast_iff' i j 251).mp h
        omega }
  have hok : shadowBuild.isOk = true := by decide
  cases hb : shadowBuild with
  | err e => rw [hb] at hok; cases hok
  | panic => rw [hb] at hok; cases hok
  | ok env =>
    have hb' : build shadowPrims (fieldScalars (ZMod 251) z251Decode z251Encode) 5 (fun i => (i : ZMod 251) + 3)
        (List.replicate 24 9) [1] [2, 3] [[10, 0], [11, 0]] exCfg = .ok env := hb
    refine ⟨env, rfl, ?_, ?_, ?_⟩
    · rw [show z251 = fieldScalars (ZMod 251) z251Decode z251Encode from rfl]
      rw [unlock_exact z251Decode z251Encode shadowPrims 5 _ _ [1] [2, 3] [[10, 0], [11, 0]] exCfg env shadowPrims_law exSetting hb'
        (by decide) (by decide) shadowOffer]
      rw [if_pos (by decide)]
      exact ⟨_, rfl⟩
    · rw [show z251 = fieldScalars (ZMod 251) z251Decode z251Encode from rfl]
      rw [unlock_exact z251Decode z251Encode shadowPrims 5 _ _ [1] [2, 3] [[10, 0], [11, 0]] exCfg env shadowPrims_law exSetting hb'
        (by decide) (by decide) [[11, 0, 9]]]
      rw [if_neg (by decide)]
      exact ⟨_, rfl⟩
    · rw [show z251 = fieldScalars (ZMod 251) z251Decode z251Encode from rfl]
      exact shadow_keys_ignored z251Decode z251Encode shadowPrims 5 _ _ [1] [2, 3] [[10, 0], [11, 0]] exCfg env
        shadowPrims_law exSetting hb' (by decide) (by decide) shadowOffer

end Bifrost.Props.C16
