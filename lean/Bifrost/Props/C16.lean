import Bifrost.Lemmas.EnvelopeField
import Bifrost.Lemmas.EnvelopeToy
/-!
C16 — Envelopes open exactly when enough distinct shares are reachable. Property theorems only.

`build` / `unlock` model `BuildEnvelope` / `UnlockEnvelope` (as fixed). The grant encryption, the
KDF and the payload AEAD are parameters with laws (`PrimsLaw`); the scalars are an arbitrary
field `K` with a lawful byte codec in which the share IDs `1..n` are distinct (`FieldSetting`).
What a key set can reach is `canOpen` / `reachCount` / `reachIdx` (Model/Envelope.lean).
-/
namespace Bifrost.Props.C16
open Bifrost Bifrost.Envelope Polynomial

/-- Shamir, any field: a polynomial of degree ≤ t is recovered (at 0, and everywhere) by
Lagrange interpolation through any t+1 shares with distinct IDs. -/
theorem shamir_recover {K : Type} [Field K] [DecidableEq K] (p : K[X]) (t : ℕ) (hp : p.natDegree ≤ t)
    (ids : Finset K) (hc : ids.card = t + 1) :
    (Lagrange.interpolate ids id (fun i => p.eval i)).eval 0 = p.eval 0 :=
  Envelope.shamir_recover p t hp ids hc 0

/-- The model's `secretsharing.Recover` (first t+1 shares, Lagrange at 0, panic on duplicate IDs)
returns the secret from any t+1 or more shares of the sharing polynomial with distinct IDs. -/
theorem recover_shares {K : Type} [Field K] [DecidableEq K] (dec : Bytes → Option K) (enc : K → Bytes)
    (secret : K) (coeff : Nat → K) (t n : ℕ) (l : List (K × K))
    (hmem : ∀ s ∈ l, s ∈ splitShares (fieldScalars K dec enc) (polyOf secret coeff t) n)
    (hnd : (l.map (·.1)).Nodup) (hlen : t < l.length) :
    recover (fieldScalars K dec enc) t l = .ok secret :=
  hrec_of dec enc secret coeff t n l hmem hnd hlen

section
variable {K : Type} [Field K] [DecidableEq K] (dec : Bytes → Option K) (enc : K → Bytes)
variable (P : Prims)
variable (secret : K) (coeff : Nat → K) (nonce ctx payload : Bytes) (keypairs : List Bytes)
variable (cfg : Config) (env : Envelope)

/-- **Exact outcome.** For every configuration sealing accepts and ANY list of offered private
keys: unsealing returns the payload with `success` iff the grants those keys can decrypt hold at
least threshold+1 (distinct) shares, and otherwise reports "locked"; in both cases shares
available, shares needed and the unlocked grant indexes are exactly what the keys can reach. -/
theorem unlock_exact (hP : PrimsLaw P) (hS : FieldSetting dec enc (buildTotal keypairs.length cfg))
    (hb : build P (fieldScalars K dec enc) secret coeff nonce ctx payload keypairs cfg = .ok env)
    (hn : nonce.length = 24) (hw : cfg.totalShares < 2 ^ 32 ∧ cfg.grants.length ≤ 2 ^ 32) (sks : List Bytes) :
    unlock P (fieldScalars K dec enc) ctx env sks =
      if cfg.threshold + 1 ≤ reachCount (canOpen P keypairs sks) cfg.grants (buildTotal keypairs.length cfg)
      then .opened payload
        { success := true
          sharesAvailable := reachCount (canOpen P keypairs sks) cfg.grants (buildTotal keypairs.length cfg)
          sharesNeeded := cfg.threshold + 1
          unlockedGrantIndexes := reachIdx (canOpen P keypairs sks) 0 cfg.grants }
      else .locked
        { success := false
          sharesAvailable := reachCount (canOpen P keypairs sks) cfg.grants (buildTotal keypairs.length cfg)
          sharesNeeded := cfg.threshold + 1
          unlockedGrantIndexes := reachIdx (canOpen P keypairs sks) 0 cfg.grants } :=
  unlock_build_field dec enc P hP secret coeff nonce ctx payload keypairs cfg env hS hb hn hw sks

/-- Unsealing succeeds exactly when enough shares are reachable. -/
theorem unlock_iff (hP : PrimsLaw P) (hS : FieldSetting dec enc (buildTotal keypairs.length cfg))
    (hb : build P (fieldScalars K dec enc) secret coeff nonce ctx payload keypairs cfg = .ok env)
    (hn : nonce.length = 24) (hw : cfg.totalShares < 2 ^ 32 ∧ cfg.grants.length ≤ 2 ^ 32) (sks : List Bytes) :
    (∃ p r, unlock P (fieldScalars K dec enc) ctx env sks = .opened p r) ↔
      cfg.threshold + 1 ≤ reachCount (canOpen P keypairs sks) cfg.grants (buildTotal keypairs.length cfg) := by
  rw [unlock_exact dec enc P secret coeff nonce ctx payload keypairs cfg env hP hS hb hn hw sks]
  constructor
  · rintro ⟨p, r, h⟩
    split at h
    · assumption
    · cases h
  · intro h
    rw [if_pos h]
    exact ⟨_, _, rfl⟩

/-- … and then it returns exactly the sealed payload. -/
theorem unlock_payload (hP : PrimsLaw P) (hS : FieldSetting dec enc (buildTotal keypairs.length cfg))
    (hb : build P (fieldScalars K dec enc) secret coeff nonce ctx payload keypairs cfg = .ok env)
    (hn : nonce.length = 24) (hw : cfg.totalShares < 2 ^ 32 ∧ cfg.grants.length ≤ 2 ^ 32) (sks : List Bytes)
    (p : Bytes) (r : UnlockResult) (h : unlock P (fieldScalars K dec enc) ctx env sks = .opened p r) :
    p = payload := by
  rw [unlock_exact dec enc P secret coeff nonce ctx payload keypairs cfg env hP hS hb hn hw sks] at h
  split at h
  · simp only [UnlockOutcome.opened.injEq] at h
    exact h.1.symm
  · cases h

/-- Offering keys never produces an error or a panic on a sealed envelope. -/
theorem unlock_total (hP : PrimsLaw P) (hS : FieldSetting dec enc (buildTotal keypairs.length cfg))
    (hb : build P (fieldScalars K dec enc) secret coeff nonce ctx payload keypairs cfg = .ok env)
    (hn : nonce.length = 24) (hw : cfg.totalShares < 2 ^ 32 ∧ cfg.grants.length ≤ 2 ^ 32) (sks : List Bytes) :
    (∃ r, unlock P (fieldScalars K dec enc) ctx env sks = .opened payload r) ∨
      (∃ r, unlock P (fieldScalars K dec enc) ctx env sks = .locked r) := by
  rw [unlock_exact dec enc P secret coeff nonce ctx payload keypairs cfg env hP hS hb hn hw sks]
  split
  · exact Or.inl ⟨_, rfl⟩
  · exact Or.inr ⟨_, rfl⟩

end

/-- More keys never reach fewer shares. -/
theorem reach_monotone (P : Prims) (keypairs sks sks' : List Bytes) (cfg : Config) (n : ℕ)
    (hsub : ∀ sk ∈ sks, sk ∈ sks') :
    reachCount (canOpen P keypairs sks) cfg.grants n ≤ reachCount (canOpen P keypairs sks') cfg.grants n := by
  apply reachCount_mono
  intro gc _ h
  unfold canOpen at h ⊢
  rw [List.any_eq_true] at h ⊢
  obtain ⟨k, hk, hk2⟩ := h
  refine ⟨k, hk, ?_⟩
  split at hk2
  · cases hk2
  · rw [List.any_eq_true] at hk2 ⊢
    obtain ⟨sk, hsk, hpub⟩ := hk2
    exact ⟨sk, hsub sk hsk, hpub⟩

/-! Non-vacuity: the hypotheses are satisfiable (toy primitives, ℤ/251) and the theorem fires:
a 2-of-3 configuration, opened by key 1 alone (2 shares) but not by key 0 alone (1 share). -/

def exCfg : Config := { threshold := 1, grants := [⟨1, [0]⟩, ⟨2, [1]⟩] }

example : ∃ env,
    build toyPrims z251 5 (fun i => (i : ZMod 251) + 3) (List.replicate 24 9) [1] [2, 3] [[10], [11]] exCfg = .ok env ∧
    (∃ r, unlock toyPrims z251 [1] env [[11]] = .opened [2, 3] r) ∧
    (∃ r, unlock toyPrims z251 [1] env [[10]] = .locked r) := by
  have exSetting : FieldSetting z251Decode z251Encode (buildTotal 2 exCfg) :=
    { codec := z251_law
      ids := by
        intro i j hi hj h
        have e : buildTotal 2 exCfg = 3 := by decide
        rw [e] at hi hj
        have := (ZMod.natCast_eq_natCast_iff' i j 251).mp h
        omega }
  have hok : (build toyPrims z251 5 (fun i => (i : ZMod 251) + 3) (List.replicate 24 9) [1] [2, 3] [[10], [11]] exCfg).isOk = true := by
    decide
  cases hb : build toyPrims z251 5 (fun i => (i : ZMod 251) + 3) (List.replicate 24 9) [1] [2, 3] [[10], [11]] exCfg with
  | err e => rw [hb] at hok; cases hok
  | panic => rw [hb] at hok; cases hok
  | ok env =>
    refine ⟨env, rfl, ?_, ?_⟩
    · rw [show z251 = fieldScalars (ZMod 251) z251Decode z251Encode from rfl] at hb ⊢
      rw [unlock_exact z251Decode z251Encode toyPrims 5 _ _ [1] [2, 3] [[10], [11]] exCfg env toyPrims_law exSetting hb
        (by decide) (by decide) [[11]]]
      rw [if_pos (by decide)]
      exact ⟨_, rfl⟩
    · rw [show z251 = fieldScalars (ZMod 251) z251Decode z251Encode from rfl] at hb ⊢
      rw [unlock_exact z251Decode z251Encode toyPrims 5 _ _ [1] [2, 3] [[10], [11]] exCfg env toyPrims_law exSetting hb
        (by decide) (by decide) [[10]]]
      rw [if_neg (by decide)]
      exact ⟨_, rfl⟩

end Bifrost.Props.C16
