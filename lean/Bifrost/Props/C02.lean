import Bifrost.Model.Sign
import Bifrost.Model.Crypto
import Bifrost.Lemmas.Sign
/-!
C02 — Signatures bind key, context, hash type and data. Property theorems only.
-/
namespace Bifrost.Props.C02
open Bifrost Bifrost.Codec Bifrost.Sign Bifrost.Crypto

/-- The signed body determines context, hash type and digest — for ARBITRARY contexts (which
may themselves contain the separator) and digests of the length their hash type prescribes. -/
theorem signBody_injective (c c' : Bytes) (t t' : Int) (h h' : Bytes)
    (ht : hashTypeSupported t = true) (ht' : hashTypeSupported t' = true)
    (hl : h.length = hashLen t) (hl' : h'.length = hashLen t')
    (e : signBody c t h = signBody c' t' h') : c = c' ∧ t = t' ∧ h = h' := by
  exact signBody_inj c c' t t' h h' ht ht' hl hl' e

/-- A detached signature verifies under a public key exactly when it was created by a
matching private key over the same context, hash algorithm and (digest of the) data. -/
theorem verify_iff_created (S : SigScheme) (H : HashFam) (s : Signature) (ctx pk data : Bytes) :
    verifyWithPublic S.verify H.sum s ctx pk data = .good ↔
      hashTypeSupported s.hashType = true ∧
      ∃ h sk, H.sum s.hashType data = some h ∧ S.pub sk = pk ∧
        s.sigData = S.sign sk (signBody ctx s.hashType h) := by
  unfold verifyWithPublic
  constructor
  · intro hv
    split at hv
    · cases hv
    split at hv
    · cases hv
    split at hv
    · cases hv
    split at hv
    · cases hv
    · rename_i h hsum
      split at hv
      · rename_i hver
        obtain ⟨sk, hpk, hsig⟩ := S.unforge _ _ _ hver
        refine ⟨?_, h, sk, hsum, hpk, hsig⟩
        have := H.supported s.hashType data
        rw [hsum] at this
        simpa using this.symm
      · cases hv
  · rintro ⟨hsup, h, sk, hsum, hpk, hsig⟩
    have hne : s.sigData.isEmpty = false := by
      rw [hsig]
      have := S.sig_nonempty sk (signBody ctx s.hashType h)
      cases hx : S.sign sk (signBody ctx s.hashType h) with
      | nil => exact absurd hx this
      | cons a l => rfl
    rw [if_neg (hashTypeSupported_ne_zero hsup), hne, hashTypeSupported_valid hsup]
    simp only [Bool.false_eq_true, if_false, Bool.not_true, hsum]
    rw [hsig, ← hpk, S.complete]
    rfl

/-- Completeness: what `NewSignature` creates verifies under the matching public key. -/
theorem created_verifies (S : SigScheme) (H : HashFam) (sk ctx data : Bytes) (t : Int) (s : Signature)
    (hs : newSignature (S.sign sk) H.sum ctx t data = some s) :
    verifyWithPublic S.verify H.sum s ctx (S.pub sk) data = .good := by
  obtain ⟨hv, h, hsum, rfl⟩ := newSignature_some _ _ _ _ _ _ hs
  have hsup : hashTypeSupported t = true := by
    have := H.supported t data
    rw [hsum] at this
    simpa using this.symm
  exact (verify_iff_created S H _ ctx (S.pub sk) data).mpr ⟨hsup, h, sk, hsum, rfl, rfl⟩

/-- Binding: a signature created by `sk` over `(ctx, t, data)` verifies under `(pk', ctx',
data')`, possibly relabelled with hash type `t'`, only if the key, the context, the hash type
and the digest are all the same. -/
theorem created_binds (S : SigScheme) (H : HashFam) (sk ctx data : Bytes) (t : Int) (s : Signature)
    (hs : newSignature (S.sign sk) H.sum ctx t data = some s)
    (t' : Int) (ctx' pk' data' : Bytes)
    (hv : verifyWithPublic S.verify H.sum { s with hashType := t' } ctx' pk' data' = .good) :
    pk' = S.pub sk ∧ ctx' = ctx ∧ t' = t ∧ H.sum t data' = H.sum t data := by
  obtain ⟨_, h, hsum, rfl⟩ := newSignature_some _ _ _ _ _ _ hs
  have hsup : hashTypeSupported t = true := by
    have := H.supported t data
    rw [hsum] at this
    simpa using this.symm
  obtain ⟨hsup', h', sk', hsum', hpk', hsig'⟩ :=
    (verify_iff_created S H _ ctx' pk' data').mp hv
  simp only at hsup' hsum' hsig'
  obtain ⟨hpub, hbody⟩ := S.sign_inj _ _ _ _ hsig'
  obtain ⟨hc, htt, hh⟩ := signBody_injective ctx ctx' t t' h h' hsup hsup'
    (H.len_ok _ _ _ hsum) (H.len_ok _ _ _ hsum') hbody
  subst htt
  subst hh
  exact ⟨by rw [← hpk', hpub], hc.symm, rfl, by rw [hsum, hsum']⟩

/-- Unknown hash types and empty signature bytes are rejected by verification… -/
theorem reject_malformed_verify (verify : VerifyFn) (sum : SumFn) (s : Signature) (ctx pk data : Bytes)
    (h : hashTypeSupported s.hashType = false ∨ s.sigData = []) :
    verifyWithPublic verify sum s ctx pk data = .err := by
  unfold verifyWithPublic
  rcases h with h | h
  · by_cases h0 : s.hashType = 0
    · rw [if_pos h0]
    · rw [if_neg h0]
      have hv : hashTypeValid s.hashType = false := by
        cases hx : hashTypeValid s.hashType with
        | false => rfl
        | true => rw [hashTypeSupported_of_valid_ne_zero hx h0] at h; cases h
      rw [hv]
      split
      · rfl
      · rfl
  · rw [h]
    split
    · rfl
    · rfl

/-- …and `Validate` rejects hash types outside {0,1,2,3}, empty signature bytes and
unparsable embedded public keys. -/
theorem reject_malformed_validate (s : Signature)
    (h : hashTypeValid s.hashType = false ∨ s.sigData = [] ∨
      (s.pubKey ≠ [] ∧ unmarshalPublicKey s.pubKey = none)) :
    s.validate = false := by
  unfold Signature.validate
  rcases h with h | h | ⟨h1, h2⟩
  · rw [h]; rfl
  · rw [h]; simp
  · rw [h2]
    cases hx : s.pubKey with
    | nil => exact absurd hx h1
    | cons a l => simp

/-- Non-vacuity: the hypotheses are satisfiable (toy scheme) and the theorem fires. -/
example : ∃ s, newSignature (ToySig.sign [1, 2]) ToyHash.sum [9] 3 [5, 6] = some s ∧
    verifyWithPublic ToySig.verify ToyHash.sum s [9] (ToySig.pub [1, 2]) [5, 6] = .good := by
  have h : (newSignature (ToySig.sign [1, 2]) ToyHash.sum [9] 3 [5, 6]).isSome = true := by decide
  obtain ⟨s, hs⟩ := Option.isSome_iff_exists.mp h
  exact ⟨s, hs, created_verifies ToySig ToyHash [1, 2] [9] [5, 6] 3 s hs⟩

end Bifrost.Props.C02
