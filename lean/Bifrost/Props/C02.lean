import Bifrost.Model.Sign
import Bifrost.Model.Crypto
import Bifrost.Lemmas.Sign
import Bifrost.Lemmas.Codec
/-!
C02 — Signatures bind key, context, hash type and data. Property theorems only.
-/
namespace Bifrost.Props.C02
open Bifrost Bifrost.Codec Bifrost.Sign Bifrost.Crypto

/-- The signed body determines context, hash type and digest — for ARBITRARY contexts (which
may themselves contain the separator) and digests of the length their hash type prescribes. -/
theorem signBody_injective (c c' : Bytes) (t t' : Int) (h h' : Bytes)
    (ht : hashTypeSupported t = true) (ht' : hashTypeSupported t' = true)
    (hl : h.length = hashLen t) (hl' : h'.length = hashLen t')
    (e : signBody c t h = signBody c' t' h') : c = c' ∧ t = t' ∧ h = h' := by
  exact signBody_inj c c' t t' h h' ht ht' hl hl' e

/-- A detached signature verifies under a public key exactly when it was created by a
matching private key over the same context, hash algorithm and (digest of the) data. -/
theorem verify_iff_created (S : SigScheme) (H : HashFam) (s : Signature) (ctx pk data : Bytes) :
    verifyWithPublic S.verify H.sum s ctx pk data = .good ↔
      hashTypeSupported s.hashType = true ∧
      ∃ h sk, H.sum s.hashType data = some h ∧ S.pub sk = pk ∧
        s.sigData = S.sign sk (signBody ctx s.hashType h) := by
  unfold verifyWithPublic
  constructor
  · intro hv
    split at hv
    · cases hv
    split at hv
    · cases hv
    split at hv
    · cases hv
    split at hv
    · cases hv
    · rename_i h hsum
      split at hv
      · rename_i hver
        obtain ⟨sk, hpk, hsig⟩ := S.unforge _ _ _ hver
        refine ⟨?_, h, sk, hsum, hpk, hsig⟩
        have := H.supported s.hashType data
        rw [hsum] at this
        simpa using this.symm
      · cases hv
  · rintro ⟨hsup, h, sk, hsum, hpk, hsig⟩
    have hne : s.sigData.isEmpty = false := by
      rw [hsig]
      have := S.sig_nonempty sk (signBody ctx s.hashType h)
      cases hx : S.sign sk (signBody ctx s.hashType h) with
      | nil => exact absurd hx this
      | cons a l => rfl
    rw [if_neg (hashTypeSupported_ne_zero hsup), hne, hashTypeSupported_valid hsup]
    simp only [Bool.false_eq_true, if_false, Bool.not_true, hsum]
    rw [hsig, ← hpk, S.complete]
    rfl

/-- Completeness: what `NewSignature` creates verifies under the matching public key. -/
theorem created_verifies (S : SigScheme) (H : HashFam) (sk ctx data : Bytes) (t : Int) (s : Signature)
    (hs : newSignature (S.sign sk) H.sum ctx t data = some s) :
    verifyWithPublic S.verify H.sum s ctx (S.pub sk) data = .good := by
  obtain ⟨hv, h, hsum, rfl⟩ := newSignature_some _ _ _ _ _ _ hs
  have hsup : hashTypeSupported t = true := by
    have := H.supported t data
    rw [hsum] at this
    simpa using this.symm
  exact (verify_iff_created S H _ ctx (S.pub sk) data).mpr ⟨hsup, h, sk, hsum, rfl, rfl⟩

/-- Binding: a signature created by `sk` over `(ctx, t, data)` verifies under `(pk', ctx',
data')`, possibly relabelled with hash type `t'`, only if the key, the context, the hash type
and the digest are all the same. -/
theorem created_binds (S : SigScheme) (H : HashFam) (sk ctx data : Bytes) (t : Int) (s : Signature)
    (hs : newSignature (S.sign sk) H.sum ctx t data = some s)
    (t' : Int) (ctx' pk' data' : Bytes)
    (hv : verifyWithPublic S.verify H.sum { s with hashType := t' } ctx' pk' data' = .good) :
    pk' = S.pub sk ∧ ctx' = ctx ∧ t' = t ∧ H.sum t data' = H.sum t data := by
  obtain ⟨_, h, hsum, rfl⟩ := newSignature_some _ _ _ _ _ _ hs
  have hsup : hashTypeSupported t = true := by
    have := H.supported t data
    rw [hsum] at this
    simpa using this.symm
  obtain ⟨hsup', h', sk', hsum', hpk', hsig'⟩ :=
    (verify_iff_created S H _ ctx' pk' data').mp hv
  simp only at hsup' hsum' hsig'
  obtain ⟨hpub, hbody⟩ := S.sign_inj _ _ _ _ hsig'
  obtain ⟨hc, htt, hh⟩ := signBody_injective ctx ctx' t t' h h' hsup hsup'
    (H.len_ok _ _ _ hsum) (H.len_ok _ _ _ hsum') hbody
  subst htt
  subst hh
  exact ⟨by rw [← hpk', hpub], hc.symm, rfl, by rw [hsum, hsum']⟩

/-- Unknown hash types and empty signature bytes are rejected by verification… -/
theorem reject_malformed_verify (verify : VerifyFn) (sum : SumFn) (s : Signature) (ctx pk data : Bytes)
    (h : hashTypeSupported s.hashType = false ∨ s.sigData = []) :
    verifyWithPublic verify sum s ctx pk data = .err := by
  unfold verifyWithPublic
  rcases h with h | h
  · by_cases h0 : s.hashType = 0
    · rw [if_pos h0]
    · rw [if_neg h0]
      have hv : hashTypeValid s.hashType = false := by
        cases hx : hashTypeValid s.hashType with
        | false => rfl
        | true => rw [hashTypeSupported_of_valid_ne_zero hx h0] at h; cases h
      rw [hv]
      split
      · rfl
      · rfl
  · rw [h]
    split
    · rfl
    · rfl

/-- …and `Validate` rejects hash types outside {0,1,2,3}, empty signature bytes and
unparsable embedded public keys. -/
theorem reject_malformed_validate (s : Signature)
    (h : hashTypeValid s.hashType = false ∨ s.sigData = [] ∨
      (s.pubKey ≠ [] ∧ unmarshalPublicKey s.pubKey = none)) :
    s.validate = false := by
  unfold Signature.validate
  rcases h with h | h | ⟨h1, h2⟩
  · rw [h]; rfl
  · rw [h]; simp
  · rw [h2]
    cases hx : s.pubKey with
    | nil => exact absurd hx h1
    | cons a l => simp

/-! ### the constructors: `NewSignatureWithHashedData`, `NewSignature(…, inclPubKey)` -/

/-- Exactly what `NewSignatureWithHashedData` returns: a signature object only for a supported
hash type (not UNKNOWN, not out of range) and a value of that type's digest length; its hash
type is the requested one, its bytes are the private-key operation on the prescribed body, and
it embeds the marshalled public key iff asked to. -/
theorem hashed_some_iff (sign : Bytes → Bytes) (pub ctx : Bytes) (t : Int) (hd : Bytes) (incl : Bool)
    (s : Signature) :
    newSignatureWithHashedData sign pub ctx t hd incl = some s ↔
      hashTypeSupported t = true ∧ hd.length = hashLen t ∧
      s = { pubKey := if incl then marshalPublicKey pub else [], hashType := t,
            sigData := sign (signBody ctx t hd) } := by
  unfold newSignatureWithHashedData
  constructor
  · intro h
    split at h
    · cases h
    rename_i hv
    split at h
    · cases h
    rename_i h0
    split at h
    · cases h
    rename_i hl
    cases h
    exact ⟨hashTypeSupported_of_valid_ne_zero (by simpa using hv) h0, by simpa using hl, rfl⟩
  · rintro ⟨hsup, hl, rfl⟩
    rw [hashTypeSupported_valid hsup, if_neg (hashTypeSupported_ne_zero hsup)]
    simp [hl]

/-- Binding for the hashed-data constructor: what it creates for `(ctx, t, hd)` verifies under
`(pk', ctx', data')`, possibly relabelled `t'`, only for the same key, context and hash type and
for data whose digest is `hd`. -/
theorem hashed_created_binds (S : SigScheme) (H : HashFam) (sk pub ctx hd : Bytes) (t : Int) (incl : Bool)
    (s : Signature)
    (hs : newSignatureWithHashedData (S.sign sk) pub ctx t hd incl = some s)
    (t' : Int) (ctx' pk' data' : Bytes)
    (hv : verifyWithPublic S.verify H.sum { s with hashType := t' } ctx' pk' data' = .good) :
    pk' = S.pub sk ∧ ctx' = ctx ∧ t' = t ∧ H.sum t data' = some hd := by
  obtain ⟨hsup, hl, rfl⟩ := (hashed_some_iff ..).mp hs
  obtain ⟨hsup', h', sk', hsum', hpk', hsig'⟩ :=
    (verify_iff_created S H _ ctx' pk' data').mp hv
  simp only at hsup' hsum' hsig'
  obtain ⟨hpub, hbody⟩ := S.sign_inj _ _ _ _ hsig'
  obtain ⟨hc, htt, hh⟩ := signBody_injective ctx ctx' t t' hd h' hsup hsup'
    hl (H.len_ok _ _ _ hsum') hbody
  subst htt
  subst hh
  exact ⟨by rw [← hpk', hpub], hc.symm, rfl, hsum'⟩

/-- …and it does verify for data with that digest under the matching public key. -/
theorem hashed_created_verifies (S : SigScheme) (H : HashFam) (sk pub ctx data hd : Bytes) (t : Int)
    (incl : Bool) (s : Signature) (hsum : H.sum t data = some hd)
    (hs : newSignatureWithHashedData (S.sign sk) pub ctx t hd incl = some s) :
    verifyWithPublic S.verify H.sum s ctx (S.pub sk) data = .good := by
  obtain ⟨hsup, _, rfl⟩ := (hashed_some_iff ..).mp hs
  exact (verify_iff_created S H _ ctx (S.pub sk) data).mpr ⟨hsup, hd, sk, hsum, rfl, rfl⟩

/-- `NewSignature(…, inclPubKey)` is `NewSignature(…, false)` plus the embedded key field. -/
theorem newSignatureIncl_eq (sign : Bytes → Bytes) (pub : Bytes) (H : HashFam) (ctx data : Bytes) (t : Int)
    (incl : Bool) :
    newSignatureIncl sign pub H.sum ctx t data incl =
      (newSignature sign H.sum ctx t data).map
        (fun s => { s with pubKey := if incl then marshalPublicKey pub else [] }) := by
  unfold newSignatureIncl newSignature
  cases hsum : H.sum t data with
  | none =>
    simp
  | some h =>
    have hsup : hashTypeSupported t = true := by
      have := H.supported t data
      rw [hsum] at this
      simpa using this.symm
    have hl := H.len_ok _ _ _ hsum
    simp only
    rw [hashTypeSupported_valid hsup]
    simp only [Bool.not_true, Bool.false_eq_true, if_false, Option.map_some]
    exact (hashed_some_iff ..).mpr ⟨hsup, hl, rfl⟩

/-- The embedded key: absent unless asked for; when asked for it parses to the signer's public
key; either way the created object passes `Validate`. -/
theorem created_embeds_key (S : SigScheme) (sk ctx hd : Bytes) (t : Int) (incl : Bool) (s : Signature)
    (hpk : (S.pub sk).length = 32)
    (hs : newSignatureWithHashedData (S.sign sk) (S.pub sk) ctx t hd incl = some s) :
    s.validate = true ∧ (incl = false → s.pubKey = []) ∧
      (incl = true → s.pubKey = marshalPublicKey (S.pub sk) ∧ unmarshalPublicKey s.pubKey = some (S.pub sk)) := by
  obtain ⟨hsup, _, rfl⟩ := (hashed_some_iff ..).mp hs
  have hne := isEmpty_eq_false_of_ne_nil (S.sig_nonempty sk (signBody ctx t hd))
  refine ⟨?_, ?_, ?_⟩
  · unfold Signature.validate
    simp only
    rw [hashTypeSupported_valid hsup, hne]
    cases incl
    · rfl
    · simp [unmarshal_marshalPublicKey _ hpk]
  · intro h; subst h; rfl
  · intro h; subst h
    exact ⟨rfl, unmarshal_marshalPublicKey _ hpk⟩

/-- Refuted for the constructor as it was BEFORE the length check: a value longer than a digest
can contain the separator, and the signature made for context `a` verifies under the context
`a - SIGN - 1 - SIGN - Y` (replayed on the real code by engine sign, class
hashed-ctor/smuggled-separator). -/
theorem hashed_unchecked_binds_context_false :
    ¬ (∀ (S : SigScheme) (H : HashFam) (sk pub ctx hd : Bytes) (t : Int) (incl : Bool) (s : Signature),
        newSignatureWithHashedDataUnchecked (S.sign sk) pub ctx t hd incl = some s →
        ∀ ctx' pk' data', verifyWithPublic S.verify H.sum s ctx' pk' data' = .good → ctx' = ctx) := by
  intro hall
  have h := hall ToySig ToyHash [7] [] [97]
    ([89] ++ sep ++ [49] ++ sep ++ (5 :: List.replicate 31 0)) 1 false _ rfl
    ([97] ++ sep ++ [49] ++ sep ++ [89]) [7] [5] (by decide)
  exact absurd h (by decide)

/-- Non-vacuity of the constructor theorems: the toy scheme creates, with embedded key, a
signature that verifies. -/
example : ∃ s, newSignatureIncl (ToySig.sign (List.replicate 32 4)) (ToySig.pub (List.replicate 32 4))
      ToyHash.sum [9] 3 [5, 6] true = some s ∧
    unmarshalPublicKey s.pubKey = some (List.replicate 32 4) ∧
    verifyWithPublic ToySig.verify ToyHash.sum s [9] (List.replicate 32 4) [5, 6] = .good := by
  refine ⟨_, rfl, by decide, by decide⟩

/-- Non-vacuity: the hypotheses are satisfiable (toy scheme) and the theorem fires. -/
example : ∃ s, newSignature (ToySig.sign [1, 2]) ToyHash.sum [9] 3 [5, 6] = some s ∧
    verifyWithPublic ToySig.verify ToyHash.sum s [9] (ToySig.pub [1, 2]) [5, 6] = .good := by
  have h : (newSignature (ToySig.sign [1, 2]) ToyHash.sum [9] 3 [5, 6]).isSome = true := by decide
  obtain ⟨s, hs⟩ := Option.isSome_iff_exists.mp h
  exact ⟨s, hs, created_verifies ToySig ToyHash [1, 2] [9] [5, 6] 3 s hs⟩

end Bifrost.Props.C02
