import Bifrost.Model.Sign
import Bifrost.Model.Crypto
import Bifrost.Lemmas.Sign
/-!
C02 — Signatures bind key, context, hash type and data. Property theorems only.
-/
namespace Bifrost.Props.C02
open Bifrost Bifrost.Codec Bifrost.Sign Bifrost.Crypto

/-- The signed body determines context, hash type and digest — for ARBITRARY contexts (which
may themselves contain the separator) and digests of the length their hash type prescribes. -/
theorem signBody_injective (c c' : Bytes) (t t' : Int) (h h' : Bytes)
    (ht : hashTypeSupported t = true) (ht' : hashTypeSupported t' = true)
    (hl : h.length = hashLen t) (hl' : h'.length = hashLen t')
    (e : signBody c t h = signBody c' t' h') : c = c' ∧ t = t' ∧ h = h' := by
  sorry

/-- A detached signature verifies under a public key exactly when it was created by a
matching private key over the same context, hash algorithm and (digest of the) data. -/
theorem verify_iff_created (S : SigScheme) (H : HashFam) (s : Signature) (ctx pk data : Bytes) :
    verifyWithPublic S.verify H.sum s ctx pk data = .good ↔
      hashTypeSupported s.hashType = true ∧
      ∃ h sk, H.sum s.hashType data = some h ∧ S.pub sk = pk ∧
        s.sigData = S.sign sk (signBody ctx s.hashType h) := by
  sorry

/-- Completeness: what `NewSignature` creates verifies under the matching public key. -/
theorem created_verifies (S : SigScheme) (H : HashFam) (sk ctx data : Bytes) (t : Int) (s : Signature)
    (hs : newSignature (S.sign sk) H.sum ctx t data = some s) :
    verifyWithPublic S.verify H.sum s ctx (S.pub sk) data = .good := by
  sorry

/-- Binding: a signature created by `sk` over `(ctx, t, data)` verifies under `(pk', ctx',
data')`, possibly relabelled with hash type `t'`, only if the key, the context, the hash type
and the digest are all the same. -/
theorem created_binds (S : SigScheme) (H : HashFam) (sk ctx data : Bytes) (t : Int) (s : Signature)
    (hs : newSignature (S.sign sk) H.sum ctx t data = some s)
    (t' : Int) (ctx' pk' data' : Bytes)
    (hv : verifyWithPublic S.verify H.sum { s with hashType := t' } ctx' pk' data' = .good) :
    pk' = S.pub sk ∧ ctx' = ctx ∧ t' = t ∧ H.sum t data' = H.sum t data := by
  sorry

/-- Unknown hash types and empty signature bytes are rejected by verification… -/
theorem reject_malformed_verify (verify : VerifyFn) (sum : SumFn) (s : Signature) (ctx pk data : Bytes)
    (h : hashTypeSupported s.hashType = false ∨ s.sigData = []) :
    verifyWithPublic verify sum s ctx pk data = .err := by
  sorry

/-- …and `Validate` rejects hash types outside {0,1,2,3}, empty signature bytes and
unparsable embedded public keys. -/
theorem reject_malformed_validate (s : Signature)
    (h : hashTypeValid s.hashType = false ∨ s.sigData = [] ∨
      (s.pubKey ≠ [] ∧ unmarshalPublicKey s.pubKey = none)) :
    s.validate = false := by
  sorry

/-- Non-vacuity: the hypotheses are satisfiable (toy scheme) and the theorem fires. -/
example : ∃ s, newSignature (ToySig.sign [1, 2]) ToyHash.sum [9] 3 [5, 6] = some s ∧
    verifyWithPublic ToySig.verify ToyHash.sum s [9] (ToySig.pub [1, 2]) [5, 6] = .good := by
  sorry

end Bifrost.Props.C02
