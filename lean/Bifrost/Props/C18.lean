import Bifrost.Lemmas.EnvelopeField
import Bifrost.Lemmas.EnvelopeToy
import Bifrost.Lemmas.EnvelopeId
/-!
C18 — Envelopes resist tampering and are bound to their context. Property theorems only.
`unlock` models `UnlockEnvelope` as fixed (share IDs de-duplicated on the canonical scalar
encoding); `unlockWith … rawKey` is the code before the fix.
-/
namespace Bifrost.Props.C18
open Bifrost Bifrost.Envelope

/-- **Unsealing never panics**: any envelope structure (any threshold incl. 2^32-1, any grants,
aliasing share IDs, short ciphertexts), any keys, any primitives, any scalar codec. -/
theorem unlock_no_panic {S : Type} [DecidableEq S] (P : Prims) (F : Scalars S) (ctx : Bytes) (env : Envelope)
    (keys : List Bytes) : unlock P F ctx env keys ≠ .panic :=
  unlock_ne_panic P F ctx env keys

/-- … in particular on arbitrary bytes decoded as an envelope. -/
theorem unlockWire_no_panic {S : Type} [DecidableEq S] (P : Prims) (F : Scalars S) (ctx wire : Bytes)
    (keys : List Bytes) : unlockWire P F ctx wire keys ≠ .panic :=
  unlockWire_ne_panic P F ctx wire keys

section
variable {K : Type} [Field K] [DecidableEq K] (dec : Bytes → Option K) (enc : K → Bytes)
variable (P : Prims)
variable (secret : K) (coeff : Nat → K) (nonce ctx payload : Bytes) (keypairs : List Bytes)
variable (cfg : Config) (env : Envelope)

/-- **Unsealing with a different context is rejected as a context mismatch** (for two contexts
whose BLAKE3 hashes differ — an explicit no-collision hypothesis on exactly these two inputs),
whatever keys are offered. -/
theorem context_mismatch
    (hb : build P (fieldScalars K dec enc) secret coeff nonce ctx payload keypairs cfg = .ok env)
    (ctx' : Bytes) (hne : P.ctxHash ctx' ≠ P.ctxHash ctx) (sks : List Bytes) :
    unlock P (fieldScalars K dec enc) ctx' env sks = .err .contextMismatch := by
  obtain ⟨_, hk, hg, sum, hsum, _, gs, hgs, hgr, hkp, _, hch, _⟩ :=
    build_ok P _ secret coeff nonce ctx payload keypairs cfg env hb
  apply unlock_context_mismatch
  · rw [hgr]
    have := mkGrants_length P _ keypairs env.envelopeId ctx _ _ _ hgs
    rw [place_length] at this
    intro h0
    rw [h0] at this
    exact hg (List.length_eq_zero_iff.mp this.symm)
  · rw [hkp]; exact hk
  · rw [hch]; exact fun h => hne h.symm

/-- **Context binding without assuming anything of the context hash**: unsealing under any other
context never yields a payload — it is rejected as a context mismatch, or (should the two context
hashes collide) no grant decrypts, because the grant encryption contexts embed the
length-prefixed context string. -/
theorem context_bound (hP : PrimsSecure P)
    (hb : build P (fieldScalars K dec enc) secret coeff nonce ctx payload keypairs cfg = .ok env)
    (hw : cfg.totalShares < 2 ^ 32) (ctx' : Bytes) (hne : ctx' ≠ ctx) (sks : List Bytes) :
    unlock P (fieldScalars K dec enc) ctx' env sks = .err .contextMismatch ∨
      unlock P (fieldScalars K dec enc) ctx' env sks =
        .locked { success := false, sharesAvailable := 0, sharesNeeded := cfg.threshold + 1, unlockedGrantIndexes := [] } :=
  unlock_other_ctx P hP _ secret coeff nonce ctx payload keypairs cfg env hb hw ctx' hne sks

/-- **Which id a sealed envelope carries**: the `EnvelopeId` of the configuration when it is not
empty, otherwise the id derived from the secret and the context (`idHash` = the lower-case hex of
the first 16 bytes of BLAKE3(secret ‖ context); operands and length are regenerated facts,
`Ties.EnvelopeFacts`). -/
theorem envelope_id_of_build
    (hb : build P (fieldScalars K dec enc) secret coeff nonce ctx payload keypairs cfg = .ok env) :
    env.envelopeId = if cfg.envelopeId.isEmpty then P.idHash (enc secret) ctx else cfg.envelopeId :=
  build_envelopeId P _ secret coeff nonce ctx payload keypairs cfg env hb

/-- **The grants are bound to THAT id**: a sealed envelope re-labelled with any other id reaches
no share at all under the right context, whatever keys are offered (the grant encryption
contexts embed the length-prefixed id; no hash assumption). -/
theorem id_bound (hP : PrimsSecure P)
    (hb : build P (fieldScalars K dec enc) secret coeff nonce ctx payload keypairs cfg = .ok env)
    (hw : cfg.totalShares < 2 ^ 32) (id' : Bytes) (hne : id' ≠ env.envelopeId) (sks : List Bytes) :
    unlock P (fieldScalars K dec enc) ctx { env with envelopeId := id' } sks =
      .locked { success := false, sharesAvailable := 0, sharesNeeded := cfg.threshold + 1, unlockedGrantIndexes := [] } :=
  unlock_relabel P hP _ secret coeff nonce ctx payload keypairs cfg env hb hw id' hne sks

/-- … and more generally the grants of a sealed envelope, carried by ANY envelope with another id
(threshold, keypairs, ciphertext, context hash replaced at will) or unsealed under another
context, never open anything. -/
theorem foreign_id_never_opens (hP : PrimsSecure P)
    (hb : build P (fieldScalars K dec enc) secret coeff nonce ctx payload keypairs cfg = .ok env)
    (env' : Envelope) (hg : env'.grants = env.grants) (ctx' : Bytes)
    (hne : env'.envelopeId ≠ env.envelopeId ∨ ctx' ≠ ctx) (sks : List Bytes) (p : Bytes) (r : UnlockResult) :
    unlock P (fieldScalars K dec enc) ctx' env' sks ≠ .opened p r :=
  unlock_foreign_binding_not_opened P hP _ secret coeff nonce ctx payload keypairs cfg env hb env' hg ctx' hne sks p r

/-- **The crypto context strings bind the PAIR (envelope id, context)**: the key derivation context
determines both operands — no two different pairs, however their bytes are shifted across the
id/context boundary, give the same string (the strings of `envelope/crypto.go` are regenerated and
proved equal to these for all operands, `Ties.Envelope.kd_context`). -/
theorem kd_context_injective (envId envId' ctx ctx' : Bytes)
    (h : kdContext envId ctx = kdContext envId' ctx') : envId = envId' ∧ ctx = ctx' :=
  kdContext_inj envId envId' ctx ctx' h

/-- … and every grant encryption context determines envelope id, context and grant index
(`Ties.Envelope.grant_enc_context` for the regenerated string). -/
theorem grant_context_injective (envId envId' ctx ctx' : Bytes) (gi gi' : Nat)
    (h : grantEncContext envId ctx gi = grantEncContext envId' ctx' gi') :
    envId = envId' ∧ ctx = ctx' ∧ gi = gi' :=
  grantEncContext_inj envId envId' ctx ctx' gi gi' h

/-- Why the length prefix of the envelope id is part of the property: with the id written verbatim
(the context still length-prefixed) the encoding is NOT injective — the id `""` with the context
`"a 1:b"` and the id `" 5:a"` with the context `"b"` give the same bytes (the re-split the engine
replays on the real code for every plausible mis-framing). -/
theorem id_length_prefix_needed :
    ¬ ∀ envId envId' ctx ctx' : Bytes,
        envId ++ [32] ++ lenPrefixed ctx = envId' ++ [32] ++ lenPrefixed ctx' → envId = envId' ∧ ctx = ctx' := by
  intro h
  have h1 := (h [] [32, 53, 58, 97] [97, 32, 49, 58, 98] [98] (by decide)).1
  exact absurd h1 (by decide)

/-! Non-vacuity: the pair of the refutation above IS told apart by the real framing. -/
example : kdContext [] [97, 32, 49, 58, 98] ≠ kdContext [32, 53, 58, 97] [98] ∧
    grantEncContext [] [97, 32, 49, 58, 98] 0 ≠ grantEncContext [32, 53, 58, 97] [98] 0 :=
  ⟨fun h => absurd (kd_context_injective _ _ _ _ h).1 (by decide),
   fun h => absurd (grant_context_injective _ _ _ _ _ _ h).1 (by decide)⟩

/-- **Tampering with anything but the payload ciphertext**: let `env'` be ANY envelope that still
carries the sealed payload ciphertext — threshold, grants (keypair indexes, ciphertexts, order,
number), keypairs, envelope id and context hash replaced at will, one field or several — and let
it be unsealed under any context with any keys. Then unsealing fails, or yields exactly the
original payload; never another one. -/
theorem tamper_keeps_payload (hP : PrimsSecure P)
    (hb : build P (fieldScalars K dec enc) secret coeff nonce ctx payload keypairs cfg = .ok env)
    (hn : nonce.length = 24)
    (env' : Envelope) (hct : env'.ciphertext = env.ciphertext) (ctx' : Bytes) (sks : List Bytes)
    (p : Bytes) (r : UnlockResult)
    (h : unlock P (fieldScalars K dec enc) ctx' env' sks = .opened p r) : p = payload := by
  obtain ⟨_, _, _, _, _, _, _, _, _, _, _, _, hc⟩ := build_ok P _ secret coeff nonce ctx payload keypairs cfg env hb
  obtain ⟨_, k, hk⟩ := unlock_opened P _ ctx' env' sks p r h
  rw [hct, hc] at hk
  have htake : (nonce ++ P.aseal (P.kdf (kdContext env.envelopeId ctx) ((fieldScalars K dec enc).encode secret)) nonce payload).take 24 = nonce := by
    rw [← hn]; exact List.take_left
  have hdrop : (nonce ++ P.aseal (P.kdf (kdContext env.envelopeId ctx) ((fieldScalars K dec enc).encode secret)) nonce payload).drop 24 =
      P.aseal (P.kdf (kdContext env.envelopeId ctx) ((fieldScalars K dec enc).encode secret)) nonce payload := by
    rw [← hn]; exact List.drop_left
  rw [htake, hdrop] at hk
  exact hP.aead_only _ _ _ _ _ hk

/-- single-field instances of `tamper_keeps_payload`, one per top-level field -/
theorem tamper_threshold (hP : PrimsSecure P)
    (hb : build P (fieldScalars K dec enc) secret coeff nonce ctx payload keypairs cfg = .ok env)
    (hn : nonce.length = 24) (t' : Nat) (sks : List Bytes) (p : Bytes) (r : UnlockResult)
    (h : unlock P (fieldScalars K dec enc) ctx { env with threshold := t' } sks = .opened p r) : p = payload :=
  tamper_keeps_payload dec enc P secret coeff nonce ctx payload keypairs cfg env hP hb hn { env with threshold := t' } rfl ctx sks p r h

theorem tamper_grants (hP : PrimsSecure P)
    (hb : build P (fieldScalars K dec enc) secret coeff nonce ctx payload keypairs cfg = .ok env)
    (hn : nonce.length = 24) (gs' : List Grant) (sks : List Bytes) (p : Bytes) (r : UnlockResult)
    (h : unlock P (fieldScalars K dec enc) ctx { env with grants := gs' } sks = .opened p r) : p = payload :=
  tamper_keeps_payload dec enc P secret coeff nonce ctx payload keypairs cfg env hP hb hn { env with grants := gs' } rfl ctx sks p r h

theorem tamper_keypairs (hP : PrimsSecure P)
    (hb : build P (fieldScalars K dec enc) secret coeff nonce ctx payload keypairs cfg = .ok env)
    (hn : nonce.length = 24) (ks' : List Bytes) (sks : List Bytes) (p : Bytes) (r : UnlockResult)
    (h : unlock P (fieldScalars K dec enc) ctx { env with keypairs := ks' } sks = .opened p r) : p = payload :=
  tamper_keeps_payload dec enc P secret coeff nonce ctx payload keypairs cfg env hP hb hn { env with keypairs := ks' } rfl ctx sks p r h

theorem tamper_envelope_id (hP : PrimsSecure P)
    (hb : build P (fieldScalars K dec enc) secret coeff nonce ctx payload keypairs cfg = .ok env)
    (hn : nonce.length = 24) (id' : Bytes) (sks : List Bytes) (p : Bytes) (r : UnlockResult)
    (h : unlock P (fieldScalars K dec enc) ctx { env with envelopeId := id' } sks = .opened p r) : p = payload :=
  tamper_keeps_payload dec enc P secret coeff nonce ctx payload keypairs cfg env hP hb hn { env with envelopeId := id' } rfl ctx sks p r h

theorem tamper_context_hash (hP : PrimsSecure P)
    (hb : build P (fieldScalars K dec enc) secret coeff nonce ctx payload keypairs cfg = .ok env)
    (hn : nonce.length = 24) (ch' : Bytes) (sks : List Bytes) (p : Bytes) (r : UnlockResult)
    (h : unlock P (fieldScalars K dec enc) ctx { env with contextHash := ch' } sks = .opened p r) : p = payload :=
  tamper_keeps_payload dec enc P secret coeff nonce ctx payload keypairs cfg env hP hb hn { env with contextHash := ch' } rfl ctx sks p r h

/-- **Tampering with the payload ciphertext**: if the envelope with its ciphertext replaced by
`c'` unseals to `p'`, then `c'` is a valid AEAD ciphertext of `p'` under the key derived from the
envelope's own secret — which nobody without threshold+1 shares can produce (AEAD ciphertext
integrity). No other key is ever tried. -/
theorem tamper_ciphertext (hP : PrimsLaw P) (hS : FieldSetting dec enc (buildTotal keypairs.length cfg))
    (hb : build P (fieldScalars K dec enc) secret coeff nonce ctx payload keypairs cfg = .ok env)
    (hw : cfg.totalShares < 2 ^ 32 ∧ cfg.grants.length ≤ 2 ^ 32)
    (c' : Bytes) (sks : List Bytes) (p' : Bytes) (r : UnlockResult)
    (h : unlock P (fieldScalars K dec enc) ctx { env with ciphertext := c' } sks = .opened p' r) :
    P.aopen (P.kdf (kdContext env.envelopeId ctx) (enc secret)) (c'.take 24) (c'.drop 24) = some p' := by
  rw [unlock_build_ct_field dec enc P hP secret coeff nonce ctx payload keypairs cfg env hS hb hw sks c'] at h
  split at h
  · unfold openWith at h
    split at h
    · cases h
    · split at h
      · cases h
      · rename_i p hp
        simp only [UnlockOutcome.opened.injEq] at h
        rw [← h.1]; exact hp
  · cases h

/-- … hence a replacement ciphertext that is not such a forgery is rejected. -/
theorem tamper_ciphertext_rejected (hP : PrimsLaw P) (hS : FieldSetting dec enc (buildTotal keypairs.length cfg))
    (hb : build P (fieldScalars K dec enc) secret coeff nonce ctx payload keypairs cfg = .ok env)
    (hw : cfg.totalShares < 2 ^ 32 ∧ cfg.grants.length ≤ 2 ^ 32)
    (c' : Bytes) (sks : List Bytes)
    (hnf : P.aopen (P.kdf (kdContext env.envelopeId ctx) (enc secret)) (c'.take 24) (c'.drop 24) = none) :
    ∀ p' r, unlock P (fieldScalars K dec enc) ctx { env with ciphertext := c' } sks ≠ .opened p' r := by
  intro p' r h
  have := tamper_ciphertext dec enc P secret coeff nonce ctx payload keypairs cfg env hP hS hb hw c' sks p' r h
  rw [hnf] at this
  cases this

/-! ### no sender authentication: the full "never a different payload" clause is FALSE

An envelope is not signed. Whoever can derive the payload key — any holder of threshold+1 shares,
i.e. any quorum of recipients — can seal ANOTHER payload under the envelope's own key, and the
re-sealed envelope unseals to that payload for everybody (`resealed_payload_accepted`). Likewise a
whole new envelope for the same recipients, context and (configured) id is a "modification" of
every field but the id (engine class `rebuilt-same-id`; anyone who knows the recipients' public
keys can make one).
So the property's clause "any modification … either fails or still yields exactly the original
payload" holds only in the parts proved above (`tamper_any_partial`); the full clause is refuted
(`tamper_ciphertext_any_false`). Known finding `C18-unauthenticated-envelope`; the engine replays
both witnesses on the real code every run. -/

/-- **Insider re-seal**: the sealed envelope with its ciphertext replaced by a fresh AEAD sealing
of ANY payload `p'` under the envelope's own derived key unseals to `p'` for every key list that
unseals the original. -/
theorem resealed_payload_accepted (hP : PrimsLaw P) (hS : FieldSetting dec enc (buildTotal keypairs.length cfg))
    (hb : build P (fieldScalars K dec enc) secret coeff nonce ctx payload keypairs cfg = .ok env)
    (hw : cfg.totalShares < 2 ^ 32 ∧ cfg.grants.length ≤ 2 ^ 32)
    (nonce' p' : Bytes) (hn' : nonce'.length = 24) (sks : List Bytes)
    (hreach : cfg.threshold + 1 ≤ reachCount (canOpen P keypairs sks) cfg.grants (buildTotal keypairs.length cfg)) :
    ∃ r, unlock P (fieldScalars K dec enc) ctx
      { env with ciphertext := nonce' ++ P.aseal (P.kdf (kdContext env.envelopeId ctx) (enc secret)) nonce' p' } sks =
        .opened p' r := by
  rw [unlock_build_ct_field dec enc P hP secret coeff nonce ctx payload keypairs cfg env hS hb hw sks]
  rw [if_pos hreach]
  unfold openWith
  have htake : (nonce' ++ P.aseal (P.kdf (kdContext env.envelopeId ctx) (enc secret)) nonce' p').take 24 = nonce' := by
    rw [← hn']; exact List.take_left
  have hdrop : (nonce' ++ P.aseal (P.kdf (kdContext env.envelopeId ctx) (enc secret)) nonce' p').drop 24 =
      P.aseal (P.kdf (kdContext env.envelopeId ctx) (enc secret)) nonce' p' := by
    rw [← hn']; exact List.drop_left
  rw [if_neg (by simp only [List.length_append, hn']; omega), htake, hdrop, hP.aead_roundtrip]
  exact ⟨_, rfl⟩

/-- **Partial (what does hold of "never a different payload")**: a modified envelope that still
carries the sealed ciphertext yields the original payload or fails, whatever else was changed,
under any context and keys; and a replaced ciphertext is accepted only if it opens under the key
derived from the envelope's own secret. -/
theorem tamper_any_partial (hP : PrimsSecure P) (hS : FieldSetting dec enc (buildTotal keypairs.length cfg))
    (hb : build P (fieldScalars K dec enc) secret coeff nonce ctx payload keypairs cfg = .ok env)
    (hn : nonce.length = 24) (hw : cfg.totalShares < 2 ^ 32 ∧ cfg.grants.length ≤ 2 ^ 32) :
    (∀ (env' : Envelope), env'.ciphertext = env.ciphertext → ∀ (ctx' : Bytes) (sks : List Bytes) (p : Bytes) (r : UnlockResult),
        unlock P (fieldScalars K dec enc) ctx' env' sks = .opened p r → p = payload) ∧
    (∀ (c' : Bytes) (sks : List Bytes) (p' : Bytes) (r : UnlockResult),
        unlock P (fieldScalars K dec enc) ctx { env with ciphertext := c' } sks = .opened p' r →
        P.aopen (P.kdf (kdContext env.envelopeId ctx) (enc secret)) (c'.take 24) (c'.drop 24) = some p') :=
  ⟨fun env' hct ctx' sks p r h =>
      tamper_keeps_payload dec enc P secret coeff nonce ctx payload keypairs cfg env hP hb hn env' hct ctx' sks p r h,
    fun c' sks p' r h =>
      tamper_ciphertext dec enc P secret coeff nonce ctx payload keypairs cfg env hP.toPrimsLaw hS hb hw c' sks p' r h⟩

end

/-- the 2-of-2 configuration of the examples -/
def exCfg : Config := { threshold := 1, grants := [⟨1, [0]⟩, ⟨1, [1]⟩] }

/-- **Refuted**: "a sealed envelope whose payload ciphertext was replaced fails to unseal or still
yields the original payload". Witness (toy primitives, ℤ/251): the envelope sealing `[2, 3]` for
recipients `[10]`, `[11]`, with its ciphertext replaced by a sealing of `[4]` under its own
derived key, unseals to `[4]` with both recipient keys. -/
theorem tamper_ciphertext_any_false :
    ¬ ∀ (env : Envelope) (c' : Bytes) (sks : List Bytes) (p : Bytes) (r : UnlockResult),
      build toyPrims z251 5 (fun i => (i : ZMod 251) + 3) (List.replicate 24 9) [1] [2, 3] [[10], [11]] exCfg = .ok env →
      unlock toyPrims z251 [1] { env with ciphertext := c' } sks = .opened p r → p = [2, 3] := by
  intro h
  have exSetting : FieldSetting z251Decode z251Encode (buildTotal 2 exCfg) :=
    { codec := z251_law
      ids := by
        intro i j hi hj h
        have e : buildTotal 2 exCfg = 2 := by decide
        rw [e] at hi hj
        have := (ZMod.natCast_eq_natCast_iff' i j 251).mp h
        omega }
  have hok : (build toyPrims z251 5 (fun i => (i : ZMod 251) + 3) (List.replicate 24 9) [1] [2, 3] [[10], [11]] exCfg).isOk = true := by
    decide
  cases hb : build toyPrims z251 5 (fun i => (i : ZMod 251) + 3) (List.replicate 24 9) [1] [2, 3] [[10], [11]] exCfg with
  | err e => rw [hb] at hok; cases hok
  | panic => rw [hb] at hok; cases hok
  | ok env =>
    have hb' := hb
    rw [show z251 = fieldScalars (ZMod 251) z251Decode z251Encode from rfl] at hb'
    obtain ⟨r, hr⟩ := resealed_payload_accepted z251Decode z251Encode toyPrims 5 _ _ [1] [2, 3] [[10], [11]] exCfg env
      toyPrims_law exSetting hb' (by decide) (List.replicate 24 8) [4] (by decide) [[10], [11]] (by decide)
    have := h env _ [[10], [11]] [4] r hb hr
    revert this
    decide

/-! The defect the fix removed (F21), in the model: with de-duplication on the raw ID bytes
(`rawKey`), a grant carrying two encodings (`[1]`, `[252]`) of one scalar makes
`secretsharing.Recover` panic; with the canonical key the alias is dropped. -/

def aliasEnv : Envelope :=
  { envelopeId := [7], contextHash := toyPrims.ctxHash [1], threshold := 1, ciphertext := [],
    grants := [⟨[0], [frame [10] ++ frame (grantEncContext [7] [1] 0) ++
      encodeInner [⟨[1], [5]⟩, ⟨[252], [6]⟩]]⟩],
    keypairs := [[10]] }

set_option maxRecDepth 100000 in
theorem raw_dedup_panics : unlockWith toyPrims z251 rawKey [1] aliasEnv [[10]] = .panic := by
  decide

set_option maxRecDepth 100000 in
theorem canonical_dedup_no_panic :
    unlock toyPrims z251 [1] aliasEnv [[10]] =
      .locked { success := false, sharesAvailable := 1, sharesNeeded := 2, unlockedGrantIndexes := [0] } := by
  decide

/-! Non-vacuity of the tamper theorems: a sealed envelope (ℤ/251, toy primitives); lowering its
threshold to 0 still yields the payload; a foreign context is rejected. -/

example : ∃ env,
    build toyPrims z251 5 (fun i => (i : ZMod 251) + 3) (List.replicate 24 9) [1] [2, 3] [[10], [11]] exCfg = .ok env ∧
    -- the hypothesis of the tamper theorems is satisfiable (here: the untouched threshold) …
    (∃ p r, unlock toyPrims z251 [1] { env with threshold := env.threshold } [[10], [11]] = .opened p r) ∧
    -- … the theorem applies to a really tampered envelope …
    (∀ p r, unlock toyPrims z251 [1] { env with threshold := 0 } [[10]] = .opened p r → p = [2, 3]) ∧
    -- … and a foreign context is rejected
    unlock toyPrims z251 [2] env [[10], [11]] = .err .contextMismatch := by
  have exSetting : FieldSetting z251Decode z251Encode (buildTotal 2 exCfg) :=
    { codec := z251_law
      ids := by
        intro i j hi hj h
        have e : buildTotal 2 exCfg = 2 := by decide
        rw [e] at hi hj
        have := (ZMod.natCast_eq_natCast_iff' i j 251).mp h
        omega }
  have hok : (build toyPrims z251 5 (fun i => (i : ZMod 251) + 3) (List.replicate 24 9) [1] [2, 3] [[10], [11]] exCfg).isOk = true := by
    decide
  cases hb : build toyPrims z251 5 (fun i => (i : ZMod 251) + 3) (List.replicate 24 9) [1] [2, 3] [[10], [11]] exCfg with
  | err e => rw [hb] at hok; cases hok
  | panic => rw [hb] at hok; cases hok
  | ok env =>
    have hb' := hb
    rw [show z251 = fieldScalars (ZMod 251) z251Decode z251Encode from rfl] at hb'
    refine ⟨env, rfl, ?_, ?_, ?_⟩
    · have he : ({ env with threshold := env.threshold } : Envelope) = env := rfl
      rw [he, show z251 = fieldScalars (ZMod 251) z251Decode z251Encode from rfl]
      rw [unlock_build_field z251Decode z251Encode toyPrims toyPrims_law 5 _ _ [1] [2, 3] [[10], [11]] exCfg env exSetting hb'
        (by decide) (by decide) [[10], [11]]]
      rw [if_pos (by decide)]
      exact ⟨_, _, rfl⟩
    · intro p r hu
      exact tamper_threshold z251Decode z251Encode toyPrims 5 _ _ [1] [2, 3] [[10], [11]] exCfg env toyPrims_secure hb'
        (by decide) 0 [[10]] p r hu
    · exact context_mismatch z251Decode z251Encode toyPrims 5 _ _ [1] [2, 3] [[10], [11]] exCfg env hb' [2] (by decide) _

/-! Non-vacuity of the id theorems: a configuration with an explicit id is sealed with that id,
one without gets the derived id, and the re-labelled envelope is locked with no share reachable
although every recipient key is offered. -/

def exCfgId : Config := { envelopeId := [105, 100], threshold := 1, grants := [⟨1, [0]⟩, ⟨1, [1]⟩] }

example : ∃ env env₀,
    build toyPrims z251 5 (fun i => (i : ZMod 251) + 3) (List.replicate 24 9) [1] [2, 3] [[10], [11]] exCfgId = .ok env ∧
    env.envelopeId = [105, 100] ∧
    build toyPrims z251 5 (fun i => (i : ZMod 251) + 3) (List.replicate 24 9) [1] [2, 3] [[10], [11]] exCfg = .ok env₀ ∧
    env₀.envelopeId = toyPrims.idHash (z251Encode 5) [1] ∧
    unlock toyPrims z251 [1] { env with envelopeId := [105] } [[10], [11]] =
      .locked { success := false, sharesAvailable := 0, sharesNeeded := 2, unlockedGrantIndexes := [] } := by
  have hok : (build toyPrims z251 5 (fun i => (i : ZMod 251) + 3) (List.replicate 24 9) [1] [2, 3] [[10], [11]] exCfgId).isOk = true := by
    decide
  have hok0 : (build toyPrims z251 5 (fun i => (i : ZMod 251) + 3) (List.replicate 24 9) [1] [2, 3] [[10], [11]] exCfg).isOk = true := by
    decide
  cases hb : build toyPrims z251 5 (fun i => (i : ZMod 251) + 3) (List.replicate 24 9) [1] [2, 3] [[10], [11]] exCfgId with
  | err e => rw [hb] at hok; cases hok
  | panic => rw [hb] at hok; cases hok
  | ok env =>
    cases hb0 : build toyPrims z251 5 (fun i => (i : ZMod 251) + 3) (List.replicate 24 9) [1] [2, 3] [[10], [11]] exCfg with
    | err e => rw [hb0] at hok0; cases hok0
    | panic => rw [hb0] at hok0; cases hok0
    | ok env₀ =>
      have hb' := hb
      have hb0' := hb0
      rw [show z251 = fieldScalars (ZMod 251) z251Decode z251Encode from rfl] at hb' hb0'
      have hid := envelope_id_of_build z251Decode z251Encode toyPrims 5 _ _ [1] [2, 3] [[10], [11]] exCfgId env hb'
      have hid0 := envelope_id_of_build z251Decode z251Encode toyPrims 5 _ _ [1] [2, 3] [[10], [11]] exCfg env₀ hb0'
      refine ⟨env, env₀, rfl, hid, rfl, hid0, ?_⟩
      have := id_bound z251Decode z251Encode toyPrims 5 _ _ [1] [2, 3] [[10], [11]] exCfgId env toyPrims_secure hb'
        (by decide) [105] (by rw [hid]; decide) [[10], [11]]
      exact this

end Bifrost.Props.C18
