import Bifrost.Model.Config
import Bifrost.Lemmas.Config
import Bifrost.Lemmas.ConfigParse
import Bifrost.Gen.ConfigConsts
/-!
C38 — Configuration parsers are total and round-trip. Property theorems only.

The model functions of this property have no `panic` outcome at all: none of the Go code they
mirror contains an indexing, slicing, division or map-write operation (the wrapped library
parsers are exercised for panics by the harness). The theorems below are the round-trip and
exact-acceptance clauses.
-/
namespace Bifrost.Props.C38
open Bifrost Bifrost.Codec Bifrost.Config

/-! ### protocol IDs -/

/-- Accepted exactly when non-empty and valid UTF-8. -/
theorem protocolId_accept_iff (s : Bytes) : protocolIdValid s = true ↔ s ≠ [] ∧ Utf8.valid s = true := by
  unfold protocolIdValid
  cases s <;> simp

/-- `ParseProtocolID`: accepts exactly the valid IDs (and the empty string if allowed) and
returns the string unchanged — so formatting and parsing again is the identity. -/
theorem parseProtocolId_iff (s p : Bytes) (allow : Bool) :
    parseProtocolId s allow = some p ↔
      p = s ∧ ((s ≠ [] ∧ Utf8.valid s = true) ∨ (allow = true ∧ s = [])) := by
  unfold parseProtocolId
  cases s with
  | nil =>
    cases allow
    · simp [protocolIdValid]
    · simp only [Bool.true_and, List.isEmpty_nil, ↓reduceIte, Option.some.injEq, ne_eq,
        not_true_eq_false, false_and, and_self, or_true, and_true]
      exact eq_comm
  | cons a r =>
    simp only [List.isEmpty_cons, Bool.and_false, Bool.false_eq_true, ↓reduceIte, ne_eq,
      reduceCtorEq, not_false_eq_true, true_and, and_false, or_false]
    rw [show protocolIdValid (a :: r) = Utf8.valid (a :: r) by simp [protocolIdValid]]
    split
    · rename_i h
      simp only [Option.some.injEq, h, and_true]
      exact eq_comm
    · rename_i h
      simp [h]

theorem parseProtocolId_roundtrip (s p : Bytes) (allow : Bool) (h : parseProtocolId s allow = some p) :
    parseProtocolId p allow = some p := by
  have := ((parseProtocolId_iff s p allow).mp h).1
  subst this
  exact h

/-- `ParseProtocolIDsUnique` = `ParseProtocolIDs` followed by keeping first occurrences: the
result is duplicate-free and has exactly the IDs of the list. -/
theorem protocolIdsUnique_spec (l out : List Bytes) (allow : Bool)
    (h : parseProtocolIdsUnique l allow = some out) :
    ∃ ps, parseProtocolIds l allow = some ps ∧ out = dedupFirst ps ∧ out.Nodup ∧
      ∀ x, x ∈ out ↔ x ∈ ps := by
  unfold parseProtocolIdsUnique at h
  rw [protoUniqueLoop_eq] at h
  cases hp : parseProtocolIds l allow with
  | none => rw [hp] at h; cases h
  | some ps =>
    rw [hp] at h
    simp only [Option.map_some, Option.some.injEq] at h
    subst h
    exact ⟨ps, rfl, rfl, (dedupFirst_spec ps).1, (dedupFirst_spec ps).2⟩

/-! ### transport addresses -/

/-- Whatever `ParseTptAddr` accepts is `{transport-id}|{address}` split at the first separator,
both parts non-empty: formatting the result gives back the input. -/
theorem parseTptAddr_sound (s t a : Bytes) (h : parseTptAddr s = some (t, a)) :
    s = formatTptAddr t a ∧ t ≠ [] ∧ a ≠ [] ∧ bar ∉ t := by
  unfold parseTptAddr at h
  simp only at h
  split at h
  · cases h
  · rename_i hc
    simp only [Bool.or_eq_true, Bool.not_eq_eq_eq_not, Bool.not_true, not_or,
      Bool.not_eq_true] at hc
    obtain ⟨⟨hf, ht⟩, ha⟩ := hc
    simp only [Option.some.injEq, Prod.mk.injEq] at h
    obtain ⟨rfl, rfl⟩ := h
    rcases cutBar_spec s with ⟨_, h2, h3⟩ | ⟨h1, _⟩
    · refine ⟨h2, ?_, ?_, h3⟩
      · intro e; rw [e] at ht; simp at ht
      · intro e; rw [e] at ha; simp at ha
    · simp only [Bool.not_eq_false] at hf
      rw [hf] at h1; cases h1

/-- Formatting then parsing is the identity exactly for non-empty parts whose transport id
contains no separator. -/
theorem parseTptAddr_format_iff (t a : Bytes) :
    parseTptAddr (formatTptAddr t a) = some (t, a) ↔ t ≠ [] ∧ a ≠ [] ∧ bar ∉ t := by
  constructor
  · intro h
    exact (parseTptAddr_sound _ t a h).2
  · rintro ⟨ht, ha, hb⟩
    unfold parseTptAddr formatTptAddr
    rw [cutBar_append t a hb]
    cases t with
    | nil => exact absurd rfl ht
    | cons =>
      cases a with
      | nil => exact absurd rfl ha
      | cons => simp

/-! ### static peer address lists -/

/-- `ParsePeerAddressMap`: for every peer-ID text `p`, the slice stored for `p` is strictly
increasing in byte order (sorted, duplicate-free) and contains exactly the addresses the list
gives for `p`; `p` is a key of the map exactly when some address is given for it; keys are
distinct; and the number of reported errors is the number of malformed entries. -/
theorem peerAddressMap_spec (l : List Bytes) (p : Bytes) :
    let r := parsePeerAddressMap l
    SortedLt (valuesOf r.1 p) ∧ (∀ a, a ∈ valuesOf r.1 p ↔ a ∈ given l p) ∧
    (p ∈ keysOf r.1 ↔ given l p ≠ []) ∧ (keysOf r.1).Nodup ∧ r.2 = malformed l := by
  obtain ⟨⟨hn, hk⟩, he, hv⟩ := peerAddrLoop_spec l [] 0 mapOk_nil
  simp only
  unfold parsePeerAddressMap
  simp only
  rw [valuesOf_map (fun vs => compact (sortStrings vs)) rfl, keysOf_map (fun vs => compact (sortStrings vs))]
  have hvp : valuesOf (peerAddrLoop l [] 0).1 p = given l p := by
    rw [hv p]; simp [valuesOf]
  rw [hvp]
  refine ⟨(sort_compact_spec _).1, (sort_compact_spec _).2, ?_, hn, by rw [he]; simp⟩
  rw [hk p, hvp]

/-- In particular the stored slice has no duplicates. -/
theorem peerAddressMap_nodup (l : List Bytes) (p : Bytes) :
    (valuesOf (parsePeerAddressMap l).1 p).Nodup :=
  (peerAddressMap_spec l p).1.nodup

/-- What "given for it" means for one entry: the entry contributes address `v` to key `k`
exactly when it has a first separator, the trimmed remainder `v` still contains a separator
(`{transport}|{address}`), and the trimmed part before it is the base58 text of a peer ID whose
canonical text is `k`. -/
theorem peerAddrEntry_iff (e k v : Bytes) :
    parsePeerAddrEntry e = .inr (k, v) ↔
      (cutBar e).2.2 = true ∧ v = trimSpace (cutBar e).2.1 ∧ v.contains bar = true ∧
      ∃ pid, idB58Decode (trimSpace (cutBar e).1) = some pid ∧ k = idB58Encode pid := by
  unfold parsePeerAddrEntry
  simp only
  constructor
  · intro h
    split at h
    · cases h
    · rename_i hc
      simp only [Bool.or_eq_true, Bool.not_eq_eq_eq_not, Bool.not_true, not_or,
        Bool.not_eq_false] at hc
      split at h
      · cases h
      · rename_i pid hp
        simp only [Sum.inr.injEq, Prod.mk.injEq] at h
        exact ⟨hc.1, h.2.symm, by rw [← h.2]; exact hc.2, pid, hp, h.1.symm⟩
  · rintro ⟨h1, rfl, h3, pid, hp, rfl⟩
    have h3' : bar ∈ trimSpace (cutBar e).2.1 := by simpa using h3
    simp [h1, h3', hp]

/-! ### the consumer: static controller, `Config.Validate`, `LookupTptAddr` resolution -/

/-- `NewController` succeeds exactly when no entry of the list is malformed, and `Config.Validate`
accepts exactly the same lists. -/
theorem staticController_iff (l : List Bytes) :
    ((newStaticController l).isSome ↔ malformed l = 0) ∧
    staticConfigValid l = (newStaticController l).isSome := by
  have he : (parsePeerAddressMap l).2 = malformed l := (peerAddressMap_spec l []).2.2.2.2
  unfold newStaticController staticConfigValid
  simp only
  rw [he]
  by_cases h : malformed l = 0 <;> simp [h]

/-- Resolving a `LookupTptAddr` directive for ANY peer ID `pid` through a controller built from the
list `l` yields a strictly sorted (duplicate-free) slice holding exactly the addresses `l` gives
for that peer — and no resolver at all (the empty slice) exactly when `l` gives none for it. -/
theorem staticLookup_spec (l : List Bytes) (m : List (Bytes × List Bytes))
    (h : newStaticController l = some m) (pid : Bytes) :
    SortedLt (resolveLookup m pid) ∧
    (∀ a, a ∈ resolveLookup m pid ↔ a ∈ given l (idB58Encode pid)) ∧
    (resolveLookup m pid = [] ↔ given l (idB58Encode pid) = []) := by
  have hm : m = (parsePeerAddressMap l).1 := by
    unfold newStaticController at h
    simp only at h
    split at h
    · cases h
    · injection h with h; exact h.symm
  have hs : SortedLt (valuesOf (parsePeerAddressMap l).1 (idB58Encode pid)) ∧
      (∀ a, a ∈ valuesOf (parsePeerAddressMap l).1 (idB58Encode pid) ↔ a ∈ given l (idB58Encode pid)) :=
    ⟨(peerAddressMap_spec l (idB58Encode pid)).1, (peerAddressMap_spec l (idB58Encode pid)).2.1⟩
  have hv : resolveLookup m pid = valuesOf (parsePeerAddressMap l).1 (idB58Encode pid) := by
    rw [hm]; rfl
  rw [hv]
  refine ⟨hs.1, hs.2, ?_⟩
  constructor
  · intro he
    cases hg : given l (idB58Encode pid) with
    | nil => rfl
    | cons a r =>
      have : a ∈ valuesOf (parsePeerAddressMap l).1 (idB58Encode pid) := (hs.2 a).mpr (by rw [hg]; simp)
      rw [he] at this
      cases this
  · intro he
    cases hg : valuesOf (parsePeerAddressMap l).1 (idB58Encode pid) with
    | nil => rfl
    | cons a r =>
      have : a ∈ given l (idB58Encode pid) := (hs.2 a).mp (by rw [hg]; simp)
      rw [he] at this
      cases this

/-- `ValidatePeerID` accepts exactly the strings `ParsePeerID` parses to a non-empty ID: it rejects
whatever the parser rejects, and the empty string. -/
theorem validatePeerId_iff (s : Bytes) :
    validatePeerId s = true ↔ ∃ id, parsePeerId s = some id ∧ id ≠ [] := by
  unfold validatePeerId
  cases h : parsePeerId s with
  | none => simp
  | some id =>
    cases id with
    | nil => simp
    | cons a r => simp

theorem validatePeerId_reject (s : Bytes) (h : parsePeerId s = none) : validatePeerId s = false := by
  unfold validatePeerId; rw [h]

/-! ### peer IDs -/

/-- The text of every accepted peer ID parses back to the same ID; the empty string is the
empty ID. -/
theorem parsePeerId_roundtrip (id : Bytes) (h : idFromBytes id = some id) :
    parsePeerId (idB58Encode id) = some id :=
  parsePeerId_of_valid id h

theorem parsePeerId_empty : parsePeerId [] = some [] := rfl

/-- Whatever `ParsePeerID` returns for a non-empty string is a well-formed ID (so it
formats and parses again to itself). -/
theorem parsePeerId_reparse (s id : Bytes) (hs : s ≠ []) (h : parsePeerId s = some id) :
    parsePeerId (idB58Encode id) = some id := by
  unfold parsePeerId at h
  have : s.isEmpty = false := by cases s <;> simp_all
  rw [this] at h
  simp only [Bool.false_eq_true, ↓reduceIte] at h
  unfold idB58Decode at h
  split at h
  · cases h
  · rename_i m hm
    have hid : idFromBytes id = some id := by
      obtain ⟨e, _⟩ := idFromBytes_some m id h
      rw [e] at h ⊢; exact h
    exact parsePeerId_roundtrip id hid

/-! ### wrappers around library parsers (the parser is a parameter with a round-trip law) -/

/-- Durations: `ParseDuration (MarshalDuration d ignoreEmpty) = d` for every duration and either
flag, given `time.ParseDuration (d.String()) = d` and that `String()` is never empty. -/
theorem duration_roundtrip (parse : Bytes → Option Int) (format : Int → Bytes)
    (law : ∀ d, parse (format d) = some d) (hne : ∀ d, format d ≠ [])
    (d : Int) (ignoreEmpty : Bool) :
    parseDuration parse (marshalDuration format d ignoreEmpty) = some d := by
  unfold parseDuration marshalDuration
  by_cases h : (d = 0 && !ignoreEmpty) = true
  · rw [if_pos h]
    simp only [Bool.and_eq_true, decide_eq_true_eq] at h
    simp [h.1]
  · rw [if_neg h]
    have : (format d).isEmpty = false := by
      cases hx : format d with
      | nil => exact absurd hx (hne d)
      | cons => rfl
    rw [this]
    exact law d

/-- Timestamps: `ParseTimestamp (MarshalTimestamp ts) = ts` for every present timestamp on
which the library round-trips (`json (quote (format t)) = some t`: RFC 3339 with nanoseconds is
read back exactly), and for the absent timestamp. -/
theorem timestamp_roundtrip (quote : Bytes → Bytes) (json : Bytes → Option Ts) (format : Ts → Bytes)
    (ts : Option Ts)
    (law : ∀ t, ts = some t → json (quote (format t)) = some t ∧ format t ≠ []) :
    parseTimestamp quote json (marshalTimestamp format ts) = some ts := by
  unfold parseTimestamp marshalTimestamp
  cases ts with
  | none => rfl
  | some t =>
    obtain ⟨h1, h2⟩ := law t rfl
    have : (format t).isEmpty = false := by
      cases hx : format t with
      | nil => exact absurd hx h2
      | cons => rfl
    simp [this, h1]

/-- What was wrong before the fix (F19): a formatter without sub-second digits (`format t`
depends on the seconds only, as `time.RFC3339` does) cannot round-trip a timestamp with
non-zero nanoseconds, even if the library reads back exactly what was written. -/
theorem seconds_only_format_loses_nanos (quote : Bytes → Bytes) (json : Bytes → Option Ts)
    (format : Ts → Bytes) (hsec : ∀ s n, format (s, n) = format (s, 0))
    (law : ∀ s, json (quote (format (s, 0))) = some (s, 0) ∧ format (s, 0) ≠ [])
    (s n : Int) (hn : n ≠ 0) :
    parseTimestamp quote json (marshalTimestamp format (some (s, n))) ≠ some (some (s, n)) := by
  have h := timestamp_roundtrip quote json format (some (s, 0)) (by
    intro t ht; injection ht with ht; subst ht; exact law s)
  unfold marshalTimestamp at h ⊢
  simp only at h ⊢
  rw [hsec s n, h]
  intro e
  injection e with e
  injection e with e
  injection e with _ e
  exact hn e.symm

/-- URLs and regular expressions: the empty string is "absent"; otherwise the wrapper is the
library parser, so it round-trips wherever the library does. -/
theorem optional_roundtrip {α : Type} (parse : Bytes → Option α) (format : α → Bytes) (v : α)
    (law : parse (format v) = some v) (hne : format v ≠ []) :
    parseOptional parse (format v) = some (some v) := by
  unfold parseOptional
  have : (format v).isEmpty = false := by
    cases hx : format v with
    | nil => exact absurd hx hne
    | cons => rfl
  simp [this, law]

theorem optional_empty {α : Type} (parse : Bytes → Option α) : parseOptional parse [] = some none := rfl

/-- `ParseURLs` keeps exactly the non-empty entries, in order (when every entry is acceptable). -/
theorem parseUrls_spec {α : Type} (parse : Bytes → Option α) : ∀ (l : List Bytes) (allow : Bool) (out : List α),
    parseUrls parse l allow = some out →
      (l.filter (fun s => !s.isEmpty)).map parse = out.map some ∧ (allow = false → ∀ s ∈ l, s ≠ [])
  | [], _, out, h => by
    simp [parseUrls] at h; subst h; simp
  | s :: rest, allow, out, h => by
    unfold parseUrls parseOptional at h
    cases s with
    | nil =>
      simp only [List.isEmpty_nil, ↓reduceIte] at h
      cases allow with
      | false => simp at h
      | true =>
        simp only [↓reduceIte] at h
        have ih := parseUrls_spec parse rest true out h
        simp [ih.1]
    | cons a r =>
      simp only [List.isEmpty_cons, Bool.false_eq_true, ↓reduceIte] at h
      cases hp : parse (a :: r) with
      | none => rw [hp] at h; simp at h
      | some v =>
        rw [hp] at h
        simp only at h
        cases hr : parseUrls parse rest allow with
        | none => rw [hr] at h; simp at h
        | some vs =>
          rw [hr] at h
          simp only [Option.some.injEq] at h
          subst h
          have ih := parseUrls_spec parse rest allow vs hr
          refine ⟨by simp [hp, ih.1], ?_⟩
          intro ha x hx
          rcases List.mem_cons.mp hx with rfl | hx
          · simp
          · exact ih.2 ha x hx

/-- The separators of the model are the ones in the source (re-extracted on every run). -/
theorem separators_match_source :
    Gen.ConfigConsts.tptAddrDelimiter = bar.toNat ∧ Gen.ConfigConsts.peerAddrCutSep = [bar] ∧
    Gen.ConfigConsts.peerAddrContainsSep = [bar] := by decide

/-- `MarshalTimestamp` formats with the layout that keeps nanoseconds (`time.RFC3339Nano`) — the
layout for which the harness validates the library law assumed by `timestamp_roundtrip`. -/
theorem timestamp_layout_keeps_nanoseconds :
    Gen.ConfigConsts.timestampLayout = [82, 70, 67, 51, 51, 51, 57, 78, 97, 110, 111] := by decide

/-- Non-vacuity: the laws are satisfiable (a toy sign-and-unary duration format; a
timestamp with non-zero nanoseconds) and the theorems fire. -/
example : ∀ d ie, parseDuration
    (fun b => match b with
      | 45 :: r => some (-(r.length : Int))
      | 43 :: r => some (r.length : Int)
      | _ => none)
    (marshalDuration (fun d => if d < 0 then 45 :: List.replicate (-d).toNat 1 else 43 :: List.replicate d.toNat 1) d ie)
    = some d := by
  intro d ie
  apply duration_roundtrip
  · intro d
    by_cases h : d < 0
    · simp only [h, ↓reduceIte, List.length_replicate]
      congr 1; omega
    · simp only [h, ↓reduceIte, List.length_replicate]
      congr 1; omega
  · intro d; split <;> simp

example : parseTimestamp id (fun _ => some (5, 7)) (marshalTimestamp (fun _ => [1]) (some (5, 7))) = some (some (5, 7)) :=
  timestamp_roundtrip id _ _ _ (by intro t ht; injection ht with ht; subst ht; simp)

example : (parsePeerAddressMap [[49, 49, 124, 98, 124, 99], [49, 49, 124, 97, 124], [32, 49, 49, 124, 98, 124, 99, 32], [120]]) =
    ([([49, 49], [[97, 124], [98, 124, 99]])], 1) := by decide

example : (newStaticController [[49, 49, 124, 98, 124, 99], [32, 49, 49, 124, 97, 124, 32], [49, 49, 124, 98, 124, 99]]).map (fun m => resolveLookup m [0, 0]) =
    some [[97, 124], [98, 124, 99]] ∧ newStaticController [[120]] = none := by decide

example : parseTptAddr [117, 100, 112, 124, 49, 124, 50] = some ([117, 100, 112], [49, 124, 50]) := by decide

end Bifrost.Props.C38
