import Bifrost.Model.ProtoWire
import Bifrost.Model.Framing
import Bifrost.Model.Packets
import Bifrost.Gen.Limits
import Bifrost.Lemmas.Decoders
import Bifrost.Props.C07
import Bifrost.Props.C08
/-!
C40 — Network-facing decoders withstand arbitrary input.
PARTIAL by nature: the models are total Lean functions, so "returns a value or an error" is
trivially true of them; what is proved here are the ALLOCATION bounds (nothing is allocated from
an attacker-chosen length before it has been checked against the limit / the input size). That
the real decoders (incl. generated protobuf code and third-party libraries) never panic is
evidence from the correspondence runs (structured mutation + random bytes under `recover`), and
the panic theorems of the individual decoders live in C12, C13, C14, C18.
-/
namespace Bifrost.Props.C40
open Bifrost Bifrost.Framing Bifrost.Packets

abbrev headerLimit : Nat := Bifrost.Gen.Limits.streamEstablishMaxPacketSize

/-- Stream-establish header: for ANY byte stream and ANY chunking, also when decoding fails, at
most `4 + limit` bytes are allocated. -/
theorem header_alloc_bounded (max : Nat) (cs : Reader) : readHeaderAlloc max cs ≤ 4 + max :=
  Bifrost.Framing.readHeaderAlloc_le max cs

/-- Length-prefixed packets / messages: whatever the stream contains, no single receive buffer
exceeds the configured limit. -/
theorem packet_alloc_bounded (max fuel : Nat) (cs : Reader) : rxMaxAlloc max fuel cs ≤ max :=
  Bifrost.Packets.rxMaxAlloc_le max fuel cs

/-- Protobuf decoding (generated `UnmarshalVT`): a length-delimited field is only materialised
if the announced length fits in what is left of the input… -/
theorem takeLen_bounded (d p rest : Bytes) (h : PW.takeLen d = .ok (p, rest)) :
    p.length + rest.length ≤ d.length := by
  have := PW.takeLen_lt d p rest h
  omega

/-- …so every decoded field, the number of fields, and the retained unknown bytes are bounded
by the size of the (already size-limited) input: decoding cannot be made to allocate more than
a constant factor of the message it was given. -/
theorem decode_bounded (s : PW.Schema) (d : Bytes) (r : PW.Raw) (h : PW.decode s d = .ok r) :
    (∀ f ∈ r.fields, match f.2 with | .bytes b => b.length ≤ d.length | .varint _ => True) ∧
    r.fields.length ≤ d.length ∧ r.unknown.length ≤ d.length := by
  obtain ⟨h1, h2, h3⟩ := PW.decode_inv s d r h
  refine ⟨?_, by simpa using h2, by simpa using h3⟩
  intro f hf
  split
  · rename_i b hb
    exact h1 f hf b hb
  · trivial

/-- The framing bounds proved for the individual decoders (re-exported). -/
theorem header_accepted_bounded (cs : Reader) (pid : Bytes) (r : Reader) (a : Nat)
    (h : readHeader headerLimit cs = .ok (pid, r, a)) : 0 < a ∧ a ≤ headerLimit :=
  ((Bifrost.Props.C07.accepted_valid_and_bounded headerLimit cs pid r a h).2)

theorem packets_delivered_bounded (max fuel : Nat) (cs : Reader) :
    ∀ p ∈ (rxPump max fuel cs).1, 0 < p.length ∧ p.length ≤ max :=
  Bifrost.Props.C08.rx_bounded max fuel cs

theorem messages_delivered_bounded (max fuel : Nat) (cs : Reader) :
    ∀ m ∈ (recvMsgs max fuel cs).1, m.length ≤ max :=
  Bifrost.Props.C08.session_bounded max fuel cs

example : readHeaderAlloc 100000 [[0xff, 0xff, 0xff, 0x7f, 1, 2, 3]] = 4 := by decide

end Bifrost.Props.C40
