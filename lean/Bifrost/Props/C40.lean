import Bifrost.Model.ProtoWire
import Bifrost.Model.Framing
import Bifrost.Model.Packets
import Bifrost.Gen.Limits
import Bifrost.Lemmas.Decoders
import Bifrost.Props.C07
import Bifrost.Props.C08
/-!
C40 — Network-facing decoders withstand arbitrary input.
PARTIAL by nature: the models are total Lean functions, so "returns a value or an error" is
trivially true of them; what is proved here are the ALLOCATION bounds (nothing is allocated from
an attacker-chosen length before it has been checked against the limit / the input size). That
the real decoders (incl. generated protobuf code and third-party libraries) never panic is
evidence from the correspondence runs (structured mutation + random bytes under `recover`), and
the panic theorems of the individual decoders live in C12, C13, C14, C18.
-/
namespace Bifrost.Props.C40
open Bifrost Bifrost.Framing Bifrost.Packets

abbrev headerLimit : Nat := Bifrost.Gen.Limits.streamEstablishMaxPacketSize

/-- Stream-establish header: for ANY byte stream and ANY chunking, also when decoding fails, at
most `4 + limit` bytes are allocated. -/
theorem header_alloc_bounded (max : Nat) (cs : Reader) : readHeaderAlloc max cs ≤ 4 + max :=
  Bifrost.Framing.readHeaderAlloc_le max cs

/-- Length-prefixed packets / messages: whatever the stream contains, no single receive buffer
exceeds the configured limit. -/
theorem packet_alloc_bounded (max fuel : Nat) (cs : Reader) : rxMaxAlloc max fuel cs ≤ max :=
  Bifrost.Packets.rxMaxAlloc_le max fuel cs

/-- Protobuf decoding (generated `UnmarshalVT`): a length-delimited field is only materialised
if the announced length fits in what is left of the input… -/
theorem takeLen_bounded (d p rest : Bytes) (h : PW.takeLen d = .ok (p, rest)) :
    p.length + rest.length ≤ d.length := by
  have := PW.takeLen_lt d p rest h
  omega

/-- …so every decoded field, the number of fields, and the retained unknown bytes are bounded
by the size of the (already size-limited) input: decoding cannot be made to allocate more than
a constant factor of the message it was given. -/
theorem decode_bounded (s : PW.Schema) (d : Bytes) (r : PW.Raw) (h : PW.decode s d = .ok r) :
    (∀ f ∈ r.fields, match f.2 with | .bytes b => b.length ≤ d.length | .varint _ => True) ∧
    r.fields.length ≤ d.length ∧ r.unknown.length ≤ d.length := by
  obtain ⟨h1, h2, h3⟩ := PW.decode_inv s d r h
  refine ⟨?_, by simpa using h2, by simpa using h3⟩
  intro f hf
  split
  · rename_i b hb
    exact h1 f hf b hb
  · trivial

/-- The framing bounds proved for the individual decoders (re-exported). -/
theorem header_accepted_bounded (cs : Reader) (pid : Bytes) (r : Reader) (a : Nat)
    (h : readHeader headerLimit cs = .ok (pid, r, a)) : 0 < a ∧ a ≤ headerLimit :=
  ((Bifrost.Props.C07.accepted_valid_and_bounded headerLimit cs pid r a h).2)

theorem packets_delivered_bounded (max fuel : Nat) (cs : Reader) :
    ∀ p ∈ (rxPump max fuel cs).1, 0 < p.length ∧ p.length ≤ max :=
  Bifrost.Props.C08.rx_bounded max fuel cs

theorem messages_delivered_bounded (max fuel : Nat) (cs : Reader) :
    ∀ m ∈ (recvMsgs max fuel cs).1, m.length ≤ max :=
  Bifrost.Props.C08.session_bounded max fuel cs

/-! ### The packet sessions the code actually builds

`Gen.Limits.floodsubSessionLimit`, `solicitInitiateSessionLimit` and `solicitHandlerSessionLimit`
are the size-limit ARGUMENTS of the three `stream_packet.NewSession` calls (floodsub
`AddPeerStream`; solicit `initiateControlStream` and `HandleMountedStream`), extracted by the
translator as written at the call site; `floodsubMaxMessageSize` / `solicitMaxMessageSize` are the
package constants. The budgets are the documented limits of the two protocols: floodsub
"constrains the message buffer allocation size" to 2,000,000 bytes; the solicit control stream
carries at most 256 hashes of 32 bytes, with a factor 2 of head-room. Raising a constant, or
passing anything larger at a call site, changes one of these proof obligations. -/

/-- Documented per-message budget of the floodsub stream. -/
def pubsubBudget : Nat := 2000000
/-- Documented per-message budget of the solicit control stream. -/
def solicitBudget : Nat := 256 * 32 * 2

/-- Every receive buffer of a `RecvMsg` read loop is non-empty and within the session's limit —
for any stream, any chunking, and whatever the decoder makes of each message. -/
theorem read_loop_allocs_bounded (max fuel : Nat) (cs : Reader) (oks : List Bool) :
    ∀ n ∈ recvAllocs max fuel cs oks, 0 < n ∧ n ≤ max :=
  Bifrost.Packets.recvAllocs_bounded max fuel cs oks

/-- Each session is built with the package's limit constant, unchanged. -/
theorem sessions_use_the_package_limit :
    Bifrost.Gen.Limits.floodsubSessionLimit = Bifrost.Gen.Limits.floodsubMaxMessageSize ∧
    Bifrost.Gen.Limits.solicitInitiateSessionLimit = Bifrost.Gen.Limits.solicitMaxMessageSize ∧
    Bifrost.Gen.Limits.solicitHandlerSessionLimit = Bifrost.Gen.Limits.solicitMaxMessageSize := by
  decide

/-- The limits fit the 32-bit parameter of `NewSession` and the 32-bit length prefix (a larger
constant would wrap in the conversion, or could never be exceeded by a prefix). -/
theorem session_limits_fit_uint32 :
    Bifrost.Gen.Limits.floodsubSessionLimit < 2 ^ 32 ∧
    Bifrost.Gen.Limits.solicitInitiateSessionLimit < 2 ^ 32 ∧
    Bifrost.Gen.Limits.solicitHandlerSessionLimit < 2 ^ 32 := by
  decide

/-- floodsub (`AddPeerStream` → `readPump`): no message of a remote peer makes the read loop
allocate more than the floodsub budget, whatever bytes the peer sends. -/
theorem floodsub_read_loop_alloc_bounded (fuel : Nat) (cs : Reader) (oks : List Bool) :
    ∀ n ∈ recvAllocs Bifrost.Gen.Limits.floodsubSessionLimit fuel cs oks, n ≤ pubsubBudget := by
  intro n hn
  have h := (read_loop_allocs_bounded _ fuel cs oks n hn).2
  have hb : Bifrost.Gen.Limits.floodsubSessionLimit ≤ pubsubBudget := by decide
  exact Nat.le_trans h hb

/-- solicit control stream, outgoing (`initiateControlStream`) and incoming
(`HandleMountedStream`): never more than the solicit budget per message. -/
theorem solicit_control_alloc_bounded (fuel : Nat) (cs : Reader) (oks : List Bool) :
    (∀ n ∈ recvAllocs Bifrost.Gen.Limits.solicitInitiateSessionLimit fuel cs oks, n ≤ solicitBudget) ∧
    (∀ n ∈ recvAllocs Bifrost.Gen.Limits.solicitHandlerSessionLimit fuel cs oks, n ≤ solicitBudget) := by
  have hi : Bifrost.Gen.Limits.solicitInitiateSessionLimit ≤ solicitBudget := by decide
  have hh : Bifrost.Gen.Limits.solicitHandlerSessionLimit ≤ solicitBudget := by decide
  exact ⟨fun n hn => Nat.le_trans (read_loop_allocs_bounded _ fuel cs oks n hn).2 hi,
         fun n hn => Nat.le_trans (read_loop_allocs_bounded _ fuel cs oks n hn).2 hh⟩

/-- The largest buffer either loop can be made to allocate is the limit itself, and it takes a
prefix within the limit to get it: one byte more is refused before anything is allocated
(non-vacuity of the bounds at the boundary, evaluated at the generated limits). -/
example :
    recvAllocs Bifrost.Gen.Limits.solicitHandlerSessionLimit 10 [le32 16384] [] = [16384] ∧
    recvAllocs Bifrost.Gen.Limits.solicitHandlerSessionLimit 10 [le32 16385] [] = [] ∧
    recvAllocs Bifrost.Gen.Limits.floodsubSessionLimit 10 [le32 2000000, [1]] [] = [2000000] ∧
    recvAllocs Bifrost.Gen.Limits.floodsubSessionLimit 10 [le32 2000001, [1]] [] = [] ∧
    recvAllocs 10 100 [[2, 0, 0, 0, 7, 8, 0, 0, 0, 0, 3, 0, 0, 0, 1, 2, 3, 5, 0, 0, 0]] [true, false] = [2, 3] := by
  decide

example : readHeaderAlloc 100000 [[0xff, 0xff, 0xff, 0x7f, 1, 2, 3]] = 4 := by decide

end Bifrost.Props.C40
