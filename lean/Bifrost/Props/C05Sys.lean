import Bifrost.Model.DialSys
import Bifrost.Lemmas.DialSysProgress
import Bifrost.Lemmas.DialSysStuck
/-!
C05 through the whole stack — `Controller.DialPeerAddr` / `DialTptAddr` directives /
`EstablishLinkWithPeer`-triggered dials → the link dialers keyed (peer, address) with their `lnk`
container → `dialer.Dialer.Execute` (retry loop) → `transport_quic.Transport.DialPeer` (the
already-connected check, the shared `t.dialers[addr]` entry, the peer check) →
`transport_quic.Dialer.Execute` → `HandleSession`, composed with the address table and the
controller tables (`Bifrost.QuicTable`), which feed back through `flushEstablishedLink`.

Model: `Bifrost.DialSys` (`cfg : Cfg` selects the code: the defaults are the code as it is, with
"fix: quic DialPeer yields the link already established with the requested peer",
"fix: link dialer whose link was replaced takes over the replacement" and "fix: DialTptAddr with an empty
source peer id was never resolved"). Every theorem quantifies over ALL step sequences `ops`:
every order in which the Go scheduler can run the critical sections and goroutine bodies, any
number of requests, keys, dial attempts, answers by the intended peer / an impostor / nobody,
inbound sessions and link losses; every uuid function, every `MatchTransportType`, every local
peer id `lp`. An attempt "answered by `p`" is an authenticated handshake with `p` (C03).
-/
namespace Bifrost.Props.C05Sys
open Bifrost Bifrost.DialSys
open Bifrost.Links (Link)

/-! ### (a) authenticity through the whole stack -/

/-- The link stored for key (X, addr) is a link to X (a link object made by a session of this
transport) — whoever answered earlier attempts, whichever peer the dialer occupying
`t.dialers[addr]` was created for, whoever is connected at addr, whatever replaced what. For
EVERY version of the code (`cfg` arbitrary) and every uuid function (collisions included). -/
theorem stored_link_authentic (cfg : Cfg) (lp : Nat) (ops : List Op) (ld : LDialer) (l : Link)
    (hld : ld ∈ (run cfg lp ops).lds) (hl : ld.lnk = some l) :
    ld.key.1 ≠ 0 ∧ l.remote = ld.key.1 ∧ ∃ a, (a, l) ∈ (run cfg lp ops).q.created := by
  obtain ⟨h1, _, _, h4⟩ := (wf_run cfg lp ops).ld_ok ld hld
  exact ⟨h1, (h4 l hl).1, (h4 l hl).2.1⟩

/-- Every value returned by `DialPeerAddr(X, addr)` is a link to X. -/
theorem returned_link_authentic (cfg : Cfg) (lp : Nat) (ops : List Op) (x a : Nat) (l : Link)
    (h : ((x, a), l) ∈ (run cfg lp ops).returned) :
    l.remote = x ∧ ∃ b, (b, l) ∈ (run cfg lp ops).q.created :=
  (wf_run cfg lp ops).ret_ok _ h

/-- Every value pushed to a `DialTptAddr(opts, src, X)` directive is a link to X; the directive
passed the resolver's decision. -/
theorem pushed_link_authentic (cfg : Cfg) (lp : Nat) (ops : List Op) (d : TptDir) (l : Link)
    (h : (d, l) ∈ (run cfg lp ops).pushed) :
    l.remote = d.dst ∧ ∃ addr, resolveTpt cfg lp d = some (d.dst, addr) ∧
      ∃ b, (b, l) ∈ (run cfg lp ops).q.created := by
  obtain ⟨k, hk, h2, h3⟩ := (wf_run cfg lp ops).push_ok _ h
  unfold tptKey at hk
  cases hr : resolveTpt cfg lp d with
  | none => simp [hr] at hk
  | some r =>
    simp only [hr, Option.map_some, Option.some.injEq] at hk
    subst hk
    have hdst : r.1 = d.dst := by
      unfold resolveTpt at hr
      (repeat' split at hr) <;> first | (cases hr; rfl) | cases hr
    refine ⟨h2.trans hdst, r.2, ?_, h3⟩
    rw [← hdst]

/-- What a dial attempt hands to the routines awaiting it is the link of the session it made,
whose remote peer is whoever answered — the comparison with the requested peer happens in each
`DialPeer` call, after `Await`. -/
theorem dialer_result_is_session (cfg : Cfg) (lp : Nat) (ops : List Op) (qd : QDialer) (l : Link)
    (hqd : qd ∈ (run cfg lp ops).qdialers) (hres : qd.res = .link l) :
    (cfg.resolve qd.addr, l) ∈ (run cfg lp ops).q.created :=
  (wf_run cfg lp ops).res_cr qd hqd l hres

def cfg0 : Cfg := { U := fun a p => a * 1000 + p, matchType := fun t => t = "mem".toList, addrNo := fun a => a.length }

/-- dial addresses ≥ 100 are names: they resolve to the remote address 100 below -/
def cfgR : Cfg := { cfg0 with resolve := fun a => if a ≥ 100 then a - 100 else a }

/-- Non-vacuity: key (2, 5) and key (3, 5) requested concurrently; the dialer created for peer 3
occupies `t.dialers[5]` and is shared by the routine of key (2, 5); peer 2 answers: the link is
stored under (2, 5) only, key (3, 5) backs off. -/
example :
    let s := run cfg0 1 [.addRef (3, 5), .rtCheck (3, 5), .rtAttach (3, 5), .addRef (2, 5), .rtCheck (2, 5),
      .rtAttach (2, 5), .answer 0 2, .rtAwait (2, 5), .rtAwait (3, 5), .rtStore (2, 5), .ret (2, 5)]
    s.qdialers.map (·.peer) = [3] ∧
    (getLD s (2, 5)).map (·.lnk) = some (some ⟨0, 5002, 2⟩) ∧
    (getLD s (3, 5)).map (fun ld => (ld.lnk, ld.rt)) = some (none, .backoff) ∧
    s.returned = [((2, 5), ⟨0, 5002, 2⟩)] := by decide

/-- Non-vacuity: an impostor (peer 3) is connected at address 5: the routine of key (2, 5)
backs off ("already connected … different peer id") and nothing is stored. -/
example :
    let s := run cfg0 1 [.inbound 5 3, .addRef (2, 5), .rtCheck (2, 5)]
    (getLD s (2, 5)).map (fun ld => (ld.lnk, ld.rt)) = some (none, .backoff) := by decide

/-! ### (b) an impostor's link is never stored under X's key, and does not stop later attempts -/

/-- No reachable state holds a link to another peer in the container of a key of X. -/
theorem impostor_never_stored (cfg : Cfg) (lp : Nat) (ops : List Op) (x a y : Nat) (ld : LDialer) (l : Link)
    (hld : ld ∈ (run cfg lp ops).lds) (hk : ld.key = (x, a)) (hl : ld.lnk = some l) (hy : l.remote = y) :
    y = x := by
  have := (stored_link_authentic cfg lp ops ld l hld hl).2.1
  rw [hk] at this
  exact hy.symm.trans this

/-- No stuck state: in every reachable state, an unresolved key is never finished — a step of
its routine is enabled, or the routine awaits a dial attempt that is still pending (which the
environment answers, as X, as an impostor, or not at all). -/
theorem no_stuck_state (cfg : Cfg) (hfix : Fixed cfg) (lp : Nat) (ops : List Op) (k : Key) (ld : LDialer)
    (hg : getLD (run cfg lp ops) k = some ld) (hnone : ld.lnk = none) :
    enabled cfg lp (run cfg lp ops) (.rtCheck k) = true ∨ enabled cfg lp (run cfg lp ops) (.rtAttach k) = true ∨
    enabled cfg lp (run cfg lp ops) (.rtAwait k) = true ∨ enabled cfg lp (run cfg lp ops) (.rtTimer k) = true ∨
    enabled cfg lp (run cfg lp ops) (.rtStore k) = true ∨
    ∃ d, ld.rt = .awaiting d ∧ ∀ who, enabled cfg lp (run cfg lp ops) (.answer d who) = true := by
  have hwf := wf_run cfg lp ops
  obtain ⟨hmem, _⟩ := getLD_some hg
  have hlive := live_run hfix lp ops ld hmem hnone
  cases hrt : ld.rt with
  | idle => left; simp [enabled, hg, hrt]
  | checked => right; left; simp [enabled, hg, hrt]
  | backoff => right; right; right; left; simp [enabled, hg, hrt]
  | got ol => right; right; right; right; left; simp [enabled, hg, hrt]
  | done => exact absurd hrt hlive.1
  | awaiting d =>
    obtain ⟨dlt, _⟩ := (hwf.ld_ok ld hmem).2.1 d hrt
    obtain ⟨qd, hqd⟩ := hwf.getQD_of_lt dlt
    by_cases hp : qd.res = .pending
    · right; right; right; right; right
      exact ⟨d, rfl, fun who => by simp [enabled, hqd, hp]⟩
    · right; right; left
      simp [enabled, hg, hrt, hqd, hp]

/-- Progress ("alternately by both over time"): from EVERY reachable state — whatever impostors
answered before, whatever was stored, lost and restarted — in which no other peer's link occupies
the address, the unresolved key (X, addr) resolves with a link to X: by steps of its own routine,
the removal of finished dialers, and dial attempts answered by X. -/
theorem pending_resolves (cfg : Cfg) (hfix : Fixed cfg) (lp : Nat) (ops : List Op) (k : Key) (ld : LDialer)
    (hg : getLD (run cfg lp ops) k = some ld) (hnone : ld.lnk = none)
    (hno : ∀ l, QuicTable.lookupAddr (run cfg lp ops).q k.2 = some l → l.remote = k.1) :
    ∃ tail, (∀ op ∈ tail, Internal k op) ∧
      ∃ ld' l, getLD (run cfg lp (ops ++ tail)) k = some ld' ∧ ld'.lnk = some l ∧ l.remote = k.1 := by
  obtain ⟨tail, h1, h2⟩ :=
    prog_any hfix (wf_run cfg lp ops) (qinv_run cfg lp ops) (live_run hfix lp ops) hg hnone hno
  refine ⟨tail, h1, ?_⟩
  rw [run_append]; exact h2

/-- A finished dialer does not stay in `t.dialers`: in every reachable state, an entry whose
dialer has finished (with a link or with an error) has its deferred removal pending; so once every
finished `Dialer.Execute` has run its deferred function, every entry of the map is a dial attempt
still in progress — whatever the dial address resolves to (`HandleSession` deletes the entry of
the REMOTE address string, which need not be the dial address string the dialer is entered under). -/
theorem no_finished_dialer_at_quiescence (cfg : Cfg) (lp : Nat) (ops : List Op)
    (hq : dialersQuiescent (run cfg lp ops) = true) (a d : Nat) (qd : QDialer)
    (he : (a, d) ∈ (run cfg lp ops).dmap) (hqd : qd ∈ (run cfg lp ops).qdialers) (hid : qd.id = d) :
    qd.res = .pending ∧ qd.addr = a := by
  have hwf := wf_run cfg lp ops
  refine ⟨?_, (hwf.dmap_ok _ he).2 qd hqd hid⟩
  apply Classical.byContradiction
  intro hne
  have := hwf.fin_pend _ he qd hqd hid hne
  simp only [dialersQuiescent, List.isEmpty_iff] at hq
  rw [hq] at this; cases this

/-- … and that state is reachable from every state by running the pending deferred removals only. -/
theorem dialers_reach_quiescence (cfg : Cfg) (lp : Nat) (ops : List Op) :
    ∃ tail, (∀ op ∈ tail, ∃ d, op = .dexit d) ∧ dialersQuiescent (run cfg lp (ops ++ tail)) = true := by
  obtain ⟨tail, h1, h2⟩ := drain_exits cfg lp _ (run cfg lp ops) rfl (wf_run cfg lp ops) (qinv_run cfg lp ops)
  refine ⟨tail, h1, ?_⟩
  rw [run_append]
  simp [dialersQuiescent, h2]

/-- Non-vacuity, with a dial address (105) that resolves to another remote address (5): the
impostor 3 answers; `HandleSession` deletes `t.dialers[5]`, not the entry under 105; the deferred
removal takes the finished dialer out; the key retries with a NEW dial attempt (the
already-connected check does not see the link under 5), which peer 2 answers. -/
example :
    let s := run cfgR 1 [.addRef (2, 105), .rtCheck (2, 105), .rtAttach (2, 105), .answer 0 3]
    let s2 := runs cfgR 1 s [.dexit 0, .rtAwait (2, 105), .rtTimer (2, 105), .rtCheck (2, 105), .rtAttach (2, 105),
        .answer 1 2, .dexit 1, .rtAwait (2, 105), .rtStore (2, 105)]
    s.dmap = [(105, 0)] ∧ s.pendExit = [0] ∧ s.q.table = [(5, ⟨0, 5003, 3⟩)] ∧
    s2.dmap = [] ∧ dialersQuiescent s2 = true ∧
    (getLD s2 (2, 105)).map (·.lnk) = some (some ⟨1, 5002, 2⟩) := by decide

/-- While another peer's link occupies the address, the key keeps retrying: the already-connected
check sends it to the backoff, nothing is dialed, nothing is stored. -/
theorem occupied_keeps_retrying (cfg : Cfg) (lp : Nat) (s : State) (k : Key) (ld : LDialer) (l : Link)
    (hg : getLD s k = some ld) (hrt : ld.rt = .idle)
    (hl : QuicTable.lookupAddr s.q k.2 = some l) (hne : l.remote ≠ k.1) :
    step cfg lp s (.rtCheck k) = setLD s { ld with rt := .backoff } := by
  simp [step, hg, hrt, hl, hne]

/-- Non-vacuity: impostor 3 answers the first attempt of key (2, 5) and stays connected; the key
retries against the occupied address; the impostor's link is closed and lost; the next attempt
is answered by 2 and resolves. Nothing of peer 3 is ever stored or returned. -/
example :
    let s := run cfg0 1 [.addRef (2, 5), .rtCheck (2, 5), .rtAttach (2, 5), .answer 0 3, .rtAwait (2, 5),
      .rtTimer (2, 5), .rtCheck (2, 5), .rtTimer (2, 5), .close 0, .runLost 5 ⟨0, 5003, 3⟩, .rtCheck (2, 5),
      .rtAttach (2, 5), .answer 1 2, .rtAwait (2, 5), .rtStore (2, 5), .ret (2, 5)]
    s.returned = [((2, 5), ⟨1, 5002, 2⟩)] ∧ (getLD s (2, 5)).map (·.lnk) = some (some ⟨1, 5002, 2⟩) := by
  decide

/-- The code BEFORE "fix: quic DialPeer yields the link already established with the requested
peer": `DialPeer` returned `(nil, false, nil)` when already connected to the requested peer, the
routine stored nil and returned. History: `DialPeerAddr(2, addr 5)` succeeds and returns; a
second `DialPeerAddr(2, addr 5)` finds the (live, open) link in the address table — its dialer
finishes with an empty container. -/
def cfgNoYield : Cfg := { cfg0 with yieldExisting := false }

def dialTwice : List Op :=
  [.addRef (2, 5), .rtCheck (2, 5), .rtAttach (2, 5), .answer 0 2, .rtAwait (2, 5), .rtStore (2, 5),
    .ret (2, 5), .release (2, 5), .runEst ⟨0, 5002, 2⟩, .addRef (2, 5), .rtCheck (2, 5), .rtStore (2, 5)]

/-- … and that state is stuck FOREVER: whatever happens afterwards (X answering, the link being
lost, further requests for the same key), as long as the waiting caller holds its reference the
routine is never started again and the caller never gets a link — although a live link to X at
that address exists. `pending_resolves` is false of that code. -/
theorem unfixed_second_dial_hangs_forever (tail : List Op)
    (hrel : ∀ op ∈ tail, ¬ Releases cfgNoYield 1 (2, 5) op) :
    QuicTable.lookupAddr (run cfgNoYield 1 dialTwice).q 5 = some ⟨0, 5002, 2⟩ ∧
    (0 : Nat) ∉ (run cfgNoYield 1 dialTwice).q.closedCb ∧
    DoneEmpty (run cfgNoYield 1 (dialTwice ++ tail)) (2, 5) := by
  refine ⟨by decide, by decide, ?_⟩
  rw [run_append]
  apply doneEmpty_runs tail (wf_run _ _ _) (qinv_run _ _ _) _ hrel
  exact ⟨⟨(2, 5), 1, none, .done⟩, by decide, rfl, rfl, rfl⟩

/-- The same history on the code as it is: the second call gets the existing link. -/
example :
    let s := run cfg0 1 (dialTwice ++ [.ret (2, 5)])
    s.returned = [((2, 5), ⟨0, 5002, 2⟩), ((2, 5), ⟨0, 5002, 2⟩)] := by decide

/-- In the code as it is no reachable state has a finished routine with an empty container. -/
theorem fixed_never_done_empty (cfg : Cfg) (hfix : Fixed cfg) (lp : Nat) (ops : List Op) (k : Key) :
    ¬ DoneEmpty (run cfg lp ops) k := by
  rintro ⟨x, hx, _, hl, hr⟩
  exact (live_run hfix lp ops x hx hl).1 hr

/-! ### (c) restart after loss -/

/-- `flushEstablishedLink(el, false)` from `HandleLinkLost`: every dialer of el's peer whose
container holds el is cleared and its routine restarted. -/
theorem lost_clears_and_restarts (cfg : Cfg) (lp : Nat) (ops : List Op) (l : Link) (ld : LDialer)
    (hpend : l ∈ (run cfg lp ops).q.pendCtrlLost) (hctrl : l ∈ (run cfg lp ops).q.ctrl.links)
    (hld : ld ∈ (run cfg lp ops).lds) (hl : ld.lnk = some l) :
    ({ ld with lnk := none, rt := .idle } : LDialer) ∈ (run cfg lp (ops ++ [.runCtrlLost l])).lds := by
  rw [run_snoc]
  simp only [step, hpend, if_true]
  rw [flushedBy_lost_of_mem (ctrl_nd_uuid (qinv_run cfg lp ops)) hctrl]
  apply applyFlushes_single_hit cfg hld
  exact ⟨(stored_link_authentic cfg lp ops ld l hld hl).2.1.symm, hl⟩

/-- When the link is replaced by a newer one with the same uuid (`flushEstablishedLink(el, true,
lnk)` from `HandleLinkEstablished`): in the code as it is the dialer takes over the replacement
if that is a link to its peer (no second dial; it is restarted when the replacement is lost, by
`lost_clears_and_restarts`); if the uuid collides with a link to another peer it is cleared and
restarted. Never is it left finished with an empty container. -/
theorem replaced_takes_over (cfg : Cfg) (hfix : Fixed cfg) (lp : Nat) (ops : List Op) (l el : Link)
    (ld : LDialer) (hpend : l ∈ (run cfg lp ops).q.pendEst)
    (hfl : flushedBy (run cfg lp ops).q.ctrl (.est l) = [(el, true, some l)])
    (hld : ld ∈ (run cfg lp ops).lds) (hl : ld.lnk = some el) :
    (l.remote = ld.key.1 → ({ ld with lnk := some l } : LDialer) ∈ (run cfg lp (ops ++ [.runEst l])).lds) ∧
    (l.remote ≠ ld.key.1 →
      ({ ld with lnk := none, rt := .idle } : LDialer) ∈ (run cfg lp (ops ++ [.runEst l])).lds) := by
  rw [run_snoc]
  simp only [step, hpend, if_true, hfl, applyFlushes, List.foldl_cons, List.foldl_nil]
  have hh : ld.key.1 = el.remote ∧ ld.lnk = some el :=
    ⟨(stored_link_authentic cfg lp ops ld el hld hl).2.1.symm, hl⟩
  constructor
  · intro hrem
    refine List.mem_map.2 ⟨ld, hld, ?_⟩
    simp [restartOne, hh, hfix.2, hrem]
  · intro hrem
    refine List.mem_map.2 ⟨ld, hld, ?_⟩
    have hrem' : ¬ l.remote = el.remote := hh.1 ▸ hrem
    simp [restartOne, hh, hfix.2, hrem']

/-- A controller section touches no other dialer: dialers of OTHER peers and dialers holding
OTHER links (or none) are exactly as before; and the links a section flushes are: the lost link
object itself (`HandleLinkLost`), resp. the older object with the uuid of the new link
(`HandleLinkEstablished`). -/
theorem others_untouched (cfg : Cfg) (lp : Nat) (ops : List Op) (l : Link) (ld : LDialer)
    (hld : ld ∈ (run cfg lp ops).lds) :
    ((∀ el, ld.lnk = some el → el.id = l.id → ld.key.1 ≠ el.remote) →
      ld ∈ (run cfg lp (ops ++ [.runCtrlLost l])).lds) ∧
    ((∀ el, ld.lnk = some el → el.uuid = l.uuid → el.id ≠ l.id → ld.key.1 ≠ el.remote) →
      ld ∈ (run cfg lp (ops ++ [.runEst l])).lds) := by
  constructor
  · intro h
    rw [run_snoc]
    simp only [step]
    split
    · apply applyFlushes_nohit cfg _ _ ld hld
      intro f hf hh
      obtain ⟨_, hid, _⟩ := flushedBy_lost (el := f.1) (hn := f.2.1) (nx := f.2.2) hf
      exact h f.1 hh.2 hid hh.1
    · exact hld
  · intro h
    rw [run_snoc]
    simp only [step]
    split
    · apply applyFlushes_nohit cfg _ _ ld hld
      intro f hf hh
      obtain ⟨_, hu, hid, _⟩ := flushedBy_est (el := f.1) (hn := f.2.1) (nx := f.2.2) hf
      exact h f.1 hh.2 hu hid hh.1
    · exact hld

/-- FALSE at full strength: "at quiescence no container holds a closed link". Two schedules
leave a dead link stored (and the routine finished, so never restarted):
(1) the F25 schedule — the controller processes the establishment of the link after its loss;
(2) the routine is preempted between `DialPeer` returning and `l.lnk.SetValue(lnk)` while the
link is established, closed, lost and flushed. -/
theorem no_dead_link_at_quiescence_false :
    ¬ (∀ (cfg : Cfg) (lp : Nat) (ops : List Op), quiescent (run cfg lp ops) = true →
        ∀ ld ∈ (run cfg lp ops).lds, ∀ l, ld.lnk = some l → l.id ∉ (run cfg lp ops).q.closedCb) := by
  intro hall
  have h := hall cfg0 1
    [.addRef (2, 5), .rtCheck (2, 5), .rtAttach (2, 5), .answer 0 2, .rtAwait (2, 5), .runEst ⟨0, 5002, 2⟩,
      .close 0, .runLost 5 ⟨0, 5002, 2⟩, .runCtrlLost ⟨0, 5002, 2⟩, .runClose 0, .rtStore (2, 5)]
    (by decide) ⟨(2, 5), 1, some ⟨0, 5002, 2⟩, .done⟩ (by decide) ⟨0, 5002, 2⟩ rfl
  revert h
  decide

/-- The other witness (F25, est after lost), for the record. -/
example :
    let s := run cfg0 1 [.addRef (2, 5), .rtCheck (2, 5), .rtAttach (2, 5), .answer 0 2, .rtAwait (2, 5),
      .rtStore (2, 5), .close 0, .runLost 5 ⟨0, 5002, 2⟩, .runCtrlLost ⟨0, 5002, 2⟩, .runEst ⟨0, 5002, 2⟩]
    quiescent s = true ∧ (getLD s (2, 5)).map (·.lnk) = some (some ⟨0, 5002, 2⟩) ∧ 0 ∈ s.q.closedCb ∧
      s.q.late = [0] ∧ s.staleStore = [] := by decide

/-- PARTIAL (the strongest true version): at every quiescent state reached by ANY schedule, a
container holds a closed link only if that link's establishment was processed by the controller
after its loss (F25; `C06Quic.est_after_lost_iff` names the schedule), or it was stored after the
controller had already disposed of it (schedule (2)), or it is a link to the local peer itself
(a self-dial, which the controller rejects and closes). The schedules of all other links are
unrestricted. -/
theorem no_dead_link_at_quiescence_partial (cfg : Cfg) (lp : Nat) (ops : List Op)
    (hq : quiescent (run cfg lp ops) = true) (ld : LDialer) (l : Link)
    (hld : ld ∈ (run cfg lp ops).lds) (hl : ld.lnk = some l) (hcl : l.id ∈ (run cfg lp ops).q.closedCb) :
    l.id ∈ (run cfg lp ops).q.late ∨ l.id ∈ (run cfg lp ops).staleStore ∨ l.remote = lp := by
  have hI := qinv_run cfg lp ops
  obtain ⟨hpe, _, hpl, hpcl⟩ := (QuicTable.quiescent_iff _).1 hq
  rcases cinv_run cfg lp ops ld hld l hl with h | h | h | h | h
  · exact Or.inr (Or.inl h)
  · exact Or.inl h
  · exact Or.inr (Or.inr h)
  · rw [hpe] at h; cases h
  · left
    obtain ⟨a, hcr⟩ := (stored_link_authentic cfg lp ops ld l hld hl).2.2
    rcases hI.cb_phase _ hcr hcl with h1 | h1 | h1
    · rw [hpl] at h1; cases h1
    · rw [hpcl] at h1; cases h1
    · exact hI.seen_late l h h1

/-- When was a link "stored after the controller had disposed of it"? Exactly when the store
step ran on a link whose `HandleLinkLost` section had run, or whose `Close()` the controller had
requested (flush / rejected establishment). -/
theorem staleStore_iff (cfg : Cfg) (lp : Nat) (s : State) (k : Key) (ld : LDialer) (l : Link)
    (hg : getLD s k = some ld) (hrt : ld.rt = .got (some l)) :
    (step cfg lp s (.rtStore k)).staleStore =
      (if l.id ∈ s.q.lostSeen ∨ l.id ∈ s.q.ctrl.closed then [l.id] else []) ++ s.staleStore := by
  simp [step, hg, hrt]

/-- "Eventually": no reachable state is stuck on the transport/controller side either — running
pending goroutine bodies only reaches a quiescent state, where the partial statement applies. -/
theorem eventually_no_dead_link (cfg : Cfg) (lp : Nat) (ops : List Op) :
    ∃ tail, (∀ op ∈ tail, IsAsyncOp op) ∧ quiescent (run cfg lp (ops ++ tail)) = true ∧
      ∀ ld ∈ (run cfg lp (ops ++ tail)).lds, ∀ l, ld.lnk = some l →
        l.id ∈ (run cfg lp (ops ++ tail)).q.closedCb →
          l.id ∈ (run cfg lp (ops ++ tail)).q.late ∨ l.id ∈ (run cfg lp (ops ++ tail)).staleStore ∨
            l.remote = lp := by
  obtain ⟨tail, h1, h2⟩ := reach_quiescent cfg lp ops
  exact ⟨tail, h1, h2, fun ld hld l hl hcl =>
    no_dead_link_at_quiescence_partial cfg lp (ops ++ tail) h2 ld l hld hl hcl⟩

/-- Non-vacuity: dial, establish, kill, loss processed: the container is cleared and the routine
restarted; the next attempt (answered by 2 again) stores a NEW link object. -/
example :
    let s := run cfg0 1 [.addRef (2, 5), .rtCheck (2, 5), .rtAttach (2, 5), .answer 0 2, .rtAwait (2, 5),
      .rtStore (2, 5), .runEst ⟨0, 5002, 2⟩, .close 0, .runLost 5 ⟨0, 5002, 2⟩, .runCtrlLost ⟨0, 5002, 2⟩,
      .runClose 0]
    (getLD s (2, 5)).map (fun ld => (ld.lnk, ld.rt)) = some (none, .idle) ∧ quiescent s = true ∧
    (getLD (runs cfg0 1 s [.rtCheck (2, 5), .rtAttach (2, 5), .answer 1 2, .rtAwait (2, 5), .rtStore (2, 5)])
      (2, 5)).map (·.lnk) = some (some ⟨1, 5002, 2⟩) := by decide

/-- The code BEFORE "fix: link dialer whose link was replaced takes over the replacement"
(`ld.lnk.SetValue(nil); return !hasNextLink`):
a reference to key (2, 5) is held (an `EstablishLinkWithPeer` directive); the dialed link 0 is
replaced by an inbound session of the same peer at the same address (same uuid): the container is
cleared but the routine is not restarted. -/
def cfgNoRestart : Cfg := { cfg0 with adoptNext := false }

def replaceHeld : List Op :=
  [.addRef (2, 5), .rtCheck (2, 5), .rtAttach (2, 5), .answer 0 2, .rtAwait (2, 5), .rtStore (2, 5),
    .runEst ⟨0, 5002, 2⟩, .inbound 5 2, .runEst ⟨1, 5002, 2⟩, .runClose 0, .runLost 5 ⟨0, 5002, 2⟩,
    .runCtrlLost ⟨0, 5002, 2⟩]

/-- … so when the replacement is lost too, nothing redials peer 2 although the reference is still
held and peer 2 is reachable: the dialer stays finished and empty forever. -/
theorem unfixed_replaced_never_redials (tail : List Op)
    (hrel : ∀ op ∈ tail, ¬ Releases cfgNoRestart 1 (2, 5) op) :
    DoneEmpty (run cfgNoRestart 1 (replaceHeld ++ tail)) (2, 5) := by
  rw [run_append]
  apply doneEmpty_runs tail (wf_run _ _ _) (qinv_run _ _ _) _ hrel
  exact ⟨⟨(2, 5), 1, none, .done⟩, by decide, rfl, rfl, rfl⟩

/-- The same history on the code as it is: the dialer takes over the replacement; when that is
lost in turn it dials again. -/
example :
    let s := run cfg0 1 replaceHeld
    (getLD s (2, 5)).map (·.lnk) = some (some ⟨1, 5002, 2⟩) ∧
    (getLD (runs cfg0 1 s [.close 1, .runLost 5 ⟨1, 5002, 2⟩, .runCtrlLost ⟨1, 5002, 2⟩]) (2, 5)).map
      (fun ld => (ld.lnk, ld.rt)) = some (none, .idle) := by decide

/-! ### (d) the `DialTptAddr` resolver's decision, stated outright -/

/-- A `DialTptAddr(opts, src, dst)` directive gets a link dialer — for key (dst, addr) — on the
transport whose peer id is `tptPeer` IFF: dst is non-empty and is not the transport's own peer;
src is empty ("allow any") or is the transport's peer; and the address is `tid|addr` with both
parts non-empty, no `|` in `tid`, and `MatchTransportType(tid)`. -/
theorem resolveTpt_iff (cfg : Cfg) (hs : cfg.srcAny = true) (tptPeer : Nat) (d : TptDir) (x : Nat)
    (addr : List Char) :
    resolveTpt cfg tptPeer d = some (x, addr) ↔
      (x = d.dst ∧ d.dst ≠ 0 ∧ d.dst ≠ tptPeer ∧ (d.src = 0 ∨ d.src = tptPeer) ∧
        ∃ tid, d.taddr = tid ++ '|' :: addr ∧ '|' ∉ tid ∧ tid ≠ [] ∧ addr ≠ [] ∧ cfg.matchType tid = true) := by
  unfold resolveTpt
  rw [hs]
  simp only [if_true]
  constructor
  · intro h
    split at h
    · cases h
    · rename_i h1
      simp only [not_or] at h1
      split at h
      · cases h
      · rename_i h2
        split at h
        · cases h
        · rename_i h3
          split at h
          · cases h
          · rename_i tid a hp
            split at h
            · rename_i hm
              simp only [Option.some.injEq, Prod.mk.injEq] at h
              obtain ⟨rfl, rfl⟩ := h
              obtain ⟨p1, p2, p3, p4⟩ := (parseTptAddr_spec _ _ _).1 hp
              refine ⟨rfl, h1.1, fun e => h3 e.symm, ?_, tid, p1, p2, p3, p4, hm⟩
              by_cases h0 : d.src = 0
              · exact Or.inl h0
              · right
                apply Classical.byContradiction
                intro hne
                exact h2 ⟨h0, hne⟩
            · cases h
  · rintro ⟨rfl, h1, h2, h3, tid, p1, p2, p3, p4, hm⟩
    have ht : d.taddr ≠ [] := by rw [p1]; simp
    rw [if_neg (by simp [h1, ht])]
    rw [if_neg (by rcases h3 with h3 | h3 <;> simp [h3])]
    rw [if_neg (fun e => h2 e.symm)]
    rw [(parseTptAddr_spec _ _ _).2 ⟨p1, p2, p3, p4⟩]
    simp [hm]

/-- No value when the source peer id names another peer. -/
theorem tpt_no_value_other_source (cfg : Cfg) (tptPeer : Nat) (d : TptDir)
    (h0 : d.src ≠ 0) (h : d.src ≠ tptPeer) : resolveTpt cfg tptPeer d = none := by
  unfold resolveTpt
  split
  · rfl
  · rw [if_pos]
    cases cfg.srcAny <;> simp [h0, h]

/-- No value for a self dial. -/
theorem tpt_no_value_self (cfg : Cfg) (tptPeer : Nat) (d : TptDir) (h : d.dst = tptPeer) :
    resolveTpt cfg tptPeer d = none := by
  unfold resolveTpt
  (repeat' split) <;> first | rfl | (exfalso; simp_all)

/-- No value for an address that does not parse (`ParseTptAddr`: no `|`, or an empty part). -/
theorem tpt_no_value_unparsable (cfg : Cfg) (tptPeer : Nat) (d : TptDir) (h : parseTptAddr d.taddr = none) :
    resolveTpt cfg tptPeer d = none := by
  unfold resolveTpt
  rw [h]
  (repeat' split) <;> first | rfl | simp_all

/-- No value for another transport type. -/
theorem tpt_no_value_other_type (cfg : Cfg) (tptPeer : Nat) (d : TptDir) (tid addr : List Char)
    (hp : parseTptAddr d.taddr = some (tid, addr)) (hm : cfg.matchType tid = false) :
    resolveTpt cfg tptPeer d = none := by
  unfold resolveTpt
  rw [hp]
  simp only [hm]
  (repeat' split) <;> first | rfl | contradiction

/-- A directive that does not resolve never holds a reference and never gets a value, in the
whole system. -/
theorem unresolved_directive_no_value (cfg : Cfg) (lp : Nat) (ops : List Op) (d : TptDir)
    (h : resolveTpt cfg lp d = none) : ∀ l, (d, l) ∉ (run cfg lp ops).pushed := by
  intro l hl
  obtain ⟨_, addr, hr, _⟩ := pushed_link_authentic cfg lp ops d l hl
  rw [h] at hr; cases hr

/-- The code BEFORE "fix: DialTptAddr with an empty source peer id was never resolved"
(`if srcPeerID != tptPeerID { return nil }`): a directive with the empty source ("can be empty to
allow any", as `tptaddr/controller` issues for `EstablishLinkWithPeer("", X)`) never resolved,
whatever the rest. -/
theorem unfixed_empty_source_never_resolved (cfg : Cfg) (hs : cfg.srcAny = false) (tptPeer : Nat) (d : TptDir)
    (h0 : d.src = 0) (hp : tptPeer ≠ 0) : resolveTpt cfg tptPeer d = none := by
  unfold resolveTpt
  rw [hs]
  split
  · rfl
  · rw [if_pos]
    simp only [Bool.false_eq_true, if_false]
    rw [h0]; exact fun e => hp e.symm

/-- Non-vacuity. -/
example :
    resolveTpt cfg0 1 ⟨0, 2, "mem|abc".toList⟩ = some (2, "abc".toList) ∧
    resolveTpt cfg0 1 ⟨1, 2, "mem|abc".toList⟩ = some (2, "abc".toList) ∧
    resolveTpt cfg0 1 ⟨3, 2, "mem|abc".toList⟩ = none ∧
    resolveTpt cfg0 1 ⟨1, 1, "mem|abc".toList⟩ = none ∧
    resolveTpt cfg0 1 ⟨1, 2, "udp|abc".toList⟩ = none ∧
    resolveTpt cfg0 1 ⟨1, 2, "memabc".toList⟩ = none ∧
    resolveTpt cfg0 1 ⟨1, 2, "mem|".toList⟩ = none ∧
    resolveTpt { cfg0 with srcAny := false } 1 ⟨0, 2, "mem|abc".toList⟩ = none := by decide

/-- Non-vacuity in the system: a directive with the empty source resolves, dials, and is pushed
a link to its target. -/
example :
    let d : TptDir := ⟨0, 2, "mem|abcde".toList⟩
    let s := run cfg0 1 [.tptAdd d, .rtCheck (2, 5), .rtAttach (2, 5), .answer 0 2, .rtAwait (2, 5),
      .rtStore (2, 5), .tptPush d, .tptDone d]
    s.pushed = [(d, ⟨0, 5002, 2⟩)] ∧ s.lds = [] := by decide

end Bifrost.Props.C05Sys
