import Bifrost.Model.Encrypt
import Bifrost.Lemmas.Encrypt
import Bifrost.Lemmas.EncryptLaws
/-!
C13 — Key derivation is deterministic, separated, and total. Property theorems only.
Model: `Encrypt.deriveProg` = `peer.DeriveKey` after the fix (the xor with the context is skipped
for an empty context; before, `i % len(contextb)` divided by zero).

"Different keys, contexts or salts give different outputs" cannot be a theorem about a
fixed-length KDF. What is proved: the bytes fed to BLAKE3 derive-key — the domain string
`context` and the input `"bifrost/peer/derive-key" ‖ salt ‖ (material ⊕ context)` — determine
(context, salt, material) uniquely, so two derivations that agree on the output either agree on
all three or exhibit an explicit BLAKE3 collision (`separation`). The private key enters only
through `material` (an X25519 output, 32 bytes), so different keys are separated exactly as far
as their materials differ.
-/
namespace Bifrost.Props.C13
open Bifrost Bifrost.Lo25519 Bifrost.Encrypt

/-- Totality: for every context (including the empty one), salt, key bytes and output length the
derivation returns a result or an error — never a panic. -/
theorem derive_total (P : Prims) (hl : LenLaws P) (ctx salt tPriv : Bytes) (n : Nat) :
    deriveKey P ctx salt tPriv n ≠ .panic := by
  unfold deriveKey deriveProg materialProg
  apply np_askE; intro tX64 h1
  have l1 := hl.clamp _ _ h1
  apply np_need _ _ _ _ (sliceTo_some _ _ (by omega))
  apply np_askE; intro seed h2
  have l2 := hl.hash _ _ h2
  apply np_panicIf _ _ _ (by simp [l2])
  apply np_askE; intro eph h3
  have l3 := hl.edPub _ _ h3
  apply np_pubToX _ _ _ (by omega); intro o
  apply np_orErr; intro eX _
  apply np_failIf; intro _
  apply np_askE; intro m _
  apply np_askE; intro out _
  exact np_ok _ _

/-- Determinism: the result is a function of (context, salt, key, length) and the primitives. -/
theorem derive_deterministic (P : Prims) (ctx salt k ctx' salt' k' : Bytes) (n n' : Nat)
    (h : (ctx, salt, k, n) = (ctx', salt', k', n')) :
    deriveKey P ctx salt k n = deriveKey P ctx' salt' k' n' := by
  cases h; rfl

/-- What is derived: the output is BLAKE3 derive-key with domain `context` over
`"bifrost/peer/derive-key" ‖ salt ‖ (material ⊕ context)`, `n` bytes. -/
theorem derive_ok_iff (P : Prims) (ctx salt tPriv out : Bytes) (n : Nat) :
    deriveKey P ctx salt tPriv n = .ok out ↔
      ∃ m, deriveMaterial P ctx tPriv = .ok m ∧
        P (.kdf ctx (kdfInput salt (xorContext m ctx)) n) = some out := by
  unfold deriveKey deriveMaterial deriveProg materialProg
  simp only [askE_ok, need_ok, panicIf_ok, pubToX_ok, orErr_ok, failIf_ok, done_ok]
  constructor
  · rintro ⟨a, ha, b, hb, c, hc, hc', d, hd, e, he, f, hf, hf', m, hm, o, ho, rfl⟩
    exact ⟨m, ⟨a, ha, b, hb, c, hc, hc', d, hd, e, he, f, hf, hf', m, hm, rfl⟩, ho⟩
  · rintro ⟨m, ⟨a, ha, b, hb, c, hc, hc', d, hd, e, he, f, hf, hf', m', hm, rfl⟩, ho⟩
    exact ⟨a, ha, b, hb, c, hc, hc', d, hd, e, he, f, hf, hf', m', hm, out, ho, rfl⟩

/-- The material is an X25519 output: 32 bytes. -/
theorem material_length (P : Prims) (hl : LenLaws P) (ctx tPriv m : Bytes)
    (h : deriveMaterial P ctx tPriv = .ok m) : m.length = 32 := by
  unfold deriveMaterial materialProg at h
  simp only [askE_ok, need_ok, panicIf_ok, pubToX_ok, orErr_ok, failIf_ok, done_ok] at h
  obtain ⟨a, ha, b, hb, c, hc, hc', d, hd, e, he, f, hf, hf', m', hm, rfl⟩ := h
  exact hl.x25519 _ _ _ hm

/-- The KDF input determines salt and material (the constant prefix and the material have fixed
lengths), for every context; together with the domain string it determines the context too. -/
theorem kdf_input_injective (ctx ctx' salt salt' m m' : Bytes) (hm : m.length = 32) (hm' : m'.length = 32)
    (hd : ctx = ctx')
    (h : kdfInput salt (xorContext m ctx) = kdfInput salt' (xorContext m' ctx')) :
    salt = salt' ∧ m = m' := by
  subst hd
  unfold kdfInput at h
  rw [List.append_assoc, List.append_assoc] at h
  have h1 := List.append_cancel_left h
  have hlen : salt.length = salt'.length := by
    have := congrArg List.length h1
    simp [xorContext_length, hm, hm'] at this
    exact this
  have h2 := List.append_inj h1 hlen
  exact ⟨h2.1, xorContext_injective _ _ _ h2.2⟩

/-- Separation: two successful derivations of the same length with the same output either used
the same context, the same salt and the same ECDH material, or the two (distinct) inputs they
fed to BLAKE3 derive-key collide. -/
theorem separation (P : Prims) (hl : LenLaws P) (ctx salt k ctx' salt' k' out : Bytes) (n : Nat)
    (h : deriveKey P ctx salt k n = .ok out) (h' : deriveKey P ctx' salt' k' n = .ok out) :
    ∃ m m', deriveMaterial P ctx k = .ok m ∧ deriveMaterial P ctx' k' = .ok m' ∧
      ((ctx = ctx' ∧ salt = salt' ∧ m = m') ∨
       ((ctx, kdfInput salt (xorContext m ctx)) ≠ (ctx', kdfInput salt' (xorContext m' ctx')) ∧
        P (.kdf ctx (kdfInput salt (xorContext m ctx)) n) =
          P (.kdf ctx' (kdfInput salt' (xorContext m' ctx')) n))) := by
  obtain ⟨m, hm, ho⟩ := (derive_ok_iff P ctx salt k out n).mp h
  obtain ⟨m', hm', ho'⟩ := (derive_ok_iff P ctx' salt' k' out n).mp h'
  refine ⟨m, m', hm, hm', ?_⟩
  by_cases he : (ctx, kdfInput salt (xorContext m ctx)) = (ctx', kdfInput salt' (xorContext m' ctx'))
  · left
    injection he with hc hi
    have := kdf_input_injective ctx ctx' salt salt' m m'
      (material_length P hl _ _ _ hm) (material_length P hl _ _ _ hm') hc hi
    exact ⟨hc, this.1, this.2⟩
  · right
    exact ⟨he, by rw [ho, ho']⟩

/-- Consequence: absent that collision, changing the context or the salt changes the output. -/
theorem different_context_or_salt (P : Prims) (hl : LenLaws P) (ctx salt k ctx' salt' k' out out' : Bytes) (n : Nat)
    (h : deriveKey P ctx salt k n = .ok out) (h' : deriveKey P ctx' salt' k' n = .ok out')
    (hne : ctx ≠ ctx' ∨ salt ≠ salt')
    (hnc : ∀ m m', deriveMaterial P ctx k = .ok m → deriveMaterial P ctx' k' = .ok m' →
      (ctx, kdfInput salt (xorContext m ctx)) ≠ (ctx', kdfInput salt' (xorContext m' ctx')) →
      P (.kdf ctx (kdfInput salt (xorContext m ctx)) n) ≠
        P (.kdf ctx' (kdfInput salt' (xorContext m' ctx')) n)) :
    out ≠ out' := by
  intro he
  subst he
  obtain ⟨m, m', hm, hm', hcase⟩ := separation P hl ctx salt k ctx' salt' k' out n h h'
  rcases hcase with ⟨hc, hs, _⟩ | ⟨hd, hcoll⟩
  · rcases hne with hne | hne
    · exact hne hc
    · exact hne hs
  · exact hnc m m' hm hm' hd hcoll

/-! ### input normalisation

A derivation that first *normalised* an input (hashed a long salt "as HMAC does", truncated or
padded it to a block, trimmed or case-folded the context) would send `x` and `N x` to the same
secret. The model does no such thing: for EVERY function `N`, a salt (context) and its image, when
different, reach BLAKE3 derive-key as different (domain, input) pairs, so that only a collision of
the primitive can make the outputs equal. The engine evaluates the same statement on the real
code for the pairs `(x, N x)` of every plausible `N` (`harness/cmd/encrypt/norm.go`). -/

/-- Whatever `N` is: a salt and its image under `N`, if different, give different KDF inputs
(same context, same material). -/
theorem normalised_salt_distinct_input (N : Bytes → Bytes) (ctx salt m : Bytes) (hm : m.length = 32)
    (hN : N salt ≠ salt) :
    kdfInput (N salt) (xorContext m ctx) ≠ kdfInput salt (xorContext m ctx) := by
  intro h
  exact hN (kdf_input_injective ctx ctx (N salt) salt m m hm hm rfl h).1

/-- … and therefore different outputs, unless BLAKE3 derive-key collides on those two inputs. -/
theorem normalised_salt_separated (P : Prims) (hl : LenLaws P) (N : Bytes → Bytes)
    (ctx salt k out out' : Bytes) (n : Nat) (hN : N salt ≠ salt)
    (h : deriveKey P ctx salt k n = .ok out) (h' : deriveKey P ctx (N salt) k n = .ok out')
    (hnc : ∀ m, deriveMaterial P ctx k = .ok m →
      P (.kdf ctx (kdfInput salt (xorContext m ctx)) n) ≠ P (.kdf ctx (kdfInput (N salt) (xorContext m ctx)) n)) :
    out ≠ out' := by
  apply different_context_or_salt P hl ctx salt k ctx (N salt) k out out' n h h' (Or.inr (Ne.symm hN))
  intro m m' hm hm' _
  rw [hm] at hm'
  cases hm'
  exact hnc m hm

/-- The same for the context: a context and its image under any `N`, if different, select
different BLAKE3 derive-key domains. -/
theorem normalised_context_separated (P : Prims) (hl : LenLaws P) (N : Bytes → Bytes)
    (ctx salt k out out' : Bytes) (n : Nat) (hN : N ctx ≠ ctx)
    (h : deriveKey P ctx salt k n = .ok out) (h' : deriveKey P (N ctx) salt k n = .ok out')
    (hnc : ∀ m m', deriveMaterial P ctx k = .ok m → deriveMaterial P (N ctx) k = .ok m' →
      P (.kdf ctx (kdfInput salt (xorContext m ctx)) n) ≠
        P (.kdf (N ctx) (kdfInput salt (xorContext m' (N ctx))) n)) :
    out ≠ out' := by
  apply different_context_or_salt P hl ctx salt k (N ctx) salt k out out' n h h' (Or.inl (Ne.symm hN))
  intro m m' hm hm' _
  exact hnc m m' hm hm'

/-- Non-vacuity: "keep the first 2 bytes" is such an `N`, and the two KDF inputs differ. -/
example : kdfInput (List.take 2 [1, 2, 3]) (xorContext (List.replicate 32 0) [9]) ≠
    kdfInput [1, 2, 3] (xorContext (List.replicate 32 0) [9]) :=
  normalised_salt_distinct_input (List.take 2) [9] [1, 2, 3] (List.replicate 32 0) (by simp) (by decide)

/-- The defect that was fixed: the loop as originally written (no guard) divides by zero for an
empty context whenever there is material to xor… -/
theorem unguarded_xor_panics (m : Bytes) (h : m ≠ []) : xorContextUnguarded m [] = none := by
  unfold xorContextUnguarded
  cases m with
  | nil => exact absurd rfl h
  | cons _ _ => simp

/-- …and the guard changes nothing for non-empty contexts. -/
theorem guard_preserves_nonempty (m ctx : Bytes) (h : ctx ≠ []) :
    xorContextUnguarded m ctx = some (xorContext m ctx) := by
  unfold xorContextUnguarded xorContext
  have : ctx.length ≠ 0 := by
    cases ctx with
    | nil => exact absurd rfl h
    | cons _ _ => simp
  simp [this]

/-! ### any `crypto.PrivKey` value, and `DeriveEd25519Key` -/

/-- A nil key (nil interface or nil `*Ed25519PrivateKey`) and a key of a foreign implementation
are answered with an error by both functions, for every context, salt and length. -/
theorem nil_or_foreign_key_is_error (P : Prims) (ctx salt : Bytes) (n : Nat) :
    deriveKeyArg P ctx salt .nil n = .err ∧ deriveKeyArg P ctx salt .foreign n = .err ∧
    deriveEd25519 P ctx salt .nil = .err ∧ deriveEd25519 P ctx salt .foreign = .err := by
  refine ⟨rfl, rfl, ?_, ?_⟩ <;> simp [deriveEd25519, deriveEdProg, deriveArgProg, run_andThen]

/-- On an Ed25519 key the general entry point is the derivation the theorems above speak about. -/
theorem deriveKeyArg_ed (P : Prims) (ctx salt raw : Bytes) (n : Nat) :
    deriveKeyArg P ctx salt (.ed raw) n = deriveKey P ctx salt raw n := rfl

/-- Totality for every key value — nil, foreign or Ed25519 bytes of any length — every context,
salt and output length (0, 1024, 65536, …): a result or an error, never a panic. -/
theorem deriveArg_total (P : Prims) (hl : LenLaws P) (ctx salt : Bytes) (k : KeyArg) (n : Nat) :
    deriveKeyArg P ctx salt k n ≠ .panic := by
  cases k with
  | nil => simp [deriveKeyArg, deriveArgProg]
  | foreign => simp [deriveKeyArg, deriveArgProg]
  | ed raw => exact derive_total P hl ctx salt raw n

/-- `DeriveEd25519Key` never panics either. -/
theorem deriveEd_total (P : Prims) (hl : LenLaws P) (ctx salt : Bytes) (k : KeyArg) :
    deriveEd25519 P ctx salt k ≠ .panic := by
  unfold deriveEd25519 deriveEdProg
  apply np_andThen
  · exact deriveArg_total P hl ctx salt k 32
  · intro seed hs
    have h32 : seed.length = 32 := by
      cases k with
      | nil => simp [deriveArgProg] at hs
      | foreign => simp [deriveArgProg] at hs
      | ed raw =>
        obtain ⟨m, _, ho⟩ := (derive_ok_iff P ctx salt raw seed 32).mp hs
        exact hl.kdf _ _ _ _ ho
    apply np_panicIf _ _ _ (by simp [h32])
    apply np_askE; intro pub _
    exact np_ok _ _

/-- What `DeriveEd25519Key` returns: exactly the Ed25519 key pair whose seed is the 32-byte output
of `DeriveKey` on the same (context, salt, key) — `seed ‖ public key of seed`. -/
theorem deriveEd_ok_iff (P : Prims) (ctx salt : Bytes) (k : KeyArg) (kp : Bytes) :
    deriveEd25519 P ctx salt k = .ok kp ↔
      ∃ seed pub, deriveKeyArg P ctx salt k 32 = .ok seed ∧ seed.length = 32 ∧
        P (.edPub seed) = some pub ∧ kp = seed ++ pub := by
  unfold deriveEd25519 deriveEdProg deriveKeyArg
  simp only [andThen_ok, panicIf_ok, askE_ok, done_ok]
  constructor
  · rintro ⟨seed, hs, hl, pub, hp, rfl⟩
    exact ⟨seed, pub, hs, by simpa using hl, hp, rfl⟩
  · rintro ⟨seed, pub, hs, hl, hp, rfl⟩
    exact ⟨seed, hs, by simp [hl], pub, hp, rfl⟩

/-- It fails exactly when `DeriveKey` fails (given that `ed25519.NewKeyFromSeed` is total on
32-byte seeds). -/
theorem deriveEd_err_iff (P : Prims) (hl : LenLaws P) (hpub : ∀ s : Bytes, s.length = 32 → (P (.edPub s)).isSome)
    (ctx salt : Bytes) (k : KeyArg) :
    deriveEd25519 P ctx salt k = .err ↔ deriveKeyArg P ctx salt k 32 = .err := by
  have hnp := deriveEd_total P hl ctx salt k
  have hnp' := deriveArg_total P hl ctx salt k 32
  constructor
  · intro he
    cases hd : deriveKeyArg P ctx salt k 32 with
    | err => rfl
    | panic => exact absurd hd hnp'
    | ok seed =>
      exfalso
      have h32 : seed.length = 32 := by
        cases k with
        | nil => simp [deriveKeyArg, deriveArgProg] at hd
        | foreign => simp [deriveKeyArg, deriveArgProg] at hd
        | ed raw =>
          obtain ⟨m, _, ho⟩ := (derive_ok_iff P ctx salt raw seed 32).mp hd
          exact hl.kdf _ _ _ _ ho
      obtain ⟨pub, hp⟩ := Option.isSome_iff_exists.mp (hpub seed h32)
      have := (deriveEd_ok_iff P ctx salt k (seed ++ pub)).mpr ⟨seed, pub, hd, h32, hp, rfl⟩
      rw [he] at this
      cases this
  · intro hd
    cases he : deriveEd25519 P ctx salt k with
    | err => rfl
    | panic => exact absurd he hnp
    | ok kp =>
      obtain ⟨seed, _, hs, _⟩ := (deriveEd_ok_iff P ctx salt k kp).mp he
      rw [hd] at hs
      cases hs

/-- Determinism of `DeriveEd25519Key`. -/
theorem deriveEd_deterministic (P : Prims) (ctx salt ctx' salt' : Bytes) (k k' : KeyArg)
    (h : (ctx, salt, k) = (ctx', salt', k')) :
    deriveEd25519 P ctx salt k = deriveEd25519 P ctx' salt' k' := by
  cases h; rfl

/-- Separation carries over: two derived Ed25519 keys that coincide come from the same 32-byte
`DeriveKey` output, so `separation` applies to the two derivations (same context, salt and
material, or an explicit BLAKE3 collision). -/
theorem deriveEd_same_key_same_seed (P : Prims) (ctx salt ctx' salt' : Bytes) (k k' : KeyArg) (kp : Bytes)
    (h : deriveEd25519 P ctx salt k = .ok kp) (h' : deriveEd25519 P ctx' salt' k' = .ok kp) :
    ∃ seed, deriveKeyArg P ctx salt k 32 = .ok seed ∧ deriveKeyArg P ctx' salt' k' 32 = .ok seed := by
  obtain ⟨s1, p1, hs1, hl1, _, e1⟩ := (deriveEd_ok_iff P ctx salt k kp).mp h
  obtain ⟨s2, p2, hs2, hl2, _, e2⟩ := (deriveEd_ok_iff P ctx' salt' k' kp).mp h'
  have : s1 = s2 := (List.append_inj (e1.symm.trans e2) (by omega)).1
  subst this
  exact ⟨s1, hs1, hs2⟩

/-- Non-vacuity: over `toyPrims` `DeriveEd25519Key` succeeds on an Ed25519 key with the empty context
and errs on a nil key. -/
example : (∃ kp, deriveEd25519 toyPrims [] [1, 2] (.ed (List.replicate 64 7)) = .ok kp) ∧
    deriveEd25519 toyPrims [] [1, 2] .nil = .err := by
  refine ⟨?_, (nil_or_foreign_key_is_error toyPrims [] [1, 2] 0).2.2.1⟩
  have hne := deriveEd_total toyPrims toy_len [] [1, 2] (.ed (List.replicate 64 7))
  cases h : deriveEd25519 toyPrims [] [1, 2] (.ed (List.replicate 64 7)) with
  | ok o => exact ⟨o, rfl⟩
  | err => exact absurd h (by decide)
  | panic => exact absurd h hne

/-- Non-vacuity: the laws are satisfiable (`toyPrims`), a derivation with the EMPTY context
succeeds there, and `separation` applies to it. -/
example : ∃ out, deriveKey toyPrims [] [1, 2] (List.replicate 64 7) 32 = .ok out := by
  have hne := derive_total toyPrims toy_len [] [1, 2] (List.replicate 64 7) 32
  cases h : deriveKey toyPrims [] [1, 2] (List.replicate 64 7) 32 with
  | ok o => exact ⟨o, rfl⟩
  | err => exact absurd h (by decide)
  | panic => exact absurd h hne

end Bifrost.Props.C13
