import Bifrost.Model.Encrypt
import Bifrost.Lemmas.Encrypt
import Bifrost.Lemmas.EncryptLaws
/-!
C13 — Key derivation is deterministic, separated, and total. Property theorems only.
Model: `Encrypt.deriveProg` = `peer.DeriveKey` after the fix (the xor with the context is skipped
for an empty context; before, `i % len(contextb)` divided by zero).

"Different keys, contexts or salts give different outputs" cannot be a theorem about a
fixed-length KDF. What is proved: the bytes fed to BLAKE3 derive-key — the domain string
`context` and the input `"bifrost/peer/derive-key" ‖ salt ‖ (material ⊕ context)` — determine
(context, salt, material) uniquely, so two derivations that agree on the output either agree on
all three or exhibit an explicit BLAKE3 collision (`separation`). The private key enters only
through `material` (an X25519 output, 32 bytes), so different keys are separated exactly as far
as their materials differ.
-/
namespace Bifrost.Props.C13
open Bifrost Bifrost.Lo25519 Bifrost.Encrypt

/-- Totality: for every context (including the empty one), salt, key bytes and output length the
derivation returns a result or an error — never a panic. -/
theorem derive_total (P : Prims) (hl : LenLaws P) (ctx salt tPriv : Bytes) (n : Nat) :
    deriveKey P ctx salt tPriv n ≠ .panic := by
  unfold deriveKey deriveProg materialProg
  apply np_askE; intro tX64 h1
  have l1 := hl.clamp _ _ h1
  apply np_need _ _ _ _ (sliceTo_some _ _ (by omega))
  apply np_askE; intro seed h2
  have l2 := hl.hash _ _ h2
  apply np_panicIf _ _ _ (by simp [l2])
  apply np_askE; intro eph h3
  have l3 := hl.edPub _ _ h3
  apply np_pubToX _ _ _ (by omega); intro o
  apply np_orErr; intro eX _
  apply np_failIf; intro _
  apply np_askE; intro m _
  apply np_askE; intro out _
  exact np_ok _ _

/-- Determinism: the result is a function of (context, salt, key, length) and the primitives. -/
theorem derive_deterministic (P : Prims) (ctx salt k ctx' salt' k' : Bytes) (n n' : Nat)
    (h : (ctx, salt, k, n) = (ctx', salt', k', n')) :
    deriveKey P ctx salt k n = deriveKey P ctx' salt' k' n' := by
  cases h; rfl

/-- What is derived: the output is BLAKE3 derive-key with domain `context` over
`"bifrost/peer/derive-key" ‖ salt ‖ (material ⊕ context)`, `n` bytes. -/
theorem derive_ok_iff (P : Prims) (ctx salt tPriv out : Bytes) (n : Nat) :
    deriveKey P ctx salt tPriv n = .ok out ↔
      ∃ m, deriveMaterial P ctx tPriv = .ok m ∧
        P (.kdf ctx (kdfInput salt (xorContext m ctx)) n) = some out := by
  unfold deriveKey deriveMaterial deriveProg materialProg
  simp only [askE_ok, need_ok, panicIf_ok, pubToX_ok, orErr_ok, failIf_ok, done_ok]
  constructor
  · rintro ⟨a, ha, b, hb, c, hc, hc', d, hd, e, he, f, hf, hf', m, hm, o, ho, rfl⟩
    exact ⟨m, ⟨a, ha, b, hb, c, hc, hc', d, hd, e, he, f, hf, hf', m, hm, rfl⟩, ho⟩
  · rintro ⟨m, ⟨a, ha, b, hb, c, hc, hc', d, hd, e, he, f, hf, hf', m', hm, rfl⟩, ho⟩
    exact ⟨a, ha, b, hb, c, hc, hc', d, hd, e, he, f, hf, hf', m', hm, out, ho, rfl⟩

/-- The material is an X25519 output: 32 bytes. -/
theorem material_length (P : Prims) (hl : LenLaws P) (ctx tPriv m : Bytes)
    (h : deriveMaterial P ctx tPriv = .ok m) : m.length = 32 := by
  unfold deriveMaterial materialProg at h
  simp only [askE_ok, need_ok, panicIf_ok, pubToX_ok, orErr_ok, failIf_ok, done_ok] at h
  obtain ⟨a, ha, b, hb, c, hc, hc', d, hd, e, he, f, hf, hf', m', hm, rfl⟩ := h
  exact hl.x25519 _ _ _ hm

/-- The KDF input determines salt and material (the constant prefix and the material have fixed
lengths), for every context; together with the domain string it determines the context too. -/
theorem kdf_input_injective (ctx ctx' salt salt' m m' : Bytes) (hm : m.length = 32) (hm' : m'.length = 32)
    (hd : ctx = ctx')
    (h : kdfInput salt (xorContext m ctx) = kdfInput salt' (xorContext m' ctx')) :
    salt = salt' ∧ m = m' := by
  subst hd
  unfold kdfInput at h
  rw [List.append_assoc, List.append_assoc] at h
  have h1 := List.append_cancel_left h
  have hlen : salt.length = salt'.length := by
    have := congrArg List.length h1
    simp [xorContext_length, hm, hm'] at this
    exact this
  have h2 := List.append_inj h1 hlen
  exact ⟨h2.1, xorContext_injective _ _ _ h2.2⟩

/-- Separation: two successful derivations of the same length with the same output either used
the same context, the same salt and the same ECDH material, or the two (distinct) inputs they
fed to BLAKE3 derive-key collide. -/
theorem separation (P : Prims) (hl : LenLaws P) (ctx salt k ctx' salt' k' out : Bytes) (n : Nat)
    (h : deriveKey P ctx salt k n = .ok out) (h' : deriveKey P ctx' salt' k' n = .ok out) :
    ∃ m m', deriveMaterial P ctx k = .ok m ∧ deriveMaterial P ctx' k' = .ok m' ∧
      ((ctx = ctx' ∧ salt = salt' ∧ m = m') ∨
       ((ctx, kdfInput salt (xorContext m ctx)) ≠ (ctx', kdfInput salt' (xorContext m' ctx')) ∧
        P (.kdf ctx (kdfInput salt (xorContext m ctx)) n) =
          P (.kdf ctx' (kdfInput salt' (xorContext m' ctx')) n))) := by
  obtain ⟨m, hm, ho⟩ := (derive_ok_iff P ctx salt k out n).mp h
  obtain ⟨m', hm', ho'⟩ := (derive_ok_iff P ctx' salt' k' out n).mp h'
  refine ⟨m, m', hm, hm', ?_⟩
  by_cases he : (ctx, kdfInput salt (xorContext m ctx)) = (ctx', kdfInput salt' (xorContext m' ctx'))
  · left
    injection he with hc hi
    have := kdf_input_injective ctx ctx' salt salt' m m'
      (material_length P hl _ _ _ hm) (material_length P hl _ _ _ hm') hc hi
    exact ⟨hc, this.1, this.2⟩
  · right
    exact ⟨he, by rw [ho, ho']⟩

/-- Consequence: absent that collision, changing the context or the salt changes the output. -/
theorem different_context_or_salt (P : Prims) (hl : LenLaws P) (ctx salt k ctx' salt' k' out out' : Bytes) (n : Nat)
    (h : deriveKey P ctx salt k n = .ok out) (h' : deriveKey P ctx' salt' k' n = .ok out')
    (hne : ctx ≠ ctx' ∨ salt ≠ salt')
    (hnc : ∀ m m', deriveMaterial P ctx k = .ok m → deriveMaterial P ctx' k' = .ok m' →
      (ctx, kdfInput salt (xorContext m ctx)) ≠ (ctx', kdfInput salt' (xorContext m' ctx')) →
      P (.kdf ctx (kdfInput salt (xorContext m ctx)) n) ≠
        P (.kdf ctx' (kdfInput salt' (xorContext m' ctx')) n)) :
    out ≠ out' := by
  intro he
  subst he
  obtain ⟨m, m', hm, hm', hcase⟩ := separation P hl ctx salt k ctx' salt' k' out n h h'
  rcases hcase with ⟨hc, hs, _⟩ | ⟨hd, hcoll⟩
  · rcases hne with hne | hne
    · exact hne hc
    · exact hne hs
  · exact hnc m m' hm hm' hd hcoll

/-- The defect that was fixed: the loop as originally written (no guard) divides by zero for an
empty context whenever there is material to xor… -/
theorem unguarded_xor_panics (m : Bytes) (h : m ≠ []) : xorContextUnguarded m [] = none := by
  unfold xorContextUnguarded
  cases m with
  | nil => exact absurd rfl h
  | cons _ _ => simp

/-- …and the guard changes nothing for non-empty contexts. -/
theorem guard_preserves_nonempty (m ctx : Bytes) (h : ctx ≠ []) :
    xorContextUnguarded m ctx = some (xorContext m ctx) := by
  unfold xorContextUnguarded xorContext
  have : ctx.length ≠ 0 := by
    cases ctx with
    | nil => exact absurd rfl h
    | cons _ _ => simp
  simp [this]

/-- Non-vacuity: the laws are satisfiable (`toyPrims`), a derivation with the EMPTY context
succeeds there, and `separation` applies to it. -/
example : ∃ out, deriveKey toyPrims [] [1, 2] (List.replicate 64 7) 32 = .ok out := by
  have hne := derive_total toyPrims toy_len [] [1, 2] (List.replicate 64 7) 32
  cases h : deriveKey toyPrims [] [1, 2] (List.replicate 64 7) 32 with
  | ok o => exact ⟨o, rfl⟩
  | err => exact absurd h (by decide)
  | panic => exact absurd h hne

end Bifrost.Props.C13
