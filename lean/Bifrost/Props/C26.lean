import Bifrost.Model.EncryptSignal
import Bifrost.Lemmas.EncryptSignal
import Bifrost.Lemmas.Solicit
import Bifrost.Lemmas.Codec
import Bifrost.Props.C12
import Bifrost.Gen.WebRtcSession
/-!
C26 — WebRTC signals are private to the recipient and roles never clash. Property theorems only.

`EncodeWebRtcSignal` / `DecodeWebRtcSignal` = the `WebRtcSignal` protobuf codec composed with the
C12 encryption under `SignalingCryptContext` (regenerated from the source), so the privacy
clauses are the C12 theorems instantiated at that context and are symbolic in the same sense
(see C12). The role rule and the session facts are stated about definitions regenerated from
`transport/webrtc/session.go` (`Bifrost.Gen.WebRtcSession`).

"A WebRTC link is only accepted from the peer that was signaled": the session tracker keyed by
a peer ID string constrains its Quic session to exactly the peer ID that string decodes to and
encrypts its signals to exactly the key embedded in it (`tracker_binds_signaled_peer`,
`session_code_shape`); that the Quic/TLS layer rejects any other remote identity is property C03
and enters `link_only_from_signaled` as a hypothesis.
-/
namespace Bifrost.Props.C26
open Bifrost Bifrost.Lo25519 Bifrost.Encrypt Bifrost.Signal Bifrost.Codec

/-! ### roles -/

/-- For any two distinct peer ID strings exactly one side is the offerer. -/
theorem offerer_xor (a b : Bytes) (h : a ≠ b) : isOfferer a b ≠ isOfferer b a := by
  unfold isOfferer
  intro he
  cases hab : lexLt a b with
  | true =>
    have := lexLt_asymm a b hab
    rw [hab, this] at he
    cases he
  | false =>
    rw [hab] at he
    exact h (lexLt_trichotomy a b hab he.symm)

/-- No peer is its own offerer. -/
theorem offerer_irrefl (a : Bytes) : isOfferer a a = false := lexLt_irrefl a

/-- Both ends compute opposite roles: the tracker A creates for B and the tracker B creates for
A (each keyed by the other's ID string) disagree on `offerer` whenever the IDs differ. -/
theorem roles_never_clash (a b : Bytes) (h : a ≠ b) :
    (newSessionTracker a b).offerer ≠ (newSessionTracker b a).offerer :=
  offerer_xor a b h

/-- …in particular for the base58 text of two different raw peer IDs (the text is injective). -/
theorem roles_never_clash_ids (ida idb : Bytes) (h : ida ≠ idb) :
    isOfferer (idB58Encode ida) (idB58Encode idb) ≠ isOfferer (idB58Encode idb) (idB58Encode ida) := by
  apply offerer_xor
  intro he
  unfold idB58Encode at he
  by_cases ha : ida = []
  · subst ha
    have : B58.encode idb = [] := by rw [← he]; rfl
    exact h ((B58.encode_eq_nil idb).mp this).symm
  · by_cases hb : idb = []
    · subst hb
      have : B58.encode ida = [] := by rw [he]; rfl
      exact h ((B58.encode_eq_nil ida).mp this)
    · have h1 := B58.decode_encode ida ha
      have h2 := B58.decode_encode idb hb
      rw [he, h2] at h1
      injection h1 with h1
      exact h h1.symm

/-! ### codec -/

/-- The protobuf codec round-trips every well-formed signal (offer request, SDP, ICE, empty). -/
theorem unmarshal_marshal (s : Signal) (h : WF s) : unmarshal (marshal s) = some s :=
  Signal.unmarshal_marshal s h

/-- A signal encoded for a peer decodes, with that peer's private key, to exactly the original. -/
theorem decode_encode_signal (P : Prims) (hl : LenLaws P) (hc : CryptoLaws P) (seed pub ct : Bytes) (s : Signal)
    (hs : seed.length = 32) (hpub : P (.edPub seed) = some pub) (hwf : WF s)
    (he : encode P s pub = .ok ct) : Signal.decode P (seed ++ pub) ct = .ok s := by
  unfold Signal.decode
  have := C12.decrypt_encrypt P hl hc seed pub context (marshal s) ct hs hpub he
  rw [this]
  unfold decodePost
  simp only [Signal.unmarshal_marshal s hwf]

/-- It cannot be decoded with any other key: absent an explicit collision of the message-key
derivation (see `C12.decrypt_of_encrypt`), decoding with another private key fails. -/
theorem wrong_key_rejected (P : Prims) (hl : LenLaws P) (hc : CryptoLaws P) (pub ct tPriv' : Bytes) (s : Signal)
    (he : encode P s pub = .ok ct)
    (hnc : ∀ k k' e e' u, P (.kdf (domSeed ++ context) (marshal s ++ pub) 32) = some k → P (.edPub k) = some e →
      P (.kdf (domSeed ++ context) (marshal s ++ tPriv'.drop 32) 32) = some k' → P (.edPub k') = some e' →
      toX P e = .ok (some u) → toX P e' ≠ .ok (some u)) :
    Signal.decode P tPriv' ct = .err := by
  unfold Signal.decode
  rw [C12.wrong_key_or_context_rejected P hl hc pub context (marshal s) ct tPriv' context he hnc]
  rfl

/-- A signal payload does not decrypt under a non-WebRTC context… -/
theorem not_decodable_in_other_context (P : Prims) (hl : LenLaws P) (hc : CryptoLaws P)
    (pub ct tPriv ctx' : Bytes) (s : Signal) (he : encode P s pub = .ok ct)
    (hnc : ∀ k k' e e' u, P (.kdf (domSeed ++ context) (marshal s ++ pub) 32) = some k → P (.edPub k) = some e →
      P (.kdf (domSeed ++ ctx') (marshal s ++ tPriv.drop 32) 32) = some k' → P (.edPub k') = some e' →
      toX P e = .ok (some u) → toX P e' ≠ .ok (some u)) :
    decrypt P tPriv ctx' ct = .err :=
  C12.wrong_key_or_context_rejected P hl hc pub context (marshal s) ct tPriv ctx' he hnc

/-- …and a payload encrypted by another context is never decoded as a signal. -/
theorem other_context_payload_rejected (P : Prims) (hl : LenLaws P) (hc : CryptoLaws P)
    (pub ct tPriv ctx' msg : Bytes) (he : encrypt P pub ctx' msg = .ok ct)
    (hnc : ∀ k k' e e' u, P (.kdf (domSeed ++ ctx') (msg ++ pub) 32) = some k → P (.edPub k) = some e →
      P (.kdf (domSeed ++ context) (msg ++ tPriv.drop 32) 32) = some k' → P (.edPub k') = some e' →
      toX P e = .ok (some u) → toX P e' ≠ .ok (some u)) :
    Signal.decode P tPriv ct = .err := by
  unfold Signal.decode
  rw [C12.wrong_key_or_context_rejected P hl hc pub ctx' msg ct tPriv context he hnc]
  rfl

/-- Arbitrary payload bytes never make the decoder panic. -/
theorem decode_no_panic (P : Prims) (hl : LenLaws P) (tPriv ct : Bytes) : Signal.decode P tPriv ct ≠ .panic := by
  unfold Signal.decode decodePost
  have := C12.decrypt_no_panic P hl tPriv context ct
  cases hd : decrypt P tPriv context ct with
  | panic => exact absurd hd this
  | err => simp
  | ok m =>
    simp only
    split <;> simp

/-! ### the session is bound to the signaled peer -/

/-- Shape of the code the model of the session tracker stands for (regenerated on every run):
the signal codec uses `SignalingCryptContext` in both directions; `isOfferer(a, b)` is
`strings.Compare(a, b) < 0` applied to (local ID string, remote ID string); the tracker's
`peerID` / `peerPub` come from parsing the string the tracker is keyed by and are never
reassigned; `executeLink` passes that `s.peerID` as the expected remote peer to both the Quic
listen and the Quic dial call. -/
theorem session_code_shape :
    Gen.WebRtcSession.encodeContextArg = "SignalingCryptContext" ∧
    Gen.WebRtcSession.decodeContextArg = "SignalingCryptContext" ∧
    Gen.WebRtcSession.isOffererParams = ["a", "b"] ∧
    Gen.WebRtcSession.isOffererBody = "strings.Compare(a, b) < 0" ∧
    Gen.WebRtcSession.defOfferer = "isOfferer(localPeerIDStr, peerIDStr)" ∧
    Gen.WebRtcSession.defLocalPeerIDStr = "w.peerID.String()" ∧
    Gen.WebRtcSession.trackerKey = "peerIDStr" ∧
    Gen.WebRtcSession.defPeerID = "peer.ParsePeerIDWithPubKey(peerIDStr)" ∧
    Gen.WebRtcSession.trackerPeerID = "peerID" ∧ Gen.WebRtcSession.trackerPeerPub = "peerPub" ∧
    Gen.WebRtcSession.trackerOfferer = "offerer" ∧
    Gen.WebRtcSession.listenExpectedPeer = "s.peerID" ∧ Gen.WebRtcSession.dialExpectedPeer = "s.peerID" ∧
    Gen.WebRtcSession.trackerFieldReassignments = 0 := by
  repeat' constructor

/-- The tracker created for the ID string of a peer with public key `pk` constrains its link to
exactly that peer's ID and encrypts its signals to exactly `pk`. -/
theorem tracker_binds_signaled_peer (localStr pk : Bytes) (h : pk.length = 32) :
    let t := newSessionTracker localStr (idB58Encode (idFromPublicKey pk))
    t.linkPeer = some (idFromPublicKey pk) ∧ t.signalPub = some pk := by
  have hid : idB58Decode (idB58Encode (idFromPublicKey pk)) = some (idFromPublicKey pk) := by
    have hfb := idFromBytes_idFromPublicKey pk h
    obtain ⟨_, r, hr⟩ := idFromBytes_some _ _ hfb
    have hne := decodeMultihash_ne_nil _ r hr
    unfold idB58Decode idB58Encode
    rw [B58.decode_encode _ hne]
    exact hfb
  simp only [newSessionTracker, hid, Option.bind_some, true_and]
  exact Codec.extract_idFromPublicKey pk h

/-- Composition with the transport layer (C03, hypothesis `htls`: a Quic session constructed
with expected peer `e` only ever completes with a remote whose verified ID is `e`): a link of
the session keyed by `idB58Encode id` is only accepted from `id` — the peer whose key the
session's signals were encrypted to. -/
theorem link_only_from_signaled (accept : Bytes → Bytes → Bool)
    (htls : ∀ e r, accept e r = true → r = e)
    (localStr pk remote : Bytes) (h : pk.length = 32)
    (hacc : ∃ e, (newSessionTracker localStr (idB58Encode (idFromPublicKey pk))).linkPeer = some e ∧
      accept e remote = true) :
    remote = idFromPublicKey pk ∧
    (newSessionTracker localStr (idB58Encode (idFromPublicKey pk))).signalPub = some pk := by
  obtain ⟨hl, hp⟩ := tracker_binds_signaled_peer localStr pk h
  obtain ⟨e, he, ha⟩ := hacc
  rw [hl] at he
  injection he with he
  subst he
  exact ⟨htls _ _ ha, hp⟩

/-- Non-vacuity: a concrete well-formed SDP signal round-trips through the codec, and the toy
primitives satisfy the laws the privacy theorems assume (see C12). -/
example : unmarshal (marshal { body := .sdp { txSeqno := 3, sdpType := [111], sdp := [118, 61, 48] } }) =
    some { body := .sdp { txSeqno := 3, sdpType := [111], sdp := [118, 61, 48] } } := by
  apply Signal.unmarshal_marshal
  refine ⟨rfl, rfl, ?_, ?_, ?_⟩ <;> simp

example : LenLaws toyPrims ∧ CryptoLaws toyPrims := ⟨toy_len, toy_crypto⟩

end Bifrost.Props.C26
