import Bifrost.Model.EncryptSignal
import Bifrost.Lemmas.EncryptSignal
import Bifrost.Lemmas.Solicit
import Bifrost.Lemmas.Codec
import Bifrost.Props.C12
import Bifrost.Gen.WebRtcSession
/-!
C26 — WebRTC signals are private to the recipient and roles never clash. Property theorems only.

`EncodeWebRtcSignal` / `DecodeWebRtcSignal` = the `WebRtcSignal` protobuf codec composed with the
C12 encryption under `SignalingCryptContext` (regenerated from the source), so the privacy
clauses are the C12 theorems instantiated at that context and are symbolic in the same sense
(see C12). The role rule and the session facts are stated about definitions regenerated from
`transport/webrtc/session.go` (`Bifrost.Gen.WebRtcSession`).

"A WebRTC link is only accepted from the peer that was signaled": the session tracker keyed by
a peer ID string constrains its Quic session to exactly the peer ID that string decodes to and
encrypts its signals to exactly the key embedded in it (`tracker_binds_signaled_peer`,
`session_code_shape`); that the Quic/TLS layer rejects any other remote identity is property C03
and enters `link_only_from_signaled` as a hypothesis.
-/
namespace Bifrost.Props.C26
open Bifrost Bifrost.Lo25519 Bifrost.Encrypt Bifrost.Signal Bifrost.Codec

/-! ### roles -/

/-- For any two distinct peer ID strings exactly one side is the offerer. -/
theorem offerer_xor (a b : Bytes) (h : a ≠ b) : isOfferer a b ≠ isOfferer b a := by
  unfold isOfferer
  intro he
  cases hab : lexLt a b with
  | true =>
    have := lexLt_asymm a b hab
    rw [hab, this] at he
    cases he
  | false =>
    rw [hab] at he
    exact h (lexLt_trichotomy a b hab he.symm)

/-- No peer is its own offerer. -/
theorem offerer_irrefl (a : Bytes) : isOfferer a a = false := lexLt_irrefl a

/-- Both ends compute opposite roles: the tracker A creates for B and the tracker B creates for
A (each keyed by the other's ID string) disagree on `offerer` whenever the IDs differ. -/
theorem roles_never_clash (a b : Bytes) (h : a ≠ b) :
    (newSessionTracker a b).offerer ≠ (newSessionTracker b a).offerer :=
  offerer_xor a b h

/-- …in particular for the base58 text of two different raw peer IDs (the text is injective). -/
theorem roles_never_clash_ids (ida idb : Bytes) (h : ida ≠ idb) :
    isOfferer (idB58Encode ida) (idB58Encode idb) ≠ isOfferer (idB58Encode idb) (idB58Encode ida) := by
  apply offerer_xor
  intro he
  unfold idB58Encode at he
  by_cases ha : ida = []
  · subst ha
    have : B58.encode idb = [] := by rw [← he]; rfl
    exact h ((B58.encode_eq_nil idb).mp this).symm
  · by_cases hb : idb = []
    · subst hb
      have : B58.encode ida = [] := by rw [he]; rfl
      exact h ((B58.encode_eq_nil ida).mp this)
    · have h1 := B58.decode_encode ida ha
      have h2 := B58.decode_encode idb hb
      rw [he, h2] at h1
      injection h1 with h1
      exact h h1.symm

/-! ### codec -/

/-- The protobuf codec round-trips every well-formed signal (offer request, SDP, ICE, empty). -/
theorem unmarshal_marshal (s : Signal) (h : WF s) : unmarshal (marshal s) = some s :=
  Signal.unmarshal_marshal s h

/-- A signal encoded for a peer decodes, with that peer's private key, to exactly the original. -/
theorem decode_encode_signal (P : Prims) (hl : LenLaws P) (hc : CryptoLaws P) (seed pub ct : Bytes) (s : Signal)
    (hs : seed.length = 32) (hpub : P (.edPub seed) = some pub) (hwf : WF s)
    (he : encode P s pub = .ok ct) : Signal.decode P (seed ++ pub) ct = .ok s := by
  unfold Signal.decode
  have := C12.decrypt_encrypt P hl hc seed pub context (marshal s) ct hs hpub he
  rw [this]
  unfold decodePost
  simp only [Signal.unmarshal_marshal s hwf]

/-- It cannot be decoded with any other key: absent an explicit collision of the message-key
derivation (see `C12.decrypt_of_encrypt`), decoding with another private key fails. -/
theorem wrong_key_rejected (P : Prims) (hl : LenLaws P) (hc : CryptoLaws P) (pub ct tPriv' : Bytes) (s : Signal)
    (he : encode P s pub = .ok ct)
    (hnc : ∀ k k' e e' u, P (.kdf (domSeed ++ context) (marshal s ++ pub) 32) = some k → P (.edPub k) = some e →
      P (.kdf (domSeed ++ context) (marshal s ++ tPriv'.drop 32) 32) = some k' → P (.edPub k') = some e' →
      toX P e = .ok (some u) → toX P e' ≠ .ok (some u)) :
    Signal.decode P tPriv' ct = .err := by
  unfold Signal.decode
  rw [C12.wrong_key_or_context_rejected P hl hc pub context (marshal s) ct tPriv' context he hnc]
  rfl

/-- A signal payload does not decrypt under a non-WebRTC context… -/
theorem not_decodable_in_other_context (P : Prims) (hl : LenLaws P) (hc : CryptoLaws P)
    (pub ct tPriv ctx' : Bytes) (s : Signal) (he : encode P s pub = .ok ct)
    (hnc : ∀ k k' e e' u, P (.kdf (domSeed ++ context) (marshal s ++ pub) 32) = some k → P (.edPub k) = some e →
      P (.kdf (domSeed ++ ctx') (marshal s ++ tPriv.drop 32) 32) = some k' → P (.edPub k') = some e' →
      toX P e = .ok (some u) → toX P e' ≠ .ok (some u)) :
    decrypt P tPriv ctx' ct = .err :=
  C12.wrong_key_or_context_rejected P hl hc pub context (marshal s) ct tPriv ctx' he hnc

/-- …and a payload encrypted by another context is never decoded as a signal. -/
theorem other_context_payload_rejected (P : Prims) (hl : LenLaws P) (hc : CryptoLaws P)
    (pub ct tPriv ctx' msg : Bytes) (he : encrypt P pub ctx' msg = .ok ct)
    (hnc : ∀ k k' e e' u, P (.kdf (domSeed ++ ctx') (msg ++ pub) 32) = some k → P (.edPub k) = some e →
      P (.kdf (domSeed ++ context) (msg ++ tPriv.drop 32) 32) = some k' → P (.edPub k') = some e' →
      toX P e = .ok (some u) → toX P e' ≠ .ok (some u)) :
    Signal.decode P tPriv ct = .err := by
  unfold Signal.decode
  rw [C12.wrong_key_or_context_rejected P hl hc pub ctx' msg ct tPriv context he hnc]
  rfl

/-- Arbitrary payload bytes never make the decoder panic. -/
theorem decode_no_panic (P : Prims) (hl : LenLaws P) (tPriv ct : Bytes) : Signal.decode P tPriv ct ≠ .panic := by
  unfold Signal.decode decodePost
  have := C12.decrypt_no_panic P hl tPriv context ct
  cases hd : decrypt P tPriv context ct with
  | panic => exact absurd hd this
  | err => simp
  | ok m =>
    simp only
    split <;> simp

/-- The roles are enforced on what the remote sends (`sessionTracker.execute`): of two distinct
peers exactly one serves a `request_offer`; an offer is taken only by the answerer and an answer
only by the offerer; any other non-empty SDP type is refused by both. So a remote that claims the
role the local side holds is never served. -/
theorem roles_enforced (a b : Bytes) (h : a ≠ b) (v : Nat) (s : Sdp) :
    roleAccepts (isOfferer a b) (.requestOffer v) ≠ roleAccepts (isOfferer b a) (.requestOffer v) ∧
    (s.sdpType = offerStr → roleAccepts (isOfferer a b) (.sdp s) = !isOfferer a b) ∧
    (s.sdpType = answerStr → roleAccepts (isOfferer a b) (.sdp s) = isOfferer a b) ∧
    (s.sdpType ≠ [] → s.sdpType ≠ offerStr → s.sdpType ≠ answerStr →
      ∀ o, roleAccepts o (.sdp s) = false) := by
  refine ⟨offerer_xor a b h, ?_, ?_, ?_⟩
  · intro ht
    cases ho : isOfferer a b <;> simp [roleAccepts, ht, offerStr, answerStr]
  · intro ht
    cases ho : isOfferer a b <;> simp [roleAccepts, ht, offerStr, answerStr]
  · intro hne h1 h2 o
    cases o <;> simp [roleAccepts, hne, h1, h2]

/-! ### the session is bound to the signaled peer -/

/-- Shape of the code the model of the session tracker stands for (regenerated on every run):
the signal codec uses `SignalingCryptContext` in both directions; `isOfferer(a, b)` is
`strings.Compare(a, b) < 0` applied to (local ID string, remote ID string); the tracker's
`peerID` / `peerPub` come from parsing the string the tracker is keyed by and are never
reassigned; `executeLink` passes that `s.peerID` as the expected remote peer to both the Quic
listen and the Quic dial call. -/
theorem session_code_shape :
    Gen.WebRtcSession.encodeContextArg = "SignalingCryptContext" ∧
    Gen.WebRtcSession.decodeContextArg = "SignalingCryptContext" ∧
    Gen.WebRtcSession.isOffererParams = ["a", "b"] ∧
    Gen.WebRtcSession.isOffererBody = "strings.Compare(a, b) < 0" ∧
    Gen.WebRtcSession.defOfferer = "isOfferer(localPeerIDStr, peerIDStr)" ∧
    Gen.WebRtcSession.defLocalPeerIDStr = "w.peerID.String()" ∧
    Gen.WebRtcSession.trackerKey = "peerIDStr" ∧
    Gen.WebRtcSession.defPeerID = "peer.ParsePeerIDWithPubKey(peerIDStr)" ∧
    Gen.WebRtcSession.trackerPeerID = "peerID" ∧ Gen.WebRtcSession.trackerPeerPub = "peerPub" ∧
    Gen.WebRtcSession.trackerOfferer = "offerer" ∧
    Gen.WebRtcSession.listenExpectedPeer = "s.peerID" ∧ Gen.WebRtcSession.dialExpectedPeer = "s.peerID" ∧
    Gen.WebRtcSession.trackerFieldReassignments = 0 := by
  repeat' constructor

/-- The tracker created for the ID string of a peer with public key `pk` constrains its link to
exactly that peer's ID and encrypts its signals to exactly `pk`. -/
theorem tracker_binds_signaled_peer (localStr pk : Bytes) (h : pk.length = 32) :
    let t := newSessionTracker localStr (idB58Encode (idFromPublicKey pk))
    t.linkPeer = some (idFromPublicKey pk) ∧ t.signalPub = some pk := by
  have hid : idB58Decode (idB58Encode (idFromPublicKey pk)) = some (idFromPublicKey pk) := by
    have hfb := idFromBytes_idFromPublicKey pk h
    obtain ⟨_, r, hr⟩ := idFromBytes_some _ _ hfb
    have hne := decodeMultihash_ne_nil _ r hr
    unfold idB58Decode idB58Encode
    rw [B58.decode_encode _ hne]
    exact hfb
  simp only [newSessionTracker, hid, Option.bind_some, true_and]
  exact Codec.extract_idFromPublicKey pk h

/-- Composition with the transport layer (C03, hypothesis `htls`: a Quic session constructed
with expected peer `e` only ever completes with a remote whose verified ID is `e`): a link of
the session keyed by `idB58Encode id` is only accepted from `id` — the peer whose key the
session's signals were encrypted to. -/
theorem link_only_from_signaled (accept : Bytes → Bytes → Bool)
    (htls : ∀ e r, accept e r = true → r = e)
    (localStr pk remote : Bytes) (h : pk.length = 32)
    (hacc : ∃ e, (newSessionTracker localStr (idB58Encode (idFromPublicKey pk))).linkPeer = some e ∧
      accept e remote = true) :
    remote = idFromPublicKey pk ∧
    (newSessionTracker localStr (idB58Encode (idFromPublicKey pk))).signalPub = some pk := by
  obtain ⟨hl, hp⟩ := tracker_binds_signaled_peer localStr pk h
  obtain ⟨e, he, ha⟩ := hacc
  rw [hl] at he
  injection he with he
  subst he
  exact ⟨htls _ _ ha, hp⟩

/-! ### trackers are only created for a validated, foreign peer — and routed by the session's peer -/

/-- Shape of the code around the tracker (regenerated on every run from handler.go, webrtc.go,
session.go and a scan of the whole package):
* `Resolve` decodes what `r.sess.Recv` yields with the transport's own private key and pushes the
  result to the tracker that `addSessionTrackerRef(remotePeerIDStr)` yields, where
  `remotePeerIDStr = r.sess.GetRemotePeerID().String()` — the remote peer of THAT signaling session;
  the same string keys `incomingSessions`; nothing else is assigned to `tkr` and nothing else is sent;
* `resolveHandleSignalPeer` refuses sessions of another signaling ID, sessions whose local peer is
  not the transport's peer, and blocked peers, and hands the directive's own session to the resolver;
* `addSessionTrackerRef` parses its argument (error ⇒ return), refuses the transport's own ID
  (error), and is the only code that adds a key to `sessionTrackers` — with the canonical text of the
  parsed ID; `newSessionTracker` is referred to only as that container's constructor, the tracker
  literal occurs only there, and no code in the package assigns a `peerID` / `peerPub` / `offerer` /
  `key` field; its callers are `DialPeer` (with `peerID.String()`) and `Resolve`; the verif hooks
  reach trackers through `addSessionTrackerRef` (and the older `VerifSessionTrackerFacts` through
  the bare constructor);
* `executeXmitSignal` encrypts to `s.peerPub` and sends exactly that ciphertext on the signal's
  session, which is the session `ExSignalPeer(…, s.w.peerID, s.peerID, …)` returned;
* `execute` refuses a `request_offer` when `!s.offerer` and an SDP of the wrong type for its role;
* `executeLink` listens iff `s.offerer`, and both constructors get `s.w.identity` and `s.peerID`. -/
theorem handler_code_shape :
    Gen.WebRtcSession.resolveRemotePeerID = "r.sess.GetRemotePeerID()" ∧
    Gen.WebRtcSession.resolveRemotePeerIDStr = "remotePeerID.String()" ∧
    Gen.WebRtcSession.resolveDataSource = "r.sess.Recv(ctx)" ∧
    Gen.WebRtcSession.resolveDecodeArgs = ["data", "r.t.privKey"] ∧
    Gen.WebRtcSession.resolveSigSource = "DecodeWebRtcSignal(data, r.t.privKey)" ∧
    Gen.WebRtcSession.resolveAddRefCallee = "r.t.addSessionTrackerRef" ∧
    Gen.WebRtcSession.resolveAddRefArgs = ["remotePeerIDStr"] ∧
    Gen.WebRtcSession.resolveAddRefLhs = ["ref", "tkr", "_", "err"] ∧
    Gen.WebRtcSession.resolveTkrDefs = ["r.t.addSessionTrackerRef(remotePeerIDStr)"] ∧
    Gen.WebRtcSession.resolveSends = ["tkr.rxSignal <- sig"] ∧
    Gen.WebRtcSession.resolveIncomingKeys = ["remotePeerIDStr"] ∧
    Gen.WebRtcSession.handleGuards =
      ["dir.HandleSignalingID() != c.t.conf.GetSignalingId()", "localPeerIDStr != actualLocalPeerIDStr",
       "slices.Contains(c.t.conf.GetBlockPeers(), remotePeerIDStr)"] ∧
    Gen.WebRtcSession.handleLocalPeerID = "dir.HandleSignalPeerSession().GetLocalPeerID()" ∧
    Gen.WebRtcSession.handleLocalPeerIDStr = "localPeerID.String()" ∧
    Gen.WebRtcSession.handleActualLocalPeerIDStr = "c.t.peerID.String()" ∧
    Gen.WebRtcSession.handleRemotePeerIDStr = "dir.HandleSignalPeerSession().GetRemotePeerID().String()" ∧
    Gen.WebRtcSession.handleResolverT = "c.t" ∧
    Gen.WebRtcSession.handleResolverSess = "dir.HandleSignalPeerSession()" ∧
    Gen.WebRtcSession.addRefParams = ["peerIDStr"] ∧
    Gen.WebRtcSession.addRefBody =
      ["peerID, peerPub, err := peer.ParsePeerIDWithPubKey(peerIDStr)", "if err != nil return-error",
       "if w.peerID.MatchesPublicKey(peerPub) return-error",
       "ref, tkr, existed := w.sessionTrackers.AddKeyRef(peerID.String())", "return ref, tkr, existed, nil"] ∧
    Gen.WebRtcSession.trackerCreators =
      ["NewWebRTC: tpt.newSessionTracker", "addSessionTrackerRef: w.sessionTrackers.AddKeyRef(peerID.String())"] ∧
    Gen.WebRtcSession.addRefCallSites =
      ["DialPeer: w.addSessionTrackerRef(peerIDStr)", "Resolve: r.t.addSessionTrackerRef(remotePeerIDStr)"] ∧
    Gen.WebRtcSession.trackerCreatorsVerif =
      ["VerifAddSessionTrackerRef: w.addSessionTrackerRef(peerIDStr)", "VerifSessionTrackerFacts: w.newSessionTracker"] ∧
    Gen.WebRtcSession.trackerLiterals = ["newSessionTracker"] ∧
    Gen.WebRtcSession.packageFieldAssignments = [] ∧
    Gen.WebRtcSession.dialPeerIDStr = "peerID.String()" ∧
    Gen.WebRtcSession.xmitEncodeArgs = ["sig.sig", "s.peerPub"] ∧
    Gen.WebRtcSession.xmitMsgEnc = "EncodeWebRtcSignal(sig.sig, s.peerPub)" ∧
    Gen.WebRtcSession.xmitSend = "sig.sess.Send(ctx, msgEnc)" ∧
    Gen.WebRtcSession.exSignalPeerArgs =
      ["ctx", "s.w.b", "s.w.conf.GetSignalingId()", "s.w.peerID", "s.peerID", "false"] ∧
    Gen.WebRtcSession.exSignalPeerLhs = ["signal", "signalRel", "err"] ∧
    Gen.WebRtcSession.outgoingSignalSess = ["signal"] ∧
    Gen.WebRtcSession.requestOfferRefusedIf = ["!s.offerer"] ∧
    Gen.WebRtcSession.sdpRoleEnforcement =
      ["if s.offerer", "then reject if sdpType != \"answer\"", "else reject if sdpType != \"offer\""] ∧
    Gen.WebRtcSession.sdpTypeDef = "currRxSdp.GetSdpType()" ∧
    Gen.WebRtcSession.executeLinkShape =
      ["if s.offerer", "then ListenSession(ctx, s.le, linkOpts, pc, s.w.identity, s.peerID)",
       "else DialSession(ctx, s.le, linkOpts, pc, s.w.identity, remoteAddr, s.peerID)"] ∧
    Gen.WebRtcSession.executeLinkRemoteAddr = "peer.NewNetAddr(s.peerID)" := by
  repeat' constructor

/-- Whatever string is handed to `addSessionTrackerRef`: if a tracker results, the string parsed
to a peer ID `id` with an embedded public key `pk`; the tracker is keyed by the canonical text of
`id`, hands exactly `id` to the Quic/TLS constructors and to the signaling session, and encrypts
its signals to exactly `pk`; `id` is never empty (an empty expected peer would make the TLS layer
accept anyone) and never the transport's own ID. -/
theorem tracker_only_for_validated_peer (localID s : Bytes) (t : Tracker)
    (h : addSessionTrackerRef localID s = some t) :
    ∃ id pk, idB58Decode s = some id ∧ extractPublicKey id = some pk ∧ id ≠ [] ∧
      matchesPublicKey localID pk = false ∧ t.key = idB58Encode id ∧
      t.sinks = ⟨some id, some id, some pk⟩ := by
  unfold addSessionTrackerRef at h
  cases hd : idB58Decode s with
  | none => simp [hd] at h
  | some id =>
    simp only [hd] at h
    cases he : extractPublicKey id with
    | none => simp [he] at h
    | some pk =>
      simp only [he] at h
      cases hm : matchesPublicKey localID pk with
      | true => simp [hm] at h
      | false =>
        simp only [hm, Bool.false_eq_true, ↓reduceIte, Option.some.injEq] at h
        obtain ⟨hne, hc⟩ := Signal.idB58Decode_canonical s id hd
        refine ⟨id, pk, rfl, he, hne, hm, ?_, ?_⟩
        · rw [← h]; rfl
        · rw [← h]
          simp [Tracker.sinks, newSessionTracker, hc, he]

/-- Malformed strings, IDs without an embedded key and the transport's own ID yield an error and
no tracker. -/
theorem malformed_or_self_rejected (localID s : Bytes) :
    (idB58Decode s = none → addSessionTrackerRef localID s = none) ∧
    (∀ id, idB58Decode s = some id → extractPublicKey id = none → addSessionTrackerRef localID s = none) ∧
    (∀ pk, pk.length = 32 → addSessionTrackerRef (idFromPublicKey pk) (idB58Encode (idFromPublicKey pk)) = none) := by
  refine ⟨fun h => by simp [addSessionTrackerRef, h], fun id h1 h2 => by simp [addSessionTrackerRef, h1, h2], ?_⟩
  intro pk hpk
  have hid : idB58Decode (idB58Encode (idFromPublicKey pk)) = some (idFromPublicKey pk) := by
    have hfb := idFromBytes_idFromPublicKey pk hpk
    obtain ⟨_, r, hr⟩ := idFromBytes_some _ _ hfb
    unfold idB58Decode idB58Encode
    rw [B58.decode_encode _ (decodeMultihash_ne_nil _ r hr)]
    exact hfb
  simp [addSessionTrackerRef, hid, Codec.extract_idFromPublicKey pk hpk, matchesPublicKey]

/-- The tracker created for the signaled peer P (public key `pk`) — by `DialPeer(P)` or by a
signal arriving on the signaling session whose remote peer is P — hands exactly P to the TLS
constructors (`ListenSession` / `DialSession`) and to `ExSignalPeer`, and encrypts its signals to
P's key. -/
theorem tracker_for_signaled_peer (localID pk : Bytes) (h : pk.length = 32) (hself : idFromPublicKey pk ≠ localID) :
    ∃ t, dialTracker localID (idFromPublicKey pk) = some t ∧
      incomingTracker localID (idFromPublicKey pk) = some t ∧
      t.key = idB58Encode (idFromPublicKey pk) ∧
      t.sinks = ⟨some (idFromPublicKey pk), some (idFromPublicKey pk), some pk⟩ := by
  have hid : idB58Decode (idB58Encode (idFromPublicKey pk)) = some (idFromPublicKey pk) := by
    have hfb := idFromBytes_idFromPublicKey pk h
    obtain ⟨_, r, hr⟩ := idFromBytes_some _ _ hfb
    unfold idB58Decode idB58Encode
    rw [B58.decode_encode _ (decodeMultihash_ne_nil _ r hr)]
    exact hfb
  have hex := Codec.extract_idFromPublicKey pk h
  have hm : matchesPublicKey localID pk = false := by
    simp [matchesPublicKey, hself]
  refine ⟨newSessionTracker (idB58Encode localID) (idB58Encode (idFromPublicKey pk)), ?_, ?_, rfl, ?_⟩
  · simp [dialTracker, addSessionTrackerRef, hid, hex, hm]
  · simp [incomingTracker, addSessionTrackerRef, hid, hex, hm]
  · simp [Tracker.sinks, newSessionTracker, hid, hex]

/-- Signals of two different sessions never reach the same tracker: the tracker is a function of
the session's remote peer, and trackers of different peers are keyed differently. -/
theorem incoming_not_misrouted (localID r1 r2 : Bytes) (t1 t2 : Tracker) (hne : r1 ≠ r2)
    (h1 : incomingTracker localID r1 = some t1) (h2 : incomingTracker localID r2 = some t2) :
    t1.key ≠ t2.key ∧ t1.sinks.quicExpectedPeer = some r1 ∧ t2.sinks.quicExpectedPeer = some r2 := by
  obtain ⟨id1, pk1, hd1, _, hn1, _, hk1, hs1⟩ := tracker_only_for_validated_peer localID _ t1 h1
  obtain ⟨id2, pk2, hd2, _, hn2, _, hk2, hs2⟩ := tracker_only_for_validated_peer localID _ t2 h2
  -- the canonical text of r decodes to r
  have hr : ∀ r id, idB58Decode (idB58Encode r) = some id → id = r := by
    intro r id h
    unfold idB58Decode idB58Encode at h
    by_cases hr0 : r = []
    · subst hr0
      have : B58.encode ([] : Bytes) = [] := (B58.encode_eq_nil []).mpr rfl
      rw [this, B58.decode_nil] at h
      cases h
    · rw [B58.decode_encode r hr0] at h
      exact (idFromBytes_some r id h).1
  have e1 := hr r1 id1 hd1
  have e2 := hr r2 id2 hd2
  subst e1 e2
  refine ⟨?_, by rw [hs1], by rw [hs2]⟩
  rw [hk1, hk2]
  intro he
  unfold idB58Encode at he
  have h1' := B58.decode_encode id1 hn1
  rw [he, B58.decode_encode id2 hn2] at h1'
  injection h1' with h1'
  exact hne h1'.symm

/-! ### which peers get a session: block list, signaling ID, `incomingSessions` -/

/-- A peer on the block list gets no session by any route: `DialPeer` returns at once without
touching the tracker table, the incoming signal handler does not answer a signaling session with
it (so none of its signals is ever decoded or routed), and `GetPeerDialer` offers no dialer for
it — whatever else the configuration says (`AllPeers`, a `Dialers` entry). -/
theorem blocked_peer_gets_no_session (t : Transport) (p : Bytes) (h : idB58Encode p ∈ t.blockPeers) :
    t.dialPeer p = .refused ∧ (∀ sg l, t.incoming sg l p = none) ∧ t.offersDialer p = false := by
  have hb : t.blocked p = true := by
    unfold Transport.blocked
    exact List.contains_iff_mem.mpr h
  refine ⟨by simp [Transport.dialPeer, hb], fun sg l => by simp [Transport.incoming, Transport.answers, hb],
    by simp [Transport.offersDialer, hb]⟩

/-- A session only ever exists for the peer that was dialed or whose signaling session was
answered: a tracker yielded by `DialPeer(p)` or by a signal on the session (sg, l, r) is the
tracker of `addSessionTrackerRef` for exactly that peer — it hands exactly that peer to the
Quic/TLS constructors — and that peer is not blocked; the handler only answers sessions of the
transport's own signaling ID and own local peer. -/
theorem session_only_for_dialed_or_answered_peer (t : Transport) :
    (∀ p tk, t.dialPeer p = .tracker tk →
      t.blocked p = false ∧ dialTracker t.localID p = some tk) ∧
    (∀ sg l r tk, t.incoming sg l r = some tk →
      sg = t.signalingID ∧ idB58Encode l = idB58Encode t.localID ∧ t.blocked r = false ∧
      incomingTracker t.localID r = some tk ∧ dialTracker t.localID r = some tk) := by
  constructor
  · intro p tk h
    unfold Transport.dialPeer at h
    cases hb : t.blocked p with
    | true => simp [hb] at h
    | false =>
      simp only [hb, Bool.false_eq_true, ↓reduceIte] at h
      cases hd : dialTracker t.localID p with
      | none => simp [hd] at h
      | some tk' =>
        simp only [hd, Dial.tracker.injEq] at h
        exact ⟨rfl, by rw [h]⟩
  · intro sg l r tk h
    unfold Transport.incoming at h
    cases ha : t.answers sg l r with
    | false => simp [ha] at h
    | true =>
      simp only [ha, ↓reduceIte] at h
      unfold Transport.answers at ha
      simp only [Bool.and_eq_true, beq_iff_eq, Bool.not_eq_eq_eq_not, Bool.not_true] at ha
      exact ⟨ha.1.1, ha.1.2, ha.2, h, h⟩

/-- The `incomingSessions` table does not outlive the signaling session: once `Resolve` has
returned (its deferred function ran) the session's remote peer is no longer listed, other
entries are untouched, and a table that only held this resolver's entry is empty again. -/
theorem incoming_table_clean (tab : List Bytes) (r : Bytes) :
    r ∉ incomingExit (incomingEnter tab r) r ∧
    (∀ q, q ≠ r → (q ∈ incomingExit (incomingEnter tab r) r ↔ q ∈ tab)) ∧
    incomingExit (incomingEnter [] r) r = [] := by
  refine ⟨by simp [incomingExit], ?_, by simp [incomingExit, incomingEnter]⟩
  intro q hq
  unfold incomingExit incomingEnter
  by_cases hc : r ∈ tab
  · simp [hc, hq]
  · simp [hc, hq]

/-- Shape of the code the `Transport` model stands for (regenerated on every run from webrtc.go,
handler.go, session.go): `DialPeer` and `GetPeerDialer` start with the block-list guard on
`peerID.String()` and return nothing for a blocked peer; `Resolve`'s deferred function removes
`incomingSessions[remotePeerIDStr]` when it still is this resolver's reference and releases the
reference; `executeLink` hands the transport's own UUID, peer ID and local address (and the Quic
session, from which `NewLink` takes the verified remote identity) to `transport_quic.NewLink`. -/
theorem block_code_shape :
    Gen.WebRtcSession.dialGuards = ["slices.Contains(w.conf.GetBlockPeers(), peerIDStr) => return nil, false, nil"] ∧
    Gen.WebRtcSession.peerDialerGuards = ["slices.Contains(w.conf.GetBlockPeers(), peerIDStr) => return nil, nil"] ∧
    Gen.WebRtcSession.peerDialerPeerIDStr = "peerID.String()" ∧
    Gen.WebRtcSession.resolveCleanup =
      ["if ref != nil", "if r.t.incomingSessions[remotePeerIDStr] == ref", "delete(r.t.incomingSessions, remotePeerIDStr)",
       "broadcast()", "ref.Release()"] ∧
    Gen.WebRtcSession.newLinkArgs =
      ["ctx", "s.le", "&transport_quic.Opts{}", "s.w.GetUUID()", "s.w.peerID", "localAddr", "sess", "closed"] ∧
    Gen.WebRtcSession.executeLinkLocalAddr = "peer.NewNetAddr(s.w.peerID)" := by
  repeat' constructor

/-- Non-vacuity of the block-list theorems: a transport that blocks the text of peer `[7]`; the
table clean-up on a table that holds another entry. -/
example : (Transport.mk [1] [2] [idB58Encode [7]] true []).dialPeer [7] = .refused ∧
    (Transport.mk [1] [2] [idB58Encode [7]] true []).offersDialer [8] = true ∧
    (Transport.mk [1] [2] [] false []).answers [2] [1] [7] = true ∧
    (Transport.mk [1] [2] [idB58Encode [7]] false []).answers [2] [1] [7] = false ∧
    incomingExit (incomingEnter [[5]] [6]) [6] = [[5]] := by decide

/-- Non-vacuity: a concrete well-formed SDP signal round-trips through the codec, and the toy
primitives satisfy the laws the privacy theorems assume (see C12). -/
example : unmarshal (marshal { body := .sdp { txSeqno := 3, sdpType := [111], sdp := [118, 61, 48] } }) =
    some { body := .sdp { txSeqno := 3, sdpType := [111], sdp := [118, 61, 48] } } := by
  apply Signal.unmarshal_marshal
  refine ⟨rfl, rfl, ?_, ?_, ?_⟩ <;> simp

example : LenLaws toyPrims ∧ CryptoLaws toyPrims := ⟨toy_len, toy_crypto⟩

/-- `tracker_for_signaled_peer` is not vacuous (two different 32-byte keys), and the empty string /
a non-base58 string yield no tracker. -/
example : ∃ l pk : Bytes, pk.length = 32 ∧ idFromPublicKey pk ≠ l :=
  ⟨[], List.replicate 32 0, by decide, by decide⟩

example : addSessionTrackerRef [1] [] = none ∧ addSessionTrackerRef [1] [48] = none := by decide

end Bifrost.Props.C26
