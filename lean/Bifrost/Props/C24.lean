import Bifrost.Model.Signaling
import Bifrost.Lemmas.SigReg
/-!
C24 — Listeners learn of every peer that wants a session.
Model of the code as fixed by "fix: signaling Listen never marked its peer tracker as listening".
-/
namespace Bifrost.Props.C24
open Bifrost Bifrost.Sig

/-- An active (not replaced) listen call always holds the peer's CURRENT tracker (it is never
released under it), across any number of sessions opening and closing. -/
theorem listener_tracks_current (s : State) (h : Reachable s) : ∀ l ∈ s.lcalls, listenerOk s l = true := by
  sorry

/-- The wants recorded for a peer are exactly the peers that currently hold a session
request towards it. -/
theorem wants_exact (s : State) (h : Reachable s) : wantsOk s = true := by
  sorry

/-- Quiescence: an active listener that is not awake and has nothing left to transmit has
announced (announcements minus withdrawals) exactly the recorded wants… -/
theorem quiescent_listen_sent (s : State) (h : Reachable s) : ∀ l ∈ s.lcalls, listenQuiescentOk s l = true := by
  sorry

/-- …which are exactly the peers currently holding a session request towards it. -/
theorem quiescent_listen_exact (s : State) (h : Reachable s) (l : LCall) (hl : l ∈ s.lcalls)
    (hrun : l.ended = false ∧ l.failing = false) (hcur : l.current s = true)
    (hq : l.isAwake s = false) (hout : l.outbox = []) (w : Nat) :
    w ∈ l.sentWant ↔ wanting s l.pid w = true := by
  sorry

/-- Progress of the listener: while it is awake and current, a loop step is enabled. -/
theorem listener_step_enabled (s : State) (l : LCall) (t : Tkr)
    (hl : getLCall s l.id = some l) (ht : getTkr s l.tkr = some t)
    (hrun : l.ended = false ∧ l.failing = false) (hcur : t.nonce = l.myNonce)
    (haw : l.awake t = true) (hout : l.outbox = []) :
    ∃ w n, enabled s (.lloop l.id w n) = true := by
  sorry

end Bifrost.Props.C24
