import Bifrost.Model.Signaling
import Bifrost.Lemmas.SigReg
/-!
C24 — Listeners learn of every peer that wants a session.
Model of the code as fixed by "fix: signaling Listen never marked its peer tracker as listening".
-/
namespace Bifrost.Props.C24
open Bifrost Bifrost.Sig

/-- An active (not replaced) listen call always holds the peer's CURRENT tracker (it is never
released under it), across any number of sessions opening and closing. -/
theorem listener_tracks_current (s : State) (h : Reachable s) : ∀ l ∈ s.lcalls, listenerOk s l = true := by
  exact fun l hl => SigReg.listenerOk_of_inv (SigReg.inv_of_reachable h) l hl

/-- The wants recorded for a peer are exactly the peers that currently hold a session
request towards it. -/
theorem wants_exact (s : State) (h : Reachable s) : wantsOk s = true := by
  exact SigReg.wantsOk_of_inv (SigReg.inv_of_reachable h)

/-- Quiescence: an active listener that is not awake and has nothing left to transmit has
announced (announcements minus withdrawals) exactly the recorded wants… -/
theorem quiescent_listen_sent (s : State) (h : Reachable s) : ∀ l ∈ s.lcalls, listenQuiescentOk s l = true := by
  exact fun l hl => SigReg.listenQuiescentOk_of_inv (SigReg.inv_of_reachable h) l hl

/-- …which are exactly the peers currently holding a session request towards it. -/
theorem quiescent_listen_exact (s : State) (h : Reachable s) (l : LCall) (hl : l ∈ s.lcalls)
    (hrun : l.ended = false ∧ l.failing = false) (hcur : l.current s = true)
    (hq : l.isAwake s = false) (hout : l.outbox = []) (w : Nat) :
    w ∈ l.sentWant ↔ wanting s l.pid w = true := by
  exact SigReg.quiescent_exact_of_inv (SigReg.inv_of_reachable h) l hl hrun hcur hq hout w

/- FALSE AS STATED (no `Reachable s` hypothesis): the label `0` of `lloop` means "no choice", so in
an (unreachable) state where the peer id `0` is wanted — or was announced — no `lloop` label is
admissible. Counterexample state (not reachable: `init`/`lreg` require non-zero peer ids):
  `{ tkrs := [{ tid := 1, pid := 1, wants := [0] }], lcalls := [{ id := 2, pid := 1, tkr := 1, myNonce := 0 }] }`
see the `example` below, where every hypothesis holds and no `lloop` is enabled.

/-- Progress of the listener: while it is awake and current, a loop step is enabled. -/
theorem listener_step_enabled (s : State) (l : LCall) (t : Tkr)
    (hl : getLCall s l.id = some l) (ht : getTkr s l.tkr = some t)
    (hrun : l.ended = false ∧ l.failing = false) (hcur : t.nonce = l.myNonce)
    (haw : l.awake t = true) (hout : l.outbox = []) :
    ∃ w n, enabled s (.lloop l.id w n) = true := (false; see the counterexample)
-/

/-- The counterexample to the unrestricted statement (checked). -/
example : ∃ (s : State) (l : LCall) (t : Tkr), getLCall s l.id = some l ∧ getTkr s l.tkr = some t ∧
    (l.ended = false ∧ l.failing = false) ∧ t.nonce = l.myNonce ∧ l.awake t = true ∧ l.outbox = [] ∧
    ∀ w n, enabled s (.lloop l.id w n) = false := by
  refine ⟨{ tkrs := [{ tid := 1, pid := 1, wants := [0] }], lcalls := [{ id := 2, pid := 1, tkr := 1, myNonce := 0 }] },
    { id := 2, pid := 1, tkr := 1, myNonce := 0 }, { tid := 1, pid := 1, wants := [0] },
    by decide, by decide, by decide, by decide, by decide, by decide, ?_⟩
  intro w n
  by_cases hw : w = 0 <;> simp [enabled, getLCall, lLoop, getTkr, hw]

/-- Progress of the listener, in every state where `0` is not a peer id held in `wants`/`sentWant`:
while it is awake and current, a loop step is enabled. -/
theorem listener_step_enabled_of_nonzero (s : State) (l : LCall) (t : Tkr)
    (hl : getLCall s l.id = some l) (ht : getTkr s l.tkr = some t)
    (hrun : l.ended = false ∧ l.failing = false) (hcur : t.nonce = l.myNonce)
    (haw : l.awake t = true) (hout : l.outbox = [])
    (h0w : 0 ∉ t.wants) (h0s : 0 ∉ l.sentWant) :
    ∃ w n, enabled s (.lloop l.id w n) = true := by
  exact SigReg.listener_step_enabled_aux s l t hl ht hrun hcur haw hout h0w h0s

/-- Progress of the listener (the original statement restricted to reachable states): while it is
awake and current, a loop step is enabled. -/
theorem listener_step_enabled_partial (s : State) (h : Reachable s) (l : LCall) (t : Tkr)
    (hl : getLCall s l.id = some l) (ht : getTkr s l.tkr = some t)
    (hrun : l.ended = false ∧ l.failing = false) (hcur : t.nonce = l.myNonce)
    (haw : l.awake t = true) (hout : l.outbox = []) :
    ∃ w n, enabled s (.lloop l.id w n) = true := by
  have hz := SigReg.zero_free h hl ht
  exact SigReg.listener_step_enabled_aux s l t hl ht hrun hcur haw hout hz.1 hz.2

end Bifrost.Props.C24
