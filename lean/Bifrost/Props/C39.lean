import Bifrost.Model.Config
import Bifrost.Lemmas.Config
import Bifrost.Gen.ConfigConsts
/-!
C39 — Key files yield a usable key or an error. Property theorems only.

`openOrWrite P gen writeOk fs` models `keyfile.OpenOrWritePrivKey` (after the fix of F20) on
the file-system state `fs` at the key path: `gen` is the key the random generator yields
(`none`: the random source failed), `writeOk` whether `os.WriteFile` succeeds; the result is the
returned `(key, err)` pair and the state of the path afterwards.
-/
namespace Bifrost.Props.C39
open Bifrost Bifrost.Codec Bifrost.Config

/-- The call never panics. -/
theorem never_panics (P : PemCodec) (gen : Option Bytes) (w : Bool) (fs : FsState) :
    openOrWrite P gen w fs ≠ .panic := by
  unfold openOrWrite
  cases fs with
  | missing =>
    cases gen with
    | none => simp
    | some k => simp only; split <;> simp
  | statErr => simp
  | dir => simp
  | file b =>
    simp only
    split
    · simp
    · simp
    · simp
    · rename_i hp; exact absurd hp (parsePrivKeyPem_ne_panic P b)

/-- Never `(nil, nil)`: in every file state the caller gets a key or an error. -/
theorem key_or_error (P : PemCodec) (gen : Option Bytes) (w : Bool) (fs fs' : FsState) (r : KeyErr)
    (h : openOrWrite P gen w fs = .ok (r, fs')) : r.key ≠ none ∨ r.err = true := by
  unfold openOrWrite at h
  cases fs with
  | missing =>
    cases gen with
    | none => simp at h; obtain ⟨rfl, _⟩ := h; exact .inr rfl
    | some k =>
      simp only at h
      split at h <;> (simp at h; obtain ⟨rfl, _⟩ := h; exact .inl (by simp))
  | statErr => simp at h; obtain ⟨rfl, _⟩ := h; exact .inr rfl
  | dir => simp at h; obtain ⟨rfl, _⟩ := h; exact .inr rfl
  | file b =>
    simp only at h
    split at h
    · simp at h; obtain ⟨rfl, _⟩ := h; exact .inl (by simp)
    · simp at h; obtain ⟨rfl, _⟩ := h; exact .inr rfl
    · simp at h; obtain ⟨rfl, _⟩ := h; exact .inr rfl
    · cases h

/-- An error-free return always carries a key, and that key is a usable 64-byte Ed25519 key
(given that the generator produces 64-byte keys). -/
theorem no_error_means_usable_key (P : PemCodec) (gen : Option Bytes) (w : Bool) (fs fs' : FsState)
    (r : KeyErr) (hg : ∀ k, gen = some k → k.length = 64)
    (h : openOrWrite P gen w fs = .ok (r, fs')) (he : r.err = false) :
    ∃ k, r.key = some k ∧ k.length = 64 := by
  unfold openOrWrite at h
  cases fs with
  | missing =>
    cases gen with
    | none => simp at h; obtain ⟨rfl, _⟩ := h; cases he
    | some k =>
      simp only at h
      split at h
      · simp at h; obtain ⟨rfl, _⟩ := h; exact ⟨k, rfl, hg k rfl⟩
      · simp at h; obtain ⟨rfl, _⟩ := h; cases he
  | statErr => simp at h; obtain ⟨rfl, _⟩ := h; cases he
  | dir => simp at h; obtain ⟨rfl, _⟩ := h; cases he
  | file b =>
    simp only at h
    split at h
    · rename_i k hk
      simp at h; obtain ⟨rfl, _⟩ := h
      refine ⟨k, rfl, ?_⟩
      unfold parsePrivKeyPem at hk
      split at hk
      · cases hk
      · split at hk
        · cases hk
        · cases hu : unmarshalPrivateKey _ with
          | ok k' =>
            rw [hu] at hk
            simp only [Res.ok.injEq, Option.some.injEq] at hk
            subst hk
            exact unmarshalPrivateKey_ok_length _ _ hu
          | err => rw [hu] at hk; cases hk
          | panic => rw [hu] at hk; cases hk
    · simp at h; obtain ⟨rfl, _⟩ := h; cases he
    · simp at h; obtain ⟨rfl, _⟩ := h; cases he
    · cases h

/-- A missing file gets a new key that is written, and the written file reloads — whatever the
generator or the disk would do the second time — to the same key, hence the same public key
and peer identity, without touching the file again. -/
theorem missing_writes_and_reloads (P : PemCodec) (L : PemLaw P) (k : Bytes) (hk : k.length = 64) :
    openOrWrite P (some k) true .missing = .ok (⟨some k, false⟩, .file (marshalPrivKeyPem P k)) ∧
    ∀ gen' w', openOrWrite P gen' w' (.file (marshalPrivKeyPem P k)) =
      .ok (⟨some k, false⟩, .file (marshalPrivKeyPem P k)) := by
  constructor
  · rfl
  · intro gen' w'
    have := Bifrost.Config.unmarshal_marshalPrivateKey k hk
    unfold openOrWrite
    simp only
    have hp : parsePrivKeyPem P (marshalPrivKeyPem P k) = .ok (some k) := by
      unfold parsePrivKeyPem marshalPrivKeyPem
      rw [L.rt _ _ (.inl rfl)]
      simp [this]
    rw [hp]

/-- If the new key cannot be written the caller is told (and still gets the key). -/
theorem missing_write_failure_reported (P : PemCodec) (k : Bytes) :
    openOrWrite P (some k) false .missing = .ok (⟨some k, true⟩, .missing) := rfl

/-- An unreadable path (stat error other than "does not exist", or a directory) is an error. -/
theorem unreadable_is_error (P : PemCodec) (gen : Option Bytes) (w : Bool) :
    openOrWrite P gen w .statErr = .ok (⟨none, true⟩, .statErr) ∧
    openOrWrite P gen w .dir = .ok (⟨none, true⟩, .dir) := ⟨rfl, rfl⟩

/-- An empty or non-key file — no PEM block, a block of another type, or a body that is not a
private key — is an error, not an absent key; and the file is left alone. -/
theorem non_key_file_is_error (P : PemCodec) (gen : Option Bytes) (w : Bool) (b : Bytes)
    (h : P.decode b = none ∨ (∃ t d r, P.decode b = some (t, d, r) ∧
      (t ≠ privPemType ∨ unmarshalPrivateKey d = .err))) :
    openOrWrite P gen w (.file b) = .ok (⟨none, true⟩, .file b) := by
  unfold openOrWrite parsePrivKeyPem
  rcases h with h | ⟨t, d, r, h, ht | hu⟩
  · simp [h]
  · simp [h, ht]
  · by_cases ht : t ≠ privPemType
    · simp [h, ht]
    · simp [h, ht, hu]

/-- An existing file is never modified, and nothing is created at an unreadable path. -/
theorem existing_path_untouched (P : PemCodec) (gen : Option Bytes) (w : Bool) (fs fs' : FsState)
    (r : KeyErr) (hfs : fs ≠ .missing) (h : openOrWrite P gen w fs = .ok (r, fs')) : fs' = fs := by
  unfold openOrWrite at h
  cases fs with
  | missing => exact absurd rfl hfs
  | statErr => simp at h; exact h.2.symm
  | dir => simp at h; exact h.2.symm
  | file b =>
    simp only at h
    split at h <;> first | (simp at h; exact h.2.symm) | cases h

/-- What was wrong before the fix (F20): the unfixed function answers `(nil, nil)` for a path it
cannot stat and for a file without a PEM block — the property is false of it. -/
theorem prefix_returns_nil_nil :
    ¬ (∀ (P : PemCodec) gen w fs fs' r, openOrWritePreFix P gen w fs = .ok (r, fs') →
        r.key ≠ none ∨ r.err = true) := by
  intro hall
  have := hall ToyPem none true .statErr .statErr ⟨none, false⟩ rfl
  simp at this

theorem prefix_empty_file_nil_nil :
    openOrWritePreFix ToyPem none true (.file []) = .ok (⟨none, false⟩, .file []) := by decide

/-- The PEM block type of key files is the one in the source (re-extracted on every run). -/
theorem pem_type_matches_source : Gen.ConfigConsts.privPemType = privPemType := by decide

/-- Non-vacuity: with the concrete PEM codec, a generated key reloads. -/
example : openOrWrite ToyPem none false (.file (marshalPrivKeyPem ToyPem (List.replicate 64 3))) =
    .ok (⟨some (List.replicate 64 3), false⟩, .file (marshalPrivKeyPem ToyPem (List.replicate 64 3))) :=
  (missing_writes_and_reloads ToyPem toyPem_law _ (by simp)).2 none false

end Bifrost.Props.C39
