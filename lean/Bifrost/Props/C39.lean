import Bifrost.Model.Config
import Bifrost.Lemmas.Config
import Bifrost.Gen.ConfigConsts
/-!
C39 — Key files yield a usable key or an error. Property theorems only.

`openOrWrite P gen writeOk fs` models `keyfile.OpenOrWritePrivKey` (after the fix of F20) on
the file-system state `fs` at the key path: `gen` is the key the random generator yields
(`none`: the random source failed), `writeOk` whether `os.WriteFile` succeeds; the result is the
returned `(key, err)` pair and the state of the path afterwards.
-/
namespace Bifrost.Props.C39
open Bifrost Bifrost.Codec Bifrost.Config

/-- The call never panics. -/
theorem never_panics (P : PemCodec) (gen : Option Bytes) (w : Bool) (fs : FsState) :
    openOrWrite P gen w fs ≠ .panic := by
  unfold openOrWrite
  cases fs with
  | missing =>
    cases gen with
    | none => simp
    | some k => simp only; split <;> simp
  | statErr => simp
  | dir => simp
  | file b =>
    simp only
    split
    · simp
    · simp
    · simp
    · rename_i hp; exact absurd hp (parsePrivKeyPem_ne_panic P b)

/-- Never `(nil, nil)`: in every file state the caller gets a key or an error. -/
theorem key_or_error (P : PemCodec) (gen : Option Bytes) (w : Bool) (fs fs' : FsState) (r : KeyErr)
    (h : openOrWrite P gen w fs = .ok (r, fs')) : r.key ≠ none ∨ r.err = true := by
  unfold openOrWrite at h
  cases fs with
  | missing =>
    cases gen with
    | none => simp at h; obtain ⟨rfl, _⟩ := h; exact .inr rfl
    | some k =>
      simp only at h
      split at h <;> (simp at h; obtain ⟨rfl, _⟩ := h; exact .inl (by simp))
  | statErr => simp at h; obtain ⟨rfl, _⟩ := h; exact .inr rfl
  | dir => simp at h; obtain ⟨rfl, _⟩ := h; exact .inr rfl
  | file b =>
    simp only at h
    split at h
    · simp at h; obtain ⟨rfl, _⟩ := h; exact .inl (by simp)
    · simp at h; obtain ⟨rfl, _⟩ := h; exact .inr rfl
    · simp at h; obtain ⟨rfl, _⟩ := h; exact .inr rfl
    · cases h

/-- An error-free return always carries a key, and that key is a usable 64-byte Ed25519 key
(given that the generator produces 64-byte keys). -/
theorem no_error_means_usable_key (P : PemCodec) (gen : Option Bytes) (w : Bool) (fs fs' : FsState)
    (r : KeyErr) (hg : ∀ k, gen = some k → k.length = 64)
    (h : openOrWrite P gen w fs = .ok (r, fs')) (he : r.err = false) :
    ∃ k, r.key = some k ∧ k.length = 64 := by
  unfold openOrWrite at h
  cases fs with
  | missing =>
    cases gen with
    | none => simp at h; obtain ⟨rfl, _⟩ := h; cases he
    | some k =>
      simp only at h
      split at h
      · simp at h; obtain ⟨rfl, _⟩ := h; exact ⟨k, rfl, hg k rfl⟩
      · simp at h; obtain ⟨rfl, _⟩ := h; cases he
  | statErr => simp at h; obtain ⟨rfl, _⟩ := h; cases he
  | dir => simp at h; obtain ⟨rfl, _⟩ := h; cases he
  | file b =>
    simp only at h
    split at h
    · rename_i k hk
      simp at h; obtain ⟨rfl, _⟩ := h
      refine ⟨k, rfl, ?_⟩
      unfold parsePrivKeyPem at hk
      split at hk
      · cases hk
      · split at hk
        · cases hk
        · cases hu : unmarshalPrivateKey _ with
          | ok k' =>
            rw [hu] at hk
            simp only [Res.ok.injEq, Option.some.injEq] at hk
            subst hk
            exact unmarshalPrivateKey_ok_length _ _ hu
          | err => rw [hu] at hk; cases hk
          | panic => rw [hu] at hk; cases hk
    · simp at h; obtain ⟨rfl, _⟩ := h; cases he
    · simp at h; obtain ⟨rfl, _⟩ := h; cases he
    · cases h

/-- A missing file gets a new key that is written, and the written file reloads — whatever the
generator or the disk would do the second time — to the same key, hence the same public key
and peer identity, without touching the file again. -/
theorem missing_writes_and_reloads (P : PemCodec) (L : PemLaw P) (k : Bytes) (hk : k.length = 64) :
    openOrWrite P (some k) true .missing = .ok (⟨some k, false⟩, .file (marshalPrivKeyPem P k)) ∧
    ∀ gen' w', openOrWrite P gen' w' (.file (marshalPrivKeyPem P k)) =
      .ok (⟨some k, false⟩, .file (marshalPrivKeyPem P k)) := by
  constructor
  · rfl
  · intro gen' w'
    have := Bifrost.Config.unmarshal_marshalPrivateKey k hk
    unfold openOrWrite
    simp only
    have hp : parsePrivKeyPem P (marshalPrivKeyPem P k) = .ok (some k) := by
      unfold parsePrivKeyPem marshalPrivKeyPem
      rw [L.rt _ _ (.inl rfl)]
      simp [this]
    rw [hp]

/-- One caller alone: the concurrent model is the sequential function. -/
theorem concurrent_single_is_sequential (P : PemCodec) (k : Bytes) :
    concurrentFirstStart P [k] = ([⟨some k, false⟩], .file (marshalPrivKeyPem P k)) ∧
    openOrWrite P (some k) true .missing = .ok (⟨some k, false⟩, .file (marshalPrivKeyPem P k)) :=
  ⟨rfl, rfl⟩

/-- PARTIAL (concurrent first start): when several callers start on the same missing path at once
(each has seen "does not exist" before any of them wrote), EVERY caller gets a key and no error,
the path ends up holding the complete key file of the LAST writer, and that file reloads — whatever
generator or disk the reload would meet — to the last writer's key. -/
theorem concurrent_first_start_partial (P : PemCodec) (L : PemLaw P) (ks : List Bytes) (k : Bytes)
    (hk : k.length = 64) :
    concurrentFirstStart P (ks ++ [k]) =
      ((ks ++ [k]).map (fun k => (⟨some k, false⟩ : KeyErr)), .file (marshalPrivKeyPem P k)) ∧
    ∀ gen' w', openOrWrite P gen' w' (concurrentFirstStart P (ks ++ [k])).2 =
      .ok (⟨some k, false⟩, .file (marshalPrivKeyPem P k)) := by
  have hcs : concurrentFirstStart P (ks ++ [k]) =
      ((ks ++ [k]).map (fun k => (⟨some k, false⟩ : KeyErr)), .file (marshalPrivKeyPem P k)) := by
    unfold concurrentFirstStart
    rw [List.foldl_append]
    have h := concurrent_fold P ks [] .missing (.inl rfl)
    simp only [List.foldl_cons, List.foldl_nil]
    simp only [List.nil_append] at h
    obtain ⟨h1, h2⟩ := h
    have hstep : ∀ fs, (fs = .missing ∨ ∃ b, fs = .file b) →
        writeAfterMissing P k fs = (⟨some k, false⟩, .file (marshalPrivKeyPem P k)) := by
      intro fs hfs
      rcases hfs with h | ⟨b, h⟩ <;> subst h <;> rfl
    rw [hstep _ h2, h1]
    simp
  refine ⟨hcs, ?_⟩
  intro gen' w'
  rw [hcs]
  exact (missing_writes_and_reloads P L k hk).2 gen' w'

/-- Known finding (keyfile-concurrent-first-start): "a missing file gets a new key that is written
and reloads to the same peer identity" is FALSE for callers that start on the same missing path at
the same time: both get a key and no error, but the file holds only the last writer's key, so the
first caller's identity is lost at its next start. Witness: keys 1…1 and 2…2. Replayed on the real
code every run (the callers are held at the "generating priv key" log line, after their stat). -/
theorem concurrent_first_start_false :
    ¬ (∀ (P : PemCodec), PemLaw P → ∀ ks : List Bytes, (∀ k ∈ ks, k.length = 64) →
        ∀ k ∈ ks, ∀ gen' w', openOrWrite P gen' w' (concurrentFirstStart P ks).2 =
          .ok (⟨some k, false⟩, (concurrentFirstStart P ks).2)) := by
  intro hall
  have h1 := hall ToyPem toyPem_law ([List.replicate 64 1] ++ [List.replicate 64 2])
    (by intro k hk; simp at hk; rcases hk with h | h <;> subst h <;> simp)
    (List.replicate 64 1) (by simp) none false
  have h2 := (concurrent_first_start_partial ToyPem toyPem_law [List.replicate 64 1] (List.replicate 64 2) (by simp)).2 none false
  rw [h2] at h1
  have : List.replicate 64 (2 : UInt8) = List.replicate 64 1 := by
    have := congrArg (fun r => match r with | Res.ok (ke, _) => ke.key | _ => none) h1
    simpa using this
  revert this
  decide

/-- Non-vacuity: two concurrent first starts — both callers are served, the second key stays. -/
example : concurrentFirstStart ToyPem [[1], [2]] =
    ([⟨some [1], false⟩, ⟨some [2], false⟩], .file (marshalPrivKeyPem ToyPem [2])) := by decide

/-- If the new key cannot be written the caller is told (and still gets the key). -/
theorem missing_write_failure_reported (P : PemCodec) (k : Bytes) :
    openOrWrite P (some k) false .missing = .ok (⟨some k, true⟩, .missing) := rfl

/-- An unreadable path (stat error other than "does not exist", or a directory) is an error. -/
theorem unreadable_is_error (P : PemCodec) (gen : Option Bytes) (w : Bool) :
    openOrWrite P gen w .statErr = .ok (⟨none, true⟩, .statErr) ∧
    openOrWrite P gen w .dir = .ok (⟨none, true⟩, .dir) := ⟨rfl, rfl⟩

/-- An empty or non-key file — no PEM block, a block of another type, or a body that is not a
private key — is an error, not an absent key; and the file is left alone. -/
theorem non_key_file_is_error (P : PemCodec) (gen : Option Bytes) (w : Bool) (b : Bytes)
    (h : P.decode b = none ∨ (∃ t d r, P.decode b = some (t, d, r) ∧
      (t ≠ privPemType ∨ unmarshalPrivateKey d = .err))) :
    openOrWrite P gen w (.file b) = .ok (⟨none, true⟩, .file b) := by
  unfold openOrWrite parsePrivKeyPem
  rcases h with h | ⟨t, d, r, h, ht | hu⟩
  · simp [h]
  · simp [h, ht]
  · by_cases ht : t ≠ privPemType
    · simp [h, ht]
    · simp [h, ht, hu]

/-- An existing file is never modified, and nothing is created at an unreadable path. -/
theorem existing_path_untouched (P : PemCodec) (gen : Option Bytes) (w : Bool) (fs fs' : FsState)
    (r : KeyErr) (hfs : fs ≠ .missing) (h : openOrWrite P gen w fs = .ok (r, fs')) : fs' = fs := by
  unfold openOrWrite at h
  cases fs with
  | missing => exact absurd rfl hfs
  | statErr => simp at h; exact h.2.symm
  | dir => simp at h; exact h.2.symm
  | file b =>
    simp only at h
    split at h <;> first | (simp at h; exact h.2.symm) | cases h

/-- What was wrong before the fix (F20): the unfixed function answers `(nil, nil)` for a path it
cannot stat and for a file without a PEM block — the property is false of it. -/
theorem prefix_returns_nil_nil :
    ¬ (∀ (P : PemCodec) gen w fs fs' r, openOrWritePreFix P gen w fs = .ok (r, fs') →
        r.key ≠ none ∨ r.err = true) := by
  intro hall
  have := hall ToyPem none true .statErr .statErr ⟨none, false⟩ rfl
  simp at this

theorem prefix_empty_file_nil_nil :
    openOrWritePreFix ToyPem none true (.file []) = .ok (⟨none, false⟩, .file []) := by decide

/-! ### read-only uses of a key file: the callers and sibling sites

Read-only: `read-private` / `derive-public` (`readPrivPeer`), `read-public` / `derive-ssh-public`
(`readPubPeer`) and the `priv_key_pem` field of the Subscribe API (`privPeerOfPem`). None of these
takes the random generator or the write flag as an argument: by construction they cannot draw a
random identity or create a file; the theorems say what they return.
Callers of `OpenOrWritePrivKey`: `envelope seal` / `unseal` (`loadPubKey` / `loadPrivKey`) and
`runDaemon` (`daemonKey`): a missing path gets a new key that is written and used, exactly as the
property describes; they return a usable key or an error, and on success the key is the one in
the file afterwards. -/

/-- A read-only use never panics. -/
theorem read_only_never_panics (P : PemCodec) (fs : FsState) (b : Bytes) :
    readPrivPeer P fs ≠ .panic ∧ readPubPeer P fs ≠ .panic ∧ privPeerOfPem P b ≠ .panic := by
  have hpriv : ∀ b, privPeerOfPem P b ≠ .panic := by
    intro b
    unfold privPeerOfPem
    cases h : parsePrivKeyPem P b with
    | panic => exact absurd h (parsePrivKeyPem_ne_panic P b)
    | err => simp
    | ok o =>
      cases o with
      | none => simp
      | some k =>
        have hl : k.length = 64 := parsePrivKeyPem_ok_length P b k h
        simp [newPeer, getPublic_of_length k (by omega)]
  have hpub : ∀ b, parsePubKeyPem P b ≠ .panic := parsePubKeyPem_ne_panic P
  refine ⟨?_, ?_, hpriv b⟩
  · unfold readPrivPeer
    cases fs <;> simp [readFile, hpriv]
  · unfold readPubPeer
    cases fs with
    | file c =>
      simp only [readFile]
      cases h : parsePubKeyPem P c with
      | panic => exact absurd h (hpub c)
      | err => simp
      | ok o => cases o <;> simp
    | _ => simp [readFile]

/-- The identity a private-key reader reports is the identity of the key IN THE FILE: a success
means the path holds a file whose PEM block parses to a private key `k`, and the peer is `k`'s. -/
theorem read_private_identity_from_file (P : PemCodec) (fs : FsState) (peer : PeerInfo)
    (h : readPrivPeer P fs = .ok peer) :
    ∃ b k, fs = .file b ∧ parsePrivKeyPem P b = .ok (some k) ∧ peer.priv = some k ∧
      getPublic k = .ok peer.pub ∧ peer.id = idFromPublicKey peer.pub := by
  unfold readPrivPeer at h
  cases fs with
  | file b =>
    simp only [readFile] at h
    unfold privPeerOfPem at h
    cases hp : parsePrivKeyPem P b with
    | panic => rw [hp] at h; cases h
    | err => rw [hp] at h; cases h
    | ok o =>
      rw [hp] at h
      cases o with
      | none => cases h
      | some k =>
        simp only [newPeer] at h
        cases hg : getPublic k with
        | ok p =>
          rw [hg] at h
          injection h with h
          subst h
          exact ⟨b, k, rfl, hp, rfl, hg, rfl⟩
        | err => rw [hg] at h; cases h
        | panic => rw [hg] at h; cases h
  | missing => simp [readFile] at h
  | statErr => simp [readFile] at h
  | dir => simp [readFile] at h

/-- The same for the public-key reader (which accepts a private- or a public-key PEM). -/
theorem read_public_identity_from_file (P : PemCodec) (fs : FsState) (peer : PeerInfo)
    (h : readPubPeer P fs = .ok peer) :
    ∃ b p, fs = .file b ∧ parsePubKeyPem P b = .ok (some p) ∧ peer = ⟨none, p, idFromPublicKey p⟩ := by
  unfold readPubPeer at h
  cases fs with
  | file b =>
    simp only [readFile] at h
    cases hp : parsePubKeyPem P b with
    | panic => rw [hp] at h; cases h
    | err => rw [hp] at h; cases h
    | ok o =>
      rw [hp] at h
      cases o with
      | none => cases h
      | some p => injection h with h; exact ⟨b, p, rfl, hp, h.symm⟩
  | missing => simp [readFile] at h
  | statErr => simp [readFile] at h
  | dir => simp [readFile] at h

/-- A missing path, an unreadable path, a directory, an empty file, a file without a PEM block or
with a block of another type: every read-only use reports an error — not an absent key, not a
fresh identity. -/
theorem read_only_non_key_is_error (P : PemCodec) (fs : FsState)
    (h : fs = .missing ∨ fs = .statErr ∨ fs = .dir ∨ ∃ b, fs = .file b ∧
      (P.decode b = none ∨ ∃ t d r, P.decode b = some (t, d, r) ∧ t ≠ privPemType ∧ t ≠ pubPemType)) :
    readPrivPeer P fs = .err ∧ readPubPeer P fs = .err := by
  rcases h with rfl | rfl | rfl | ⟨b, rfl, hb⟩
  · exact ⟨rfl, rfl⟩
  · exact ⟨rfl, rfl⟩
  · exact ⟨rfl, rfl⟩
  · rcases hb with hb | ⟨t, d, r, hb, h1, h2⟩
    · have h1 : parsePrivKeyPem P b = .ok none := by unfold parsePrivKeyPem; rw [hb]
      have h2 : parsePubKeyPem P b = .ok none := by unfold parsePubKeyPem parseKeyPem; rw [hb]
      simp [readPrivPeer, readPubPeer, readFile, privPeerOfPem, h1, h2]
    · have e1 : parsePrivKeyPem P b = .err := by unfold parsePrivKeyPem; rw [hb]; simp [h1]
      have e2 : parsePubKeyPem P b = .err := by unfold parsePubKeyPem parseKeyPem; rw [hb]; simp [h1, h2]
      simp [readPrivPeer, readPubPeer, readFile, privPeerOfPem, e1, e2]

/-- A private-key reader also rejects a PUBLIC-key PEM and a private block with a malformed body. -/
theorem read_private_rejects_non_private (P : PemCodec) (b t d r : Bytes)
    (hb : P.decode b = some (t, d, r)) (h : t ≠ privPemType ∨ unmarshalPrivateKey d = .err) :
    readPrivPeer P (.file b) = .err ∧ privPeerOfPem P b = .err := by
  have hp : parsePrivKeyPem P b = .err := by
    unfold parsePrivKeyPem; rw [hb]
    rcases h with h | h
    · simp [h]
    · by_cases ht : t ≠ privPemType
      · simp [ht]
      · simp [ht, h]
  simp [readPrivPeer, readFile, privPeerOfPem, hp]

/-- `runDaemon`: the daemon starts only under the key that is in the file afterwards — the key
already there (file untouched), or, for a missing path, the freshly written one (which reloads
to itself by `missing_writes_and_reloads`); every other state is an error and the daemon does
not start. -/
theorem daemon_key_is_file_key (P : PemCodec) (gen : Option Bytes) (w : Bool) (fs fs' : FsState) (k : Bytes)
    (h : daemonKey P gen w fs = (.ok k, fs')) :
    (fs = .missing ∧ gen = some k ∧ w = true ∧ fs' = .file (marshalPrivKeyPem P k)) ∨
    (∃ b, fs = .file b ∧ parsePrivKeyPem P b = .ok (some k) ∧ fs' = fs) := by
  unfold daemonKey at h
  cases ho : openOrWrite P gen w fs with
  | panic => rw [ho] at h; simp at h
  | err => rw [ho] at h; simp at h
  | ok rf =>
    obtain ⟨r, f⟩ := rf
    rw [ho] at h
    simp only at h
    by_cases he : r.err = true
    · simp [he] at h
    · have he' : r.err = false := by cases hh : r.err <;> simp_all
      simp only [he', Bool.false_eq_true, ↓reduceIte] at h
      cases hk : r.key with
      | none => rw [hk] at h; simp at h
      | some k' =>
        rw [hk] at h
        simp only [Prod.mk.injEq, Res.ok.injEq] at h
        obtain ⟨rfl, rfl⟩ := h
        unfold openOrWrite at ho
        cases fs with
        | missing =>
          cases gen with
          | none => simp at ho; obtain ⟨rfl, _⟩ := ho; simp at hk
          | some g =>
            simp only at ho
            cases w with
            | true =>
              simp at ho
              obtain ⟨rfl, rfl⟩ := ho
              simp at hk
              subst hk
              exact .inl ⟨rfl, rfl, rfl, rfl⟩
            | false => simp at ho; obtain ⟨rfl, _⟩ := ho; simp at he'
        | statErr => simp at ho; obtain ⟨rfl, _⟩ := ho; simp at hk
        | dir => simp at ho; obtain ⟨rfl, _⟩ := ho; simp at hk
        | file b =>
          simp only at ho
          cases hp : parsePrivKeyPem P b with
          | panic => rw [hp] at ho; cases ho
          | err => rw [hp] at ho; simp at ho; obtain ⟨rfl, _⟩ := ho; simp at hk
          | ok o =>
            rw [hp] at ho
            cases o with
            | none => simp at ho; obtain ⟨rfl, _⟩ := ho; simp at hk
            | some k2 =>
              simp at ho
              obtain ⟨rfl, rfl⟩ := ho
              simp at hk
              subst hk
              exact .inr ⟨b, rfl, hp, rfl⟩

/-- …and it never panics (the `(nil, nil)` that made `NewDaemon` dereference nil is gone). -/
theorem daemon_never_panics (P : PemCodec) (gen : Option Bytes) (w : Bool) (fs : FsState) :
    (daemonKey P gen w fs).1 ≠ .panic := by
  unfold daemonKey
  cases ho : openOrWrite P gen w fs with
  | panic => exact absurd ho (never_panics P gen w fs)
  | err => simp
  | ok rf =>
    obtain ⟨r, f⟩ := rf
    simp only
    by_cases he : r.err = true
    · simp [he]
    · have he' : r.err = false := by cases hh : r.err <;> simp_all
      simp only [he', Bool.false_eq_true, ↓reduceIte]
      cases hk : r.key with
      | some k => simp
      | none =>
        rcases key_or_error P gen w fs f r ho with h | h
        · exact absurd hk h
        · rw [he'] at h; cases h

/-! ### the envelope loaders (`envelope seal` / `unseal`): callers of `OpenOrWritePrivKey` -/

/-- `loadPrivKeys` returns exactly what `runDaemon` starts under: its fall-back (re-reading the file
after an error) never finds a key that `OpenOrWritePrivKey` did not return. -/
theorem loadPrivKey_eq_daemonKey (P : PemCodec) (gen : Option Bytes) (w : Bool) (fs : FsState) :
    loadPrivKey P gen w fs = daemonKey P gen w fs := by
  unfold loadPrivKey daemonKey openOrWrite
  cases fs with
  | missing =>
    cases gen with
    | none => simp [readFile]
    | some k => cases w <;> simp [readFile]
  | statErr => simp [readFile]
  | dir => simp [readFile]
  | file b =>
    simp only
    cases hp : parsePrivKeyPem P b with
    | panic => simp
    | err => simp [readFile, hp]
    | ok o => cases o <;> simp [readFile, hp]

/-- A loader returns a usable key or an error — never a panic (in particular never the nil
dereference a `(nil, nil)` from `OpenOrWritePrivKey` would cause), given that the generator yields
64-byte keys. -/
theorem load_keys_never_panic (P : PemCodec) (gen : Option Bytes) (w : Bool) (fs : FsState)
    (hg : ∀ k, gen = some k → k.length = 64) :
    (loadPrivKey P gen w fs).1 ≠ .panic ∧ (loadPubKey P gen w fs).1 ≠ .panic := by
  refine ⟨by rw [loadPrivKey_eq_daemonKey]; exact daemon_never_panics P gen w fs, ?_⟩
  unfold loadPubKey
  cases ho : openOrWrite P gen w fs with
  | panic => exact absurd ho (never_panics P gen w fs)
  | err => simp
  | ok rf =>
    obtain ⟨r, f⟩ := rf
    simp only
    by_cases he : r.err = true
    · simp [he]
    · have he' : r.err = false := by cases hh : r.err <;> simp_all
      simp only [he', Bool.false_eq_true, ↓reduceIte]
      obtain ⟨k, hk, hl⟩ := no_error_means_usable_key P gen w fs f r hg ho he'
      rw [hk]
      simp [getPublic_of_length k (by omega)]

/-- On success the private key a loader returns is the one in the file AFTERWARDS: the key already
there (file untouched) or, for a missing path, the generated key, which has been written. -/
theorem load_priv_key_is_file_key (P : PemCodec) (gen : Option Bytes) (w : Bool) (fs fs' : FsState) (k : Bytes)
    (h : loadPrivKey P gen w fs = (.ok k, fs')) :
    (fs = .missing ∧ gen = some k ∧ w = true ∧ fs' = .file (marshalPrivKeyPem P k)) ∨
    (∃ b, fs = .file b ∧ parsePrivKeyPem P b = .ok (some k) ∧ fs' = fs) := by
  rw [loadPrivKey_eq_daemonKey] at h
  exact daemon_key_is_file_key P gen w fs fs' k h

/-- …and the public key `seal` encrypts to is the public key of that private key. -/
theorem load_pub_key_is_file_key (P : PemCodec) (gen : Option Bytes) (w : Bool) (fs fs' : FsState) (p : Bytes)
    (h : loadPubKey P gen w fs = (.ok p, fs')) :
    ∃ k, loadPrivKey P gen w fs = (.ok k, fs') ∧ getPublic k = .ok p := by
  rw [loadPrivKey_eq_daemonKey]
  unfold loadPubKey at h
  unfold daemonKey
  cases ho : openOrWrite P gen w fs with
  | panic => rw [ho] at h; simp at h
  | err => rw [ho] at h; simp at h
  | ok rf =>
    obtain ⟨r, f⟩ := rf
    rw [ho] at h
    simp only at h ⊢
    by_cases he : r.err = true
    · simp [he] at h
    · have he' : r.err = false := by cases hh : r.err <;> simp_all
      simp only [he', Bool.false_eq_true, ↓reduceIte] at h ⊢
      cases hk : r.key with
      | none => rw [hk] at h; simp at h
      | some k =>
        rw [hk] at h
        simp only [Prod.mk.injEq] at h
        obtain ⟨hp, rfl⟩ := h
        refine ⟨k, rfl, ?_⟩
        cases hg : getPublic k with
        | ok p' => rw [hg] at hp; injection hp with hp; rw [hp]
        | err => rw [hg] at hp; cases hp
        | panic => rw [hg] at hp; cases hp

/-- A missing path gets a new key that is WRITTEN, and loading the path again — whatever the generator
or the disk would do then — gives the same key, hence the same identity, without touching the file. -/
theorem load_missing_writes_and_reloads (P : PemCodec) (L : PemLaw P) (k : Bytes) (hk : k.length = 64) :
    loadPrivKey P (some k) true .missing = (.ok k, .file (marshalPrivKeyPem P k)) ∧
    loadPubKey P (some k) true .missing = (.ok (k.drop 32), .file (marshalPrivKeyPem P k)) ∧
    ∀ gen' w', loadPrivKey P gen' w' (.file (marshalPrivKeyPem P k)) = (.ok k, .file (marshalPrivKeyPem P k)) ∧
      loadPubKey P gen' w' (.file (marshalPrivKeyPem P k)) = (.ok (k.drop 32), .file (marshalPrivKeyPem P k)) := by
  have hr := (missing_writes_and_reloads P L k hk).2
  have hg := getPublic_of_length k (by omega)
  refine ⟨?_, ?_, ?_⟩
  · simp [loadPrivKey, openOrWrite]
  · simp [loadPubKey, openOrWrite, hg]
  · intro gen' w'
    constructor
    · simp [loadPrivKey, hr gen' w']
    · simp [loadPubKey, hr gen' w', hg]

/-- If the new key cannot be written the loaders report an error (no key is used that is not on
disk), and nothing is created. -/
theorem load_missing_unwritable_is_error (P : PemCodec) (k : Bytes) :
    loadPrivKey P (some k) false .missing = (.err, .missing) ∧
    loadPubKey P (some k) false .missing = (.err, .missing) := by
  constructor <;> simp [loadPrivKey, loadPubKey, openOrWrite, readFile]

/-- An existing path that holds no private key — unreadable, a directory, an empty file, no PEM block,
a block of another type (a PUBLIC key included), a malformed body — is an error for both loaders,
and is left exactly as it was. -/
theorem load_non_key_path_is_error (P : PemCodec) (gen : Option Bytes) (w : Bool) (fs : FsState)
    (h : fs = .statErr ∨ fs = .dir ∨ ∃ b, fs = .file b ∧ (P.decode b = none ∨ (∃ t d r, P.decode b = some (t, d, r) ∧
      (t ≠ privPemType ∨ unmarshalPrivateKey d = .err)))) :
    loadPrivKey P gen w fs = (.err, fs) ∧ loadPubKey P gen w fs = (.err, fs) := by
  rcases h with rfl | rfl | ⟨b, rfl, hb⟩
  · constructor <;> simp [loadPrivKey, loadPubKey, openOrWrite, readFile]
  · constructor <;> simp [loadPrivKey, loadPubKey, openOrWrite, readFile]
  · have ho := non_key_file_is_error P gen w b hb
    have hp : parsePrivKeyPem P b = .ok none ∨ parsePrivKeyPem P b = .err := by
      unfold parsePrivKeyPem
      rcases hb with hb | ⟨t, d, r, hb, ht | hu⟩
      · left; simp [hb]
      · right; simp [hb, ht]
      · right
        by_cases ht : t ≠ privPemType
        · simp [hb, ht]
        · simp [hb, ht, hu]
    constructor
    · unfold loadPrivKey
      rw [ho]
      rcases hp with hp | hp <;> simp [readFile, hp]
    · unfold loadPubKey
      rw [ho]
      simp

/-- What was wrong before the fixes (replayed on the real code by reverting each fix):
`read-private` on a file without a PEM block printed the identity of a freshly drawn RANDOM key;
the Subscribe API and `read-public` dereferenced nil. -/
theorem prefix_read_only_defects (k : Bytes) (hk : k.length = 64) (b : Bytes) (hb : ToyPem.decode b = none) :
    readPrivPeerPreFix ToyPem (some k) (.file b) = .ok ⟨some k, k.drop 32, idFromPublicKey (k.drop 32)⟩ ∧
    subscribePeerPreFix ToyPem (some k) b = .panic ∧
    readPubPeerPreFix ToyPem (.file b) = .panic := by
  have h1 : parsePrivKeyPem ToyPem b = .ok none := by unfold parsePrivKeyPem; rw [hb]
  have h2 : parsePubKeyPem ToyPem b = .ok none := by unfold parsePubKeyPem parseKeyPem; rw [hb]
  have hg := getPublic_of_length k (by omega)
  refine ⟨?_, ?_, ?_⟩
  · simp [readPrivPeerPreFix, readFile, h1, newPeer, hg]
  · simp [subscribePeerPreFix, h1]
  · simp [readPubPeerPreFix, readFile, h2]

/-- The pre-fix `read-private` therefore violates "the identity comes from the file". -/
theorem prefix_read_private_random_identity_false :
    ¬ (∀ (P : PemCodec) gen fs peer, readPrivPeerPreFix P gen fs = .ok peer →
        ∃ b k, fs = .file b ∧ parsePrivKeyPem P b = .ok (some k) ∧ peer.priv = some k) := by
  intro hall
  have hd : ToyPem.decode [] = none := by decide
  obtain ⟨h, _⟩ := prefix_read_only_defects (List.replicate 64 7) (by simp) [] hd
  obtain ⟨b, k, hfs, hp, _⟩ := hall ToyPem (some (List.replicate 64 7)) (.file []) _ h
  injection hfs with hfs
  subst hfs
  have : parsePrivKeyPem ToyPem [] = .ok none := by unfold parsePrivKeyPem; rw [hd]
  rw [this] at hp
  cases hp

/-- The key file `OpenOrWritePrivKey` writes for a missing path is read back by the read-only
uses to the identity of exactly that key. -/
theorem read_only_of_written_key (P : PemCodec) (L : PemLaw P) (k : Bytes) (hk : k.length = 64) :
    readPrivPeer P (.file (marshalPrivKeyPem P k)) = .ok ⟨some k, k.drop 32, idFromPublicKey (k.drop 32)⟩ ∧
    loadPrivKey P none false (.file (marshalPrivKeyPem P k)) = (.ok k, .file (marshalPrivKeyPem P k)) ∧
    daemonKey P none false (.file (marshalPrivKeyPem P k)) = (.ok k, .file (marshalPrivKeyPem P k)) := by
  have hp : parsePrivKeyPem P (marshalPrivKeyPem P k) = .ok (some k) := by
    unfold parsePrivKeyPem marshalPrivKeyPem
    rw [L.rt _ _ (.inl rfl)]
    simp [Bifrost.Config.unmarshal_marshalPrivateKey k hk]
  refine ⟨?_, ?_, ?_⟩
  · unfold readPrivPeer readFile privPeerOfPem
    simp only [hp, newPeer, getPublic_of_length k (by omega)]
  · unfold loadPrivKey openOrWrite
    simp only [hp]
    simp
  · unfold daemonKey openOrWrite
    simp only [hp]
    simp

/-- Non-vacuity: a valid key file is read back to its identity; an empty file and a missing path
are errors. -/
example : readPrivPeer ToyPem (.file (marshalPrivKeyPem ToyPem (List.replicate 64 3))) =
    .ok ⟨some (List.replicate 64 3), (List.replicate 64 3).drop 32, idFromPublicKey ((List.replicate 64 3).drop 32)⟩ ∧
    readPrivPeer ToyPem (.file []) = .err ∧ readPrivPeer ToyPem .missing = .err :=
  ⟨(read_only_of_written_key ToyPem toyPem_law _ (by simp)).1, by decide, rfl⟩

/-- The PEM block type of key files is the one in the source (re-extracted on every run). -/
theorem pem_type_matches_source : Gen.ConfigConsts.privPemType = privPemType := by decide

/-- Non-vacuity: with the concrete PEM codec, a generated key reloads. -/
example : openOrWrite ToyPem none false (.file (marshalPrivKeyPem ToyPem (List.replicate 64 3))) =
    .ok (⟨some (List.replicate 64 3), false⟩, .file (marshalPrivKeyPem ToyPem (List.replicate 64 3))) :=
  (missing_writes_and_reloads ToyPem toyPem_law _ (by simp)).2 none false

/-! ### history independence (wave 4) -/

/-- **The outcome of a load is a function of what the path holds NOW**: after ANY earlier loads of the
same path in the same process (`h₁`, `h₂`: any number of loads, any file states in between, starting
from any state), a load that finds the path in state `now` returns what a first load of `now`
returns. -/
theorem load_history_independent (P : PemCodec) (fs₁ fs₂ : FsState) (h₁ h₂ : List LoadStep)
    (gen : Option Bytes) (w : Bool) (now : FsState) :
    loadAfter P fs₁ h₁ ⟨gen, w, fun _ => now⟩ = openOrWrite P gen w now ∧
    loadAfter P fs₁ h₁ ⟨gen, w, fun _ => now⟩ = loadAfter P fs₂ h₂ ⟨gen, w, fun _ => now⟩ :=
  ⟨rfl, rfl⟩

/-- A path that was loaded before (any history) and now holds a file without a private key is an
error and no key — never the key of an earlier load. -/
theorem replaced_by_non_key_is_error (P : PemCodec) (fs : FsState) (h : List LoadStep)
    (gen : Option Bytes) (w : Bool) (b : Bytes)
    (hb : P.decode b = none ∨ (∃ t d r, P.decode b = some (t, d, r) ∧
      (t ≠ privPemType ∨ unmarshalPrivateKey d = .err))) :
    loadAfter P fs h ⟨gen, w, fun _ => .file b⟩ = .ok (⟨none, true⟩, .file b) :=
  non_key_file_is_error P gen w b hb

/-- A path that was loaded before and now holds the key file of `k` yields `k`. -/
theorem replaced_by_other_key_is_that_key (P : PemCodec) (L : PemLaw P) (fs : FsState) (h : List LoadStep)
    (gen : Option Bytes) (w : Bool) (k : Bytes) (hk : k.length = 64) :
    loadAfter P fs h ⟨gen, w, fun _ => .file (marshalPrivKeyPem P k)⟩ =
      .ok (⟨some k, false⟩, .file (marshalPrivKeyPem P k)) :=
  (missing_writes_and_reloads P L k hk).2 gen w

/-- Non-vacuity: generate at a missing path, reload, the file is zeroed (same length), load: error;
another key is put there, load: that key. -/
example :
    let k1 := List.replicate 64 (3 : UInt8)
    let k2 := List.replicate 64 (5 : UInt8)
    let hist : List LoadStep := [⟨some k1, true, id⟩, ⟨none, false, id⟩]
    sessionState ToyPem .missing hist = .file (marshalPrivKeyPem ToyPem k1) ∧
    loadAfter ToyPem .missing hist ⟨none, false, fun _ => .file (List.replicate 10 0)⟩ =
      .ok (⟨none, true⟩, .file (List.replicate 10 0)) ∧
    loadAfter ToyPem .missing hist ⟨none, false, fun _ => .file (marshalPrivKeyPem ToyPem k2)⟩ =
      .ok (⟨some k2, false⟩, .file (marshalPrivKeyPem ToyPem k2)) := by
  refine ⟨by decide, by decide, ?_⟩
  exact replaced_by_other_key_is_that_key ToyPem toyPem_law _ _ _ _ _ (by simp)

end Bifrost.Props.C39
