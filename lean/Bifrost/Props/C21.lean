import Bifrost.Model.SigClient
import Bifrost.Lemmas.SigClient
/-!
C21 — A signaling send is acknowledged only after the partner received it.
PARTIAL: this file proves the CLIENT half (for any relay behaviour) — the server half
(`ack_names_its_message`, `clear_names_its_message`, an ack is relayed only for the message the
partner was sent in the current epoch) is in Props/C20.lean and Props/C22.lean. The end-to-end
composition (client ∘ relay ∘ client) is NOT proved; it is exercised by the engines only.
-/
namespace Bifrost.Props.C21
open Bifrost Bifrost.SigC

/-- A `Send` reports success only after an acknowledgement naming exactly its message was
processed while that message was the pending outgoing one. -/
theorem send_success_acked (s : State) (h : Reachable s) : sendSuccessAcked s = true := by
  exact SigClient.sendSuccessAcked_of_inv (SigClient.inv_of_reachable h)

/-- An ack for any other sequence number has no effect at all… -/
theorem ack_names_its_message (s : State) (k : Nat) (hk : (s.out.map (·.seqno)) ≠ some k) :
    ackMsg s k = s := by
  simp [ackMsg, hk]

/-- …and neither has a clear for any other sequence number. -/
theorem clear_names_its_message (s : State) (k : Nat) (hk : (s.recv.map (·.seqno)) ≠ some k) :
    clearMsg s k = s := by
  simp [clearMsg, hk]

/-- The pending outgoing message is always owned by the `Send` call that submitted it. -/
theorem out_owned (s : State) (h : Reachable s) : outOwned s = true := by
  exact SigClient.outOwned_of_inv (SigClient.inv_of_reachable h)

/-- Only messages the application has received are acknowledged (the partner's half of C21). -/
theorem ack_only_after_delivery (s : State) (h : Reachable s) : acksAreDelivered s = true := by
  exact SigClient.acksAreDelivered_of_inv (SigClient.inv_of_reachable h)

example : (run [.opened 2, .sendStart ⟨1, 1⟩, .sendStep 1, .txLoop, .ackMsg 7, .sendStep 1]).sends.all (·.result.isNone) = true ∧
    (run [.opened 2, .sendStart ⟨1, 1⟩, .sendStep 1, .txLoop, .ackMsg 1, .sendStep 1]).sends.all (·.result = some true) = true := by
  decide

end Bifrost.Props.C21
