import Bifrost.Model.SigClient
import Bifrost.Model.SigClientRecv
import Bifrost.Lemmas.SigClient
import Bifrost.Lemmas.SigClientRecv
/-!
C21 — A signaling send is acknowledged only after the partner received it.
PARTIAL: this file proves the CLIENT half (for any relay behaviour) — the server half
(`ack_names_its_message`, `clear_names_its_message`, an ack is relayed only for the message the
partner was sent in the current epoch) is in Props/C20.lean and Props/C22.lean. The end-to-end
composition (client ∘ relay ∘ client) is proved in Props/C21E2E.lean (`send_success_delivered`).
The last section states `Recv` at CALL level (`Model/SigClientRecv.lean`): for arbitrary callers'
contexts a message is marked processed — hence acknowledged — only by a call that returns it.
-/
namespace Bifrost.Props.C21
open Bifrost Bifrost.SigC

/-- A `Send` reports success only after an acknowledgement naming exactly its message was
processed while that message was the pending outgoing one. -/
theorem send_success_acked (s : State) (h : Reachable s) : sendSuccessAcked s = true := by
  exact SigClient.sendSuccessAcked_of_inv (SigClient.inv_of_reachable h)

/-- An ack for any other sequence number has no effect at all… -/
theorem ack_names_its_message (s : State) (k : Nat) (hk : (s.out.map (·.seqno)) ≠ some k) :
    ackMsg s k = s := by
  simp [ackMsg, hk]

/-- …and neither has a clear for any other sequence number. -/
theorem clear_names_its_message (s : State) (k : Nat) (hk : (s.recv.map (·.seqno)) ≠ some k) :
    clearMsg s k = s := by
  simp [clearMsg, hk]

/-- The pending outgoing message is always owned by the `Send` call that submitted it. -/
theorem out_owned (s : State) (h : Reachable s) : outOwned s = true := by
  exact SigClient.outOwned_of_inv (SigClient.inv_of_reachable h)

/-- Only messages the application has received are acknowledged (the partner's half of C21). -/
theorem ack_only_after_delivery (s : State) (h : Reachable s) : acksAreDelivered s = true := by
  exact SigClient.acksAreDelivered_of_inv (SigClient.inv_of_reachable h)

example : (run [.opened 2, .sendStart ⟨1, 1⟩, .sendStep 1, .txLoop, .ackMsg 7, .sendStep 1]).sends.all (·.result.isNone) = true ∧
    (run [.opened 2, .sendStart ⟨1, 1⟩, .sendStep 1, .txLoop, .ackMsg 1, .sendStep 1]).sends.all (·.result = some true) = true := by
  decide

/-! ### `Recv` at call level: a message is acknowledged only after a `Recv` call RETURNED it

`SigC.recvIter` is one iteration of the loop body of `ClientPeerRef.Recv` as the caller sees it
(critical section, `if recv != nil { return recv, nil }`, `select` on the caller's context);
`SigC.cstep` / `CReachable` run the tracker together with the list of messages that `Recv` calls
returned with a nil error, for arbitrary callers (context already cancelled / expired when the
call is made, cancelled while it waits, long-lived). -/

/-- Whatever the caller's context does, one iteration of `Recv` acts on the tracker exactly as
the LTS step `recvStep` (so every invariant of the tracker LTS holds for arbitrary callers). -/
theorem recv_iter_is_tracker_step (s : State) (sel : Sel) : (recvIter s sel).1 = step s .recvStep :=
  SigClient.recvIter_fst s sel

/-- A `Recv` that returns `context.Canceled` has not touched the tracker: in particular it has not
marked a message processed (which is what makes the main loop acknowledge it). -/
theorem recv_canceled_untouched (s : State) (sel : Sel) (h : (recvIter s sel).2 = .canceled) :
    (recvIter s sel).1 = s := by
  rw [SigClient.recvIter_fst]
  exact SigClient.recvIter_not_returned s sel (by intro r; rw [h]; simp)

/-- An iteration marks a message processed exactly when it returns that very message with a nil
error — also for a caller whose context is already done (`sel = .ctxDone`). -/
theorem recv_marks_only_what_it_returns (s : State) (sel : Sel) :
    ((recvIter s sel).1.recvProcessed = true ∧ s.recvProcessed = false) ↔
      ∃ r, s.recv = some r ∧ s.recvProcessed = false ∧ (recvIter s sel).2 = .returned r := by
  constructor
  · rintro ⟨h1, h2⟩
    rw [SigClient.recvIter_fst] at h1
    cases hr : s.recv with
    | none => simp [recvStep, hr, h2] at h1
    | some r => exact ⟨r, rfl, h2, (SigClient.recvIter_returned_iff s sel r).2 ⟨hr, h2⟩⟩
  · rintro ⟨r, hr, hp, _⟩
    refine ⟨?_, hp⟩
    rw [SigClient.recvIter_fst]
    simp [recvStep, hr, hp]

/-- The ghost `delivered` of the tracker LTS ("handed to the application") is exactly the list of
messages that `Recv` calls returned with a nil error. -/
theorem returned_eq_delivered (c : CallState) (h : CReachable c) :
    c.returned = c.st.delivered.map (·.1) :=
  (SigClient.cinv_of_creachable h).ret

/-- Every acknowledgement the client ever put on the wire names a message that a `Recv` call had
returned to the application before — for all interleavings and all callers' contexts. -/
theorem ack_only_after_recv_returned (c : CallState) (h : CReachable c) (e k : Nat)
    (hk : Req.ack e k ∈ c.st.emitted) : ∃ m ∈ c.returned, m.seqno = k := by
  have hi := SigClient.cinv_of_creachable h
  obtain ⟨m, hm, hs⟩ := (SigClient.inv_of_reachable hi.reach).ad e k hk
  refine ⟨m, ?_, hs⟩
  rw [hi.ret]
  exact List.mem_map.2 ⟨(m, some e), hm, rfl⟩

/-- Non-vacuity: a caller whose context is already done still gets (and thereby acknowledges) a
pending message; the same caller with nothing pending returns `Canceled`, and the message that
arrives afterwards is neither marked processed nor acknowledged. -/
example :
    (let c := crun [(.opened 2, .woken), (.recvMsg ⟨7, 7⟩ true true, .woken), (.recvStep, .ctxDone), (.txLoop, .woken)]
     c.returned = [⟨7, 7⟩] ∧ c.canceled = 0 ∧ c.st.emitted = [.ack 2 7]) ∧
    (let c := crun [(.opened 2, .woken), (.recvStep, .ctxDone), (.recvMsg ⟨7, 7⟩ true true, .woken), (.txLoop, .woken)]
     c.returned = [] ∧ c.canceled = 1 ∧ c.st.emitted = [] ∧ c.st.recvProcessed = false) := by
  decide

/-- Wave 5 — delivery does not depend on the tracker's history. Sequence numbers are NOT unique
over the life of a tracker (the remote sender's counter restarts whenever ITS tracker is
re-created while this one persists), so nothing may be concluded from "this number was handed over
and acknowledged before". For EVERY state `s` (no reachability hypothesis: whatever was received,
delivered, acknowledged, opened or closed before) an authentic message accepted from the relay is
pending and unprocessed, the very next iteration of `Recv` returns exactly it whatever the
caller's context, and no acknowledgement is emitted for it before that. -/
theorem accepted_is_returned_next (s : State) (m : Msg) (sel : Sel) :
    (recvMsg s m true true).recv = some m ∧ (recvMsg s m true true).recvProcessed = false ∧
    (recvIter (recvMsg s m true true) sel).2 = .returned m := by
  simp [recvIter, recvMsg]

theorem accepted_not_acked_before_recv (s : State) (m : Msg) (e k : Nat) :
    (txLoop (recvMsg s m true true)).2 ≠ some (.ack e k) := by
  cases h : s.open_ with
  | none => simp [txLoop, recvMsg, h]
  | some e' =>
    cases ho : s.out with
    | none => simp [txLoop, recvMsg, h, ho]
    | some o => by_cases hc : s.outCancel <;> by_cases hs : s.outSent <;> simp [txLoop, recvMsg, h, ho, hc, hs]

/-- Non-vacuity: two conversations whose messages carry the SAME sequence number 1 (different
messages): both are returned by `Recv`, each acknowledged after it was returned. -/
example :
    (let c := crun [(.opened 2, .woken), (.recvMsg ⟨1, 10⟩ true true, .woken), (.recvStep, .woken), (.txLoop, .woken),
                    (.opened 3, .woken), (.recvMsg ⟨1, 11⟩ true true, .woken), (.txLoop, .woken), (.recvStep, .ctxDone), (.txLoop, .woken)]
     c.returned = [⟨1, 11⟩, ⟨1, 10⟩] ∧ c.st.emitted = [.ack 3 1, .ack 2 1]) := by
  decide

end Bifrost.Props.C21
