import Bifrost.Model.Links
import Bifrost.Model.LinksConc
import Bifrost.Lemmas.Links
import Bifrost.Lemmas.LinksUuid
import Bifrost.Lemmas.LinksConc
/-!
C06 — Link tables stay consistent with the history of link events.
Model of the code as fixed by "fix: late loss of a replaced link removed the newer link with
the same uuid". All theorems quantify over ALL op sequences (= all interleavings of the
controller's critical sections), any number of links, peers and uuids.
-/
namespace Bifrost.Props.C06
open Bifrost Bifrost.Links

/-- links mentioned by a history -/
def linkOf : Op → Option Link
  | .est l => some l
  | .lost l => some l
  | _ => none

def linksOf (ops : List Op) : List Link := ops.filterMap linkOf

/-- Well-formed history: a link object (identity `id`) has one uuid and one remote peer. -/
def WF (ops : List Op) : Prop :=
  ∀ l ∈ linksOf ops, ∀ l' ∈ linksOf ops, l.id = l'.id → l = l'

/-- Refinement: after ANY well-formed history (duplicate reports, same-uuid replacement, late /
duplicate / never-established losses, shutdown and restart) the table the controller reports
is exactly the spec's set of links established and not yet lost, the by-peer table holds the
same links, and the same links have been closed. -/
theorem refines (ops : List Op) (h : WF ops) :
    (run ops).links = (specRun ops).live ∧
    (∀ x, x ∈ (run ops).peerLinks ↔ x ∈ (run ops).links) ∧
    (∀ i, i ∈ (run ops).closed ↔ i ∈ (specRun ops).closed) ∧
    (run ops).running = (specRun ops).running ∧ (run ops).localPeer = (specRun ops).localPeer := by
  have hI := inv_run ops (wfh_of_eq (f := linkOf) (by funext op; cases op <;> rfl) h)
  exact ⟨hI.links_eq, hI.peer, hI.closed, hI.running, hI.localPeer⟩

/-- The set reported for each peer is the set of live links to that peer. -/
theorem getPeerLinks_eq (ops : List Op) (h : WF ops) (p : Nat) :
    getPeerLinks (run ops) p = (specRun ops).live.filter (fun x => x.remote = p) := by
  have hI := inv_run ops (wfh_of_eq (f := linkOf) (by funext op; cases op <;> rfl) h)
  unfold getPeerLinks
  rw [hI.links_eq]

/-- Table invariants: at most one link per uuid, at most one entry per link object, no link
to the local peer itself, and nothing at all while the transport is not running. -/
theorem table_invariant (ops : List Op) (h : WF ops) :
    ((run ops).links.map (·.uuid)).Nodup ∧ ((run ops).links.map (·.id)).Nodup ∧
    (∀ x ∈ (run ops).links, x.remote ≠ (run ops).localPeer) ∧
    ((run ops).running = false → (run ops).links = []) := by
  have hI := inv_run ops (wfh_of_eq (f := linkOf) (by funext op; cases op <;> rfl) h)
  exact ⟨hI.nd_uuid, hI.nd_id, hI.notself, hI.stopped⟩

/-- A lost link is closed and gone… -/
theorem lost_is_closed_and_gone (ops : List Op) (l : Link) (h : WF (ops ++ [.lost l])) :
    l ∉ (run (ops ++ [.lost l])).links ∧
    (∀ p, l ∉ getPeerLinks (run (ops ++ [.lost l])) p) ∧
    (l ∈ (run ops).links → l.id ∈ (run (ops ++ [.lost l])).closed) := by
  exact lost_gone (wfh_of_eq (f := linkOf) (by funext op; cases op <;> rfl) h)

/-- …and is never reported again unless the transport reports that same link object
established again (PARTIAL reading of "never reported again": see `lost_never_again_false`). -/
theorem lost_never_again_partial (pre post : List Op) (l : Link)
    (h : WF (pre ++ [.lost l] ++ post))
    (hno : ∀ op ∈ post, op ≠ .est l) :
    l ∉ (run (pre ++ [.lost l] ++ post)).links := by
  have hw : WFH (pre ++ [.lost l] ++ post) := (wfh_of_eq (f := linkOf) (by funext op; cases op <;> rfl) h)
  exact lost_never_again pre l (WFH_prefix hw) post hno

/-- Losing a link never removes any OTHER link — in particular not a newer link that replaced
it under the same uuid (late loss). -/
theorem late_loss_keeps_others (ops : List Op) (l : Link) (h : WF (ops ++ [.lost l])) :
    ∀ x ∈ (run ops).links, x.id ≠ l.id → x ∈ (run (ops ++ [.lost l])).links := by
  exact lost_keeps_others (wfh_of_eq (f := linkOf) (by funext op; cases op <;> rfl) h)

/-- The classic late-loss history, for every prefix: establish l1, replace it by l2 (same uuid),
then the loss of l1 arrives: l2 stays. -/
theorem late_loss_keeps_replacement (ops : List Op) (l1 l2 : Link)
    (hu : l1.uuid = l2.uuid) (hid : l1.id ≠ l2.id)
    (h : WF (ops ++ [.est l1, .est l2, .lost l1]))
    (hrun : (run ops).running = true) (hself : l2.remote ≠ (run ops).localPeer) :
    l2 ∈ (run (ops ++ [.est l1, .est l2, .lost l1])).links ∧
    l1 ∉ (run (ops ++ [.est l1, .est l2, .lost l1])).links := by
  have _ := hu  -- (the uuids need not even agree)
  exact late_loss_replacement hid (wfh_of_eq (f := linkOf) (by funext op; cases op <;> rfl) h) hrun hself

/-- Known finding (strict reading): "a lost link is never reported again" is FALSE when the
establishment of a link is processed after its loss (the two callbacks are delivered
asynchronously): the dead link is entered in the tables. -/
theorem lost_never_again_false :
    ¬ (∀ (pre post : List Op) (l : Link), WF (pre ++ [.lost l] ++ post) →
        l ∉ (run (pre ++ [.lost l] ++ post)).links) := by
  intro hall
  have hwf : WF ([.start 1] ++ [.lost ⟨1, 7, 2⟩] ++ [.est ⟨1, 7, 2⟩]) := by
    unfold WF; decide
  exact hall [.start 1] [.est ⟨1, 7, 2⟩] ⟨1, 7, 2⟩ hwf (by decide)

/-- Non-vacuity. -/
example : (run [.start 1, .est ⟨1, 7, 2⟩, .est ⟨2, 7, 2⟩, .lost ⟨1, 7, 2⟩]).links = [⟨2, 7, 2⟩] := by
  decide

/-! ### Links whose uuid changes after establishment (`HandleLinkLost` slow path)

The record of an op carries the uuid the link object reports AT THAT CALL. `WFU` only asks the
establishment records of a link object to agree; its loss reports may carry any uuid (the uuid
changed after establishment), in particular the uuid under which ANOTHER live link is stored. -/

def estOf : Op → Option Link
  | .est l => some l
  | _ => none

def WFU (ops : List Op) : Prop :=
  ∀ l ∈ ops.filterMap estOf, ∀ l' ∈ ops.filterMap estOf, l.id = l'.id → l = l'

/-- `WFU` is weaker than `WF`: every theorem under `WFU` covers the well-formed histories. -/
theorem wfu_of_wf (ops : List Op) (h : WF ops) : WFU ops := by
  have hw : WFH ops := wfh_of_eq (f := linkOf) (by funext op; cases op <;> rfl) h
  exact WFE_of_WFH hw

/-- Refinement for histories with uuid changes: the tables are the spec's set of links
established and not yet lost whatever uuid the loss reports carry (fast path, slow path by
identity when the uuid entry is absent or another link object). -/
theorem refines_uuid_change (ops : List Op) (h : WFU ops) :
    (run ops).links = (specRun ops).live ∧
    (∀ x, x ∈ (run ops).peerLinks ↔ x ∈ (run ops).links) ∧
    (∀ i, i ∈ (run ops).closed ↔ i ∈ (specRun ops).closed) ∧
    (run ops).running = (specRun ops).running ∧ (run ops).localPeer = (specRun ops).localPeer := by
  obtain ⟨_, hI⟩ := inv_run_wfe ops (wfe_of_eq (f := estOf) (by funext op; cases op <;> rfl) h)
  exact ⟨hI.links_eq, hI.peer, hI.closed, hI.running, hI.localPeer⟩

/-- A loss report carrying ANY uuid removes exactly its own link object: the object is gone,
every other link stays (also the one stored under the reported uuid), the object is closed if
it was in the table, and the two tables still agree. -/
theorem lost_after_uuid_change (ops : List Op) (l : Link) (h : WFU (ops ++ [.lost l])) :
    (∀ x ∈ (run (ops ++ [.lost l])).links, x.id ≠ l.id) ∧
    (∀ x ∈ (run ops).links, x.id ≠ l.id → x ∈ (run (ops ++ [.lost l])).links) ∧
    (∀ x ∈ (run ops).links, x.id = l.id → l.id ∈ (run (ops ++ [.lost l])).closed) ∧
    (∀ x, x ∈ (run (ops ++ [.lost l])).peerLinks ↔ x ∈ (run (ops ++ [.lost l])).links) :=
  lost_any_uuid (wfe_of_eq (f := estOf) (by funext op; cases op <;> rfl) h)

/-- The code BEFORE the fix (`flushEstablishedLink` deleted the entry under the uuid the link
reports now): link 1 (stored under 7) now reports uuid 8, under which link 2 is stored; the
loss of link 1 removed link 2 from the links table but not from the per-peer table, while the
links established and not yet lost are {2}. -/
theorem unfixed_flush_removes_other_link :
    (lostSlowUnfixed (run [.start 1, .est ⟨1, 7, 2⟩, .est ⟨2, 8, 3⟩]) ⟨1, 7, 2⟩ 8).links = [] ∧
    (lostSlowUnfixed (run [.start 1, .est ⟨1, 7, 2⟩, .est ⟨2, 8, 3⟩]) ⟨1, 7, 2⟩ 8).peerLinks = [⟨2, 8, 3⟩] ∧
    (specRun [.start 1, .est ⟨1, 7, 2⟩, .est ⟨2, 8, 3⟩, .lost ⟨1, 8, 2⟩]).live = [⟨2, 8, 3⟩] := by
  decide

/-- Non-vacuity: the slow path with the uuid entry being another live link. -/
example : (run [.start 1, .est ⟨1, 7, 2⟩, .est ⟨2, 8, 3⟩, .lost ⟨1, 8, 2⟩]).links = [⟨2, 8, 3⟩] ∧
    WFU [.start 1, .est ⟨1, 7, 2⟩, .est ⟨2, 8, 3⟩, .lost ⟨1, 8, 2⟩] ∧
    ¬ WF [.start 1, .est ⟨1, 7, 2⟩, .est ⟨2, 8, 3⟩, .lost ⟨1, 8, 2⟩] := by
  refine ⟨by decide, by unfold WFU; decide, ?_⟩
  intro h
  exact absurd (h ⟨1, 7, 2⟩ (by decide) ⟨1, 8, 2⟩ (by decide) rfl) (by decide)

/-! ### Events delivered from concurrent goroutines

Every handler call is one critical section; a goroutine issues its next event after the
critical section of its previous one. The behaviours of the controller on a batch `gs` of
per-goroutine sequences are the folds of `step` over the interleavings `Merge gs σ`. All
theorems above quantify over ALL op sequences, hence over all interleavings; the statements
below make the batch form explicit (it is what the engine's `links.linearize` computes). -/

/-- `Merge gs σ` is what it should be: `σ` is a permutation of the events of the batch that
keeps the sequence of every goroutine as a subsequence. -/
theorem merge_is_interleaving (gs : List (List Op)) (σ : List Op) (h : Merge gs σ) :
    σ.Perm gs.flatten ∧ ∀ g ∈ gs, g.Sublist σ :=
  ⟨h.perm, h.sublist⟩

/-- The states computed for a batch delivered after `pre` are exactly the states reached by
running `pre` followed by an interleaving of the batch. -/
theorem concurrent_outcomes (pre : List Op) (gs : List (List Op)) (s' : State) :
    s' ∈ finals (run pre) gs ↔ ∃ σ, Merge gs σ ∧ s' = run (pre ++ σ) := by
  rw [mem_finals]
  constructor
  · rintro ⟨σ, h, rfl⟩; exact ⟨σ, h, (run_append pre σ).symm⟩
  · rintro ⟨σ, h, rfl⟩; exact ⟨σ, h, run_append pre σ⟩

/-- Whatever the interleaving, the outcome of a concurrently delivered batch refines the spec
of THAT interleaving: the tables are its set of links established and not yet lost, the two
tables agree, the closed sets agree, and there is one entry per uuid and per link object. -/
theorem concurrent_batch_refines (pre : List Op) (gs : List (List Op))
    (h : WFU (pre ++ gs.flatten)) (s' : State) (hs : s' ∈ finals (run pre) gs) :
    ∃ σ, Merge gs σ ∧ s' = run (pre ++ σ) ∧
      s'.links = (specRun (pre ++ σ)).live ∧
      (∀ x, x ∈ s'.peerLinks ↔ x ∈ s'.links) ∧
      (∀ i, i ∈ s'.closed ↔ i ∈ (specRun (pre ++ σ)).closed) ∧
      (s'.links.map (·.uuid)).Nodup ∧ (s'.links.map (·.id)).Nodup := by
  obtain ⟨σ, hm, rfl⟩ := (concurrent_outcomes pre gs s').1 hs
  have hw : WFE (pre ++ σ) :=
    WFE_perm_suffix hm.perm (wfe_of_eq (f := estOf) (by funext op; cases op <;> rfl) h)
  obtain ⟨_, hI⟩ := inv_run_wfe _ hw
  exact ⟨σ, hm, rfl, hI.links_eq, hI.peer, hI.closed, hI.nd_uuid, hI.nd_id⟩

/-- Non-vacuity: the same link reported by two goroutines while a third reports its loss has
three interleaving classes (lost first / between / last). -/
example : (finals (run [.start 1]) [[.est ⟨1, 7, 2⟩], [.est ⟨1, 7, 2⟩], [.lost ⟨1, 7, 2⟩]]).map
    (fun s => (s.links.map (·.id), s.closed)) =
    [([], [1]), ([1], [1]), ([], [1]), ([1], [1]), ([1], []), ([1], [])] := by decide

end Bifrost.Props.C06
