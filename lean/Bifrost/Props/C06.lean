import Bifrost.Model.Links
import Bifrost.Lemmas.Links
/-!
C06 — Link tables stay consistent with the history of link events.
Model of the code as fixed by "fix: late loss of a replaced link removed the newer link with
the same uuid". All theorems quantify over ALL op sequences (= all interleavings of the
controller's critical sections), any number of links, peers and uuids.
-/
namespace Bifrost.Props.C06
open Bifrost Bifrost.Links

/-- links mentioned by a history -/
def linkOf : Op → Option Link
  | .est l => some l
  | .lost l => some l
  | _ => none

def linksOf (ops : List Op) : List Link := ops.filterMap linkOf

/-- Well-formed history: a link object (identity `id`) has one uuid and one remote peer. -/
def WF (ops : List Op) : Prop :=
  ∀ l ∈ linksOf ops, ∀ l' ∈ linksOf ops, l.id = l'.id → l = l'

/-- Refinement: after ANY well-formed history (duplicate reports, same-uuid replacement, late /
duplicate / never-established losses, shutdown and restart) the table the controller reports
is exactly the spec's set of links established and not yet lost, the by-peer table holds the
same links, and the same links have been closed. -/
theorem refines (ops : List Op) (h : WF ops) :
    (run ops).links = (specRun ops).live ∧
    (∀ x, x ∈ (run ops).peerLinks ↔ x ∈ (run ops).links) ∧
    (∀ i, i ∈ (run ops).closed ↔ i ∈ (specRun ops).closed) ∧
    (run ops).running = (specRun ops).running ∧ (run ops).localPeer = (specRun ops).localPeer := by
  have hI := inv_run ops (wfh_of_eq (f := linkOf) (by funext op; cases op <;> rfl) h)
  exact ⟨hI.links_eq, hI.peer, hI.closed, hI.running, hI.localPeer⟩

/-- The set reported for each peer is the set of live links to that peer. -/
theorem getPeerLinks_eq (ops : List Op) (h : WF ops) (p : Nat) :
    getPeerLinks (run ops) p = (specRun ops).live.filter (fun x => x.remote = p) := by
  have hI := inv_run ops (wfh_of_eq (f := linkOf) (by funext op; cases op <;> rfl) h)
  unfold getPeerLinks
  rw [hI.links_eq]

/-- Table invariants: at most one link per uuid, at most one entry per link object, no link
to the local peer itself, and nothing at all while the transport is not running. -/
theorem table_invariant (ops : List Op) (h : WF ops) :
    ((run ops).links.map (·.uuid)).Nodup ∧ ((run ops).links.map (·.id)).Nodup ∧
    (∀ x ∈ (run ops).links, x.remote ≠ (run ops).localPeer) ∧
    ((run ops).running = false → (run ops).links = []) := by
  have hI := inv_run ops (wfh_of_eq (f := linkOf) (by funext op; cases op <;> rfl) h)
  exact ⟨hI.nd_uuid, hI.nd_id, hI.notself, hI.stopped⟩

/-- A lost link is closed and gone… -/
theorem lost_is_closed_and_gone (ops : List Op) (l : Link) (h : WF (ops ++ [.lost l])) :
    l ∉ (run (ops ++ [.lost l])).links ∧
    (∀ p, l ∉ getPeerLinks (run (ops ++ [.lost l])) p) ∧
    (l ∈ (run ops).links → l.id ∈ (run (ops ++ [.lost l])).closed) := by
  exact lost_gone (wfh_of_eq (f := linkOf) (by funext op; cases op <;> rfl) h)

/-- …and is never reported again unless the transport reports that same link object
established again (PARTIAL reading of "never reported again": see `lost_never_again_false`). -/
theorem lost_never_again_partial (pre post : List Op) (l : Link)
    (h : WF (pre ++ [.lost l] ++ post))
    (hno : ∀ op ∈ post, op ≠ .est l) :
    l ∉ (run (pre ++ [.lost l] ++ post)).links := by
  have hw : WFH (pre ++ [.lost l] ++ post) := (wfh_of_eq (f := linkOf) (by funext op; cases op <;> rfl) h)
  exact lost_never_again pre l (WFH_prefix hw) post hno

/-- Losing a link never removes any OTHER link — in particular not a newer link that replaced
it under the same uuid (late loss). -/
theorem late_loss_keeps_others (ops : List Op) (l : Link) (h : WF (ops ++ [.lost l])) :
    ∀ x ∈ (run ops).links, x.id ≠ l.id → x ∈ (run (ops ++ [.lost l])).links := by
  exact lost_keeps_others (wfh_of_eq (f := linkOf) (by funext op; cases op <;> rfl) h)

/-- The classic late-loss history, for every prefix: establish l1, replace it by l2 (same uuid),
then the loss of l1 arrives: l2 stays. -/
theorem late_loss_keeps_replacement (ops : List Op) (l1 l2 : Link)
    (hu : l1.uuid = l2.uuid) (hid : l1.id ≠ l2.id)
    (h : WF (ops ++ [.est l1, .est l2, .lost l1]))
    (hrun : (run ops).running = true) (hself : l2.remote ≠ (run ops).localPeer) :
    l2 ∈ (run (ops ++ [.est l1, .est l2, .lost l1])).links ∧
    l1 ∉ (run (ops ++ [.est l1, .est l2, .lost l1])).links := by
  have _ := hu  -- (the uuids need not even agree)
  exact late_loss_replacement hid (wfh_of_eq (f := linkOf) (by funext op; cases op <;> rfl) h) hrun hself

/-- Known finding (strict reading): "a lost link is never reported again" is FALSE when the
establishment of a link is processed after its loss (the two callbacks are delivered
asynchronously): the dead link is entered in the tables. -/
theorem lost_never_again_false :
    ¬ (∀ (pre post : List Op) (l : Link), WF (pre ++ [.lost l] ++ post) →
        l ∉ (run (pre ++ [.lost l] ++ post)).links) := by
  intro hall
  have hwf : WF ([.start 1] ++ [.lost ⟨1, 7, 2⟩] ++ [.est ⟨1, 7, 2⟩]) := by
    unfold WF; decide
  exact hall [.start 1] [.est ⟨1, 7, 2⟩] ⟨1, 7, 2⟩ hwf (by decide)

/-- Non-vacuity. -/
example : (run [.start 1, .est ⟨1, 7, 2⟩, .est ⟨2, 7, 2⟩, .lost ⟨1, 7, 2⟩]).links = [⟨2, 7, 2⟩] := by
  decide

end Bifrost.Props.C06
