import Bifrost.Model.Codec
import Bifrost.Lemmas.Codec
/-!
C10 — Peer IDs faithfully encode public keys. Property theorems only.
Keys are raw 32-byte Ed25519 public keys; IDs are raw multihash bytes; text is base58 (ASCII bytes).
-/
namespace Bifrost.Props.C10
open Bifrost Bifrost.Codec

/-- The peer ID of a public key decodes back to exactly that key. -/
theorem extract_idFromPublicKey (raw : Bytes) (h : raw.length = 32) :
    extractPublicKey (idFromPublicKey raw) = some raw := by
  sorry

/-- Two different keys never have the same ID. -/
theorem idFromPublicKey_injective (a b : Bytes) (ha : a.length = 32) (hb : b.length = 32)
    (h : idFromPublicKey a = idFromPublicKey b) : a = b := by
  sorry

/-- An ID matches a key exactly when it was derived from it. -/
theorem matches_iff (id raw : Bytes) : matchesPublicKey id raw = true ↔ id = idFromPublicKey raw := by
  sorry

/-- Base58: decoding the text of any non-empty byte string returns it. -/
theorem b58_decode_encode (b : Bytes) (hne : b ≠ []) : B58.decode (B58.encode b) = some b := by
  sorry

/-- Base58 text is injective. -/
theorem b58_encode_injective (a b : Bytes) (h : B58.encode a = B58.encode b) : a = b := by
  sorry

/-- The text form of every accepted ID round-trips to the same ID. -/
theorem text_roundtrip (id : Bytes) (hid : idFromBytes id = some id) :
    idB58Decode (idB58Encode id) = some id := by
  sorry

/-- In particular for IDs derived from keys. -/
theorem text_roundtrip_key (raw : Bytes) (h : raw.length = 32) :
    idB58Decode (idB58Encode (idFromPublicKey raw)) = some (idFromPublicKey raw) := by
  sorry

/-- Whatever `IDFromBytes` accepts is a well-formed multihash: two valid uvarints followed by
exactly the announced number of digest bytes; and the ID is the input unchanged. -/
theorem accepted_wellformed (b id : Bytes) (h : idFromBytes b = some id) :
    id = b ∧ ∃ code n dlen m, Uv.decode b = .ok code n ∧ Uv.decode (b.drop n) = .ok dlen m ∧
      ((b.drop n).drop m).length = dlen := by
  sorry

/-- A key is only ever extracted from an IDENTITY multihash wrapping a well-formed 32-byte
Ed25519 public-key message. -/
theorem extract_only_identity (id pk : Bytes) (h : extractPublicKey id = some pk) :
    pk.length = 32 ∧ ∃ digest, decodeMultihash id = some (0, digest) ∧ unmarshalPublicKey digest = some pk := by
  sorry

/-- PARTIAL / known finding F5: the clause "accepts only identity multihashes" is FALSE for
`IDFromBytes` (it is true for `ExtractPublicKey`, see `extract_only_identity`). -/
theorem idFromBytes_only_identity_false :
    ¬ (∀ b id, idFromBytes b = some id → ∃ digest, decodeMultihash b = some (0, digest)) := by
  sorry

/-- Non-vacuity: a concrete key. -/
example : extractPublicKey (idFromPublicKey (List.replicate 32 7)) = some (List.replicate 32 7) := by
  decide

end Bifrost.Props.C10
