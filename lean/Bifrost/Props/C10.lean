import Bifrost.Model.Codec
import Bifrost.Lemmas.Codec
/-!
C10 — Peer IDs faithfully encode public keys. Property theorems only.
Keys are raw 32-byte Ed25519 public keys; IDs are raw multihash bytes; text is base58 (ASCII bytes).
-/
namespace Bifrost.Props.C10
open Bifrost Bifrost.Codec

/-- The peer ID of a public key decodes back to exactly that key. -/
theorem extract_idFromPublicKey (raw : Bytes) (h : raw.length = 32) :
    extractPublicKey (idFromPublicKey raw) = some raw := by
  exact Codec.extract_idFromPublicKey raw h

/-- Two different keys never have the same ID. -/
theorem idFromPublicKey_injective (a b : Bytes) (ha : a.length = 32) (hb : b.length = 32)
    (h : idFromPublicKey a = idFromPublicKey b) : a = b := by
  have h1 := Codec.extract_idFromPublicKey a ha
  have h2 := Codec.extract_idFromPublicKey b hb
  rw [h, h2] at h1
  injection h1 with h1
  exact h1.symm

/-- An ID matches a key exactly when it was derived from it. -/
theorem matches_iff (id raw : Bytes) : matchesPublicKey id raw = true ↔ id = idFromPublicKey raw := by
  unfold matchesPublicKey
  simp only [decide_eq_true_eq]
  exact eq_comm

/-- Base58: decoding the text of any non-empty byte string returns it. -/
theorem b58_decode_encode (b : Bytes) (hne : b ≠ []) : B58.decode (B58.encode b) = some b := by
  exact B58.decode_encode b hne

/-- Base58 text is injective. -/
theorem b58_encode_injective (a b : Bytes) (h : B58.encode a = B58.encode b) : a = b := by
  by_cases ha : a = []
  · subst ha
    have : B58.encode b = [] := by rw [← h]; rfl
    exact ((B58.encode_eq_nil b).mp this).symm
  · by_cases hb : b = []
    · subst hb
      have : B58.encode a = [] := by rw [h]; rfl
      exact (B58.encode_eq_nil a).mp this
    · have h1 := B58.decode_encode a ha
      have h2 := B58.decode_encode b hb
      rw [h, h2] at h1
      injection h1 with h1
      exact h1.symm

/-- The text form of every accepted ID round-trips to the same ID. -/
theorem text_roundtrip (id : Bytes) (hid : idFromBytes id = some id) :
    idB58Decode (idB58Encode id) = some id := by
  obtain ⟨_, r, hr⟩ := idFromBytes_some id id hid
  have hne := decodeMultihash_ne_nil id r hr
  unfold idB58Decode idB58Encode
  rw [B58.decode_encode id hne]
  exact hid

/-- In particular for IDs derived from keys. -/
theorem text_roundtrip_key (raw : Bytes) (h : raw.length = 32) :
    idB58Decode (idB58Encode (idFromPublicKey raw)) = some (idFromPublicKey raw) := by
  exact text_roundtrip _ (idFromBytes_idFromPublicKey raw h)

/-- Whatever `IDFromBytes` accepts is a well-formed multihash: two valid uvarints followed by
exactly the announced number of digest bytes; and the ID is the input unchanged. -/
theorem accepted_wellformed (b id : Bytes) (h : idFromBytes b = some id) :
    id = b ∧ ∃ code n dlen m, Uv.decode b = .ok code n ∧ Uv.decode (b.drop n) = .ok dlen m ∧
      ((b.drop n).drop m).length = dlen := by
  obtain ⟨hid, r, hr⟩ := idFromBytes_some b id h
  refine ⟨hid, ?_⟩
  unfold decodeMultihash at hr
  split at hr
  · cases hr
  split at hr
  · rename_i code n hc
    simp only at hr
    split at hr
    · rename_i dlen m hd
      split at hr
      · cases hr
      · rename_i hlen
        have hlt := Uv.decode_lt _ _ _ hd
        rw [Nat.mod_eq_of_lt hlt] at hlen
        exact ⟨code, n, dlen, m, hc, hd, by simpa using hlen⟩
    · cases hr
  · cases hr

/-- A key is only ever extracted from an IDENTITY multihash wrapping a well-formed 32-byte
Ed25519 public-key message. -/
theorem extract_only_identity (id pk : Bytes) (h : extractPublicKey id = some pk) :
    pk.length = 32 ∧ ∃ digest, decodeMultihash id = some (0, digest) ∧ unmarshalPublicKey digest = some pk := by
  unfold extractPublicKey at h
  split at h
  · cases h
  · rename_i code digest hd
    split at h
    · cases h
    · rename_i hc
      have hc0 : code = 0 := by simpa [mhIdentity] using hc
      subst hc0
      refine ⟨?_, digest, hd, h⟩
      unfold unmarshalPublicKey at h
      split at h
      · cases h
      · split at h
        · cases h
        · simp only at h
          split at h
          · cases h
          · rename_i hl
            injection h with h
            subst h
            simpa using hl

/-- PARTIAL / known finding F5: the clause "accepts only identity multihashes" is FALSE for
`IDFromBytes` (it is true for `ExtractPublicKey`, see `extract_only_identity`). -/
theorem idFromBytes_only_identity_false :
    ¬ (∀ b id, idFromBytes b = some id → ∃ digest, decodeMultihash b = some (0, digest)) := by
  intro hall
  obtain ⟨digest, hd⟩ := hall [0x12, 2, 0xaa, 0xbb] [0x12, 2, 0xaa, 0xbb] (by decide)
  have e : decodeMultihash [0x12, 2, 0xaa, 0xbb] = some (0x12, [0xaa, 0xbb]) := by decide
  rw [e] at hd
  injection hd with hd
  injection hd with hd _
  exact absurd hd (by decide)

/-- Non-vacuity: a concrete key. -/
example : extractPublicKey (idFromPublicKey (List.replicate 32 7)) = some (List.replicate 32 7) := by
  decide

end Bifrost.Props.C10
