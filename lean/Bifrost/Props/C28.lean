import Bifrost.Model.Pubsub
import Bifrost.Lemmas.PubsubNet
import Bifrost.Lemmas.PubsubReach
import Bifrost.Lemmas.PubsubTerm
import Bifrost.Lemmas.PubsubReplace
import Bifrost.Lemmas.PubsubRecvTbl
/-!
C28 — Floodsub delivers each message once to every reachable subscriber.
Network model `Bifrost.Pubsub.Net` (one step = one critical section of floodsub after
"fix: floodsub seen-message check was not atomic": the seen-set test-and-set is ONE step).
All theorems quantify over every configuration and every sequence of steps (schedule).
-/
namespace Bifrost.Props.C28
open Bifrost Bifrost.Pubsub Bifrost.Pubsub.Net

/-- At most once: in every run — any topology, any interleaving of publishes, packet
arrivals, forwards, subscription / session changes and packet loss — a message id is handed to
the local subscriptions of a node at most once (no seen-set expiry: within the dedup window). -/
theorem at_most_once (cfg : Nat → Cfg) (evs : List Ev) (n id : Nat) :
    ((run (init cfg) evs).nodes n).delivered.count id ≤ 1 :=
  (run_nodeOk (init cfg) evs (init_nodeOk cfg) n id).1

/-- …and what was delivered is in the seen set (so later copies are dropped). -/
theorem delivered_is_seen (cfg : Nat → Cfg) (evs : List Ev) (n id : Nat)
    (h : id ∈ ((run (init cfg) evs).nodes n).delivered) : id ∈ ((run (init cfg) evs).nodes n).seen :=
  (run_nodeOk (init cfg) evs (init_nodeOk cfg) n id).2 h

/-- No echo: in every run, no publish packet is ever written to the peer named as the
message's original publisher, nor to the previous hop — where the previous hop is the one
recorded when the sending node accepted the message (the peer it received it from, or the
publisher itself for a local publish). -/
theorem no_echo (cfg : Nat → Cfg) (evs : List Ev) (x : Sent) (hx : x ∈ (run (init cfg) evs).sent) :
    x.dst ≠ x.msg.origin ∧ x.dst ≠ x.prev ∧
      (x.msg.id, x.prev) ∈ ((run (init cfg) evs).nodes x.src).firstHop :=
  (run_sentOk (init cfg) evs (init_sentOk cfg)).1 x hx

/-- No echo over ANY link. `execPublish` at (peer, link) granularity (the router tables of
`Pubsub.Router`: several tuples may carry the same peer id — parallel links, a second session of a
re-dialled link): no target tuple carries the peer id of the previous hop or the id named as the
publisher, WHATEVER its link id; every target is a registered session that announced the channel. -/
theorem no_echo_any_link (r : Router) (ch fromText prev : Bytes) (t : Tpl)
    (h : t ∈ execPublishTargets r ch fromText prev) :
    t.1 ≠ prev ∧ Codec.idB58Encode t.1 ≠ fromText ∧ t ∈ r.peers ∧
      ∃ l, lookupCh r.peerChannels ch = some l ∧ t ∈ l := by
  unfold execPublishTargets at h
  rw [List.mem_filter] at h
  obtain ⟨hm, hc⟩ := h
  simp only [Bool.and_eq_true, Bool.not_eq_true', decide_eq_false_iff_not, List.contains_eq_mem,
    decide_eq_true_eq] at hc
  obtain ⟨⟨h1, h2⟩, h3⟩ := hc
  refine ⟨h2, h1, h3, ?_⟩
  cases hl : lookupCh r.peerChannels ch with
  | none => rw [hl] at hm; simp at hm
  | some l => rw [hl] at hm; exact ⟨l, rfl, by simpa using hm⟩

/-- …and conversely every announced, registered tuple of any OTHER peer gets the packet, once per
tuple (so a neighbour joined by two links is written to on both; its seen-set drops the second copy). -/
theorem every_other_announced_link_gets_it (r : Router) (ch fromText prev : Bytes) (t : Tpl) (l : List Tpl)
    (hl : lookupCh r.peerChannels ch = some l) (ht : t ∈ l) (hp : t ∈ r.peers)
    (h1 : t.1 ≠ prev) (h2 : Codec.idB58Encode t.1 ≠ fromText) :
    t ∈ execPublishTargets r ch fromText prev := by
  unfold execPublishTargets
  rw [List.mem_filter, hl]
  refine ⟨by simpa using ht, ?_⟩
  simp [h1, h2, hp]

/-- Non-vacuity: peer [9] is joined by links 1 and 2, the message came from [9] over link 1: neither
tuple of [9] is a target, the other neighbour [8] is. -/
example : execPublishTargets { peerChannels := [([1], [([9], 1), ([9], 2), ([8], 3)])], peers := [([9], 1), ([9], 2), ([8], 3)] }
    [1] [] [9] = [([8], 3)] := by decide

/-- Packets are only written to sessions that announced a subscription to the channel. -/
theorem sent_only_to_announced (s : State) (n : Nat) (x : Sent) (hx : x ∈ (step s (.fwd n)).sent) :
    x ∈ s.sent ∨ (x.dst ∈ (s.nodes n).peers ∧ (x.msg.ch, x.dst) ∈ (s.nodes n).know) := by
  rcases step_sent s (.fwd n) x hx with h | ⟨_, _, ht, he⟩
  · left; exact h
  · right
    injection he with he
    obtain ⟨_, _, a, b⟩ := fwdTargets_spec _ _ _ _ ht
    rw [← he] at a b
    exact ⟨a, b⟩

/-- Reachability (the true part of the liveness clause). Stable subscription knowledge, no
loss, `m` published by the node owning its signing identity and its id not reused by another
message. Then at quiescence (nothing in flight, nothing queued) every node connected to the
publisher by a path of forwarding edges — each hop is a session of its predecessor, known by it
to subscribe, and really subscribed — has seen `m`, and if it subscribes it was handed `m`
exactly once. -/
theorem reaches_subscriber_connected_partial (cfg : Nat → Cfg) (evs : List Ev) (m : Msg) (b : Nat)
    (hadm : ∀ ev ∈ evs, Adm m ev)
    (hpub : Ev.publish m.origin m ∈ evs)
    (hw : (run (init cfg) evs).wire = [])
    (hq : ∀ n, ((run (init cfg) evs).nodes n).queue = [])
    (hpath : SubPath cfg m.ch m.origin b) :
    m.id ∈ ((run (init cfg) evs).nodes b).seen ∧
      (m.ch ∈ (cfg b).subs → ((run (init cfg) evs).nodes b).delivered.count m.id = 1) := by
  have hinv := run_inv cfg m (init cfg) evs (init_inv cfg m) hadm
  have h0 := run_publish_seen (init cfg) evs m.origin m hpub
  have hb := quiescent_path cfg m _ hinv hw hq m.origin b hpath h0
  refine ⟨hb, fun hsub => ?_⟩
  have hd := hinv.deliv b hb hsub
  have hle := at_most_once cfg evs b m.id
  have hpos : 0 < ((run (init cfg) evs).nodes b).delivered.count m.id := List.count_pos_iff.mpr hd
  omega

/-- Progress towards quiescence is always possible: a state that is not quiescent has an
enabled internal step (a packet to receive or a queued message to forward), and that step is
admissible for the reachability theorem. -/
theorem not_quiescent_has_step (s : State) (m : Msg)
    (h : s.wire ≠ [] ∨ ∃ n, (s.nodes n).queue ≠ []) :
    ∃ ev, Adm m ev ∧ ((∃ k, ev = .recv k ∧ k < s.wire.length) ∨ (∃ n, ev = .fwd n ∧ (s.nodes n).queue ≠ [])) := by
  rcases h with h | ⟨n, h⟩
  · refine ⟨.recv 0, trivial, Or.inl ⟨0, rfl, ?_⟩⟩
    cases hw : s.wire with
    | nil => exact absurd hw h
    | cons a t => simp
  · exact ⟨.fwd n, trivial, Or.inr ⟨n, rfl, h⟩⟩

/-- Termination: in a finite mesh (`ns` the nodes, every node knows at most `D` subscriptions,
sessions only among `ns`), after any publishes, every run of ENABLED internal steps (a packet in
flight is received / a queued message is forwarded) is finite — its length is bounded by the
potential of the state it starts from. So no schedule floods forever: with the progress lemma
(`not_quiescent_has_step`) every maximal run ends in a quiescent state, where
`reaches_subscriber_connected_partial` applies. -/
theorem internal_steps_terminate (cfg : Nat → Cfg) (ns I : List Nat) (D : Nat) (hnd : ns.Nodup)
    (hdeg : ∀ n, (cfg n).know.length ≤ D) (hpeers : ∀ n p, p ∈ (cfg n).peers → p ∈ ns)
    (pubs : List (Nat × Msg)) (hp : ∀ x ∈ pubs, x.1 ∈ ns ∧ x.2.id ∈ I) (evs : List Ev)
    (hr : InternalRun (run (init cfg) (pubs.map fun x => Ev.publish x.1 x.2)) evs) :
    evs.length ≤ potential ns I D (run (init cfg) (pubs.map fun x => Ev.publish x.1 x.2)) := by
  have hc := publishes_confined ns I D (init cfg) (init_confined cfg ns I D hnd hdeg hpeers) pubs hp
  have := internalRun_bounded ns I D _ evs hc hr
  omega

/-! ### the full-strength clause is false -/

/-- Connected by links (sessions), subscribed or not. -/
inductive PeerPath (cfg : Nat → Cfg) : Nat → Nat → Prop where
  | refl (a : Nat) : PeerPath cfg a a
  | tail {a b c : Nat} : PeerPath cfg a b → c ∈ (cfg b).peers → PeerPath cfg a c

/-- Every node knows exactly the true subscriptions of its sessions. -/
def Truthful (cfg : Nat → Cfg) : Prop :=
  ∀ a b ch, (ch, b) ∈ (cfg a).know ↔ (b ∈ (cfg a).peers ∧ ch ∈ (cfg b).subs)

/-- 3-node line 0 — 1 — 2; 0 and 2 subscribe to channel 1, the middle node does not. -/
def line3 : Nat → Cfg
  | 0 => { subs := [1], know := [], peers := [1] }
  | 1 => { subs := [], know := [(1, 0), (1, 2)], peers := [0, 2] }
  | 2 => { subs := [1], know := [], peers := [1] }
  | _ => {}

theorem line3_truthful : Truthful line3 := by
  intro a b ch
  match a with
  | 0 =>
    simp only [line3, List.not_mem_nil, List.mem_singleton, false_iff, not_and]
    intro hb; subst hb; simp
  | 1 =>
    simp only [line3, List.mem_cons, Prod.mk.injEq, List.not_mem_nil, or_false]
    constructor
    · rintro (⟨h1, h2⟩ | ⟨h1, h2⟩) <;> subst h1 h2 <;> simp
    · rintro ⟨h1 | h1, h2⟩ <;> subst h1 <;> simp at h2 <;> simp [h2]
  | 2 =>
    simp only [line3, List.not_mem_nil, List.mem_singleton, false_iff, not_and]
    intro hb; subst hb; simp
  | n + 3 => simp [line3]

/-- "In ANY connected mesh a published message reaches EVERY subscriber" is false of floodsub:
nodes that do not subscribe to a channel do not relay it. Witness: the 3-node line with an
unsubscribed middle node, truthful knowledge, run to quiescence — node 2 never gets it. -/
theorem reaches_every_subscriber_false :
    ¬ (∀ (cfg : Nat → Cfg) (evs : List Ev) (m : Msg) (b : Nat),
        Truthful cfg → (∀ ev ∈ evs, Adm m ev) → Ev.publish m.origin m ∈ evs →
        (run (init cfg) evs).wire = [] → (∀ n, ((run (init cfg) evs).nodes n).queue = []) →
        PeerPath cfg m.origin b → m.ch ∈ (cfg b).subs →
        m.id ∈ ((run (init cfg) evs).nodes b).delivered) := by
  intro h
  have := h line3 [.publish 0 ⟨7, 0, 1⟩, .fwd 0] ⟨7, 0, 1⟩ 2 line3_truthful
    (by intro ev hev
        simp only [List.mem_cons, List.not_mem_nil, or_false] at hev
        rcases hev with e | e <;> subst e
        · intro _; exact ⟨rfl, rfl⟩
        · trivial)
    (by simp)
    (by decide)
    (by intro n
        by_cases hn : n = 0
        · subst hn; decide
        · simp [run, step, State.setNode, init, hvm, hn])
    (PeerPath.tail (b := 1) (PeerPath.tail (b := 0) (PeerPath.refl 0) (by decide)) (by decide))
    (by decide)
  revert this
  decide

/-- Non-vacuity of the reachability theorem: the 3-node line with ALL nodes subscribed; after
publish at 0 and the obvious schedule the net is quiescent and node 2 was handed the message. -/
def line3all : Nat → Cfg
  | 0 => { subs := [1], know := [(1, 1)], peers := [1] }
  | 1 => { subs := [1], know := [(1, 0), (1, 2)], peers := [0, 2] }
  | 2 => { subs := [1], know := [(1, 1)], peers := [1] }
  | _ => {}

example : ((run (init line3all) [.publish 0 ⟨7, 0, 1⟩, .fwd 0, .recv 0, .fwd 1, .recv 0, .fwd 2]).nodes 2).delivered.count 7 = 1 := by
  refine (reaches_subscriber_connected_partial line3all _ ⟨7, 0, 1⟩ 2 ?_ (by simp) (by decide) ?_ ?_).2 (by decide)
  · intro ev hev
    simp only [List.mem_cons, List.not_mem_nil, or_false] at hev
    rcases hev with e | e | e | e | e | e <;> subst e <;> first | trivial | (intro _; exact ⟨rfl, rfl⟩)
  · intro n
    by_cases h0 : n = 0
    · subst h0; decide
    · by_cases h1 : n = 1
      · subst h1; decide
      · by_cases h2 : n = 2
        · subst h2; decide
        · simp [run, step, State.setNode, init, hvm, fwdTargets, line3all, h0, h1, h2]
  · exact SubPath.tail (b := 1) (SubPath.tail (b := 0) (SubPath.refl 0) ⟨by decide, by decide, by decide⟩)
      ⟨by decide, by decide, by decide⟩

/-- Non-vacuity of the termination theorem: the same run is a run of enabled internal steps in
the finite universe ns = [0,1,2], ids [7], degree bound 2. -/
example : [Ev.fwd 0, .recv 0, .fwd 1, .recv 0, .fwd 2].length ≤
    potential [0, 1, 2] [7] 2 (run (init line3all) ([(0, (⟨7, 0, 1⟩ : Msg))].map fun x => Ev.publish x.1 x.2)) := by
  apply internal_steps_terminate line3all [0, 1, 2] [7] 2 (by decide)
  · intro n
    match n with
    | 0 => decide
    | 1 => decide
    | 2 => decide
    | k + 3 => simp [line3all]
  · intro n p hp
    match n with
    | 0 => simp [line3all] at hp; simp [hp]
    | 1 => simp [line3all] at hp; rcases hp with h | h <;> simp [h]
    | 2 => simp [line3all] at hp; simp [hp]
    | k + 3 => simp [line3all] at hp
  · intro x hx
    simp only [List.mem_singleton] at hx
    subst hx
    exact ⟨by decide, by decide⟩
  · refine .fwd _ 0 _ (by decide) (.recv _ 0 _ (by decide) (.fwd _ 1 _ (by decide) (.recv _ 0 _ (by decide)
      (.fwd _ 2 _ (by decide) (.nil _)))))

/-! ### `execPublish` while a session of the target tuple is registered but not started
(`Pubsub.Replace`: a tuple connected again over its live session keeps its announcements) -/

/-- The Execute loop never dereferences the context of an unstarted session: no history of
`AddPeerStream` / session start / announcements / accepted messages / session end makes the fixed
`execPublish` panic. -/
theorem replace_never_panics (cap : Nat) (evs : List Replace.Ev) :
    (Replace.run { cap := cap } evs).panicked = false := by
  rw [Replace.run_panicked]

/-- ... which the code before the fix did (refuted variant, witness replayed on the real router by
the engine): session started and announced, the tuple is connected again, a message is served. -/
theorem replace_pre_panics :
    (Replace.runPre { cap := 32 } [.add, .start, .announce true, .add, .publish 7]).panicked = true := by decide

/-- A message served while the new session is registered but not started is queued to it (when
there is room for it and the initial set) and is still there, in front of the initial set, when
`Execute` starts the session: it reaches the peer over the new stream. -/
theorem replace_unstarted_publish_queued (s : Replace.State) (x : Replace.Sess) (id : Nat)
    (hcur : s.cur = some x) (hx : x.started = false) (hann : s.announced = true) (hp : s.panicked = false)
    (hroom : x.queue.length + 1 < s.cap) :
    (Replace.step (Replace.step s (.publish id)) .start).cur = some { started := true, queue := x.queue ++ [id] ++ [0] } ∧
    (Replace.step (Replace.step s (.publish id)) .start).blockedInit = s.blockedInit ∧
    (Replace.step s (.publish id)).skipped = s.skipped := by
  simp [Replace.step, Replace.write, hcur, hx, hann, hp, hroom]

/-- The send of the initial subscription set in `Execute` (an unguarded channel send under
`m.mtx`) never finds the queue of the session it starts full, whatever was served before: the
fixed `writePacket` cannot dead-lock the loop. -/
theorem replace_start_never_blocks (cap : Nat) (hc : 0 < cap) (evs : List Replace.Ev) :
    (Replace.run { cap := cap } evs).blockedInit = false := by
  suffices h : ∀ (evs : List Replace.Ev) (s : Replace.State), 0 < s.cap → Replace.Room s → s.blockedInit = false →
      (Replace.run s evs).blockedInit = false by
    exact h evs { cap := cap } hc (by intro x hx; simp at hx) rfl
  intro evs
  induction evs with
  | nil => intro s _ _ hb; exact hb
  | cons ev evs ih =>
    intro s hc hr hb
    have hc' : 0 < (Replace.step s ev).cap := by rw [Replace.step_cap]; exact hc
    apply ih (Replace.step s ev) hc' (Replace.step_room s ev hc hr)
    cases ev <;> simp only [Replace.step] <;> try exact hb
    · cases hcur : s.cur with
      | none => exact hb
      | some x =>
        by_cases hx : x.started
        · simp [hx, hb]
        · have := hr x hcur (by simpa using hx)
          simp [hx, hb, this]
    · by_cases h : (s.panicked || !s.announced) = true
      · simp [h, hb]
      · simp only [h]
        cases hcur : s.cur with
        | none => exact hb
        | some x => exact hb
    · cases hcur : s.cur with
      | none => exact hb
      | some x => by_cases hx : x.started <;> simp [hx, hb]

/-- Non-vacuity: the witness history on the fixed code — no panic, the message waits in the new
session's queue in front of the initial set. -/
example : (Replace.run { cap := 32 } [.add, .start, .announce true, .take, .add, .publish 7, .start]).cur =
    some { started := true, queue := [7, 0] } ∧
    (Replace.run { cap := 32 } [.add, .start, .announce true, .take, .add, .publish 7, .start]).panicked = false := by decide

/-! ### Wave 5 — subscription packets of one peer never change what is recorded for another
(`handleSubscriptions` on the whole `peerChannels` table, model `RecvTbl`) -/

/-- Frame: whatever subscription entries (any channels, any flags, any number, repeated or
contradictory) arrive over the session of tuple `p`, and whatever the table holds, the record of
every OTHER tuple `q` under every channel is unchanged: an unsubscribe from a peer that never
subscribed, a second unsubscribe, an unsubscribe for another channel or a repeated subscribe cannot
make the router forget (or invent) a subscriber. -/
theorem recv_other_tuple_untouched (t : RecvTbl.Tbl) (p : Nat) (subs : List (Nat × Bool)) (ch q : Nat)
    (hq : q ≠ p) : RecvTbl.recorded (RecvTbl.handle t p subs) ch q = RecvTbl.recorded t ch q :=
  RecvTbl.handle_other t p subs ch q hq

/-- …and for the sending tuple itself the last entry decides: after one entry for a (non-empty)
channel it is recorded iff the entry said Subscribe, however often it had been announced before. -/
theorem recv_own_entry_decides (t : RecvTbl.Tbl) (p ch : Nat) (b : Bool) (h0 : ch ≠ 0) :
    RecvTbl.recorded (RecvTbl.handleOne t p ch b) ch p = b :=
  RecvTbl.handleOne_self t p ch b h0

/-- Refuted variant: with a "last subscriber" fast path (delete the channel key whenever at most
one tuple is recorded) the frame property fails — witness: tuple 7 recorded under channel 1, tuple 9
(never recorded) unsubscribes from channel 1. -/
theorem recv_fastpath_other_tuple_untouched_false :
    ¬ ∀ (t : RecvTbl.Tbl) (p ch q : Nat) (b : Bool), q ≠ p →
      RecvTbl.recorded (RecvTbl.handleOneFast t p ch b) ch q = RecvTbl.recorded t ch q := by
  intro h
  have := h (fun c => if c = 1 then some [7] else none) 9 1 7 false (by decide)
  revert this
  decide

/-- Non-vacuity: Z(7) and X(9) on channel 1; X subscribes twice then unsubscribes once, then once more:
Z stays recorded throughout, X is gone after the first unsubscribe, the key survives. -/
example :
    let t := RecvTbl.handle (fun _ => none) 7 [(1, true)]
    let t' := RecvTbl.handle t 9 [(1, true), (1, true), (1, false), (1, false), (2, false), (0, true)]
    RecvTbl.recorded t' 1 7 = true ∧ RecvTbl.recorded t' 1 9 = false ∧ t' 2 = none ∧ t' 0 = none := by decide

end Bifrost.Props.C28
