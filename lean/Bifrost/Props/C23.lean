import Bifrost.Model.SigClient
import Bifrost.Model.Signaling
import Bifrost.Lemmas.SigClient
/-!
C23 — Signaling makes progress once both peers are stably attached.
One-step progress lemmas for the client tracker (below); the server side is the wake invariant
(C22) and listener_step_enabled (C24). The composed "eventually" theorem over
client ∘ relay ∘ client under fairness is `Props/C23Live.lean` (`signaling_progress`). The F11
regression (a send in flight across a re-open) is covered here by `reopen_keeps_send` and
`no_orphan_out`, and in the liveness theorem by the quantification over arbitrary prefixes.
-/
namespace Bifrost.Props.C23
open Bifrost Bifrost.SigC

/-- No stuck outgoing slot: in every reachable state a pending outgoing message is owned by a
`Send` call that is still running and knows it transmitted it, or is being cancelled — so the
slot is always eventually freed and later sends are not blocked forever. -/
theorem no_orphan_out (s : State) (h : Reachable s) : noOrphanOut s = true := by
  exact SigClient.noOrphanOut_of_inv (SigClient.inv_of_reachable h)

/-- Progress 1: with the session open and the outgoing slot free, a running `Send` takes the slot. -/
theorem send_takes_slot (s : State) (c : SendCall) (e : Nat)
    (hc : getSend s c.id = some c) (hrun : c.result = none) (ho : s.open_ = some e) (hfree : s.out = none)
    (hid : c.msg.seqno = c.id) :
    (sendStep s c.id).out = some c.msg ∧ ∃ c', getSend (sendStep s c.id) c.id = some c' ∧ c'.txed = true := by
  have _ := hid
  obtain ⟨cid, cmsg, ctx, cep, cres⟩ := c
  obtain ⟨open_, out, outSent, outAcked, outCancel, recv, recvProcessed, sends, delivered, emitted,
    accepted, ackedLog, failed⟩ := s
  simp only at hrun ho hfree hc
  subst hrun ho hfree
  simp only [SigClient.getSend_def] at hc
  by_cases hep : cep = some e <;> cases ctx <;>
    simp [sendStep, hc, hep, SigClient.getSend_def, SigClient.setSend_def, SigClient.findL_setL]

/-- Progress 2: a pending, not yet transmitted message is transmitted by the next main-loop
iteration, stamped with the current epoch. -/
theorem loop_transmits (s : State) (o : Msg) (e : Nat)
    (ho : s.open_ = some e) (hout : s.out = some o) (hns : s.outSent = false) (hnc : s.outCancel = false) :
    (txLoop s).2 = some (.send e o) ∧ (txLoop s).1.outSent = true := by
  simp [txLoop, ho, hout, hns, hnc]

/-- Progress 3: once the ack naming its message arrived, the `Send` returns success and frees the slot. -/
theorem ack_completes (s : State) (c : SendCall) (e : Nat)
    (hc : getSend s c.id = some c) (hrun : c.result = none) (ho : s.open_ = some e)
    (hep : c.sessEpoch = some e) (htx : c.txed = true) (hout : s.out = some c.msg) (hid : c.msg.seqno = c.id)
    (hack : s.outAcked = true) :
    (sendStep s c.id).out = none ∧ ∃ c', getSend (sendStep s c.id) c.id = some c' ∧ c'.result = some true := by
  obtain ⟨cid, cmsg, ctx, cep, cres⟩ := c
  obtain ⟨open_, out, outSent, outAcked, outCancel, recv, recvProcessed, sends, delivered, emitted,
    accepted, ackedLog, failed⟩ := s
  simp only at hrun ho hout hc hep htx hid hack
  subst hrun ho hout hep htx hack
  simp only [SigClient.getSend_def] at hc
  simp [sendStep, hc, hid, SigClient.getSend_def, SigClient.setSend_def, SigClient.findL_setL]

/-- F11: a re-open while the send is in flight keeps the send alive: after `Opened e'` the
message is still pending, marked untransmitted, the `Send` call keeps waiting for ITS ack, and
the main loop re-transmits it in the new epoch. -/
theorem reopen_keeps_send (s : State) (c : SendCall) (e e' : Nat)
    (hc : getSend s c.id = some c) (hrun : c.result = none) (ho : s.open_ = some e) (hne : e ≠ e')
    (htx : c.txed = true) (hout : s.out = some c.msg) (hid : c.msg.seqno = c.id) (hnc : s.outCancel = false) :
    let s1 := opened s e'
    let s2 := sendStep s1 c.id
    (∃ c', getSend s2 c.id = some c' ∧ c'.txed = true ∧ c'.result = none) ∧ s2.out = some c.msg ∧
    (txLoop s2).2 = some (.send e' c.msg) := by
  obtain ⟨cid, cmsg, ctx, cep, cres⟩ := c
  obtain ⟨open_, out, outSent, outAcked, outCancel, recv, recvProcessed, sends, delivered, emitted,
    accepted, ackedLog, failed⟩ := s
  simp only at hrun ho hout hc htx hid hnc
  subst hrun ho hout htx hnc
  simp only [SigClient.getSend_def] at hc
  by_cases hep : cep = some e' <;>
    simp [opened, hne, sendStep, hc, hid, hep, SigClient.getSend_def, SigClient.setSend_def, SigClient.findL_setL, txLoop]

end Bifrost.Props.C23

/-! ### Relay side: the late exit of a superseded handler

A `Session` handler of the relay that was superseded by a newer stream of the same client can end
long after its successor attached (it was blocked writing on a dead connection). Its deferred
cleanup must then change nothing but its own bookkeeping: the session's epoch and every pending
slot of both CURRENT attachments (`recv`, `recvSent`, `recvClear`, `outAcked`) belong to the new
epoch; wiping them without an epoch bump loses a message or its acknowledgement with nobody left
to re-transmit (the liveness theorem `C23Live.signaling_progress` is about the LTS whose `sEnd`
has this property; the engines replay every `end` event of the real relay against it). -/
namespace Bifrost.Props.C23
open Bifrost Bifrost.Sig

/-- The exit of a handler that is not the current attachment of its side (superseded, or already
detached) is the identity on all sessions (epoch, attachments, every message slot), on the peer
trackers, on both maps, on the fresh-identity counter and on the ghost log of accepted
submissions: only the handler's own call record changes. -/
theorem superseded_exit_changes_only_its_call (s : Sig.State) (call : Nat) (c : SCall) (t : Sess)
    (hc : getSCall s call = some c) (ht : getSess s c.sess = some t)
    (hsup : ∀ o, (t.sides c.isA).1 = some o → o.call ≠ call) :
    (sEnd s call).sesss = s.sesss ∧ (sEnd s call).sessMap = s.sessMap ∧
    (sEnd s call).tkrs = s.tkrs ∧ (sEnd s call).peerMap = s.peerMap ∧
    (sEnd s call).lcalls = s.lcalls ∧ (sEnd s call).next = s.next ∧
    (sEnd s call).accepted = s.accepted ∧
    (sEnd s call).scalls = (setSCall s { c with ended := true, failing := true, outbox := [] }).scalls := by
  have hg : getSess (setSCall s { c with ended := true, failing := true, outbox := [] }) c.sess = some t := by
    simpa [getSess, setSCall] using ht
  unfold sEnd
  simp only [hc, hg]
  cases ho : (t.sides c.isA).1 with
  | none => simp [setSCall]
  | some o => simp [hsup o ho, setSCall]

/-- In particular every session tracker reads the same before and after. -/
theorem superseded_exit_keeps_session (s : Sig.State) (call : Nat) (c : SCall) (t : Sess)
    (hc : getSCall s call = some c) (ht : getSess s c.sess = some t)
    (hsup : ∀ o, (t.sides c.isA).1 = some o → o.call ≠ call) (sid : Nat) :
    getSess (sEnd s call) sid = getSess s sid := by
  simp [getSess, (superseded_exit_changes_only_its_call s call c t hc ht hsup).1]

/-- Non-vacuity (the seeded history): peer 2 attaches (call 1), peer 1 attaches (call 2), peer 2
re-attaches on a new stream (call 3, epoch 3) while call 1 is stuck; peer 2's successor sends
message 7 to peer 1, peer 1's handler forwards it (`recvSent = 7`); now the superseded call 1
ends: the session still holds `recvSent = 7` for peer 1's attachment and epoch 3, so peer 1's
acknowledgement is accepted afterwards. -/
example :
    let s0 := sInit (sInit (sInit {} 1 2 1) 2 1 2) 3 2 1
    let s1 := sLoop (sSend s0 3 3 { seqno := 7, mid := 7 } true 2) 2
    (getSess s1 2).map (fun t => (t.seqno, t.attA.map (·.recvSent), t.attB.map (·.call))) = some (3, some (some 7), some 3) ∧
    getSess (sEnd s1 1) 2 = getSess s1 2 ∧
    ((getSess (sAck (sEnd s1 1) 2 3 7) 2).bind (·.attB)).map (·.outAcked) = some (some 7) := by
  decide

end Bifrost.Props.C23
