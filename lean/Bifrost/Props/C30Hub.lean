import Bifrost.Model.SolicitHub
import Bifrost.Lemmas.SolicitHub
import Bifrost.Lemmas.SolicitPar
import Bifrost.Gen.Limits
import Bifrost.Props.C30Sys
/-!
C30 on a node with SEVERAL links — `Bifrost.SolicitHub`: one solicitation controller whose
directive set `c.solicitations` is shared by all its links, each link an instance of the
two-sided exchange `Bifrost.SolicitSys` with its own remote peer, transport and session id
(`link/solicit/controller/controller.go`: `getSolicitEntries(ls.ml)` is evaluated per link, under
the lock, from the shared set).

Every theorem quantifies over ALL hub histories (`run H cfgs ops`): any number of links, any
directive changes on the hub and on the spokes, any interleaving of the links' actions.
-/
namespace Bifrost.Props.C30Hub
open Bifrost Bifrost.Solicit Bifrost.SolicitSys Bifrost.SolicitHub

/-! ### Every link of a multi-link node is an instance of the two-sided exchange -/

/-- Link `i`'s state after a hub history is the state of the two-sided exchange (configuration
`cfgs[i]`) after the history's projection onto link `i`: the hub's directive changes and link
`i`'s own actions. Nothing that happened on another link is in it. -/
theorem hub_link_is_exchange (H : Bytes → Bytes) (cfgs : List Cfg) (ops : List SolicitHub.Op)
    (i : Nat) (c : Cfg) (hc : cfgs[i]? = some c) :
    (SolicitHub.run H cfgs ops)[i]? = some (SolicitSys.run H c (projOps i ops)) :=
  (isProduct_run H cfgs ops).2 i c hc

/-- Hence every theorem proved of all runs of the two-sided exchange holds of every link of a
multi-link node. -/
theorem per_link_theorems_hold (H : Bytes → Bytes) (cfgs : List Cfg) (ops : List SolicitHub.Op)
    (P : Cfg → SolicitSys.State → Prop) (hP : ∀ c l, P c (SolicitSys.run H c l))
    (i : Nat) (c : Cfg) (s : SolicitSys.State) (hc : cfgs[i]? = some c)
    (hs : (SolicitHub.run H cfgs ops)[i]? = some s) : P c s := by
  rw [hub_link_is_exchange H cfgs ops i c hc] at hs
  cases hs
  exact hP c _

/-- `C30Sys.matched_sound` on every link: two deliveries of one stream of link `i`, one on the hub
and one on spoke `i`, went to directives with the same protocol ID and context whose constraints
admit link `i` — the hub directive's constraints admit link `i`'s remote peer and transport. -/
theorem hub_matched_sound (H : Bytes → Bytes) (cfgs : List Cfg) (ops : List SolicitHub.Op)
    (i : Nat) (c : Cfg) (s : SolicitSys.State) (hc : cfgs[i]? = some c)
    (hs : (SolicitHub.run H cfgs ops)[i]? = some s) (rA rB : Delivery)
    (hA : rA ∈ s.a.recv) (hB : rB ∈ s.b.recv) (hst : rA.stream = rB.stream)
    (hpA : rA.d.pid.length < 2 ^ 64) (hpB : rB.d.pid.length < 2 ^ 64)
    (hcr : H (protocolPreimage (c.sid H .A) rA.d.pid rA.d.ctx) = H (protocolPreimage (c.sid H .A) rB.d.pid rB.d.ctx) →
      protocolPreimage (c.sid H .A) rA.d.pid rA.d.ctx = protocolPreimage (c.sid H .A) rB.d.pid rB.d.ctx) :
    rA.d.pid = rB.d.pid ∧ rA.d.ctx = rB.d.ctx ∧
      admits rA.d (c.view .A) = true ∧ admits rB.d (c.view .B) = true := by
  rw [hub_link_is_exchange H cfgs ops i c hc] at hs
  cases hs
  exact C30Sys.matched_sound H c _ rA rB hA hB hst hpA hpB hcr

/-- `C30Sys.one_stream_per_hash` and `opened_by_lower` on every link. -/
theorem hub_one_stream_per_hash (H : Bytes → Bytes) (cfgs : List Cfg) (ops : List SolicitHub.Op)
    (i : Nat) (c : Cfg) (s : SolicitSys.State) (hc : cfgs[i]? = some c)
    (hs : (SolicitHub.run H cfgs ops)[i]? = some s) :
    (s.streams.map (·.hash)).Nodup ∧ ∀ sr ∈ s.streams, c.isLower sr.opener = true :=
  per_link_theorems_hold H cfgs ops
    (fun c s => (s.streams.map (·.hash)).Nodup ∧ ∀ sr ∈ s.streams, c.isLower sr.opener = true)
    (fun c l => ⟨C30Sys.one_stream_per_hash H c l, C30Sys.opened_by_lower H c l⟩) i c s hc hs

/-! ### The directive set is shared; what a link offers depends on that set and on the link only -/

/-- On all links the hub's side holds the same directive instances — the set determined by the
hub's own `add` / `remove` history (`sharedDirs`), in which no link occurs. -/
theorem hub_dirs_shared (H : Bytes → Bytes) (cfgs : List Cfg) (ops : List SolicitHub.Op)
    (i : Nat) (c : Cfg) (s : SolicitSys.State) (hc : cfgs[i]? = some c)
    (hs : (SolicitHub.run H cfgs ops)[i]? = some s) :
    hubDirs s = (sharedDirs ops).1 :=
  hubDirs_of_link H cfgs ops i c s hc hs

/-- The list the hub offers on link `i` (`getSolicitEntries` + `computeHashes`) is a function of
the shared directive set and of link `i`'s own session id, remote peer, transport and limit —
whatever was computed, sent or matched on any other link (even one over the same transport). -/
theorem hub_offer_depends_only_on_link_and_dirs (H : Bytes → Bytes) (cfgs : List Cfg)
    (ops : List SolicitHub.Op) (i : Nat) (c : Cfg) (s : SolicitSys.State) (hc : cfgs[i]? = some c)
    (hs : (SolicitHub.run H cfgs ops)[i]? = some s) :
    hashList H c .A s.a =
      (sortHashes (offered H (c.sid H .A) ((sharedDirs ops).1.map (·.2)) (c.view .A))).take c.maxA := by
  have h := hub_dirs_shared H cfgs ops i c s hc hs
  have hd : s.a.dirs.map (·.d) = (sharedDirs ops).1.map (·.2) := by
    rw [← h]; simp [hubDirs, List.map_map, Function.comp_def]
  unfold hashList
  rw [hd]; rfl

/-- Every hash the hub offers on link `i` is the hash — under link `i`'s session — of a shared
directive whose peer and transport constraints ADMIT link `i`. -/
theorem hub_offered_admits (H : Bytes → Bytes) (cfgs : List Cfg) (ops : List SolicitHub.Op)
    (i : Nat) (c : Cfg) (s : SolicitSys.State) (hc : cfgs[i]? = some c)
    (hs : (SolicitHub.run H cfgs ops)[i]? = some s) (h : Bytes) (hh : h ∈ hashList H c .A s.a) :
    ∃ p ∈ (sharedDirs ops).1, admits p.2 (c.view .A) = true ∧ dirHash H c .A p.2 = h := by
  have hm := mem_hashList H c .A s.a h hh
  rw [C30.offered_iff] at hm
  obtain ⟨d, hd, ha, he⟩ := hm
  obtain ⟨x, hx, rfl⟩ := List.mem_map.mp hd
  refine ⟨(x.id, x.d), ?_, ha, he⟩
  rw [← hub_dirs_shared H cfgs ops i c s hc hs]
  exact List.mem_map.mpr ⟨x, hx, rfl⟩

/-- A hash that only directives NOT admitting link `i` have is not offered on link `i`. -/
theorem hub_nonadmitted_not_offered (H : Bytes → Bytes) (cfgs : List Cfg) (ops : List SolicitHub.Op)
    (i : Nat) (c : Cfg) (s : SolicitSys.State) (hc : cfgs[i]? = some c)
    (hs : (SolicitHub.run H cfgs ops)[i]? = some s) (h : Bytes)
    (hno : ∀ p ∈ (sharedDirs ops).1, dirHash H c .A p.2 = h → admits p.2 (c.view .A) = false) :
    h ∉ hashList H c .A s.a := by
  intro hh
  obtain ⟨p, hp, ha, he⟩ := hub_offered_admits H cfgs ops i c s hc hs h hh
  rw [hno p hp he] at ha
  cases ha

/-- Without truncation, a shared directive that admits link `i` IS offered on link `i`. -/
theorem hub_admitted_offered (H : Bytes → Bytes) (cfgs : List Cfg) (ops : List SolicitHub.Op)
    (i : Nat) (c : Cfg) (s : SolicitSys.State) (hc : cfgs[i]? = some c)
    (hs : (SolicitHub.run H cfgs ops)[i]? = some s)
    (hle : (offered H (c.sid H .A) (s.a.dirs.map (·.d)) (c.view .A)).length ≤ c.max .A)
    (p : Nat × Dir) (hp : p ∈ (sharedDirs ops).1) (ha : admits p.2 (c.view .A) = true) :
    dirHash H c .A p.2 ∈ hashList H c .A s.a := by
  rw [mem_hashList_of_le H c .A s.a hle, C30.offered_iff]
  rw [← hub_dirs_shared H cfgs ops i c s hc hs] at hp
  obtain ⟨x, hx, rfl⟩ := List.mem_map.mp hp
  exact ⟨x.d, List.mem_map.mpr ⟨x, hx, rfl⟩, ha, rfl⟩

/-- Over the whole history: every hash the hub EVER put on link `i`'s wire is the hash — under
link `i`'s session — of a directive that was added on the hub and whose constraints admit link
`i`. A directive constrained to another peer or transport never has its hash on this link. -/
theorem hub_wire_only_admitted (H : Bytes → Bytes) (cfgs : List Cfg) (ops : List SolicitHub.Op)
    (i : Nat) (c : Cfg) (s : SolicitSys.State) (hc : cfgs[i]? = some c)
    (hs : (SolicitHub.run H cfgs ops)[i]? = some s) (h : Bytes) (hh : h ∈ s.a.everSent) :
    ∃ d, SolicitHub.Op.add d ∈ ops ∧ admits d (c.view .A) = true ∧ dirHash H c .A d = h := by
  rw [hub_link_is_exchange H cfgs ops i c hc] at hs
  cases hs
  obtain ⟨d, hd, ha, he⟩ := (wire_run H c (projOps i ops)).everAdmitted .A h hh
  exact ⟨d, add_of_mem_projOps i ops d hd, ha, he⟩

/-- A hub directive that received a stream of link `i` admits link `i`: a directive whose peer or
transport constraint does not admit link `i`'s remote never receives a stream on link `i`. -/
theorem hub_recv_admits (H : Bytes → Bytes) (cfgs : List Cfg) (ops : List SolicitHub.Op)
    (i : Nat) (c : Cfg) (s : SolicitSys.State) (hc : cfgs[i]? = some c)
    (hs : (SolicitHub.run H cfgs ops)[i]? = some s) (r : Delivery) (hr : r ∈ s.a.recv) :
    admits r.d (c.view .A) = true := by
  rw [hub_link_is_exchange H cfgs ops i c hc] at hs
  cases hs
  obtain ⟨_, _, ha, _⟩ := (inv_run H c (projOps i ops)).c'.recvSound .A r hr
  exact ha

/-! ### Every offered list fits one exchange message

`max_hashes` is configuration; the size of an exchange message is not (`maxMessageSize`, which the
READER of the remote peer enforces: a longer message ends the control stream). `NewController`
clamps the limit to what one message carries — 34 bytes per hash on the wire (field tag, length
byte, 32 bytes) — so whatever the configuration and however many solicitations are admitted, the
list a controller offers is one the peer's reader accepts. (Found false of the code before the
clamp: max_hashes = 600 and 503 admitted solicitations ended the exchange on the link for good.) -/

/-- `NewController`: configured `max_hashes` (0 = default 256), clamped to `maxWireHashes` -/
def effMax (conf : Nat) : Nat :=
  min (if conf = 0 then 256 else conf) (Gen.Limits.solicitMaxMessageSize / 34)

theorem offered_list_fits_message (H : Bytes → Bytes) (c : Cfg) (x : Side) (n : Node) (conf : Nat)
    (hm : c.max x = effMax conf) :
    34 * (hashList H c x n).length ≤ Gen.Limits.solicitMaxMessageSize := by
  have hl : (hashList H c x n).length ≤ c.max x := by
    unfold hashList
    rw [List.length_take]
    exact Nat.min_le_left _ _
  have hc : c.max x ≤ Gen.Limits.solicitMaxMessageSize / 34 := by
    rw [hm]; exact Nat.min_le_right _ _
  calc 34 * (hashList H c x n).length ≤ 34 * (Gen.Limits.solicitMaxMessageSize / 34) :=
        Nat.mul_le_mul_left _ (hl.trans hc)
    _ ≤ Gen.Limits.solicitMaxMessageSize := Nat.mul_div_le _ _

/-- the default limit, and any configured limit, is a positive one: the clamp never disables the exchange -/
example : effMax 0 = 256 ∧ effMax 600 = 481 ∧ effMax 3 = 3 := by decide

/-! ### Parallel links, and links that are removed and re-established

Two links between the SAME two nodes are two links of the hub whose spoke side carries the same
directive changes (one `handleSolicitProtocol` resolver inserts into the one `c.solicitations` of
the spoke's controller, which all its links filter). A link that is removed and re-established is,
for both controllers, a NEW link (`removeLink` drops the `linkState`, `addLink` allocates another
one — session id and `localIsLower` recomputed, `matched` empty): a further link index whose own
actions start when it comes up, while the removed one takes no further step. -/

/-- the spoke directive changes link `i` sees in a hub history -/
def spokeChanges (i : Nat) (ops : List SolicitHub.Op) : List SolicitSys.Op :=
  (projOps i ops).filter spokeDir

/-- What the spoke side of link `i` holds (instance ids, parameters, next id) is determined by the
spoke directive changes of link `i` alone. -/
theorem spoke_dirs_of_link (H : Bytes → Bytes) (cfgs : List Cfg) (ops : List SolicitHub.Op)
    (i : Nat) (c : Cfg) (s : SolicitSys.State) (hc : cfgs[i]? = some c)
    (hs : (SolicitHub.run H cfgs ops)[i]? = some s) :
    (spokeDirs s, s.b.nextDir) = (spokeChanges i ops).foldl dirStepB ([], 0) := by
  rw [hub_link_is_exchange H cfgs ops i c hc] at hs
  cases hs
  exact bDirs_run H c (projOps i ops)

/-- PARALLEL links: two links of a node that carry the same spoke directive changes (they end at
the same remote node) hold the same directive instances on BOTH sides — whatever their
configurations (transports, limits) and whatever else happened on either of them. Each of them is
an instance of the two-sided exchange (`hub_link_is_exchange`), so a pair of solicitations is
matched on each link on its own, by that link's constraints. -/
theorem parallel_links_share_dirs (H : Bytes → Bytes) (cfgs : List Cfg) (ops : List SolicitHub.Op)
    (i j : Nat) (ci cj : Cfg) (si sj : SolicitSys.State)
    (hci : cfgs[i]? = some ci) (hcj : cfgs[j]? = some cj)
    (hsi : (SolicitHub.run H cfgs ops)[i]? = some si) (hsj : (SolicitHub.run H cfgs ops)[j]? = some sj)
    (hm : spokeChanges i ops = spokeChanges j ops) :
    hubDirs si = hubDirs sj ∧ spokeDirs si = spokeDirs sj ∧ si.b.nextDir = sj.b.nextDir := by
  have hi := spoke_dirs_of_link H cfgs ops i ci si hci hsi
  have hj := spoke_dirs_of_link H cfgs ops j cj sj hcj hsj
  rw [hm] at hi
  have h := hi.trans hj.symm
  exact ⟨(hub_dirs_shared H cfgs ops i ci si hci hsi).trans (hub_dirs_shared H cfgs ops j cj sj hcj hsj).symm,
    congrArg Prod.fst h, congrArg Prod.snd h⟩

/-- A RE-ESTABLISHED link: as long as link `j` has taken no step of its own besides the directive
changes of its two nodes (it has not come up yet), it is a fresh link — nothing was ever offered,
received, matched, opened or delivered on it, whatever happened on the link it replaces (any other
index, same configuration or not) — and every directive instance its two nodes hold is `early` on
it: the completeness theorem `C30Sys.matched_iff_quiescent_partial` (through
`per_link_theorems_hold`) applies to all of them once it is up, i.e. the solicitations both nodes
still hold are matched AGAIN on the re-established link. -/
theorem relinked_is_fresh (H : Bytes → Bytes) (cfgs : List Cfg) (ops : List SolicitHub.Op)
    (j : Nat) (c : Cfg) (s : SolicitSys.State) (hc : cfgs[j]? = some c)
    (hs : (SolicitHub.run H cfgs ops)[j]? = some s)
    (hq : ∀ o, SolicitHub.Op.link j o ∈ ops → dirChange o = true) : Fresh s := by
  rw [hub_link_is_exchange H cfgs ops j c hc] at hs
  cases hs
  refine fresh_run H c _ fun o ho => ?_
  rcases mem_projOps j ops o ho with ⟨d, rfl⟩ | ⟨id, rfl⟩ | h
  · rfl
  · rfl
  · exact hq o h

/-! Non-vacuity: two parallel links (one peer pair, transports 7/8 and 9/10) and a third index
that re-establishes the first one. A pair of solicitations is connected on link 0 and on link 1
(once per link); link 0 then stays as it is, and the same two solicitations are connected AGAIN on
its new incarnation (index 2) — on which, before it came up, nothing had happened. -/
section parallel
def HidP : Bytes → Bytes := fun x => x
def cfgsP : List Cfg := [⟨[1], [2], 7, 8, 4, 4⟩, ⟨[1], [2], 9, 10, 4, 4⟩, ⟨[1], [2], 7, 8, 4, 4⟩]
def dP : Dir := ⟨[5], [6], [], 0⟩
def hP : Bytes := HidP (protocolPreimage (HidP (sessionPreimage [1] [2])) [5] [6])
def dirsP : List SolicitHub.Op := [.add dP, .link 0 (.add .B dP), .link 1 (.add .B dP), .link 2 (.add .B dP)]
def matchOn (i : Nat) : List SolicitHub.Op :=
  [.link i (.sync .A), .link i (.sync .B), .link i (.deliver .A), .link i (.deliver .B),
   .link i (.open .A hP), .link i (.arrive .B 0)]

example : ((SolicitHub.run HidP cfgsP (dirsP ++ matchOn 0 ++ matchOn 1)).map fun s =>
    (s.a.recv.length, s.b.recv.length, s.a.matched.length)) = [(1, 1, 1), (1, 1, 1), (0, 0, 0)] := by decide +kernel

example : ((SolicitHub.run HidP cfgsP (dirsP ++ matchOn 0 ++ matchOn 1 ++ matchOn 2)).map fun s =>
    (s.a.recv.length, s.b.recv.length)) = [(1, 1), (1, 1), (1, 1)] := by decide +kernel

example : spokeChanges 0 (dirsP ++ matchOn 0 ++ matchOn 1) = spokeChanges 2 (dirsP ++ matchOn 0 ++ matchOn 1) := by decide +kernel
end parallel

/-! ### Non-vacuity: a hub with two links over ONE transport to different peers -/
section witness
def cfgs2 : List Cfg := [⟨[1], [2], 7, 8, 4, 4⟩, ⟨[1], [3], 7, 9, 4, 4⟩]
def Hid : Bytes → Bytes := fun x => x
/-- solicitation constrained to peer `[2]` (the remote of link 0) -/
def dX : Dir := ⟨[5], [6], [2], 0⟩
def hist : List SolicitHub.Op := [.add dX, .link 0 (.sync .A), .link 1 (.sync .A)]

/-- The constrained solicitation is offered on link 0 (one list in flight towards spoke 0) and
nothing is put on link 1's wire, although both links share the transport. -/
example : ((SolicitHub.run Hid cfgs2 hist).map fun s => (s.a.everSent.length, s.b.inbox.length)) =
    [(1, 1), (0, 0)] := by decide
end witness

end Bifrost.Props.C30Hub
