import Bifrost.Model.SolicitHub
import Bifrost.Lemmas.SolicitHub
import Bifrost.Props.C30Sys
/-!
C30 on a node with SEVERAL links — `Bifrost.SolicitHub`: one solicitation controller whose
directive set `c.solicitations` is shared by all its links, each link an instance of the
two-sided exchange `Bifrost.SolicitSys` with its own remote peer, transport and session id
(`link/solicit/controller/controller.go`: `getSolicitEntries(ls.ml)` is evaluated per link, under
the lock, from the shared set).

Every theorem quantifies over ALL hub histories (`run H cfgs ops`): any number of links, any
directive changes on the hub and on the spokes, any interleaving of the links' actions.
-/
namespace Bifrost.Props.C30Hub
open Bifrost Bifrost.Solicit Bifrost.SolicitSys Bifrost.SolicitHub

/-! ### Every link of a multi-link node is an instance of the two-sided exchange -/

/-- Link `i`'s state after a hub history is the state of the two-sided exchange (configuration
`cfgs[i]`) after the history's projection onto link `i`: the hub's directive changes and link
`i`'s own actions. Nothing that happened on another link is in it. -/
theorem hub_link_is_exchange (H : Bytes → Bytes) (cfgs : List Cfg) (ops : List SolicitHub.Op)
    (i : Nat) (c : Cfg) (hc : cfgs[i]? = some c) :
    (SolicitHub.run H cfgs ops)[i]? = some (SolicitSys.run H c (projOps i ops)) :=
  (isProduct_run H cfgs ops).2 i c hc

/-- Hence every theorem proved of all runs of the two-sided exchange holds of every link of a
multi-link node. -/
theorem per_link_theorems_hold (H : Bytes → Bytes) (cfgs : List Cfg) (ops : List SolicitHub.Op)
    (P : Cfg → SolicitSys.State → Prop) (hP : ∀ c l, P c (SolicitSys.run H c l))
    (i : Nat) (c : Cfg) (s : SolicitSys.State) (hc : cfgs[i]? = some c)
    (hs : (SolicitHub.run H cfgs ops)[i]? = some s) : P c s := by
  rw [hub_link_is_exchange H cfgs ops i c hc] at hs
  cases hs
  exact hP c _

/-- `C30Sys.matched_sound` on every link: two deliveries of one stream of link `i`, one on the hub
and one on spoke `i`, went to directives with the same protocol ID and context whose constraints
admit link `i` — the hub directive's constraints admit link `i`'s remote peer and transport. -/
theorem hub_matched_sound (H : Bytes → Bytes) (cfgs : List Cfg) (ops : List SolicitHub.Op)
    (i : Nat) (c : Cfg) (s : SolicitSys.State) (hc : cfgs[i]? = some c)
    (hs : (SolicitHub.run H cfgs ops)[i]? = some s) (rA rB : Delivery)
    (hA : rA ∈ s.a.recv) (hB : rB ∈ s.b.recv) (hst : rA.stream = rB.stream)
    (hpA : rA.d.pid.length < 2 ^ 64) (hpB : rB.d.pid.length < 2 ^ 64)
    (hcr : H (protocolPreimage (c.sid H .A) rA.d.pid rA.d.ctx) = H (protocolPreimage (c.sid H .A) rB.d.pid rB.d.ctx) →
      protocolPreimage (c.sid H .A) rA.d.pid rA.d.ctx = protocolPreimage (c.sid H .A) rB.d.pid rB.d.ctx) :
    rA.d.pid = rB.d.pid ∧ rA.d.ctx = rB.d.ctx ∧
      admits rA.d (c.view .A) = true ∧ admits rB.d (c.view .B) = true := by
  rw [hub_link_is_exchange H cfgs ops i c hc] at hs
  cases hs
  exact C30Sys.matched_sound H c _ rA rB hA hB hst hpA hpB hcr

/-- `C30Sys.one_stream_per_hash` and `opened_by_lower` on every link. -/
theorem hub_one_stream_per_hash (H : Bytes → Bytes) (cfgs : List Cfg) (ops : List SolicitHub.Op)
    (i : Nat) (c : Cfg) (s : SolicitSys.State) (hc : cfgs[i]? = some c)
    (hs : (SolicitHub.run H cfgs ops)[i]? = some s) :
    (s.streams.map (·.hash)).Nodup ∧ ∀ sr ∈ s.streams, c.isLower sr.opener = true :=
  per_link_theorems_hold H cfgs ops
    (fun c s => (s.streams.map (·.hash)).Nodup ∧ ∀ sr ∈ s.streams, c.isLower sr.opener = true)
    (fun c l => ⟨C30Sys.one_stream_per_hash H c l, C30Sys.opened_by_lower H c l⟩) i c s hc hs

/-! ### The directive set is shared; what a link offers depends on that set and on the link only -/

/-- On all links the hub's side holds the same directive instances — the set determined by the
hub's own `add` / `remove` history (`sharedDirs`), in which no link occurs. -/
theorem hub_dirs_shared (H : Bytes → Bytes) (cfgs : List Cfg) (ops : List SolicitHub.Op)
    (i : Nat) (c : Cfg) (s : SolicitSys.State) (hc : cfgs[i]? = some c)
    (hs : (SolicitHub.run H cfgs ops)[i]? = some s) :
    hubDirs s = (sharedDirs ops).1 :=
  hubDirs_of_link H cfgs ops i c s hc hs

/-- The list the hub offers on link `i` (`getSolicitEntries` + `computeHashes`) is a function of
the shared directive set and of link `i`'s own session id, remote peer, transport and limit —
whatever was computed, sent or matched on any other link (even one over the same transport). -/
theorem hub_offer_depends_only_on_link_and_dirs (H : Bytes → Bytes) (cfgs : List Cfg)
    (ops : List SolicitHub.Op) (i : Nat) (c : Cfg) (s : SolicitSys.State) (hc : cfgs[i]? = some c)
    (hs : (SolicitHub.run H cfgs ops)[i]? = some s) :
    hashList H c .A s.a =
      (sortHashes (offered H (c.sid H .A) ((sharedDirs ops).1.map (·.2)) (c.view .A))).take c.maxA := by
  have h := hub_dirs_shared H cfgs ops i c s hc hs
  have hd : s.a.dirs.map (·.d) = (sharedDirs ops).1.map (·.2) := by
    rw [← h]; simp [hubDirs, List.map_map, Function.comp_def]
  unfold hashList
  rw [hd]; rfl

/-- Every hash the hub offers on link `i` is the hash — under link `i`'s session — of a shared
directive whose peer and transport constraints ADMIT link `i`. -/
theorem hub_offered_admits (H : Bytes → Bytes) (cfgs : List Cfg) (ops : List SolicitHub.Op)
    (i : Nat) (c : Cfg) (s : SolicitSys.State) (hc : cfgs[i]? = some c)
    (hs : (SolicitHub.run H cfgs ops)[i]? = some s) (h : Bytes) (hh : h ∈ hashList H c .A s.a) :
    ∃ p ∈ (sharedDirs ops).1, admits p.2 (c.view .A) = true ∧ dirHash H c .A p.2 = h := by
  have hm := mem_hashList H c .A s.a h hh
  rw [C30.offered_iff] at hm
  obtain ⟨d, hd, ha, he⟩ := hm
  obtain ⟨x, hx, rfl⟩ := List.mem_map.mp hd
  refine ⟨(x.id, x.d), ?_, ha, he⟩
  rw [← hub_dirs_shared H cfgs ops i c s hc hs]
  exact List.mem_map.mpr ⟨x, hx, rfl⟩

/-- A hash that only directives NOT admitting link `i` have is not offered on link `i`. -/
theorem hub_nonadmitted_not_offered (H : Bytes → Bytes) (cfgs : List Cfg) (ops : List SolicitHub.Op)
    (i : Nat) (c : Cfg) (s : SolicitSys.State) (hc : cfgs[i]? = some c)
    (hs : (SolicitHub.run H cfgs ops)[i]? = some s) (h : Bytes)
    (hno : ∀ p ∈ (sharedDirs ops).1, dirHash H c .A p.2 = h → admits p.2 (c.view .A) = false) :
    h ∉ hashList H c .A s.a := by
  intro hh
  obtain ⟨p, hp, ha, he⟩ := hub_offered_admits H cfgs ops i c s hc hs h hh
  rw [hno p hp he] at ha
  cases ha

/-- Without truncation, a shared directive that admits link `i` IS offered on link `i`. -/
theorem hub_admitted_offered (H : Bytes → Bytes) (cfgs : List Cfg) (ops : List SolicitHub.Op)
    (i : Nat) (c : Cfg) (s : SolicitSys.State) (hc : cfgs[i]? = some c)
    (hs : (SolicitHub.run H cfgs ops)[i]? = some s)
    (hle : (offered H (c.sid H .A) (s.a.dirs.map (·.d)) (c.view .A)).length ≤ c.max .A)
    (p : Nat × Dir) (hp : p ∈ (sharedDirs ops).1) (ha : admits p.2 (c.view .A) = true) :
    dirHash H c .A p.2 ∈ hashList H c .A s.a := by
  rw [mem_hashList_of_le H c .A s.a hle, C30.offered_iff]
  rw [← hub_dirs_shared H cfgs ops i c s hc hs] at hp
  obtain ⟨x, hx, rfl⟩ := List.mem_map.mp hp
  exact ⟨x.d, List.mem_map.mpr ⟨x, hx, rfl⟩, ha, rfl⟩

/-- Over the whole history: every hash the hub EVER put on link `i`'s wire is the hash — under
link `i`'s session — of a directive that was added on the hub and whose constraints admit link
`i`. A directive constrained to another peer or transport never has its hash on this link. -/
theorem hub_wire_only_admitted (H : Bytes → Bytes) (cfgs : List Cfg) (ops : List SolicitHub.Op)
    (i : Nat) (c : Cfg) (s : SolicitSys.State) (hc : cfgs[i]? = some c)
    (hs : (SolicitHub.run H cfgs ops)[i]? = some s) (h : Bytes) (hh : h ∈ s.a.everSent) :
    ∃ d, SolicitHub.Op.add d ∈ ops ∧ admits d (c.view .A) = true ∧ dirHash H c .A d = h := by
  rw [hub_link_is_exchange H cfgs ops i c hc] at hs
  cases hs
  obtain ⟨d, hd, ha, he⟩ := (wire_run H c (projOps i ops)).everAdmitted .A h hh
  exact ⟨d, add_of_mem_projOps i ops d hd, ha, he⟩

/-- A hub directive that received a stream of link `i` admits link `i`: a directive whose peer or
transport constraint does not admit link `i`'s remote never receives a stream on link `i`. -/
theorem hub_recv_admits (H : Bytes → Bytes) (cfgs : List Cfg) (ops : List SolicitHub.Op)
    (i : Nat) (c : Cfg) (s : SolicitSys.State) (hc : cfgs[i]? = some c)
    (hs : (SolicitHub.run H cfgs ops)[i]? = some s) (r : Delivery) (hr : r ∈ s.a.recv) :
    admits r.d (c.view .A) = true := by
  rw [hub_link_is_exchange H cfgs ops i c hc] at hs
  cases hs
  obtain ⟨_, _, ha, _⟩ := (inv_run H c (projOps i ops)).c'.recvSound .A r hr
  exact ha

/-! ### Non-vacuity: a hub with two links over ONE transport to different peers -/
section witness
def cfgs2 : List Cfg := [⟨[1], [2], 7, 8, 4, 4⟩, ⟨[1], [3], 7, 9, 4, 4⟩]
def Hid : Bytes → Bytes := fun x => x
/-- solicitation constrained to peer `[2]` (the remote of link 0) -/
def dX : Dir := ⟨[5], [6], [2], 0⟩
def hist : List SolicitHub.Op := [.add dX, .link 0 (.sync .A), .link 1 (.sync .A)]

/-- The constrained solicitation is offered on link 0 (one list in flight towards spoke 0) and
nothing is put on link 1's wire, although both links share the transport. -/
example : ((SolicitHub.run Hid cfgs2 hist).map fun s => (s.a.everSent.length, s.b.inbox.length)) =
    [(1, 1), (0, 0)] := by decide
end witness

end Bifrost.Props.C30Hub
