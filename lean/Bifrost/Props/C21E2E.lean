import Bifrost.Model.SigSys
import Bifrost.Lemmas.SigSys
/-!
C21 end to end — in the composition of any number of client trackers, the relay server and one
FIFO channel pair per Session RPC (`Bifrost.SigSys`), for EVERY interleaving of client steps,
relay critical sections, message deliveries, connects, disconnects and relay-side stream
teardown: when a client's `Send` of message `m` to peer B has reported success, B's client has
handed `m` to its application.
-/
namespace Bifrost.Props.C21E2E
open Bifrost Bifrost.SigSys

theorem send_success_delivered (s : State) (h : Reachable s) : sendSuccessDelivered s = true := by
  sorry

/-- Non-vacuity: a complete exchange in which the `Send` does report success. -/
example : ∃ s, Reachable s ∧ sendSuccessDelivered s = true ∧
    ∃ a ∈ s.clients, ∃ c ∈ a.st.sends, c.result = some true := by
  sorry

end Bifrost.Props.C21E2E
