import Bifrost.Model.SigSys
import Bifrost.Lemmas.SigSys
/-!
C21 end to end — in the composition of any number of client trackers, the relay server and one
FIFO channel pair per Session RPC (`Bifrost.SigSys`), for EVERY interleaving of client steps,
relay critical sections, message deliveries, connects, disconnects and relay-side stream
teardown: when a client's `Send` of message `m` to peer B has reported success, B's client has
handed `m` to its application.
-/
namespace Bifrost.Props.C21E2E
open Bifrost Bifrost.SigSys

theorem send_success_delivered (s : State) (h : Reachable s) : sendSuccessDelivered s = true := by
  exact sendSuccessDelivered_of_inv (inv_of_reachable h)

/-- Non-vacuity: a complete exchange in which the `Send` does report success. -/
example : ∃ s, Reachable s ∧ sendSuccessDelivered s = true ∧
    ∃ a ∈ s.clients, ∃ c ∈ a.st.sends, c.result = some true := by
  refine ⟨run [.newClient 1 2, .newClient 2 1, .connect 1 2, .connect 2 1,
      .srvLoop 1, .srvTx 1, .clientRx 1 2, .srvLoop 2, .srvTx 2, .clientRx 2 1,
      .sendStart 1 2 ⟨1, 1⟩, .sendStep 1 2 1, .clientTx 1 2, .srvRx 1, .srvLoop 2, .srvTx 2, .clientRx 2 1,
      .recvStep 2 1, .clientTx 2 1, .srvRx 2, .srvLoop 1, .srvTx 1, .clientRx 1 2, .sendStep 1 2 1],
    reachable_run _, send_success_delivered _ (reachable_run _), ?_⟩
  decide

end Bifrost.Props.C21E2E
