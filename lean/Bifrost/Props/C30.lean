import Bifrost.Model.Solicit
import Bifrost.Lemmas.Solicit
/-!
C30 — Solicitations match only on identical protocol and context.
Model of the code as fixed by "fix: length-prefix the protocol ID in the solicitation protocol hash".
-/
namespace Bifrost.Props.C30
open Bifrost Bifrost.Solicit

/-- The hashed preimage determines session, protocol ID and context — however the bytes are
split between the two fields. -/
theorem protocolPreimage_injective (sid sid' pid pid' ctx ctx' : Bytes)
    (hs : sid.length = sid'.length) (hp : pid.length < 2 ^ 64) (hp' : pid'.length < 2 ^ 64)
    (h : protocolPreimage sid pid ctx = protocolPreimage sid' pid' ctx') :
    sid = sid' ∧ pid = pid' ∧ ctx = ctx' := by
  exact protocolPreimage_inj sid sid' pid pid' ctx ctx' hs hp hp' h

/-- `resolveMatch` hands a stream for `hash` to exactly the local directives whose constraints
admitOk the link and whose (protocol, context) hash is `hash`. -/
theorem resolve_iff (H : Bytes → Bytes) (sid : Bytes) (ds : List Dir) (l : LinkView) (hash : Bytes) (d : Dir) :
    d ∈ resolve H sid ds l hash ↔ d ∈ ds ∧ admits d l = true ∧ protocolHash H sid d.pid d.ctx = hash := by
  simp only [resolve, List.mem_filter, Bool.and_eq_true, decide_eq_true_eq]

theorem offered_iff (H : Bytes → Bytes) (sid : Bytes) (ds : List Dir) (l : LinkView) (h : Bytes) :
    h ∈ offered H sid ds l ↔ ∃ d ∈ ds, admits d l = true ∧ protocolHash H sid d.pid d.ctx = h := by
  simp only [offered, List.mem_map, List.mem_filter]
  constructor
  · rintro ⟨d, ⟨hd, ha⟩, he⟩
    exact ⟨d, hd, ha, he⟩
  · rintro ⟨d, hd, ha, he⟩
    exact ⟨d, ⟨hd, ha⟩, he⟩

/-- Two peers' solicitations `dA` (on A, link view `lA`) and `dB` (on B, view `lB`) are matched
with each other: some hash is offered by both sides and resolves to `dA` on A and `dB` on B. -/
def MatchedWith (H : Bytes → Bytes) (sid : Bytes) (dsA dsB : List Dir) (lA lB : LinkView) (dA dB : Dir) : Prop :=
  ∃ h, h ∈ offered H sid dsA lA ∧ h ∈ offered H sid dsB lB ∧
    dA ∈ resolve H sid dsA lA h ∧ dB ∈ resolve H sid dsB lB h

/-- Matched exactly when same protocol ID, same context bytes, and each side's peer and
transport constraints admitOk the link — provided BLAKE3 does not collide on the two preimages. -/
theorem matched_iff (H : Bytes → Bytes) (sid : Bytes) (dsA dsB : List Dir) (lA lB : LinkView) (dA dB : Dir)
    (hA : dA ∈ dsA) (hB : dB ∈ dsB)
    (hpA : dA.pid.length < 2 ^ 64) (hpB : dB.pid.length < 2 ^ 64)
    (hcr : H (protocolPreimage sid dA.pid dA.ctx) = H (protocolPreimage sid dB.pid dB.ctx) →
      protocolPreimage sid dA.pid dA.ctx = protocolPreimage sid dB.pid dB.ctx) :
    MatchedWith H sid dsA dsB lA lB dA dB ↔
      (dA.pid = dB.pid ∧ dA.ctx = dB.ctx ∧ admits dA lA = true ∧ admits dB lB = true) := by
  unfold MatchedWith
  constructor
  · rintro ⟨h, _, _, hrA, hrB⟩
    rw [resolve_iff] at hrA hrB
    obtain ⟨_, haA, hhA⟩ := hrA
    obtain ⟨_, haB, hhB⟩ := hrB
    have hpre := hcr (by unfold protocolHash at hhA hhB; rw [hhA, hhB])
    obtain ⟨_, h1, h2⟩ := protocolPreimage_injective sid sid dA.pid dB.pid dA.ctx dB.ctx rfl hpA hpB hpre
    exact ⟨h1, h2, haA, haB⟩
  · rintro ⟨h1, h2, haA, haB⟩
    refine ⟨protocolHash H sid dA.pid dA.ctx, ?_, ?_, ?_, ?_⟩
    · rw [offered_iff]; exact ⟨dA, hA, haA, rfl⟩
    · rw [offered_iff]; exact ⟨dB, hB, haB, by rw [h1, h2]⟩
    · rw [resolve_iff]; exact ⟨hA, haA, rfl⟩
    · rw [resolve_iff]; exact ⟨hB, haB, by rw [h1, h2]⟩

/-- The constraint filter, spelled out. -/
theorem admits_iff (d : Dir) (l : LinkView) :
    admits d l = true ↔ (d.peer = [] ∨ d.peer = l.remote) ∧ (d.transport = 0 ∨ d.transport = l.transport) := by
  simp [admits, List.isEmpty_iff]

/-- Non-vacuity: the classic boundary-ambiguous pair now has different preimages. -/
example : protocolPreimage [9] [97, 98] [99] ≠ protocolPreimage [9] [97] [98, 99] := by
  decide

end Bifrost.Props.C30
