import Bifrost.Model.Solicit
import Bifrost.Lemmas.Solicit
/-!
C30 — Solicitations match only on identical protocol and context.
Model of the code as fixed by "fix: length-prefix the protocol ID in the solicitation protocol hash".
-/
namespace Bifrost.Props.C30
open Bifrost Bifrost.Solicit

/-- The hashed preimage determines session, protocol ID and context — however the bytes are
split between the two fields. -/
theorem protocolPreimage_injective (sid sid' pid pid' ctx ctx' : Bytes)
    (hs : sid.length = sid'.length) (hp : pid.length < 2 ^ 64) (hp' : pid'.length < 2 ^ 64)
    (h : protocolPreimage sid pid ctx = protocolPreimage sid' pid' ctx') :
    sid = sid' ∧ pid = pid' ∧ ctx = ctx' := by
  exact protocolPreimage_inj sid sid' pid pid' ctx ctx' hs hp hp' h

/-- The preimage names the protocol ID through its length only up to the ID itself: it is
`protocolPrefix sid |pid| ‖ pid ‖ ctx` (what the driver answers for 64 KiB … 256 MiB IDs). -/
theorem protocolPreimage_prefix (sid pid ctx : Bytes) :
    protocolPreimage sid pid ctx = protocolPrefix sid pid.length ++ pid ++ ctx :=
  protocolPreimage_eq_prefix sid pid ctx

/-- Shifting the (protocol ID | context) boundary inside one byte string `P ‖ C` by ANY amount
`m > 0` — 1, 128, 2^14, 2^16, 2^16·m, 2^21, 2^28, … : no length encoding that wraps — changes
the preimage. (`P.take k` / `P.drop k ++ C` and `P.take (k+m)` / `P.drop (k+m) ++ C` are the two
boundary-ambiguous solicitations.) -/
theorem boundary_shift_distinct (sid P C : Bytes) (k m : Nat) (hm : 0 < m) (hk : k + m ≤ P.length)
    (hP : P.length < 2 ^ 64) :
    protocolPreimage sid (P.take (k + m)) (P.drop (k + m) ++ C) ≠
      protocolPreimage sid (P.take k) (P.drop k ++ C) := by
  intro h
  have h1 : (P.take (k + m)).length < 2 ^ 64 := by simp; omega
  have h2 : (P.take k).length < 2 ^ 64 := by simp; omega
  obtain ⟨_, hp, _⟩ := protocolPreimage_injective sid sid _ _ _ _ rfl h1 h2 h
  have := congrArg List.length hp
  simp at this
  omega

/-- `resolveMatch` hands a stream for `hash` to exactly the local directives whose constraints
admitOk the link and whose (protocol, context) hash is `hash`. -/
theorem resolve_iff (H : Bytes → Bytes) (sid : Bytes) (ds : List Dir) (l : LinkView) (hash : Bytes) (d : Dir) :
    d ∈ resolve H sid ds l hash ↔ d ∈ ds ∧ admits d l = true ∧ protocolHash H sid d.pid d.ctx = hash := by
  simp only [resolve, List.mem_filter, Bool.and_eq_true, decide_eq_true_eq]

theorem offered_iff (H : Bytes → Bytes) (sid : Bytes) (ds : List Dir) (l : LinkView) (h : Bytes) :
    h ∈ offered H sid ds l ↔ ∃ d ∈ ds, admits d l = true ∧ protocolHash H sid d.pid d.ctx = h := by
  simp only [offered, List.mem_map, List.mem_filter]
  constructor
  · rintro ⟨d, ⟨hd, ha⟩, he⟩
    exact ⟨d, hd, ha, he⟩
  · rintro ⟨d, hd, ha, he⟩
    exact ⟨d, ⟨hd, ha⟩, he⟩

/-- Two peers' solicitations `dA` (on A, link view `lA`) and `dB` (on B, view `lB`) are matched
with each other: some hash is offered by both sides and resolves to `dA` on A and `dB` on B. -/
def MatchedWith (H : Bytes → Bytes) (sid : Bytes) (dsA dsB : List Dir) (lA lB : LinkView) (dA dB : Dir) : Prop :=
  ∃ h, h ∈ offered H sid dsA lA ∧ h ∈ offered H sid dsB lB ∧
    dA ∈ resolve H sid dsA lA h ∧ dB ∈ resolve H sid dsB lB h

/-- Matched exactly when same protocol ID, same context bytes, and each side's peer and
transport constraints admitOk the link — provided BLAKE3 does not collide on the two preimages. -/
theorem matched_iff (H : Bytes → Bytes) (sid : Bytes) (dsA dsB : List Dir) (lA lB : LinkView) (dA dB : Dir)
    (hA : dA ∈ dsA) (hB : dB ∈ dsB)
    (hpA : dA.pid.length < 2 ^ 64) (hpB : dB.pid.length < 2 ^ 64)
    (hcr : H (protocolPreimage sid dA.pid dA.ctx) = H (protocolPreimage sid dB.pid dB.ctx) →
      protocolPreimage sid dA.pid dA.ctx = protocolPreimage sid dB.pid dB.ctx) :
    MatchedWith H sid dsA dsB lA lB dA dB ↔
      (dA.pid = dB.pid ∧ dA.ctx = dB.ctx ∧ admits dA lA = true ∧ admits dB lB = true) := by
  unfold MatchedWith
  constructor
  · rintro ⟨h, _, _, hrA, hrB⟩
    rw [resolve_iff] at hrA hrB
    obtain ⟨_, haA, hhA⟩ := hrA
    obtain ⟨_, haB, hhB⟩ := hrB
    have hpre := hcr (by unfold protocolHash at hhA hhB; rw [hhA, hhB])
    obtain ⟨_, h1, h2⟩ := protocolPreimage_injective sid sid dA.pid dB.pid dA.ctx dB.ctx rfl hpA hpB hpre
    exact ⟨h1, h2, haA, haB⟩
  · rintro ⟨h1, h2, haA, haB⟩
    refine ⟨protocolHash H sid dA.pid dA.ctx, ?_, ?_, ?_, ?_⟩
    · rw [offered_iff]; exact ⟨dA, hA, haA, rfl⟩
    · rw [offered_iff]; exact ⟨dB, hB, haB, by rw [h1, h2]⟩
    · rw [resolve_iff]; exact ⟨hA, haA, rfl⟩
    · rw [resolve_iff]; exact ⟨hB, haB, by rw [h1, h2]⟩

/-- The constraint filter, spelled out. -/
theorem admits_iff (d : Dir) (l : LinkView) :
    admits d l = true ↔ (d.peer = [] ∨ d.peer = l.remote) ∧ (d.transport = 0 ∨ d.transport = l.transport) := by
  simp [admits, List.isEmpty_iff]

/-- Non-vacuity of `boundary_shift_distinct` at a wrap point of a fixed-width length: the prefixes
of a 5-byte and a (65536+5)-byte protocol ID differ (a 16-bit length would give 0x0005 twice). -/
example : protocolPrefix [9] 5 ≠ protocolPrefix [9] (65536 + 5) ∧
    protocolPrefix [9] (65536 + 5) = [9, 0x85, 0x80, 0x04] := by
  decide

/-- Non-vacuity: the classic boundary-ambiguous pair now has different preimages. -/
example : protocolPreimage [9] [97, 98] [99] ≠ protocolPreimage [9] [97] [98, 99] := by
  decide

end Bifrost.Props.C30
