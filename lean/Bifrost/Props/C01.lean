import Bifrost.Model.Sign
import Bifrost.Model.Crypto
import Bifrost.Lemmas.Sign
import Bifrost.Props.C02
import Bifrost.Props.C10
/-!
C01 — Signed messages are accepted only when the signature is authentic.
Model of the code as fixed by "fix: ExtractAndVerify returned nil instead of the signature error"
and by "fix: peer: SignedMsg.ExtractPubKey rejects a sender that is not the canonical ID of its key".
-/
namespace Bifrost.Props.C01
open Bifrost Bifrost.Codec Bifrost.Sign Bifrost.Crypto

/-- Exact characterisation of acceptance. -/
theorem extractAndVerify_ok_iff (verify : VerifyFn) (sum : SumFn) (m : SignedMsg) (ctx pk id : Bytes) :
    extractAndVerify verify sum m ctx = .ok (pk, id) ↔
      m.data ≠ [] ∧ m.fromPeerId ≠ [] ∧ m.signature.validate = true ∧
      idB58Decode m.fromPeerId = some id ∧ extractPublicKey id = some pk ∧
      verifyWithPublic verify sum m.signature ctx pk m.data = .good ∧
      idFromPublicKey pk = id ∧ idB58Encode id = m.fromPeerId := by
  exact extractAndVerify_ok_iff' verify sum m ctx pk id

/-- Soundness: an accepted message was signed by a private key of the public key embedded in
its claimed sender ID, over exactly the body built from the verifier's context, the hash
type and the digest of the message data. -/
theorem extractAndVerify_sound (S : SigScheme) (H : HashFam) (m : SignedMsg) (ctx pk id : Bytes)
    (h : extractAndVerify S.verify H.sum m ctx = .ok (pk, id)) :
    idB58Decode m.fromPeerId = some id ∧ extractPublicKey id = some pk ∧
    ∃ sk d, S.pub sk = pk ∧ H.sum m.signature.hashType m.data = some d ∧
      m.signature.sigData = S.sign sk (signBody ctx m.signature.hashType d) := by
  obtain ⟨_, _, _, hid, hpk, hgood, _⟩ := (extractAndVerify_ok_iff _ _ _ _ _ _).mp h
  obtain ⟨_, d, sk, hsum, hpub, hsig⟩ := (C02.verify_iff_created S H _ _ _ _).mp hgood
  exact ⟨hid, hpk, sk, d, hpub, hsum, hsig⟩

/-- Completeness: the honest message verifies. -/
theorem honest_accepted (S : SigScheme) (H : HashFam) (sk ctx data : Bytes) (t : Int) (s : Signature)
    (hpk : (S.pub sk).length = 32) (hd : data ≠ [])
    (hs : newSignature (S.sign sk) H.sum ctx t data = some s) :
    extractAndVerify S.verify H.sum
      { fromPeerId := idB58Encode (idFromPublicKey (S.pub sk)), signature := s, data := data } ctx
      = .ok (S.pub sk, idFromPublicKey (S.pub sk)) := by
  have hrt := C10.text_roundtrip_key (S.pub sk) hpk
  apply (extractAndVerify_ok_iff _ _ _ _ _ _).mpr
  refine ⟨hd, ?_, ?_, hrt, C10.extract_idFromPublicKey (S.pub sk) hpk,
    C02.created_verifies S H sk ctx data t s hs, rfl, rfl⟩
  · intro e
    simp only at e
    rw [e, idB58Decode_nil] at hrt
    cases hrt
  · obtain ⟨hv, h, _, rfl⟩ := newSignature_some _ _ _ _ _ _ hs
    unfold Signature.validate
    simp only
    rw [hv, isEmpty_eq_false_of_ne_nil (S.sig_nonempty sk _)]
    rfl

/-- Tamper resistance: ANY message `m'` accepted under ANY context `ctx'` that carries the
signature bytes of an honest signature (made by `sk` over `(ctx, t, data)`) has the same
sender key, the same context, the same hash type and data with the same digest. So changing
the body, the claimed sender, the hash type or the context makes verification fail (up to a
digest collision, which is stated, not assumed away). -/
theorem tamper_rejected (S : SigScheme) (H : HashFam) (sk ctx data : Bytes) (t : Int) (s : Signature)
    (hs : newSignature (S.sign sk) H.sum ctx t data = some s)
    (m' : SignedMsg) (ctx' pk' id' : Bytes)
    (hsig : m'.signature.sigData = s.sigData)
    (hok : extractAndVerify S.verify H.sum m' ctx' = .ok (pk', id')) :
    pk' = S.pub sk ∧ ctx' = ctx ∧ m'.signature.hashType = t ∧ H.sum t m'.data = H.sum t data := by
  obtain ⟨_, _, _, _, _, hgood, _⟩ := (extractAndVerify_ok_iff _ _ _ _ _ _).mp hok
  apply C02.created_binds S H sk ctx data t s hs m'.signature.hashType ctx' pk' m'.data
  rw [← hgood]
  exact verifyWithPublic_congr _ _ _ _ _ _ _ rfl hsig.symm

/-- The claimed sender of an accepted message is a function of the key that verified it: the
sender text is THE base58 text of THE id derived from that key, and that id is what is returned.
No other encoding of the same key (non-minimal varints, reordered / repeated / unknown fields
of the key message, another base58 spelling) is accepted. -/
theorem sender_canonical (verify : VerifyFn) (sum : SumFn) (m : SignedMsg) (ctx pk id : Bytes)
    (h : extractAndVerify verify sum m ctx = .ok (pk, id)) :
    id = idFromPublicKey pk ∧ m.fromPeerId = idB58Encode (idFromPublicKey pk) := by
  obtain ⟨_, _, _, _, _, _, h1, h2⟩ := (extractAndVerify_ok_iff _ _ _ _ _ _).mp h
  exact ⟨h1.symm, by rw [← h2, h1]⟩

/-- "Any change to the claimed sender makes verification report an error": a message accepted
(under any context) with the signature bytes of an honest message of `sk` claims exactly the
sender text the honest message claims, and is attributed to exactly the honest id. -/
theorem claimed_sender_bound (S : SigScheme) (H : HashFam) (sk ctx data : Bytes) (t : Int) (s : Signature)
    (hs : newSignature (S.sign sk) H.sum ctx t data = some s)
    (m' : SignedMsg) (ctx' pk' id' : Bytes)
    (hsig : m'.signature.sigData = s.sigData)
    (hok : extractAndVerify S.verify H.sum m' ctx' = .ok (pk', id')) :
    m'.fromPeerId = idB58Encode (idFromPublicKey (S.pub sk)) ∧ id' = idFromPublicKey (S.pub sk) := by
  obtain ⟨hpk, _⟩ := tamper_rejected S H sk ctx data t s hs m' ctx' pk' id' hsig hok
  obtain ⟨h1, h2⟩ := sender_canonical _ _ _ _ _ _ hok
  rw [hpk] at h1 h2
  exact ⟨h2, h1⟩

/-- An alias of a key's id — any other byte string from which `ExtractPublicKey` yields the
same key — is rejected as claimed sender, whatever the signature. -/
theorem alias_sender_rejected (verify : VerifyFn) (sum : SumFn) (m : SignedMsg) (ctx id pk : Bytes)
    (hid : idB58Decode m.fromPeerId = some id) (hpk : extractPublicKey id = some pk)
    (hne : id ≠ idFromPublicKey pk) :
    ∃ e, extractAndVerify verify sum m ctx = .error e := by
  cases hr : extractAndVerify verify sum m ctx with
  | error e => exact ⟨e, rfl⟩
  | ok p =>
    obtain ⟨pk', id'⟩ := p
    obtain ⟨_, _, _, hid', hpk', _, hc, _⟩ := (extractAndVerify_ok_iff _ _ _ _ _ _).mp hr
    rw [hid] at hid'
    cases hid'
    rw [hpk] at hpk'
    cases hpk'
    exact absurd hc.symm hne

/-- Non-vacuity of `alias_sender_rejected`: the id of key 7…7 with a non-minimal length varint
(`00 a4 00 ‖ key message`) yields the same key and is not the derived id. -/
example : extractPublicKey ([0x00, 0xa4, 0x00] ++ marshalPublicKey (List.replicate 32 7)) = some (List.replicate 32 7) ∧
    [0x00, 0xa4, 0x00] ++ marshalPublicKey (List.replicate 32 7) ≠ idFromPublicKey (List.replicate 32 7) := by
  decide

/-- …and `alias_sender_rejected` fires on it: a message claiming that alias as sender is
rejected whatever its signature, data and context. -/
example (verify : VerifyFn) (sum : SumFn) (sg : Signature) (data ctx : Bytes) :
    ∃ e, extractAndVerify verify sum
      { fromPeerId := idB58Encode ([0x00, 0xa4, 0x00] ++ marshalPublicKey (List.replicate 32 7)),
        signature := sg, data := data } ctx = .error e :=
  alias_sender_rejected verify sum _ ctx _ (List.replicate 32 7)
    (C10.text_roundtrip _ (by decide)) (by decide) (by decide)

/-- Changing the signature bytes to anything that was not produced with the claimed sender's
private key over exactly this body is rejected. -/
theorem forged_signature_rejected (S : SigScheme) (H : HashFam) (m : SignedMsg) (ctx : Bytes)
    (hno : ∀ id pk d sk, idB58Decode m.fromPeerId = some id → extractPublicKey id = some pk →
      H.sum m.signature.hashType m.data = some d → S.pub sk = pk →
      m.signature.sigData ≠ S.sign sk (signBody ctx m.signature.hashType d)) :
    ∃ e, extractAndVerify S.verify H.sum m ctx = .error e := by
  cases hr : extractAndVerify S.verify H.sum m ctx with
  | error e => exact ⟨e, rfl⟩
  | ok p =>
    obtain ⟨pk, id⟩ := p
    obtain ⟨hid, hpk, sk, d, hpub, hsum, hsig⟩ := extractAndVerify_sound S H m ctx pk id hr
    exact absurd hsig (hno id pk d sk hid hpk hsum hpub)

/-- Non-vacuity with the toy scheme: an honest message is accepted. -/
example : ∃ s, newSignature (ToySig.sign (List.replicate 32 4)) ToyHash.sum [1] 1 [8] = some s ∧
    extractAndVerify ToySig.verify ToyHash.sum
      { fromPeerId := idB58Encode (idFromPublicKey (List.replicate 32 4)), signature := s, data := [8] } [1]
      = .ok (List.replicate 32 4, idFromPublicKey (List.replicate 32 4)) := by
  have h : (newSignature (ToySig.sign (List.replicate 32 4)) ToyHash.sum [1] 1 [8]).isSome = true := by
    decide
  obtain ⟨s, hs⟩ := Option.isSome_iff_exists.mp h
  exact ⟨s, hs, honest_accepted ToySig ToyHash (List.replicate 32 4) [1] [8] 1 s
    (List.length_replicate ..) (by decide) hs⟩

end Bifrost.Props.C01
