import Bifrost.Model.Solicit
import Bifrost.Lemmas.Solicit
/-!
C32 — Both ends of a link compute the same solicitation set and its exact intersection.
The session ID is `H(sessionPreimage a b)`; theorems are about the preimage (collision
resistance of BLAKE3 is trusted, never assumed as injectivity).
-/
namespace Bifrost.Props.C32
open Bifrost Bifrost.Codec Bifrost.Solicit

/-- sorted by the bytewise order (`bytes.Compare ≤ 0` between neighbours). -/
def Sorted (l : List Bytes) : Prop := l.Pairwise (fun a b => lexLt b a = false)
/-- strictly sorted (no duplicates). -/
def StrictSorted (l : List Bytes) : Prop := l.Pairwise (fun a b => lexLt a b = true)

/-- The session identifier is the same whichever side computes it. -/
theorem sessionPreimage_comm (a b : Bytes) : sessionPreimage a b = sessionPreimage b a := by
  exact Solicit.sessionPreimage_comm a b

theorem sessionID_comm (H : Bytes → Bytes) (a b : Bytes) : sessionID H a b = sessionID H b a := by
  unfold sessionID
  rw [Solicit.sessionPreimage_comm]

/-- Well-formed peer IDs (what `IDFromBytes` accepts) are self-delimiting: a concatenation of
two of them splits in only one way. -/
theorem multihash_prefix_free (a b c d : Bytes)
    (ha : idFromBytes a = some a) (hc : idFromBytes c = some c)
    (h : a ++ b = c ++ d) : a = c ∧ b = d := by
  exact idFromBytes_prefix_free a b c d ha hc h

/-- Different peer pairs have different session-ID preimages (so, short of a BLAKE3 collision,
different session IDs): the preimage determines the unordered pair. -/
theorem sessionPreimage_injective (a b c d : Bytes)
    (ha : idFromBytes a = some a) (hb : idFromBytes b = some b)
    (hc : idFromBytes c = some c) (hd : idFromBytes d = some d)
    (h : sessionPreimage a b = sessionPreimage c d) :
    (a = c ∧ b = d) ∨ (a = d ∧ b = c) := by
  rcases sessionPreimage_cases a b with e1 | e1 <;>
    rcases sessionPreimage_cases c d with e2 | e2 <;> rw [e1, e2] at h
  · exact Or.inl (idFromBytes_prefix_free a b c d ha hc h)
  · exact Or.inr (idFromBytes_prefix_free a b d c ha hd h)
  · have := idFromBytes_prefix_free b a c d hb hc h
    exact Or.inr ⟨this.2, this.1⟩
  · have := idFromBytes_prefix_free b a d c hb hd h
    exact Or.inl ⟨this.2, this.1⟩

/-- The matched set of two sorted hash lists is exactly their set intersection… -/
theorem findMatching_mem (l r : List Bytes) (hl : Sorted l) (hr : Sorted r) (x : Bytes) :
    x ∈ findMatching l r ↔ x ∈ l ∧ x ∈ r := by
  exact findMatching_mem_iff l r hl hr x

/-- …in order… -/
theorem findMatching_sorted (l r : List Bytes) (hl : Sorted l) (hr : Sorted r) :
    Sorted (findMatching l r) := by
  have _ := hr
  exact List.Pairwise.sublist (findMatching_sublist l r) hl

/-- …and duplicate-free when the inputs are. -/
theorem findMatching_strict (l r : List Bytes) (hl : StrictSorted l) (hr : StrictSorted r) :
    StrictSorted (findMatching l r) := by
  have _ := hr
  exact List.Pairwise.sublist (findMatching_sublist l r) hl

/-- `SortHashes` produces a sorted permutation. -/
theorem sortHashes_sorted (l : List Bytes) : Sorted (sortHashes l) ∧ (sortHashes l).Perm l := by
  exact sortHashes_sorted_perm l

example : findMatching [[1], [2], [4]] [[2], [3], [4], [5]] = [[2], [4]] := by
  simp [findMatching, lexLt]

end Bifrost.Props.C32
