import Bifrost.Model.Signaling
import Bifrost.Lemmas.SigSessMain
/-!
C20 — The relay server forwards only authentic messages to the session partner.
-/
namespace Bifrost.Props.C20
open Bifrost Bifrost.Sig

/-- Everything the relay ever decides to transmit as `RecvMsg` on a stream was submitted on a
stream of the OTHER peer of that session, its signature verified, its signer being the
authenticated identity of the submitting stream, in the epoch announced to the receiver. -/
theorem forward_only_if (s : State) (h : Reachable s) :
    ∀ c ∈ s.scalls, ∀ m, Resp.recv m ∈ c.outbox →
      ∃ e, c.announced = some e ∧ acceptedFor s c.sess e c m = true := by
  intro c hc m hm
  obtain ⟨t, _, hci⟩ := SigSess.reachable_call h hc
  exact hci.fwd m hm

/-- Every accepted submission passed the admission check. -/
theorem accepted_admitted (s : State) (h : Reachable s) :
    ∀ x ∈ s.accepted, ∃ cf, getSCall s x.2.2.1 = some cf ∧ admitOk x.2.2.2.2.1 x.2.2.2.2.2 cf.src = true := by
  exact (SigSess.reachable_good h).inv.acc

/-- A submission that does not verify, or is signed by anyone but the stream's authenticated
identity, is rejected: the stream's reader stops with an error and nothing is stored. -/
theorem unauthentic_rejected (s : State) (c : SCall) (epoch : Nat) (m : Msg) (v : Bool) (g : Nat)
    (hc : getSCall s c.id = some c) (hadm : admitOk v g c.src = false) :
    sSend s c.id epoch m v g = setSCall s { c with readerDone := true } := by
  simp [sSend, hc, hadm]

/-- A message for an epoch newer than the server's is rejected (the stream fails), not stored. -/
theorem future_epoch_rejected (s : State) (c : SCall) (t : Sess) (epoch : Nat) (m : Msg) (v : Bool) (g : Nat)
    (hc : getSCall s c.id = some c) (ht : getSess s c.sess = some t)
    (hadm : admitOk v g c.src = true) (hfut : t.seqno < epoch) :
    sSend s c.id epoch m v g = setSCall s { c with readerDone := true } := by
  simp [sSend, hc, hadm, ht, hfut]

/-- A message for an older epoch is not forwarded (no effect at all). -/
theorem stale_not_forwarded (s : State) (c : SCall) (t : Sess) (epoch : Nat) (m : Msg) (v : Bool) (g : Nat)
    (hc : getSCall s c.id = some c) (ht : getSess s c.sess = some t)
    (hadm : admitOk v g c.src = true) (hstale : epoch < t.seqno) :
    sSend s c.id epoch m v g = s := by
  have h1 : ¬ t.seqno < epoch := by omega
  have h2 : t.seqno ≠ epoch := by omega
  simp [sSend, hc, hadm, ht, h1, h2]

/-- Acks and clears only ever affect the message they name (server side of C21): an ack for
`k` changes nothing unless `k` is the message this side was sent and has not yet acked. -/
theorem ack_names_its_message (s : State) (c : SCall) (t : Sess) (ours other : Att) (epoch k : Nat)
    (hc : getSCall s c.id = some c) (ht : getSess s c.sess = some t)
    (hp : activePair t c = some (ours, other)) (hk : ours.recvSent ≠ some k) :
    sAck s c.id epoch k = s ∨ sAck s c.id epoch k = setSCall s { c with readerDone := true } := by
  simp only [sAck, hc, ht, hp]
  split
  · right; rfl
  · left; split <;> first | rfl | simp [hk]

theorem clear_names_its_message (s : State) (c : SCall) (t : Sess) (ours other : Att) (epoch k : Nat)
    (hc : getSCall s c.id = some c) (ht : getSess s c.sess = some t)
    (hp : activePair t c = some (ours, other))
    (hk : (other.recv.map (·.seqno)) ≠ some k) (hk' : other.recvSent ≠ some k) :
    sClear s c.id epoch k = s ∨ sClear s c.id epoch k = setSCall s { c with readerDone := true } := by
  simp only [sClear, hc, ht, hp]
  split
  · right; rfl
  · left; split <;> first | rfl | simp [hk, hk']

end Bifrost.Props.C20
