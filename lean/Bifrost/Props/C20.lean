import Bifrost.Model.Signaling
import Bifrost.Lemmas.SigSessMain
/-!
C20 — The relay server forwards only authentic messages to the session partner.
-/
namespace Bifrost.Props.C20
open Bifrost Bifrost.Sig

/-- Everything the relay ever decides to transmit as `RecvMsg` on a stream was submitted on a
stream of the OTHER peer of that session, its signature verified, its signer being the
authenticated identity of the submitting stream, in the epoch announced to the receiver. -/
theorem forward_only_if (s : State) (h : Reachable s) :
    ∀ c ∈ s.scalls, ∀ m, Resp.recv m ∈ c.outbox →
      ∃ e, c.announced = some e ∧ acceptedFor s c.sess e c m = true := by
  intro c hc m hm
  obtain ⟨t, _, hci⟩ := SigSess.reachable_call h hc
  exact hci.fwd m hm

/-- Every accepted submission passed the admission check. -/
theorem accepted_admitted (s : State) (h : Reachable s) :
    ∀ x ∈ s.accepted, ∃ cf, getSCall s x.2.2.1 = some cf ∧ admitOk x.2.2.2.2.1 x.2.2.2.2.2 cf.src = true := by
  exact (SigSess.reachable_good h).inv.acc

/-- A submission that does not verify, or is signed by anyone but the stream's authenticated
identity, is rejected: the stream's reader stops with an error and nothing is stored. -/
theorem unauthentic_rejected (s : State) (c : SCall) (epoch : Nat) (m : Msg) (v : Bool) (g : Nat)
    (hc : getSCall s c.id = some c) (hadm : admitOk v g c.src = false) :
    sSend s c.id epoch m v g = setSCall s { c with readerDone := true } := by
  simp [sSend, hc, hadm]

/-- A message for an epoch newer than the server's is rejected (the stream fails), not stored. -/
theorem future_epoch_rejected (s : State) (c : SCall) (t : Sess) (epoch : Nat) (m : Msg) (v : Bool) (g : Nat)
    (hc : getSCall s c.id = some c) (ht : getSess s c.sess = some t)
    (hadm : admitOk v g c.src = true) (hfut : t.seqno < epoch) :
    sSend s c.id epoch m v g = setSCall s { c with readerDone := true } := by
  simp [sSend, hc, hadm, ht, hfut]

/-- A message for an older epoch is not forwarded (no effect at all). -/
theorem stale_not_forwarded (s : State) (c : SCall) (t : Sess) (epoch : Nat) (m : Msg) (v : Bool) (g : Nat)
    (hc : getSCall s c.id = some c) (ht : getSess s c.sess = some t)
    (hadm : admitOk v g c.src = true) (hstale : epoch < t.seqno) :
    sSend s c.id epoch m v g = s := by
  have h1 : ¬ t.seqno < epoch := by omega
  have h2 : t.seqno ≠ epoch := by omega
  simp [sSend, hc, hadm, ht, h1, h2]

/-- Acks and clears only ever affect the message they name (server side of C21): an ack for
`k` changes nothing unless `k` is the message this side was sent and has not yet acked. -/
theorem ack_names_its_message (s : State) (c : SCall) (t : Sess) (ours other : Att) (epoch k : Nat)
    (hc : getSCall s c.id = some c) (ht : getSess s c.sess = some t)
    (hp : activePair t c = some (ours, other)) (hk : ours.recvSent ≠ some k) :
    sAck s c.id epoch k = s ∨ sAck s c.id epoch k = setSCall s { c with readerDone := true } := by
  simp only [sAck, hc, ht, hp]
  split
  · right; rfl
  · left; split <;> first | rfl | simp [hk]

theorem clear_names_its_message (s : State) (c : SCall) (t : Sess) (ours other : Att) (epoch k : Nat)
    (hc : getSCall s c.id = some c) (ht : getSess s c.sess = some t)
    (hp : activePair t c = some (ours, other))
    (hk : (other.recv.map (·.seqno)) ≠ some k) (hk' : other.recvSent ≠ some k) :
    sClear s c.id epoch k = s ∨ sClear s c.id epoch k = setSCall s { c with readerDone := true } := by
  simp only [sClear, hc, ht, hp]
  split
  · right; rfl
  · left; split <;> first | rfl | simp [hk, hk']

/-- The admission decision stated outright: a submission is admitted iff its signature verifies
(under the key of the sender it names — `verifyOk` is the harness's stdlib verdict in the tie, so a
key attached to the signature plays no role) AND the sender it names is the authenticated identity
of the submitting stream. -/
theorem admit_iff (v : Bool) (g src : Nat) : admitOk v g src = true ↔ v = true ∧ g = src := by
  simp [admitOk]

/-- Requests before Init: a Session call is registered only by a valid Init (destination ≠ the
stream's own identity, both identities present, the call not registered before)… -/
theorem init_requires_valid (s : State) (c src dst : Nat) (h : enabled s (.init c src dst) = true) :
    src ≠ dst ∧ src ≠ 0 ∧ dst ≠ 0 ∧ getSCall s c = none ∧ getLCall s c = none := by
  simp only [enabled, Bool.and_eq_true, decide_eq_true_eq, Option.isNone_iff_eq_none] at h
  obtain ⟨⟨⟨⟨h1, h2⟩, h3⟩, h4⟩, h5⟩ := h
  exact ⟨h3, h4, h5, h1, h2⟩

/-- …and no send / ack / clear of a call that never registered is a step of the relay: a stream
whose first request is not a valid Init never reaches a critical section. -/
theorem request_requires_registered (s : State) (c e k : Nat) (m : Msg) (v : Bool) (g : Nat)
    (hc : getSCall s c = none) :
    enabled s (.send c e m v g) = false ∧ enabled s (.ack c e k) = false ∧ enabled s (.clear c e k) = false := by
  simp [enabled, hc]

/-- Non-vacuity: a valid Init is enabled in the initial state, a self-dial is not. -/
example : enabled {} (.init 1 1 2) = true ∧ enabled {} (.init 1 2 2) = false ∧ enabled {} (.send 1 0 ⟨1, 1⟩ true 1) = false := by
  decide

end Bifrost.Props.C20
