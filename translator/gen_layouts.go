package main

// Byte-layout translator: turns the Go statements that assemble a byte string that is then
// signed / hashed / used as a KDF context — `bytes.Join([][]byte{…}, sep)`, a sequence of
// `h.Write(…)` on a hasher, a sequence of `b.WriteString/WriteByte(…)` on a strings.Builder,
// `lit + ident` — into Lean FUNCTIONS over byte strings (Gen.Layout*). The hand-written models
// state the same layouts; `Bifrost/Ties/*.lean` proves generated = model for all operands, so an
// edit of an operand order, a separator, a label or a length prefix in the source breaks a proof
// obligation of the properties that rest on that layout. Unknown statement shapes are refused.

import (
	"go/constant"
	"fmt"
	"go/ast"
	"go/token"
	"strconv"
	"strings"
)

func init() {
	register("LayoutSign", genLayoutSign)
	register("LayoutSolicit", genLayoutSolicit)
	register("LayoutEncrypt", genLayoutEncrypt)
	register("LayoutEnvelope", genLayoutEnvelope)
}

type lparam struct{ name, typ string }

type lctx struct {
	rel    string
	file   *ast.File
	params []lparam
	seen   map[string]bool
}

func newLctx(rel string) (*lctx, error) {
	_, f, err := parseFile(rel)
	if err != nil {
		return nil, err
	}
	return &lctx{rel: rel, file: f, seen: map[string]bool{}}, nil
}

func (c *lctx) reset() { c.params = nil; c.seen = map[string]bool{} }

func (c *lctx) v(name, typ string) string {
	name = strings.NewReplacer(".", "_", "(", "", ")", "").Replace(name)
	switch name { // Lean keywords / clashes
	case "context", "open", "end", "from", "at", "have", "show", "fun", "by", "do", "then", "else", "if", "in", "let", "match", "with", "where", "instance", "section", "namespace", "prefix", "local":
		name = name + "_"
	}
	if !c.seen[name] {
		c.seen[name] = true
		c.params = append(c.params, lparam{name, typ})
	}
	return name
}

func (c *lctx) funcDecl(name, recv string) (*ast.FuncDecl, error) {
	for _, d := range c.file.Decls {
		fd, ok := d.(*ast.FuncDecl)
		if !ok || fd.Name.Name != name {
			continue
		}
		r := ""
		if fd.Recv != nil && len(fd.Recv.List) == 1 {
			t := fd.Recv.List[0].Type
			if st, ok := t.(*ast.StarExpr); ok {
				t = st.X
			}
			if id, ok := t.(*ast.Ident); ok {
				r = id.Name
			}
		}
		if r == recv {
			return fd, nil
		}
	}
	return nil, fmt.Errorf("%s: func %s (recv %q) not found", c.rel, name, recv)
}

// pkgString resolves a package-level string const/var of the file.
func (c *lctx) pkgString(name string) (string, bool) {
	s, err := strConst(c.rel, name)
	return s, err == nil
}

// path renders ident / selector / no-arg getter chains as a variable name.
func exprPath(e ast.Expr) (string, bool) {
	switch x := e.(type) {
	case *ast.Ident:
		return x.Name, true
	case *ast.SelectorExpr:
		p, ok := exprPath(x.X)
		if !ok {
			return "", false
		}
		return p + "." + x.Sel.Name, true
	case *ast.CallExpr:
		if len(x.Args) != 0 {
			return "", false
		}
		return exprPath(x.Fun)
	}
	return "", false
}

func isSel(e ast.Expr, pkg, name string) bool {
	s, ok := e.(*ast.SelectorExpr)
	if !ok || s.Sel.Name != name {
		return false
	}
	id, ok := s.X.(*ast.Ident)
	return ok && id.Name == pkg
}

func isByteSliceType(e ast.Expr) bool {
	at, ok := e.(*ast.ArrayType)
	if !ok || at.Len != nil {
		return false
	}
	id, ok := at.Elt.(*ast.Ident)
	return ok && id.Name == "byte"
}

// lenOf matches `len(X)` and returns the Lean bytes expression of X.
func (c *lctx) lenOf(e ast.Expr) (string, bool) {
	ce, ok := e.(*ast.CallExpr)
	if !ok || len(ce.Args) != 1 {
		return "", false
	}
	if id, ok := ce.Fun.(*ast.Ident); !ok || id.Name != "len" {
		return "", false
	}
	s, err := c.bytesExpr(ce.Args[0])
	if err != nil {
		return "", false
	}
	return s, true
}

// bytesExpr translates a Go expression denoting a byte string (string or []byte).
func (c *lctx) bytesExpr(e ast.Expr) (string, error) {
	switch x := e.(type) {
	case *ast.ParenExpr:
		return c.bytesExpr(x.X)
	case *ast.BasicLit:
		switch x.Kind {
		case token.STRING:
			s, err := strconv.Unquote(x.Value)
			if err != nil {
				return "", err
			}
			return leanBytes([]byte(s)), nil
		case token.CHAR:
			s, err := strconv.Unquote(x.Value)
			if err != nil || len(s) != 1 {
				return "", fmt.Errorf("unsupported char literal %s", x.Value)
			}
			return leanBytes([]byte(s)), nil
		}
	case *ast.Ident:
		if x.Name == "nil" {
			return "[]", nil
		}
		if s, ok := c.pkgString(x.Name); ok {
			return leanBytes([]byte(s)), nil
		}
		return c.v(x.Name, "Bytes"), nil
	case *ast.SelectorExpr:
		if p, ok := exprPath(x); ok {
			return c.v(p, "Bytes"), nil
		}
	case *ast.BinaryExpr:
		if x.Op == token.ADD {
			a, err := c.bytesExpr(x.X)
			if err != nil {
				return "", err
			}
			b, err := c.bytesExpr(x.Y)
			if err != nil {
				return "", err
			}
			return "(" + a + " ++ " + b + ")", nil
		}
	case *ast.CallExpr:
		// conversions []byte(X), string(X)
		if len(x.Args) == 1 && isByteSliceType(x.Fun) {
			return c.bytesExpr(x.Args[0])
		}
		if id, ok := x.Fun.(*ast.Ident); ok && id.Name == "string" && len(x.Args) == 1 {
			return c.bytesExpr(x.Args[0])
		}
		// strconv.Itoa(len(X)) | strconv.Itoa(int(X)) | strconv.Itoa(X)
		if isSel(x.Fun, "strconv", "Itoa") && len(x.Args) == 1 {
			if l, ok := c.lenOf(x.Args[0]); ok {
				return "(Layout.itoaNat (" + l + ").length)", nil
			}
			if ce, ok := x.Args[0].(*ast.CallExpr); ok && len(ce.Args) == 1 {
				if id, ok := ce.Fun.(*ast.Ident); ok && id.Name == "int" {
					if p, ok := exprPath(ce.Args[0]); ok {
						return "(Layout.itoaInt " + c.v(p, "Int") + ")", nil
					}
				}
			}
			if id, ok := x.Args[0].(*ast.Ident); ok {
				return "(Layout.itoaNat " + c.v(id.Name, "Nat") + ")", nil
			}
		}
		// binary.AppendUvarint(nil, uint64(len(X)))
		if isSel(x.Fun, "binary", "AppendUvarint") && len(x.Args) == 2 {
			if id, ok := x.Args[0].(*ast.Ident); ok && id.Name == "nil" {
				if ce, ok := x.Args[1].(*ast.CallExpr); ok && len(ce.Args) == 1 {
					if id, ok := ce.Fun.(*ast.Ident); ok && id.Name == "uint64" {
						if l, ok := c.lenOf(ce.Args[0]); ok {
							return "(Uv.put (" + l + ").length)", nil
						}
					}
				}
			}
		}
		// no-arg getter chain m.GetSignature().GetSigData()
		if p, ok := exprPath(x); ok {
			return c.v(p, "Bytes"), nil
		}
	}
	return "", fmt.Errorf("%s: unsupported byte expression %T", c.rel, e)
}

// joinAssign finds `name := bytes.Join([][]byte{…}, sep)` in fd.
func (c *lctx) joinAssign(fd *ast.FuncDecl, name string) (string, error) {
	var res string
	var rerr error
	n := 0
	ast.Inspect(fd.Body, func(nd ast.Node) bool {
		as, ok := nd.(*ast.AssignStmt)
		if !ok || len(as.Lhs) != 1 || len(as.Rhs) != 1 {
			return true
		}
		id, ok := as.Lhs[0].(*ast.Ident)
		if !ok || id.Name != name {
			return true
		}
		n++
		ce, ok := as.Rhs[0].(*ast.CallExpr)
		if !ok || !isSel(ce.Fun, "bytes", "Join") || len(ce.Args) != 2 {
			rerr = fmt.Errorf("%s: %s is not assigned from bytes.Join", c.rel, name)
			return false
		}
		cl, ok := ce.Args[0].(*ast.CompositeLit)
		if !ok {
			rerr = fmt.Errorf("%s: bytes.Join first argument is not a literal", c.rel)
			return false
		}
		var parts []string
		for _, el := range cl.Elts {
			s, err := c.bytesExpr(el)
			if err != nil {
				rerr = err
				return false
			}
			parts = append(parts, s)
		}
		sep, err := c.bytesExpr(ce.Args[1])
		if err != nil {
			rerr = err
			return false
		}
		res = "Layout.join [" + strings.Join(parts, ", ") + "] " + sep
		return false
	})
	if rerr != nil {
		return "", rerr
	}
	if n != 1 {
		return "", fmt.Errorf("%s: %s: expected exactly one assignment of %s, found %d", c.rel, fd.Name.Name, name, n)
	}
	return res, nil
}

// usesIdentAsFirstArg checks that fd contains a call `<anything>.<method>(name, …)`.
func usesIdentAsFirstArg(fd *ast.FuncDecl, method, name string) bool {
	found := false
	ast.Inspect(fd.Body, func(nd ast.Node) bool {
		ce, ok := nd.(*ast.CallExpr)
		if !ok || len(ce.Args) == 0 {
			return true
		}
		se, ok := ce.Fun.(*ast.SelectorExpr)
		if !ok || se.Sel.Name != method {
			return true
		}
		if id, ok := ce.Args[0].(*ast.Ident); ok && id.Name == name {
			found = true
		}
		return true
	})
	return found
}

// writeCall matches `recv.Write(E)`, `recv.WriteString(E)`, `recv.WriteByte(E)`.
func writeCall(e ast.Expr, recv string) (ast.Expr, bool) {
	ce, ok := e.(*ast.CallExpr)
	if !ok || len(ce.Args) != 1 {
		return nil, false
	}
	se, ok := ce.Fun.(*ast.SelectorExpr)
	if !ok {
		return nil, false
	}
	id, ok := se.X.(*ast.Ident)
	if !ok || id.Name != recv {
		return nil, false
	}
	switch se.Sel.Name {
	case "Write", "WriteString", "WriteByte":
		return ce.Args[0], true
	}
	return nil, false
}

func countWrites(n ast.Node, recv string) int {
	k := 0
	ast.Inspect(n, func(nd ast.Node) bool {
		if e, ok := nd.(ast.Expr); ok {
			if _, ok := writeCall(e, recv); ok {
				k++
			}
		}
		return true
	})
	return k
}

// writeSeq extracts, in order, everything written into `recv` in the statement list. Writes may
// only appear as statements of the list itself (`recv.Write(E)` or `…, … = recv.Write(E)`) or
// inside `if len(X) != 0 { recv.Write(X) }` (writing an empty string is a no-op, so this is X).
func (c *lctx) writeSeq(stmts []ast.Stmt, recv string) ([]string, error) {
	var parts []string
	for _, st := range stmts {
		var call ast.Expr
		switch s := st.(type) {
		case *ast.ExprStmt:
			call = s.X
		case *ast.AssignStmt:
			if len(s.Rhs) == 1 {
				call = s.Rhs[0]
			}
		case *ast.IfStmt:
			k := countWrites(s, recv)
			if k == 0 {
				continue
			}
			// if len(X) != 0 { write(X) [; if err != nil {return err}] }
			be, ok := s.Cond.(*ast.BinaryExpr)
			if !ok || be.Op != token.NEQ || s.Else != nil || s.Init != nil {
				return nil, fmt.Errorf("%s: write to %s under an unsupported condition", c.rel, recv)
			}
			lit, ok := be.Y.(*ast.BasicLit)
			if !ok || lit.Value != "0" {
				return nil, fmt.Errorf("%s: write to %s under an unsupported condition", c.rel, recv)
			}
			condX, ok := c.lenOf(be.X)
			if !ok {
				return nil, fmt.Errorf("%s: write to %s under an unsupported condition", c.rel, recv)
			}
			inner, err := c.writeSeq(s.Body.List, recv)
			if err != nil {
				return nil, err
			}
			if len(inner) != 1 || inner[0] != condX || k != 1 {
				return nil, fmt.Errorf("%s: conditional write to %s is not `if len(X) != 0 { write(X) }`", c.rel, recv)
			}
			parts = append(parts, inner[0])
			continue
		}
		if call != nil {
			if arg, ok := writeCall(call, recv); ok {
				s, err := c.bytesExpr(arg)
				if err != nil {
					return nil, err
				}
				parts = append(parts, s)
				continue
			}
		}
		if countWrites(st, recv) != 0 {
			return nil, fmt.Errorf("%s: write to %s in an unsupported statement (%T)", c.rel, recv, st)
		}
	}
	return parts, nil
}

// stmtsAfterDecl returns the statements of the block that (directly) declares `recv` by
// `recv := <ctor>` / `var recv T`, starting after the declaration, plus the declaring call.
func stmtsAfterDecl(body *ast.BlockStmt, recv string) ([]ast.Stmt, ast.Expr, bool) {
	var out []ast.Stmt
	var ctor ast.Expr
	found := false
	var walk func(b *ast.BlockStmt)
	walk = func(b *ast.BlockStmt) {
		for i, st := range b.List {
			switch s := st.(type) {
			case *ast.AssignStmt:
				if s.Tok == token.DEFINE && len(s.Lhs) == 1 {
					if id, ok := s.Lhs[0].(*ast.Ident); ok && id.Name == recv && !found {
						found = true
						out = b.List[i+1:]
						if len(s.Rhs) == 1 {
							ctor = s.Rhs[0]
						}
						return
					}
				}
			case *ast.DeclStmt:
				if gd, ok := s.Decl.(*ast.GenDecl); ok {
					for _, sp := range gd.Specs {
						if vs, ok := sp.(*ast.ValueSpec); ok {
							for _, n := range vs.Names {
								if n.Name == recv && !found {
									found = true
									out = b.List[i+1:]
									return
								}
							}
						}
					}
				}
			case *ast.IfStmt:
				walk(s.Body)
				if found {
					return
				}
			case *ast.BlockStmt:
				walk(s)
				if found {
					return
				}
			}
		}
	}
	walk(body)
	return out, ctor, found
}

func (c *lctx) emit(sb *strings.Builder, doc, name, body string) {
	fmt.Fprintf(sb, "/-- %s -/\ndef %s", doc, name)
	for _, p := range c.params {
		fmt.Fprintf(sb, " (%s : %s)", p.name, p.typ)
	}
	fmt.Fprintf(sb, " : Bytes :=\n  %s\n\n", body)
}

func concat(parts []string) string {
	if len(parts) == 0 {
		return "[]"
	}
	return strings.Join(parts, " ++ ")
}

const layoutImports = "import Bifrost.Model.Layout\n"

func layoutHeader(name, from string) string {
	return layoutImports + "-- GENERATED by /verif/translator (gen_layouts.go) from " + from + " on every check run. Do not edit.\nnamespace Bifrost.Gen." + name + "\nopen Bifrost\n\n"
}

// ---------------------------------------------------------------- peer/signature.go, signed-msg.go

func genLayoutSign() (string, error) {
	const rel = "peer/signature.go"
	c, err := newLctx(rel)
	if err != nil {
		return "", err
	}
	var sb strings.Builder
	sb.WriteString(layoutHeader("LayoutSign", rel+", peer/signed-msg.go"))
	for _, f := range []struct{ fn, recv, def, method string }{
		{"NewSignatureWithHashedData", "", "signBodyCreate", "Sign"},
		{"VerifyWithPublic", "Signature", "signBodyVerify", "Verify"},
	} {
		fd, err := c.funcDecl(f.fn, f.recv)
		if err != nil {
			return "", err
		}
		c.reset()
		body, err := c.joinAssign(fd, "signBody")
		if err != nil {
			return "", err
		}
		if !usesIdentAsFirstArg(fd, f.method, "signBody") {
			return "", fmt.Errorf("%s: %s does not pass signBody to %s", rel, f.fn, f.method)
		}
		c.emit(&sb, fmt.Sprintf("the byte string `%s` hands to `%s` (`signBody`)", f.fn, f.method), f.def, body)
	}
	c2, err := newLctx("peer/signed-msg.go")
	if err != nil {
		return "", err
	}
	fd, err := c2.funcDecl("ComputeMessageID", "SignedMsg")
	if err != nil {
		return "", err
	}
	body, err := c2.joinAssign(fd, "inner")
	if err != nil {
		return "", err
	}
	if !usesIdentAsFirstArg(fd, "Sum256", "inner") {
		return "", fmt.Errorf("peer/signed-msg.go: ComputeMessageID does not hash `inner`")
	}
	c2.emit(&sb, "what `SignedMsg.ComputeMessageID` hashes", "messageIDPreimage", body)
	sb.WriteString(footer("LayoutSign"))
	return sb.String(), nil
}

// ---------------------------------------------------------------- link/solicit/hash.go

func genLayoutSolicit() (string, error) {
	const rel = "link/solicit/hash.go"
	c, err := newLctx(rel)
	if err != nil {
		return "", err
	}
	var sb strings.Builder
	sb.WriteString(layoutHeader("LayoutSolicit", rel))
	hs, err := natConst(rel, "HashSize")
	if err != nil {
		return "", err
	}
	fmt.Fprintf(&sb, "/-- `HashSize` -/\ndef hashSize : Nat := %s\n\n", hs)
	for _, f := range []struct{ fn, def string }{{"ComputeSessionID", "sessionIDWrites"}, {"ComputeProtocolHash", "protocolHashPreimage"}} {
		fd, err := c.funcDecl(f.fn, "")
		if err != nil {
			return "", err
		}
		c.reset()
		stmts, ctor, ok := stmtsAfterDecl(fd.Body, "h")
		if !ok || ctor == nil {
			return "", fmt.Errorf("%s: %s: hasher `h` not found", rel, f.fn)
		}
		if ce, ok := ctor.(*ast.CallExpr); !ok || !isSel(ce.Fun, "blake3", "New") {
			return "", fmt.Errorf("%s: %s: h is not blake3.New()", rel, f.fn)
		}
		parts, err := c.writeSeq(stmts, "h")
		if err != nil {
			return "", err
		}
		if err := checkSumTruncate(fd, "h", "HashSize"); err != nil {
			return "", fmt.Errorf("%s: %s: %v", rel, f.fn, err)
		}
		c.emit(&sb, fmt.Sprintf("everything `%s` writes into the BLAKE3 hasher, in order; the result is `sum[:HashSize]`", f.fn), f.def, concat(parts))
	}
	// canonical ordering in ComputeSessionID: lower, higher := peerA, peerB; if lower > higher { swap }
	fd, _ := c.funcDecl("ComputeSessionID", "")
	if err := checkSwap(fd); err != nil {
		return "", fmt.Errorf("%s: ComputeSessionID: %v", rel, err)
	}
	sb.WriteString("/-- `lower, higher := peerA, peerB; if lower > higher { lower, higher = higher, lower }`\n(Go string comparison is bytewise lexicographic) -/\n")
	sb.WriteString("def sessionIDOperands (peerA peerB : Bytes) : Bytes × Bytes :=\n  if lexLt peerB peerA then (peerB, peerA) else (peerA, peerB)\n\n")
	sb.WriteString("/-- preimage of `ComputeSessionID(peerA, peerB)` -/\ndef sessionIDPreimage (peerA peerB : Bytes) : Bytes :=\n  sessionIDWrites (sessionIDOperands peerA peerB).1 (sessionIDOperands peerA peerB).2\n")
	sb.WriteString(footer("LayoutSolicit"))
	return sb.String(), nil
}

// checkSumTruncate: the function ends with `sum := h.Sum(nil); return sum[:size]`.
func checkSumTruncate(fd *ast.FuncDecl, recv, size string) error {
	n := len(fd.Body.List)
	if n < 2 {
		return fmt.Errorf("body too short")
	}
	as, ok := fd.Body.List[n-2].(*ast.AssignStmt)
	if !ok || len(as.Rhs) != 1 {
		return fmt.Errorf("expected `sum := %s.Sum(nil)`", recv)
	}
	ce, ok := as.Rhs[0].(*ast.CallExpr)
	if !ok || !isSel(ce.Fun, recv, "Sum") || len(ce.Args) != 1 {
		return fmt.Errorf("expected `sum := %s.Sum(nil)`", recv)
	}
	if id, ok := ce.Args[0].(*ast.Ident); !ok || id.Name != "nil" {
		return fmt.Errorf("expected `%s.Sum(nil)`", recv)
	}
	rs, ok := fd.Body.List[n-1].(*ast.ReturnStmt)
	if !ok || len(rs.Results) != 1 {
		return fmt.Errorf("expected `return sum[:%s]`", size)
	}
	se, ok := rs.Results[0].(*ast.SliceExpr)
	if !ok || se.Low != nil || se.High == nil {
		return fmt.Errorf("expected `return sum[:%s]`", size)
	}
	if id, ok := se.High.(*ast.Ident); !ok || id.Name != size {
		return fmt.Errorf("expected `return sum[:%s]`", size)
	}
	return nil
}

func checkSwap(fd *ast.FuncDecl) error {
	if len(fd.Type.Params.List) == 0 {
		return fmt.Errorf("no parameters")
	}
	var pnames []string
	for _, f := range fd.Type.Params.List {
		for _, n := range f.Names {
			pnames = append(pnames, n.Name)
		}
	}
	if len(pnames) != 2 || len(fd.Body.List) < 2 {
		return fmt.Errorf("unexpected signature")
	}
	as, ok := fd.Body.List[0].(*ast.AssignStmt)
	if !ok || as.Tok != token.DEFINE || len(as.Lhs) != 2 || len(as.Rhs) != 2 {
		return fmt.Errorf("expected `lower, higher := peerA, peerB`")
	}
	names := func(es []ast.Expr) []string {
		var o []string
		for _, e := range es {
			if id, ok := e.(*ast.Ident); ok {
				o = append(o, id.Name)
			} else {
				o = append(o, "?")
			}
		}
		return o
	}
	l, r := names(as.Lhs), names(as.Rhs)
	if l[0] != "lower" || l[1] != "higher" || r[0] != pnames[0] || r[1] != pnames[1] {
		return fmt.Errorf("expected `lower, higher := %s, %s`", pnames[0], pnames[1])
	}
	is, ok := fd.Body.List[1].(*ast.IfStmt)
	if !ok || is.Else != nil || is.Init != nil || len(is.Body.List) != 1 {
		return fmt.Errorf("expected `if lower > higher { swap }`")
	}
	be, ok := is.Cond.(*ast.BinaryExpr)
	if !ok || be.Op != token.GTR {
		return fmt.Errorf("expected condition `lower > higher`")
	}
	cn := names([]ast.Expr{be.X, be.Y})
	if cn[0] != "lower" || cn[1] != "higher" {
		return fmt.Errorf("expected condition `lower > higher`")
	}
	sw, ok := is.Body.List[0].(*ast.AssignStmt)
	if !ok || sw.Tok != token.ASSIGN || len(sw.Lhs) != 2 || len(sw.Rhs) != 2 {
		return fmt.Errorf("expected `lower, higher = higher, lower`")
	}
	sl, sr := names(sw.Lhs), names(sw.Rhs)
	if sl[0] != "lower" || sl[1] != "higher" || sr[0] != "higher" || sr[1] != "lower" {
		return fmt.Errorf("expected `lower, higher = higher, lower`")
	}
	return nil
}

// ---------------------------------------------------------------- peer/derive.go, encrypt-curve25519.go

func genLayoutEncrypt() (string, error) {
	const rel = "peer/derive.go"
	c, err := newLctx(rel)
	if err != nil {
		return "", err
	}
	var sb strings.Builder
	sb.WriteString(layoutHeader("LayoutEncrypt", rel+", peer/encrypt-curve25519.go"))
	fd, err := c.funcDecl("DeriveKey", "")
	if err != nil {
		return "", err
	}
	stmts, ctor, ok := stmtsAfterDecl(fd.Body, "dkh")
	if !ok || ctor == nil {
		return "", fmt.Errorf("%s: DeriveKey: hasher `dkh` not found", rel)
	}
	ce, ok := ctor.(*ast.CallExpr)
	if !ok || !isSel(ce.Fun, "blake3", "NewDeriveKey") || len(ce.Args) != 1 {
		return "", fmt.Errorf("%s: dkh is not blake3.NewDeriveKey(ctx)", rel)
	}
	c.reset()
	kctx, err := c.bytesExpr(ce.Args[0])
	if err != nil {
		return "", err
	}
	c.emit(&sb, "the BLAKE3 derive-key context of `DeriveKey`", "deriveKdfContext", kctx)
	c.reset()
	parts, err := c.writeSeq(stmts, "dkh")
	if err != nil {
		return "", err
	}
	c.emit(&sb, "everything `DeriveKey` writes into the derive-key hasher, in order", "deriveKdfInput", concat(parts))

	// the domain-separation labels of encrypt-curve25519.go, per function, in source order
	const rel2 = "peer/encrypt-curve25519.go"
	c2, err := newLctx(rel2)
	if err != nil {
		return "", err
	}
	for _, fn := range []struct{ name, def string }{{"EncryptToEd25519", "encryptDomains"}, {"DecryptWithEd25519", "decryptDomains"}} {
		fd, err := c2.funcDecl(fn.name, "")
		if err != nil {
			return "", err
		}
		var labels []string
		var lerr error
		ast.Inspect(fd.Body, func(nd ast.Node) bool {
			ce, ok := nd.(*ast.CallExpr)
			if !ok || !isSel(ce.Fun, "blake3", "NewDeriveKey") {
				return true
			}
			if len(ce.Args) != 1 {
				lerr = fmt.Errorf("NewDeriveKey arity")
				return false
			}
			be, ok := ce.Args[0].(*ast.BinaryExpr)
			if !ok || be.Op != token.ADD {
				lerr = fmt.Errorf("%s: %s: KDF context is not `label + context`", rel2, fn.name)
				return false
			}
			lit, ok := be.X.(*ast.BasicLit)
			id, ok2 := be.Y.(*ast.Ident)
			if !ok || !ok2 || lit.Kind != token.STRING || id.Name != "context" {
				lerr = fmt.Errorf("%s: %s: KDF context is not `\"label\" + context`", rel2, fn.name)
				return false
			}
			s, _ := strconv.Unquote(lit.Value)
			labels = append(labels, leanBytes([]byte(s)))
			return true
		})
		if lerr != nil {
			return "", lerr
		}
		fmt.Fprintf(&sb, "/-- the labels of the `blake3.NewDeriveKey(label + context)` calls of `%s`, in source order -/\ndef %s : List Bytes :=\n  [%s]\n\n", fn.name, fn.def, strings.Join(labels, ",\n   "))
	}
	// the size bound of a sealed message: the constant, and where each direction checks it
	mv, err := constValue(rel2, "MaxEncryptedMessageSize")
	if err != nil {
		return "", err
	}
	mu, ok := constant.Uint64Val(mv)
	if !ok {
		return "", fmt.Errorf("%s: MaxEncryptedMessageSize is not an unsigned integer constant", rel2)
	}
	fmt.Fprintf(&sb, "/-- `MaxEncryptedMessageSize` -/\ndef maxEncryptedMessageSize : Nat := %d\n\n", mu)
	fset2, f2, err := parseFile(rel2)
	if err != nil {
		return "", err
	}
	for _, fn := range []struct{ name, def string }{{"EncryptToEd25519", "encryptSizeGuard"}, {"DecryptWithEd25519", "decryptSizeGuard"}} {
		fd := findFunc(f2, fn.name)
		if fd == nil {
			return "", fmt.Errorf("%s: %s not found", rel2, fn.name)
		}
		// top-level `if <cond mentioning MaxEncryptedMessageSize> { return nil, ErrMessageTooLarge }`, and the
		// top-level statements before it that call into s2 (the guard must precede the decompression)
		var guards, s2Before []string
		for _, st := range fd.Body.List {
			if is, ok := st.(*ast.IfStmt); ok && strings.Contains(exprString(fset2, is.Cond), "MaxEncryptedMessageSize") {
				if is.Init != nil || is.Else != nil || !wrtcReturnsErr(fset2, is.Body) {
					return "", fmt.Errorf("%s: %s: the size guard is not `if cond { return nil, err }`", rel2, fn.name)
				}
				guards = append(guards, exprString(fset2, is.Cond)+" => "+exprString(fset2, is.Body.List[0]))
				continue
			}
			if len(guards) == 0 {
				for _, c := range wrtcCalls(fset2, st, "s2.Decode", "s2.DecodedLen", "s2.EncodeBetter", "s2.Encode") {
					s2Before = append(s2Before, exprString(fset2, c))
				}
			}
		}
		fmt.Fprintf(&sb, "/-- the size guard(s) of `%s` (top-level statements) -/\ndef %s : List String := [%s]\n", fn.name, fn.def, strings.Join(mapStr(guards, strconv.Quote), ", "))
		fmt.Fprintf(&sb, "/-- the calls into s2 that `%s` makes before its size guard -/\ndef %sS2Before : List String := [%s]\n\n", fn.name, fn.def, strings.Join(mapStr(s2Before, strconv.Quote), ", "))
	}
	sb.WriteString(footer("LayoutEncrypt"))
	return sb.String(), nil
}

// ---------------------------------------------------------------- envelope/crypto.go, build.go

func genLayoutEnvelope() (string, error) {
	const rel = "envelope/crypto.go"
	c, err := newLctx(rel)
	if err != nil {
		return "", err
	}
	var sb strings.Builder
	sb.WriteString(layoutHeader("LayoutEnvelope", rel+", envelope/build.go"))
	for _, f := range []struct{ fn, def string }{{"buildKeyDerivationContext", "keyDerivationContext"}, {"buildGrantEncContext", "grantEncContext"}} {
		fd, err := c.funcDecl(f.fn, "")
		if err != nil {
			return "", err
		}
		c.reset()
		stmts, _, ok := stmtsAfterDecl(fd.Body, "b")
		if !ok {
			return "", fmt.Errorf("%s: %s: builder `b` not found", rel, f.fn)
		}
		parts, err := c.writeSeq(stmts, "b")
		if err != nil {
			return "", err
		}
		// must end with `return b.String()`
		rs, ok := fd.Body.List[len(fd.Body.List)-1].(*ast.ReturnStmt)
		if !ok || len(rs.Results) != 1 {
			return "", fmt.Errorf("%s: %s: expected `return b.String()`", rel, f.fn)
		}
		if ce, ok := rs.Results[0].(*ast.CallExpr); !ok || !isSel(ce.Fun, "b", "String") {
			return "", fmt.Errorf("%s: %s: expected `return b.String()`", rel, f.fn)
		}
		c.emit(&sb, fmt.Sprintf("the string `%s` builds", f.fn), f.def, concat(parts))
	}
	// envelope id preimage in BuildEnvelope
	c2, err := newLctx("envelope/build.go")
	if err != nil {
		return "", err
	}
	fd, err := c2.funcDecl("BuildEnvelope", "")
	if err != nil {
		return "", err
	}
	stmts, ctor, ok := stmtsAfterDecl(fd.Body, "h")
	if !ok || ctor == nil {
		return "", fmt.Errorf("envelope/build.go: BuildEnvelope: hasher `h` not found")
	}
	if ce, ok := ctor.(*ast.CallExpr); !ok || !isSel(ce.Fun, "blake3", "New") {
		return "", fmt.Errorf("envelope/build.go: h is not blake3.New()")
	}
	parts, err := c2.writeSeq(stmts, "h")
	if err != nil {
		return "", err
	}
	c2.emit(&sb, "what `BuildEnvelope` hashes to derive an envelope id", "envelopeIdPreimage", concat(parts))
	sb.WriteString(footer("LayoutEnvelope"))
	return sb.String(), nil
}
