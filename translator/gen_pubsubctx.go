package main

import (
	"fmt"
	"go/ast"
	"go/token"
	"strings"
)

func init() { register("PubsubCtx", genPubsubCtx) }

// genPubsubCtx extracts the pubsub signing-context prefix (pubsub/util/pubmessage/pubmessage.go)
// and checks the shape of the two places that build the context from it: both must be
// `pubMessageEncContext + <channel expression>` (prefix first, channel appended, nothing else).
func genPubsubCtx() (string, error) {
	const rel = "pubsub/util/pubmessage/pubmessage.go"
	v, err := strConst(rel, "pubMessageEncContext")
	if err != nil {
		return "", err
	}
	_, f, err := parseFile(rel)
	if err != nil {
		return "", err
	}
	uses, err := ctxConcatUses(f, "pubMessageEncContext")
	if err != nil {
		return "", fmt.Errorf("%s: %v", rel, err)
	}
	if uses != 2 {
		return "", fmt.Errorf("%s: expected exactly 2 uses of pubMessageEncContext of the form `pubMessageEncContext + channel`, found %d", rel, uses)
	}
	var sb strings.Builder
	sb.WriteString(header("PubsubCtx", rel))
	fmt.Fprintf(&sb, "/-- `pubMessageEncContext` = %q; the signing context of a pubsub message is this prefix\nfollowed by the channel id (checked: both uses are `pubMessageEncContext + channel`). -/\n", v)
	fmt.Fprintf(&sb, "def pubMessageEncContext : List UInt8 := %s\n", leanBytes([]byte(v)))
	sb.WriteString(footer("PubsubCtx"))
	return sb.String(), nil
}

// ctxConcatUses counts the uses of identifier name outside its declaration and fails unless
// every use is the left operand of a binary `+` whose right operand is an identifier or a call
// (the channel id).
func ctxConcatUses(f *ast.File, name string) (int, error) {
	okUse := map[*ast.Ident]bool{}
	decl := map[*ast.Ident]bool{}
	ast.Inspect(f, func(n ast.Node) bool {
		switch x := n.(type) {
		case *ast.ValueSpec:
			for _, id := range x.Names {
				decl[id] = true
			}
		case *ast.BinaryExpr:
			if id, ok := x.X.(*ast.Ident); ok && id.Name == name && x.Op == token.ADD {
				switch x.Y.(type) {
				case *ast.Ident, *ast.CallExpr:
					okUse[id] = true
				}
			}
		}
		return true
	})
	n := 0
	var err error
	ast.Inspect(f, func(nd ast.Node) bool {
		if id, ok := nd.(*ast.Ident); ok && id.Name == name && !decl[id] {
			if !okUse[id] {
				err = fmt.Errorf("use of %s that is not `%s + channel`", name, name)
			}
			n++
		}
		return true
	})
	return n, err
}
