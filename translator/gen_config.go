package main

import (
	"fmt"
	"go/ast"
	"go/token"
	"strconv"
	"strings"
)

func init() { register("ConfigConsts", genConfigConsts) }

// stringArgsOfCalls collects, inside function fn of file rel, the string-literal argument at
// position arg of every call pkg.name(...).
func stringArgsOfCalls(rel, fn, pkg, name string, arg int) ([]string, error) {
	_, f, err := parseFile(rel)
	if err != nil {
		return nil, err
	}
	var out []string
	found := false
	for _, d := range f.Decls {
		fd, ok := d.(*ast.FuncDecl)
		if !ok || fd.Name.Name != fn || fd.Body == nil {
			continue
		}
		found = true
		var ierr error
		ast.Inspect(fd.Body, func(n ast.Node) bool {
			c, ok := n.(*ast.CallExpr)
			if !ok {
				return true
			}
			sel, ok := c.Fun.(*ast.SelectorExpr)
			if !ok || sel.Sel.Name != name {
				return true
			}
			if id, ok := sel.X.(*ast.Ident); !ok || id.Name != pkg {
				return true
			}
			if arg >= len(c.Args) {
				ierr = fmt.Errorf("%s: %s.%s call with %d arguments", rel, pkg, name, len(c.Args))
				return false
			}
			lit, ok := c.Args[arg].(*ast.BasicLit)
			if !ok || lit.Kind != token.STRING {
				ierr = fmt.Errorf("%s: %s.%s argument %d in %s is not a string literal", rel, pkg, name, arg, fn)
				return false
			}
			s, err := strconv.Unquote(lit.Value)
			if err != nil {
				ierr = err
				return false
			}
			out = append(out, s)
			return true
		})
		if ierr != nil {
			return nil, ierr
		}
	}
	if !found {
		return nil, fmt.Errorf("%s: function %s not found", rel, fn)
	}
	return out, nil
}

// oneString demands that all collected literals exist and are equal.
func oneString(rel, fn, pkg, name string, arg, atLeast int) (string, error) {
	l, err := stringArgsOfCalls(rel, fn, pkg, name, arg)
	if err != nil {
		return "", err
	}
	if len(l) < atLeast {
		return "", fmt.Errorf("%s: expected at least %d %s.%s call(s) in %s, found %d", rel, atLeast, pkg, name, fn, len(l))
	}
	for _, s := range l {
		if s != l[0] {
			return "", fmt.Errorf("%s: %s.%s calls in %s use different literals %q / %q", rel, pkg, name, fn, l[0], s)
		}
	}
	return l[0], nil
}

// timeLayoutOf finds `<expr>.Format(time.<Layout>)` in function fn and returns the layout's name.
func timeLayoutOf(rel, fn string) (string, error) {
	_, f, err := parseFile(rel)
	if err != nil {
		return "", err
	}
	var names []string
	for _, d := range f.Decls {
		fd, ok := d.(*ast.FuncDecl)
		if !ok || fd.Name.Name != fn || fd.Body == nil {
			continue
		}
		ast.Inspect(fd.Body, func(n ast.Node) bool {
			c, ok := n.(*ast.CallExpr)
			if !ok {
				return true
			}
			sel, ok := c.Fun.(*ast.SelectorExpr)
			if !ok || sel.Sel.Name != "Format" || len(c.Args) != 1 {
				return true
			}
			a, ok := c.Args[0].(*ast.SelectorExpr)
			if !ok {
				names = append(names, "?")
				return true
			}
			if id, ok := a.X.(*ast.Ident); ok && id.Name == "time" {
				names = append(names, a.Sel.Name)
			} else {
				names = append(names, "?")
			}
			return true
		})
	}
	if len(names) != 1 || names[0] == "?" {
		return "", fmt.Errorf("%s: expected exactly one Format(time.<layout>) call in %s, found %v", rel, fn, names)
	}
	return names[0], nil
}

func genConfigConsts() (string, error) {
	var sb strings.Builder
	sb.WriteString(header("ConfigConsts", "keypem/keypem.go, util/confparse/keys.go, util/confparse/timestamp.go, tptaddr/tptaddr.go, tptaddr/static/controller.go"))
	for _, c := range []struct{ lean, rel, name string }{
		{"privPemType", "keypem/keypem.go", "PrivPemType"},
		{"pubPemType", "keypem/keypem.go", "PubPemType"},
	} {
		s, err := strConst(c.rel, c.name)
		if err != nil {
			return "", err
		}
		fmt.Fprintf(&sb, "/-- `%s` in %s: %q -/\ndef %s : List UInt8 := %s\n", c.name, c.rel, s, c.lean, leanBytes([]byte(s)))
	}
	// the PEM-or-base58 dispatch prefix, which must be the same for private and public keys
	p1, err := oneString("util/confparse/keys.go", "ParsePrivateKey", "strings", "HasPrefix", 1, 1)
	if err != nil {
		return "", err
	}
	p2, err := oneString("util/confparse/keys.go", "ParsePublicKey", "strings", "HasPrefix", 1, 1)
	if err != nil {
		return "", err
	}
	if p1 != p2 {
		return "", fmt.Errorf("confparse: ParsePrivateKey and ParsePublicKey dispatch on different prefixes %q / %q", p1, p2)
	}
	fmt.Fprintf(&sb, "/-- the prefix on which confparse.ParsePrivateKey / ParsePublicKey choose PEM: %q -/\ndef pemPrefix : List UInt8 := %s\n", p1, leanBytes([]byte(p1)))
	// separators
	d, err := natConst("tptaddr/tptaddr.go", "TptAddrDelimiter")
	if err != nil {
		return "", err
	}
	fmt.Fprintf(&sb, "/-- `TptAddrDelimiter` in tptaddr/tptaddr.go -/\ndef tptAddrDelimiter : Nat := %s\n", d)
	c1, err := oneString("tptaddr/static/controller.go", "ParsePeerAddressMap", "strings", "Cut", 1, 1)
	if err != nil {
		return "", err
	}
	c2, err := oneString("tptaddr/static/controller.go", "ParsePeerAddressMap", "strings", "Contains", 1, 1)
	if err != nil {
		return "", err
	}
	fmt.Fprintf(&sb, "/-- separator of strings.Cut / strings.Contains in ParsePeerAddressMap -/\ndef peerAddrCutSep : List UInt8 := %s\ndef peerAddrContainsSep : List UInt8 := %s\n", leanBytes([]byte(c1)), leanBytes([]byte(c2)))
	// the timestamp layout
	lay, err := timeLayoutOf("util/confparse/timestamp.go", "MarshalTimestamp")
	if err != nil {
		return "", err
	}
	fmt.Fprintf(&sb, "/-- the time layout constant MarshalTimestamp formats with: time.%s -/\ndef timestampLayout : List UInt8 := %s\n", lay, leanBytes([]byte(lay)))
	sb.WriteString(footer("ConfigConsts"))
	return sb.String(), nil
}
