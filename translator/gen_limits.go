package main

import (
	"fmt"
	"go/ast"
	"go/constant"
	"go/parser"
	"go/token"
	"os"
	"path/filepath"
	"sort"
	"strings"
)

func init() { register("Limits", genLimits) }

type limitConst struct{ lean, rel, name string }

// extraLimits can be appended to from other gen_*.go files' init().
var extraLimits []limitConst

// sessionSite is a call `stream_packet.NewSession(stream, <limit>)` whose limit argument is
// extracted as it is written at the call site (not the constant it is supposed to name).
type sessionSite struct {
	lean string // generated definition
	dir  string // package directory: every non-test file is scanned, the total number of calls must match
	file string // file expected to hold the call
	fn   string // enclosing function / method
}

var sessionSites = []sessionSite{
	{"floodsubSessionLimit", "pubsub/floodsub", "floodsub.go", "AddPeerStream"},
	{"solicitInitiateSessionLimit", "link/solicit/controller", "controller.go", "initiateControlStream"},
	{"solicitHandlerSessionLimit", "link/solicit/controller", "handler-control.go", "HandleMountedStream"},
}

// pkgConstEval evaluates a constant expression, resolving identifiers to package-level
// constants of the package in `dir` (any non-test file).
func pkgConstEval(dir string, e ast.Expr, depth int) (constant.Value, error) {
	if depth > 8 {
		return nil, fmt.Errorf("constant expression too deep")
	}
	switch x := e.(type) {
	case *ast.BasicLit:
		return constant.MakeFromLiteral(x.Value, x.Kind, 0), nil
	case *ast.ParenExpr:
		return pkgConstEval(dir, x.X, depth+1)
	case *ast.Ident:
		def, err := pkgConstDecl(dir, x.Name)
		if err != nil {
			return nil, err
		}
		return pkgConstEval(dir, def, depth+1)
	case *ast.BinaryExpr:
		a, err := pkgConstEval(dir, x.X, depth+1)
		if err != nil {
			return nil, err
		}
		b, err := pkgConstEval(dir, x.Y, depth+1)
		if err != nil {
			return nil, err
		}
		switch x.Op {
		case token.SHL, token.SHR:
			s, ok := constant.Uint64Val(b)
			if !ok || s > 64 {
				return nil, fmt.Errorf("unsupported shift count")
			}
			return constant.Shift(a, x.Op, uint(s)), nil
		case token.ADD, token.SUB, token.MUL:
			return constant.BinaryOp(a, x.Op, b), nil
		case token.QUO:
			if constant.Sign(b) == 0 {
				return nil, fmt.Errorf("division by zero")
			}
			return constant.BinaryOp(a, token.QUO_ASSIGN, b), nil // integer division
		}
		return nil, fmt.Errorf("unsupported operator %s in limit expression", x.Op)
	case *ast.CallExpr: // conversions like uint32(x)
		if id, ok := x.Fun.(*ast.Ident); ok && len(x.Args) == 1 {
			switch id.Name {
			case "uint32", "uint64", "int", "int64", "uint":
				return pkgConstEval(dir, x.Args[0], depth+1)
			}
		}
	}
	return nil, fmt.Errorf("limit argument is not a constant expression the translator understands (%T)", e)
}

// pkgConstDecl finds the initialiser of the package-level CONSTANT `name` in `dir`.
func pkgConstDecl(dir, name string) (ast.Expr, error) {
	files, err := pkgFiles(dir)
	if err != nil {
		return nil, err
	}
	for _, f := range files {
		for _, d := range f.Decls {
			gd, ok := d.(*ast.GenDecl)
			if !ok || gd.Tok != token.CONST {
				continue
			}
			for _, s := range gd.Specs {
				vs := s.(*ast.ValueSpec)
				for i, n := range vs.Names {
					if n.Name == name && i < len(vs.Values) {
						return vs.Values[i], nil
					}
				}
			}
		}
	}
	return nil, fmt.Errorf("%s: %s is not a package-level constant with an initialiser", dir, name)
}

type namedFile struct {
	name string
	*ast.File
}

func pkgFilesNamed(dir string) ([]namedFile, error) {
	ents, err := os.ReadDir(filepath.Join(repo, dir))
	if err != nil {
		return nil, err
	}
	var out []namedFile
	for _, e := range ents {
		n := e.Name()
		if e.IsDir() || !strings.HasSuffix(n, ".go") || strings.HasSuffix(n, "_test.go") {
			continue
		}
		f, err := parser.ParseFile(token.NewFileSet(), filepath.Join(repo, dir, n), nil, 0)
		if err != nil {
			return nil, err
		}
		out = append(out, namedFile{n, f})
	}
	sort.Slice(out, func(i, j int) bool { return out[i].name < out[j].name })
	return out, nil
}

func pkgFiles(dir string) ([]*ast.File, error) {
	nf, err := pkgFilesNamed(dir)
	if err != nil {
		return nil, err
	}
	out := make([]*ast.File, len(nf))
	for i := range nf {
		out[i] = nf[i].File
	}
	return out, nil
}

// isNewSession recognises `stream_packet.NewSession(a, b)` (package imported under any name
// ending in the path stream/packet).
func isNewSession(f *ast.File, c *ast.CallExpr) bool {
	sel, ok := c.Fun.(*ast.SelectorExpr)
	if !ok || sel.Sel.Name != "NewSession" {
		return false
	}
	id, ok := sel.X.(*ast.Ident)
	if !ok {
		return false
	}
	for _, im := range f.Imports {
		if strings.Trim(im.Path.Value, `"`) != "github.com/aperturerobotics/bifrost/stream/packet" {
			continue
		}
		name := "stream_packet"
		if im.Name != nil {
			name = im.Name.Name
		}
		if name == id.Name {
			return true
		}
	}
	return false
}

// shadowedIdent returns an identifier used in e that the function declares itself (parameter,
// receiver, := or var/const statement): such a name is not the package-level constant.
func shadowedIdent(fd *ast.FuncDecl, e ast.Expr) string {
	used := map[string]bool{}
	ast.Inspect(e, func(n ast.Node) bool {
		if id, ok := n.(*ast.Ident); ok {
			used[id.Name] = true
		}
		return true
	})
	res := ""
	check := func(id *ast.Ident) {
		if id != nil && used[id.Name] {
			switch id.Name {
			case "uint32", "uint64", "int", "int64", "uint":
			default:
				res = id.Name
			}
		}
	}
	fields := func(fl *ast.FieldList) {
		if fl == nil {
			return
		}
		for _, f := range fl.List {
			for _, n := range f.Names {
				check(n)
			}
		}
	}
	fields(fd.Recv)
	fields(fd.Type.Params)
	fields(fd.Type.Results)
	ast.Inspect(fd.Body, func(n ast.Node) bool {
		switch x := n.(type) {
		case *ast.AssignStmt:
			if x.Tok == token.DEFINE {
				for _, l := range x.Lhs {
					if id, ok := l.(*ast.Ident); ok {
						check(id)
					}
				}
			}
		case *ast.ValueSpec:
			for _, id := range x.Names {
				check(id)
			}
		case *ast.RangeStmt:
			if x.Tok == token.DEFINE {
				if id, ok := x.Key.(*ast.Ident); ok {
					check(id)
				}
				if id, ok := x.Value.(*ast.Ident); ok {
					check(id)
				}
			}
		}
		return true
	})
	return res
}

// sessionLimits extracts the limit argument of every NewSession call of the packages concerned.
func sessionLimits() (map[string]string, error) {
	out := map[string]string{}
	byDir := map[string][]sessionSite{}
	var dirs []string
	for _, s := range sessionSites {
		if _, ok := byDir[s.dir]; !ok {
			dirs = append(dirs, s.dir)
		}
		byDir[s.dir] = append(byDir[s.dir], s)
	}
	for _, dir := range dirs {
		files, err := pkgFilesNamed(dir)
		if err != nil {
			return nil, err
		}
		found := 0
		for _, f := range files {
			for _, d := range f.Decls {
				fd, ok := d.(*ast.FuncDecl)
				if !ok || fd.Body == nil {
					continue
				}
				var ferr error
				ast.Inspect(fd.Body, func(n ast.Node) bool {
					c, ok := n.(*ast.CallExpr)
					if !ok || !isNewSession(f.File, c) {
						return true
					}
					found++
					var site *sessionSite
					for i := range byDir[dir] {
						s := &byDir[dir][i]
						if s.file == f.name && s.fn == fd.Name.Name {
							site = s
						}
					}
					if site == nil {
						ferr = fmt.Errorf("%s/%s: unexpected stream_packet.NewSession call in %s (its size limit is not covered by a theorem)", dir, f.name, fd.Name.Name)
						return false
					}
					if _, dup := out[site.lean]; dup {
						ferr = fmt.Errorf("%s/%s: more than one stream_packet.NewSession call in %s", dir, f.name, fd.Name.Name)
						return false
					}
					if len(c.Args) != 2 {
						ferr = fmt.Errorf("%s/%s: NewSession call with %d arguments", dir, f.name, len(c.Args))
						return false
					}
					if name := shadowedIdent(fd, c.Args[1]); name != "" {
						ferr = fmt.Errorf("%s/%s %s: %s in the limit argument is declared locally (not the package constant)", dir, f.name, fd.Name.Name, name)
						return false
					}
					v, err := pkgConstEval(dir, c.Args[1], 0)
					if err != nil {
						ferr = fmt.Errorf("%s/%s %s: %v", dir, f.name, fd.Name.Name, err)
						return false
					}
					if v.Kind() != constant.Int || constant.Sign(v) < 0 {
						ferr = fmt.Errorf("%s/%s %s: session limit is not a non-negative integer constant", dir, f.name, fd.Name.Name)
						return false
					}
					out[site.lean] = v.ExactString()
					return true
				})
				if ferr != nil {
					return nil, ferr
				}
			}
		}
		if found != len(byDir[dir]) {
			return nil, fmt.Errorf("%s: expected %d stream_packet.NewSession calls, found %d", dir, len(byDir[dir]), found)
		}
	}
	return out, nil
}

func genLimits() (string, error) {
	cs := []limitConst{
		{"streamEstablishMaxPacketSize", "transport/controller/controller.go", "streamEstablishMaxPacketSize"},
		{"connPktSize", "util/rwc/conn.go", "connPktSize"},
		{"floodsubMaxMessageSize", "pubsub/floodsub/floodsub.go", "maxMessageSize"},
		{"solicitMaxMessageSize", "link/solicit/controller/controller.go", "maxMessageSize"},
	}
	cs = append(cs, extraLimits...)
	var sb strings.Builder
	sb.WriteString(header("Limits", "size limits and numeric constants"))
	for _, x := range cs {
		v, err := natConst(x.rel, x.name)
		if err != nil {
			return "", err
		}
		fmt.Fprintf(&sb, "/-- `%s` in %s -/\ndef %s : Nat := %s\n", x.name, x.rel, x.lean, v)
	}
	sl, err := sessionLimits()
	if err != nil {
		return "", err
	}
	for _, s := range sessionSites {
		fmt.Fprintf(&sb, "/-- the size limit passed to `stream_packet.NewSession` in `%s` (%s/%s), as written at the call site -/\ndef %s : Nat := %s\n", s.fn, s.dir, s.file, s.lean, sl[s.lean])
	}
	sb.WriteString(footer("Limits"))
	return sb.String(), nil
}
