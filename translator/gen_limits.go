package main

import (
	"fmt"
	"strings"
)

func init() { register("Limits", genLimits) }

type limitConst struct{ lean, rel, name string }

// extraLimits can be appended to from other gen_*.go files' init().
var extraLimits []limitConst

func genLimits() (string, error) {
	cs := []limitConst{
		{"streamEstablishMaxPacketSize", "transport/controller/controller.go", "streamEstablishMaxPacketSize"},
		{"connPktSize", "util/rwc/conn.go", "connPktSize"},
	}
	cs = append(cs, extraLimits...)
	var sb strings.Builder
	sb.WriteString(header("Limits", "size limits and numeric constants"))
	for _, x := range cs {
		v, err := natConst(x.rel, x.name)
		if err != nil {
			return "", err
		}
		fmt.Fprintf(&sb, "/-- `%s` in %s -/\ndef %s : Nat := %s\n", x.name, x.rel, x.lean, v)
	}
	sb.WriteString(footer("Limits"))
	return sb.String(), nil
}
