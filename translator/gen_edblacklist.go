package main

import (
	"fmt"
	"go/ast"
	"go/constant"
	"go/token"
	"strings"
)

func init() { register("EdBlacklist", genEdBlacklist) }

// genEdBlacklist extracts the composite literal `edBlacklist = [N][32]byte{{...},...}`.
func genEdBlacklist() (string, error) {
	rel := "util/extra25519/lo25519.go"
	_, f, err := parseFile(rel)
	if err != nil {
		return "", err
	}
	var rows [][]byte
	found := false
	for _, d := range f.Decls {
		gd, ok := d.(*ast.GenDecl)
		if !ok || gd.Tok != token.VAR {
			continue
		}
		for _, sp := range gd.Specs {
			vs := sp.(*ast.ValueSpec)
			for i, n := range vs.Names {
				if n.Name != "edBlacklist" || i >= len(vs.Values) {
					continue
				}
				cl, ok := vs.Values[i].(*ast.CompositeLit)
				if !ok {
					return "", fmt.Errorf("edBlacklist is not a composite literal")
				}
				for _, el := range cl.Elts {
					rcl, ok := el.(*ast.CompositeLit)
					if !ok {
						return "", fmt.Errorf("edBlacklist row is not a composite literal")
					}
					var row []byte
					for _, b := range rcl.Elts {
						v, err := evalConst(b)
						if err != nil {
							return "", err
						}
						u, ok := constant.Uint64Val(v)
						if !ok || u > 255 {
							return "", fmt.Errorf("edBlacklist entry is not a byte")
						}
						row = append(row, byte(u))
					}
					if len(row) != 32 {
						return "", fmt.Errorf("edBlacklist row has %d bytes", len(row))
					}
					rows = append(rows, row)
				}
				found = true
			}
		}
	}
	if !found {
		return "", fmt.Errorf("edBlacklist not found in %s", rel)
	}
	var sb strings.Builder
	sb.WriteString(header("EdBlacklist", rel))
	sb.WriteString("/-- `edBlacklist` rows, in source order. -/\ndef rows : List (List UInt8) := [\n")
	for i, r := range rows {
		sb.WriteString("  " + leanBytes(r))
		if i+1 < len(rows) {
			sb.WriteString(",")
		}
		sb.WriteString("\n")
	}
	sb.WriteString("]\n")
	sb.WriteString(footer("EdBlacklist"))
	return sb.String(), nil
}
