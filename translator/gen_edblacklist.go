package main

import (
	"fmt"
	"go/ast"
	"go/constant"
	"go/printer"
	"go/token"
	"strconv"
	"strings"
)

func init() { register("EdBlacklist", genEdBlacklist) }

// genEdBlacklist extracts the composite literal `edBlacklist = [N][32]byte{{...},...}`.
func genEdBlacklist() (string, error) {
	rel := "util/extra25519/lo25519.go"
	_, f, err := parseFile(rel)
	if err != nil {
		return "", err
	}
	var rows [][]byte
	found := false
	for _, d := range f.Decls {
		gd, ok := d.(*ast.GenDecl)
		if !ok || gd.Tok != token.VAR {
			continue
		}
		for _, sp := range gd.Specs {
			vs := sp.(*ast.ValueSpec)
			for i, n := range vs.Names {
				if n.Name != "edBlacklist" || i >= len(vs.Values) {
					continue
				}
				cl, ok := vs.Values[i].(*ast.CompositeLit)
				if !ok {
					return "", fmt.Errorf("edBlacklist is not a composite literal")
				}
				for _, el := range cl.Elts {
					rcl, ok := el.(*ast.CompositeLit)
					if !ok {
						return "", fmt.Errorf("edBlacklist row is not a composite literal")
					}
					var row []byte
					for _, b := range rcl.Elts {
						v, err := evalConst(b)
						if err != nil {
							return "", err
						}
						u, ok := constant.Uint64Val(v)
						if !ok || u > 255 {
							return "", fmt.Errorf("edBlacklist entry is not a byte")
						}
						row = append(row, byte(u))
					}
					if len(row) != 32 {
						return "", fmt.Errorf("edBlacklist row has %d bytes", len(row))
					}
					rows = append(rows, row)
				}
				found = true
			}
		}
	}
	if !found {
		return "", fmt.Errorf("edBlacklist not found in %s", rel)
	}
	var sb strings.Builder
	sb.WriteString(header("EdBlacklist", rel))
	sb.WriteString("/-- `edBlacklist` rows, in source order. -/\ndef rows : List (List UInt8) := [\n")
	for i, r := range rows {
		sb.WriteString("  " + leanBytes(r))
		if i+1 < len(rows) {
			sb.WriteString(",")
		}
		sb.WriteString("\n")
	}
	sb.WriteString("]\n")
	// statements of IsEdLowOrder / PublicKeyToCurve25519 that write through their byte-slice parameter
	// (the classifier compares "ignoring the sign bit" on a masked COPY of byte 31: an in-place
	// `ge[31] &= 0x7f` would change the caller's key)
	var writes []string
	for _, t := range []struct{ rel, fn string }{{rel, "IsEdLowOrder"}, {"util/extra25519/extra25519.go", "PublicKeyToCurve25519"}} {
		w, err := paramWrites(t.rel, t.fn)
		if err != nil {
			return "", err
		}
		writes = append(writes, w...)
	}
	sb.WriteString("\n/-- every statement of `IsEdLowOrder` / `PublicKeyToCurve25519` that writes through the function's byte-slice parameter (index / slice assignment, `++`/`--`, `copy` into it, `scrub.Scrub` of it) -/\ndef inputWrites : List String := [")
	for i, w := range writes {
		if i > 0 {
			sb.WriteString(", ")
		}
		sb.WriteString(strconv.Quote(w))
	}
	sb.WriteString("]\n")
	sb.WriteString(footer("EdBlacklist"))
	return sb.String(), nil
}

// paramWrites lists the statements of function fn (file rel) that write through its first parameter,
// which must be a byte slice (`[]byte` or a named slice type such as ed25519.PublicKey).
func paramWrites(rel, fn string) ([]string, error) {
	fset, f, err := parseFile(rel)
	if err != nil {
		return nil, err
	}
	var fd *ast.FuncDecl
	for _, d := range f.Decls {
		if x, ok := d.(*ast.FuncDecl); ok && x.Recv == nil && x.Name.Name == fn {
			fd = x
		}
	}
	if fd == nil || fd.Body == nil || fd.Type.Params == nil || len(fd.Type.Params.List) != 1 || len(fd.Type.Params.List[0].Names) != 1 {
		return nil, fmt.Errorf("%s: function %s with exactly one parameter not found", rel, fn)
	}
	param := fd.Type.Params.List[0].Names[0].Name
	show := func(n ast.Node) string {
		var sb strings.Builder
		_ = printer.Fprint(&sb, fset, n)
		return fn + ": " + strings.Join(strings.Fields(sb.String()), " ")
	}
	// base strips index / slice / paren / star expressions: ge[31], ge[:4][0], (*p)[1]
	var base func(e ast.Expr) string
	base = func(e ast.Expr) string {
		switch x := e.(type) {
		case *ast.IndexExpr:
			return base(x.X)
		case *ast.SliceExpr:
			return base(x.X)
		case *ast.ParenExpr:
			return base(x.X)
		case *ast.StarExpr:
			return base(x.X)
		case *ast.Ident:
			return x.Name
		}
		return ""
	}
	var out []string
	var bad error
	ast.Inspect(fd.Body, func(n ast.Node) bool {
		switch x := n.(type) {
		case *ast.AssignStmt:
			for _, l := range x.Lhs {
				if _, isIdent := l.(*ast.Ident); !isIdent && base(l) == param {
					out = append(out, show(x))
				}
			}
			// an alias of the parameter (`b := ge`, `p := ge[:]`) would hide later writes: refuse the shape
			for i, r := range x.Rhs {
				if base(r) == param {
					if _, isIdx := r.(*ast.IndexExpr); !isIdx && i < len(x.Lhs) {
						bad = fmt.Errorf("%s: %s aliases its parameter %s (%s): unsupported shape", rel, fn, param, show(x))
					}
				}
			}
		case *ast.IncDecStmt:
			if base(x.X) == param {
				out = append(out, show(x))
			}
		case *ast.RangeStmt:
			if x.Key != nil && base(x.Key) == param || x.Value != nil && base(x.Value) == param {
				out = append(out, show(x.Key))
			}
		case *ast.CallExpr:
			name := ""
			switch c := x.Fun.(type) {
			case *ast.Ident:
				name = c.Name
			case *ast.SelectorExpr:
				name = c.Sel.Name
			}
			if (name == "copy" || name == "Scrub" || name == "clear") && len(x.Args) > 0 && base(x.Args[0]) == param {
				out = append(out, show(x))
			}
		}
		return true
	})
	if bad != nil {
		return nil, bad
	}
	return out, nil
}
