package main

import (
	"fmt"
	"go/ast"
	"go/constant"
	"go/token"
	"strconv"
	"strings"
)

func init() { register("Tls", genTls) }

// intSliceLit evaluates a composite literal `[]int{a, b, …}`.
func intSliceLit(e ast.Expr) ([]uint64, error) {
	cl, ok := e.(*ast.CompositeLit)
	if !ok {
		return nil, fmt.Errorf("expected a []int composite literal, got %T", e)
	}
	at, ok := cl.Type.(*ast.ArrayType)
	if !ok || at.Len != nil {
		return nil, fmt.Errorf("expected a slice literal")
	}
	if id, ok := at.Elt.(*ast.Ident); !ok || id.Name != "int" {
		return nil, fmt.Errorf("expected element type int")
	}
	var out []uint64
	for _, el := range cl.Elts {
		v, err := evalConst(el)
		if err != nil {
			return nil, err
		}
		u, ok := constant.Uint64Val(v)
		if !ok {
			return nil, fmt.Errorf("OID arc is not a non-negative integer")
		}
		out = append(out, u)
	}
	return out, nil
}

func leanNats(l []uint64) string {
	s := make([]string, len(l))
	for i, x := range l {
		s[i] = strconv.FormatUint(x, 10)
	}
	return "[" + strings.Join(s, ", ") + "]"
}

// pkgVarInit returns the initialiser expression of the package-level var/const `name`.
func pkgVarInit(f *ast.File, name string) ast.Expr {
	for _, d := range f.Decls {
		gd, ok := d.(*ast.GenDecl)
		if !ok || (gd.Tok != token.VAR && gd.Tok != token.CONST) {
			continue
		}
		for _, sp := range gd.Specs {
			vs := sp.(*ast.ValueSpec)
			for i, n := range vs.Names {
				if n.Name == name && i < len(vs.Values) {
					return vs.Values[i]
				}
			}
		}
	}
	return nil
}

// genTls extracts, from crypto/tls:
//   - const certificatePrefix (tls.go)
//   - var extensionPrefix = []int{…} (extension.go)
//   - var extensionID = getPrefixedExtensionID([]int{…}) (tls.go), after checking that
//     getPrefixedExtensionID is `return append(extensionPrefix, suffix...)`.
func genTls() (string, error) {
	relT, relE := "crypto/tls/tls.go", "crypto/tls/extension.go"
	pfx, err := strConst(relT, "certificatePrefix")
	if err != nil {
		return "", err
	}
	_, fe, err := parseFile(relE)
	if err != nil {
		return "", err
	}
	_, ft, err := parseFile(relT)
	if err != nil {
		return "", err
	}
	pe := pkgVarInit(fe, "extensionPrefix")
	if pe == nil {
		return "", fmt.Errorf("%s: extensionPrefix not found", relE)
	}
	prefix, err := intSliceLit(pe)
	if err != nil {
		return "", fmt.Errorf("extensionPrefix: %v", err)
	}
	// shape of getPrefixedExtensionID
	okShape := false
	for _, d := range fe.Decls {
		fd, ok := d.(*ast.FuncDecl)
		if !ok || fd.Name.Name != "getPrefixedExtensionID" || fd.Body == nil {
			continue
		}
		if len(fd.Type.Params.List) != 1 || len(fd.Type.Params.List[0].Names) != 1 || len(fd.Body.List) != 1 {
			break
		}
		param := fd.Type.Params.List[0].Names[0].Name
		rs, ok := fd.Body.List[0].(*ast.ReturnStmt)
		if !ok || len(rs.Results) != 1 {
			break
		}
		ce, ok := rs.Results[0].(*ast.CallExpr)
		if !ok || len(ce.Args) != 2 || !ce.Ellipsis.IsValid() {
			break
		}
		fn, ok1 := ce.Fun.(*ast.Ident)
		a0, ok2 := ce.Args[0].(*ast.Ident)
		a1, ok3 := ce.Args[1].(*ast.Ident)
		if ok1 && ok2 && ok3 && fn.Name == "append" && a0.Name == "extensionPrefix" && a1.Name == param {
			okShape = true
		}
	}
	if !okShape {
		return "", fmt.Errorf("%s: getPrefixedExtensionID is not `return append(extensionPrefix, suffix...)`", relE)
	}
	ie := pkgVarInit(ft, "extensionID")
	if ie == nil {
		return "", fmt.Errorf("%s: extensionID not found", relT)
	}
	call, ok := ie.(*ast.CallExpr)
	if !ok || len(call.Args) != 1 {
		return "", fmt.Errorf("extensionID is not a call getPrefixedExtensionID([]int{…})")
	}
	if fn, ok := call.Fun.(*ast.Ident); !ok || fn.Name != "getPrefixedExtensionID" {
		return "", fmt.Errorf("extensionID is not a call of getPrefixedExtensionID")
	}
	suffix, err := intSliceLit(call.Args[0])
	if err != nil {
		return "", fmt.Errorf("extensionID suffix: %v", err)
	}
	var sb strings.Builder
	sb.WriteString(header("Tls", relT+", "+relE))
	fmt.Fprintf(&sb, "/-- `certificatePrefix` = %q (tls.go) -/\ndef certificatePrefix : List UInt8 := %s\n\n", pfx, leanBytes([]byte(pfx)))
	fmt.Fprintf(&sb, "/-- `extensionPrefix` (extension.go) -/\ndef extensionPrefix : List Nat := %s\n\n", leanNats(prefix))
	fmt.Fprintf(&sb, "/-- `extensionID = getPrefixedExtensionID(%s)` = `append(extensionPrefix, suffix...)` (tls.go) -/\ndef extensionID : List Nat := %s\n", leanNats(suffix), leanNats(append(append([]uint64{}, prefix...), suffix...)))
	sb.WriteString(footer("Tls"))
	return sb.String(), nil
}
