package main

// gen_directives.go regenerates two modules from /repo's AST:
//
//   Gen/Directives.lean      for every directive type named by property C37: a structure with
//                            exactly the Go struct's fields and `isEquivalent` as the conjunction
//                            of exactly the comparisons literally present in the Go IsEquivalent
//                            body (in source order).
//   Gen/DispatchConsts.lean  the protocol-ID constants the stream handlers of C34 compare against.
//
// It is a fact extractor: every AST shape it does not recognise is an error (TRANSLATE-FAIL).

import (
	"fmt"
	"go/ast"
	"go/token"
	"strings"
)

func init() {
	register("Directives", genDirectives)
	register("DispatchConsts", genDispatchConsts)
}

type dirSpec struct {
	file   string // source file
	goType string // concrete struct type
	lean   string // Lean structure name
}

var dirSpecs = []dirSpec{
	{"link/solicit/solicit.go", "solicitProtocol", "SolicitProtocol"},
	{"link/establish-link.go", "establishLinkWithPeer", "EstablishLinkWithPeer"},
	{"link/handle-mounted-stream.go", "handleMountedStream", "HandleMountedStream"},
	{"tptaddr/dial-tpt-addr.go", "dialTptAddr", "DialTptAddr"},
	{"tptaddr/lookup-tpt-addr.go", "lookupTptAddr", "LookupTptAddr"},
	{"transport/dir-lookup-transport.go", "lookupTransport", "LookupTransport"},
	{"rpc/lookup-rpc-service.go", "lookupRpcService", "LookupRpcService"},
	{"rpc/lookup-rpc-client.go", "lookupRpcClient", "LookupRpcClient"},
	{"http/dir-lookup-http-handler.go", "lookupHTTPHandler", "LookupHTTPHandler"},
	{"signaling/dir-signal-peer.go", "signalPeer", "SignalPeer"},
	{"peer/directive.go", "getPeer", "GetPeer"},
}

// Go type (as written in the source) -> kind. The kind decides the Lean type and which
// method calls are understood on a value of that type.
type dirTkind int

const (
	dirKBytes   dirTkind = iota // string, []byte, protocol.ID: compared as byte strings
	dirKPeerID                  // peer.ID (a Go string); .String() is base58
	dirKU64                     // uint64
	dirKDialer                  // *dialer.DialerOpts; .GetAddress() is the nil-safe getter
	dirKURL                     // *url.URL; .String() is net/url's serialisation (abstract)
	dirKStrView                 // result of peer.ID.String(): a byte string
)

func dirTypeString(e ast.Expr) string {
	switch x := e.(type) {
	case *ast.Ident:
		return x.Name
	case *ast.SelectorExpr:
		return dirTypeString(x.X) + "." + x.Sel.Name
	case *ast.StarExpr:
		return "*" + dirTypeString(x.X)
	case *ast.ArrayType:
		if x.Len == nil {
			return "[]" + dirTypeString(x.Elt)
		}
	}
	return fmt.Sprintf("?%T", e)
}

func dirKindOf(pkg, t string) (dirTkind, error) {
	switch t {
	case "string", "[]byte", "protocol.ID":
		return dirKBytes, nil
	case "peer.ID":
		return dirKPeerID, nil
	case "ID":
		if pkg == "peer" {
			return dirKPeerID, nil
		}
	case "uint64":
		return dirKU64, nil
	case "*dialer.DialerOpts":
		return dirKDialer, nil
	case "*url.URL":
		return dirKURL, nil
	}
	return 0, fmt.Errorf("unsupported field type %q", t)
}

func dirLeanType(k dirTkind) string {
	switch k {
	case dirKBytes, dirKPeerID:
		return "Bytes"
	case dirKU64:
		return "Nat"
	case dirKDialer:
		return "Option DialerOpts"
	case dirKURL:
		return "U"
	}
	return "?"
}

type dirField struct {
	name string
	kind dirTkind
}

type dirInfo struct {
	spec   dirSpec
	pkg    string
	fields []dirField
	hasURL bool
	cmps   [][2]string // lean (lhs over a, rhs over b)
	src    []string    // the Go comparisons, for the doc comment
}

// dirFindStruct returns the fields of `type name struct{...}`.
func dirFindStruct(f *ast.File, name string) (*ast.StructType, error) {
	for _, d := range f.Decls {
		gd, ok := d.(*ast.GenDecl)
		if !ok || gd.Tok != token.TYPE {
			continue
		}
		for _, s := range gd.Specs {
			ts := s.(*ast.TypeSpec)
			if ts.Name.Name == name {
				st, ok := ts.Type.(*ast.StructType)
				if !ok {
					return nil, fmt.Errorf("%s is not a struct", name)
				}
				return st, nil
			}
		}
	}
	return nil, fmt.Errorf("struct %s not found", name)
}

// dirMethodsOf returns the methods with receiver *name (or name).
func dirMethodsOf(f *ast.File, name string) map[string]*ast.FuncDecl {
	out := map[string]*ast.FuncDecl{}
	for _, d := range f.Decls {
		fd, ok := d.(*ast.FuncDecl)
		if !ok || fd.Recv == nil || len(fd.Recv.List) != 1 {
			continue
		}
		rt := fd.Recv.List[0].Type
		if se, ok := rt.(*ast.StarExpr); ok {
			rt = se.X
		}
		if id, ok := rt.(*ast.Ident); ok && id.Name == name {
			out[fd.Name.Name] = fd
		}
	}
	return out
}

func dirRecvName(fd *ast.FuncDecl) string {
	if len(fd.Recv.List[0].Names) == 1 {
		return fd.Recv.List[0].Names[0].Name
	}
	return ""
}

// dirGetterField: `func (d *T) G() X { return d.f }` -> f.
func dirGetterField(fd *ast.FuncDecl) (string, bool) {
	if fd.Body == nil || len(fd.Body.List) != 1 || fd.Type.Params.NumFields() != 0 {
		return "", false
	}
	rs, ok := fd.Body.List[0].(*ast.ReturnStmt)
	if !ok || len(rs.Results) != 1 {
		return "", false
	}
	se, ok := rs.Results[0].(*ast.SelectorExpr)
	if !ok {
		return "", false
	}
	id, ok := se.X.(*ast.Ident)
	if !ok || id.Name != dirRecvName(fd) {
		return "", false
	}
	return se.Sel.Name, true
}

type dirXlate struct {
	info    *dirInfo
	methods map[string]*ast.FuncDecl
	recv    string // receiver variable (this directive) -> Lean `a`
	other   string // asserted variable (other directive) -> Lean `b`
}

func (x *dirXlate) fieldKind(name string) (dirTkind, bool) {
	for _, f := range x.info.fields {
		if f.name == name {
			return f.kind, true
		}
	}
	return 0, false
}

// expr translates one side of a comparison. Returns the Lean term and its kind.
func (x *dirXlate) expr(e ast.Expr) (string, dirTkind, error) {
	switch v := e.(type) {
	case *ast.ParenExpr:
		return x.expr(v.X)
	case *ast.SelectorExpr: // d.field
		id, ok := v.X.(*ast.Ident)
		if !ok || id.Name != x.recv {
			// od.field would read a field through an interface: impossible in Go
			return "", 0, fmt.Errorf("unsupported selector %s", dirExprString(e))
		}
		k, ok := x.fieldKind(v.Sel.Name)
		if !ok {
			return "", 0, fmt.Errorf("unknown field %s", v.Sel.Name)
		}
		return "a." + v.Sel.Name, k, nil
	case *ast.CallExpr:
		// string(X)
		if id, ok := v.Fun.(*ast.Ident); ok && id.Name == "string" && len(v.Args) == 1 {
			t, k, err := x.expr(v.Args[0])
			if err != nil {
				return "", 0, err
			}
			if k != dirKBytes {
				return "", 0, fmt.Errorf("string() of a non-byte-string %s", dirExprString(e))
			}
			return t, dirKBytes, nil
		}
		se, ok := v.Fun.(*ast.SelectorExpr)
		if !ok || len(v.Args) != 0 {
			return "", 0, fmt.Errorf("unsupported call %s", dirExprString(e))
		}
		// d.Getter() / od.Getter()
		if id, ok := se.X.(*ast.Ident); ok && (id.Name == x.recv || id.Name == x.other) {
			m, ok := x.methods[se.Sel.Name]
			if !ok {
				return "", 0, fmt.Errorf("getter %s not found on %s", se.Sel.Name, x.info.spec.goType)
			}
			fn, ok := dirGetterField(m)
			if !ok {
				return "", 0, fmt.Errorf("method %s is not a plain field getter", se.Sel.Name)
			}
			k, ok := x.fieldKind(fn)
			if !ok {
				return "", 0, fmt.Errorf("getter %s returns unknown field %s", se.Sel.Name, fn)
			}
			v := "a"
			if id.Name == x.other {
				v = "b"
			}
			return v + "." + fn, k, nil
		}
		// X.Method() on a translated value
		t, k, err := x.expr(se.X)
		if err != nil {
			return "", 0, err
		}
		switch {
		case se.Sel.Name == "String" && k == dirKPeerID:
			return "B58.encode (" + t + ")", dirKStrView, nil
		case se.Sel.Name == "String" && k == dirKURL:
			return "urlString (" + t + ")", dirKStrView, nil
		case se.Sel.Name == "GetAddress" && k == dirKDialer:
			return "DialerOpts.getAddress (" + t + ")", dirKBytes, nil
		}
		return "", 0, fmt.Errorf("unsupported method %s in %s", se.Sel.Name, dirExprString(e))
	}
	return "", 0, fmt.Errorf("unsupported expression %s (%T)", dirExprString(e), e)
}

func dirExprString(e ast.Expr) string {
	switch v := e.(type) {
	case *ast.Ident:
		return v.Name
	case *ast.SelectorExpr:
		return dirExprString(v.X) + "." + v.Sel.Name
	case *ast.CallExpr:
		var as []string
		for _, a := range v.Args {
			as = append(as, dirExprString(a))
		}
		return dirExprString(v.Fun) + "(" + strings.Join(as, ", ") + ")"
	case *ast.ParenExpr:
		return "(" + dirExprString(v.X) + ")"
	case *ast.BinaryExpr:
		return dirExprString(v.X) + " " + v.Op.String() + " " + dirExprString(v.Y)
	case *ast.BasicLit:
		return v.Value
	}
	return fmt.Sprintf("<%T>", e)
}

// cmp adds one comparison `l op r` where op must be `want`.
func (x *dirXlate) cmp(e ast.Expr, want token.Token) error {
	be, ok := e.(*ast.BinaryExpr)
	if !ok || be.Op != want {
		return fmt.Errorf("expected a %s comparison, got %s", want, dirExprString(e))
	}
	l, lk, err := x.expr(be.X)
	if err != nil {
		return err
	}
	r, rk, err := x.expr(be.Y)
	if err != nil {
		return err
	}
	if lk != rk {
		return fmt.Errorf("comparison of different kinds in %s", dirExprString(e))
	}
	if lk == dirKDialer || lk == dirKURL {
		return fmt.Errorf("pointer comparison in %s", dirExprString(e))
	}
	// the left side must talk about this directive and the right about the other
	if !strings.Contains(l, "a.") || strings.Contains(l, "b.") || !strings.Contains(r, "b.") || strings.Contains(r, "a.") {
		return fmt.Errorf("comparison %s does not compare this directive (left) with the other (right)", dirExprString(e))
	}
	x.info.cmps = append(x.info.cmps, [2]string{l, r})
	x.info.src = append(x.info.src, dirExprString(e))
	return nil
}

// conj splits `A == B && C == D && …`.
func (x *dirXlate) conj(e ast.Expr) error {
	if pe, ok := e.(*ast.ParenExpr); ok {
		return x.conj(pe.X)
	}
	if be, ok := e.(*ast.BinaryExpr); ok && be.Op == token.LAND {
		if err := x.conj(be.X); err != nil {
			return err
		}
		return x.conj(be.Y)
	}
	return x.cmp(e, token.EQL)
}

func dirIsIdent(e ast.Expr, name string) bool {
	id, ok := e.(*ast.Ident)
	return ok && id.Name == name
}

func dirReturnsBool(s ast.Stmt, val string) bool {
	rs, ok := s.(*ast.ReturnStmt)
	return ok && len(rs.Results) == 1 && dirIsIdent(rs.Results[0], val)
}

func (x *dirXlate) body(fd *ast.FuncDecl) error {
	if fd.Type.Params.NumFields() != 1 || len(fd.Type.Params.List[0].Names) != 1 {
		return fmt.Errorf("IsEquivalent has an unexpected signature")
	}
	param := fd.Type.Params.List[0].Names[0].Name
	x.recv = dirRecvName(fd)
	st := fd.Body.List
	if len(st) < 3 {
		return fmt.Errorf("IsEquivalent body too short")
	}
	// od, ok := other.(Iface)
	as, ok := st[0].(*ast.AssignStmt)
	if !ok || as.Tok != token.DEFINE || len(as.Lhs) != 2 || len(as.Rhs) != 1 {
		return fmt.Errorf("IsEquivalent does not start with a type assertion")
	}
	ta, ok := as.Rhs[0].(*ast.TypeAssertExpr)
	if !ok || !dirIsIdent(ta.X, param) {
		return fmt.Errorf("IsEquivalent does not start with a type assertion of its argument")
	}
	x.other = as.Lhs[0].(*ast.Ident).Name
	okName := as.Lhs[1].(*ast.Ident).Name
	// if !ok { return false }
	is, ok := st[1].(*ast.IfStmt)
	if !ok || is.Init != nil || is.Else != nil || len(is.Body.List) != 1 || !dirReturnsBool(is.Body.List[0], "false") {
		return fmt.Errorf("IsEquivalent: expected `if !ok { return false }`")
	}
	ue, ok := is.Cond.(*ast.UnaryExpr)
	if !ok || ue.Op != token.NOT || !dirIsIdent(ue.X, okName) {
		return fmt.Errorf("IsEquivalent: expected `if !ok { return false }`")
	}
	for i, s := range st[2:] {
		last := i == len(st)-3
		switch v := s.(type) {
		case *ast.IfStmt: // if A != B { return false }
			if v.Init != nil || v.Else != nil || len(v.Body.List) != 1 || !dirReturnsBool(v.Body.List[0], "false") {
				return fmt.Errorf("IsEquivalent: unsupported if statement")
			}
			if err := x.cmp(v.Cond, token.NEQ); err != nil {
				return err
			}
		case *ast.ReturnStmt:
			if !last || len(v.Results) != 1 {
				return fmt.Errorf("IsEquivalent: unexpected return")
			}
			if dirIsIdent(v.Results[0], "true") {
				continue
			}
			if err := x.conj(v.Results[0]); err != nil {
				return err
			}
		default:
			return fmt.Errorf("IsEquivalent: unsupported statement %T", s)
		}
		if last {
			if _, ok := s.(*ast.ReturnStmt); !ok {
				return fmt.Errorf("IsEquivalent does not end with a return")
			}
		}
	}
	return nil
}

func dirExtractDirective(sp dirSpec) (*dirInfo, error) {
	_, f, err := parseFile(sp.file)
	if err != nil {
		return nil, err
	}
	info := &dirInfo{spec: sp, pkg: f.Name.Name}
	st, err := dirFindStruct(f, sp.goType)
	if err != nil {
		return nil, err
	}
	for _, fl := range st.Fields.List {
		if len(fl.Names) == 0 {
			return nil, fmt.Errorf("embedded field in %s", sp.goType)
		}
		k, err := dirKindOf(info.pkg, dirTypeString(fl.Type))
		if err != nil {
			return nil, fmt.Errorf("%s: %v", sp.goType, err)
		}
		for _, n := range fl.Names {
			info.fields = append(info.fields, dirField{n.Name, k})
			if k == dirKURL {
				info.hasURL = true
			}
		}
	}
	ms := dirMethodsOf(f, sp.goType)
	ie, ok := ms["IsEquivalent"]
	if !ok {
		return nil, fmt.Errorf("%s has no IsEquivalent", sp.goType)
	}
	x := &dirXlate{info: info, methods: ms}
	if err := x.body(ie); err != nil {
		return nil, fmt.Errorf("%s (%s): %v", sp.goType, sp.file, err)
	}
	if len(info.cmps) == 0 {
		return nil, fmt.Errorf("%s: IsEquivalent compares nothing", sp.goType)
	}
	return info, nil
}

// dirCheckDialerOpts verifies the shape of dialer.DialerOpts and its nil-safe GetAddress.
func dirCheckDialerOpts() ([]string, error) {
	rel := "transport/common/dialer/dialer.pb.go"
	_, f, err := parseFile(rel)
	if err != nil {
		return nil, err
	}
	st, err := dirFindStruct(f, "DialerOpts")
	if err != nil {
		return nil, err
	}
	var fields []string
	for _, fl := range st.Fields.List {
		for _, n := range fl.Names {
			if n.Name == "unknownFields" {
				continue
			}
			t := dirTypeString(fl.Type)
			switch {
			case n.Name == "Address" && t == "string":
				fields = append(fields, "address : Bytes")
			case n.Name == "Backoff" && t == "*backoff.Backoff":
				fields = append(fields, "backoff : Nat")
			default:
				return nil, fmt.Errorf("DialerOpts has an unknown field %s %s", n.Name, t)
			}
		}
	}
	if len(fields) != 2 {
		return nil, fmt.Errorf("DialerOpts does not have exactly Address and Backoff")
	}
	m, ok := dirMethodsOf(f, "DialerOpts")["GetAddress"]
	if !ok || m.Body == nil || len(m.Body.List) != 2 {
		return nil, fmt.Errorf("DialerOpts.GetAddress has an unknown shape")
	}
	r := dirRecvName(m)
	is, ok := m.Body.List[0].(*ast.IfStmt)
	if !ok || dirExprString(is.Cond) != r+" != nil" || len(is.Body.List) != 1 {
		return nil, fmt.Errorf("DialerOpts.GetAddress has an unknown shape")
	}
	rs, ok := is.Body.List[0].(*ast.ReturnStmt)
	if !ok || len(rs.Results) != 1 || dirExprString(rs.Results[0]) != r+".Address" {
		return nil, fmt.Errorf("DialerOpts.GetAddress does not return the Address field")
	}
	rs2, ok := m.Body.List[1].(*ast.ReturnStmt)
	if !ok || len(rs2.Results) != 1 || dirExprString(rs2.Results[0]) != `""` {
		return nil, fmt.Errorf("DialerOpts.GetAddress does not return \"\" for nil")
	}
	return fields, nil
}

func genDirectives() (string, error) {
	dfields, err := dirCheckDialerOpts()
	if err != nil {
		return "", err
	}
	var sb strings.Builder
	sb.WriteString("import Bifrost.Model.Base58\n")
	sb.WriteString("-- GENERATED by /verif/translator (gen_directives.go) from the directive sources on every check run. Do not edit.\n")
	sb.WriteString("/-! Field lists and the comparisons literally present in each `IsEquivalent` body.\n")
	sb.WriteString("`string`, `[]byte`, `protocol.ID`, `peer.ID` are byte strings; `peer.ID.String()` is base58;\n")
	sb.WriteString("`(*url.URL).String()` is the abstract parameter `urlString`. -/\n")
	sb.WriteString("namespace Bifrost.Gen.Directives\nopen Bifrost\n\n")
	sb.WriteString("/-- `dialer.DialerOpts` (transport/common/dialer/dialer.pb.go); `backoff` is an opaque payload. -/\n")
	sb.WriteString("structure DialerOpts where\n")
	for _, f := range dfields {
		sb.WriteString("  " + f + "\n")
	}
	sb.WriteString("deriving DecidableEq, Repr\n\n")
	sb.WriteString("/-- `(*DialerOpts).GetAddress()`: nil-safe getter. -/\n")
	sb.WriteString("def DialerOpts.getAddress : Option DialerOpts → Bytes\n  | none => []\n  | some d => d.address\n\n")
	var names []string
	for _, sp := range dirSpecs {
		info, err := dirExtractDirective(sp)
		if err != nil {
			return "", err
		}
		names = append(names, sp.lean)
		params, tyArgs := "", ""
		if info.hasURL {
			params, tyArgs = " (U : Type)", " U"
		}
		sb.WriteString(fmt.Sprintf("/-- `%s` (%s). -/\n", sp.goType, sp.file))
		sb.WriteString(fmt.Sprintf("structure %s%s where\n", sp.lean, params))
		for _, f := range info.fields {
			sb.WriteString(fmt.Sprintf("  %s : %s\n", f.name, dirLeanType(f.kind)))
		}
		sb.WriteString("deriving DecidableEq, Repr\n\n")
		sb.WriteString("/-- Go: " + strings.Join(info.src, "  ;  ") + " -/\n")
		if info.hasURL {
			sb.WriteString(fmt.Sprintf("def %s.isEquivalent {U : Type} (urlString : U → Bytes) (a b : %s U) : Bool :=\n  ", sp.lean, sp.lean))
		} else {
			sb.WriteString(fmt.Sprintf("def %s.isEquivalent (a b : %s%s) : Bool :=\n  ", sp.lean, sp.lean, tyArgs))
		}
		var cs []string
		for _, c := range info.cmps {
			cs = append(cs, fmt.Sprintf("(%s == %s)", c[0], c[1]))
		}
		sb.WriteString(strings.Join(cs, " &&\n  "))
		sb.WriteString("\n\n")
	}
	sb.WriteString("/-- The directive types covered, in generation order. -/\n")
	sb.WriteString("def directiveNames : List String := [\"" + strings.Join(names, "\", \"") + "\"]\n")
	sb.WriteString("\nend Bifrost.Gen.Directives\n")
	return sb.String(), nil
}

// ---------------------------------------------------------------------------------------------

// stringConstOrConv finds `const|var name = "lit"` or `name = pkg.T("lit")`.
func genDispatchConsts() (string, error) {
	type c struct{ rel, goName, lean string }
	cs := []c{
		{"stream/echo/echo.go", "DefaultProtocolID", "echoDefaultProtocolID"},
		{"link/solicit/controller/controller.go", "ControlProtocolID", "solicitControlProtocolID"},
		{"link/solicit/controller/controller.go", "SolicitStreamPrefix", "solicitStreamPrefix"},
	}
	var sb strings.Builder
	sb.WriteString("-- GENERATED by /verif/translator (gen_directives.go) on every check run. Do not edit.\n")
	sb.WriteString("namespace Bifrost.Gen.DispatchConsts\n\n")
	for _, x := range cs {
		s, err := strConst(x.rel, x.goName)
		if err != nil {
			return "", err
		}
		sb.WriteString(fmt.Sprintf("/-- `%s` in %s = %q -/\n", x.goName, x.rel, s))
		sb.WriteString(fmt.Sprintf("def %s : List UInt8 := %s\n\n", x.lean, leanBytes([]byte(s))))
	}
	sb.WriteString("end Bifrost.Gen.DispatchConsts\n")
	return sb.String(), nil
}
