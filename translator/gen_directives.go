package main

// gen_directives.go regenerates two modules from /repo's AST:
//
//   Gen/Directives.lean      for every directive type named by property C37: a structure with
//                            exactly the Go struct's fields and `isEquivalent` as the conjunction
//                            of exactly the comparisons literally present in the Go IsEquivalent
//                            body (in source order).
//   Gen/DispatchConsts.lean  the protocol-ID constants the stream handlers of C34 compare against.
//
// It is a fact extractor: every AST shape it does not recognise is an error (TRANSLATE-FAIL).

import (
	"fmt"
	"go/ast"
	"go/parser"
	"go/token"
	"os"
	"path/filepath"
	"sort"
	"strings"
)

func init() {
	register("Directives", genDirectives)
	register("DispatchConsts", genDispatchConsts)
}

type dirSpec struct {
	file   string // source file
	goType string // concrete struct type
	lean   string // Lean structure name
}

var dirSpecs = []dirSpec{
	{"link/solicit/solicit.go", "solicitProtocol", "SolicitProtocol"},
	{"link/establish-link.go", "establishLinkWithPeer", "EstablishLinkWithPeer"},
	{"link/handle-mounted-stream.go", "handleMountedStream", "HandleMountedStream"},
	{"tptaddr/dial-tpt-addr.go", "dialTptAddr", "DialTptAddr"},
	{"tptaddr/lookup-tpt-addr.go", "lookupTptAddr", "LookupTptAddr"},
	{"transport/dir-lookup-transport.go", "lookupTransport", "LookupTransport"},
	{"rpc/lookup-rpc-service.go", "lookupRpcService", "LookupRpcService"},
	{"rpc/lookup-rpc-client.go", "lookupRpcClient", "LookupRpcClient"},
	{"http/dir-lookup-http-handler.go", "lookupHTTPHandler", "LookupHTTPHandler"},
	{"signaling/dir-signal-peer.go", "signalPeer", "SignalPeer"},
	{"peer/directive.go", "getPeer", "GetPeer"},
	{"signaling/dir-handle-signal-peer.go", "handleSignalPeer", "HandleSignalPeer"},
	{"pubsub/dir-build-channel-subscription.go", "buildChannelSubscription", "BuildChannelSubscription"},
	{"router/directive.go", "DiscoverRoutesWithPeerIDs", "DiscoverRoutes"},
}

// Go type (as written in the source) -> kind. The kind decides the Lean type and which
// method calls are understood on a value of that type.
type dirTkind int

const (
	dirKBytes   dirTkind = iota // string, []byte, protocol.ID: compared as byte strings
	dirKPeerID                  // peer.ID (a Go string); .String() is base58
	dirKU64                     // uint64
	dirKDialer                  // *dialer.DialerOpts; .GetAddress() is the nil-safe getter
	dirKURL                     // *url.URL; .String() is net/url's serialisation (abstract)
	dirKStrView                 // result of peer.ID.String(): a byte string
	dirKSession                 // signaling.SignalPeerSession: an interface value, compared by Go's interface ==
	dirKPrivKey                 // crypto.PrivKey: an interface value
)

// dirTypeParam: the Lean type parameter standing for an abstract Go type.
func dirTypeParam(k dirTkind) string {
	switch k {
	case dirKURL:
		return "U"
	case dirKSession:
		return "S"
	case dirKPrivKey:
		return "K"
	}
	return ""
}

func dirTypeString(e ast.Expr) string {
	switch x := e.(type) {
	case *ast.Ident:
		return x.Name
	case *ast.SelectorExpr:
		return dirTypeString(x.X) + "." + x.Sel.Name
	case *ast.StarExpr:
		return "*" + dirTypeString(x.X)
	case *ast.ArrayType:
		if x.Len == nil {
			return "[]" + dirTypeString(x.Elt)
		}
	}
	return fmt.Sprintf("?%T", e)
}

func dirKindOf(pkg, t string) (dirTkind, error) {
	switch t {
	case "string", "[]byte", "protocol.ID":
		return dirKBytes, nil
	case "peer.ID":
		return dirKPeerID, nil
	case "ID":
		if pkg == "peer" {
			return dirKPeerID, nil
		}
	case "uint64":
		return dirKU64, nil
	case "*dialer.DialerOpts":
		return dirKDialer, nil
	case "*url.URL":
		return dirKURL, nil
	case "crypto.PrivKey":
		return dirKPrivKey, nil
	case "SignalPeerSession":
		if pkg == "signaling" {
			return dirKSession, nil
		}
	}
	return 0, fmt.Errorf("unsupported field type %q", t)
}

func dirLeanType(k dirTkind) string {
	switch k {
	case dirKBytes, dirKPeerID:
		return "Bytes"
	case dirKU64:
		return "Nat"
	case dirKDialer:
		return "Option DialerOpts"
	case dirKURL, dirKSession, dirKPrivKey:
		return dirTypeParam(k)
	}
	return "?"
}

type dirField struct {
	name string
	kind dirTkind
}

type dirInfo struct {
	spec   dirSpec
	pkg    string
	fields []dirField
	hasURL bool
	cmps   [][2]string // lean (lhs over a, rhs over b)
	src    []string    // the Go comparisons, for the doc comment

	tparams []string // Lean type parameters of the structure (abstract Go types), in field order
	// the head of IsEquivalent: `od, ok := other.(X)`
	never          bool   // the body is `return false` outright: no assertion at all
	assertIface    string // X is this interface of the directive's own package
	assertConcrete bool   // X is *goType (the concrete directive type itself)
	methodNames    map[string]bool // names of all methods of the concrete type (whole package)
}

func (i *dirInfo) addTParam(k dirTkind) {
	p := dirTypeParam(k)
	if p == "" {
		return
	}
	for _, q := range i.tparams {
		if q == p {
			return
		}
	}
	i.tparams = append(i.tparams, p)
}

// dirFindStruct returns the fields of `type name struct{...}`.
func dirFindStruct(f *ast.File, name string) (*ast.StructType, error) {
	for _, d := range f.Decls {
		gd, ok := d.(*ast.GenDecl)
		if !ok || gd.Tok != token.TYPE {
			continue
		}
		for _, s := range gd.Specs {
			ts := s.(*ast.TypeSpec)
			if ts.Name.Name == name {
				st, ok := ts.Type.(*ast.StructType)
				if !ok {
					return nil, fmt.Errorf("%s is not a struct", name)
				}
				return st, nil
			}
		}
	}
	return nil, fmt.Errorf("struct %s not found", name)
}

// dirMethodsOf returns the methods with receiver *name (or name).
func dirMethodsOf(f *ast.File, name string) map[string]*ast.FuncDecl {
	out := map[string]*ast.FuncDecl{}
	for _, d := range f.Decls {
		fd, ok := d.(*ast.FuncDecl)
		if !ok || fd.Recv == nil || len(fd.Recv.List) != 1 {
			continue
		}
		rt := fd.Recv.List[0].Type
		if se, ok := rt.(*ast.StarExpr); ok {
			rt = se.X
		}
		if id, ok := rt.(*ast.Ident); ok && id.Name == name {
			out[fd.Name.Name] = fd
		}
	}
	return out
}

func dirRecvName(fd *ast.FuncDecl) string {
	if len(fd.Recv.List[0].Names) == 1 {
		return fd.Recv.List[0].Names[0].Name
	}
	return ""
}

// dirGetterField: `func (d *T) G() X { return d.f }` -> f.
func dirGetterField(fd *ast.FuncDecl) (string, bool) {
	if fd.Body == nil || len(fd.Body.List) != 1 || fd.Type.Params.NumFields() != 0 {
		return "", false
	}
	rs, ok := fd.Body.List[0].(*ast.ReturnStmt)
	if !ok || len(rs.Results) != 1 {
		return "", false
	}
	se, ok := rs.Results[0].(*ast.SelectorExpr)
	if !ok {
		return "", false
	}
	id, ok := se.X.(*ast.Ident)
	if !ok || id.Name != dirRecvName(fd) {
		return "", false
	}
	return se.Sel.Name, true
}

type dirXlate struct {
	info    *dirInfo
	methods map[string]*ast.FuncDecl
	recv    string // receiver variable (this directive) -> Lean `a`
	other   string // asserted variable (other directive) -> Lean `b`
}

func (x *dirXlate) fieldKind(name string) (dirTkind, bool) {
	for _, f := range x.info.fields {
		if f.name == name {
			return f.kind, true
		}
	}
	return 0, false
}

// expr translates one side of a comparison. Returns the Lean term and its kind.
func (x *dirXlate) expr(e ast.Expr) (string, dirTkind, error) {
	switch v := e.(type) {
	case *ast.ParenExpr:
		return x.expr(v.X)
	case *ast.SelectorExpr: // d.field
		id, ok := v.X.(*ast.Ident)
		// od.field reads a field of the other directive: possible only when the assertion is to
		// the concrete type (through an interface it does not compile)
		if !ok || (id.Name != x.recv && !(id.Name == x.other && x.info.assertConcrete)) {
			return "", 0, fmt.Errorf("unsupported selector %s", dirExprString(e))
		}
		k, ok := x.fieldKind(v.Sel.Name)
		if !ok {
			return "", 0, fmt.Errorf("unknown field %s", v.Sel.Name)
		}
		if id.Name == x.other {
			return "b." + v.Sel.Name, k, nil
		}
		return "a." + v.Sel.Name, k, nil
	case *ast.CallExpr:
		// string(X)
		if id, ok := v.Fun.(*ast.Ident); ok && id.Name == "string" && len(v.Args) == 1 {
			t, k, err := x.expr(v.Args[0])
			if err != nil {
				return "", 0, err
			}
			if k != dirKBytes {
				return "", 0, fmt.Errorf("string() of a non-byte-string %s", dirExprString(e))
			}
			return t, dirKBytes, nil
		}
		se, ok := v.Fun.(*ast.SelectorExpr)
		if !ok || len(v.Args) != 0 {
			return "", 0, fmt.Errorf("unsupported call %s", dirExprString(e))
		}
		// d.Getter() / od.Getter()
		if id, ok := se.X.(*ast.Ident); ok && (id.Name == x.recv || id.Name == x.other) {
			m, ok := x.methods[se.Sel.Name]
			if !ok {
				return "", 0, fmt.Errorf("getter %s not found on %s", se.Sel.Name, x.info.spec.goType)
			}
			fn, ok := dirGetterField(m)
			if !ok {
				return "", 0, fmt.Errorf("method %s is not a plain field getter", se.Sel.Name)
			}
			k, ok := x.fieldKind(fn)
			if !ok {
				return "", 0, fmt.Errorf("getter %s returns unknown field %s", se.Sel.Name, fn)
			}
			v := "a"
			if id.Name == x.other {
				v = "b"
			}
			return v + "." + fn, k, nil
		}
		// X.Method() on a translated value
		t, k, err := x.expr(se.X)
		if err != nil {
			return "", 0, err
		}
		switch {
		case se.Sel.Name == "String" && k == dirKPeerID:
			return "B58.encode (" + t + ")", dirKStrView, nil
		case se.Sel.Name == "String" && k == dirKURL:
			return "urlString (" + t + ")", dirKStrView, nil
		case se.Sel.Name == "GetAddress" && k == dirKDialer:
			return "DialerOpts.getAddress (" + t + ")", dirKBytes, nil
		}
		return "", 0, fmt.Errorf("unsupported method %s in %s", se.Sel.Name, dirExprString(e))
	}
	return "", 0, fmt.Errorf("unsupported expression %s (%T)", dirExprString(e), e)
}

func dirExprString(e ast.Expr) string {
	switch v := e.(type) {
	case *ast.Ident:
		return v.Name
	case *ast.SelectorExpr:
		return dirExprString(v.X) + "." + v.Sel.Name
	case *ast.CallExpr:
		var as []string
		for _, a := range v.Args {
			as = append(as, dirExprString(a))
		}
		return dirExprString(v.Fun) + "(" + strings.Join(as, ", ") + ")"
	case *ast.ParenExpr:
		return "(" + dirExprString(v.X) + ")"
	case *ast.BinaryExpr:
		return dirExprString(v.X) + " " + v.Op.String() + " " + dirExprString(v.Y)
	case *ast.BasicLit:
		return v.Value
	}
	return fmt.Sprintf("<%T>", e)
}

// cmp adds one comparison `l op r` where op must be `want`.
func (x *dirXlate) cmp(e ast.Expr, want token.Token) error {
	be, ok := e.(*ast.BinaryExpr)
	if !ok || be.Op != want {
		return fmt.Errorf("expected a %s comparison, got %s", want, dirExprString(e))
	}
	l, lk, err := x.expr(be.X)
	if err != nil {
		return err
	}
	r, rk, err := x.expr(be.Y)
	if err != nil {
		return err
	}
	if lk != rk {
		return fmt.Errorf("comparison of different kinds in %s", dirExprString(e))
	}
	if lk == dirKDialer || lk == dirKURL {
		return fmt.Errorf("pointer comparison in %s", dirExprString(e))
	}
	// dirKSession / dirKPrivKey: Go's == on interface values (identity of the dynamic value for the
	// pointer-typed implementations; the abstract type carries a decidable equality in Lean)
	// the left side must talk about this directive and the right about the other
	if !strings.Contains(l, "a.") || strings.Contains(l, "b.") || !strings.Contains(r, "b.") || strings.Contains(r, "a.") {
		return fmt.Errorf("comparison %s does not compare this directive (left) with the other (right)", dirExprString(e))
	}
	x.info.cmps = append(x.info.cmps, [2]string{l, r})
	x.info.src = append(x.info.src, dirExprString(e))
	return nil
}

// conj splits `A == B && C == D && …`.
func (x *dirXlate) conj(e ast.Expr) error {
	if pe, ok := e.(*ast.ParenExpr); ok {
		return x.conj(pe.X)
	}
	if be, ok := e.(*ast.BinaryExpr); ok && be.Op == token.LAND {
		if err := x.conj(be.X); err != nil {
			return err
		}
		return x.conj(be.Y)
	}
	return x.cmp(e, token.EQL)
}

func dirIsIdent(e ast.Expr, name string) bool {
	id, ok := e.(*ast.Ident)
	return ok && id.Name == name
}

func dirReturnsBool(s ast.Stmt, val string) bool {
	rs, ok := s.(*ast.ReturnStmt)
	return ok && len(rs.Results) == 1 && dirIsIdent(rs.Results[0], val)
}

func (x *dirXlate) body(fd *ast.FuncDecl) error {
	if fd.Type.Params.NumFields() != 1 || len(fd.Type.Params.List[0].Names) != 1 {
		return fmt.Errorf("IsEquivalent has an unexpected signature")
	}
	param := fd.Type.Params.List[0].Names[0].Name
	x.recv = dirRecvName(fd)
	st := fd.Body.List
	// `return false` and nothing else: the directive is never de-duplicated
	if len(st) == 1 && dirReturnsBool(st[0], "false") {
		x.info.never = true
		return nil
	}
	if len(st) < 3 {
		return fmt.Errorf("IsEquivalent body too short")
	}
	// od, ok := other.(Iface)
	as, ok := st[0].(*ast.AssignStmt)
	if !ok || as.Tok != token.DEFINE || len(as.Lhs) != 2 || len(as.Rhs) != 1 {
		return fmt.Errorf("IsEquivalent does not start with a type assertion")
	}
	ta, ok := as.Rhs[0].(*ast.TypeAssertExpr)
	if !ok || !dirIsIdent(ta.X, param) {
		return fmt.Errorf("IsEquivalent does not start with a type assertion of its argument")
	}
	switch t := ta.Type.(type) {
	case *ast.Ident: // an interface of the same package
		x.info.assertIface = t.Name
	case *ast.StarExpr: // the concrete type itself
		if !dirIsIdent(t.X, x.info.spec.goType) {
			return fmt.Errorf("IsEquivalent asserts a foreign concrete type %s", dirTypeString(t))
		}
		x.info.assertConcrete = true
	default:
		return fmt.Errorf("IsEquivalent asserts an unsupported type %s", dirTypeString(ta.Type))
	}
	x.other = as.Lhs[0].(*ast.Ident).Name
	okName := as.Lhs[1].(*ast.Ident).Name
	// if !ok { return false }
	is, ok := st[1].(*ast.IfStmt)
	if !ok || is.Init != nil || is.Else != nil || len(is.Body.List) != 1 || !dirReturnsBool(is.Body.List[0], "false") {
		return fmt.Errorf("IsEquivalent: expected `if !ok { return false }`")
	}
	ue, ok := is.Cond.(*ast.UnaryExpr)
	if !ok || ue.Op != token.NOT || !dirIsIdent(ue.X, okName) {
		return fmt.Errorf("IsEquivalent: expected `if !ok { return false }`")
	}
	for i, s := range st[2:] {
		last := i == len(st)-3
		switch v := s.(type) {
		case *ast.IfStmt: // if A != B { return false }
			if v.Init != nil || v.Else != nil || len(v.Body.List) != 1 || !dirReturnsBool(v.Body.List[0], "false") {
				return fmt.Errorf("IsEquivalent: unsupported if statement")
			}
			if err := x.cmp(v.Cond, token.NEQ); err != nil {
				return err
			}
		case *ast.ReturnStmt:
			if !last || len(v.Results) != 1 {
				return fmt.Errorf("IsEquivalent: unexpected return")
			}
			if dirIsIdent(v.Results[0], "true") {
				continue
			}
			if err := x.conj(v.Results[0]); err != nil {
				return err
			}
		default:
			return fmt.Errorf("IsEquivalent: unsupported statement %T", s)
		}
		if last {
			if _, ok := s.(*ast.ReturnStmt); !ok {
				return fmt.Errorf("IsEquivalent does not end with a return")
			}
		}
	}
	return nil
}

func dirExtractDirective(sp dirSpec) (*dirInfo, error) {
	_, f, err := parseFile(sp.file)
	if err != nil {
		return nil, err
	}
	info := &dirInfo{spec: sp, pkg: f.Name.Name}
	st, err := dirFindStruct(f, sp.goType)
	if err != nil {
		return nil, err
	}
	for _, fl := range st.Fields.List {
		if len(fl.Names) == 0 {
			return nil, fmt.Errorf("embedded field in %s", sp.goType)
		}
		k, err := dirKindOf(info.pkg, dirTypeString(fl.Type))
		if err != nil {
			return nil, fmt.Errorf("%s: %v", sp.goType, err)
		}
		for _, n := range fl.Names {
			info.fields = append(info.fields, dirField{n.Name, k})
			info.addTParam(k)
			if k == dirKURL {
				info.hasURL = true
			}
		}
	}
	ms := dirMethodsOf(f, sp.goType)
	ie, ok := ms["IsEquivalent"]
	if !ok {
		return nil, fmt.Errorf("%s has no IsEquivalent", sp.goType)
	}
	x := &dirXlate{info: info, methods: ms}
	if err := x.body(ie); err != nil {
		return nil, fmt.Errorf("%s (%s): %v", sp.goType, sp.file, err)
	}
	if len(info.cmps) == 0 && !info.never {
		return nil, fmt.Errorf("%s: IsEquivalent compares nothing", sp.goType)
	}
	if info.methodNames, err = dirPackageMethodNames(sp.file, sp.goType); err != nil {
		return nil, err
	}
	if info.assertIface != "" {
		if _, err := dirIfaceMethods(sp.file, info.assertIface); err != nil {
			return nil, fmt.Errorf("%s: %v", sp.goType, err)
		}
	}
	return info, nil
}

// dirPackageMethodNames: the names of all methods declared on goType anywhere in the package
// directory of rel (non-test files).
func dirPackageMethodNames(rel, goType string) (map[string]bool, error) {
	dir := filepath.Dir(filepath.Join(repo, rel))
	ents, err := os.ReadDir(dir)
	if err != nil {
		return nil, err
	}
	out := map[string]bool{}
	for _, e := range ents {
		n := e.Name()
		if e.IsDir() || !strings.HasSuffix(n, ".go") || strings.HasSuffix(n, "_test.go") {
			continue
		}
		f, err := parser.ParseFile(token.NewFileSet(), filepath.Join(dir, n), nil, 0)
		if err != nil {
			return nil, err
		}
		for m := range dirMethodsOf(f, goType) {
			out[m] = true
		}
	}
	return out, nil
}

// dirIfaceMethods: the methods of interface `name` (declared in the package directory of rel)
// beyond the embedded directive.Directive. Any other embedding is refused.
func dirIfaceMethods(rel, name string) ([]string, error) {
	dir := filepath.Dir(filepath.Join(repo, rel))
	ents, err := os.ReadDir(dir)
	if err != nil {
		return nil, err
	}
	for _, e := range ents {
		n := e.Name()
		if e.IsDir() || !strings.HasSuffix(n, ".go") || strings.HasSuffix(n, "_test.go") {
			continue
		}
		f, err := parser.ParseFile(token.NewFileSet(), filepath.Join(dir, n), nil, 0)
		if err != nil {
			return nil, err
		}
		for _, d := range f.Decls {
			gd, ok := d.(*ast.GenDecl)
			if !ok || gd.Tok != token.TYPE {
				continue
			}
			for _, s := range gd.Specs {
				ts := s.(*ast.TypeSpec)
				if ts.Name.Name != name {
					continue
				}
				it, ok := ts.Type.(*ast.InterfaceType)
				if !ok {
					return nil, fmt.Errorf("asserted type %s is not an interface", name)
				}
				var ms []string
				for _, m := range it.Methods.List {
					if len(m.Names) == 0 {
						if dirTypeString(m.Type) != "directive.Directive" {
							return nil, fmt.Errorf("interface %s embeds %s", name, dirTypeString(m.Type))
						}
						continue
					}
					for _, mn := range m.Names {
						ms = append(ms, mn.Name)
					}
				}
				if len(ms) == 0 {
					return nil, fmt.Errorf("interface %s has no methods of its own: every directive satisfies it", name)
				}
				return ms, nil
			}
		}
	}
	return nil, fmt.Errorf("interface %s not found", name)
}

// dirCheckDialerOpts verifies the shape of dialer.DialerOpts and its nil-safe GetAddress.
func dirCheckDialerOpts() ([]string, error) {
	rel := "transport/common/dialer/dialer.pb.go"
	_, f, err := parseFile(rel)
	if err != nil {
		return nil, err
	}
	st, err := dirFindStruct(f, "DialerOpts")
	if err != nil {
		return nil, err
	}
	var fields []string
	for _, fl := range st.Fields.List {
		for _, n := range fl.Names {
			if n.Name == "unknownFields" {
				continue
			}
			t := dirTypeString(fl.Type)
			switch {
			case n.Name == "Address" && t == "string":
				fields = append(fields, "address : Bytes")
			case n.Name == "Backoff" && t == "*backoff.Backoff":
				fields = append(fields, "backoff : Nat")
			default:
				return nil, fmt.Errorf("DialerOpts has an unknown field %s %s", n.Name, t)
			}
		}
	}
	if len(fields) != 2 {
		return nil, fmt.Errorf("DialerOpts does not have exactly Address and Backoff")
	}
	m, ok := dirMethodsOf(f, "DialerOpts")["GetAddress"]
	if !ok || m.Body == nil || len(m.Body.List) != 2 {
		return nil, fmt.Errorf("DialerOpts.GetAddress has an unknown shape")
	}
	r := dirRecvName(m)
	is, ok := m.Body.List[0].(*ast.IfStmt)
	if !ok || dirExprString(is.Cond) != r+" != nil" || len(is.Body.List) != 1 {
		return nil, fmt.Errorf("DialerOpts.GetAddress has an unknown shape")
	}
	rs, ok := is.Body.List[0].(*ast.ReturnStmt)
	if !ok || len(rs.Results) != 1 || dirExprString(rs.Results[0]) != r+".Address" {
		return nil, fmt.Errorf("DialerOpts.GetAddress does not return the Address field")
	}
	rs2, ok := m.Body.List[1].(*ast.ReturnStmt)
	if !ok || len(rs2.Results) != 1 || dirExprString(rs2.Results[0]) != `""` {
		return nil, fmt.Errorf("DialerOpts.GetAddress does not return \"\" for nil")
	}
	return fields, nil
}

// dirScanIsEquivalent walks the whole repository (non-test Go files; vendor / node_modules / hidden
// directories skipped) and returns every method named IsEquivalent whose single parameter is a
// directive.Directive, as "<file relative to the repo>:<receiver type>", sorted.
func dirScanIsEquivalent() ([]string, error) {
	var out []string
	fset := token.NewFileSet()
	err := filepath.WalkDir(repo, func(path string, d os.DirEntry, err error) error {
		if err != nil {
			return err
		}
		name := d.Name()
		if d.IsDir() {
			if path != repo && (strings.HasPrefix(name, ".") || name == "vendor" || name == "node_modules" || name == "testdata") {
				return filepath.SkipDir
			}
			return nil
		}
		if !strings.HasSuffix(name, ".go") || strings.HasSuffix(name, "_test.go") {
			return nil
		}
		src, err := os.ReadFile(path)
		if err != nil {
			return err
		}
		if !strings.Contains(string(src), "IsEquivalent") {
			return nil
		}
		f, err := parser.ParseFile(fset, path, src, parser.SkipObjectResolution)
		if err != nil {
			return fmt.Errorf("%s: %v", path, err)
		}
		for _, decl := range f.Decls {
			fd, ok := decl.(*ast.FuncDecl)
			if !ok || fd.Recv == nil || fd.Name.Name != "IsEquivalent" || len(fd.Recv.List) != 1 {
				continue
			}
			if fd.Type.Params.NumFields() != 1 {
				continue
			}
			// directive.Directive under whatever import name
			if pt := dirTypeString(fd.Type.Params.List[0].Type); pt != "Directive" && !strings.HasSuffix(pt, ".Directive") {
				continue
			}
			rt := fd.Recv.List[0].Type
			if se, ok := rt.(*ast.StarExpr); ok {
				rt = se.X
			}
			rel, err := filepath.Rel(repo, path)
			if err != nil {
				return err
			}
			out = append(out, filepath.ToSlash(rel)+":"+dirTypeString(rt))
		}
		return nil
	})
	sort.Strings(out)
	return out, err
}

func genDirectives() (string, error) {
	dfields, err := dirCheckDialerOpts()
	if err != nil {
		return "", err
	}
	scanned, err := dirScanIsEquivalent()
	if err != nil {
		return "", err
	}
	var sb strings.Builder
	sb.WriteString("import Bifrost.Model.Base58\n")
	sb.WriteString("-- GENERATED by /verif/translator (gen_directives.go) from the directive sources on every check run. Do not edit.\n")
	sb.WriteString("/-! Field lists and the comparisons literally present in each `IsEquivalent` body.\n")
	sb.WriteString("`string`, `[]byte`, `protocol.ID`, `peer.ID` are byte strings; `peer.ID.String()` is base58;\n")
	sb.WriteString("`(*url.URL).String()` is the abstract parameter `urlString`. -/\n")
	sb.WriteString("namespace Bifrost.Gen.Directives\nopen Bifrost\n\n")
	sb.WriteString("/-- `dialer.DialerOpts` (transport/common/dialer/dialer.pb.go); `backoff` is an opaque payload. -/\n")
	sb.WriteString("structure DialerOpts where\n")
	for _, f := range dfields {
		sb.WriteString("  " + f + "\n")
	}
	sb.WriteString("deriving DecidableEq, Repr\n\n")
	sb.WriteString("/-- `(*DialerOpts).GetAddress()`: nil-safe getter. -/\n")
	sb.WriteString("def DialerOpts.getAddress : Option DialerOpts → Bytes\n  | none => []\n  | some d => d.address\n\n")
	var names []string
	var infos []*dirInfo
	allT := []string{}
	for _, sp := range dirSpecs {
		info, err := dirExtractDirective(sp)
		if err != nil {
			return "", err
		}
		infos = append(infos, info)
		names = append(names, sp.lean)
		params, tyArgs, impl := "", "", ""
		for _, t := range info.tparams {
			params += " (" + t + " : Type)"
			tyArgs += " " + t
			impl += " {" + t + " : Type}"
			if t != "U" {
				impl += " [DecidableEq " + t + "]"
			}
			seen := false
			for _, q := range allT {
				seen = seen || q == t
			}
			if !seen {
				allT = append(allT, t)
			}
		}
		sb.WriteString(fmt.Sprintf("/-- `%s` (%s). -/\n", sp.goType, sp.file))
		sb.WriteString(fmt.Sprintf("structure %s%s where\n", sp.lean, params))
		for _, f := range info.fields {
			sb.WriteString(fmt.Sprintf("  %s : %s\n", f.name, dirLeanType(f.kind)))
		}
		sb.WriteString("deriving DecidableEq, Repr\n\n")
		if info.never {
			sb.WriteString("/-- Go: the body of IsEquivalent is `return false` (never de-duplicated). -/\n")
			sb.WriteString(fmt.Sprintf("def %s.isEquivalent%s (_a _b : %s%s) : Bool :=\n  false\n\n", sp.lean, impl, sp.lean, tyArgs))
			continue
		}
		sb.WriteString("/-- Go: " + strings.Join(info.src, "  ;  ") + " -/\n")
		if info.hasURL {
			sb.WriteString(fmt.Sprintf("def %s.isEquivalent%s (urlString : U → Bytes) (a b : %s%s) : Bool :=\n  ", sp.lean, impl, sp.lean, tyArgs))
		} else {
			sb.WriteString(fmt.Sprintf("def %s.isEquivalent%s (a b : %s%s) : Bool :=\n  ", sp.lean, impl, sp.lean, tyArgs))
		}
		var cs []string
		for _, c := range info.cmps {
			cs = append(cs, fmt.Sprintf("(%s == %s)", c[0], c[1]))
		}
		sb.WriteString(strings.Join(cs, " &&\n  "))
		sb.WriteString("\n\n")
	}
	sb.WriteString("/-- The directive types covered, in generation order. -/\n")
	sb.WriteString("def directiveNames : List String := [\"" + strings.Join(names, "\", \"") + "\"]\n\n")
	var covered []string
	for _, sp := range dirSpecs {
		covered = append(covered, sp.file+":"+sp.goType)
	}
	sort.Strings(covered)
	sb.WriteString("/-- The IsEquivalent implementations translated above, as `file:receiver type`, sorted. -/\n")
	sb.WriteString("def coveredImplementations : List String := [\"" + strings.Join(covered, "\", \"") + "\"]\n\n")
	sb.WriteString("/-- EVERY method `IsEquivalent(directive.Directive)` found by walking the repository (non-test\n")
	sb.WriteString("Go files), as `file:receiver type`, sorted. -/\n")
	sb.WriteString("def scannedImplementations : List String := [\"" + strings.Join(scanned, "\", \"") + "\"]\n\n")

	// ---- across types: the type assertion at the head of each IsEquivalent ----
	sb.WriteString("/-- One constructor per directive type. -/\ninductive Kind where\n")
	for _, n := range names {
		sb.WriteString("  | " + lowerFirst(n) + "\n")
	}
	sb.WriteString("deriving DecidableEq, Repr\n\n")
	sb.WriteString("def Kind.all : List Kind := [" + joinMap(names, func(n string) string { return "." + lowerFirst(n) }) + "]\n\n")
	sb.WriteString("/-- `assertOk i j`: the type assertion `od, ok := other.(X)` at the head of the IsEquivalent of\n")
	sb.WriteString("directive type `i` can succeed on a value of directive type `j`. For an interface `X` of `i`'s\n")
	sb.WriteString("package this is decided by method NAMES (every method of `X` beyond the embedded\n")
	sb.WriteString("`directive.Directive` is the name of a method of `j`'s concrete type; signatures are not\n")
	sb.WriteString("consulted, which over-approximates success); for `X = *T` it is `i = j`; a body that is\n")
	sb.WriteString("`return false` has no assertion and the row is empty. Only the `true` entries are listed. -/\n")
	sb.WriteString("def assertOk : Kind → Kind → Bool\n")
	for i, a := range infos {
		for j, b := range infos {
			ok := false
			why := ""
			switch {
			case a.never:
			case a.assertConcrete:
				ok = i == j
				why = "*" + a.spec.goType
			default:
				ms, err := dirIfaceMethods(a.spec.file, a.assertIface)
				if err != nil {
					return "", err
				}
				ok = true
				for _, m := range ms {
					if !b.methodNames[m] {
						ok = false
					}
				}
				why = a.assertIface + " {" + strings.Join(ms, ", ") + "}"
			}
			if ok {
				sb.WriteString(fmt.Sprintf("  | .%s, .%s => true  -- %s\n", lowerFirst(a.spec.lean), lowerFirst(b.spec.lean), why))
			}
		}
	}
	sb.WriteString("  | _, _ => false\n\n")
	tp, ta := "", ""
	for _, t := range allT {
		tp += " (" + t + " : Type)"
		ta += " " + t
	}
	sb.WriteString("/-- A directive of any of the covered types. -/\n")
	sb.WriteString("inductive AnyDirective" + tp + " where\n")
	for _, in := range infos {
		args := ""
		for _, t := range in.tparams {
			args += " " + t
		}
		sb.WriteString(fmt.Sprintf("  | %s (d : %s%s)\n", lowerFirst(in.spec.lean), in.spec.lean, args))
	}
	sb.WriteString("\nnamespace AnyDirective\n")
	impl := ""
	for _, t := range allT {
		impl += " {" + t + " : Type}"
		if t != "U" {
			impl += " [DecidableEq " + t + "]"
		}
	}
	sb.WriteString("variable" + impl + "\n\n")
	sb.WriteString("def kind : AnyDirective" + ta + " → Kind\n")
	for _, in := range infos {
		sb.WriteString(fmt.Sprintf("  | .%s _ => .%s\n", lowerFirst(in.spec.lean), lowerFirst(in.spec.lean)))
	}
	sb.WriteString("\n/-- `a.IsEquivalent(b)` for directives of any two types: `false` when the type assertion fails;\n")
	sb.WriteString("the per-type comparison list when both are of the same type; and, pessimistically, `true` when\n")
	sb.WriteString("the assertion succeeds across types (the comparisons would then run on the other type's\n")
	sb.WriteString("getters, which is not modelled). -/\n")
	sb.WriteString("def isEquivalent (urlString : U → Bytes) (a b : AnyDirective" + ta + ") : Bool :=\n")
	sb.WriteString("  assertOk a.kind b.kind &&\n  match a, b with\n")
	for _, in := range infos {
		c := lowerFirst(in.spec.lean)
		if in.hasURL {
			sb.WriteString(fmt.Sprintf("  | .%s x, .%s y => %s.isEquivalent urlString x y\n", c, c, in.spec.lean))
		} else {
			sb.WriteString(fmt.Sprintf("  | .%s x, .%s y => x.isEquivalent y\n", c, c))
		}
	}
	sb.WriteString("  | _, _ => true\n\nend AnyDirective\n")
	sb.WriteString("\nend Bifrost.Gen.Directives\n")
	return sb.String(), nil
}

func lowerFirst(s string) string {
	// HTTP-style initialisms keep their case: only the first letter is lowered
	return strings.ToLower(s[:1]) + s[1:]
}

func joinMap(l []string, f func(string) string) string {
	o := make([]string, len(l))
	for i := range l {
		o[i] = f(l[i])
	}
	return strings.Join(o, ", ")
}

// ---------------------------------------------------------------------------------------------

// stringConstOrConv finds `const|var name = "lit"` or `name = pkg.T("lit")`.
func genDispatchConsts() (string, error) {
	type c struct{ rel, goName, lean string }
	cs := []c{
		{"stream/echo/echo.go", "DefaultProtocolID", "echoDefaultProtocolID"},
		{"link/solicit/controller/controller.go", "ControlProtocolID", "solicitControlProtocolID"},
		{"link/solicit/controller/controller.go", "SolicitStreamPrefix", "solicitStreamPrefix"},
	}
	var sb strings.Builder
	sb.WriteString("-- GENERATED by /verif/translator (gen_directives.go) on every check run. Do not edit.\n")
	sb.WriteString("namespace Bifrost.Gen.DispatchConsts\n\n")
	for _, x := range cs {
		s, err := strConst(x.rel, x.goName)
		if err != nil {
			return "", err
		}
		sb.WriteString(fmt.Sprintf("/-- `%s` in %s = %q -/\n", x.goName, x.rel, s))
		sb.WriteString(fmt.Sprintf("def %s : List UInt8 := %s\n\n", x.lean, leanBytes([]byte(s))))
	}
	sb.WriteString("end Bifrost.Gen.DispatchConsts\n")
	return sb.String(), nil
}
