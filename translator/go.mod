module verif/translator

go 1.23
