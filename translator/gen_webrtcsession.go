package main

import (
	"bytes"
	"fmt"
	"go/ast"
	"go/printer"
	"go/token"
	"strings"
)

func init() { register("WebRtcSession", genWebRtcSession) }

func exprString(fset *token.FileSet, e ast.Node) string {
	var b bytes.Buffer
	_ = printer.Fprint(&b, fset, e)
	return strings.Join(strings.Fields(b.String()), " ")
}

func findFunc(f *ast.File, name string) *ast.FuncDecl {
	for _, d := range f.Decls {
		if fd, ok := d.(*ast.FuncDecl); ok && fd.Name.Name == name {
			return fd
		}
	}
	return nil
}

// genWebRtcSession extracts from transport/webrtc: the signaling encryption context, the
// contexts passed to EncryptToPubKey / DecryptWithPrivKey, the body of isOfferer, how
// newSessionTracker computes the role, the peer ID and the public key, and the expected-peer
// argument executeLink passes to the Quic listen / dial calls.
func genWebRtcSession() (string, error) {
	ctx, err := strConst("transport/webrtc/signal.go", "SignalingCryptContext")
	if err != nil {
		return "", err
	}
	fset, sig, err := parseFile("transport/webrtc/signal.go")
	if err != nil {
		return "", err
	}
	// context argument of the encrypt / decrypt calls
	ctxArg := map[string]string{}
	ast.Inspect(sig, func(n ast.Node) bool {
		c, ok := n.(*ast.CallExpr)
		if !ok {
			return true
		}
		s := exprString(fset, c.Fun)
		if (s == "peer.EncryptToPubKey" || s == "peer.DecryptWithPrivKey") && len(c.Args) == 3 {
			ctxArg[s] = exprString(fset, c.Args[1])
		}
		return true
	})
	if ctxArg["peer.EncryptToPubKey"] == "" || ctxArg["peer.DecryptWithPrivKey"] == "" {
		return "", fmt.Errorf("signal.go: EncryptToPubKey / DecryptWithPrivKey calls not found")
	}
	fset2, ses, err := parseFile("transport/webrtc/session.go")
	if err != nil {
		return "", err
	}
	// isOfferer: single return statement
	iso := findFunc(ses, "isOfferer")
	if iso == nil || len(iso.Body.List) != 1 || iso.Type.Params.NumFields() != 2 {
		return "", fmt.Errorf("session.go: isOfferer has an unexpected shape")
	}
	ret, ok := iso.Body.List[0].(*ast.ReturnStmt)
	if !ok || len(ret.Results) != 1 {
		return "", fmt.Errorf("session.go: isOfferer is not a single return")
	}
	var params []string
	for _, p := range iso.Type.Params.List {
		for _, n := range p.Names {
			params = append(params, n.Name)
		}
	}
	isoBody := exprString(fset2, ret.Results[0])
	// newSessionTracker: assignments to peerID/peerPub/offerer and the struct literal
	nst := findFunc(ses, "newSessionTracker")
	if nst == nil {
		return "", fmt.Errorf("session.go: newSessionTracker not found")
	}
	assign := map[string]string{}
	fields := map[string]string{}
	ast.Inspect(nst.Body, func(n ast.Node) bool {
		switch x := n.(type) {
		case *ast.AssignStmt:
			if len(x.Rhs) == 1 {
				for _, l := range x.Lhs {
					if id, ok := l.(*ast.Ident); ok && id.Name != "_" {
						if _, dup := assign[id.Name]; !dup {
							assign[id.Name] = exprString(fset2, x.Rhs[0])
						}
					}
				}
			}
		case *ast.CompositeLit:
			if exprString(fset2, x.Type) == "sessionTracker" {
				for _, el := range x.Elts {
					if kv, ok := el.(*ast.KeyValueExpr); ok {
						fields[exprString(fset2, kv.Key)] = exprString(fset2, kv.Value)
					}
				}
			}
		}
		return true
	})
	for _, k := range []string{"key", "peerID", "peerPub", "offerer"} {
		if fields[k] == "" {
			return "", fmt.Errorf("session.go: sessionTracker literal has no field %s", k)
		}
	}
	// executeLink: last argument of the ListenSession / DialSession calls
	el := findFunc(ses, "executeLink")
	if el == nil {
		return "", fmt.Errorf("session.go: executeLink not found")
	}
	expected := map[string]string{}
	count := map[string]int{}
	ast.Inspect(el.Body, func(n ast.Node) bool {
		c, ok := n.(*ast.CallExpr)
		if !ok {
			return true
		}
		s := exprString(fset2, c.Fun)
		if (s == "transport_quic.ListenSession" || s == "transport_quic.DialSession") && len(c.Args) > 0 {
			expected[s] = exprString(fset2, c.Args[len(c.Args)-1])
			count[s]++
		}
		return true
	})
	if count["transport_quic.ListenSession"] != 1 || count["transport_quic.DialSession"] != 1 {
		return "", fmt.Errorf("session.go: executeLink does not contain exactly one ListenSession and one DialSession call")
	}
	// is s.peerID ever reassigned in the package's session.go?
	reassigned := 0
	ast.Inspect(ses, func(n ast.Node) bool {
		if as, ok := n.(*ast.AssignStmt); ok {
			for _, l := range as.Lhs {
				if se, ok := l.(*ast.SelectorExpr); ok && (se.Sel.Name == "peerID" || se.Sel.Name == "peerPub" || se.Sel.Name == "offerer") {
					if exprString(fset2, se.X) != "w" {
						reassigned++
					}
				}
			}
		}
		return true
	})
	q := func(s string) string { return "\"" + strings.ReplaceAll(strings.ReplaceAll(s, "\\", "\\\\"), "\"", "\\\"") + "\"" }
	var sb strings.Builder
	sb.WriteString(header("WebRtcSession", "transport/webrtc/signal.go, transport/webrtc/session.go"))
	fmt.Fprintf(&sb, "/-- `SignalingCryptContext` -/\ndef signalingCryptContext : List UInt8 := %s\n\n", leanBytes([]byte(ctx)))
	fmt.Fprintf(&sb, "/-- context argument of `peer.EncryptToPubKey` in `EncodeWebRtcSignal` -/\ndef encodeContextArg : String := %s\n", q(ctxArg["peer.EncryptToPubKey"]))
	fmt.Fprintf(&sb, "/-- context argument of `peer.DecryptWithPrivKey` in `DecodeWebRtcSignal` -/\ndef decodeContextArg : String := %s\n\n", q(ctxArg["peer.DecryptWithPrivKey"]))
	fmt.Fprintf(&sb, "/-- parameters and returned expression of `isOfferer` -/\ndef isOffererParams : List String := [%s]\ndef isOffererBody : String := %s\n\n", strings.Join(mapStr(params, q), ", "), q(isoBody))
	fmt.Fprintf(&sb, "/-- `newSessionTracker(peerIDStr)`: fields of the tracker and the local definitions they use -/\n")
	fmt.Fprintf(&sb, "def trackerKey : String := %s\ndef trackerPeerID : String := %s\ndef trackerPeerPub : String := %s\ndef trackerOfferer : String := %s\n", q(fields["key"]), q(fields["peerID"]), q(fields["peerPub"]), q(fields["offerer"]))
	fmt.Fprintf(&sb, "def defPeerID : String := %s\ndef defOfferer : String := %s\ndef defLocalPeerIDStr : String := %s\n\n", q(assign["peerID"]), q(assign["offerer"]), q(assign["localPeerIDStr"]))
	fmt.Fprintf(&sb, "/-- `executeLink`: the expected remote peer passed to the Quic session constructors -/\ndef listenExpectedPeer : String := %s\ndef dialExpectedPeer : String := %s\n", q(expected["transport_quic.ListenSession"]), q(expected["transport_quic.DialSession"]))
	fmt.Fprintf(&sb, "/-- number of assignments to a tracker's `peerID` / `peerPub` / `offerer` field after construction -/\ndef trackerFieldReassignments : Nat := %d\n", reassigned)
	sb.WriteString(footer("WebRtcSession"))
	return sb.String(), nil
}

func mapStr(l []string, f func(string) string) []string {
	out := make([]string, len(l))
	for i := range l {
		out[i] = f(l[i])
	}
	return out
}
