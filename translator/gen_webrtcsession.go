package main

import (
	"bytes"
	"fmt"
	"go/ast"
	"go/parser"
	"go/printer"
	"go/token"
	"os"
	"path/filepath"
	"sort"
	"strings"
)

func init() { register("WebRtcSession", genWebRtcSession) }

func exprString(fset *token.FileSet, e ast.Node) string {
	var b bytes.Buffer
	_ = printer.Fprint(&b, fset, e)
	return strings.Join(strings.Fields(b.String()), " ")
}

func findFunc(f *ast.File, name string) *ast.FuncDecl {
	for _, d := range f.Decls {
		if fd, ok := d.(*ast.FuncDecl); ok && fd.Name.Name == name {
			return fd
		}
	}
	return nil
}

// genWebRtcSession extracts from transport/webrtc: the signaling encryption context, the
// contexts passed to EncryptToPubKey / DecryptWithPrivKey, the body of isOfferer, how
// newSessionTracker computes the role, the peer ID and the public key, and the expected-peer
// argument executeLink passes to the Quic listen / dial calls.
func genWebRtcSession() (string, error) {
	ctx, err := strConst("transport/webrtc/signal.go", "SignalingCryptContext")
	if err != nil {
		return "", err
	}
	fset, sig, err := parseFile("transport/webrtc/signal.go")
	if err != nil {
		return "", err
	}
	// context argument of the encrypt / decrypt calls
	ctxArg := map[string]string{}
	ast.Inspect(sig, func(n ast.Node) bool {
		c, ok := n.(*ast.CallExpr)
		if !ok {
			return true
		}
		s := exprString(fset, c.Fun)
		if (s == "peer.EncryptToPubKey" || s == "peer.DecryptWithPrivKey") && len(c.Args) == 3 {
			ctxArg[s] = exprString(fset, c.Args[1])
		}
		return true
	})
	if ctxArg["peer.EncryptToPubKey"] == "" || ctxArg["peer.DecryptWithPrivKey"] == "" {
		return "", fmt.Errorf("signal.go: EncryptToPubKey / DecryptWithPrivKey calls not found")
	}
	fset2, ses, err := parseFile("transport/webrtc/session.go")
	if err != nil {
		return "", err
	}
	// isOfferer: single return statement
	iso := findFunc(ses, "isOfferer")
	if iso == nil || len(iso.Body.List) != 1 || iso.Type.Params.NumFields() != 2 {
		return "", fmt.Errorf("session.go: isOfferer has an unexpected shape")
	}
	ret, ok := iso.Body.List[0].(*ast.ReturnStmt)
	if !ok || len(ret.Results) != 1 {
		return "", fmt.Errorf("session.go: isOfferer is not a single return")
	}
	var params []string
	for _, p := range iso.Type.Params.List {
		for _, n := range p.Names {
			params = append(params, n.Name)
		}
	}
	isoBody := exprString(fset2, ret.Results[0])
	// newSessionTracker: assignments to peerID/peerPub/offerer and the struct literal
	nst := findFunc(ses, "newSessionTracker")
	if nst == nil {
		return "", fmt.Errorf("session.go: newSessionTracker not found")
	}
	assign := map[string]string{}
	fields := map[string]string{}
	ast.Inspect(nst.Body, func(n ast.Node) bool {
		switch x := n.(type) {
		case *ast.AssignStmt:
			if len(x.Rhs) == 1 {
				for _, l := range x.Lhs {
					if id, ok := l.(*ast.Ident); ok && id.Name != "_" {
						if _, dup := assign[id.Name]; !dup {
							assign[id.Name] = exprString(fset2, x.Rhs[0])
						}
					}
				}
			}
		case *ast.CompositeLit:
			if exprString(fset2, x.Type) == "sessionTracker" {
				for _, el := range x.Elts {
					if kv, ok := el.(*ast.KeyValueExpr); ok {
						fields[exprString(fset2, kv.Key)] = exprString(fset2, kv.Value)
					}
				}
			}
		}
		return true
	})
	for _, k := range []string{"key", "peerID", "peerPub", "offerer"} {
		if fields[k] == "" {
			return "", fmt.Errorf("session.go: sessionTracker literal has no field %s", k)
		}
	}
	// executeLink: last argument of the ListenSession / DialSession calls
	el := findFunc(ses, "executeLink")
	if el == nil {
		return "", fmt.Errorf("session.go: executeLink not found")
	}
	expected := map[string]string{}
	count := map[string]int{}
	ast.Inspect(el.Body, func(n ast.Node) bool {
		c, ok := n.(*ast.CallExpr)
		if !ok {
			return true
		}
		s := exprString(fset2, c.Fun)
		if (s == "transport_quic.ListenSession" || s == "transport_quic.DialSession") && len(c.Args) > 0 {
			expected[s] = exprString(fset2, c.Args[len(c.Args)-1])
			count[s]++
		}
		return true
	})
	if count["transport_quic.ListenSession"] != 1 || count["transport_quic.DialSession"] != 1 {
		return "", fmt.Errorf("session.go: executeLink does not contain exactly one ListenSession and one DialSession call")
	}
	// is a tracker's peerID / peerPub / offerer ever reassigned anywhere in the package?
	// (assignments through a receiver named `w` are to the transport's own fields)
	reassigned := 0
	pkgFiles, err := wrtcPackage()
	if err != nil {
		return "", err
	}
	for _, pf := range pkgFiles {
		ast.Inspect(pf.f, func(n ast.Node) bool {
			if as, ok := n.(*ast.AssignStmt); ok {
				for _, l := range as.Lhs {
					if se, ok := l.(*ast.SelectorExpr); ok && (se.Sel.Name == "peerID" || se.Sel.Name == "peerPub" || se.Sel.Name == "offerer") {
						if exprString(pf.fset, se.X) != "w" {
							reassigned++
						}
					}
				}
			}
			return true
		})
	}
	q := func(s string) string { return "\"" + strings.ReplaceAll(strings.ReplaceAll(s, "\\", "\\\\"), "\"", "\\\"") + "\"" }
	var sb strings.Builder
	sb.WriteString(header("WebRtcSession", "transport/webrtc/signal.go, session.go, handler.go, webrtc.go and a scan of the whole package"))
	fmt.Fprintf(&sb, "/-- `SignalingCryptContext` -/\ndef signalingCryptContext : List UInt8 := %s\n\n", leanBytes([]byte(ctx)))
	fmt.Fprintf(&sb, "/-- context argument of `peer.EncryptToPubKey` in `EncodeWebRtcSignal` -/\ndef encodeContextArg : String := %s\n", q(ctxArg["peer.EncryptToPubKey"]))
	fmt.Fprintf(&sb, "/-- context argument of `peer.DecryptWithPrivKey` in `DecodeWebRtcSignal` -/\ndef decodeContextArg : String := %s\n\n", q(ctxArg["peer.DecryptWithPrivKey"]))
	fmt.Fprintf(&sb, "/-- parameters and returned expression of `isOfferer` -/\ndef isOffererParams : List String := [%s]\ndef isOffererBody : String := %s\n\n", strings.Join(mapStr(params, q), ", "), q(isoBody))
	fmt.Fprintf(&sb, "/-- `newSessionTracker(peerIDStr)`: fields of the tracker and the local definitions they use -/\n")
	fmt.Fprintf(&sb, "def trackerKey : String := %s\ndef trackerPeerID : String := %s\ndef trackerPeerPub : String := %s\ndef trackerOfferer : String := %s\n", q(fields["key"]), q(fields["peerID"]), q(fields["peerPub"]), q(fields["offerer"]))
	fmt.Fprintf(&sb, "def defPeerID : String := %s\ndef defOfferer : String := %s\ndef defLocalPeerIDStr : String := %s\n\n", q(assign["peerID"]), q(assign["offerer"]), q(assign["localPeerIDStr"]))
	fmt.Fprintf(&sb, "/-- `executeLink`: the expected remote peer passed to the Quic session constructors -/\ndef listenExpectedPeer : String := %s\ndef dialExpectedPeer : String := %s\n", q(expected["transport_quic.ListenSession"]), q(expected["transport_quic.DialSession"]))
	fmt.Fprintf(&sb, "/-- number of assignments to a tracker's `peerID` / `peerPub` / `offerer` field after construction -/\ndef trackerFieldReassignments : Nat := %d\n", reassigned)
	if err := genWebRtcHandlerFacts(&sb, q); err != nil {
		return "", err
	}
	sb.WriteString(footer("WebRtcSession"))
	return sb.String(), nil
}

func mapStr(l []string, f func(string) string) []string {
	out := make([]string, len(l))
	for i := range l {
		out[i] = f(l[i])
	}
	return out
}

// ---------------------------------------------------------------------------------------------
// handler.go / webrtc.go / session.go (execute, executeXmitSignal) / whole-package scans

type wrtcFile struct {
	name  string
	fset  *token.FileSet
	f     *ast.File
	verif bool // carries a //go:build verif constraint
}

// wrtcPackage parses every non-test, non-generated file of transport/webrtc.
func wrtcPackage() ([]wrtcFile, error) {
	dir := filepath.Join(repo, "transport/webrtc")
	ents, err := os.ReadDir(dir)
	if err != nil {
		return nil, err
	}
	var out []wrtcFile
	for _, e := range ents {
		n := e.Name()
		if e.IsDir() || !strings.HasSuffix(n, ".go") || strings.HasSuffix(n, "_test.go") || strings.HasSuffix(n, ".pb.go") {
			continue
		}
		fset := token.NewFileSet()
		f, err := parser.ParseFile(fset, filepath.Join(dir, n), nil, parser.ParseComments)
		if err != nil {
			return nil, err
		}
		verif := false
		for _, cg := range f.Comments {
			if cg.Pos() < f.Package {
				for _, c := range cg.List {
					if strings.HasPrefix(c.Text, "//go:build") && strings.Contains(c.Text, "verif") && !strings.Contains(c.Text, "!verif") {
						verif = true
					}
				}
			}
		}
		out = append(out, wrtcFile{n, fset, f, verif})
	}
	return out, nil
}

// wrtcMethod finds `func (x *recv) name(...)` (or a plain function when recv == "").
func wrtcMethod(files []wrtcFile, recv, name string) (*wrtcFile, *ast.FuncDecl) {
	for i := range files {
		for _, d := range files[i].f.Decls {
			fd, ok := d.(*ast.FuncDecl)
			if !ok || fd.Name.Name != name {
				continue
			}
			if recv == "" {
				if fd.Recv == nil {
					return &files[i], fd
				}
				continue
			}
			if fd.Recv == nil || len(fd.Recv.List) != 1 {
				continue
			}
			t := fd.Recv.List[0].Type
			if se, ok := t.(*ast.StarExpr); ok {
				t = se.X
			}
			if id, ok := t.(*ast.Ident); ok && id.Name == recv {
				return &files[i], fd
			}
		}
	}
	return nil, nil
}

// wrtcCalls returns the calls in n whose callee prints as one of names.
func wrtcCalls(fset *token.FileSet, n ast.Node, names ...string) []*ast.CallExpr {
	var out []*ast.CallExpr
	ast.Inspect(n, func(x ast.Node) bool {
		if c, ok := x.(*ast.CallExpr); ok {
			s := exprString(fset, c.Fun)
			for _, nm := range names {
				if s == nm || strings.HasSuffix(s, "."+nm) {
					out = append(out, c)
				}
			}
		}
		return true
	})
	return out
}

func wrtcArgs(fset *token.FileSet, c *ast.CallExpr) []string {
	out := make([]string, len(c.Args))
	for i, a := range c.Args {
		out[i] = exprString(fset, a)
	}
	return out
}

// wrtcDefs: for every assignment / short declaration `a, b := rhs` in n, name -> list of rhs texts
// (one entry per assignment statement naming it).
func wrtcDefs(fset *token.FileSet, n ast.Node) map[string][]string {
	out := map[string][]string{}
	ast.Inspect(n, func(x ast.Node) bool {
		switch as := x.(type) {
		case *ast.AssignStmt:
			for i, l := range as.Lhs {
				id, ok := l.(*ast.Ident)
				if !ok || id.Name == "_" {
					continue
				}
				rhs := ""
				if len(as.Rhs) == len(as.Lhs) {
					rhs = exprString(fset, as.Rhs[i])
				} else if len(as.Rhs) == 1 {
					rhs = exprString(fset, as.Rhs[0])
				}
				out[id.Name] = append(out[id.Name], rhs)
			}
		case *ast.ValueSpec:
			for i, id := range as.Names {
				if i < len(as.Values) {
					out[id.Name] = append(out[id.Name], exprString(fset, as.Values[i]))
				}
			}
		}
		return true
	})
	return out
}

// wrtcReturnsErr: the block is a single `return …` whose last result is not the literal nil.
func wrtcReturnsErr(fset *token.FileSet, b *ast.BlockStmt) bool {
	if b == nil || len(b.List) != 1 {
		return false
	}
	rs, ok := b.List[0].(*ast.ReturnStmt)
	if !ok || len(rs.Results) == 0 {
		return false
	}
	return exprString(fset, rs.Results[len(rs.Results)-1]) != "nil"
}

// wrtcReturnsNothing: the block is `return nil, nil`.
func wrtcReturnsNothing(fset *token.FileSet, b *ast.BlockStmt) bool {
	if b == nil || len(b.List) != 1 {
		return false
	}
	rs, ok := b.List[0].(*ast.ReturnStmt)
	if !ok || len(rs.Results) != 2 {
		return false
	}
	return exprString(fset, rs.Results[0]) == "nil" && exprString(fset, rs.Results[1]) == "nil"
}

func one(what string, l []string) (string, error) {
	if len(l) != 1 {
		return "", fmt.Errorf("%s: expected exactly one definition, found %d (%v)", what, len(l), l)
	}
	return l[0], nil
}

func genWebRtcHandlerFacts(sb *strings.Builder, q func(string) string) error {
	files, err := wrtcPackage()
	if err != nil {
		return err
	}
	ql := func(l []string) string { return "[" + strings.Join(mapStr(l, q), ", ") + "]" }
	emit := func(doc, name, val string) {
		fmt.Fprintf(sb, "/-- %s -/\ndef %s : String := %s\n", doc, name, q(val))
	}
	emitL := func(doc, name string, val []string) {
		fmt.Fprintf(sb, "/-- %s -/\ndef %s : List String := %s\n", doc, name, ql(val))
	}
	sb.WriteString("\n/-! ### handler.go: `handleSignalPeerResolver.Resolve` -/\n\n")
	hf, res := wrtcMethod(files, "handleSignalPeerResolver", "Resolve")
	if res == nil {
		return fmt.Errorf("handler.go: handleSignalPeerResolver.Resolve not found")
	}
	if hf.name != "handler.go" {
		return fmt.Errorf("handleSignalPeerResolver.Resolve moved to %s", hf.name)
	}
	rd := wrtcDefs(hf.fset, res.Body)
	rp, err := one("Resolve: remotePeerID", rd["remotePeerID"])
	if err != nil {
		return err
	}
	rps, err := one("Resolve: remotePeerIDStr", rd["remotePeerIDStr"])
	if err != nil {
		return err
	}
	emit("`remotePeerID := …` (the only assignment to it)", "resolveRemotePeerID", rp)
	emit("`remotePeerIDStr := …` (the only assignment to it)", "resolveRemotePeerIDStr", rps)
	dec := wrtcCalls(hf.fset, res.Body, "DecodeWebRtcSignal")
	if len(dec) != 1 {
		return fmt.Errorf("Resolve: expected one DecodeWebRtcSignal call, found %d", len(dec))
	}
	emitL("arguments of the `DecodeWebRtcSignal` call", "resolveDecodeArgs", wrtcArgs(hf.fset, dec[0]))
	dataDef, err := one("Resolve: data", rd["data"])
	if err != nil {
		return err
	}
	emit("where the decoded bytes come from (`data, err := …`)", "resolveDataSource", dataDef)
	adds := wrtcCalls(hf.fset, res.Body, "addSessionTrackerRef")
	if len(adds) != 1 {
		return fmt.Errorf("Resolve: expected one addSessionTrackerRef call, found %d", len(adds))
	}
	emit("receiver and method of the tracker lookup", "resolveAddRefCallee", exprString(hf.fset, adds[0].Fun))
	emitL("arguments of the `addSessionTrackerRef` call", "resolveAddRefArgs", wrtcArgs(hf.fset, adds[0]))
	// the assignment statement that call sits in
	var addLhs []string
	ast.Inspect(res.Body, func(x ast.Node) bool {
		if as, ok := x.(*ast.AssignStmt); ok && len(as.Rhs) == 1 && as.Rhs[0] == ast.Expr(adds[0]) {
			for _, l := range as.Lhs {
				addLhs = append(addLhs, exprString(hf.fset, l))
			}
		}
		return true
	})
	emitL("left-hand side of that call's assignment", "resolveAddRefLhs", addLhs)
	emitL("every assignment to `tkr` in Resolve (right-hand sides)", "resolveTkrDefs", rd["tkr"])
	sigDef, err := one("Resolve: sig", rd["sig"])
	if err != nil {
		return err
	}
	emit("`sig, err := …` (the only assignment to it)", "resolveSigSource", sigDef)
	var sends []string
	keys := map[string]bool{}
	ast.Inspect(res.Body, func(x ast.Node) bool {
		switch v := x.(type) {
		case *ast.SendStmt:
			sends = append(sends, exprString(hf.fset, v.Chan)+" <- "+exprString(hf.fset, v.Value))
		case *ast.IndexExpr:
			if strings.HasSuffix(exprString(hf.fset, v.X), "incomingSessions") {
				keys[exprString(hf.fset, v.Index)] = true
			}
		case *ast.CallExpr:
			if id, ok := v.Fun.(*ast.Ident); ok && id.Name == "delete" && len(v.Args) == 2 && strings.HasSuffix(exprString(hf.fset, v.Args[0]), "incomingSessions") {
				keys[exprString(hf.fset, v.Args[1])] = true
			}
		}
		return true
	})
	emitL("channel sends in Resolve", "resolveSends", sends)
	var kl []string
	for k := range keys {
		kl = append(kl, k)
	}
	sort.Strings(kl)
	emitL("keys used with `incomingSessions` in Resolve", "resolveIncomingKeys", kl)

	sb.WriteString("\n/-! ### handler.go: `resolveHandleSignalPeer` -/\n\n")
	_, rh := wrtcMethod(files, "WebRTCSignalHandler", "resolveHandleSignalPeer")
	if rh == nil {
		return fmt.Errorf("handler.go: resolveHandleSignalPeer not found")
	}
	var guards []string
	for _, st := range rh.Body.List {
		if is, ok := st.(*ast.IfStmt); ok {
			if is.Init != nil || is.Else != nil {
				return fmt.Errorf("resolveHandleSignalPeer: unsupported guard shape")
			}
			// a guard may log before returning: the last statement must be `return nil, nil`
			last := &ast.BlockStmt{List: is.Body.List[len(is.Body.List)-1:]}
			if !wrtcReturnsNothing(hf.fset, last) {
				return fmt.Errorf("resolveHandleSignalPeer: a guard does not end with `return nil, nil`")
			}
			guards = append(guards, exprString(hf.fset, is.Cond))
		}
	}
	emitL("guards (each returns no resolver), in order", "handleGuards", guards)
	hd := wrtcDefs(hf.fset, rh.Body)
	for _, n := range []string{"localPeerID", "localPeerIDStr", "actualLocalPeerIDStr", "remotePeerIDStr"} {
		v, err := one("resolveHandleSignalPeer: "+n, hd[n])
		if err != nil {
			return err
		}
		emit("`"+n+" := …`", "handle"+strings.ToUpper(n[:1])+n[1:], v)
	}
	resFields := map[string]string{}
	ast.Inspect(rh.Body, func(x ast.Node) bool {
		if cl, ok := x.(*ast.CompositeLit); ok && exprString(hf.fset, cl.Type) == "handleSignalPeerResolver" {
			for _, el := range cl.Elts {
				if kv, ok := el.(*ast.KeyValueExpr); ok {
					resFields[exprString(hf.fset, kv.Key)] = exprString(hf.fset, kv.Value)
				}
			}
		}
		return true
	})
	emit("`handleSignalPeerResolver{t: …}`", "handleResolverT", resFields["t"])
	emit("`handleSignalPeerResolver{sess: …}`", "handleResolverSess", resFields["sess"])

	sb.WriteString("\n/-! ### webrtc.go: `addSessionTrackerRef` and who creates trackers -/\n\n")
	wf, ar := wrtcMethod(files, "WebRTC", "addSessionTrackerRef")
	if ar == nil {
		return fmt.Errorf("webrtc.go: addSessionTrackerRef not found")
	}
	var arParams []string
	for _, p := range ar.Type.Params.List {
		for _, n := range p.Names {
			arParams = append(arParams, n.Name)
		}
	}
	emitL("parameters", "addRefParams", arParams)
	// statement 0: parse; 1: if err != nil return err; 2: self check; 3: AddKeyRef; 4: return
	var shape []string
	for _, st := range ar.Body.List {
		switch v := st.(type) {
		case *ast.AssignStmt:
			var l []string
			for _, x := range v.Lhs {
				l = append(l, exprString(wf.fset, x))
			}
			shape = append(shape, strings.Join(l, ", ")+" := "+exprString(wf.fset, v.Rhs[0]))
		case *ast.IfStmt:
			if v.Init != nil || v.Else != nil || !wrtcReturnsErr(wf.fset, v.Body) {
				return fmt.Errorf("addSessionTrackerRef: a guard is not `if cond { return …, err }`")
			}
			shape = append(shape, "if "+exprString(wf.fset, v.Cond)+" return-error")
		case *ast.ReturnStmt:
			var l []string
			for _, x := range v.Results {
				l = append(l, exprString(wf.fset, x))
			}
			shape = append(shape, "return "+strings.Join(l, ", "))
		default:
			return fmt.Errorf("addSessionTrackerRef: unsupported statement %T", st)
		}
	}
	emitL("the body, statement by statement (guards return a non-nil error)", "addRefBody", shape)

	// package-wide scans (files carrying the verif build tag are listed separately)
	var creators, verifCreators, addRefSites, literals, fieldAssigns []string
	for i := range files {
		fl := &files[i]
		for _, d := range fl.f.Decls {
			fd, ok := d.(*ast.FuncDecl)
			if !ok || fd.Body == nil {
				continue
			}
			ast.Inspect(fd.Body, func(x ast.Node) bool {
				switch v := x.(type) {
				case *ast.CallExpr:
					s := exprString(fl.fset, v.Fun)
					for _, m := range []string{"AddKeyRef", "SetKey", "SyncKeys"} {
						if strings.HasSuffix(s, "sessionTrackers."+m) {
							creators = append(creators, fd.Name.Name+": "+s+"("+strings.Join(wrtcArgs(fl.fset, v), ", ")+")")
						}
					}
					if strings.HasSuffix(s, ".addSessionTrackerRef") {
						site := fd.Name.Name + ": " + s + "(" + strings.Join(wrtcArgs(fl.fset, v), ", ") + ")"
						if fl.verif {
							verifCreators = append(verifCreators, site)
						} else {
							addRefSites = append(addRefSites, site)
						}
					}
				case *ast.SelectorExpr:
					if v.Sel.Name == "newSessionTracker" {
						site := fd.Name.Name + ": " + exprString(fl.fset, v)
						if fl.verif {
							verifCreators = append(verifCreators, site)
						} else {
							creators = append(creators, site)
						}
					}
				case *ast.CompositeLit:
					if exprString(fl.fset, v.Type) == "sessionTracker" {
						literals = append(literals, fd.Name.Name)
					}
				case *ast.AssignStmt:
					for _, l := range v.Lhs {
						if se, ok := l.(*ast.SelectorExpr); ok {
							switch se.Sel.Name {
							case "peerID", "peerPub", "offerer", "key":
								fieldAssigns = append(fieldAssigns, fl.name+":"+fd.Name.Name+": "+exprString(fl.fset, l))
							}
						}
					}
				case *ast.IncDecStmt:
					if se, ok := v.X.(*ast.SelectorExpr); ok {
						switch se.Sel.Name {
						case "peerID", "peerPub", "offerer", "key":
							fieldAssigns = append(fieldAssigns, fl.name+":"+fd.Name.Name+": "+exprString(fl.fset, v.X))
						}
					}
				}
				return true
			})
		}
	}
	sort.Strings(creators)
	sort.Strings(addRefSites)
	sort.Strings(verifCreators)
	emitL("every place in the package (outside verif-tagged files) that adds keys to `sessionTrackers` or refers to `newSessionTracker`", "trackerCreators", creators)
	emitL("every call of `addSessionTrackerRef` outside verif-tagged files", "addRefCallSites", addRefSites)
	emitL("the same references inside verif-tagged files (hooks)", "trackerCreatorsVerif", verifCreators)
	emitL("functions containing a `sessionTracker{…}` literal", "trackerLiterals", literals)
	emitL("assignments anywhere in the package to a field named peerID / peerPub / offerer / key", "packageFieldAssignments", fieldAssigns)
	_, dp := wrtcMethod(files, "WebRTC", "DialPeer")
	if dp == nil {
		return fmt.Errorf("webrtc.go: DialPeer not found")
	}
	dpd := wrtcDefs(wf.fset, dp.Body)
	v, err := one("DialPeer: peerIDStr", dpd["peerIDStr"])
	if err != nil {
		return err
	}
	emit("`peerIDStr := …` in DialPeer (peerID is its parameter)", "dialPeerIDStr", v)

	// ---- the block list in DialPeer / GetPeerDialer ----
	// leading guards: every `if cond { return <all nil / false> }` among the top-level statements before
	// the first statement that is neither a definition nor such a guard
	leadingGuards := func(fd *ast.FuncDecl) ([]string, error) {
		var out []string
		for _, st := range fd.Body.List {
			switch v := st.(type) {
			case *ast.AssignStmt, *ast.DeclStmt:
				continue
			case *ast.IfStmt:
				if v.Init != nil || v.Else != nil || len(v.Body.List) != 1 {
					return out, nil
				}
				rs, ok := v.Body.List[0].(*ast.ReturnStmt)
				if !ok {
					return out, nil
				}
				var res []string
				for _, r := range rs.Results {
					x := exprString(wf.fset, r)
					if x != "nil" && x != "false" {
						return out, nil // not a refusal (e.g. the AllPeers branch of GetPeerDialer returns a dialer)
					}
					res = append(res, x)
				}
				out = append(out, exprString(wf.fset, v.Cond)+" => return "+strings.Join(res, ", "))
			default:
				return out, nil
			}
		}
		return out, nil
	}
	dg, err := leadingGuards(dp)
	if err != nil {
		return err
	}
	emitL("leading guards of DialPeer that return without a link and without an error", "dialGuards", dg)
	_, gpd := wrtcMethod(files, "WebRTC", "GetPeerDialer")
	if gpd == nil {
		return fmt.Errorf("webrtc.go: GetPeerDialer not found")
	}
	pg, err := leadingGuards(gpd)
	if err != nil {
		return err
	}
	if len(pg) > 1 {
		pg = pg[:1] // the `AllPeers` branch returns a dialer, later ifs are not refusals
	}
	emitL("first leading guard of GetPeerDialer that returns no dialer", "peerDialerGuards", pg)
	gv, err := one("GetPeerDialer: peerIDStr", wrtcDefs(wf.fset, gpd.Body)["peerIDStr"])
	if err != nil {
		return err
	}
	emit("`peerIDStr := …` in GetPeerDialer", "peerDialerPeerIDStr", gv)

	// ---- Resolve's deferred clean-up of incomingSessions ----
	var cleanup []string
	nDefer := 0
	for _, st := range res.Body.List {
		ds, ok := st.(*ast.DeferStmt)
		if !ok {
			continue
		}
		nDefer++
		fl, ok := ds.Call.Fun.(*ast.FuncLit)
		if !ok {
			return fmt.Errorf("Resolve: deferred call is not a function literal")
		}
		ast.Inspect(fl.Body, func(x ast.Node) bool {
			switch v := x.(type) {
			case *ast.IfStmt:
				if v.Else != nil {
					cleanup = append(cleanup, "if-else "+exprString(hf.fset, v.Cond))
				} else {
					cleanup = append(cleanup, "if "+exprString(hf.fset, v.Cond))
				}
			case *ast.ExprStmt:
				if c, ok := v.X.(*ast.CallExpr); ok {
					if _, isLit := c.Args, false; !isLit {
						hasLit := false
						for _, a := range c.Args {
							if _, ok := a.(*ast.FuncLit); ok {
								hasLit = true
							}
						}
						if !hasLit {
							cleanup = append(cleanup, exprString(hf.fset, c))
						}
					}
				}
			}
			return true
		})
	}
	if nDefer != 1 {
		return fmt.Errorf("Resolve: expected one deferred clean-up, found %d", nDefer)
	}
	emitL("Resolve's deferred function: its conditions and calls, in source order (HoldLock wrapper elided)", "resolveCleanup", cleanup)

	sb.WriteString("\n/-! ### session.go: `executeXmitSignal`, `execute`, `executeLink` -/\n\n")
	sf, xs := wrtcMethod(files, "sessionTracker", "executeXmitSignal")
	if xs == nil {
		return fmt.Errorf("session.go: executeXmitSignal not found")
	}
	enc := wrtcCalls(sf.fset, xs.Body, "EncodeWebRtcSignal")
	if len(enc) != 1 {
		return fmt.Errorf("executeXmitSignal: expected one EncodeWebRtcSignal call")
	}
	emitL("arguments of `EncodeWebRtcSignal` in executeXmitSignal", "xmitEncodeArgs", wrtcArgs(sf.fset, enc[0]))
	xd := wrtcDefs(sf.fset, xs.Body)
	me, err := one("executeXmitSignal: msgEnc", xd["msgEnc"])
	if err != nil {
		return err
	}
	emit("`msgEnc, err := …`", "xmitMsgEnc", me)
	snd := wrtcCalls(sf.fset, xs.Body, "Send")
	if len(snd) != 1 {
		return fmt.Errorf("executeXmitSignal: expected one Send call")
	}
	emit("the transmission", "xmitSend", exprString(sf.fset, snd[0]))
	_, ex := wrtcMethod(files, "sessionTracker", "execute")
	if ex == nil {
		return fmt.Errorf("session.go: execute not found")
	}
	esp := wrtcCalls(sf.fset, ex.Body, "signaling.ExSignalPeer")
	if len(esp) != 1 {
		return fmt.Errorf("execute: expected one ExSignalPeer call")
	}
	emitL("arguments of `signaling.ExSignalPeer` in execute", "exSignalPeerArgs", wrtcArgs(sf.fset, esp[0]))
	var espLhs []string
	ast.Inspect(ex.Body, func(x ast.Node) bool {
		if as, ok := x.(*ast.AssignStmt); ok && len(as.Rhs) == 1 && as.Rhs[0] == ast.Expr(esp[0]) {
			for _, l := range as.Lhs {
				espLhs = append(espLhs, exprString(sf.fset, l))
			}
		}
		return true
	})
	emitL("left-hand side of that call", "exSignalPeerLhs", espLhs)
	var outSess []string
	ast.Inspect(ex.Body, func(x ast.Node) bool {
		if cl, ok := x.(*ast.CompositeLit); ok && exprString(sf.fset, cl.Type) == "outgoingSignal" {
			for _, el := range cl.Elts {
				if kv, ok := el.(*ast.KeyValueExpr); ok && exprString(sf.fset, kv.Key) == "sess" {
					outSess = append(outSess, exprString(sf.fset, kv.Value))
				}
			}
		}
		return true
	})
	emitL("`outgoingSignal{sess: …}` in execute", "outgoingSignalSess", outSess)
	// role enforcement on incoming signals
	var reqGuard, sdpShape []string
	ast.Inspect(ex.Body, func(x ast.Node) bool {
		switch v := x.(type) {
		case *ast.CaseClause:
			if len(v.List) == 1 && exprString(sf.fset, v.List[0]) == "*WebRtcSignal_RequestOffer" && len(v.Body) > 0 {
				if is, ok := v.Body[0].(*ast.IfStmt); ok && is.Init == nil && is.Else == nil && wrtcReturnsErr(sf.fset, is.Body) {
					reqGuard = append(reqGuard, exprString(sf.fset, is.Cond))
				}
			}
		case *ast.IfStmt:
			// if s.offerer { if sdpType != "answer" {return err} } else { if sdpType != "offer" {return err} }
			eb, ok := v.Else.(*ast.BlockStmt)
			if !ok || len(v.Body.List) != 1 || len(eb.List) != 1 {
				return true
			}
			a, ok1 := v.Body.List[0].(*ast.IfStmt)
			b, ok2 := eb.List[0].(*ast.IfStmt)
			if ok1 && ok2 && wrtcReturnsErr(sf.fset, a.Body) && wrtcReturnsErr(sf.fset, b.Body) && a.Else == nil && b.Else == nil {
				sdpShape = append(sdpShape, "if "+exprString(sf.fset, v.Cond), "then reject if "+exprString(sf.fset, a.Cond), "else reject if "+exprString(sf.fset, b.Cond))
			}
		}
		return true
	})
	emitL("first statement of `case *WebRtcSignal_RequestOffer:` — the condition under which the request is refused with an error", "requestOfferRefusedIf", reqGuard)
	emitL("role enforcement on an incoming SDP", "sdpRoleEnforcement", sdpShape)
	exd := wrtcDefs(sf.fset, ex.Body)
	st, err := one("execute: sdpType", exd["sdpType"])
	if err != nil {
		return err
	}
	emit("`sdpType := …`", "sdpTypeDef", st)
	// executeLink: which branch listens and which dials; the remote address
	_, el := wrtcMethod(files, "sessionTracker", "executeLink")
	if el == nil {
		return fmt.Errorf("session.go: executeLink not found")
	}
	var linkShape []string
	ast.Inspect(el.Body, func(x ast.Node) bool {
		is, ok := x.(*ast.IfStmt)
		if !ok || is.Else == nil {
			return true
		}
		eb, ok := is.Else.(*ast.BlockStmt)
		if !ok {
			return true
		}
		l := wrtcCalls(sf.fset, is.Body, "transport_quic.ListenSession")
		d := wrtcCalls(sf.fset, eb, "transport_quic.DialSession")
		if len(l) == 1 && len(d) == 1 {
			linkShape = append(linkShape, "if "+exprString(sf.fset, is.Cond), "then ListenSession("+strings.Join(wrtcArgs(sf.fset, l[0]), ", ")+")", "else DialSession("+strings.Join(wrtcArgs(sf.fset, d[0]), ", ")+")")
		}
		return true
	})
	emitL("the Quic session construction in executeLink", "executeLinkShape", linkShape)
	eld := wrtcDefs(sf.fset, el.Body)
	ra, err := one("executeLink: remoteAddr", eld["remoteAddr"])
	if err != nil {
		return err
	}
	emit("`remoteAddr := …`", "executeLinkRemoteAddr", ra)
	nl := wrtcCalls(sf.fset, el.Body, "transport_quic.NewLink")
	if len(nl) != 1 {
		return fmt.Errorf("executeLink: expected one transport_quic.NewLink call, found %d", len(nl))
	}
	emitL("arguments of `transport_quic.NewLink` in executeLink", "newLinkArgs", wrtcArgs(sf.fset, nl[0]))
	la, err := one("executeLink: localAddr", eld["localAddr"])
	if err != nil {
		return err
	}
	emit("`localAddr := …`", "executeLinkLocalAddr", la)
	return nil
}
