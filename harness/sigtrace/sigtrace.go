// Package sigtrace converts the verif hook lines of the signaling relay server into the
// canonical trace tokens of the Lean driver (engine `sig`).
package sigtrace

import (
	"fmt"
	"sort"
	"strconv"
	"strings"
)

// Sub describes the k-th SendMsg submission made on a session stream.
type Sub struct {
	Mid    int
	Epoch  uint64
	Seqno  uint64
	V      int // 1 = the signature verifies
	Signer int // index of the signing peer
}

// Input is what the converter needs to know about the run.
type Input struct {
	Lines []string
	PidIx map[string]int                // peer id string -> index (ordered as the strings)
	Calls map[string]int                // stream pointer (%p) -> call id
	SubOf func(call, k int) (Sub, bool) // k-th SendMsg submission of a call
}

// Canonical returns (trace tokens joined by ';', last server snapshot, error description).
func Canonical(in Input) (string, string, string) {
	lastSnap := ""
	lines := in.Lines
	pidIx := in.PidIx
	calls := in.Calls
	attCall := map[string]int{}
	var toks []string
	validIdx := map[int]int{}
	kvOf := func(line, k string) string {
		i := strings.Index(line, " "+k+"=")
		if i < 0 {
			if strings.HasPrefix(line, k+"=") {
				i = -1
			} else {
				return ""
			}
		}
		rest := line[i+len(k)+2:]
		if j := strings.IndexByte(rest, ' '); j >= 0 {
			rest = rest[:j]
		}
		return rest
	}
	optU := func(s string) string { return s }
	att := func(s string) string {
		if s == "nil" {
			return "nil"
		}
		f := strings.Split(s, "/")
		c, ok := attCall[f[0]]
		cs := "?"
		if ok {
			cs = strconv.Itoa(c)
		}
		return fmt.Sprintf("%s/%s/%s/%s/%s", cs, optU(f[1]), optU(f[2]), optU(f[3]), optU(f[4]))
	}
	snap := func(line string) string {
		pi := strings.Index(line, "peers=[")
		si := strings.Index(line, "] sessions=[")
		ps := line[pi+7 : si]
		ss := strings.TrimSuffix(line[si+12:], "]")
		var pout []string
		if ps != "" {
			type pe struct {
				ix int
				s  string
			}
			var pl []pe
			for _, p := range strings.Split(ps, ",") {
				f := strings.Split(p, ":")
				ix := pidIx[f[0]]
				var wants []int
				if f[4] != "" {
					for _, x := range strings.Split(f[4], "+") {
						wants = append(wants, pidIx[x])
					}
				}
				sort.Ints(wants)
				ws := "-"
				if len(wants) > 0 {
					var t []string
					for _, x := range wants {
						t = append(t, strconv.Itoa(x))
					}
					ws = strings.Join(t, "+")
				}
				l := "0"
				if f[2] == "true" {
					l = "1"
				}
				pl = append(pl, pe{ix, fmt.Sprintf("P%d:%s:%s:%s", ix, l, f[3], ws)})
			}
			sort.Slice(pl, func(i, j int) bool { return pl[i].ix < pl[j].ix })
			for _, p := range pl {
				pout = append(pout, p.s)
			}
		}
		var sout []string
		if ss != "" {
			type se struct {
				a, b int
				s    string
			}
			var sl []se
			for _, p := range strings.Split(ss, ",") {
				f := strings.Split(p, ":")
				ab := strings.Split(f[0], "~")
				a, b := pidIx[ab[0]], pidIx[ab[1]]
				sl = append(sl, se{a, b, fmt.Sprintf("S%d~%d:%s:%s:%s", a, b, f[2], att(f[3]), att(f[4]))})
			}
			sort.Slice(sl, func(i, j int) bool { return sl[i].a < sl[j].a || (sl[i].a == sl[j].a && sl[i].b < sl[j].b) })
			for _, p := range sl {
				sout = append(sout, p.s)
			}
		}
		lastSnap = strings.Join(pout, "|") + "#" + strings.Join(sout, "|")
		return lastSnap
	}
	for _, line := range lines {
		if strings.HasPrefix(line, "TX ") {
			toks = append(toks, line[3:])
			continue
		}
		ev := kvOf(line, "ev")
		c, ok := calls[kvOf(line, "call")]
		if !ok {
			return "", lastSnap, "event for unknown call: " + line
		}
		switch ev {
		case "init":
			attCall[kvOf(line, "att")] = c
			toks = append(toks, fmt.Sprintf("init,c=%d,src=%d,dst=%d,snap=%s", c, pidIx[kvOf(line, "src")], pidIx[kvOf(line, "dst")], snap(line)))
		case "send", "sendrej":
			k := validIdx[c]
			validIdx[c] = k + 1
			sub, ok := in.SubOf(c, k)
			if !ok {
				return "", lastSnap, "send event without a submission: " + line
			}
			if ev == "send" {
				toks = append(toks, fmt.Sprintf("send,c=%d,e=%s,q=%s,m=%d,v=%d,g=%d,snap=%s", c, kvOf(line, "a"), kvOf(line, "b"), sub.Mid, sub.V, sub.Signer, snap(line)))
			} else {
				toks = append(toks, fmt.Sprintf("send,c=%d,e=%d,q=%d,m=%d,v=%d,g=%d", c, sub.Epoch, sub.Seqno, sub.Mid, sub.V, sub.Signer))
			}
		case "ack":
			toks = append(toks, fmt.Sprintf("ack,c=%d,e=%s,k=%s,snap=%s", c, kvOf(line, "a"), kvOf(line, "b"), snap(line)))
		case "clear":
			toks = append(toks, fmt.Sprintf("clear,c=%d,e=%s,k=%s,snap=%s", c, kvOf(line, "a"), kvOf(line, "b"), snap(line)))
		case "loop":
			toks = append(toks, fmt.Sprintf("loop,c=%d,snap=%s", c, snap(line)))
		case "end":
			toks = append(toks, fmt.Sprintf("end,c=%d,snap=%s", c, snap(line)))
		case "lreg", "lloop", "lusurped", "lend":
			pidS := kvOf(line, "pid")
			// is the call's tracker the current map entry?
			cur := "0"
			if strings.Contains(line, pidS+":"+kvOf(line, "tkr")+":") {
				cur = "1"
			}
			var wants []int
			if tw := kvOf(line, "tw"); tw != "" {
				for _, x := range strings.Split(tw, "+") {
					wants = append(wants, pidIx[x])
				}
			}
			sort.Ints(wants)
			ws := "-"
			if len(wants) > 0 {
				var t []string
				for _, x := range wants {
					t = append(t, strconv.Itoa(x))
				}
				ws = strings.Join(t, "+")
			}
			l := "0"
			if kvOf(line, "tl") == "true" {
				l = "1"
			}
			tk := fmt.Sprintf("%s:%s:%s:%s", l, kvOf(line, "tn"), ws, cur)
			switch ev {
			case "lreg":
				toks = append(toks, fmt.Sprintf("lreg,c=%d,pid=%d,snap=%s,tk=%s", c, pidIx[pidS], snap(line), tk))
			case "lloop":
				wi, ni := 0, 0
				if x := kvOf(line, "want"); x != "-" {
					wi = pidIx[x]
				}
				if x := kvOf(line, "notwant"); x != "-" {
					ni = pidIx[x]
				}
				toks = append(toks, fmt.Sprintf("lloop,c=%d,w=%d,nw=%d,snap=%s,tk=%s", c, wi, ni, snap(line), tk))
			case "lusurped":
				toks = append(toks, fmt.Sprintf("lusurped,c=%d,snap=%s,tk=%s", c, snap(line), tk))
			case "lend":
				toks = append(toks, fmt.Sprintf("lend,c=%d,snap=%s,tk=%s", c, snap(line), tk))
			}
		default:
			return "", lastSnap, "unknown event: " + line
		}
	}
	if len(toks) == 0 {
		return "_", lastSnap, ""
	}
	return strings.Join(toks, ";"), lastSnap, ""
}

// Facts are model-independent facts read off the real server's own hook lines (no replay):
// which calls registered, which ended, and which calls the SERVER ITSELF decided were replaced.
type Facts struct {
	InitAt        map[int]int    // session call -> index of its registration line
	LRegAt        map[int]int    // listen call -> index of its registration line
	EndAt         map[int]int    // call -> index of its cleanup line (end / lend)
	Pair          map[int][2]int // session call -> (src, dst) as registered by the server
	LPid          map[int]int    // listen call -> peer as registered by the server
	SessUsurped   map[int]bool   // a write-loop critical section of the call found another (or no) attachment on its side
	ListenUsurped map[int]bool   // the listen loop found a newer nonce (event lusurped)
	Events        map[int]int    // call -> number of hook lines
}

// ReadFacts extracts Facts from raw hook lines.
func ReadFacts(lines []string, pidIx map[string]int, calls map[string]int) Facts {
	f := Facts{InitAt: map[int]int{}, LRegAt: map[int]int{}, EndAt: map[int]int{}, Pair: map[int][2]int{}, LPid: map[int]int{},
		SessUsurped: map[int]bool{}, ListenUsurped: map[int]bool{}, Events: map[int]int{}}
	kvOf := func(line, k string) string {
		i := strings.Index(line, " "+k+"=")
		if i < 0 {
			if !strings.HasPrefix(line, k+"=") {
				return ""
			}
			i = -1
		}
		rest := line[i+len(k)+2:]
		if j := strings.IndexByte(rest, ' '); j >= 0 {
			rest = rest[:j]
		}
		return rest
	}
	for i, line := range lines {
		if strings.HasPrefix(line, "TX ") {
			continue
		}
		c, ok := calls[kvOf(line, "call")]
		if !ok {
			continue
		}
		f.Events[c]++
		switch kvOf(line, "ev") {
		case "init":
			f.InitAt[c] = i
			f.Pair[c] = [2]int{pidIx[kvOf(line, "src")], pidIx[kvOf(line, "dst")]}
		case "loop":
			// the call's own attachment vs the attachment registered on its side of the session
			side := kvOf(line, "sessB")
			if strings.Compare(kvOf(line, "src"), kvOf(line, "dst")) < 0 {
				side = kvOf(line, "sessA")
			}
			if strings.Split(side, "/")[0] != kvOf(line, "att") {
				f.SessUsurped[c] = true
			}
		case "end", "lend":
			f.EndAt[c] = i
		case "lreg":
			f.LRegAt[c] = i
			f.LPid[c] = pidIx[kvOf(line, "pid")]
		case "lusurped":
			f.ListenUsurped[c] = true
		}
	}
	return f
}
