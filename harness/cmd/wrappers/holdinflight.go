package main

// A schedule source for C33 that does NOT depend on the verif gate points of
// link/hold-open/establish_link.go (a rewrite of the acquire goroutine may move or bypass them, or
// release the handler mutex where the gates cannot see it — e.g. "do not hold mtx across
// AddReference"): the fake directive instance's AddReference(non-weak) BLOCKS. While an
// acquisition is IN FLIGHT the engine starts further HandleValueAdded / HandleValueRemoved calls
// (each in its own goroutine), waits until the Go scheduler reports that every one of them has
// either returned or is blocked (harness/quiet: load-proof), and only then lets one of the parked
// AddReference calls return — in a seeded random order when several are parked. VerifGate is nil
// throughout. The Release of a strong reference BLOCKS in the same way (whether the handler calls
// it in a goroutine of its own or synchronously, holding its mutex or not): a handler that drops
// its mutex around a synchronous Release and clears its field only afterwards misses a link that
// arrives while the release is in flight.
//
// Monitor (model independent, reads only the counters of the fake instance and the calls the
// engine itself made): at every quiescent point — every started call has returned, no
// AddReference is parked, no goroutine is runnable —
//
//	strong references outstanding (acquired − released) = 1 if a link exists, 0 otherwise,
//
// i.e. every reference ever acquired beyond the one that is owed was released. A handler that
// checks "no reference yet" under the lock but acquires and stores outside it acquires twice when
// two links arrive before the first acquisition finished; the overwritten reference is never
// released (leak after all links are gone) or two are held.

import (
	"context"
	"fmt"
	"strings"
	"sync"
	"sync/atomic"
	"time"

	"github.com/aperturerobotics/bifrost/link"
	link_holdopen_controller "github.com/aperturerobotics/bifrost/link/hold-open"
	"github.com/aperturerobotics/bifrost/peer"
	"github.com/aperturerobotics/controllerbus/directive"

	"verif/harness/lib"
	"verif/harness/quiet"
)

// blockInst is a directive.Instance whose non-weak AddReference parks until the engine lets it go.
type blockInst struct {
	directive.Instance
	dir     directive.Directive
	handler directive.ReferenceHandler

	mtx      sync.Mutex
	parked   []chan struct{} // AddReference / Release calls in flight
	relPark  int             // ... of which Release calls
	entered  int             // non-weak AddReference calls ever started
	acquired int             // ... ever returned
	released int             // non-weak references released (first Release of each)
	events   atomic.Int64    // stamp for the quiescence detector
}

type blockRef struct {
	inst     *blockInst
	weak     bool
	released atomic.Bool
}

func (f *blockInst) GetDirective() directive.Directive { return f.dir }
func (f *blockInst) GetDirectiveIdent() string         { return "EstablishLinkWithPeer" }
func (f *blockInst) AddReference(cb directive.ReferenceHandler, weak bool) directive.Reference {
	r := &blockRef{inst: f, weak: weak}
	if weak {
		if cb != nil {
			f.handler = cb
		}
		return r
	}
	ch := make(chan struct{})
	f.mtx.Lock()
	f.entered++
	f.parked = append(f.parked, ch)
	f.mtx.Unlock()
	f.events.Add(1)
	<-ch
	f.mtx.Lock()
	f.acquired++
	f.mtx.Unlock()
	f.events.Add(1)
	return r
}

func (r *blockRef) Release() {
	if r.weak || r.released.Swap(true) {
		return
	}
	f := r.inst
	ch := make(chan struct{})
	f.mtx.Lock()
	f.parked = append(f.parked, ch)
	f.relPark++
	f.mtx.Unlock()
	f.events.Add(1)
	<-ch
	f.mtx.Lock()
	f.relPark--
	f.released++
	f.mtx.Unlock()
	f.events.Add(1)
}

// letGo lets the k-th parked AddReference / Release return (k taken modulo the number parked).
func (f *blockInst) letGo(k int) bool {
	f.mtx.Lock()
	if len(f.parked) == 0 {
		f.mtx.Unlock()
		return false
	}
	k %= len(f.parked)
	ch := f.parked[k]
	f.parked = append(f.parked[:k], f.parked[k+1:]...)
	f.mtx.Unlock()
	close(ch)
	return true
}

func (f *blockInst) releasesParked() int {
	f.mtx.Lock()
	defer f.mtx.Unlock()
	return f.relPark
}

func (f *blockInst) state() (parked, entered, acquired, released int) {
	f.mtx.Lock()
	defer f.mtx.Unlock()
	return len(f.parked), f.entered, f.acquired, f.released
}

// holdInflight runs one script. steps: add | rm | go (a step that is not possible is skipped).
// After the script every parked AddReference is let go (random order) until quiescence.
func (e *engine) holdInflight(steps []string, label string) {
	link_holdopen_controller.VerifGate = nil
	inst := &blockInst{dir: link.NewEstablishLinkWithPeer("", peer.ID("target-peer"))}
	ctrl, err := link_holdopen_controller.NewController(nil, e.le)
	if err != nil {
		panic(err)
	}
	if _, err := ctrl.HandleDirective(context.Background(), inst); err != nil {
		panic(err)
	}
	h := inst.handler
	if h == nil {
		panic("hold-open controller did not attach a reference handler")
	}
	value := func(id uint32) directive.AttachedValue {
		var ml link.MountedLink = &fakeLink{uuid: uint64(id), tpt: 1, local: "local-peer", remote: "target-peer"}
		return directive.NewAttachedValue(id, ml)
	}
	var started, returned atomic.Int32
	var cmtx sync.Mutex
	var addedIDs []uint32 // links whose HandleValueAdded has returned and that were not removed yet
	addsRet, rmsRet := 0, 0
	var nextID uint32
	settle := func() bool {
		return quiet.Settle(func() int { return int(inst.events.Load()) + int(returned.Load()) }, 150*time.Microsecond, 3, 3*time.Second)
	}
	mon, monCls := "", ""
	fail := ""
	var trace, finals []string
	adds, rms := 0, 0
	firstAcqDone := false
	// quiescent point: judge
	check := func() {
		parked, _, acq, rel := inst.state()
		if parked != 0 || started.Load() != returned.Load() {
			return
		}
		cmtx.Lock()
		live := addsRet - rmsRet
		cmtx.Unlock()
		out := acq - rel
		vc, rigid, _ := link_holdopen_controller.VerifHandlerState(h)
		finals = append(finals, fmt.Sprintf("%d/%s/0/0/%d/0", vc, b01(rigid), out))
		if live > 0 {
			e.branch("inflight.quiescent-links")
		} else {
			e.branch("inflight.quiescent-nolinks")
		}
		if mon == "" {
			mon, monCls = holdMonitor(live, out, false)
			if mon != "" {
				mon += fmt.Sprintf(" [AddReference and Release block; script %s; %d strong references acquired, %d released]", strings.Join(trace, ","), acq, rel)
			}
		}
	}
	for _, st := range steps {
		parked, _, acq, _ := inst.state()
		blocked := int(started.Load() - returned.Load())
		switch st {
		case "add":
			if blocked >= 3 {
				continue
			}
			nextID++
			id := nextID
			adds++
			started.Add(1)
			if inst.releasesParked() > 0 {
				e.branch("inflight.add-while-releasing")
			}
			if parked > 0 {
				e.branch("inflight.add-in-flight")
				if !firstAcqDone && acq == 0 {
					e.branch("inflight.two-adds-before-first-acquire")
				}
			}
			go func() {
				h.HandleValueAdded(inst, value(id))
				cmtx.Lock()
				addedIDs = append(addedIDs, id)
				addsRet++
				cmtx.Unlock()
				returned.Add(1)
			}()
		case "rm":
			cmtx.Lock()
			if len(addedIDs) == 0 || blocked >= 3 {
				cmtx.Unlock()
				continue
			}
			k := e.rng.Intn(len(addedIDs))
			id := addedIDs[k]
			addedIDs = append(addedIDs[:k], addedIDs[k+1:]...)
			cmtx.Unlock()
			rms++
			started.Add(1)
			if parked > 0 {
				e.branch("inflight.rm-in-flight")
			}
			go func() {
				h.HandleValueRemoved(inst, value(id))
				cmtx.Lock()
				rmsRet++
				cmtx.Unlock()
				returned.Add(1)
			}()
		case "go":
			if !inst.letGo(e.rng.Intn(4)) {
				continue
			}
			firstAcqDone = true
		default:
			continue
		}
		trace = append(trace, st)
		if !settle() {
			fail = "no settled state after step " + st
			break
		}
		if p, _, _, _ := inst.state(); p > 1 {
			e.branch("inflight.several-acquisitions-in-flight")
		}
		if started.Load() != returned.Load() {
			e.branch("inflight.caller-blocked")
		}
		check()
	}
	// drain
	for i := 0; fail == "" && i < 64; i++ {
		parked, _, _, _ := inst.state()
		if parked == 0 && started.Load() == returned.Load() {
			break
		}
		if parked == 0 {
			fail = "a handler call is blocked although no AddReference / Release is in flight"
			break
		}
		inst.letGo(e.rng.Intn(4))
		trace = append(trace, "go")
		if !settle() {
			fail = "no settled state while draining"
		}
	}
	if fail == "" {
		check()
	}
	// the model's prediction for the final quiescent state: any linearisation will do
	// (quiescent_refcount: the quiescent state is determined by the number of live links)
	var ops []string
	for i := 0; i < adds; i++ {
		ops = append(ops, "add")
		if i == 0 {
			ops = append(ops, "acq")
		}
	}
	for i := 0; i < rms; i++ {
		ops = append(ops, "rm")
	}
	if adds > 0 && adds == rms {
		ops = append(ops, "rel")
	}
	op := "wrappers.hold ops=" + list(ops)
	model := e.m.Query(op)
	last := ""
	if len(finals) > 0 {
		last = finals[len(finals)-1]
	}
	impl := "final=" + last + " quiescent=1"
	if fail != "" {
		impl = "harness-failure " + fail
	}
	key := "wrappers.holdinflight"
	if monCls != "" {
		key = "wrappers.hold:" + monCls
	}
	e.rep.Compare(fmt.Sprintf("%s # %s: AddReference blocks, script=%s quiescent-points=%s", op, label, strings.Join(trace, ","), strings.Join(finals, ";")),
		"final="+lib.KV(model, "final")+" quiescent="+lib.KV(model, "quiescent"), impl, "hold.inflight", key, mon)
}

func (e *engine) holdInflights() {
	e.rep.Require("hold.inflight", "inflight.quiescent-links", "inflight.quiescent-nolinks", "inflight.add-in-flight", "inflight.rm-in-flight", "inflight.two-adds-before-first-acquire", "inflight.add-while-releasing")
	e.holdInflight([]string{"add", "add", "go", "go", "rm", "rm"}, "two-adds-before-first-acquire")
	e.holdInflight([]string{"add", "add", "go", "go"}, "two-adds-links-stay")
	e.holdInflight([]string{"add", "add", "add", "go", "go", "go", "rm", "rm", "rm"}, "three-adds")
	e.holdInflight([]string{"add", "rm", "go"}, "remove-while-acquiring")
	e.holdInflight([]string{"add", "go", "rm", "add", "go", "go"}, "relink-while-releasing")
	e.holdInflight([]string{"add", "go", "rm", "add", "go", "go", "rm", "go"}, "relink-while-releasing-then-remove")
	e.holdInflight([]string{"add", "go", "rm", "add", "rm", "go", "go", "go"}, "flap-while-releasing")
	e.holdInflight([]string{"add", "go", "rm", "add", "add", "go", "go", "rm", "rm"}, "second-generation")
	e.holdInflight([]string{"add", "add", "rm", "go", "go", "rm"}, "add-add-remove-in-flight")
	e.holdInflight([]string{"add", "add", "go", "rm", "go", "rm"}, "remove-between-acquisitions")
	n := 60 * e.a.Scale
	for c := 0; c < n; c++ {
		var steps []string
		for i, ns := 0, 3+e.rng.Intn(12); i < ns; i++ {
			switch x := e.rng.Intn(100); {
			case x < 38:
				steps = append(steps, "add")
			case x < 62:
				steps = append(steps, "rm")
			default:
				steps = append(steps, "go")
			}
		}
		if c%3 == 0 {
			steps = append([]string{"add", "add"}, steps...)
		}
		e.holdInflight(steps, "random")
	}
}
