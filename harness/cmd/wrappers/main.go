// Command wrappers is the correspondence engine for C31 (solicited stream values:
// solicitMountedStream + resolveMatch) and C33 (hold-open reference handler).
//
// Both objects are small concurrent state machines. The engine is the scheduler: it drives the
// REAL code step by step (one critical section at a time), parking goroutines at the verif gate
// points so that the rare interleavings the properties name are forced (an accept parked between
// its entry and the mutex while a close runs; the last link removed before the asynchronous
// acquire runs; two links added before the first acquire runs), compares every call result and
// the guarded state after every step with the Lean transition system, and evaluates
// model-independent monitors that state the properties directly on what was observed (which
// calls returned the stream, whether the fake stream was closed, how many non-weak references
// the fake directive instance holds at quiescence). A second mode runs unscheduled concurrent
// storms against the same monitors.
package main

import (
	"context"
	"errors"
	"fmt"
	"runtime"
	"sort"
	"strings"
	"sync"
	"sync/atomic"
	"time"

	"github.com/aperturerobotics/bifrost/link"
	link_holdopen_controller "github.com/aperturerobotics/bifrost/link/hold-open"
	link_solicit "github.com/aperturerobotics/bifrost/link/solicit"
	link_solicit_controller "github.com/aperturerobotics/bifrost/link/solicit/controller"
	"github.com/aperturerobotics/bifrost/peer"
	"github.com/aperturerobotics/bifrost/protocol"
	"github.com/aperturerobotics/bifrost/stream"
	"github.com/aperturerobotics/bifrost/testbed"
	"github.com/aperturerobotics/controllerbus/controller"
	"github.com/aperturerobotics/controllerbus/directive"
	"github.com/blang/semver/v4"
	"github.com/sirupsen/logrus"

	"verif/harness/lib"
	"verif/harness/quiet"
)

const waitLimit = 10 * time.Second

type engine struct {
	holdInline bool // hold-open handler makes its reference calls synchronously (see holdSched)

	a   *lib.Args
	rng *lib.Rng
	m   *lib.Model
	rep *lib.Report
	le  *logrus.Entry
}

func (e *engine) branch(b string) { e.rep.Branches[b]++ }

// ---------------------------------------------------------------------------------------------
// fakes shared by both properties
// ---------------------------------------------------------------------------------------------

type fakeLink struct {
	uuid, tpt     uint64
	local, remote peer.ID
}

func (f *fakeLink) GetLinkUUID() uint64            { return f.uuid }
func (f *fakeLink) GetTransportUUID() uint64       { return f.tpt }
func (f *fakeLink) GetRemoteTransportUUID() uint64 { return 0 }
func (f *fakeLink) GetLocalPeer() peer.ID          { return f.local }
func (f *fakeLink) GetRemotePeer() peer.ID         { return f.remote }
func (f *fakeLink) OpenMountedStream(ctx context.Context, p protocol.ID, o stream.OpenOpts) (link.MountedStream, error) {
	return nil, context.Canceled
}

// ---------------------------------------------------------------------------------------------
// C31: solicited stream values
// ---------------------------------------------------------------------------------------------

// fakeStream records Close calls (the only thing the solicitation does with the stream).
type fakeStream struct {
	id     int
	w      *smsWorld
	closes atomic.Int32
}

func (s *fakeStream) Read(b []byte) (int, error)         { return 0, errors.New("fake") }
func (s *fakeStream) Write(b []byte) (int, error)        { return len(b), nil }
func (s *fakeStream) SetReadDeadline(t time.Time) error  { return nil }
func (s *fakeStream) SetWriteDeadline(t time.Time) error { return nil }
func (s *fakeStream) SetDeadline(t time.Time) error      { return nil }

// Close records the call ("close:<id>" when it begins, "cend:<id>" when it returns). Between the
// two the call is IN FLIGHT: the world's closeHook (if set) runs there and may block or call back
// into the engine — a schedule source that does not depend on where the code under test keeps
// its gate points or its mutex.
func (s *fakeStream) Close() error {
	s.closes.Add(1)
	s.w.event(fmt.Sprintf("close:%d", s.id))
	if h := s.w.closeHook; h != nil {
		h(s)
	}
	s.w.event(fmt.Sprintf("cend:%d", s.id))
	return nil
}

type fakeMounted struct {
	strm *fakeStream
	ml   link.MountedLink
}

func (m *fakeMounted) GetStream() stream.Stream     { return m.strm }
func (m *fakeMounted) GetProtocolID() protocol.ID   { return "solicit:x" }
func (m *fakeMounted) GetOpenOpts() stream.OpenOpts { return stream.OpenOpts{} }
func (m *fakeMounted) GetPeerID() peer.ID           { return "remote-peer" }
func (m *fakeMounted) GetLink() link.MountedLink    { return m.ml }

type fakeHandler struct {
	mtx  sync.Mutex
	vals []directive.Value
	// onAdd, when set, runs inside AddValue and decides whether the handler takes the value;
	// false = AddValue refuses it (0, false), like a controllerbus resolver handler whose
	// resolver context was cancelled / whose directive was released.
	onAdd func(v directive.Value) bool
	// refused counts the AddValue calls that were refused
	refused int
}

func (h *fakeHandler) AddValue(v directive.Value) (uint32, bool) {
	if h.onAdd != nil && !h.onAdd(v) {
		h.mtx.Lock()
		h.refused++
		h.mtx.Unlock()
		return 0, false
	}
	h.mtx.Lock()
	defer h.mtx.Unlock()
	h.vals = append(h.vals, v)
	return uint32(len(h.vals)), true
}
func (h *fakeHandler) RemoveValue(id uint32) (directive.Value, bool)        { return nil, false }
func (h *fakeHandler) RemoveValues() []directive.Value                      { return nil }
func (h *fakeHandler) CountValues(bool) int                                 { return len(h.vals) }
func (h *fakeHandler) ClearValues() []uint32                                { return nil }
func (h *fakeHandler) MarkIdle(bool)                                        {}
func (h *fakeHandler) AddValueRemovedCallback(id uint32, cb func()) func()  { return func() {} }
func (h *fakeHandler) AddResolverRemovedCallback(cb func()) func()          { return func() {} }
func (h *fakeHandler) AddResolver(res directive.Resolver, cb func()) func() { return func() {} }

// smsValue is one model value: the values delivered for it (one per matching directive; all the
// same object in the fixed code).
type smsValue struct {
	stream *fakeStream // nil: no stream (newNil / newErr)
	objs   []link_solicit.SolicitMountedStream
}

type smsWorld struct {
	e      *engine
	mtx    sync.Mutex
	events []string // "ret:<stream>" / "close:<stream>" (begin) / "cend:<stream>" (end) in real-time order
	vals   []*smsValue
	nextID int
	// closeHook runs inside the fake stream's Close(), between its begin and end events
	closeHook func(s *fakeStream)
	// refusals: AddValue calls refused during the last create
	refusals int
}

func (w *smsWorld) event(s string) {
	w.mtx.Lock()
	w.events = append(w.events, s)
	w.mtx.Unlock()
}

// create runs a creation op ("r<k>", "n", "e") on the real code and returns the observed result.
func (w *smsWorld) create(tok string) string { return w.createWith(tok, nil) }

// createWith is create with scripted handlers: onAdd(visit, value) is called inside the AddValue
// of the visit-th MATCHING directive handler that resolveMatch visits (visit = 0, 1, …: the
// position in resolveMatch's own iteration order, whatever the map order is) and says whether
// that handler takes the value. nil = every handler takes it.
func (w *smsWorld) createWith(tok string, onAdd func(visit int, v directive.Value) bool) string {
	e := w.e
	switch tok[0] {
	case 'n':
		w.vals = append(w.vals, &smsValue{objs: []link_solicit.SolicitMountedStream{link_solicit.NewSolicitMountedStream(nil)}})
		return "v1d1"
	case 'e':
		w.vals = append(w.vals, &smsValue{objs: []link_solicit.SolicitMountedStream{link_solicit.NewSolicitMountedStreamWithErr(errors.New("boom"))}})
		return "v1d1"
	}
	var k int
	fmt.Sscanf(tok[1:], "%d", &k)
	remote, other := peer.ID("remote-peer"), peer.ID("other-peer")
	ml := &fakeLink{uuid: 7, tpt: 42, local: "local-peer", remote: remote}
	sid := link_solicit.ComputeSessionID(ml.local, ml.remote)
	pid := protocol.ID(fmt.Sprintf("proto/%d", w.nextID))
	hash := link_solicit.ComputeProtocolHash(sid, pid, []byte("ctx"))
	// k matching directives with DIFFERENT peer / transport constraints, plus directives that do
	// not match (wrong peer, wrong transport, other protocol, other context)
	constraints := []struct {
		p peer.ID
		t uint64
	}{{"", 0}, {remote, 0}, {"", 42}, {remote, 42}, {"", 0}, {remote, 0}}
	var dirs []link_solicit.SolicitProtocol
	var hs []*fakeHandler
	matching := map[int]bool{}
	for i := 0; i < k; i++ {
		c := constraints[i%len(constraints)]
		matching[len(dirs)] = true
		dirs = append(dirs, link_solicit.NewSolicitProtocol(pid, []byte("ctx"), c.p, c.t))
	}
	dirs = append(dirs,
		link_solicit.NewSolicitProtocol(pid, []byte("ctx"), other, 0),
		link_solicit.NewSolicitProtocol(pid, []byte("ctx"), "", 43),
		link_solicit.NewSolicitProtocol(pid+"x", []byte("ctx"), "", 0),
		link_solicit.NewSolicitProtocol(pid, []byte("ctx2"), "", 0))
	// shuffle so that map iteration / slice order is not what makes it work
	perm := e.rng.Perm(len(dirs))
	sd := make([]link_solicit.SolicitProtocol, len(dirs))
	sm := map[int]bool{}
	for to, from := range perm {
		sd[to] = dirs[from]
		if matching[from] {
			sm[to] = true
		}
	}
	rhs := make([]directive.ResolverHandler, len(sd))
	visits := 0
	var visitMtx sync.Mutex
	for i := range sd {
		h := &fakeHandler{}
		if onAdd != nil && sm[i] {
			h.onAdd = func(v directive.Value) bool {
				visitMtx.Lock()
				k := visits
				visits++
				visitMtx.Unlock()
				return onAdd(k, v)
			}
		}
		hs = append(hs, h)
		rhs[i] = hs[i]
	}
	strm := &fakeStream{id: w.nextID, w: w}
	w.nextID++
	ms := &fakeMounted{strm: strm, ml: ml}
	link_solicit_controller.VerifResolveMatch(e.le, sd, rhs, ml, sid, hash, ms)
	v := &smsValue{stream: strm}
	distinct := map[link_solicit.SolicitMountedStream]bool{}
	deliveries, stray := 0, 0
	w.refusals = 0
	for i, h := range hs {
		w.refusals += h.refused
		for _, x := range h.vals {
			if !sm[i] {
				stray++
				continue
			}
			deliveries++
			sv, ok := x.(link_solicit.SolicitMountedStream)
			if !ok {
				stray++
				continue
			}
			distinct[sv] = true
			v.objs = append(v.objs, sv)
		}
	}
	w.vals = append(w.vals, v)
	if stray > 0 {
		return fmt.Sprintf("v%dd%d+stray%d", len(distinct), deliveries, stray)
	}
	if deliveries == 0 {
		return "d0"
	}
	return fmt.Sprintf("v%dd%d", len(distinct), deliveries)
}

func (w *smsWorld) obj(i, h int) link_solicit.SolicitMountedStream {
	v := w.vals[i]
	if len(v.objs) == 0 {
		return nil
	}
	return v.objs[h%len(v.objs)]
}

// doAccept calls AcceptMountedStream and renders the result.
func (w *smsWorld) doAccept(o link_solicit.SolicitMountedStream) string {
	ms, already, err := o.AcceptMountedStream()
	switch {
	case err != nil:
		return "err"
	case already:
		return "already"
	case ms == nil:
		return "snil"
	}
	id := ms.GetStream().(*fakeStream).id
	w.event(fmt.Sprintf("ret:%d", id))
	return fmt.Sprintf("s%d", id)
}

func (w *smsWorld) doClose(o link_solicit.SolicitMountedStream) string {
	if link_solicit.VerifClose(o) {
		return "c1"
	}
	return "c0"
}

// snapshot renders the observable state in the model's format.
func (w *smsWorld) snapshot() string {
	w.mtx.Lock()
	evs := append([]string(nil), w.events...)
	w.mtx.Unlock()
	var ret, cl []string
	for _, ev := range evs {
		switch {
		case strings.HasPrefix(ev, "ret:"):
			ret = append(ret, ev[4:])
		case strings.HasPrefix(ev, "close:"):
			cl = append(cl, ev[6:])
		}
	}
	var vs []string
	for _, v := range w.vals {
		ms := "-"
		if v.stream != nil {
			ms = fmt.Sprint(v.stream.id)
		}
		if len(v.objs) == 0 {
			// never delivered: nobody can touch it; resolveMatch closes such a value (stream closed,
			// value errored) — the closed stream is what can be observed of it
			if v.stream != nil && v.stream.closes.Load() > 0 {
				vs = append(vs, ms+":10")
			} else {
				vs = append(vs, ms+":00")
			}
			continue
		}
		// a value's state is the state of its object; if the code made several objects for one
		// stream the first one is shown (the difference shows up in the call results)
		hasErr, acc, _ := link_solicit.VerifMountedState(v.objs[0])
		vs = append(vs, fmt.Sprintf("%s:%s%s", ms, b01(hasErr), b01(acc)))
	}
	return fmt.Sprintf("returned=%s closed=%s vals=%s", list(ret), list(cl), list(vs))
}

// monitor states C31 directly on the observed events.
func (w *smsWorld) monitor() (string, string) {
	w.mtx.Lock()
	defer w.mtx.Unlock()
	owners := map[string]int{}
	closedAt := map[string]int{}
	retAt := map[string]int{}
	cendAt := map[string]int{}
	for i, ev := range w.events {
		switch {
		case strings.HasPrefix(ev, "ret:"):
			id := ev[4:]
			owners[id]++
			if _, ok := retAt[id]; !ok {
				retAt[id] = i
			}
		case strings.HasPrefix(ev, "close:"):
			id := ev[6:]
			if _, ok := closedAt[id]; !ok {
				closedAt[id] = i
			}
		case strings.HasPrefix(ev, "cend:"):
			id := ev[5:]
			if _, ok := cendAt[id]; !ok {
				cendAt[id] = i
			}
		}
	}
	ids := make([]string, 0, len(owners))
	for id := range owners {
		ids = append(ids, id)
	}
	sort.Strings(ids)
	for _, id := range ids {
		if owners[id] > 1 {
			return fmt.Sprintf("stream %s was handed to %d callers of AcceptMountedStream", id, owners[id]), "multi-owner"
		}
	}
	for _, id := range ids {
		if c, ok := closedAt[id]; ok {
			if c < retAt[id] {
				if ce, done := cendAt[id]; !done || retAt[id] < ce {
					return fmt.Sprintf("AcceptMountedStream returned stream %s while the solicitation was closing it (the stream's Close() was in flight)", id), "returned-after-close"
				}
				return fmt.Sprintf("AcceptMountedStream returned stream %s after the solicitation had closed it", id), "returned-after-close"
			}
			return fmt.Sprintf("stream %s was closed by the solicitation after it had been accepted", id), "closed-after-accept"
		}
	}
	return "", ""
}

func b01(b bool) string {
	if b {
		return "1"
	}
	return "0"
}

func list(l []string) string {
	if len(l) == 0 {
		return "_"
	}
	return strings.Join(l, ",")
}

// parkedCall is an AcceptMountedStream call parked at the gate before it takes the mutex.
type parkedCall struct {
	val, h  int
	parked  chan struct{}
	release chan struct{}
	done    chan string
}

// smsSched runs one scheduled scenario. script: creation tokens, then steps:
//
//	"B<i>.<h>" begin accept on value i via directive h (parks at the gate)
//	"F<n>"     finish the n-th parked accept (its critical section runs now)
//	"C<i>.<h>" close value i (through the object delivered to directive h)
//
// The model sees the critical sections in the order they ran.
func (e *engine) smsSched(creates []string, steps []string, label string) {
	w := &smsWorld{e: e}
	var cur *parkedCall
	var curMtx sync.Mutex
	link_solicit.VerifGate = func(name string) {
		if name != "accept.lock" {
			return
		}
		curMtx.Lock()
		c := cur
		cur = nil
		curMtx.Unlock()
		if c == nil {
			return
		}
		close(c.parked)
		<-c.release
	}
	defer func() { link_solicit.VerifGate = nil }()

	var modelOps, implRes []string
	for _, c := range creates {
		modelOps = append(modelOps, c)
		implRes = append(implRes, w.create(c))
	}
	var parked []*parkedCall
	overClose, overAccept := false, false
	fail := ""
	for _, st := range steps {
		var i, h int
		switch st[0] {
		case 'B':
			fmt.Sscanf(st[1:], "%d.%d", &i, &h)
			o := w.obj(i, h)
			if o == nil {
				continue
			}
			c := &parkedCall{val: i, h: h, parked: make(chan struct{}), release: make(chan struct{}), done: make(chan string, 1)}
			curMtx.Lock()
			cur = c
			curMtx.Unlock()
			go func() { c.done <- lib.Recover(func() string { return w.doAccept(o) }) }()
			select {
			case <-c.parked:
				parked = append(parked, c)
			case r := <-c.done:
				// returned without reaching the gate (e.g. the unlocked error check of the
				// unfixed code): the call is complete, it is its own step
				curMtx.Lock()
				cur = nil
				curMtx.Unlock()
				modelOps = append(modelOps, fmt.Sprintf("a%d", i))
				implRes = append(implRes, r)
			case <-time.After(waitLimit):
				fail = "accept neither parked nor returned"
			}
		case 'F':
			fmt.Sscanf(st[1:], "%d", &i)
			if len(parked) == 0 {
				continue
			}
			c := parked[i%len(parked)]
			parked = append(parked[:i%len(parked)], parked[i%len(parked)+1:]...)
			close(c.release)
			select {
			case r := <-c.done:
				modelOps = append(modelOps, fmt.Sprintf("a%d", c.val))
				implRes = append(implRes, r)
			case <-time.After(waitLimit):
				fail = "released accept did not return"
			}
		case 'C':
			fmt.Sscanf(st[1:], "%d.%d", &i, &h)
			o := w.obj(i, h)
			if o == nil {
				continue
			}
			for _, p := range parked {
				if p.val == i {
					overClose = true
				}
			}
			modelOps = append(modelOps, fmt.Sprintf("c%d", i))
			implRes = append(implRes, lib.Recover(func() string { return w.doClose(o) }))
		}
		if st[0] == 'F' || st[0] == 'B' {
			seen := map[int]int{}
			for _, p := range parked {
				seen[p.val]++
				if seen[p.val] > 1 {
					overAccept = true
				}
			}
		}
		if fail != "" {
			break
		}
	}
	// let every parked call finish (in order)
	for _, c := range parked {
		close(c.release)
		select {
		case r := <-c.done:
			modelOps = append(modelOps, fmt.Sprintf("a%d", c.val))
			implRes = append(implRes, r)
		case <-time.After(waitLimit):
			fail = "released accept did not return"
		}
	}
	op := "wrappers.sms ops=" + list(modelOps)
	model := e.m.Query(op)
	// the unobservable value of a stream nobody matched: canonicalise on both sides
	model = strings.ReplaceAll(model, "v1d0", "d0")
	impl := "ok res=" + list(implRes) + " " + w.snapshot()
	if fail != "" {
		impl = "harness-failure " + fail
	}
	mon, cls := w.monitor()
	key := "wrappers.sms"
	if cls != "" {
		key = "wrappers.sms:" + cls
	}
	e.rep.Compare(op+" # "+label+" script="+strings.Join(steps, " "), model, impl, "sms.sched", key, mon)
	// branch accounting from the model's answer
	for _, r := range strings.Split(lib.KV(model, "res"), ",") {
		switch {
		case r == "already":
			e.branch("accept.already")
		case r == "err":
			e.branch("accept.err")
		case r == "snil":
			e.branch("accept.nil")
		case r == "c1":
			e.branch("close.true")
		case r == "c0":
			e.branch("close.false")
		case r == "d0":
			e.branch("resolve.zero")
		case r == "v1d1":
			e.branch("resolve.one")
		case strings.HasPrefix(r, "v1d"):
			e.branch("resolve.multi")
		case strings.HasPrefix(r, "s"):
			e.branch("accept.stream")
		}
	}
	if overClose {
		e.branch("race.close-while-accept-parked")
	}
	if overAccept {
		e.branch("race.two-accepts-parked")
	}
}

// smsExclusion checks the atomicity proviso itself: while one call is parked INSIDE its
// critical section (gate just after the mutex was taken) a second call on the same value must
// not enter its critical section or return.
func (e *engine) smsExclusion(kindA, kindB string) {
	w := &smsWorld{e: e}
	w.create("r1")
	o := w.obj(0, 0)
	var gmtx sync.Mutex
	aInside, first, overlap := false, true, false
	parkA, relA := make(chan struct{}), make(chan struct{})
	link_solicit.VerifGate = func(name string) {
		if name != "accept.locked" && name != "close.locked" {
			return
		}
		gmtx.Lock()
		if aInside {
			overlap = true
		}
		park := first
		if first {
			first, aInside = false, true
		}
		gmtx.Unlock()
		if park {
			close(parkA)
			<-relA
		}
	}
	defer func() { link_solicit.VerifGate = nil }()
	run := func(kind string) chan string {
		ch := make(chan string, 1)
		go func() {
			ch <- lib.Recover(func() string {
				if kind == "a" {
					return w.doAccept(o)
				}
				return w.doClose(o)
			})
		}()
		return ch
	}
	fail := ""
	chA := run(kindA)
	select {
	case <-parkA:
	case <-time.After(waitLimit):
		fail = "first call did not reach its critical section"
	}
	chB := run(kindB)
	var rB string
	early := false
	select {
	case rB = <-chB:
		early = true // returned while the first call was inside its critical section
	case <-time.After(30 * time.Millisecond):
	}
	gmtx.Lock()
	aInside = false
	gmtx.Unlock()
	close(relA)
	rA := <-chA
	if !early {
		rB = <-chB
	}
	op := fmt.Sprintf("wrappers.sms ops=r1,%s0,%s0", kindA, kindB)
	model := e.m.Query(op) + " exclusive=1"
	impl := "ok res=" + list([]string{"v1d1", rA, rB}) + " " + w.snapshot() + " exclusive=" + b01(!early && !overlap)
	if fail != "" {
		impl = "harness-failure " + fail
	}
	mon, cls := w.monitor()
	key := "wrappers.sms:exclusion"
	if cls != "" {
		key = "wrappers.sms:" + cls
	}
	e.rep.Compare(op+" # second call while the first is inside its critical section", model, impl, "sms.exclusion", key, mon)
}

func (e *engine) runC31() {
	e.rep.Rule = "scheduled scenarios on real solicitMountedStream values created by the real resolveMatch (0–4 matching directives with different peer/transport constraints among non-matching ones), AcceptMountedStream calls parked at the gate before the mutex while other accepts/closes run; every call result and the guarded state compared with the Lean LTS; plus unscheduled concurrent storms checked for linearizability against the LTS; monitors: one owner per stream, never returned after close, never closed after accept; plus, on a real controllerbus with the real solicit controller, equivalent SolicitProtocol directives merged into one instance with 2-3 references (and the non-equivalent twin, a late reference), every reference accepting / closing from its callback and from 1-4 racing goroutines: at most one call over all references is handed the stream, closed exactly once iff unowned and Close was called; distinct = distinct op line + script"
	e.rep.Require("sms.sched", "sms.storm", "sms.storm-slowclose", "sms.exclusion", "sms.inflight", "sms.inflight-race", "sms.refuse", "sms.refuse-bus",
		"inflight.close-in-flight", "inflight.several-accepts", "refuse.all", "refuse.none", "refuse.last-visited", "refuse.first-visited", "refuse.middle",
		"consumer.immediate", "consumer.late", "consumer.never", "refuse.bus-mixed", "refuse.bus-last-visited", "refuse.bus-last-takes", "refuse.bus-all", "accept.stream", "accept.already", "accept.err", "accept.nil",
		"close.true", "close.false", "resolve.zero", "resolve.one", "resolve.multi",
		"race.close-while-accept-parked", "race.two-accepts-parked")
	// a merged directive (several references on one instance) on a real bus with the real controller (realbus.go)
	e.rep.Require("sms.merged-bus", "merge.one-instance", "merge.both-refs-accept", "merge.concurrent-callers", "merge.twin-two-instances",
		"merge.accept-won", "merge.close-won", "merge.close-after-accept", "merge.accept-after-close", "merge.late-reference")
	// the schedules the property names, every run
	e.smsSched([]string{"r1"}, []string{"B0.0", "C0.0", "F0"}, "accept-parked-close-runs")
	e.smsSched([]string{"r2"}, []string{"B0.0", "F0", "B0.1", "F0"}, "two-directives-both-accept")
	e.smsSched([]string{"r3"}, []string{"B0.0", "B0.1", "B0.2", "F2", "F0", "F0"}, "three-directives-concurrent-accept")
	e.smsSched([]string{"r2"}, []string{"B0.0", "F0", "C0.1"}, "accept-then-close-other-directive")
	e.smsSched([]string{"r2"}, []string{"C0.1", "B0.0", "F0"}, "close-then-accept-other-directive")
	e.smsSched([]string{"r1"}, []string{"C0.0", "C0.0", "B0.0", "F0"}, "double-close")
	e.smsSched([]string{"n"}, []string{"B0.0", "F0", "B0.0", "F0", "C0.0"}, "nil-stream")
	e.smsSched([]string{"e"}, []string{"B0.0", "F0", "C0.0"}, "errored-value")
	e.smsSched([]string{"r0", "r1"}, []string{"B1.0", "F0", "C1.0"}, "unmatched-stream")
	n := 150 * e.a.Scale
	for c := 0; c < n; c++ {
		var creates []string
		nv := 1 + e.rng.Intn(3)
		for i := 0; i < nv; i++ {
			switch x := e.rng.Intn(12); {
			case x == 0:
				creates = append(creates, "n")
			case x == 1:
				creates = append(creates, "e")
			case x == 2:
				creates = append(creates, "r0")
			default:
				creates = append(creates, fmt.Sprintf("r%d", 1+e.rng.Intn(4)))
			}
		}
		var steps []string
		parked := 0
		ns := 2 + e.rng.Intn(8)
		for i := 0; i < ns; i++ {
			v, h := e.rng.Intn(nv), e.rng.Intn(4)
			switch x := e.rng.Intn(10); {
			case x < 4:
				steps = append(steps, fmt.Sprintf("B%d.%d", v, h))
				parked++
			case x < 7 && parked > 0:
				steps = append(steps, fmt.Sprintf("F%d", e.rng.Intn(parked)))
				parked--
			default:
				steps = append(steps, fmt.Sprintf("C%d.%d", v, h))
			}
		}
		e.smsSched(creates, steps, "random")
	}
	for _, ab := range []string{"aa", "ac", "ca", "cc"} {
		e.smsExclusion(ab[:1], ab[1:])
	}
	e.runC31Extra()
	e.smsStorms(false)
	e.smsStorms(true)
	e.runC31Merged()
}

// smsStorms: unscheduled concurrency. All calls start at a barrier; the gate yields randomly.
//
// slowClose: the fake stream's Close() stays in flight for a few (0–40) microseconds, yielding,
// so that calls racing with a Close meet it inside the underlying stream's Close().
func (e *engine) smsStorms(slowClose bool) {
	n := 120 * e.a.Scale
	branch := "sms.storm"
	if slowClose {
		n = 80 * e.a.Scale
		branch = "sms.storm-slowclose"
	}
	var yield atomic.Int64
	link_solicit.VerifGate = func(name string) {
		switch yield.Add(1) % 4 {
		case 0:
			runtime.Gosched()
		case 1:
			time.Sleep(time.Microsecond)
		}
	}
	defer func() { link_solicit.VerifGate = nil }()
	for c := 0; c < n; c++ {
		w := &smsWorld{e: e}
		if slowClose {
			d := time.Duration(e.rng.Intn(40)) * time.Microsecond
			w.closeHook = func(*fakeStream) {
				for t := time.Now(); time.Since(t) < d; {
					runtime.Gosched()
				}
			}
		}
		k := 1 + e.rng.Intn(4)
		init := fmt.Sprintf("r%d", k)
		w.create(init)
		nc := 2 + e.rng.Intn(4) // ≤ 5 concurrent calls: the model enumerates all orders
		calls := make([]string, nc)
		res := make([]string, nc)
		var wg sync.WaitGroup
		start := make(chan struct{})
		for i := 0; i < nc; i++ {
			o := w.obj(0, e.rng.Intn(4))
			acc := e.rng.Intn(3) != 0
			if acc {
				calls[i] = "a0"
			} else {
				calls[i] = "c0"
			}
			wg.Add(1)
			go func(i int) {
				defer wg.Done()
				<-start
				res[i] = lib.Recover(func() string {
					if acc {
						return w.doAccept(o)
					}
					return w.doClose(o)
				})
			}(i)
		}
		close(start)
		wg.Wait()
		op := fmt.Sprintf("wrappers.lin init=%s calls=%s obs=%s", init, list(calls), list(res))
		model := e.m.Query(op)
		impl := "ok lin=1 perms=" + lib.KV(model, "perms")
		mon, cls := w.monitor()
		key := "wrappers.storm"
		if cls != "" {
			key = "wrappers.sms:" + cls
		}
		e.rep.Compare(op, model, impl, branch, key, mon)
	}
}

// ---------------------------------------------------------------------------------------------
// C33: hold-open
// ---------------------------------------------------------------------------------------------

// ticket is a goroutine parked by the scheduler.
type ticket struct {
	release chan struct{}
	done    chan struct{}
}

type holdWorld struct {
	e     *engine
	sched bool // scheduled mode: goroutines park; storm mode: they yield
	inst  *fakeInst
	h     directive.ReferenceHandler

	mtx        sync.Mutex
	cond       *sync.Cond
	acqSpawned int
	acqParked  []*ticket
	acqRunning *ticket
	acqDone    int
	relSpawned int
	relParked  []*ticket
	relDone    int
	yield      atomic.Int64
}

// fakeInst is a directive.Instance that only counts references. Methods the hold-open
// controller does not call are left to the embedded nil interface (a call would panic and be
// reported).
type fakeInst struct {
	directive.Instance
	w        *holdWorld
	dir      directive.Directive
	mtx      sync.Mutex
	released bool
	nonWeak  int
	weak     int
	handler  directive.ReferenceHandler
}

type fakeRef struct {
	inst     *fakeInst
	weak     bool
	released atomic.Bool
}

func (f *fakeInst) GetDirective() directive.Directive { return f.dir }
func (f *fakeInst) GetDirectiveIdent() string         { return "EstablishLinkWithPeer" }
func (f *fakeInst) AddReference(cb directive.ReferenceHandler, weak bool) directive.Reference {
	f.mtx.Lock()
	defer f.mtx.Unlock()
	r := &fakeRef{inst: f, weak: weak}
	if f.released {
		// like controllerbus: a reference to a released instance is born released
		r.released.Store(true)
		return r
	}
	if weak {
		f.weak++
		if cb != nil {
			f.handler = cb
		}
	} else {
		f.nonWeak++
	}
	return r
}

// Release is called by hold-open in its own goroutine (`go ref.Release()`).
func (r *fakeRef) Release() {
	w := r.inst.w
	if !r.weak {
		w.gateRelease()
	}
	if !r.released.Swap(true) {
		r.inst.mtx.Lock()
		if !r.inst.released {
			if r.weak {
				r.inst.weak--
			} else {
				r.inst.nonWeak--
			}
		}
		r.inst.mtx.Unlock()
	}
	if !r.weak {
		w.mtx.Lock()
		w.relDone++
		w.cond.Broadcast()
		w.mtx.Unlock()
	}
}

// release the instance itself (Close / expiry): every reference dies.
func (f *fakeInst) dispose() {
	f.mtx.Lock()
	f.released = true
	f.nonWeak = 0
	f.weak = 0
	f.mtx.Unlock()
}

func (f *fakeInst) counts() (int, bool) {
	f.mtx.Lock()
	defer f.mtx.Unlock()
	return f.nonWeak, f.released
}

func (w *holdWorld) gate(name string) {
	switch name {
	case "acquire.spawn":
		w.mtx.Lock()
		w.acqSpawned++
		w.mtx.Unlock()
	case "release.spawn":
		w.mtx.Lock()
		w.relSpawned++
		w.mtx.Unlock()
	case "acquire":
		if !w.sched {
			w.maybeYield()
			return
		}
		t := &ticket{release: make(chan struct{}), done: make(chan struct{})}
		w.mtx.Lock()
		w.acqParked = append(w.acqParked, t)
		w.cond.Broadcast()
		w.mtx.Unlock()
		<-t.release
	case "acquire.done":
		w.mtx.Lock()
		w.acqDone++
		if t := w.acqRunning; t != nil {
			w.acqRunning = nil
			close(t.done)
		}
		w.cond.Broadcast()
		w.mtx.Unlock()
	}
}

func (w *holdWorld) gateRelease() {
	if !w.sched {
		w.maybeYield()
		return
	}
	t := &ticket{release: make(chan struct{}), done: make(chan struct{})}
	w.mtx.Lock()
	w.relParked = append(w.relParked, t)
	w.cond.Broadcast()
	w.mtx.Unlock()
	<-t.release
}

func (w *holdWorld) maybeYield() {
	switch w.yield.Add(1) % 5 {
	case 0:
		runtime.Gosched()
	case 1:
		time.Sleep(time.Microsecond)
	case 2:
		time.Sleep(20 * time.Microsecond)
	}
}

// waitFor waits until pred holds (under w.mtx), bounded.
func (w *holdWorld) waitFor(pred func() bool) bool {
	deadline := time.Now().Add(waitLimit)
	stop := make(chan struct{})
	go func() { // wake the waiter periodically so the deadline is honoured
		for {
			select {
			case <-stop:
				return
			case <-time.After(50 * time.Millisecond):
				w.mtx.Lock()
				w.cond.Broadcast()
				w.mtx.Unlock()
			}
		}
	}()
	defer close(stop)
	w.mtx.Lock()
	defer w.mtx.Unlock()
	for !pred() {
		if time.Now().After(deadline) {
			return false
		}
		w.cond.Wait()
	}
	return true
}

// settle: every spawned goroutine has reached its gate (scheduled mode).
func (w *holdWorld) settle() bool {
	return w.waitFor(func() bool {
		return w.acqSpawned == len(w.acqParked)+w.acqDone && w.relSpawned == len(w.relParked)+w.relDone
	})
}

func (e *engine) newHoldWorld(sched bool) *holdWorld {
	w := &holdWorld{e: e, sched: sched}
	w.cond = sync.NewCond(&w.mtx)
	w.inst = &fakeInst{w: w, dir: link.NewEstablishLinkWithPeer("", peer.ID("target-peer"))}
	link_holdopen_controller.VerifGate = w.gate
	ctrl, err := link_holdopen_controller.NewController(nil, e.le)
	if err != nil {
		panic(err)
	}
	// the real entry point: the controller attaches its reference handler to the instance
	if _, err := ctrl.HandleDirective(context.Background(), w.inst); err != nil {
		panic(err)
	}
	w.h = w.inst.handler
	if w.h == nil {
		panic("hold-open controller did not attach a reference handler")
	}
	return w
}

// snapshot: valCount/rigid/pendingAcq/pendingRel/outstanding/released — the handler's guarded
// fields through the verif accessor, the pending goroutines as observed at the gates, the
// references as counted by the fake instance.
func (w *holdWorld) snapshot() string {
	vc, rigid, ok := link_holdopen_controller.VerifHandlerState(w.h)
	if !ok {
		return "not-a-hold-open-handler"
	}
	w.mtx.Lock()
	pa := w.acqSpawned - w.acqDone
	pr := w.relSpawned - w.relDone
	w.mtx.Unlock()
	out, rel := w.inst.counts()
	return fmt.Sprintf("%d/%s/%d/%d/%d/%s", vc, b01(rigid), pa, pr, out, b01(rel))
}

func (w *holdWorld) value(id uint32, isLink bool) directive.AttachedValue {
	if !isLink {
		return directive.NewAttachedValue(id, "not-a-link")
	}
	var ml link.MountedLink = &fakeLink{uuid: uint64(id), tpt: 1, local: "local-peer", remote: "target-peer"}
	return directive.NewAttachedValue(id, ml)
}

// holdMonitor states C33 on the observation: at quiescence the fake instance holds exactly one
// non-weak reference iff a link value is live (none once the instance is released).
func holdMonitor(live int, out int, released bool) (string, string) {
	want := 0
	if live > 0 && !released {
		want = 1
	}
	switch {
	case out == want:
		return "", ""
	case out > 1:
		return fmt.Sprintf("at quiescence hold-open holds %d strong references (links: %d)", out, live), "multiple-refs"
	case out > want:
		return fmt.Sprintf("at quiescence hold-open holds a strong reference with %d links", live), "ref-without-links"
	}
	return fmt.Sprintf("at quiescence hold-open holds no strong reference although %d links exist", live), "no-ref-with-links"
}

// holdSched runs a scheduled scenario. steps: add other rm acq rel irel disp (a step that is not
// possible in the current observed state is skipped). The remaining goroutines are run at the end.
func (e *engine) holdSched(steps []string, label string) {
	if e.holdInline {
		return // the gate-level steps do not describe this handler (reported once); hold.inflight decides
	}
	w := e.newHoldWorld(true)
	defer func() { link_holdopen_controller.VerifGate = nil }()
	var ops, trace []string
	var liveIDs []uint32
	var nextID uint32
	mon, monCls := "", ""
	fail := ""
	check := func() {
		w.mtx.Lock()
		q := w.acqSpawned == w.acqDone && w.relSpawned == w.relDone
		w.mtx.Unlock()
		if q && mon == "" {
			out, rel := w.inst.counts()
			mon, monCls = holdMonitor(len(liveIDs), out, rel)
			e.branch("quiescent")
		}
	}
	// call runs one handler call. The model's steps assume that the handler only SPAWNS its
	// reference calls (`go ref.Release()`, the acquire goroutine), so a handler call returns
	// without waiting for a gate. A handler that makes such a call synchronously parks at the
	// gate inside the handler call: detected through the scheduler state (the call has not
	// returned and no goroutine is runnable), reported as a broken tie, and everything parked is
	// let go so that the engine does not deadlock.
	call := func(f func()) {
		done := make(chan struct{})
		go func() { defer close(done); f() }()
		stamp := func() int {
			w.mtx.Lock()
			defer w.mtx.Unlock()
			return len(w.acqParked) + len(w.relParked) + w.acqDone + w.relDone + w.acqSpawned + w.relSpawned
		}
		quiet.Settle(stamp, 150*time.Microsecond, 3, waitLimit)
		select {
		case <-done:
			return
		default:
		}
		fail = "a handler call is blocked at a gate inside a reference call it made synchronously (the model's steps are `go ref.Release()` and the acquire goroutine)"
		e.holdInline = true
		for i := 0; i < 200; i++ {
			w.mtx.Lock()
			ts := append(append([]*ticket{}, w.acqParked...), w.relParked...)
			w.acqParked, w.relParked = nil, nil
			w.mtx.Unlock()
			for _, t := range ts {
				close(t.release)
			}
			select {
			case <-done:
				return
			case <-time.After(50 * time.Millisecond):
			}
		}
	}
	do := func(st string) {
		pre := w.snapshot()
		switch st {
		case "add":
			nextID++
			liveIDs = append(liveIDs, nextID)
			id := nextID
			call(func() { w.h.HandleValueAdded(w.inst, w.value(id, true)) })
		case "other":
			nextID++
			id := nextID
			call(func() { w.h.HandleValueAdded(w.inst, w.value(id, false)) })
		case "rm":
			var id uint32 = 9999
			if len(liveIDs) > 0 {
				k := e.rng.Intn(len(liveIDs))
				id = liveIDs[k]
				liveIDs = append(liveIDs[:k], liveIDs[k+1:]...)
			}
			call(func() { w.h.HandleValueRemoved(w.inst, w.value(id, true)) })
		case "acq":
			w.mtx.Lock()
			if len(w.acqParked) == 0 {
				w.mtx.Unlock()
				return
			}
			k := e.rng.Intn(len(w.acqParked))
			t := w.acqParked[k]
			w.acqParked = append(w.acqParked[:k], w.acqParked[k+1:]...)
			w.acqRunning = t
			w.mtx.Unlock()
			close(t.release)
			select {
			case <-t.done:
			case <-time.After(waitLimit):
				fail = "acquire goroutine did not finish"
			}
		case "rel":
			w.mtx.Lock()
			if len(w.relParked) == 0 {
				w.mtx.Unlock()
				return
			}
			k := e.rng.Intn(len(w.relParked))
			t := w.relParked[k]
			w.relParked = append(w.relParked[:k], w.relParked[k+1:]...)
			want := w.relDone + 1
			w.mtx.Unlock()
			close(t.release)
			if !w.waitFor(func() bool { return w.relDone >= want }) {
				fail = "release goroutine did not finish"
			}
		case "irel":
			if _, rel := w.inst.counts(); rel {
				return
			}
			w.inst.dispose()
		case "disp":
			if _, rel := w.inst.counts(); !rel {
				return // the instance only calls HandleInstanceDisposed after its release
			}
			call(func() { w.h.HandleInstanceDisposed(w.inst) })
		}
		if fail != "" {
			return
		}
		if !w.settle() {
			fail = "a spawned goroutine did not reach its gate"
		}
		post := w.snapshot()
		ops = append(ops, st)
		trace = append(trace, post)
		e.holdBranch(st, pre, post)
		check()
	}
	for _, st := range steps {
		if fail != "" {
			break
		}
		do(st)
	}
	// drain: run every parked goroutine, acquires first
	for fail == "" {
		w.mtx.Lock()
		na, nr := len(w.acqParked), len(w.relParked)
		w.mtx.Unlock()
		if na > 0 {
			do("acq")
		} else if nr > 0 {
			do("rel")
		} else {
			break
		}
	}
	op := "wrappers.hold ops=" + list(ops)
	model := e.m.Query(op)
	impl := fmt.Sprintf("ok trace=%s final=%s quiescent=1", list(trace), w.snapshot())
	if len(trace) == 0 {
		impl = "ok trace=_ final=" + w.snapshot() + " quiescent=1"
	}
	if fail != "" {
		impl = "harness-failure " + fail
	}
	key := "wrappers.hold"
	if monCls != "" {
		key = "wrappers.hold:" + monCls
	}
	e.rep.Compare(op+" # "+label, model, impl, "hold.sched", key, mon)
}

// holdBranch classifies a step by what it did to the observed state (vc/rigid/pa/pr/out/rel).
func (e *engine) holdBranch(st, pre, post string) {
	var a, b [6]int
	fmt.Sscanf(strings.ReplaceAll(pre, "/", " "), "%d %d %d %d %d %d", &a[0], &a[1], &a[2], &a[3], &a[4], &a[5])
	fmt.Sscanf(strings.ReplaceAll(post, "/", " "), "%d %d %d %d %d %d", &b[0], &b[1], &b[2], &b[3], &b[4], &b[5])
	switch st {
	case "add":
		if b[2] > a[2] {
			e.branch("add.spawn")
		} else {
			e.branch("add.nospawn")
		}
	case "other":
		e.branch("add.other")
	case "rm":
		switch {
		case b[3] > a[3]:
			e.branch("remove.release")
		case a[0] == 0:
			e.branch("remove.spurious")
		case b[0] == 0:
			e.branch("remove.last-unheld")
		default:
			e.branch("remove.keep")
		}
	case "acq":
		switch {
		case b[1] > a[1]:
			if a[5] == 1 {
				e.branch("acquire.take-dead")
			} else {
				e.branch("acquire.take")
			}
		case a[0] == 0:
			e.branch("acquire.skip-nolinks")
		default:
			e.branch("acquire.skip-held")
		}
	case "rel":
		if a[5] == 1 {
			e.branch("release.dead")
		} else {
			e.branch("release.live")
		}
	case "irel":
		e.branch("instance.released")
	case "disp":
		if b[3] > a[3] {
			e.branch("disposed.release")
		} else {
			e.branch("disposed.noref")
		}
	}
}

// holdExclusion checks the atomicity proviso for the acquire goroutine: while it is parked
// INSIDE its critical section a concurrent HandleValueRemoved / HandleValueAdded must not return.
func (e *engine) holdExclusion(other string) {
	w := e.newHoldWorld(false)
	defer func() { link_holdopen_controller.VerifGate = nil }()
	parked, rel := make(chan struct{}), make(chan struct{})
	var once sync.Once
	link_holdopen_controller.VerifGate = func(name string) {
		if name == "acquire.locked" {
			first := false
			once.Do(func() { first = true })
			if first {
				close(parked)
				<-rel
			}
			return
		}
		if name != "acquire" {
			w.gate(name)
		}
	}
	w.h.HandleValueAdded(w.inst, w.value(1, true))
	fail := ""
	select {
	case <-parked:
	case <-time.After(waitLimit):
		fail = "acquire goroutine did not reach its critical section"
	}
	done := make(chan struct{})
	go func() {
		if other == "rm" {
			w.h.HandleValueRemoved(w.inst, w.value(1, true))
		} else {
			w.h.HandleValueAdded(w.inst, w.value(2, true))
		}
		close(done)
	}()
	early := false
	select {
	case <-done:
		early = true
	case <-time.After(30 * time.Millisecond):
	}
	close(rel)
	<-done
	if !w.waitFor(func() bool { return w.acqSpawned == w.acqDone && w.relSpawned == w.relDone }) {
		fail = "no quiescence"
	}
	ops := "add,acq,rm,rel"
	live := 0
	if other == "add" {
		ops, live = "add,acq,add", 2
	}
	op := "wrappers.hold ops=" + ops
	model := e.m.Query(op)
	out, released := w.inst.counts()
	mon, cls := holdMonitor(live, out, released)
	impl := "final=" + w.snapshot() + " exclusive=" + b01(!early)
	if fail != "" {
		impl = "harness-failure " + fail
	}
	key := "wrappers.hold:exclusion"
	if cls != "" {
		key = "wrappers.hold:" + cls
	}
	e.rep.Compare(op+" # "+other+" while the acquire goroutine is inside its critical section", "final="+lib.KV(model, "final")+" exclusive=1", impl, "hold.exclusion", key, mon)
}

// valueCtrl is a controller that resolves EstablishLinkWithPeer for one target peer and hands
// its ResolverHandler to the harness, which then adds / removes link values at will.
type valueCtrl struct {
	target peer.ID
	rh     chan directive.ResolverHandler
}

func (c *valueCtrl) GetControllerInfo() *controller.Info {
	return controller.NewInfo("verif/link-values", semver.MustParse("0.0.1"), "emits link values")
}
func (c *valueCtrl) Execute(ctx context.Context) error { return nil }
func (c *valueCtrl) Close() error                      { return nil }
func (c *valueCtrl) HandleDirective(ctx context.Context, di directive.Instance) ([]directive.Resolver, error) {
	d, ok := di.GetDirective().(link.EstablishLinkWithPeer)
	if !ok || d.EstablishLinkTargetPeerId() != c.target {
		return nil, nil
	}
	return directive.Resolvers(directive.NewFuncResolver(func(rctx context.Context, rh directive.ResolverHandler) error {
		select {
		case c.rh <- rh:
		default:
		}
		rh.MarkIdle(true)
		<-rctx.Done()
		return nil
	})), nil
}

// holdRealBus runs a scenario against the REAL controllerbus: the hold-open controller and a
// value-emitting controller on a real bus, an EstablishLinkWithPeer directive whose only other
// reference is released at the end. Observation (no fakes): DirectiveInstance.
// CloseIfUnreferenced(false) — false iff some non-weak reference (hold-open's) is still held.
// steps: add rm acq (acquire goroutines are parked at the gate as in holdSched).
func (e *engine) holdRealBus(steps []string, label string) {
	ctx, cancel := context.WithCancel(context.Background())
	defer cancel()
	tb, err := testbed.NewTestbed(ctx, e.le, testbed.TestbedOpts{NoPeer: true, NoEcho: true})
	if err != nil {
		panic(err)
	}
	defer tb.Release()
	w := &holdWorld{e: e, sched: true}
	w.cond = sync.NewCond(&w.mtx)
	link_holdopen_controller.VerifGate = w.gate
	defer func() { link_holdopen_controller.VerifGate = nil }()
	target := peer.ID("real-bus-target")
	vc := &valueCtrl{target: target, rh: make(chan directive.ResolverHandler, 1)}
	relV, err := tb.Bus.AddController(ctx, vc, nil)
	if err != nil {
		panic(err)
	}
	defer relV()
	hc, _ := link_holdopen_controller.NewController(tb.Bus, e.le)
	relH, err := tb.Bus.AddController(ctx, hc, nil)
	if err != nil {
		panic(err)
	}
	defer relH()
	di, ref, err := tb.Bus.AddDirective(link.NewEstablishLinkWithPeer("", target), nil)
	if err != nil {
		panic(err)
	}
	fail := ""
	var rh directive.ResolverHandler
	select {
	case rh = <-vc.rh:
	case <-time.After(waitLimit):
		fail = "resolver not started"
	}
	var ops []string
	var liveIDs []uint32
	uuid := uint64(100)
	for _, st := range steps {
		if fail != "" {
			break
		}
		switch st {
		case "add":
			uuid++
			var ml link.MountedLink = &fakeLink{uuid: uuid, tpt: 1, local: "local-peer", remote: target}
			id, ok := rh.AddValue(ml)
			if !ok {
				fail = "AddValue refused"
			}
			liveIDs = append(liveIDs, id)
		case "rm":
			if len(liveIDs) == 0 {
				continue
			}
			k := e.rng.Intn(len(liveIDs))
			rh.RemoveValue(liveIDs[k])
			liveIDs = append(liveIDs[:k], liveIDs[k+1:]...)
		case "acq":
			w.mtx.Lock()
			if len(w.acqParked) == 0 {
				w.mtx.Unlock()
				continue
			}
			t := w.acqParked[0]
			w.acqParked = w.acqParked[1:]
			w.acqRunning = t
			w.mtx.Unlock()
			close(t.release)
			select {
			case <-t.done:
			case <-time.After(waitLimit):
				fail = "acquire goroutine did not finish"
			}
		}
		ops = append(ops, st)
		if !w.waitFor(func() bool { return w.acqSpawned == len(w.acqParked)+w.acqDone }) {
			fail = "a spawned acquire goroutine did not reach its gate"
		}
	}
	// drain the acquire goroutines, then drop our own reference
	for fail == "" {
		w.mtx.Lock()
		if len(w.acqParked) == 0 {
			w.mtx.Unlock()
			break
		}
		t := w.acqParked[0]
		w.acqParked = w.acqParked[1:]
		w.acqRunning = t
		w.mtx.Unlock()
		close(t.release)
		<-t.done
		ops = append(ops, "acq")
	}
	ref.Release()
	// model: run the pending releases too, then read `outstanding`
	mq := e.m.Query("wrappers.hold ops=" + list(ops))
	var f [6]int
	fmt.Sscanf(strings.ReplaceAll(lib.KV(mq, "final"), "/", " "), "%d %d %d %d %d %d", &f[0], &f[1], &f[2], &f[3], &f[4], &f[5])
	modelHeld := f[4] - f[3] // references not yet handed to a release goroutine
	// observe: with links the instance must stay referenced; without, it must become
	// unreferenced as soon as the release goroutine has run
	held := true
	deadline := time.Now().Add(2 * time.Second)
	if len(liveIDs) > 0 {
		time.Sleep(2 * time.Millisecond)
		held = !di.CloseIfUnreferenced(false)
	} else {
		for held && time.Now().Before(deadline) {
			held = !di.CloseIfUnreferenced(false)
			if held {
				time.Sleep(200 * time.Microsecond)
			}
		}
	}
	mon, cls := "", ""
	switch {
	case held && len(liveIDs) == 0:
		mon, cls = "real controllerbus: hold-open still holds a strong reference with 0 links — the link request cannot expire", "ref-without-links"
	case !held && len(liveIDs) > 0:
		mon, cls = fmt.Sprintf("real controllerbus: the link request became unreferenced although %d links exist", len(liveIDs)), "no-ref-with-links"
	}
	impl := "held=" + b01(held)
	if fail != "" {
		impl = "harness-failure " + fail
	}
	key := "wrappers.holdbus"
	if cls != "" {
		key = "wrappers.hold:" + cls
	}
	e.rep.Compare("wrappers.hold ops="+list(ops)+" # real-bus "+label, "held="+b01(modelHeld > 0), impl, "hold.realbus", key, mon)
}

func (e *engine) runC33() {
	e.rep.Rule = "scheduled scenarios on the real establishLinkHandler attached by the real Controller.HandleDirective to a fake directive instance that counts non-weak references: add / non-link add / remove / instance release / disposed callbacks interleaved with the acquire and release goroutines, which are parked at gates and run one at a time in a seeded random order; the guarded fields, pending goroutines and reference count after EVERY step compared with the Lean LTS; plus unscheduled concurrent add/remove storms compared at quiescence; plus gate-independent schedules (VerifGate nil): the fake instance's non-weak AddReference BLOCKS, further HandleValueAdded / HandleValueRemoved calls are started while acquisitions are in flight (named: two / three adds before the first acquisition finished, remove while acquiring, second generation; seeded random scripts of 3-16 steps), every call has returned or is blocked (Go scheduler states) before one parked AddReference is let go in random order; monitor: at every quiescent point the instance holds one strong reference iff a link is live; plus, on a real controllerbus, 2-3 link requests (same target with and without a source peer, another target) on ONE hold-open controller, link values added / removed on each in seeded random interleavings with the acquire goroutines parked and run in random order, the controller joining before / after / while the values exist, concurrent storms; per request at quiescent points: the requester drops its reference and the real instance stays referenced iff it has a link (CloseIfUnreferenced), expired requests are made again; distinct = distinct op line"
	e.rep.Require("hold.sched", "hold.storm", "hold.exclusion", "hold.realbus", "quiescent", "add.spawn", "add.nospawn", "add.other", "remove.release",
		"remove.keep", "remove.last-unheld", "remove.spurious", "acquire.take", "acquire.skip-nolinks", "acquire.skip-held",
		"release.live", "release.dead", "instance.released", "disposed.release", "disposed.noref", "acquire.take-dead")
	// several link requests on one hold-open controller; link values that exist before the controller (realbus.go)
	e.rep.Require("hold.multibus", "hold.multistorm", "multi.probe-held", "multi.probe-expired", "multi.recreated-held",
		"multi.same-target-independent", "multi.two-targets-independent", "multi.acquires-parked-two-instances",
		"pre.kept", "pre.removed-before-join", "pre.removed-after-join", "pre.replay-acquire-parked",
		"multistorm.join-race", "multistorm.join-after")
	// the schedules the property names, every run
	e.holdSched([]string{"add", "rm", "acq"}, "remove-before-acquire")
	e.holdSched([]string{"add", "add", "acq", "acq", "rm", "rm", "rel"}, "two-adds-before-acquire")
	e.holdSched([]string{"add", "rm", "add", "acq", "acq", "rm", "rel"}, "add-remove-add-before-acquire")
	e.holdSched([]string{"add", "acq", "rm", "add", "rel", "acq", "rm", "rel"}, "rapid-remove-add")
	e.holdSched([]string{"add", "add", "add", "acq", "rm", "acq", "rm", "acq", "rm", "rel"}, "three-links")
	e.holdSched([]string{"add", "acq", "irel", "disp", "rel", "disp"}, "disposed-with-link")
	e.holdSched([]string{"add", "irel", "acq", "disp", "rel"}, "acquire-after-instance-release")
	e.holdSched([]string{"add", "irel", "disp", "acq", "rm"}, "acquire-after-disposed")
	e.holdSched([]string{"other", "rm", "add", "other", "acq"}, "non-link-value")
	e.holdSched([]string{"add", "acq", "rm", "irel", "rel", "disp"}, "release-after-instance-release")
	n := 200 * e.a.Scale
	for c := 0; c < n; c++ {
		var steps []string
		ns := 3 + e.rng.Intn(14)
		live := 0
		for i := 0; i < ns; i++ {
			switch x := e.rng.Intn(100); {
			case x < 30 && live < 3:
				steps = append(steps, "add")
				live++
			case x < 50 && live > 0:
				steps = append(steps, "rm")
				live--
			case x < 72:
				steps = append(steps, "acq")
			case x < 88:
				steps = append(steps, "rel")
			case x < 91:
				steps = append(steps, "other")
			case x < 93:
				steps = append(steps, "rm") // possibly spurious
				if live > 0 {
					live--
				}
			case x < 96 && c%4 == 0:
				steps = append(steps, "irel")
			case x < 100 && c%4 == 0:
				steps = append(steps, "disp")
			}
		}
		e.holdSched(steps, "random")
	}
	e.holdExclusion("rm")
	e.holdExclusion("add")
	e.holdRealBus([]string{"add", "acq"}, "link-held")
	e.holdRealBus([]string{"add", "rm", "acq"}, "remove-before-acquire")
	e.holdRealBus([]string{"add", "add", "acq", "acq", "rm", "rm"}, "two-adds-before-acquire")
	e.holdRealBus([]string{"add", "acq", "rm", "add", "acq"}, "rapid-remove-add")
	e.holdRealBus([]string{"add", "rm", "add", "acq", "acq", "rm"}, "add-remove-add")
	for c := 0; c < 10*e.a.Scale; c++ {
		var steps []string
		live := 0
		for i, ns := 0, 2+e.rng.Intn(8); i < ns; i++ {
			switch x := e.rng.Intn(10); {
			case x < 4 && live < 3:
				steps = append(steps, "add")
				live++
			case x < 7 && live > 0:
				steps = append(steps, "rm")
				live--
			default:
				steps = append(steps, "acq")
			}
		}
		e.holdRealBus(steps, "random")
	}
	e.holdStorms()
	e.holdInflights()
	e.runC33Multi()
}

// holdStorms: unscheduled concurrency on one handler, several rounds; compared at quiescence.
func (e *engine) holdStorms() {
	n := 40 * e.a.Scale
	for c := 0; c < n; c++ {
		w := e.newHoldWorld(false)
		var idc atomic.Uint32
		adds, rms := 0, 0
		mon, monCls := "", ""
		var finals []string
		rounds := 1 + e.rng.Intn(3)
		held := 0 // links added in earlier rounds and still live
		for r := 0; r < rounds && mon == ""; r++ {
			workers := 2 + e.rng.Intn(3)
			var wg sync.WaitGroup
			start := make(chan struct{})
			var roundAdds, roundRms atomic.Int32
			for k := 0; k < workers; k++ {
				reps := 1 + e.rng.Intn(4)
				keep := e.rng.Intn(3) == 0 // this worker leaves its last link in place
				wg.Add(1)
				go func() {
					defer wg.Done()
					<-start
					for i := 0; i < reps; i++ {
						id := idc.Add(1)
						w.h.HandleValueAdded(w.inst, w.value(id, true))
						roundAdds.Add(1)
						w.maybeYield()
						if keep && i == reps-1 {
							break
						}
						w.h.HandleValueRemoved(w.inst, w.value(id, true))
						roundRms.Add(1)
						w.maybeYield()
					}
				}()
			}
			close(start)
			wg.Wait()
			adds += int(roundAdds.Load())
			rms += int(roundRms.Load())
			held = adds - rms
			// last round sometimes removes everything that is left, sequentially
			if r == rounds-1 && e.rng.Intn(2) == 0 {
				for ; held > 0; held-- {
					w.h.HandleValueRemoved(w.inst, w.value(9000+uint32(held), true))
					rms++
				}
			}
			if !w.waitFor(func() bool { return w.acqSpawned == w.acqDone && w.relSpawned == w.relDone }) {
				mon, monCls = "", ""
				finals = append(finals, "harness-failure no-quiescence")
				break
			}
			e.branch("quiescent")
			out, rel := w.inst.counts()
			mon, monCls = holdMonitor(held, out, rel)
			finals = append(finals, w.snapshot())
		}
		link_holdopen_controller.VerifGate = nil
		// the model's prediction for the final quiescent state: any linearisation will do
		// (quiescent_refcount: the quiescent state is determined by the number of live links)
		var ops []string
		for i := 0; i < adds; i++ {
			ops = append(ops, "add")
			if i == 0 {
				ops = append(ops, "acq")
			}
		}
		for i := 0; i < rms; i++ {
			ops = append(ops, "rm")
		}
		if adds > 0 && adds == rms {
			ops = append(ops, "rel")
		}
		op := "wrappers.hold ops=" + list(ops)
		model := e.m.Query(op)
		last := ""
		if len(finals) > 0 {
			last = finals[len(finals)-1]
		}
		key := "wrappers.holdstorm"
		if monCls != "" {
			key = "wrappers.hold:" + monCls
		}
		e.rep.Compare(fmt.Sprintf("%s # storm adds=%d removes=%d rounds=%s", op, adds, rms, strings.Join(finals, ";")),
			"final="+lib.KV(model, "final")+" quiescent="+lib.KV(model, "quiescent"), "final="+last+" quiescent=1", "hold.storm", key, mon)
	}
}

func main() {
	a := lib.ParseArgs()
	e := &engine{a: a, rng: lib.NewRng(a.Seed), m: lib.NewModel(a.Driver)}
	e.rep = lib.NewReport("wrappers", a)
	lg := logrus.New()
	lg.SetLevel(logrus.PanicLevel)
	e.le = logrus.NewEntry(lg)
	switch a.Prop {
	case "C31":
		e.runC31()
	case "C33":
		e.runC33()
	default:
		fmt.Println("unknown property", a.Prop)
		return
	}
	e.m.Close()
	e.rep.Write(a.Out)
}
