package main

// Schedule sources and handler behaviours for C31 that do NOT depend on the verif gate points of
// link/solicit/solicit-mounted.go (a rewrite of Close / AcceptMountedStream may move or bypass
// them, or release the mutex where the gates cannot see it):
//
//   - smsInflight: the fake underlying stream's Close() blocks; while it is IN FLIGHT the engine
//     starts 1–4 AcceptMountedStream callers (and a second Close), waits until the Go scheduler
//     reports that each of them has either returned or is blocked, then lets the Close finish.
//   - smsInflightReverse: the accept callers start first and are raced by a Close whose stream
//     Close() blocks: whoever loses must see the winner's decision.
//   - smsRefuse: resolveMatch with 1–3 matching directives whose handlers REFUSE the value
//     (AddValue = false) in every position of resolveMatch's own visiting order, the consumers
//     of the handlers that take it accepting inside AddValue / after resolveMatch / never.
//   - smsRefuseBus: the same with a REAL controllerbus: real SolicitProtocol directives, real
//     resolver handlers captured by a resolving controller, one or two of the directives released
//     before resolveMatch runs (a released directive's handler answers AddValue with false).
//
// The monitors read only the event log of the fake stream ("close:" begin / "cend:" end) and the
// return values of the AcceptMountedStream calls.

import (
	"context"
	"fmt"
	"strings"
	"sync"
	"sync/atomic"
	"time"

	link_solicit "github.com/aperturerobotics/bifrost/link/solicit"
	link_solicit_controller "github.com/aperturerobotics/bifrost/link/solicit/controller"
	"github.com/aperturerobotics/bifrost/peer"
	"github.com/aperturerobotics/bifrost/protocol"
	"github.com/aperturerobotics/bifrost/testbed"
	"github.com/aperturerobotics/controllerbus/controller"
	"github.com/aperturerobotics/controllerbus/directive"
	"github.com/blang/semver/v4"

	"verif/harness/lib"
	"verif/harness/quiet"
)

// settleCalls waits until every goroutine of the process is blocked or done (load-proof: a
// starved goroutine stays "runnable" however long the machine makes it wait).
func settleCalls(stamp func() int) {
	quiet.Settle(stamp, 150*time.Microsecond, 3, 3*time.Second)
}

// smsInflight: Close first. k matching directives; nAcc accept callers (through the values of
// different directives) and, if secondClose, one more Close start while the stream's Close() of
// the first Close is in flight.
func (e *engine) smsInflight(k, nAcc int, secondClose bool, label string) {
	w := &smsWorld{e: e}
	res0 := w.create(fmt.Sprintf("r%d", k))
	entered := make(chan struct{}, 8)
	release := make(chan struct{})
	var inHook atomic.Int32
	w.closeHook = func(s *fakeStream) {
		if inHook.Add(1) == 1 {
			entered <- struct{}{}
			<-release
		}
	}
	fail := ""
	oc := w.obj(0, e.rng.Intn(4))
	closeDone := make(chan string, 1)
	go func() { closeDone <- lib.Recover(func() string { return w.doClose(oc) }) }()
	inflight := false
	closeRes := ""
	select {
	case <-entered:
		inflight = true
	case closeRes = <-closeDone:
	case <-time.After(waitLimit):
		fail = "Close neither entered the stream's Close() nor returned"
	}
	// the callers that land while the stream's Close() is in flight
	var returned atomic.Int32
	n := nAcc
	if secondClose {
		n++
	}
	res := make([]string, n)
	calls := make([]string, n)
	var wg sync.WaitGroup
	for i := 0; i < n; i++ {
		o := w.obj(0, i)
		isClose := secondClose && i == nAcc
		calls[i] = "a0"
		if isClose {
			calls[i] = "c0"
		}
		wg.Add(1)
		go func(i int) {
			defer wg.Done()
			res[i] = lib.Recover(func() string {
				if isClose {
					return w.doClose(o)
				}
				return w.doAccept(o)
			})
			returned.Add(1)
		}(i)
	}
	settleCalls(func() int { return int(returned.Load()) })
	early := int(returned.Load())
	close(release)
	if closeRes == "" && fail == "" {
		select {
		case closeRes = <-closeDone:
		case <-time.After(waitLimit):
			fail = "Close did not return after the stream's Close() returned"
		}
	}
	allDone := make(chan struct{})
	go func() { wg.Wait(); close(allDone) }()
	select {
	case <-allDone:
	case <-time.After(waitLimit):
		fail = "a call that started while Close was in flight never returned"
	}
	// the model: Close is one critical section; every call that started while it was in flight
	// is ordered after it
	ops := append([]string{fmt.Sprintf("r%d", k), "c0"}, calls...)
	op := "wrappers.sms ops=" + list(ops)
	model := e.m.Query(op)
	impl := "ok res=" + list(append([]string{res0, closeRes}, res...)) + " " + w.snapshot()
	if fail != "" {
		impl = "harness-failure " + fail
	}
	mon, cls := w.monitor()
	key := "wrappers.sms:inflight"
	if cls != "" {
		key = "wrappers.sms:" + cls
	}
	e.rep.Compare(fmt.Sprintf("%s # %s: %d accept callers%s start while the stream's Close() is in flight (inflight=%v, returned before it finished: %d)",
		op, label, nAcc, map[bool]string{true: " and a second Close", false: ""}[secondClose], inflight, early), model, impl, "sms.inflight", key, mon)
	if inflight {
		e.branch("inflight.close-in-flight")
	}
	if early == 0 {
		e.branch("inflight.callers-blocked")
	} else {
		e.branch("inflight.callers-early")
	}
	if nAcc > 1 {
		e.branch("inflight.several-accepts")
	}
}

// smsInflightReverse: the accept callers and the Close leave a barrier together; the stream's
// Close() (if the Close wins) blocks until every other call has returned or is blocked. Any
// linearisation of the calls is accepted (wrappers.lin); the monitor judges the events.
func (e *engine) smsInflightReverse(k, nAcc int, label string) {
	w := &smsWorld{e: e}
	init := fmt.Sprintf("r%d", k)
	w.create(init)
	var returned atomic.Int32
	release := make(chan struct{})
	var inHook atomic.Int32
	w.closeHook = func(s *fakeStream) {
		if inHook.Add(1) == 1 {
			<-release
		}
	}
	n := nAcc + 1
	closer := e.rng.Intn(n)
	calls := make([]string, n)
	res := make([]string, n)
	start := make(chan struct{})
	var wg sync.WaitGroup
	for i := 0; i < n; i++ {
		o := w.obj(0, i)
		isClose := i == closer
		calls[i] = "a0"
		if isClose {
			calls[i] = "c0"
		}
		wg.Add(1)
		go func(i int) {
			defer wg.Done()
			<-start
			res[i] = lib.Recover(func() string {
				if isClose {
					return w.doClose(o)
				}
				return w.doAccept(o)
			})
			returned.Add(1)
		}(i)
	}
	close(start)
	settleCalls(func() int { return int(returned.Load()) })
	inflight := inHook.Load() > 0 && int(returned.Load()) < n
	close(release)
	fail := ""
	allDone := make(chan struct{})
	go func() { wg.Wait(); close(allDone) }()
	select {
	case <-allDone:
	case <-time.After(waitLimit):
		fail = "a call never returned"
	}
	op := fmt.Sprintf("wrappers.lin init=%s calls=%s obs=%s", init, list(calls), list(res))
	model := e.m.Query(op)
	impl := "ok lin=1 perms=" + lib.KV(model, "perms")
	if fail != "" {
		impl = "harness-failure " + fail
	}
	mon, cls := w.monitor()
	key := "wrappers.sms:inflight"
	if cls != "" {
		key = "wrappers.sms:" + cls
	}
	e.rep.Compare(op+" # "+label+": accept callers raced by a Close whose stream Close() blocks", model, impl, "sms.inflight-race", key, mon)
	if inflight {
		e.branch("inflight.close-won-race")
	} else {
		e.branch("inflight.accept-won-race")
	}
}

// smsRefuse: resolveMatch with n matching directives; the handler visited at position p takes
// the value iff takes[p]. mode: what the consumers of the taking handlers do — "immediate"
// (AcceptMountedStream inside AddValue, i.e. before resolveMatch has visited the next handler),
// "late" (after resolveMatch returned), "never".
func (e *engine) smsRefuse(takes []bool, mode string) {
	w := &smsWorld{e: e}
	n := len(takes)
	var immediate []string
	var held []link_solicit.SolicitMountedStream
	badVisit := false
	res0 := lib.Recover(func() string {
		return w.createWith(fmt.Sprintf("r%d", n), func(visit int, v directive.Value) bool {
			if visit >= n {
				badVisit = true
				return false
			}
			if !takes[visit] {
				return false
			}
			sv, ok := v.(link_solicit.SolicitMountedStream)
			if !ok {
				return true
			}
			held = append(held, sv)
			if mode == "immediate" {
				immediate = append(immediate, lib.Recover(func() string { return w.doAccept(sv) }))
			}
			return true
		})
	})
	implRes := append([]string{res0}, immediate...)
	bits := ""
	took := 0
	for _, t := range takes {
		if t {
			bits += "1"
			took++
		} else {
			bits += "0"
		}
	}
	ops := []string{"h" + bits}
	for range immediate {
		ops = append(ops, "a0")
	}
	if mode == "late" {
		// in a shuffled order: the consumer of ANY taking handler may come first
		for _, j := range e.rng.Perm(len(held)) {
			sv := held[j]
			ops = append(ops, "a0")
			implRes = append(implRes, lib.Recover(func() string { return w.doAccept(sv) }))
		}
	}
	op := "wrappers.sms ops=" + list(ops)
	model := strings.ReplaceAll(e.m.Query(op), "v1d0", "d0")
	impl := "ok res=" + list(implRes) + " " + w.snapshot()
	if badVisit {
		impl += " visited-more-than-matching"
	}
	mon, cls := w.monitor()
	if mon == "" && len(w.vals) == 1 && w.vals[0].stream != nil {
		closes := int(w.vals[0].stream.closes.Load())
		// (a stream some handler took and no consumer accepted yet, closed by resolveMatch, is a
		// disagreement with the model — Props.C31.taken_not_closed — but not a clause of the property)
		if took == 0 && closes != 1 {
			mon, cls = fmt.Sprintf("a solicited stream that no directive took (%d matching, all handlers refused) was closed %d times by resolveMatch, not exactly once", n, closes), "unowned-not-closed-once"
		}
	}
	key := "wrappers.sms:refuse"
	if cls != "" {
		key = "wrappers.sms:" + cls
	}
	e.rep.Compare(fmt.Sprintf("%s # handlers in visiting order take=%s consumers=%s", op, bits, mode), model, impl, "sms.refuse", key, mon)
	switch {
	case took == 0:
		e.branch("refuse.all")
	case took == n:
		e.branch("refuse.none")
	default:
		if !takes[n-1] {
			e.branch("refuse.last-visited")
		}
		if !takes[0] {
			e.branch("refuse.first-visited")
		}
		if n == 3 && !takes[1] {
			e.branch("refuse.middle")
		}
	}
	if took > 0 {
		e.branch("consumer." + mode)
	}
}

// ---------------------------------------------------------------------------------------------
// real controllerbus: released directives refuse

// solCapture resolves SolicitProtocol directives and hands the real ResolverHandler to the engine.
type solCapture struct {
	mtx sync.Mutex
	rhs map[directive.Directive]directive.ResolverHandler
}

func (c *solCapture) GetControllerInfo() *controller.Info {
	return controller.NewInfo("verif/solicit-capture", semver.MustParse("0.0.1"), "captures SolicitProtocol resolver handlers")
}
func (c *solCapture) Execute(ctx context.Context) error { return nil }
func (c *solCapture) Close() error                      { return nil }
func (c *solCapture) HandleDirective(ctx context.Context, di directive.Instance) ([]directive.Resolver, error) {
	d, ok := di.GetDirective().(link_solicit.SolicitProtocol)
	if !ok {
		return nil, nil
	}
	return directive.Resolvers(directive.NewFuncResolver(func(rctx context.Context, rh directive.ResolverHandler) error {
		c.mtx.Lock()
		c.rhs[d] = rh
		c.mtx.Unlock()
		rh.MarkIdle(true)
		<-rctx.Done()
		return nil
	})), nil
}
func (c *solCapture) get(d directive.Directive) directive.ResolverHandler {
	c.mtx.Lock()
	defer c.mtx.Unlock()
	return c.rhs[d]
}

// recHandler wraps a real resolver handler and records, in visiting order, what AddValue answered.
type recHandler struct {
	directive.ResolverHandler
	idx int
	log *[]recVisit
	mtx *sync.Mutex
}

type recVisit struct {
	idx  int
	took bool
}

func (h *recHandler) AddValue(v directive.Value) (uint32, bool) {
	id, ok := h.ResolverHandler.AddValue(v)
	h.mtx.Lock()
	*h.log = append(*h.log, recVisit{h.idx, ok})
	h.mtx.Unlock()
	return id, ok
}

// busConsumer is the reference handler of one real SolicitProtocol directive.
type busConsumer struct {
	w         *smsWorld
	immediate bool
	mtx       sync.Mutex
	vals      []link_solicit.SolicitMountedStream
	// order: the results of the immediate accepts of ALL consumers of the scenario, in real-time order
	order *busOrder
}

type busOrder struct {
	mtx sync.Mutex
	res []string
}

func (c *busConsumer) HandleValueAdded(_ directive.Instance, v directive.AttachedValue) {
	sv, ok := v.GetValue().(link_solicit.SolicitMountedStream)
	if !ok {
		return
	}
	c.mtx.Lock()
	c.vals = append(c.vals, sv)
	c.mtx.Unlock()
	if c.immediate {
		c.order.mtx.Lock()
		c.order.res = append(c.order.res, lib.Recover(func() string { return c.w.doAccept(sv) }))
		c.order.mtx.Unlock()
	}
}
func (c *busConsumer) HandleValueRemoved(directive.Instance, directive.AttachedValue) {}
func (c *busConsumer) HandleInstanceDisposed(directive.Instance)                      {}

// smsRefuseBus: n real SolicitProtocol directives (different constraints, all matching the
// stream) on a real bus; the directives in `release` are released before resolveMatch runs with
// the real resolver handlers. What each handler answered is recorded in visiting order and
// handed to the model; the monitor is the same as everywhere.
func (e *engine) smsRefuseBus(n int, release []int, mode string) {
	ctx, cancel := context.WithCancel(context.Background())
	defer cancel()
	tb, err := testbed.NewTestbed(ctx, e.le, testbed.TestbedOpts{NoPeer: true, NoEcho: true})
	if err != nil {
		panic(err)
	}
	defer tb.Release()
	sc := &solCapture{rhs: map[directive.Directive]directive.ResolverHandler{}}
	relC, err := tb.Bus.AddController(ctx, sc, nil)
	if err != nil {
		panic(err)
	}
	defer relC()
	w := &smsWorld{e: e}
	remote := peer.ID("remote-peer")
	ml := &fakeLink{uuid: 7, tpt: 42, local: "local-peer", remote: remote}
	sid := link_solicit.ComputeSessionID(ml.local, ml.remote)
	pid := protocol.ID("proto/bus")
	hash := link_solicit.ComputeProtocolHash(sid, pid, []byte("ctx"))
	constraints := []struct {
		p peer.ID
		t uint64
	}{{"", 0}, {remote, 0}, {"", 42}, {remote, 42}}
	perm := e.rng.Perm(len(constraints))
	var dirs []link_solicit.SolicitProtocol
	order := &busOrder{}
	var cons []*busConsumer
	var insts []directive.Instance
	var refs []directive.Reference
	fail := ""
	for i := 0; i < n; i++ {
		c := constraints[perm[i]]
		d := link_solicit.NewSolicitProtocol(pid, []byte("ctx"), c.p, c.t)
		bc := &busConsumer{w: w, immediate: mode == "immediate", order: order}
		di, ref, err := tb.Bus.AddDirective(d, bc)
		if err != nil {
			panic(err)
		}
		dirs = append(dirs, d)
		cons = append(cons, bc)
		insts = append(insts, di)
		refs = append(refs, ref)
	}
	rhs := make([]directive.ResolverHandler, n)
	var visits []recVisit
	var vmtx sync.Mutex
	deadline := time.Now().Add(waitLimit)
	for i, d := range dirs {
		for sc.get(d) == nil {
			if time.Now().After(deadline) {
				fail = "SolicitProtocol resolver did not start"
				break
			}
			time.Sleep(50 * time.Microsecond)
		}
		rhs[i] = &recHandler{ResolverHandler: sc.get(d), idx: i, log: &visits, mtx: &vmtx}
	}
	released := map[int]bool{}
	for _, j := range release {
		if j < n && !released[j] {
			released[j] = true
			refs[j].Release()
			insts[j].Close()
		}
	}
	settleCalls(func() int { return 0 })
	strm := &fakeStream{id: 0, w: w}
	w.nextID = 1
	ms := &fakeMounted{strm: strm, ml: ml}
	if fail == "" {
		if r := lib.Recover(func() string {
			link_solicit_controller.VerifResolveMatch(e.le, dirs, rhs, ml, sid, hash, ms)
			return ""
		}); r != "" {
			fail = r
		}
	}
	settleCalls(func() int { vmtx.Lock(); defer vmtx.Unlock(); return len(visits) })
	v := &smsValue{stream: strm}
	w.vals = append(w.vals, v)
	bits := ""
	took := 0
	vmtx.Lock()
	for _, vis := range visits {
		if vis.took {
			bits += "1"
			took++
		} else {
			bits += "0"
		}
	}
	nvis := len(visits)
	vmtx.Unlock()
	ops := []string{"h" + bits}
	implRes := []string{fmt.Sprintf("v1d%d", took)}
	if took == 0 {
		implRes[0] = "d0"
	}
	distinct := map[link_solicit.SolicitMountedStream]bool{}
	for _, bc := range cons {
		bc.mtx.Lock()
		for _, sv := range bc.vals {
			distinct[sv] = true
			v.objs = append(v.objs, sv)
		}
		bc.mtx.Unlock()
	}
	order.mtx.Lock()
	for _, r := range order.res {
		ops = append(ops, "a0")
		implRes = append(implRes, r)
	}
	order.mtx.Unlock()
	if len(distinct) > 1 {
		implRes[0] = fmt.Sprintf("v%dd%d", len(distinct), took)
	}
	if mode == "late" {
		for _, j := range e.rng.Perm(len(cons)) {
			bc := cons[j]
			bc.mtx.Lock()
			vals := append([]link_solicit.SolicitMountedStream(nil), bc.vals...)
			bc.mtx.Unlock()
			for _, sv := range vals {
				ops = append(ops, "a0")
				implRes = append(implRes, lib.Recover(func() string { return w.doAccept(sv) }))
			}
		}
	}
	op := "wrappers.sms ops=" + list(ops)
	model := strings.ReplaceAll(e.m.Query(op), "v1d0", "d0")
	impl := "ok res=" + list(implRes) + " " + w.snapshot()
	if fail != "" {
		impl = "harness-failure " + fail
	}
	mon, cls := w.monitor()
	closes := int(strm.closes.Load())
	if mon == "" && fail == "" {
		if took == 0 && closes != 1 {
			mon, cls = fmt.Sprintf("real controllerbus: a solicited stream that no directive took (%d matching, all released) was closed %d times by resolveMatch, not exactly once", n, closes), "unowned-not-closed-once"
		}
	}
	// a released directive's consumer must not have been handed the value
	for j, bc := range cons {
		bc.mtx.Lock()
		if released[j] && len(bc.vals) > 0 && mon == "" {
			e.branch("refuse.bus-released-took")
		}
		bc.mtx.Unlock()
	}
	key := "wrappers.sms:refuse-bus"
	if cls != "" {
		key = "wrappers.sms:" + cls
	}
	e.rep.Compare(fmt.Sprintf("%s # real bus: %d directives, released=%v, visited=%d, handlers in visiting order took=%s, consumers=%s", op, n, release, nvis, bits, mode),
		model, impl, "sms.refuse-bus", key, mon)
	if took > 0 && took < nvis {
		e.branch("refuse.bus-mixed")
		if bits[len(bits)-1] == '0' {
			e.branch("refuse.bus-last-visited")
		} else {
			e.branch("refuse.bus-last-takes")
		}
	}
	if nvis > 0 && took == 0 {
		e.branch("refuse.bus-all")
	}
	for j := range refs {
		if !released[j] {
			refs[j].Release()
		}
	}
}

// runC31Extra: the gate-independent schedules and the refusing handlers.
func (e *engine) runC31Extra() {
	// Close in flight, callers land — the schedules the property names, every run
	e.smsInflight(1, 1, false, "accept-while-close-in-flight")
	e.smsInflight(2, 2, false, "two-directives-accept-while-close-in-flight")
	e.smsInflight(3, 3, false, "three-directives-accept-while-close-in-flight")
	e.smsInflight(3, 4, true, "four-accepts-and-a-close-while-close-in-flight")
	e.smsInflight(1, 1, true, "accept-and-close-while-close-in-flight")
	for c := 0; c < 6*e.a.Scale; c++ {
		e.smsInflight(1+e.rng.Intn(4), 1+e.rng.Intn(4), e.rng.Intn(3) == 0, "random")
	}
	// the reverse order: accepts raced by a blocking Close
	for c := 0; c < 12*e.a.Scale; c++ {
		e.smsInflightReverse(1+e.rng.Intn(3), 1+e.rng.Intn(4), "race")
	}
	// refusing handlers: every position among 1–3 matching directives, three consumer behaviours
	for n := 1; n <= 3; n++ {
		for bitsV := 0; bitsV < 1<<n; bitsV++ {
			takes := make([]bool, n)
			for i := range takes {
				takes[i] = bitsV&(1<<i) != 0
			}
			for _, mode := range []string{"immediate", "late", "never"} {
				// twice: the directive (constraint kind) visited at each position varies with the map order
				e.smsRefuse(takes, mode)
				e.smsRefuse(takes, mode)
			}
		}
	}
	// real bus, released directives: repeated so that the released directive is visited first / last
	for rep := 0; rep < 6; rep++ {
		for _, mode := range []string{"immediate", "late"} {
			e.smsRefuseBus(2, []int{rep % 2}, mode)
			e.smsRefuseBus(3, []int{rep % 3}, mode)
		}
		e.smsRefuseBus(3, []int{rep % 3, (rep + 1) % 3}, "late")
	}
	e.smsRefuseBus(2, []int{0, 1}, "late")
	e.smsRefuseBus(3, nil, "immediate")
	// make sure both visiting orders of the real map iteration were seen (bounded retries)
	for try := 0; try < 40 && (e.rep.Branches["refuse.bus-last-visited"] == 0 || e.rep.Branches["refuse.bus-last-takes"] == 0); try++ {
		e.smsRefuseBus(2+try%2, []int{try % 2}, []string{"immediate", "late"}[try%2])
	}
}
