package main

// Real-controllerbus scenarios that close two audited gaps of this engine:
//
// C33 (holdMulti / holdMultiStorm): SEVERAL EstablishLinkWithPeer directive instances on ONE
// hold-open controller (same target with source "" and with a source peer, and a different
// target), link values added / removed on each through real resolver handlers in seeded random
// interleavings, the asynchronous acquire goroutines parked at the gate and run in a random order
// (or left to race), and the hold-open controller joining the bus AFTER the directives and their
// link values exist (the values reach its handler through the replay of AddReference), with
// values removed again before / after / while it joins.
//
// Observation, per directive instance, at quiescent points only (every goroutine of the process
// blocked or done, harness/quiet): the engine — the requester — drops its own reference and asks
// the real instance DirectiveInstance.CloseIfUnreferenced(false). It answers false iff somebody
// else (hold-open is the only candidate on this bus) still holds a strong reference. Monitor: that
// is the case IFF the instance has at least one link value right now. An instance that expired
// as it should is requested again (a new instance, a new hold-open handler) and the schedule goes
// on; an instance that was rightly held gets the engine's reference back (AddDirective of the
// equivalent directive: the bus merges it into the same instance).
//
// C31 (smsMergedBus): EQUIVALENT SolicitProtocol directives added twice (or three times) to a
// real bus are merged into ONE directive instance with several references; the REAL solicit
// controller (on the bus, with a link it learned from a real EstablishLinkWithPeer value) is
// handed a solicited stream through the real HandleMountedStream directive, resolveMatch emits
// one value, every reference's handler receives it and all of them accept (1-4 callers each,
// inside the callback and racing from goroutines) and / or close. Plus the non-equivalent twin
// (same protocol and context, different transport / peer constraint: a second instance matching
// the same stream) and a reference that joins after the value was emitted (replay).
// Monitor: over all calls on all references at most one AcceptMountedStream returned the stream;
// none after / during the wrapper's Close; the stream is closed by the wrapper iff nobody was
// handed it and Close was called, and never without a Close call.

import (
	"context"
	"fmt"
	"runtime"
	"strings"
	"sync"
	"sync/atomic"
	"time"

	"github.com/aperturerobotics/bifrost/link"
	link_holdopen_controller "github.com/aperturerobotics/bifrost/link/hold-open"
	link_solicit "github.com/aperturerobotics/bifrost/link/solicit"
	link_solicit_controller "github.com/aperturerobotics/bifrost/link/solicit/controller"
	"github.com/aperturerobotics/bifrost/peer"
	"github.com/aperturerobotics/bifrost/protocol"
	"github.com/aperturerobotics/bifrost/testbed"
	"github.com/aperturerobotics/controllerbus/bus"
	"github.com/aperturerobotics/controllerbus/controller"
	"github.com/aperturerobotics/controllerbus/directive"
	"github.com/blang/semver/v4"

	"verif/harness/lib"
	"verif/harness/quiet"
)

// busSettle waits until every goroutine of the process other than the caller is blocked or done
// (harness/quiet: the Go scheduler's own goroutine states, read in one stop-the-world snapshot),
// for three consecutive samples, the later ones a little apart. Load-proof: a starved goroutine
// stays "runnable" however long the machine makes it wait; only the deadline is a time.
func busSettle() bool {
	deadline := time.Now().Add(waitLimit)
	for stable := 0; stable < 3; {
		if time.Now().After(deadline) {
			return false
		}
		if stable == 0 {
			runtime.Gosched()
		} else {
			time.Sleep(100 * time.Microsecond)
		}
		if quiet.Busy() == 0 {
			stable++
		} else {
			stable = 0
			time.Sleep(20 * time.Microsecond)
		}
	}
	return true
}

// ---------------------------------------------------------------------------------------------
// C33: several directive instances on one hold-open controller; values before the controller
// ---------------------------------------------------------------------------------------------

type holdSpec struct{ src, dst peer.ID }

func (s holdSpec) String() string {
	src := string(s.src)
	if src == "" {
		src = "*"
	}
	return src + ">" + string(s.dst)
}

const (
	holdTargetA = peer.ID("target-a")
	holdTargetB = peer.ID("target-b")
	holdLocal   = peer.ID("local-src")
)

// the directive sets: two sources for one target; two targets; all three
var (
	holdSpecsSrc  = []holdSpec{{"", holdTargetA}, {holdLocal, holdTargetA}}
	holdSpecsDst  = []holdSpec{{"", holdTargetA}, {"", holdTargetB}}
	holdSpecsBoth = []holdSpec{{"", holdTargetA}, {holdLocal, holdTargetA}, {"", holdTargetB}}
)

// linkValuesCtrl resolves EVERY EstablishLinkWithPeer directive and hands the real resolver
// handler of each directive instance to the engine, which adds / removes link values at will.
type linkValuesCtrl struct {
	mtx sync.Mutex
	rhs map[directive.Instance]directive.ResolverHandler
}

func (c *linkValuesCtrl) GetControllerInfo() *controller.Info {
	return controller.NewInfo("verif/link-values-multi", semver.MustParse("0.0.1"), "emits link values for every link request")
}
func (c *linkValuesCtrl) Execute(ctx context.Context) error { return nil }
func (c *linkValuesCtrl) Close() error                      { return nil }
func (c *linkValuesCtrl) HandleDirective(ctx context.Context, di directive.Instance) ([]directive.Resolver, error) {
	if _, ok := di.GetDirective().(link.EstablishLinkWithPeer); !ok {
		return nil, nil
	}
	return directive.Resolvers(directive.NewFuncResolver(func(rctx context.Context, rh directive.ResolverHandler) error {
		c.mtx.Lock()
		c.rhs[di] = rh
		c.mtx.Unlock()
		rh.MarkIdle(true)
		<-rctx.Done()
		return nil
	})), nil
}
func (c *linkValuesCtrl) get(di directive.Instance) directive.ResolverHandler {
	c.mtx.Lock()
	defer c.mtx.Unlock()
	return c.rhs[di]
}

// holdInst is one link request (directive instance) of the scenario.
type holdInst struct {
	idx   int
	spec  holdSpec
	di    directive.Instance
	ref   directive.Reference // the engine's (the requester's) own reference
	rh    directive.ResolverHandler
	live  []uint32 // ids of the link values the instance has right now
	epoch int      // how often the request expired and was made again
	// the link-value history as the CURRENT hold-open handler of the instance saw it
	adds, rms int
	// at the moment the hold-open controller joined (epoch 0)
	preAdded, preLive int
	// the last probe: its result and the generation (see holdMultiWorld.gen) it was made in
	lastHeld bool
	probeGen int
}

type holdMultiWorld struct {
	e      *engine
	hw     *holdWorld // gate bookkeeping (parked acquire goroutines)
	ctx    context.Context
	tb     *testbed.Testbed
	vc     *linkValuesCtrl
	insts  []*holdInst
	joined bool
	relH   func()
	uuid   uint64
	yield  atomic.Int64
	// gen counts the steps that change a link set (add / remove / join / a storm round): probes of
	// the same generation look at the same quiescent stretch
	gen int
	// noPre: no accounting of the pre.* branches (storms)
	noPre bool

	fail      string
	mon, cls  string
	impl, mod []string // per probe: "<inst>.<epoch>=<held>"
	log       []string
	// instances whose add spawned an acquire goroutine that is still parked
	parkedFrom map[int]bool
	modelMemo  map[[2]int]bool
}

func (m *holdMultiWorld) gate(name string) {
	if name == "acquire" && !m.hw.sched {
		// unscheduled: only yield (a goroutine that yielded is "runnable": quiet sees it)
		if m.yield.Add(1)%2 == 0 {
			runtime.Gosched()
		}
		return
	}
	m.hw.gate(name)
}

func (e *engine) newHoldMultiWorld(specs []holdSpec, sched bool) (*holdMultiWorld, func()) {
	ctx, cancel := context.WithCancel(context.Background())
	tb, err := testbed.NewTestbed(ctx, e.le, testbed.TestbedOpts{NoPeer: true, NoEcho: true})
	if err != nil {
		panic(err)
	}
	m := &holdMultiWorld{e: e, ctx: ctx, tb: tb, uuid: 500, parkedFrom: map[int]bool{}, modelMemo: map[[2]int]bool{}}
	m.hw = &holdWorld{e: e, sched: sched}
	m.hw.cond = sync.NewCond(&m.hw.mtx)
	link_holdopen_controller.VerifGate = m.gate
	m.vc = &linkValuesCtrl{rhs: map[directive.Instance]directive.ResolverHandler{}}
	relV, err := tb.Bus.AddController(ctx, m.vc, nil)
	if err != nil {
		panic(err)
	}
	for i, s := range specs {
		in := &holdInst{idx: i, spec: s}
		m.insts = append(m.insts, in)
		m.attach(in)
	}
	cleanup := func() {
		// never leave a goroutine parked at the gate
		m.hw.mtx.Lock()
		parked := m.hw.acqParked
		m.hw.acqParked = nil
		m.hw.mtx.Unlock()
		for _, t := range parked {
			close(t.release)
		}
		for _, in := range m.insts {
			if in.ref != nil {
				in.ref.Release()
			}
			if in.di != nil {
				in.di.Close()
			}
		}
		if m.relH != nil {
			m.relH()
		}
		relV()
		busSettle()
		link_holdopen_controller.VerifGate = nil
		tb.Release()
		cancel()
	}
	return m, cleanup
}

// attach makes the link request (again): a new directive instance with the engine's reference.
func (m *holdMultiWorld) attach(in *holdInst) {
	di, ref, err := m.tb.Bus.AddDirective(link.NewEstablishLinkWithPeer(in.spec.src, in.spec.dst), nil)
	if err != nil {
		m.fail = "AddDirective: " + err.Error()
		return
	}
	in.di, in.ref = di, ref
	deadline := time.Now().Add(waitLimit)
	for m.vc.get(di) == nil {
		if time.Now().After(deadline) {
			m.fail = "EstablishLinkWithPeer resolver did not start"
			return
		}
		time.Sleep(50 * time.Microsecond)
	}
	in.rh = m.vc.get(di)
	in.live = nil
	in.adds, in.rms = 0, 0
}

// parkedSettled: scheduled mode — every spawned acquire goroutine is parked at the gate or done.
func (m *holdMultiWorld) parkedSettled() {
	w := m.hw
	if !w.waitFor(func() bool { return w.acqSpawned == len(w.acqParked)+w.acqDone }) {
		m.fail = "a spawned acquire goroutine did not reach its gate"
	}
}

func (m *holdMultiWorld) spawned() int {
	m.hw.mtx.Lock()
	defer m.hw.mtx.Unlock()
	return m.hw.acqSpawned
}

func (m *holdMultiWorld) nParked() int {
	m.hw.mtx.Lock()
	defer m.hw.mtx.Unlock()
	return len(m.hw.acqParked)
}

func (m *holdMultiWorld) join() {
	if m.joined {
		return
	}
	for _, in := range m.insts {
		in.preLive = len(in.live)
	}
	m.gen++
	before := m.spawned()
	hc, err := link_holdopen_controller.NewController(m.tb.Bus, m.e.le)
	if err != nil {
		panic(err)
	}
	relH, err := m.tb.Bus.AddController(m.ctx, hc, nil)
	if err != nil {
		m.fail = "AddController(hold-open): " + err.Error()
		return
	}
	m.relH, m.joined = relH, true
	for _, in := range m.insts {
		in.adds, in.rms = len(in.live), 0 // what the replay of AddReference shows the new handler
		if len(in.live) > 0 {
			m.parkedFrom[in.idx] = true
		}
	}
	m.parkedSettled()
	if m.hw.sched && m.spawned() > before && m.nParked() > 0 {
		m.e.branch("pre.replay-acquire-parked")
	}
}

func (m *holdMultiWorld) add(in *holdInst) {
	m.uuid++
	local := in.spec.src
	if local == "" {
		local = "local-peer"
	}
	var ml link.MountedLink = &fakeLink{uuid: m.uuid, tpt: 1, local: local, remote: in.spec.dst}
	id, ok := in.rh.AddValue(ml)
	if !ok {
		m.fail = "AddValue refused"
		return
	}
	in.live = append(in.live, id)
	m.gen++
	if m.joined {
		in.adds++
		m.parkedFrom[in.idx] = true
	} else {
		in.preAdded++
	}
	m.parkedSettled()
	if m.hw.sched && m.nParked() >= 2 && len(m.parkedFrom) >= 2 {
		m.e.branch("multi.acquires-parked-two-instances")
	}
}

func (m *holdMultiWorld) remove(in *holdInst) bool {
	if len(in.live) == 0 {
		return false
	}
	k := m.e.rng.Intn(len(in.live))
	in.rh.RemoveValue(in.live[k])
	in.live = append(in.live[:k], in.live[k+1:]...)
	m.gen++
	if m.joined {
		in.rms++
	}
	m.parkedSettled()
	return true
}

// runAcquire lets one parked acquire goroutine (a random one) run its critical section.
func (m *holdMultiWorld) runAcquire() bool {
	w := m.hw
	w.mtx.Lock()
	if len(w.acqParked) == 0 {
		w.mtx.Unlock()
		return false
	}
	k := m.e.rng.Intn(len(w.acqParked))
	t := w.acqParked[k]
	w.acqParked = append(w.acqParked[:k], w.acqParked[k+1:]...)
	w.acqRunning = t
	left := len(w.acqParked)
	w.mtx.Unlock()
	close(t.release)
	select {
	case <-t.done:
	case <-time.After(waitLimit):
		m.fail = "acquire goroutine did not finish"
	}
	if left == 0 {
		m.parkedFrom = map[int]bool{}
	}
	return true
}

func (m *holdMultiWorld) drain() {
	for m.fail == "" && m.runAcquire() {
	}
}

// modelHeld: the Lean LTS's answer for a handler that saw `adds` link values added and `rms`
// removed, at quiescence (quiescent_refcount: determined by the number of live links).
func (m *holdMultiWorld) modelHeld(adds, rms int) bool {
	if v, ok := m.modelMemo[[2]int{adds, rms}]; ok {
		return v
	}
	var ops []string
	for i := 0; i < adds; i++ {
		ops = append(ops, "add")
		if i == 0 {
			ops = append(ops, "acq")
		}
	}
	for i := 0; i < rms; i++ {
		ops = append(ops, "rm")
	}
	if adds > 0 && adds == rms {
		ops = append(ops, "rel")
	}
	mq := m.e.m.Query("wrappers.hold ops=" + list(ops))
	var f [6]int
	fmt.Sscanf(strings.ReplaceAll(lib.KV(mq, "final"), "/", " "), "%d %d %d %d %d %d", &f[0], &f[1], &f[2], &f[3], &f[4], &f[5])
	held := f[4]-f[3] > 0 && lib.KV(mq, "quiescent") == "1"
	m.modelMemo[[2]int{adds, rms}] = held
	return held
}

// probe observes, at a quiescent point, whether somebody other than the requester holds a strong
// reference to the link request, and judges it against the links the instance has right now.
func (m *holdMultiWorld) probe(in *holdInst) {
	if !m.joined || m.fail != "" || m.mon != "" {
		return
	}
	m.drain()
	if !busSettle() {
		m.fail = "no quiescence before the probe"
		return
	}
	live := len(in.live)
	in.ref.Release()
	in.ref = nil
	if !busSettle() {
		m.fail = "no quiescence after the requester dropped its reference"
		return
	}
	closed := in.di.CloseIfUnreferenced(false)
	if !closed && live == 0 {
		// everything is at rest, so a release on its way would have arrived; still, no verdict
		// from one sample: keep asking for a generous while
		for deadline := time.Now().Add(time.Second); !closed && time.Now().Before(deadline); {
			time.Sleep(time.Millisecond)
			closed = in.di.CloseIfUnreferenced(false)
		}
	}
	held := !closed
	tag := fmt.Sprintf("%d.%d", in.idx, in.epoch)
	m.impl = append(m.impl, tag+"="+b01(held))
	m.mod = append(m.mod, tag+"="+b01(m.modelHeld(in.adds, in.rms)))
	m.log = append(m.log, fmt.Sprintf("probe%d[links=%d held=%s]", in.idx, live, b01(held)))
	where := fmt.Sprintf("real controllerbus, %d link requests on one hold-open controller, request #%d (%s)", len(m.insts), in.idx, in.spec)
	switch {
	case held && live == 0:
		m.mon, m.cls = where+": hold-open still holds a strong reference with 0 links — the link request cannot expire", "ref-without-links"
	case !held && live > 0:
		m.mon, m.cls = fmt.Sprintf("%s: the link request became unreferenced and expired although it has %d links", where, live), "no-ref-with-links"
	case held:
		m.pairBranches(in, held)
		m.e.branch("multi.probe-held")
		if in.epoch > 0 {
			m.e.branch("multi.recreated-held")
		}
		if !m.noPre && in.epoch == 0 && in.preLive > 0 && in.adds == in.preLive && in.rms == 0 {
			m.e.branch("pre.kept") // the reference can only come from the replayed values
		}
		// the requester asks again: the bus merges the equivalent directive into the same instance
		di, ref, err := m.tb.Bus.AddDirective(link.NewEstablishLinkWithPeer(in.spec.src, in.spec.dst), nil)
		if err != nil || di != in.di {
			m.fail = "the re-added equivalent directive was not merged into the held instance"
			if ref != nil {
				ref.Release()
			}
			return
		}
		in.ref = ref
	default:
		m.pairBranches(in, held)
		m.e.branch("multi.probe-expired")
		if !m.noPre && in.epoch == 0 && in.preAdded > 0 && in.preLive == 0 && in.adds == 0 {
			m.e.branch("pre.removed-before-join")
		}
		if !m.noPre && in.epoch == 0 && in.preLive > 0 && in.adds == in.preLive && in.rms == in.adds {
			m.e.branch("pre.removed-after-join")
		}
		// expired as it should: the request is made again (new instance, new hold-open handler)
		in.epoch++
		in.preAdded, in.preLive = 0, 0
		m.attach(in)
	}
}

// pairBranches: in the same quiescent stretch one request was (rightly) held while another had
// (rightly) expired.
func (m *holdMultiWorld) pairBranches(in *holdInst, held bool) {
	for _, o := range m.insts {
		if o == in || o.probeGen != m.gen || o.lastHeld == held {
			continue
		}
		if o.spec.dst == in.spec.dst {
			m.e.branch("multi.same-target-independent")
		} else {
			m.e.branch("multi.two-targets-independent")
		}
	}
	in.lastHeld, in.probeGen = held, m.gen
}

type mstep struct {
	kind string // join add rm acq probe
	inst int
}

func (s mstep) String() string {
	switch s.kind {
	case "join", "acq":
		return s.kind
	}
	return fmt.Sprintf("%s%d", s.kind, s.inst)
}

func mst(kind string, inst int) mstep { return mstep{kind, inst} }

// holdMulti runs one scenario: the steps, then a final probe of every instance.
func (e *engine) holdMulti(specs []holdSpec, steps []mstep, sched bool, label string) {
	m, cleanup := e.newHoldMultiWorld(specs, sched)
	defer cleanup()
	for _, st := range steps {
		if m.fail != "" || m.mon != "" {
			break
		}
		in := m.insts[st.inst%len(m.insts)]
		switch st.kind {
		case "join":
			m.join()
		case "add":
			m.add(in)
		case "rm":
			if !m.remove(in) {
				continue
			}
		case "acq":
			if !m.runAcquire() {
				continue
			}
		case "probe":
			if !m.joined {
				continue
			}
			m.probe(in)
			continue // logged by the probe
		}
		m.log = append(m.log, st.String())
	}
	if !m.joined && m.fail == "" {
		m.join()
		m.log = append(m.log, "join")
	}
	for _, k := range e.rng.Perm(len(m.insts)) {
		m.probe(m.insts[k])
	}
	m.finish("hold.multibus", label, sched)
}

// finish: the comparison.
func (m *holdMultiWorld) finish(branch, label string, sched bool) {
	e := m.e
	var sp []string
	for _, in := range m.insts {
		sp = append(sp, in.spec.String())
	}
	mode := "free"
	if sched {
		mode = "sched"
	}
	op := fmt.Sprintf("wrappers.hold # real-bus multi %s [%s] %s: %s", label, strings.Join(sp, " "), mode, strings.Join(m.log, " "))
	impl := "held=" + list(m.impl)
	if m.fail != "" {
		impl = "harness-failure " + m.fail
	}
	key := "wrappers.holdmulti"
	if m.cls != "" {
		key = "wrappers.holdmulti:" + m.cls
	}
	e.rep.Compare(op, "held="+list(m.mod), impl, branch, key, m.mon)
}

// holdMultiStorm: unscheduled concurrency on the real bus. Every round, 1-2 workers per link
// request add / remove link values rapidly, all leaving one barrier; in the first round the
// hold-open controller may join the bus from the same barrier (so that the replay of
// AddReference races with value additions and removals), or only after the round. After every
// round: quiescence, then every request is probed.
func (e *engine) holdMultiStorm(specs []holdSpec, joinMode string) {
	m, cleanup := e.newHoldMultiWorld(specs, false)
	defer cleanup()
	m.noPre = true
	if joinMode == "first" {
		m.join()
	}
	rounds := 1 + e.rng.Intn(3)
	for r := 0; r < rounds && m.fail == "" && m.mon == ""; r++ {
		type plan struct {
			in   *holdInst
			reps int
			keep bool
			kept []uint32
			err  string
		}
		var plans []*plan
		for _, in := range m.insts {
			for k, nw := 0, 1+e.rng.Intn(2); k < nw; k++ {
				plans = append(plans, &plan{in: in, reps: 1 + e.rng.Intn(4), keep: e.rng.Intn(3) == 0})
			}
		}
		// sometimes a round starts by removing what earlier rounds left (concurrently with the adds)
		var drop [][2]any
		if r > 0 && e.rng.Intn(2) == 0 {
			for _, in := range m.insts {
				for _, id := range in.live {
					drop = append(drop, [2]any{in, id})
				}
				in.rms += len(in.live)
				in.live = nil
			}
		}
		joinNow := joinMode == "race" && r == 0
		start := make(chan struct{})
		var wg sync.WaitGroup
		var uuid atomic.Uint64
		uuid.Store(m.uuid)
		for _, p := range plans {
			wg.Add(1)
			go func(p *plan) {
				defer wg.Done()
				<-start
				local := p.in.spec.src
				if local == "" {
					local = "local-peer"
				}
				for i := 0; i < p.reps; i++ {
					var ml link.MountedLink = &fakeLink{uuid: uuid.Add(1), tpt: 1, local: local, remote: p.in.spec.dst}
					id, ok := p.in.rh.AddValue(ml)
					if !ok {
						p.err = "AddValue refused"
						return
					}
					runtime.Gosched()
					if p.keep && i == p.reps-1 {
						p.kept = append(p.kept, id)
						break
					}
					p.in.rh.RemoveValue(id)
				}
			}(p)
		}
		if len(drop) > 0 {
			wg.Add(1)
			go func() {
				defer wg.Done()
				<-start
				for _, d := range drop {
					d[0].(*holdInst).rh.RemoveValue(d[1].(uint32))
				}
			}()
		}
		if joinNow {
			wg.Add(1)
			go func() {
				defer wg.Done()
				<-start
				runtime.Gosched()
				m.join()
			}()
		}
		close(start)
		wg.Wait()
		m.uuid = uuid.Load()
		adds := 0
		for _, p := range plans {
			if p.err != "" {
				m.fail = p.err
			}
			p.in.live = append(p.in.live, p.kept...)
			// what the handler saw of a round that raced with its attachment is not known; the
			// quiescent state depends on the live links only (Props.C33.quiescent_refcount)
			p.in.adds += p.reps
			p.in.rms += p.reps - len(p.kept)
			adds += p.reps
		}
		m.gen++
		if joinMode == "after" && r == 0 {
			m.join() // (resets adds / rms to what the replay shows)
		}
		m.log = append(m.log, fmt.Sprintf("round%d[workers=%d adds=%d dropped=%d]", r, len(plans), adds, len(drop)))
		for _, k := range e.rng.Perm(len(m.insts)) {
			m.probe(m.insts[k])
		}
	}
	if joinMode != "first" {
		e.branch("multistorm.join-" + joinMode)
	}
	m.finish("hold.multistorm", "storm join="+joinMode, false)
}

// runC33Multi: the schedules the audit names, every run, then seeded random ones.
func (e *engine) runC33Multi() {
	// two sources, one target; two targets — one request loses its links, the other keeps them
	for _, sched := range []bool{true, false} {
		e.holdMulti(holdSpecsSrc, []mstep{mst("join", 0), mst("add", 0), mst("add", 1), mst("acq", 0), mst("acq", 0), mst("rm", 1), mst("probe", 1), mst("probe", 0), mst("rm", 0), mst("probe", 0)}, sched, "two-sources-one-target")
		e.holdMulti(holdSpecsDst, []mstep{mst("join", 0), mst("add", 0), mst("add", 1), mst("acq", 0), mst("acq", 0), mst("rm", 0), mst("probe", 0), mst("probe", 1), mst("add", 0), mst("probe", 0)}, sched, "two-targets")
		e.holdMulti(holdSpecsBoth, []mstep{mst("join", 0), mst("add", 1), mst("add", 1), mst("add", 2), mst("rm", 1), mst("add", 0), mst("rm", 2), mst("rm", 1)}, sched, "three-requests")
	}
	// both acquires parked, one request loses its link before either runs
	e.holdMulti(holdSpecsSrc, []mstep{mst("join", 0), mst("add", 0), mst("add", 1), mst("rm", 0), mst("acq", 0), mst("acq", 0)}, true, "remove-before-acquire-other-request-keeps")
	e.holdMulti(holdSpecsSrc, []mstep{mst("join", 0), mst("add", 0), mst("add", 1), mst("rm", 0), mst("add", 0), mst("rm", 1), mst("acq", 0), mst("acq", 0), mst("acq", 0)}, true, "add-remove-add-across-requests")
	// a request that expired is made again and gets links
	e.holdMulti(holdSpecsSrc, []mstep{mst("join", 0), mst("probe", 0), mst("add", 0), mst("probe", 0), mst("probe", 1)}, false, "expired-request-made-again")
	// the requests and their links exist BEFORE the hold-open controller joins the bus
	for _, sched := range []bool{true, false} {
		e.holdMulti(holdSpecsSrc, []mstep{mst("add", 0), mst("add", 0), mst("add", 1), mst("join", 0)}, sched, "links-before-controller")
		e.holdMulti(holdSpecsDst, []mstep{mst("add", 0), mst("rm", 0), mst("add", 1), mst("join", 0)}, sched, "links-removed-before-controller")
		e.holdMulti(holdSpecsSrc, []mstep{mst("add", 0), mst("add", 1), mst("join", 0), mst("rm", 0)}, sched, "links-removed-after-controller")
		e.holdMulti(holdSpecsBoth, []mstep{mst("add", 0), mst("add", 1), mst("add", 1), mst("add", 2), mst("rm", 2), mst("join", 0), mst("rm", 1), mst("rm", 1), mst("add", 2)}, sched, "mixed-before-and-after-controller")
	}
	sets := [][]holdSpec{holdSpecsSrc, holdSpecsDst, holdSpecsBoth}
	for c := 0; c < 24*e.a.Scale; c++ {
		specs := sets[e.rng.Intn(len(sets))]
		joinAt := 0
		ns := 5 + e.rng.Intn(14)
		if e.rng.Intn(5) < 2 {
			joinAt = 1 + e.rng.Intn(ns/2)
		}
		live := make([]int, len(specs))
		var steps []mstep
		for i := 0; i < ns; i++ {
			if i == joinAt {
				steps = append(steps, mst("join", 0))
			}
			k := e.rng.Intn(len(specs))
			switch x := e.rng.Intn(100); {
			case x < 34 && live[k] < 3:
				steps = append(steps, mst("add", k))
				live[k]++
			case x < 62 && live[k] > 0:
				steps = append(steps, mst("rm", k))
				live[k]--
			case x < 84:
				steps = append(steps, mst("acq", 0))
			case x < 94 && i > joinAt:
				steps = append(steps, mst("probe", k))
			}
		}
		e.holdMulti(specs, steps, e.rng.Intn(3) != 0, "random")
	}
	for c := 0; c < 5*e.a.Scale; c++ {
		for _, jm := range []string{"first", "race", "after"} {
			e.holdMultiStorm(sets[e.rng.Intn(len(sets))], jm)
		}
	}
}

// ---------------------------------------------------------------------------------------------
// C31: a merged directive (several references on one instance) on a real bus, real controller
// ---------------------------------------------------------------------------------------------

// mergeGroup is one equivalence class of SolicitProtocol directives (one directive instance).
type mergeGroup struct {
	peer    peer.ID
	tpt     uint64
	matches bool
}

// mergeRef is one reference (one AddDirective call) and what its consumer does with the value.
type mergeRef struct {
	group     int
	closeIn   bool // Close inside HandleValueAdded, before anything else of this reference
	immediate bool // AcceptMountedStream inside HandleValueAdded
	callers   int  // AcceptMountedStream callers racing from goroutines
	closers   int  // Close callers racing from goroutines
}

type mergeCfg struct {
	groups    []mergeGroup
	refs      []mergeRef
	lateRef   bool // one more equivalent AddDirective (group 0) after the race: the value is replayed to it
	postClose bool // a Close after the race, then one more accept per reference
	label     string
}

type mergeCall struct {
	kind string // "a" / "c"
	res  string
}

type mergeScene struct {
	e     *engine
	w     *smsWorld
	mtx   sync.Mutex
	pre   []mergeCall  // calls made inside the callbacks, in real-time order
	conc  []*mergeCall // calls racing from the barrier
	start chan struct{}
	wg    sync.WaitGroup
}

// closeVal closes a value the way resolveMatch does (no verif hook).
func closeVal(sv link_solicit.SolicitMountedStream) string {
	cl, ok := sv.(interface{ Close() bool })
	if !ok {
		return "noclose"
	}
	if cl.Close() {
		return "c1"
	}
	return "c0"
}

func (s *mergeScene) call(kind string, sv link_solicit.SolicitMountedStream) string {
	return lib.Recover(func() string {
		if kind == "a" {
			return s.w.doAccept(sv)
		}
		return closeVal(sv)
	})
}

func (s *mergeScene) seq(kind string, sv link_solicit.SolicitMountedStream) {
	r := s.call(kind, sv)
	s.mtx.Lock()
	s.pre = append(s.pre, mergeCall{kind, r})
	s.mtx.Unlock()
}

func (s *mergeScene) spawn(kind string, sv link_solicit.SolicitMountedStream) {
	c := &mergeCall{kind: kind}
	s.mtx.Lock()
	s.conc = append(s.conc, c)
	s.mtx.Unlock()
	s.wg.Add(1)
	go func() {
		defer s.wg.Done()
		<-s.start
		c.res = s.call(kind, sv)
	}()
}

type mergeConsumer struct {
	s    *mergeScene
	cfg  mergeRef
	late bool
	mtx  sync.Mutex
	vals []link_solicit.SolicitMountedStream
}

func (c *mergeConsumer) HandleValueAdded(_ directive.Instance, v directive.AttachedValue) {
	sv, ok := v.GetValue().(link_solicit.SolicitMountedStream)
	if !ok {
		return
	}
	c.mtx.Lock()
	c.vals = append(c.vals, sv)
	c.mtx.Unlock()
	if c.late {
		return
	}
	if c.cfg.closeIn {
		c.s.seq("c", sv)
	}
	if c.cfg.immediate {
		c.s.seq("a", sv)
	}
	for i := 0; i < c.cfg.callers; i++ {
		c.s.spawn("a", sv)
	}
	for i := 0; i < c.cfg.closers; i++ {
		c.s.spawn("c", sv)
	}
}
func (c *mergeConsumer) HandleValueRemoved(directive.Instance, directive.AttachedValue) {}
func (c *mergeConsumer) HandleInstanceDisposed(directive.Instance)                      {}
func (c *mergeConsumer) values() []link_solicit.SolicitMountedStream {
	c.mtx.Lock()
	defer c.mtx.Unlock()
	return append([]link_solicit.SolicitMountedStream(nil), c.vals...)
}

// smsMergedBus runs one scenario on a real bus with the real solicit controller.
func (e *engine) smsMergedBus(cfg mergeCfg) {
	ctx, cancel := context.WithCancel(context.Background())
	defer cancel()
	tb, err := testbed.NewTestbed(ctx, e.le, testbed.TestbedOpts{NoPeer: true, NoEcho: true})
	if err != nil {
		panic(err)
	}
	defer tb.Release()
	remote, local := peer.ID("remote-peer"), peer.ID("zz-local-peer") // local > remote: this side does not open the control stream
	vc := &valueCtrl{target: remote, rh: make(chan directive.ResolverHandler, 1)}
	relV, err := tb.Bus.AddController(ctx, vc, nil)
	if err != nil {
		panic(err)
	}
	defer relV()
	sc, err := link_solicit_controller.NewController(e.le, &link_solicit_controller.Config{})
	if err != nil {
		panic(err)
	}
	relS, err := tb.Bus.AddController(ctx, sc, nil)
	if err != nil {
		panic(err)
	}
	defer relS()
	fail := ""
	// the controller learns the link from a real EstablishLinkWithPeer value
	_, lref, err := tb.Bus.AddDirective(link.NewEstablishLinkWithPeer("", remote), nil)
	if err != nil {
		panic(err)
	}
	defer lref.Release()
	ml := &fakeLink{uuid: 7, tpt: 42, local: local, remote: remote}
	select {
	case rh := <-vc.rh:
		if _, ok := rh.AddValue(link.MountedLink(ml)); !ok {
			fail = "link value refused"
		}
	case <-time.After(waitLimit):
		fail = "EstablishLinkWithPeer resolver did not start"
	}

	w := &smsWorld{e: e}
	s := &mergeScene{e: e, w: w, start: make(chan struct{})}
	pid := protocol.ID("proto/merged")
	sctx := []byte("ctx")
	var cons []*mergeConsumer
	var insts []directive.Instance
	var refs []directive.Reference
	groupInst := map[int]directive.Instance{}
	merged, split := true, true
	for _, rc := range cfg.refs {
		g := cfg.groups[rc.group]
		c := &mergeConsumer{s: s, cfg: rc}
		di, ref, err := tb.Bus.AddDirective(link_solicit.NewSolicitProtocol(pid, sctx, g.peer, g.tpt), c)
		if err != nil {
			panic(err)
		}
		if prev, ok := groupInst[rc.group]; ok && prev != di {
			merged = false
		}
		for og, odi := range groupInst {
			if og != rc.group && odi == di {
				split = false
			}
		}
		groupInst[rc.group] = di
		cons, insts, refs = append(cons, c), append(insts, di), append(refs, ref)
	}
	defer func() {
		for i := range refs {
			refs[i].Release()
			insts[i].Close()
		}
	}()
	if !merged {
		fail = "equivalent SolicitProtocol directives were not merged into one instance"
	}
	if !split {
		fail = "non-equivalent SolicitProtocol directives share an instance"
	}
	if !busSettle() { // the resolvers registered their solicitations, the controller knows the link
		fail = "no quiescence after adding the directives"
	}

	// the solicited stream arrives the way transport/controller delivers it
	strm := &fakeStream{id: 0, w: w}
	w.nextID = 1
	fms := &fakeMounted{strm: strm, ml: ml}
	if fail == "" {
		sid := link_solicit.ComputeSessionID(local, remote)
		hash := link_solicit.ComputeProtocolHash(sid, pid, sctx)
		hdir := link.NewHandleMountedStream(protocol.ID(link_solicit_controller.SolicitStreamPrefix+lib.Hex(hash)), local, remote)
		hctx, hcancel := context.WithTimeout(ctx, waitLimit)
		val, _, href, err := bus.ExecOneOff(hctx, tb.Bus, hdir, nil, nil)
		hcancel()
		if err != nil {
			fail = "no handler for the solicited stream: " + err.Error()
		} else {
			h, ok := val.GetValue().(link.MountedStreamHandler)
			if !ok {
				fail = "bad mounted stream handler"
			} else if r := lib.Recover(func() string {
				if err := h.HandleMountedStream(ctx, fms); err != nil {
					return "handler error: " + err.Error()
				}
				return ""
			}); r != "" {
				fail = r
			}
			href.Release()
		}
	}
	if !busSettle() {
		fail = "no quiescence after the stream was handed to the controller"
	}
	// the race
	close(s.start)
	done := make(chan struct{})
	go func() { s.wg.Wait(); close(done) }()
	select {
	case <-done:
	case <-time.After(waitLimit):
		fail = "a racing call never returned"
	}
	busSettle()

	// what was delivered
	k := 0 // directive instances that solicit this stream
	for g := range groupInst {
		if cfg.groups[g].matches {
			k++
		}
	}
	distinct := map[link_solicit.SolicitMountedStream]bool{}
	reached := map[int]bool{}
	bad := ""
	var objs []link_solicit.SolicitMountedStream
	for i, c := range cons {
		vals := c.values()
		want := 0
		if cfg.groups[c.cfg.group].matches {
			want = 1
		}
		if len(vals) != want {
			bad += fmt.Sprintf("+ref%d-got%d", i, len(vals))
		}
		for _, sv := range vals {
			distinct[sv] = true
			reached[c.cfg.group] = true
			objs = append(objs, sv)
		}
	}
	created := fmt.Sprintf("v%dd%d%s", len(distinct), len(reached), bad)
	if len(reached) == 0 {
		created = "d0" + bad
	}
	v := &smsValue{stream: strm, objs: objs}
	w.vals = append(w.vals, v)

	// after the race: a late equivalent reference (replay), a Close, one more accept everywhere
	var post []mergeCall
	seqPost := func(kind string, sv link_solicit.SolicitMountedStream) {
		post = append(post, mergeCall{kind, s.call(kind, sv)})
	}
	if cfg.lateRef && fail == "" && len(objs) > 0 {
		g := cfg.groups[0]
		lc := &mergeConsumer{s: s, late: true}
		di, ref, err := tb.Bus.AddDirective(link_solicit.NewSolicitProtocol(pid, sctx, g.peer, g.tpt), lc)
		if err != nil {
			panic(err)
		}
		busSettle()
		lv := lc.values()
		switch {
		case di != groupInst[0]:
			fail = "the late equivalent directive was not merged"
		case len(lv) != 1 || !distinct[lv[0]]:
			fail = fmt.Sprintf("the late reference was replayed %d values (or a different object)", len(lv))
		default:
			seqPost("a", lv[0])
			e.branch("merge.late-reference")
		}
		refs, insts = append(refs, ref), append(insts, di)
	}
	if cfg.postClose && len(objs) > 0 {
		seqPost("c", objs[0])
		for _, c := range cons {
			for _, sv := range c.values() {
				seqPost("a", sv)
			}
		}
	}

	// model: the calls inside the callbacks in their order, then the calls of the race that changed
	// the value (the one accept that was handed the stream, or else the Closes that closed it),
	// then the calls after the race; the other calls of the race are judged by linearizability
	ops := []string{fmt.Sprintf("r%d", k)}
	res := []string{created}
	for _, c := range s.pre {
		ops, res = append(ops, c.kind+"0"), append(res, c.res)
	}
	// (a repeated Close closes the underlying stream again — the model says so too — so EVERY Close
	// of the race that answered true is in the history)
	var winner *mergeCall
	for _, c := range s.conc {
		if strings.HasPrefix(c.res, "s") && c.kind == "a" {
			winner = c
			break
		}
	}
	if winner != nil {
		ops, res = append(ops, winner.kind+"0"), append(res, winner.res)
	} else {
		for _, c := range s.conc {
			if c.res == "c1" {
				if winner == nil {
					winner = c
				}
				ops, res = append(ops, "c0"), append(res, c.res)
			}
		}
	}
	for _, c := range post {
		ops, res = append(ops, c.kind+"0"), append(res, c.res)
	}
	op := "wrappers.sms ops=" + list(ops)
	model := strings.ReplaceAll(e.m.Query(op), "v1d0", "d0") + " lin=1"
	lin := "1"
	linNote := ""
	if len(s.conc) > 0 {
		// at most 6 calls per query: drop surplus calls that changed nothing (a linearization of the
		// full history restricted to the remaining calls is a linearization of those)
		calls := append([]*mergeCall(nil), s.conc...)
		for len(calls) > 6 {
			dropped := false
			for i := len(calls) - 1; i >= 0; i-- {
				if r := calls[i].res; r == "already" || r == "err" || r == "c0" {
					calls = append(calls[:i], calls[i+1:]...)
					dropped = true
					break
				}
			}
			if !dropped {
				calls = calls[:6] // more than 6 calls that changed the value: the monitor has it
			}
		}
		var cs, obs []string
		for _, c := range calls {
			cs, obs = append(cs, c.kind+"0"), append(obs, c.res)
		}
		init := []string{fmt.Sprintf("r%d", k)}
		for _, c := range s.pre {
			init = append(init, c.kind+"0")
		}
		lq := fmt.Sprintf("wrappers.lin init=%s calls=%s obs=%s", list(init), list(cs), list(obs))
		lin = lib.KV(e.m.Query(lq), "lin")
		linNote = fmt.Sprintf(" race=%d calls (%s -> %s)", len(s.conc), list(cs), list(obs))
	}
	impl := "ok res=" + list(res) + " " + w.snapshot() + " lin=" + lin
	if fail != "" {
		impl = "harness-failure " + fail
	}

	// monitor: only the calls' return values and the fake stream's event log
	mon, cls := w.monitor()
	all := append(append([]mergeCall(nil), s.pre...), post...)
	for _, c := range s.conc {
		all = append(all, *c)
	}
	got, closeCalls, closeTrue, accepts := 0, 0, 0, 0
	for _, c := range all {
		switch {
		case c.kind == "a":
			accepts++
			if strings.HasPrefix(c.res, "s") && c.res != "snil" {
				got++
			}
		case c.kind == "c":
			closeCalls++
			if c.res == "c1" {
				closeTrue++
			}
		}
	}
	closes := int(strm.closes.Load())
	where := fmt.Sprintf("real controllerbus + real solicit controller, %d references on %d directive instances (%s)", len(cfg.refs), len(groupInst), cfg.label)
	if mon != "" {
		mon = where + ": " + mon
	}
	if mon == "" && fail == "" {
		switch {
		case got > 1:
			mon, cls = fmt.Sprintf("%s: %d AcceptMountedStream calls were handed the stream", where, got), "multi-owner"
		case got >= 1 && closes > 0:
			mon, cls = fmt.Sprintf("%s: the stream was handed to a caller and closed by the solicitation (%d times)", where, closes), "closed-after-accept"
		case got == 0 && closeTrue > 0 && closes == 0:
			mon, cls = fmt.Sprintf("%s: nobody was handed the stream and Close was called %d times (%d answered true), but the stream was never closed", where, closeCalls, closeTrue), "unowned-not-closed"
		case closes > closeCalls && len(objs) > 0:
			// (a repeated Close closes the underlying stream again: Close is not idempotent, the model
			// says so too; the property does not speak about it)
			mon, cls = fmt.Sprintf("%s: the stream was delivered to %d references and closed %d times although Close was called only %d times", where, len(objs), closes, closeCalls), "closed-without-close"
		}
	}
	key := "wrappers.sms:merged-bus"
	if cls != "" {
		key = "wrappers.sms:" + cls
	}
	e.rep.Compare(fmt.Sprintf("%s # %s%s", op, where, linNote), model, impl, "sms.merged-bus", key, mon)

	// branches
	if fail != "" || mon != "" {
		return
	}
	perGroup := map[int]int{}
	for _, c := range cons {
		if len(c.values()) == 1 {
			perGroup[c.cfg.group]++
		}
	}
	accRefs := 0
	racing := 0
	for _, rc := range cfg.refs {
		if cfg.groups[rc.group].matches && (rc.immediate || rc.callers > 0) {
			accRefs++
		}
		if cfg.groups[rc.group].matches && rc.callers >= 2 {
			racing++
		}
	}
	if len(distinct) == 1 {
		for _, n := range perGroup {
			if n >= 2 {
				e.branch("merge.one-instance") // several references of ONE instance got the same object
				if accRefs >= 2 {
					e.branch("merge.both-refs-accept")
				}
				if racing >= 2 {
					e.branch("merge.concurrent-callers")
				}
			}
		}
		if len(reached) >= 2 {
			e.branch("merge.twin-two-instances")
		}
	}
	if got == 1 {
		e.branch("merge.accept-won")
		if closeCalls > 0 {
			e.branch("merge.close-after-accept")
		}
	}
	if closeTrue >= 1 && got == 0 {
		e.branch("merge.close-won")
		if accepts > 0 {
			e.branch("merge.accept-after-close")
		}
	}
	if winner != nil && winner.kind == "c" && accepts > 0 {
		e.branch("merge.close-won-race")
	}
}

// runC31Merged: the schedules the audit names, every run, then seeded random ones.
func (e *engine) runC31Merged() {
	remote := peer.ID("remote-peer")
	one := []mergeGroup{{"", 0, true}}
	twinT := []mergeGroup{{"", 0, true}, {"", 42, true}}      // differs only in the transport constraint
	twinP := []mergeGroup{{remote, 42, true}, {"", 42, true}} // differs only in the peer constraint
	withMiss := []mergeGroup{{"", 0, true}, {"", 42, true}, {"other-peer", 0, false}}
	e.smsMergedBus(mergeCfg{groups: one, refs: []mergeRef{{group: 0, immediate: true}, {group: 0, immediate: true}}, label: "two-references-both-accept-in-callback"})
	e.smsMergedBus(mergeCfg{groups: one, refs: []mergeRef{{group: 0, callers: 4}, {group: 0, callers: 4}}, postClose: true, label: "two-references-four-callers-each"})
	e.smsMergedBus(mergeCfg{groups: one, refs: []mergeRef{{group: 0, callers: 2}, {group: 0, callers: 2, closers: 1}}, lateRef: true, label: "two-references-accept-and-close-race"})
	e.smsMergedBus(mergeCfg{groups: one, refs: []mergeRef{{group: 0, closeIn: true, callers: 2}, {group: 0, immediate: true, callers: 2}}, lateRef: true, label: "first-reference-closes-then-all-accept"})
	e.smsMergedBus(mergeCfg{groups: one, refs: []mergeRef{{group: 0, immediate: true}, {group: 0, closeIn: true, callers: 1}, {group: 0, callers: 3}}, postClose: true, label: "three-references-accept-then-close"})
	e.smsMergedBus(mergeCfg{groups: twinT, refs: []mergeRef{{group: 0, callers: 2}, {group: 0, callers: 2}, {group: 1, callers: 2}}, postClose: true, label: "merged-pair-and-transport-twin"})
	e.smsMergedBus(mergeCfg{groups: twinP, refs: []mergeRef{{group: 0, immediate: true}, {group: 1, immediate: true}, {group: 1, callers: 1}}, label: "peer-twin-accepts-in-callback"})
	e.smsMergedBus(mergeCfg{groups: withMiss, refs: []mergeRef{{group: 0, callers: 1}, {group: 2, callers: 1}, {group: 1, callers: 1, closers: 1}, {group: 0, callers: 1}}, label: "twin-and-non-matching"})
	sets := [][]mergeGroup{one, one, twinT, twinP, withMiss}
	for c := 0; c < 30*e.a.Scale; c++ {
		groups := sets[e.rng.Intn(len(sets))]
		cfg := mergeCfg{groups: groups, label: "random", lateRef: e.rng.Intn(3) == 0, postClose: e.rng.Intn(3) == 0}
		nrefs := 2 + e.rng.Intn(2)
		for i := 0; i < nrefs; i++ {
			rc := mergeRef{group: 0}
			if i >= 2 || (len(groups) > 1 && i == 1 && e.rng.Intn(3) == 0) {
				rc.group = e.rng.Intn(len(groups))
			}
			switch x := e.rng.Intn(10); {
			case x < 1:
				rc.closeIn = true
			case x < 4:
				rc.immediate = true
			}
			rc.callers = e.rng.Intn(5)
			if e.rng.Intn(4) == 0 {
				rc.closers = 1 + e.rng.Intn(2)
			}
			if !rc.immediate && !rc.closeIn && rc.callers == 0 {
				rc.callers = 1
			}
			cfg.refs = append(cfg.refs, rc)
		}
		if len(groups) > 1 && cfg.refs[1].group == 0 && e.rng.Intn(2) == 0 {
			cfg.refs = append(cfg.refs, mergeRef{group: 1 + e.rng.Intn(len(groups)-1), callers: 1 + e.rng.Intn(3)})
		}
		e.smsMergedBus(cfg)
	}
}
