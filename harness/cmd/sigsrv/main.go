// Command sigsrv is the trace-validation engine for the signaling relay server (C20, C22, C24,
// C25). It drives the REAL signaling_rpc_server.Server through fake SRPC streams from a seeded
// random schedule of client actions (attach / usurp / send / forged send / stale and future
// epochs / ack / clear / cancel / listen), records every server critical section through the
// verif hooks plus every response the server sends, and asks the Lean model to replay the trace:
// each event must be an enabled step of Bifrost.Sig whose post-state equals the logged server
// state. Model-independent monitors state the properties directly on the observed traffic: they
// are evaluated on the real server's responses, returned errors and logged state whether or not
// the model replay has diverged, so a diverged trace still gets a confirmed verdict whenever a
// property is in fact violated.
package main

import (
	"bytes"
	"context"
	"errors"
	"fmt"
	"io"
	"sort"
	"strconv"
	"strings"
	"sync"
	"time"

	"github.com/aperturerobotics/bifrost/hash"
	"github.com/aperturerobotics/bifrost/link"
	"github.com/aperturerobotics/bifrost/peer"
	"github.com/aperturerobotics/bifrost/protocol"
	signaling "github.com/aperturerobotics/bifrost/signaling/rpc"
	signaling_rpc_server "github.com/aperturerobotics/bifrost/signaling/rpc/server"
	"github.com/aperturerobotics/bifrost/stream"
	"github.com/aperturerobotics/starpc/srpc"
	"github.com/sirupsen/logrus"

	"verif/harness/lib"
	"verif/harness/quiet"
	"verif/harness/sigoracle"
	"verif/harness/sigtrace"
)

// nPeers is the number of peers (five, so that a listener can have up to four wanting peers).
const nPeers = 5

type ctxKey struct{}

type engine struct {
	a   *lib.Args
	rng *lib.Rng
	m   *lib.Model
	rep *lib.Report
	le  *logrus.Entry

	keys  []*sigoracle.Key // index 0 nil; 1..nPeers sorted by peer id string (the server's session key order)
	pids  []peer.ID
	pidIx map[string]int
	// stream objects of finished scenarios are kept alive so that their addresses (the call
	// identities in hook lines) are never reused by a later scenario
	keep []any
}

// world is one scenario run.
type world struct {
	e        *engine
	srv      *signaling_rpc_server.Server
	ident    string // "callback": NewServerWithIdentify; "mounted": NewServer + link.WithMountedStreamContext
	mtx      sync.Mutex
	log      []string // raw lines: hook lines and "tx …" lines, in real-time order
	calls    map[string]int
	scalls   []*sessStream
	lcalls   []*listenStream
	raws     []*sessStream // calls with a scripted (invalid) first request or without identity
	rawl     []*listenStream
	subs     []*submission
	mon      []string
	lastSnap string
	nextID   int
}

type submission struct {
	mid       int
	src, dst  int
	seqno     uint64
	epoch     uint64
	kind      string
	authentic bool // harness verdict (stdlib): verifies under the SUBMITTING stream's key and names it
	v         int  // harness verdict (stdlib): verifies under the key of the peer it names
	claimed   int  // index of the peer it names as sender (0 = none)
	wire      []byte
	call      int
}

type sessStream struct {
	w        *world
	id       int
	src, dst int
	ctx      context.Context
	cancel   context.CancelFunc
	reqCh    chan *signaling.SessionRequest
	mtx      sync.Mutex
	resps    []*signaling.SessionResponse
	done     chan struct{}
	err      error
	valid    []*submission // every SendMsg submission on this stream, in order
	nextQ    uint64
	closedRx bool
	hold     chan struct{} // when non-nil, Send blocks (after logging) until released: a slow client
	inSend   chan struct{}
	killed   bool   // the harness cancelled the stream
	poison   string // the harness sent a request the relay must answer by failing the stream
	first    string // scripted first request ("" = a valid Init)
}

func (s *sessStream) holdSends() {
	s.mtx.Lock()
	if s.hold == nil { // a Send may be parked on the current gate: never replace it
		s.hold = make(chan struct{})
		s.inSend = make(chan struct{})
	}
	s.mtx.Unlock()
}

func (s *sessStream) release() {
	s.mtx.Lock()
	if s.hold != nil {
		close(s.hold)
		s.hold = nil
	}
	s.mtx.Unlock()
}

// kill is the harness cancelling the stream (as opposed to the handler returning by itself).
func (s *sessStream) kill() {
	s.mtx.Lock()
	s.killed = true
	s.mtx.Unlock()
	s.cancel()
}

func (s *sessStream) Context() context.Context { return s.ctx }
func (s *sessStream) Send(m *signaling.SessionResponse) error {
	s.mtx.Lock()
	s.resps = append(s.resps, m)
	hold, inSend := s.hold, s.inSend
	s.mtx.Unlock()
	s.w.logTx(s.id, m)
	if hold != nil {
		select {
		case <-inSend:
		default:
			close(inSend)
		}
		select {
		case <-hold:
		case <-s.ctx.Done():
		}
	}
	return nil
}
func (s *sessStream) SendAndClose(m *signaling.SessionResponse) error { return s.Send(m) }
func (s *sessStream) Recv() (*signaling.SessionRequest, error) {
	select {
	case r, ok := <-s.reqCh:
		if !ok {
			return nil, io.EOF
		}
		return r, nil
	case <-s.ctx.Done():
		return nil, context.Canceled
	}
}
func (s *sessStream) RecvTo(m *signaling.SessionRequest) error {
	r, err := s.Recv()
	if err != nil {
		return err
	}
	*m = *r //nolint
	return nil
}
func (s *sessStream) MsgSend(srpc.Message) error { return nil }
func (s *sessStream) MsgRecv(srpc.Message) error { return io.EOF }
func (s *sessStream) CloseSend() error           { return nil }
func (s *sessStream) Close() error               { return nil }

type listenStream struct {
	w      *world
	id     int
	pid    int
	ctx    context.Context
	cancel context.CancelFunc
	mtx    sync.Mutex
	resps  []*signaling.ListenResponse
	done   chan struct{}
	err    error
	hold   chan struct{} // when non-nil, Send blocks (after logging) until it is closed: a slow client
	inSend chan struct{} // closed when the first held Send has been entered
	killed bool
}

// holdSends makes the next Send calls block until release is called.
func (s *listenStream) holdSends() {
	s.mtx.Lock()
	if s.hold == nil { // a Send may be parked on the current gate: never replace it
		s.hold = make(chan struct{})
		s.inSend = make(chan struct{})
	}
	s.mtx.Unlock()
}

func (s *listenStream) release() {
	s.mtx.Lock()
	if s.hold != nil {
		close(s.hold)
		s.hold = nil
	}
	s.mtx.Unlock()
}

func (s *listenStream) kill() {
	s.mtx.Lock()
	s.killed = true
	s.mtx.Unlock()
	s.cancel()
}

func (s *listenStream) alive() bool {
	select {
	case <-s.done:
		return false
	default:
		return true
	}
}

func (s *listenStream) Context() context.Context { return s.ctx }
func (s *listenStream) Send(m *signaling.ListenResponse) error {
	s.mtx.Lock()
	s.resps = append(s.resps, m)
	hold, inSend := s.hold, s.inSend
	s.mtx.Unlock()
	s.w.logLtx(s.id, m)
	if hold != nil {
		select {
		case <-inSend:
		default:
			close(inSend)
		}
		select {
		case <-hold:
		case <-s.ctx.Done():
		}
	}
	return nil
}
func (s *listenStream) SendAndClose(m *signaling.ListenResponse) error { return s.Send(m) }
func (s *listenStream) MsgSend(srpc.Message) error                     { return nil }
func (s *listenStream) MsgRecv(srpc.Message) error                     { return io.EOF }
func (s *listenStream) CloseSend() error                               { return nil }
func (s *listenStream) Close() error                                   { return nil }

// fakeMounted is the MountedStreamContext of a stream whose link authenticated peer `pid`.
type fakeMounted struct{ pid peer.ID }

func (f *fakeMounted) GetStream() stream.Stream     { return nil }
func (f *fakeMounted) GetProtocolID() protocol.ID   { return signaling.ProtocolID }
func (f *fakeMounted) GetOpenOpts() stream.OpenOpts { return stream.OpenOpts{} }
func (f *fakeMounted) GetPeerID() peer.ID           { return f.pid }
func (f *fakeMounted) GetLink() link.MountedLink    { return nil }

// identCtx is the context of a stream authenticated as peer `pid` (0 = not authenticated at all).
func (w *world) identCtx(pid int) context.Context {
	ctx := context.Background()
	if pid == 0 {
		return ctx
	}
	if w.ident == "mounted" {
		return link.WithMountedStreamContext(ctx, &fakeMounted{pid: w.e.pids[pid]})
	}
	return context.WithValue(ctx, ctxKey{}, w.e.pids[pid])
}

// sink receives the hook lines. Lines of calls this world did not start (a handler of an
// earlier scenario finishing late) are not part of this world's trace.
func (w *world) sink(line string) {
	w.mtx.Lock()
	if strings.HasPrefix(line, "ev=") {
		if i := strings.Index(line, " call="); i >= 0 {
			c := line[i+6:]
			if j := strings.IndexByte(c, ' '); j >= 0 {
				c = c[:j]
			}
			if _, ok := w.calls[c]; !ok {
				w.mtx.Unlock()
				return
			}
		}
	}
	w.log = append(w.log, line)
	w.mtx.Unlock()
}

func (w *world) logTx(call int, m *signaling.SessionResponse) {
	switch b := m.GetBody().(type) {
	case *signaling.SessionResponse_Opened:
		w.sink(fmt.Sprintf("TX tx,c=%d,r=opened,v=%d", call, b.Opened))
	case *signaling.SessionResponse_Closed:
		w.sink(fmt.Sprintf("TX tx,c=%d,r=closed", call))
	case *signaling.SessionResponse_AckMsg:
		w.sink(fmt.Sprintf("TX tx,c=%d,r=ack,v=%d", call, b.AckMsg))
	case *signaling.SessionResponse_ClearMsg:
		w.sink(fmt.Sprintf("TX tx,c=%d,r=clear,v=%d", call, b.ClearMsg))
	case *signaling.SessionResponse_RecvMsg:
		wire, _ := b.RecvMsg.MarshalVT()
		mid := 0
		w.mtx.Lock()
		for _, s := range w.subs {
			if len(s.wire) != 0 && bytes.Equal(s.wire, wire) {
				mid = s.mid
			}
		}
		w.mtx.Unlock()
		w.sink(fmt.Sprintf("TX tx,c=%d,r=recv,v=%d,m=%d", call, b.RecvMsg.GetSeqno(), mid))
	}
}

func (w *world) logLtx(call int, m *signaling.ListenResponse) {
	switch b := m.GetBody().(type) {
	case *signaling.ListenResponse_SetPeer:
		w.sink(fmt.Sprintf("TX ltx,c=%d,r=set,v=%d", call, w.e.pidIx[b.SetPeer]))
	case *signaling.ListenResponse_ClearPeer:
		w.sink(fmt.Sprintf("TX ltx,c=%d,r=clearpeer,v=%d", call, w.e.pidIx[b.ClearPeer]))
	}
}

func (w *world) newSession(src, dst int) *sessStream { return w.newSessionOpt(src, dst, false) }

// newSessionOpt: held = the client is slow from the start (the handler's first Send blocks).
func (w *world) newSessionOpt(src, dst int, held bool) *sessStream {
	ctx, cancel := context.WithCancel(w.identCtx(src))
	s := &sessStream{w: w, src: src, dst: dst, ctx: ctx, cancel: cancel, reqCh: make(chan *signaling.SessionRequest, 64), done: make(chan struct{})}
	if held {
		s.holdSends()
	}
	w.mtx.Lock()
	w.nextID++
	s.id = w.nextID
	w.scalls = append(w.scalls, s)
	w.calls[fmt.Sprintf("%p", s)] = s.id
	w.mtx.Unlock()
	s.reqCh <- &signaling.SessionRequest{Body: &signaling.SessionRequest_Init{Init: &signaling.SessionInit{PeerId: w.e.pids[dst].String()}}}
	go func() {
		s.err = w.srv.Session(s)
		s.cancel() // as SRPC does: the stream context ends when the handler returns
		close(s.done)
	}()
	return s
}

// rawFirsts are the scripted first requests the relay must refuse before registering anything.
var rawFirsts = []string{"first-send", "first-ack", "first-clear", "init-self", "init-seqno", "init-empty", "init-garbage", "init-eof", "first-empty"}

// newSessionRaw starts a Session call authenticated as `src` (0 = no identity on the stream)
// whose first request is scripted by `first`; a valid Init towards dst follows it.
func (w *world) newSessionRaw(src, dst int, first string) *sessStream {
	ctx, cancel := context.WithCancel(w.identCtx(src))
	s := &sessStream{w: w, src: src, dst: dst, ctx: ctx, cancel: cancel, reqCh: make(chan *signaling.SessionRequest, 64), done: make(chan struct{}), first: first}
	w.mtx.Lock()
	w.nextID++
	s.id = w.nextID
	w.raws = append(w.raws, s)
	w.calls[fmt.Sprintf("%p", s)] = s.id
	w.mtx.Unlock()
	e := w.e
	dstStr := e.pids[dst].String()
	init := func(pid string, q uint64) *signaling.SessionRequest {
		return &signaling.SessionRequest{SessionSeqno: q, Body: &signaling.SessionRequest_Init{Init: &signaling.SessionInit{PeerId: pid}}}
	}
	signer := src
	if signer == 0 {
		signer = 1
	}
	switch first {
	case "first-send":
		msg, err := signaling.NewSessionMsg(e.keys[signer].SK, hash.HashType_HashType_BLAKE3, []byte("before init"), 1)
		if err != nil {
			panic(err)
		}
		s.reqCh <- &signaling.SessionRequest{Body: &signaling.SessionRequest_SendMsg{SendMsg: msg}}
	case "first-ack":
		s.reqCh <- &signaling.SessionRequest{Body: &signaling.SessionRequest_AckMsg{AckMsg: 1}}
	case "first-clear":
		s.reqCh <- &signaling.SessionRequest{Body: &signaling.SessionRequest_ClearMsg{ClearMsg: 1}}
	case "first-empty":
		s.reqCh <- &signaling.SessionRequest{}
	case "init-self":
		s.reqCh <- init(e.pids[signer].String(), 0)
	case "init-seqno":
		s.reqCh <- init(dstStr, uint64(1+e.rng.Intn(3)))
	case "init-empty":
		s.reqCh <- init("", 0)
	case "init-garbage":
		s.reqCh <- init("not-a-peer-id", 0)
	case "init-eof":
		close(s.reqCh)
		s.closedRx = true
	case "no-ident":
	default:
		panic("unknown first request " + first)
	}
	if !s.closedRx {
		s.reqCh <- init(dstStr, 0) // a well-formed Init afterwards must not rescue the call
	}
	go func() {
		s.err = w.srv.Session(s)
		s.cancel()
		close(s.done)
	}()
	return s
}

func (w *world) newListen(pid int) *listenStream { return w.newListenAs(pid, pid) }

// newListenAs: identPid = the identity on the stream (0 = none).
func (w *world) newListenAs(pid, identPid int) *listenStream {
	ctx, cancel := context.WithCancel(w.identCtx(identPid))
	s := &listenStream{w: w, pid: pid, ctx: ctx, cancel: cancel, done: make(chan struct{})}
	w.mtx.Lock()
	w.nextID++
	s.id = w.nextID
	if identPid == 0 {
		w.rawl = append(w.rawl, s)
	} else {
		w.lcalls = append(w.lcalls, s)
	}
	w.calls[fmt.Sprintf("%p", s)] = s.id
	w.mtx.Unlock()
	go func() {
		s.err = w.srv.Listen(&signaling.ListenRequest{}, s)
		close(s.done)
	}()
	return s
}

func (s *sessStream) lastOpened() (uint64, bool) {
	s.mtx.Lock()
	defer s.mtx.Unlock()
	for i := len(s.resps) - 1; i >= 0; i-- {
		switch b := s.resps[i].GetBody().(type) {
		case *signaling.SessionResponse_Opened:
			return b.Opened, true
		case *signaling.SessionResponse_Closed:
			return 0, false
		}
	}
	return 0, false
}

func (s *sessStream) alive() bool {
	select {
	case <-s.done:
		return false
	default:
		return true
	}
}

// quiesce waits until the server is quiescent: for three consecutive samples `d` apart the event
// log has not grown AND no goroutine of the process is runnable, running or in a system call
// (package quiet: load-proof, a handler that has not been scheduled yet counts as busy).
func (w *world) quiesce(d time.Duration) {
	quiet.Settle(func() int {
		w.mtx.Lock()
		defer w.mtx.Unlock()
		return len(w.log)
	}, d, 3, 20*time.Second)
}

func (w *world) lines() []string {
	w.mtx.Lock()
	defer w.mtx.Unlock()
	return append([]string(nil), w.log...)
}

// canonical converts the raw log to the driver's trace. The verdict (v, g) handed to the model for
// every submission is the HARNESS's own (stdlib) judgement of the message, never the server's.
func (w *world) canonical() (string, string) {
	lines := w.lines()
	tr, last, cerr := sigtrace.Canonical(sigtrace.Input{Lines: lines, PidIx: w.e.pidIx, Calls: w.calls, SubOf: func(call, k int) (sigtrace.Sub, bool) {
		for _, x := range w.scalls {
			if x.id == call {
				x.mtx.Lock()
				defer x.mtx.Unlock()
				if k >= len(x.valid) {
					return sigtrace.Sub{}, false
				}
				sub := x.valid[k]
				return sigtrace.Sub{Mid: sub.mid, Epoch: sub.epoch, Seqno: sub.seqno, V: sub.v, Signer: sub.claimed}, true
			}
		}
		return sigtrace.Sub{}, false
	}})
	w.lastSnap = last
	return tr, cerr
}

func (w *world) jitter() {
	switch w.e.rng.Intn(4) {
	case 0:
	case 1:
		time.Sleep(time.Duration(w.e.rng.Intn(150)) * time.Microsecond)
	case 2:
		time.Sleep(time.Duration(200+w.e.rng.Intn(800)) * time.Microsecond)
	case 3:
		w.quiesce(300 * time.Microsecond)
	}
}

// forgedKinds are the submissions built by hand (sigoracle.Forged) on the server side.
func forgedKinds() []string {
	var l []string
	for _, c := range sigoracle.ForgedClasses {
		l = append(l, "send-"+c)
	}
	return l
}

// submit makes one client action on a session stream.
func (w *world) submit(s *sessStream, kind string) {
	epoch, open := s.lastOpened()
	e := w.e
	switch {
	case kind == "ack":
		// ack the last message received on this stream
		var k uint64
		s.mtx.Lock()
		for _, r := range s.resps {
			if b, ok := r.GetBody().(*signaling.SessionResponse_RecvMsg); ok {
				k = b.RecvMsg.GetSeqno()
			}
		}
		s.mtx.Unlock()
		if k == 0 || e.rng.Intn(6) == 0 {
			k = uint64(1 + e.rng.Intn(4)) // unsolicited / wrong ack
		}
		s.reqCh <- &signaling.SessionRequest{SessionSeqno: epoch, Body: &signaling.SessionRequest_AckMsg{AckMsg: k}}
	case kind == "clear":
		k := s.nextQ
		if k == 0 || e.rng.Intn(5) == 0 {
			k = uint64(1 + e.rng.Intn(4))
		}
		s.reqCh <- &signaling.SessionRequest{SessionSeqno: epoch, Body: &signaling.SessionRequest_ClearMsg{ClearMsg: k}}
	case kind == "init-again":
		s.setPoison(kind)
		s.reqCh <- &signaling.SessionRequest{SessionSeqno: epoch, Body: &signaling.SessionRequest_Init{Init: &signaling.SessionInit{PeerId: e.pids[s.dst].String()}}}
	case kind == "empty-request":
		s.setPoison(kind)
		s.reqCh <- &signaling.SessionRequest{SessionSeqno: epoch}
	case kind == "close-rx":
		if !s.closedRx {
			s.closedRx = true
			close(s.reqCh)
		}
	case kind == "cancel":
		s.kill()
	case strings.HasPrefix(kind, "send"):
		s.nextQ++
		q := s.nextQ
		data := e.rng.Bytes(1 + e.rng.Intn(20))
		mine := e.keys[s.src]
		// a key holder other than the submitting stream's peer
		foreign := e.keys[s.dst]
		if e.rng.Intn(2) == 0 {
			foreign = e.keys[1+(s.src+e.rng.Intn(nPeers-1))%nPeers]
		}
		var msg *signaling.SessionMsg
		wantAuth := false
		switch kind {
		case "send", "send-stale", "send-future":
			m, err := signaling.NewSessionMsg(mine.SK, hash.HashType_HashType_BLAKE3, data, q)
			if err != nil {
				panic(err)
			}
			msg, wantAuth = m, true
		case "send-forged-key": // validly signed by another peer under its own name
			m, err := signaling.NewSessionMsg(foreign.SK, hash.HashType_HashType_BLAKE3, data, q)
			if err != nil {
				panic(err)
			}
			msg = m
		case "send-tampered":
			m, err := signaling.NewSessionMsg(mine.SK, hash.HashType_HashType_BLAKE3, data, q)
			if err != nil {
				panic(err)
			}
			m.SignedMsg.Data[0] ^= 1
			msg = m
		case "send-keyed": // authentic, with the sender's own (redundant) public key attached
			msg, wantAuth = sigoracle.KeyedAuthentic(mine, data, q), true
		case "send-nil-msg": // a SendMsg request without any message
			msg = nil
		default:
			m, ok := sigoracle.Forged(strings.TrimPrefix(kind, "send-"), mine, foreign, data, q)
			if !ok {
				panic("unknown submission kind " + kind)
			}
			msg = m
		}
		ep := epoch
		switch kind {
		case "send-stale":
			if ep > 0 {
				ep--
			}
		case "send-future":
			ep += 3
		}
		if !open && kind == "send" {
			ep = epoch // 0: stale unless the session really is at 0 (never)
		}
		var wire []byte
		if msg != nil {
			wire, _ = msg.MarshalVT()
		}
		v, claimed := sigoracle.Verdict(e.keys, msg)
		sub := &submission{src: s.src, dst: s.dst, seqno: q, epoch: ep, kind: kind, v: v, claimed: claimed, wire: wire, call: s.id}
		sub.authentic = sigoracle.AuthenticFrom(mine, msg)
		if sub.authentic != wantAuth || sub.authentic != (v == 1 && claimed == s.src) {
			panic(fmt.Sprintf("harness self-check: submission kind %s: oracle says authentic=%v v=%d claimed=%d, construction says %v", kind, sub.authentic, v, claimed, wantAuth))
		}
		if !sub.authentic || kind == "send-future" {
			s.setPoison(kind)
		}
		w.mtx.Lock()
		sub.mid = len(w.subs) + 1
		w.subs = append(w.subs, sub)
		w.mtx.Unlock()
		s.mtx.Lock()
		s.valid = append(s.valid, sub)
		s.mtx.Unlock()
		s.reqCh <- &signaling.SessionRequest{SessionSeqno: ep, Body: &signaling.SessionRequest_SendMsg{SendMsg: msg}}
	default:
		panic("unknown action " + kind)
	}
}

func (s *sessStream) setPoison(kind string) {
	s.mtx.Lock()
	if s.poison == "" {
		s.poison = kind
	}
	s.mtx.Unlock()
}

func (e *engine) newWorld(ident string) *world {
	w := &world{e: e, calls: map[string]int{}, ident: ident}
	if ident == "mounted" {
		// the relay as it is deployed: the identity of a stream is the peer of its mounted stream context
		w.srv = signaling_rpc_server.NewServer(e.le)
	} else {
		w.srv = signaling_rpc_server.NewServerWithIdentify(e.le, func(ctx context.Context) (peer.ID, error) {
			return ctx.Value(ctxKey{}).(peer.ID), nil
		})
	}
	return w
}

func (e *engine) scenario(kind string, n int) {
	ident := "callback"
	if kind == "ident-mounted" || (kind == "random" && e.rng.Intn(3) == 0) {
		ident = "mounted"
	}
	w := e.newWorld(ident)
	signaling_rpc_server.VerifSetSink(w.sink)
	defer signaling_rpc_server.VerifSetSink(nil)
	defer func() {
		for _, s := range w.scalls {
			e.keep = append(e.keep, s)
		}
		for _, s := range w.raws {
			e.keep = append(e.keep, s)
		}
		for _, l := range w.lcalls {
			e.keep = append(e.keep, l)
		}
		for _, l := range w.rawl {
			e.keep = append(e.keep, l)
		}
	}()
	var actions []string
	act := func(s string) { actions = append(actions, s) }
	q := func() { w.quiesce(300 * time.Microsecond) }
	switch kind {
	case "reattach-race":
		// C22 sentinel: B detaches and re-attaches (or is usurped) while A stays attached
		a := w.newSession(1, 2)
		b := w.newSession(2, 1)
		q()
		act("attach 1->2; attach 2->1")
		for i := 0; i < n; i++ {
			if e.rng.Intn(2) == 0 {
				b2 := w.newSession(2, 1) // usurp without detaching first
				act("usurp 2->1")
				_ = b
				b = b2
			} else {
				b.kill()
				b = w.newSession(2, 1)
				act("cancel+reattach 2->1")
			}
			w.jitter()
			w.submit(a, "send")
			act("send on 1->2")
			w.jitter()
		}
	case "late-attach":
		// C22 sentinel (F9): the second peer attaches and only IT has something to send
		w.newSession(1, 2)
		q()
		b := w.newSession(2, 1)
		q()
		act("attach 1->2; quiesce; attach 2->1; quiesce")
		w.submit(b, "send")
		act("send on 2->1")
	case "usurp-while-partner-blocked":
		// C20/C22 sentinel: B's write loop is parked in Send (slow client) while A1 submits a
		// message for the current epoch and A2 then replaces A1 (new epoch); B resumes
		a1 := w.newSession(1, 2)
		q()
		b := w.newSessionOpt(2, 1, true)
		select {
		case <-b.inSend:
		case <-time.After(2 * time.Second):
		}
		q()
		w.submit(a1, "send")
		q()
		w.newSession(1, 2) // replaces a1, new epoch
		q()
		b.release()
		act("attach 1->2; attach 2->1 (slow client: parked in its first Send); send on 1->2; 1 re-attaches (new epoch); 2->1 resumes")
	case "listen-reopen":
		// C24 sentinel (F8): listener stays while a session towards it opens, closes, re-opens
		w.newListen(2)
		q()
		for i := 0; i < n; i++ {
			s := w.newSession(1, 2)
			q()
			s.kill()
			q()
			act("listen 2; open 1->2; close")
		}
		w.newSession(1, 2)
		w.newSession(3, 2)
		act("open 1->2; open 3->2")
	case "listen-swap":
		// C24 sentinel: while the listener is inside Send(SetPeer X), X's session closes and Z's opens
		l := w.newListen(2)
		q()
		l.holdSends()
		x := w.newSession(1, 2)
		select {
		case <-l.inSend:
		case <-time.After(2 * time.Second):
		}
		x.kill()
		q()
		w.newSession(3, 2)
		q()
		l.release()
		act("listen 2 (slow client); open 1->2; while Send(SetPeer 1) blocks: close 1->2, open 3->2; release")
	case "listen-stale-cleanup":
		// C25 sentinel: a replaced Listen call that finishes late must not disturb a newer tracker
		l1 := w.newListen(2)
		q()
		l1.holdSends()
		sx := w.newSession(1, 2)
		select {
		case <-l1.inSend:
		case <-time.After(2 * time.Second):
		}
		l2 := w.newListen(2) // replaces l1
		q()
		l2.kill()
		q()
		sx.kill() // last want gone: tracker released
		q()
		w.newListen(2) // l3 on a fresh tracker
		q()
		l1.release() // l1 now observes it was replaced and runs its cleanup
		w.quiesce(500 * time.Microsecond)
		w.newSession(3, 2) // must be announced to l3
		act("L1 listens (slow client) ; session 1->2; L2 replaces L1; L2 cancelled; session ends; L3 listens; L1 finishes late; session 3->2")
	case "listen-usurp-open":
		// C24/C25 sentinel: a Listen call is replaced by a newer one for the same peer (client
		// reconnect); the replaced call's exit must leave the shared tracker to its successor, which
		// must learn of every session opened afterwards. n selects the variant.
		hub := 2 + e.rng.Intn(2)
		others := []int{}
		for p := 1; p <= nPeers; p++ {
			if p != hub {
				others = append(others, p)
			}
		}
		switch n % 3 {
		case 0: // no want at usurp time: the exit of L1 must not release the tracker under L2
			w.newListen(hub)
			q()
			w.newListen(hub)
			q()
			act(fmt.Sprintf("listen %d; listen %d again (replaces the first); quiesce", hub, hub))
		case 1: // a want exists at usurp time; it closes afterwards, then others open
			s := w.newSession(others[0], hub)
			w.newListen(hub)
			q()
			w.newListen(hub)
			q()
			s.kill()
			q()
			act(fmt.Sprintf("open %d->%d; listen %d; listen %d again; close %d->%d", others[0], hub, hub, hub, others[0], hub))
		case 2: // two replacements in a row, the first while the listener is parked in Send
			l1 := w.newListen(hub)
			q()
			l1.holdSends()
			s := w.newSession(others[0], hub)
			select {
			case <-l1.inSend:
			case <-time.After(2 * time.Second):
			}
			w.newListen(hub)
			q()
			w.newListen(hub)
			q()
			l1.release()
			q()
			s.kill()
			q()
			act(fmt.Sprintf("listen %d (slow client); open %d->%d; listen %d again twice; first listener resumes; close %d->%d", hub, others[0], hub, hub, others[0], hub))
		}
		// now the peers open (and some close) sessions towards the hub: the live listener must follow
		var open []*sessStream
		for _, p := range others {
			open = append(open, w.newSession(p, hub))
			w.jitter()
		}
		q()
		open[e.rng.Intn(len(open))].kill()
		act(fmt.Sprintf("open sessions from %v towards %d; close one", others, hub))
	case "session-overlap":
		// C24/C25 sentinel: two overlapping Session calls from one source to the same destination
		// (client retry before the relay noticed the old stream is gone): the older call ends with
		// the replaced error and its exit must not withdraw the want the newer call relies on.
		hub := 2 + e.rng.Intn(2)
		src := 1
		listenFirst := n%2 == 0
		if listenFirst {
			w.newListen(hub)
			q()
		}
		for i := 0; i < 1+n%3; i++ {
			w.newSession(src, hub)
			q()
		}
		w.newSession(src, hub) // overlaps the previous call, stays open
		q()
		other := 4 + e.rng.Intn(2)
		w.newSession(other, hub)
		w.newSession(other, hub) // same for a second source, back to back
		q()
		if !listenFirst {
			w.newListen(hub) // a listener starting now must be told both peers
			q()
		}
		act(fmt.Sprintf("listenFirst=%v hub=%d: %d overlapping session calls %d->%d, the last stays open; two overlapping calls %d->%d", listenFirst, hub, 2+n%3, src, hub, other, hub))
	case "listen-many":
		// C24: a listener with up to four wanting peers, opening and closing in random order, with
		// listener replacements in between
		hub := 1 + e.rng.Intn(nPeers)
		w.newListen(hub)
		act(fmt.Sprintf("listen %d", hub))
		cur := map[int]*sessStream{}
		for i := 0; i < n; i++ {
			p := 1 + e.rng.Intn(nPeers)
			if p == hub {
				if e.rng.Intn(2) == 0 {
					w.newListen(hub)
					act(fmt.Sprintf("listen %d again", hub))
				}
				continue
			}
			if s := cur[p]; s != nil && s.alive() && e.rng.Intn(3) > 0 {
				s.kill()
				delete(cur, p)
				act(fmt.Sprintf("close %d->%d", p, hub))
			} else {
				cur[p] = w.newSession(p, hub)
				act(fmt.Sprintf("open %d->%d", p, hub))
			}
			w.jitter()
		}
	case "forgery-classes":
		// C20 sentinel: with the partner attached and the session open, the submitting stream sends
		// one message of every forgery class in the CURRENT epoch (each must fail the stream and
		// must not be forwarded), re-attaching after each; authentic messages in between still flow
		b := w.newSession(2, 1)
		kinds := append(forgedKinds(), "send-forged-key", "send-tampered", "send-nil-msg", "send-keyed", "send")
		e.rng.Shuffle(len(kinds), func(i, j int) { kinds[i], kinds[j] = kinds[j], kinds[i] })
		for _, k := range kinds {
			a := w.newSession(1, 2)
			q()
			w.submit(a, k)
			q()
			w.submit(b, "ack")
			act(k + " on a fresh 1->2 call")
		}
		a := w.newSession(1, 2)
		q()
		w.submit(a, "send")
		act("send on a fresh 1->2 call")
	case "ident-mounted", "ident-callback":
		// C20: identity of a stream (mounted stream context / ident callback) and requests before Init
		firsts := append([]string(nil), rawFirsts...)
		e.rng.Shuffle(len(firsts), func(i, j int) { firsts[i], firsts[j] = firsts[j], firsts[i] })
		b := w.newSession(2, 1)
		w.newListen(2)
		q()
		for _, f := range firsts {
			w.newSessionRaw(1, 2, f)
			act("session call as 1 with first request " + f)
			w.jitter()
		}
		if ident == "mounted" {
			w.newSessionRaw(0, 2, "no-ident")
			w.newListenAs(2, 0)
			act("session call and listen call on streams without a mounted stream context")
		}
		q()
		a := w.newSession(1, 2)
		q()
		w.submit(a, "send")
		q()
		w.submit(b, "ack")
		act("attach 1->2; send; ack")
	default: // random
		hub := 1 + e.rng.Intn(nPeers)
		for i := 0; i < n; i++ {
			live := []*sessStream{}
			for _, s := range w.scalls {
				if s.alive() && !s.closedRx {
					live = append(live, s)
				}
			}
			r := e.rng.Intn(100)
			switch {
			case r < 18 || len(live) == 0:
				src := 1 + e.rng.Intn(nPeers)
				dst := hub // sessions towards a common peer: its listener has several wanting peers
				if e.rng.Intn(3) == 0 {
					dst = 1 + e.rng.Intn(nPeers)
				}
				if src == dst {
					dst = 1 + dst%nPeers
				}
				if e.rng.Intn(2) == 0 { // bias to the 1<->2 pair
					src = 1 + e.rng.Intn(2)
					dst = 3 - src
				}
				w.newSession(src, dst)
				act(fmt.Sprintf("attach %d->%d", src, dst))
			case r < 25:
				p := hub
				if e.rng.Intn(3) == 0 {
					p = 1 + e.rng.Intn(nPeers)
				}
				w.newListen(p)
				act(fmt.Sprintf("listen %d", p))
			case r < 27:
				var ss []*sessStream
				for _, x := range w.scalls {
					if x.alive() {
						ss = append(ss, x)
					}
				}
				if len(ss) > 0 {
					x := ss[e.rng.Intn(len(ss))]
					if e.rng.Intn(2) == 0 {
						x.holdSends()
						act(fmt.Sprintf("slow client on session call %d", x.id))
					} else {
						x.release()
						act(fmt.Sprintf("release session call %d", x.id))
					}
				}
			case r < 29:
				var ll []*listenStream
				for _, l := range w.lcalls {
					if l.alive() {
						ll = append(ll, l)
					}
				}
				if len(ll) > 0 {
					l := ll[e.rng.Intn(len(ll))]
					if e.rng.Intn(2) == 0 {
						l.holdSends()
						act(fmt.Sprintf("slow client on listen call %d", l.id))
					} else {
						l.release()
						act(fmt.Sprintf("release listen call %d", l.id))
					}
				}
			case r < 31:
				var ll []*listenStream
				for _, l := range w.lcalls {
					if l.alive() {
						ll = append(ll, l)
					}
				}
				if len(ll) > 0 {
					l := ll[e.rng.Intn(len(ll))]
					l.kill()
					act(fmt.Sprintf("cancel listen call %d", l.id))
				}
			case r < 33:
				f := rawFirsts[e.rng.Intn(len(rawFirsts))]
				src := 1 + e.rng.Intn(nPeers)
				w.newSessionRaw(src, 1+src%nPeers, f)
				act("session call with first request " + f)
			default:
				s := live[e.rng.Intn(len(live))]
				kinds := []string{"send", "send", "send", "send", "send", "ack", "ack", "ack", "clear", "send-stale", "send-future", "send-forged-key", "send-tampered", "init-again", "close-rx", "cancel", "cancel", "send-keyed"}
				k := kinds[e.rng.Intn(len(kinds))]
				if e.rng.Intn(12) == 0 {
					fk := append(forgedKinds(), "send-nil-msg", "empty-request")
					k = fk[e.rng.Intn(len(fk))]
				}
				w.submit(s, k)
				act(fmt.Sprintf("%s on call %d", k, s.id))
			}
			w.jitter()
		}
	}
	for _, l := range w.lcalls {
		l.release()
	}
	for _, x := range w.scalls {
		x.release()
	}
	w.quiesce(2 * time.Millisecond)
	e.validate(w, kind, actions, false)
	// drain: end every call, then the relay must hold no state
	for _, s := range w.scalls {
		s.kill()
	}
	for _, s := range w.raws {
		s.kill()
	}
	for _, l := range w.lcalls {
		l.kill()
	}
	for _, l := range w.rawl {
		l.kill()
	}
	for _, s := range append(append([]*sessStream(nil), w.scalls...), w.raws...) {
		select {
		case <-s.done:
		case <-time.After(3 * time.Second):
			w.mon = append(w.mon, fmt.Sprintf("session call %d did not return after cancel", s.id))
		}
	}
	for _, l := range append(append([]*listenStream(nil), w.lcalls...), w.rawl...) {
		select {
		case <-l.done:
		case <-time.After(3 * time.Second):
			w.mon = append(w.mon, fmt.Sprintf("listen call %d did not return after cancel", l.id))
		}
	}
	e.validate(w, kind, actions, true)
}

// observe evaluates the model-independent monitors on what the real server did: the responses
// it sent, the errors its handlers returned, its own hook lines (event order, its own usurp
// decisions, its last logged state). Nothing here depends on the Lean replay.
func (e *engine) observe(w *world, kind string, drained bool, cerr string) (mon, key string) {
	key = "sigsrv.trace:" + kind
	set := func(k, m string) {
		if mon == "" {
			mon = m
			if k != "" {
				key = k
			}
		}
	}
	lines := w.lines()
	facts := sigtrace.ReadFacts(lines, e.pidIx, w.calls)
	// ---- C20 / C22: the traffic every stream received ----
	subByWire := map[string]*submission{}
	w.mtx.Lock()
	for _, s := range w.subs {
		if len(s.wire) != 0 {
			subByWire[string(s.wire)] = s
		}
	}
	w.mtx.Unlock()
	for _, s := range w.scalls {
		s.mtx.Lock()
		var lastOpen uint64
		open := false
		prevOpen := uint64(0)
		for _, r := range s.resps {
			switch b := r.GetBody().(type) {
			case *signaling.SessionResponse_Opened:
				if b.Opened <= prevOpen {
					set("", fmt.Sprintf("call %d: session epochs announced out of order (%d after %d)", s.id, b.Opened, prevOpen))
				}
				prevOpen, lastOpen, open = b.Opened, b.Opened, true
			case *signaling.SessionResponse_Closed:
				open = false
			case *signaling.SessionResponse_RecvMsg:
				// direct statement of C20 on the forwarded message itself (stdlib only): it must verify
				// under the key of the identity of the stream that submitted it (the partner of this
				// call's session) over the body it carries, and name that identity as its sender
				if !sigoracle.AuthenticFrom(e.keys[s.dst], b.RecvMsg) {
					set("sigsrv.forward:forged", fmt.Sprintf("call %d (%d->%d): the relay forwarded a message (seqno %d, sender field names peer %d) that does not verify under the submitting stream's identity (peer %d) over that body with the stdlib",
						s.id, s.src, s.dst, b.RecvMsg.GetSeqno(), e.pidIx[sigoracle.From(b.RecvMsg)], s.dst))
				}
				wire, _ := b.RecvMsg.MarshalVT()
				sub := subByWire[string(wire)]
				switch {
				case sub == nil:
					set("", fmt.Sprintf("call %d received a message nobody submitted", s.id))
				case !sub.authentic:
					set("sigsrv.forward:forged", fmt.Sprintf("call %d (%d->%d) was forwarded a message that is not authentic (submission kind %s)", s.id, s.src, s.dst, sub.kind))
				case sub.src != s.dst || sub.dst != s.src:
					set("", fmt.Sprintf("call %d (%d->%d) was forwarded a message submitted on session %d->%d", s.id, s.src, s.dst, sub.src, sub.dst))
				case !open:
					set("", fmt.Sprintf("call %d was forwarded a message while the session was announced closed", s.id))
				case sub.epoch != lastOpen:
					set("sigsrv.forward:cross-epoch", fmt.Sprintf("call %d: message submitted in epoch %d delivered in epoch %d", s.id, sub.epoch, lastOpen))
				}
			}
		}
		s.mtx.Unlock()
	}
	// ---- C20: calls that must be refused before anything is registered ----
	for _, s := range w.raws {
		what := "whose first request was " + s.first
		if s.first == "no-ident" {
			what = "on a stream without any authenticated identity"
		}
		s.mtx.Lock()
		nresp := len(s.resps)
		s.mtx.Unlock()
		switch {
		case facts.Events[s.id] != 0:
			set("sigsrv.init:"+s.first, fmt.Sprintf("session call %d %s was registered by the relay (%d critical sections logged) instead of being refused", s.id, what, facts.Events[s.id]))
		case nresp != 0:
			set("sigsrv.init:"+s.first, fmt.Sprintf("session call %d %s was sent %d responses instead of being refused", s.id, what, nresp))
		case s.alive():
			set("sigsrv.init:"+s.first, fmt.Sprintf("session call %d %s is still running instead of being refused", s.id, what))
		case s.err == nil:
			set("sigsrv.init:"+s.first, fmt.Sprintf("session call %d %s returned without an error", s.id, what))
		}
	}
	for _, l := range w.rawl {
		l.mtx.Lock()
		nresp := len(l.resps)
		l.mtx.Unlock()
		if facts.Events[l.id] != 0 || nresp != 0 || l.alive() || l.err == nil {
			set("sigsrv.init:listen-no-ident", fmt.Sprintf("listen call %d on a stream without any authenticated identity was not refused (events=%d responses=%d running=%v)", l.id, facts.Events[l.id], nresp, l.alive()))
		}
	}
	// newer registration of the same ordered pair / the same listening peer, by the server's own event order
	sessReplacedBy := func(s *sessStream) int {
		at, ok := facts.InitAt[s.id]
		if !ok {
			return 0
		}
		best := 0
		for c, a := range facts.InitAt {
			if c != s.id && a > at && facts.Pair[c] == facts.Pair[s.id] {
				best = c
			}
		}
		return best
	}
	listenReplacedBy := func(l *listenStream) int {
		at, ok := facts.LRegAt[l.id]
		if !ok {
			return 0
		}
		best := 0
		for c, a := range facts.LRegAt {
			if c != l.id && a > at && facts.LPid[c] == facts.LPid[l.id] {
				best = c
			}
		}
		return best
	}
	if !drained {
		// quiescent state vs announcements and listeners (property statements, from the real server's last logged state)
		final := w.lastSnap
		parts := strings.SplitN(final, "#", 2)
		liveSess := map[[2]int]*sessStream{}
		dup := false
		for _, s := range w.scalls {
			if s.alive() {
				if _, ok := liveSess[[2]int{s.src, s.dst}]; ok {
					dup = true
				}
				liveSess[[2]int{s.src, s.dst}] = s
			}
		}
		if dup {
			set("sigsrv.unique:"+kind, "two session calls for the same ordered peer pair are still active at quiescence")
		}
		liveListen := map[int]int{}
		for _, l := range w.lcalls {
			if l.alive() {
				liveListen[l.pid]++
			}
		}
		for p, c := range liveListen {
			if c > 1 {
				set("sigsrv.unique:"+kind, fmt.Sprintf("%d listen calls for peer %d are still active at quiescence", c, p))
			}
		}
		// C22: every attached peer whose partner is attached has been told the current epoch; and
		// (lost wake-up, read off the server's own state) nothing relayed is left undelivered
		if cerr == "" && len(parts) == 2 && parts[1] != "" {
			for _, se := range strings.Split(parts[1], "|") {
				f := strings.Split(se, ":")
				seqno, _ := strconv.ParseUint(f[1], 10, 64)
				for _, at := range f[2:4] {
					if at == "nil" {
						continue
					}
					af := strings.Split(at, "/")
					c, _ := strconv.Atoi(af[0])
					var cs *sessStream
					for _, s := range w.scalls {
						if s.id == c {
							cs = s
						}
					}
					if cs == nil || !cs.alive() {
						continue
					}
					lo, open := cs.lastOpened()
					both := f[2] != "nil" && f[3] != "nil"
					if both && (!open || lo != seqno) {
						set("sigsrv.announce:"+kind, fmt.Sprintf("both peers are attached at epoch %d but call %d (%d->%d) was last told open=%v epoch=%d", seqno, c, cs.src, cs.dst, open, lo))
					}
					if !both && open {
						set("sigsrv.announce:"+kind, fmt.Sprintf("partner of call %d is detached but the call was never told the session closed", c))
					}
					if both && len(af) == 5 && af[1] != "-" {
						set("sigsrv.wakeup:"+kind, fmt.Sprintf("lost wake-up: the relay is quiescent with message %s stored for the running call %d (%d->%d) and never transmitted to it", af[1], c, cs.src, cs.dst))
					}
					if both && len(af) == 5 && af[4] != "-" {
						set("sigsrv.wakeup:"+kind, fmt.Sprintf("lost wake-up: the relay is quiescent with the acknowledgement of message %s stored for the running call %d (%d->%d) and never transmitted to it", af[4], c, cs.src, cs.dst))
					}
				}
			}
		}
		// C24: announced-minus-withdrawn equals the peers with a live session request
		for _, l := range w.lcalls {
			if !l.alive() {
				continue
			}
			told := map[int]bool{}
			l.mtx.Lock()
			for _, r := range l.resps {
				switch b := r.GetBody().(type) {
				case *signaling.ListenResponse_SetPeer:
					told[e.pidIx[b.SetPeer]] = true
				case *signaling.ListenResponse_ClearPeer:
					delete(told, e.pidIx[b.ClearPeer])
				}
			}
			l.mtx.Unlock()
			want := map[int]bool{}
			for k := range liveSess {
				if k[1] == l.pid {
					want[k[0]] = true
				}
			}
			if fmt.Sprint(keys(told)) != fmt.Sprint(keys(want)) {
				set("sigsrv.listen:"+kind, fmt.Sprintf("listener for peer %d (call %d) was told %v but the peers holding a session request towards it are %v", l.pid, l.id, keys(told), keys(want)))
			}
		}
		// C25: a call replaced by a newer one has ended with the replaced error; a call nobody
		// cancelled, closed, poisoned or replaced is still running
		for _, s := range w.scalls {
			s.mtx.Lock()
			excused := s.killed || s.closedRx || s.poison != ""
			s.mtx.Unlock()
			if excused {
				continue
			}
			by := sessReplacedBy(s)
			switch {
			case by != 0 && s.alive():
				set("sigsrv.replaced:"+kind, fmt.Sprintf("session call %d (%d->%d) was replaced by the newer call %d but is still running at quiescence", s.id, s.src, s.dst, by))
			case by != 0 && !errors.Is(s.err, signaling.ErrUserpedSession):
				set("sigsrv.replaced:"+kind, fmt.Sprintf("session call %d (%d->%d) was replaced by the newer call %d but ended with %q instead of the replaced error", s.id, s.src, s.dst, by, fmt.Sprint(s.err)))
			case by == 0 && !s.alive():
				set("sigsrv.early-return:"+kind, fmt.Sprintf("session call %d (%d->%d) returned by itself (%q) although it was neither cancelled, closed, replaced nor sent an invalid request", s.id, s.src, s.dst, fmt.Sprint(s.err)))
			}
		}
		for _, l := range w.lcalls {
			l.mtx.Lock()
			excused := l.killed
			l.mtx.Unlock()
			if excused {
				continue
			}
			by := listenReplacedBy(l)
			switch {
			case by != 0 && l.alive():
				set("sigsrv.replaced:"+kind, fmt.Sprintf("listen call %d for peer %d was replaced by the newer call %d but is still running at quiescence", l.id, l.pid, by))
			case by != 0 && !errors.Is(l.err, signaling.ErrUserpedListen):
				set("sigsrv.replaced:"+kind, fmt.Sprintf("listen call %d for peer %d was replaced by the newer call %d but ended with %q instead of the replaced error", l.id, l.pid, by, fmt.Sprint(l.err)))
			case by == 0 && !l.alive():
				set("sigsrv.early-return:"+kind, fmt.Sprintf("listen call %d for peer %d returned by itself (%q) although it was neither cancelled nor replaced", l.id, l.pid, fmt.Sprint(l.err)))
			}
		}
	}
	if drained {
		np, ns := w.srv.VerifCounts()
		if np != 0 || ns != 0 {
			set("sigsrv.drain:"+kind, fmt.Sprintf("all calls have ended but the relay still holds %d peer trackers and %d session trackers", np, ns))
		}
		for _, m := range w.mon {
			set("", m)
		}
		// C25 "the older one ends with a replaced error": exactly the calls the SERVER decided were
		// replaced (its write loop found another attachment on its side / its listen loop found a
		// newer nonce) end with ErrUserpedSession / ErrUserpedListen, and no other call does
		for _, s := range w.scalls {
			if s.alive() {
				continue
			}
			is := errors.Is(s.err, signaling.ErrUserpedSession)
			switch {
			case facts.SessUsurped[s.id] && !is:
				set("sigsrv.replaced-error:"+kind, fmt.Sprintf("session call %d (%d->%d) found itself replaced but ended with %q instead of ErrUserpedSession", s.id, s.src, s.dst, fmt.Sprint(s.err)))
			case !facts.SessUsurped[s.id] && is:
				set("sigsrv.replaced-error:"+kind, fmt.Sprintf("session call %d (%d->%d) ended with ErrUserpedSession although it never found itself replaced", s.id, s.src, s.dst))
			case is && sessReplacedBy(s) == 0:
				set("sigsrv.replaced-error:"+kind, fmt.Sprintf("session call %d (%d->%d) ended with ErrUserpedSession although no newer call of that pair had registered", s.id, s.src, s.dst))
			case errors.Is(s.err, signaling.ErrUserpedListen):
				set("sigsrv.replaced-error:"+kind, fmt.Sprintf("session call %d ended with the listen error", s.id))
			}
		}
		for _, l := range w.lcalls {
			if l.alive() {
				continue
			}
			is := errors.Is(l.err, signaling.ErrUserpedListen)
			switch {
			case facts.ListenUsurped[l.id] && !is:
				set("sigsrv.replaced-error:"+kind, fmt.Sprintf("listen call %d for peer %d found itself replaced but ended with %q instead of ErrUserpedListen", l.id, l.pid, fmt.Sprint(l.err)))
			case !facts.ListenUsurped[l.id] && is:
				set("sigsrv.replaced-error:"+kind, fmt.Sprintf("listen call %d for peer %d ended with ErrUserpedListen although it never found itself replaced", l.id, l.pid))
			}
		}
	}
	// C25: a Listen call may only be told it was replaced when a newer Listen call for the same
	// peer registered after it (read off the real server's own event order, not the model)
	for _, l := range w.lcalls {
		if facts.ListenUsurped[l.id] && listenReplacedBy(l) == 0 {
			set("sigsrv.listen-replaced:"+kind, fmt.Sprintf("listen call %d for peer %d was ended as replaced although no newer Listen call for that peer had registered", l.id, l.pid))
		}
	}
	return mon, key
}

func (e *engine) validate(w *world, kind string, actions []string, drained bool) {
	phase := "quiescent"
	if drained {
		phase = "drained"
	}
	var trace, cerr, op, model, mon, key string
	pending := func() bool {
		return strings.HasPrefix(model, "ok ") && (lib.KV(model, "awake") != "_" || lib.KV(model, "failing") != "_" || lib.KV(model, "pendingtx") != "_")
	}
	// A verdict is taken at quiescence. If the model still sees pending wake-ups, or a monitor on
	// the real observations fires, or the replay has diverged, settle longer and look again
	// (scheduling latency): what is reported is what persists.
	waits := []time.Duration{20, 60, 150, 400, 1000}
	if !drained {
		// calls that must be refused log nothing: give their handlers time to return
		deadline := time.After(2 * time.Second)
		for _, s := range w.raws {
			select {
			case <-s.done:
			case <-deadline:
			}
		}
		for _, l := range w.rawl {
			select {
			case <-l.done:
			case <-deadline:
			}
		}
	}
	for attempt := 0; ; attempt++ {
		trace, cerr = w.canonical()
		op = "sig.trace evs=" + trace
		if cerr != "" {
			model = "harness-error " + cerr
		} else {
			model = e.m.Query(op)
		}
		mon, key = e.observe(w, kind, drained, cerr)
		again := false
		switch {
		case attempt >= len(waits):
		case pending():
			again = true
		case mon != "" && attempt < 3:
			again = true
		case !strings.HasPrefix(model, "ok ") && attempt < 1:
			again = true
		}
		if !again {
			break
		}
		w.quiesce(waits[attempt] * time.Millisecond / 3)
	}
	impl := "ok"
	if !strings.HasPrefix(model, "ok ") {
		impl = "trace-accepted-by-real-server"
	} else {
		if aw := lib.KV(model, "awake"); aw != "_" && mon == "" {
			mon = "lost wake-up: the server is quiescent but calls " + aw + " have an unannounced state change pending (their write loop was not woken)"
			key = "sigsrv.wakeup:" + kind
		}
		if f := lib.KV(model, "failing"); f != "_" && mon == "" {
			mon = "calls " + f + " should have returned (usurped / protocol error) but are still running"
		}
		if p := lib.KV(model, "pendingtx"); p != "_" && mon == "" {
			mon = "calls " + p + " decided on responses in their last loop iteration that were never transmitted although the server is quiescent"
			key = "sigsrv.pendingtx:" + kind
		}
	}
	br := "trace." + kind + "." + phase
	mshort := model
	if strings.HasPrefix(model, "ok ") {
		mshort = "ok"
	}
	opShort := "sig.trace[" + phase + "] actions=" + strings.Join(actions, "; ")
	if mshort != impl || mon != "" {
		opShort = op
	}
	e.rep.Case(opShort, mshort, impl, br, true)
	if mshort != impl || mon != "" {
		d := lib.Disagreement{Op: lib.Trunc(strings.Join(actions, "; ")) + " || " + op, Model: model, Impl: impl, Branch: br, Key: key}
		if len(d.Op) > 6000 {
			d.Op = d.Op[:6000] + "…"
		}
		if mon != "" {
			d.Monitor, d.What = "confirmed", mon
		} else {
			d.Monitor, d.What = "unconfirmed", "the real server took a step that is not a step of the model: "+lib.Trunc(model)
		}
		e.rep.Disagree(d)
	}
	e.rep.Extra["events"] = e.rep.Extra["events"].(int) + strings.Count(trace, ";") + 1
}

func keys(m map[int]bool) []int {
	var l []int
	for k := range m {
		l = append(l, k)
	}
	sort.Ints(l)
	return l
}

func (e *engine) run() {
	e.rep.Rule = "seeded random schedules of client actions (attach/usurp/send/stale/future/forged/tampered and hand-assembled submissions: foreign or victim key attached, other signing context, unsigned, empty signature, nil body, nil message; ack/clear/re-init/close/cancel/listen/invalid first requests) among five peers on the real relay server (identity by callback or by mounted stream context) through fake streams with jitter; every server critical section + every response is replayed against the Lean LTS; monitors on the real traffic, returned errors and logged state are evaluated whether or not the replay diverged; sentinels: detach+re-attach and usurp while the partner stays (F10), late attach with a single sender (F9), listen across open/close/re-open (F8), listen usurp followed by session opens, overlapping session calls of one pair, every forgery class in the current epoch with the partner attached, requests before Init / streams without identity; distinct = distinct schedule"
	e.rep.Require("trace.random.quiescent", "trace.random.drained", "trace.reattach-race.quiescent", "trace.late-attach.quiescent", "trace.listen-reopen.quiescent", "trace.listen-swap.quiescent", "trace.usurp-while-partner-blocked.quiescent", "trace.listen-stale-cleanup.quiescent",
		"trace.listen-usurp-open.quiescent", "trace.session-overlap.quiescent", "trace.listen-many.quiescent", "trace.forgery-classes.quiescent", "trace.ident-mounted.quiescent", "trace.ident-callback.quiescent", "trace.session-overlap.drained", "trace.listen-usurp-open.drained")
	e.rep.Extra["events"] = 0
	e.scenario("late-attach", 1)
	e.scenario("listen-reopen", 2)
	e.scenario("usurp-while-partner-blocked", 1)
	e.scenario("listen-swap", 1)
	e.scenario("listen-stale-cleanup", 1)
	for i := 0; i < 3*e.a.Scale; i++ {
		e.scenario("listen-usurp-open", i)
	}
	for i := 0; i < 2*e.a.Scale; i++ {
		e.scenario("session-overlap", i+2*e.rng.Intn(3))
	}
	e.scenario("forgery-classes", 1)
	e.scenario("ident-mounted", 1)
	e.scenario("ident-callback", 1)
	for i := 0; i < 2*e.a.Scale; i++ {
		e.scenario("listen-many", 10+e.rng.Intn(15))
	}
	for i := 0; i < 3*e.a.Scale; i++ {
		e.scenario("reattach-race", 2+e.rng.Intn(3))
	}
	n := 40 * e.a.Scale
	for i := 0; i < n; i++ {
		e.scenario("random", 6+e.rng.Intn(20))
	}
}

func main() {
	a := lib.ParseArgs()
	lg := logrus.New()
	lg.SetLevel(logrus.PanicLevel)
	lg.SetOutput(io.Discard)
	e := &engine{a: a, rng: lib.NewRng(a.Seed), m: lib.NewModel(a.Driver), le: logrus.NewEntry(lg), pidIx: map[string]int{}}
	e.rep = lib.NewReport("sigsrv", a)
	// the peers, indexed in the order of their peer id strings (the server's session key order)
	var kps []*sigoracle.Key
	for i := 0; i < nPeers; i++ {
		kps = append(kps, sigoracle.NewKey(e.rng.Bytes(32)))
	}
	sort.Slice(kps, func(i, j int) bool { return kps[i].IDStr < kps[j].IDStr })
	e.keys = []*sigoracle.Key{nil}
	e.pids = []peer.ID{""}
	for i, x := range kps {
		e.keys = append(e.keys, x)
		e.pids = append(e.pids, x.ID)
		e.pidIx[x.IDStr] = i + 1
	}
	switch a.Prop {
	case "C20", "C21", "C22", "C24", "C25":
		e.run()
	default:
		fmt.Println("unknown property", a.Prop)
		return
	}
	e.m.Close()
	e.rep.Write(a.Out)
}
