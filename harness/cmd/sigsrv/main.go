// Command sigsrv is the trace-validation engine for the signaling relay server (C20, C22, C24,
// C25). It drives the REAL signaling_rpc_server.Server through fake SRPC streams from a seeded
// random schedule of client actions (attach / usurp / send / forged send / stale and future
// epochs / ack / clear / cancel / listen), records every server critical section through the
// verif hooks plus every response the server sends, and asks the Lean model to replay the trace:
// each event must be an enabled step of Bifrost.Sig whose post-state equals the logged server
// state. Model-independent monitors state the properties directly on the observed traffic.
package main

import (
	"bytes"
	"context"
	"fmt"
	"io"
	"sort"
	"strconv"
	"strings"
	"sync"
	"time"

	"github.com/aperturerobotics/bifrost/crypto"
	"github.com/aperturerobotics/bifrost/hash"
	"github.com/aperturerobotics/bifrost/peer"
	signaling "github.com/aperturerobotics/bifrost/signaling/rpc"
	signaling_rpc_server "github.com/aperturerobotics/bifrost/signaling/rpc/server"
	"github.com/aperturerobotics/starpc/srpc"
	"github.com/sirupsen/logrus"

	"verif/harness/lib"
	"verif/harness/sigtrace"
)

type ctxKey struct{}

type engine struct {
	a   *lib.Args
	rng *lib.Rng
	m   *lib.Model
	rep *lib.Report
	le  *logrus.Entry

	keys  []crypto.PrivKey // index 0 unused; 1..3 sorted by peer id string
	pids  []peer.ID
	pidIx map[string]int
}

// world is one scenario run.
type world struct {
	e        *engine
	srv      *signaling_rpc_server.Server
	mtx      sync.Mutex
	log      []string // raw lines: hook lines and "tx …" lines, in real-time order
	calls    map[string]int
	scalls   []*sessStream
	lcalls   []*listenStream
	subs     []*submission
	mon      []string
	lastSnap string
}

type submission struct {
	mid       int
	src, dst  int
	seqno     uint64
	epoch     uint64
	authentic bool
	signer    int
	wire      []byte
	call      int
}

type sessStream struct {
	w        *world
	id       int
	src, dst int
	ctx      context.Context
	cancel   context.CancelFunc
	reqCh    chan *signaling.SessionRequest
	mtx      sync.Mutex
	resps    []*signaling.SessionResponse
	done     chan struct{}
	err      error
	valid    []*submission // every SendMsg submission on this stream, in order
	nextQ    uint64
	closedRx bool
	hold     chan struct{} // when non-nil, Send blocks (after logging) until released: a slow client
	inSend   chan struct{}
}

func (s *sessStream) holdSends() {
	s.mtx.Lock()
	if s.hold == nil { // a Send may be parked on the current gate: never replace it
		s.hold = make(chan struct{})
		s.inSend = make(chan struct{})
	}
	s.mtx.Unlock()
}

func (s *sessStream) release() {
	s.mtx.Lock()
	if s.hold != nil {
		close(s.hold)
		s.hold = nil
	}
	s.mtx.Unlock()
}

func (s *sessStream) Context() context.Context { return s.ctx }
func (s *sessStream) Send(m *signaling.SessionResponse) error {
	s.mtx.Lock()
	s.resps = append(s.resps, m)
	hold, inSend := s.hold, s.inSend
	s.mtx.Unlock()
	s.w.logTx(s.id, m)
	if hold != nil {
		select {
		case <-inSend:
		default:
			close(inSend)
		}
		select {
		case <-hold:
		case <-s.ctx.Done():
		}
	}
	return nil
}
func (s *sessStream) SendAndClose(m *signaling.SessionResponse) error { return s.Send(m) }
func (s *sessStream) Recv() (*signaling.SessionRequest, error) {
	select {
	case r, ok := <-s.reqCh:
		if !ok {
			return nil, io.EOF
		}
		return r, nil
	case <-s.ctx.Done():
		return nil, context.Canceled
	}
}
func (s *sessStream) RecvTo(m *signaling.SessionRequest) error {
	r, err := s.Recv()
	if err != nil {
		return err
	}
	*m = *r //nolint
	return nil
}
func (s *sessStream) MsgSend(srpc.Message) error { return nil }
func (s *sessStream) MsgRecv(srpc.Message) error { return io.EOF }
func (s *sessStream) CloseSend() error           { return nil }
func (s *sessStream) Close() error               { return nil }

type listenStream struct {
	w      *world
	id     int
	pid    int
	ctx    context.Context
	cancel context.CancelFunc
	mtx    sync.Mutex
	resps  []*signaling.ListenResponse
	done   chan struct{}
	err    error
	hold   chan struct{} // when non-nil, Send blocks (after logging) until it is closed: a slow client
	inSend chan struct{} // closed when the first held Send has been entered
}

// holdSends makes the next Send calls block until release is called.
func (s *listenStream) holdSends() {
	s.mtx.Lock()
	if s.hold == nil { // a Send may be parked on the current gate: never replace it
		s.hold = make(chan struct{})
		s.inSend = make(chan struct{})
	}
	s.mtx.Unlock()
}

func (s *listenStream) release() {
	s.mtx.Lock()
	if s.hold != nil {
		close(s.hold)
		s.hold = nil
	}
	s.mtx.Unlock()
}

func (s *listenStream) Context() context.Context { return s.ctx }
func (s *listenStream) Send(m *signaling.ListenResponse) error {
	s.mtx.Lock()
	s.resps = append(s.resps, m)
	hold, inSend := s.hold, s.inSend
	s.mtx.Unlock()
	s.w.logLtx(s.id, m)
	if hold != nil {
		select {
		case <-inSend:
		default:
			close(inSend)
		}
		select {
		case <-hold:
		case <-s.ctx.Done():
		}
	}
	return nil
}
func (s *listenStream) SendAndClose(m *signaling.ListenResponse) error { return s.Send(m) }
func (s *listenStream) MsgSend(srpc.Message) error                     { return nil }
func (s *listenStream) MsgRecv(srpc.Message) error                     { return io.EOF }
func (s *listenStream) CloseSend() error                               { return nil }
func (s *listenStream) Close() error                                   { return nil }

func (w *world) sink(line string) {
	w.mtx.Lock()
	w.log = append(w.log, line)
	w.mtx.Unlock()
}

func (w *world) logTx(call int, m *signaling.SessionResponse) {
	switch b := m.GetBody().(type) {
	case *signaling.SessionResponse_Opened:
		w.sink(fmt.Sprintf("TX tx,c=%d,r=opened,v=%d", call, b.Opened))
	case *signaling.SessionResponse_Closed:
		w.sink(fmt.Sprintf("TX tx,c=%d,r=closed", call))
	case *signaling.SessionResponse_AckMsg:
		w.sink(fmt.Sprintf("TX tx,c=%d,r=ack,v=%d", call, b.AckMsg))
	case *signaling.SessionResponse_ClearMsg:
		w.sink(fmt.Sprintf("TX tx,c=%d,r=clear,v=%d", call, b.ClearMsg))
	case *signaling.SessionResponse_RecvMsg:
		wire, _ := b.RecvMsg.MarshalVT()
		mid := 0
		w.mtx.Lock()
		for _, s := range w.subs {
			if bytes.Equal(s.wire, wire) {
				mid = s.mid
			}
		}
		w.mtx.Unlock()
		w.sink(fmt.Sprintf("TX tx,c=%d,r=recv,v=%d,m=%d", call, b.RecvMsg.GetSeqno(), mid))
	}
}

func (w *world) logLtx(call int, m *signaling.ListenResponse) {
	switch b := m.GetBody().(type) {
	case *signaling.ListenResponse_SetPeer:
		w.sink(fmt.Sprintf("TX ltx,c=%d,r=set,v=%d", call, w.e.pidIx[b.SetPeer]))
	case *signaling.ListenResponse_ClearPeer:
		w.sink(fmt.Sprintf("TX ltx,c=%d,r=clearpeer,v=%d", call, w.e.pidIx[b.ClearPeer]))
	}
}

func (w *world) newSession(src, dst int) *sessStream { return w.newSessionOpt(src, dst, false) }

// newSessionOpt: held = the client is slow from the start (the handler's first Send blocks).
func (w *world) newSessionOpt(src, dst int, held bool) *sessStream {
	ctx, cancel := context.WithCancel(context.WithValue(context.Background(), ctxKey{}, w.e.pids[src]))
	s := &sessStream{w: w, src: src, dst: dst, ctx: ctx, cancel: cancel, reqCh: make(chan *signaling.SessionRequest, 64), done: make(chan struct{})}
	if held {
		s.holdSends()
	}
	w.mtx.Lock()
	s.id = len(w.scalls) + len(w.lcalls) + 1
	w.scalls = append(w.scalls, s)
	w.calls[fmt.Sprintf("%p", s)] = s.id
	w.mtx.Unlock()
	s.reqCh <- &signaling.SessionRequest{Body: &signaling.SessionRequest_Init{Init: &signaling.SessionInit{PeerId: w.e.pids[dst].String()}}}
	go func() {
		s.err = w.srv.Session(s)
		s.cancel() // as SRPC does: the stream context ends when the handler returns
		close(s.done)
	}()
	return s
}

func (w *world) newListen(pid int) *listenStream {
	ctx, cancel := context.WithCancel(context.WithValue(context.Background(), ctxKey{}, w.e.pids[pid]))
	s := &listenStream{w: w, pid: pid, ctx: ctx, cancel: cancel, done: make(chan struct{})}
	w.mtx.Lock()
	s.id = len(w.scalls) + len(w.lcalls) + 1
	w.lcalls = append(w.lcalls, s)
	w.calls[fmt.Sprintf("%p", s)] = s.id
	w.mtx.Unlock()
	go func() {
		s.err = w.srv.Listen(&signaling.ListenRequest{}, s)
		close(s.done)
	}()
	return s
}

func (s *sessStream) lastOpened() (uint64, bool) {
	s.mtx.Lock()
	defer s.mtx.Unlock()
	for i := len(s.resps) - 1; i >= 0; i-- {
		switch b := s.resps[i].GetBody().(type) {
		case *signaling.SessionResponse_Opened:
			return b.Opened, true
		case *signaling.SessionResponse_Closed:
			return 0, false
		}
	}
	return 0, false
}

func (s *sessStream) alive() bool {
	select {
	case <-s.done:
		return false
	default:
		return true
	}
}

// quiesce waits until the event log has been stable for a while.
func (w *world) quiesce(d time.Duration) {
	stable := 0
	last := -1
	for i := 0; i < 4000 && stable < 3; i++ {
		time.Sleep(d)
		w.mtx.Lock()
		n := len(w.log)
		w.mtx.Unlock()
		if n == last {
			stable++
		} else {
			stable = 0
			last = n
		}
	}
}

// canonical converts the raw log to the driver's trace.
func (w *world) canonical() (string, string) {
	w.mtx.Lock()
	lines := append([]string(nil), w.log...)
	w.mtx.Unlock()
	tr, last, cerr := sigtrace.Canonical(sigtrace.Input{Lines: lines, PidIx: w.e.pidIx, Calls: w.calls, SubOf: func(call, k int) (sigtrace.Sub, bool) {
		for _, x := range w.scalls {
			if x.id == call {
				if k >= len(x.valid) {
					return sigtrace.Sub{}, false
				}
				sub := x.valid[k]
				v := 0
				if sub.authentic || sub.signer != x.src {
					v = 1
				}
				return sigtrace.Sub{Mid: sub.mid, Epoch: sub.epoch, Seqno: sub.seqno, V: v, Signer: sub.signer}, true
			}
		}
		return sigtrace.Sub{}, false
	}})
	w.lastSnap = last
	return tr, cerr
}

func (w *world) jitter() {
	switch w.e.rng.Intn(4) {
	case 0:
	case 1:
		time.Sleep(time.Duration(w.e.rng.Intn(150)) * time.Microsecond)
	case 2:
		time.Sleep(time.Duration(200+w.e.rng.Intn(800)) * time.Microsecond)
	case 3:
		w.quiesce(300 * time.Microsecond)
	}
}

func (w *world) submit(s *sessStream, kind string) {
	epoch, open := s.lastOpened()
	switch kind {
	case "send", "send-stale", "send-future", "send-forged-key", "send-tampered":
		s.nextQ++
		q := s.nextQ
		key := w.e.keys[s.src]
		authentic := true
		if kind == "send-forged-key" {
			key = w.e.keys[s.dst]
			authentic = false
		}
		data := w.e.rng.Bytes(1 + w.e.rng.Intn(20))
		msg, err := signaling.NewSessionMsg(key, hash.HashType_HashType_BLAKE3, data, q)
		if err != nil {
			panic(err)
		}
		if kind == "send-tampered" {
			msg.SignedMsg.Data[0] ^= 1
			authentic = false
		}
		e := epoch
		switch kind {
		case "send-stale":
			if e > 0 {
				e--
			}
		case "send-future":
			e += 3
		}
		if !open && kind == "send" {
			e = epoch // 0: stale unless the session really is at 0 (never)
		}
		wire, _ := msg.MarshalVT()
		w.mtx.Lock()
		sub := &submission{mid: len(w.subs) + 1, src: s.src, dst: s.dst, seqno: q, epoch: e, authentic: authentic, wire: wire, call: s.id}
		w.subs = append(w.subs, sub)
		sub.signer = s.src
		if kind == "send-forged-key" {
			sub.signer = s.dst
		}
		s.valid = append(s.valid, sub)
		w.mtx.Unlock()
		s.reqCh <- &signaling.SessionRequest{SessionSeqno: e, Body: &signaling.SessionRequest_SendMsg{SendMsg: msg}}
	case "ack":
		// ack the last message received on this stream
		var k uint64
		s.mtx.Lock()
		for _, r := range s.resps {
			if b, ok := r.GetBody().(*signaling.SessionResponse_RecvMsg); ok {
				k = b.RecvMsg.GetSeqno()
			}
		}
		s.mtx.Unlock()
		if k == 0 || w.e.rng.Intn(6) == 0 {
			k = uint64(1 + w.e.rng.Intn(4)) // unsolicited / wrong ack
		}
		s.reqCh <- &signaling.SessionRequest{SessionSeqno: epoch, Body: &signaling.SessionRequest_AckMsg{AckMsg: k}}
	case "clear":
		k := s.nextQ
		if k == 0 || w.e.rng.Intn(5) == 0 {
			k = uint64(1 + w.e.rng.Intn(4))
		}
		s.reqCh <- &signaling.SessionRequest{SessionSeqno: epoch, Body: &signaling.SessionRequest_ClearMsg{ClearMsg: k}}
	case "init-again":
		s.reqCh <- &signaling.SessionRequest{SessionSeqno: epoch, Body: &signaling.SessionRequest_Init{Init: &signaling.SessionInit{PeerId: w.e.pids[s.dst].String()}}}
	case "close-rx":
		if !s.closedRx {
			s.closedRx = true
			close(s.reqCh)
		}
	case "cancel":
		s.cancel()
	}
}

func (e *engine) scenario(kind string, n int) {
	le := e.le
	w := &world{e: e, calls: map[string]int{}}
	w.srv = signaling_rpc_server.NewServerWithIdentify(le, func(ctx context.Context) (peer.ID, error) {
		return ctx.Value(ctxKey{}).(peer.ID), nil
	})
	signaling_rpc_server.VerifSetSink(w.sink)
	defer signaling_rpc_server.VerifSetSink(nil)
	var actions []string
	act := func(s string) { actions = append(actions, s) }
	switch kind {
	case "reattach-race":
		// C22 sentinel: B detaches and re-attaches (or is usurped) while A stays attached
		a := w.newSession(1, 2)
		b := w.newSession(2, 1)
		w.quiesce(300 * time.Microsecond)
		act("attach 1->2; attach 2->1")
		for i := 0; i < n; i++ {
			if e.rng.Intn(2) == 0 {
				b2 := w.newSession(2, 1) // usurp without detaching first
				act("usurp 2->1")
				_ = b
				b = b2
			} else {
				b.cancel()
				b = w.newSession(2, 1)
				act("cancel+reattach 2->1")
			}
			w.jitter()
			w.submit(a, "send")
			act("send on 1->2")
			w.jitter()
		}
	case "late-attach":
		// C22 sentinel (F9): the second peer attaches and only IT has something to send
		w.newSession(1, 2)
		w.quiesce(300 * time.Microsecond)
		b := w.newSession(2, 1)
		w.quiesce(300 * time.Microsecond)
		act("attach 1->2; quiesce; attach 2->1; quiesce")
		w.submit(b, "send")
		act("send on 2->1")
	case "usurp-while-partner-blocked":
		// C20/C22 sentinel: B's write loop is parked in Send (slow client) while A1 submits a
		// message for the current epoch and A2 then replaces A1 (new epoch); B resumes
		a1 := w.newSession(1, 2)
		w.quiesce(300 * time.Microsecond)
		b := w.newSessionOpt(2, 1, true)
		select {
		case <-b.inSend:
		case <-time.After(2 * time.Second):
		}
		w.quiesce(300 * time.Microsecond)
		w.submit(a1, "send")
		w.quiesce(300 * time.Microsecond)
		w.newSession(1, 2) // replaces a1, new epoch
		w.quiesce(300 * time.Microsecond)
		b.release()
		act("attach 1->2; attach 2->1 (slow client: parked in its first Send); send on 1->2; 1 re-attaches (new epoch); 2->1 resumes")
	case "listen-reopen":
		// C24 sentinel (F8): listener stays while a session towards it opens, closes, re-opens
		w.newListen(2)
		w.quiesce(300 * time.Microsecond)
		for i := 0; i < n; i++ {
			s := w.newSession(1, 2)
			w.quiesce(300 * time.Microsecond)
			s.cancel()
			w.quiesce(300 * time.Microsecond)
			act("listen 2; open 1->2; close")
		}
		w.newSession(1, 2)
		w.newSession(3, 2)
		act("open 1->2; open 3->2")
	case "listen-swap":
		// C24 sentinel: while the listener is inside Send(SetPeer X), X's session closes and Z's opens
		l := w.newListen(2)
		w.quiesce(300 * time.Microsecond)
		l.holdSends()
		x := w.newSession(1, 2)
		select {
		case <-l.inSend:
		case <-time.After(2 * time.Second):
		}
		x.cancel()
		w.quiesce(300 * time.Microsecond)
		w.newSession(3, 2)
		w.quiesce(300 * time.Microsecond)
		l.release()
		act("listen 2 (slow client); open 1->2; while Send(SetPeer 1) blocks: close 1->2, open 3->2; release")
	case "listen-stale-cleanup":
		// C25 sentinel: a replaced Listen call that finishes late must not disturb a newer tracker
		l1 := w.newListen(2)
		w.quiesce(300 * time.Microsecond)
		l1.holdSends()
		sx := w.newSession(1, 2)
		select {
		case <-l1.inSend:
		case <-time.After(2 * time.Second):
		}
		l2 := w.newListen(2) // replaces l1
		w.quiesce(300 * time.Microsecond)
		l2.cancel()
		w.quiesce(300 * time.Microsecond)
		sx.cancel() // last want gone: tracker released
		w.quiesce(300 * time.Microsecond)
		w.newListen(2) // l3 on a fresh tracker
		w.quiesce(300 * time.Microsecond)
		l1.release() // l1 now observes it was replaced and runs its cleanup
		w.quiesce(500 * time.Microsecond)
		w.newSession(3, 2) // must be announced to l3
		act("L1 listens (slow client) ; session 1->2; L2 replaces L1; L2 cancelled; session ends; L3 listens; L1 finishes late; session 3->2")
	default: // random
		for i := 0; i < n; i++ {
			live := []*sessStream{}
			for _, s := range w.scalls {
				if s.alive() && !s.closedRx {
					live = append(live, s)
				}
			}
			r := e.rng.Intn(100)
			switch {
			case r < 18 || len(live) == 0:
				src := 1 + e.rng.Intn(3)
				dst := 1 + e.rng.Intn(3)
				if src == dst {
					dst = 1 + dst%3
				}
				if e.rng.Intn(3) > 0 { // bias to the 1<->2 pair
					src, dst = 1+e.rng.Intn(2), 0
					dst = 3 - src
				}
				w.newSession(src, dst)
				act(fmt.Sprintf("attach %d->%d", src, dst))
			case r < 24:
				p := 1 + e.rng.Intn(3)
				w.newListen(p)
				act(fmt.Sprintf("listen %d", p))
			case r < 26:
				var ss []*sessStream
				for _, x := range w.scalls {
					if x.alive() {
						ss = append(ss, x)
					}
				}
				if len(ss) > 0 {
					x := ss[e.rng.Intn(len(ss))]
					if e.rng.Intn(2) == 0 {
						x.holdSends()
						act(fmt.Sprintf("slow client on session call %d", x.id))
					} else {
						x.release()
						act(fmt.Sprintf("release session call %d", x.id))
					}
				}
			case r < 28:
				var ll []*listenStream
				for _, l := range w.lcalls {
					select {
					case <-l.done:
					default:
						ll = append(ll, l)
					}
				}
				if len(ll) > 0 {
					l := ll[e.rng.Intn(len(ll))]
					if e.rng.Intn(2) == 0 {
						l.holdSends()
						act(fmt.Sprintf("slow client on listen call %d", l.id))
					} else {
						l.release()
						act(fmt.Sprintf("release listen call %d", l.id))
					}
				}
			case r < 30:
				var ll []*listenStream
				for _, l := range w.lcalls {
					select {
					case <-l.done:
					default:
						ll = append(ll, l)
					}
				}
				if len(ll) > 0 {
					l := ll[e.rng.Intn(len(ll))]
					l.cancel()
					act(fmt.Sprintf("cancel listen call %d", l.id))
				}
			default:
				s := live[e.rng.Intn(len(live))]
				kinds := []string{"send", "send", "send", "send", "ack", "ack", "ack", "clear", "send-stale", "send-future", "send-forged-key", "send-tampered", "init-again", "close-rx", "cancel", "cancel"}
				k := kinds[e.rng.Intn(len(kinds))]
				w.submit(s, k)
				act(fmt.Sprintf("%s on call %d", k, s.id))
			}
			w.jitter()
		}
	}
	for _, l := range w.lcalls {
		l.release()
	}
	for _, x := range w.scalls {
		x.release()
	}
	w.quiesce(2 * time.Millisecond)
	e.validate(w, kind, actions, false)
	// drain: end every call, then the relay must hold no state
	for _, s := range w.scalls {
		s.cancel()
	}
	for _, l := range w.lcalls {
		l.cancel()
	}
	for _, s := range w.scalls {
		select {
		case <-s.done:
		case <-time.After(3 * time.Second):
			w.mon = append(w.mon, fmt.Sprintf("session call %d did not return after cancel", s.id))
		}
	}
	for _, l := range w.lcalls {
		select {
		case <-l.done:
		case <-time.After(3 * time.Second):
			w.mon = append(w.mon, fmt.Sprintf("listen call %d did not return after cancel", l.id))
		}
	}
	e.validate(w, kind, actions, true)
}

func (e *engine) validate(w *world, kind string, actions []string, drained bool) {
	trace, cerr := w.canonical()
	phase := "quiescent"
	if drained {
		phase = "drained"
	}
	op := "sig.trace evs=" + trace
	var model string
	if cerr != "" {
		model = "harness-error " + cerr
	} else {
		model = e.m.Query(op)
	}
	mon := ""
	key := "sigsrv.trace:" + kind
	// retry once after a longer settle if the model still sees pending wake-ups (scheduling latency)
	for _, wait := range []time.Duration{20, 60, 150, 400, 1000} {
		if !(strings.HasPrefix(model, "ok ") && (lib.KV(model, "awake") != "_" || lib.KV(model, "failing") != "_" || lib.KV(model, "pendingtx") != "_")) {
			break
		}
		w.quiesce(wait * time.Millisecond / 3)
		trace, cerr = w.canonical()
		op = "sig.trace evs=" + trace
		model = e.m.Query(op)
	}
	impl := "ok"
	if !strings.HasPrefix(model, "ok ") {
		impl = "trace-accepted-by-real-server"
	} else {
		if aw := lib.KV(model, "awake"); aw != "_" {
			mon = "lost wake-up: the server is quiescent but calls " + aw + " have an unannounced state change pending (their write loop was not woken)"
			key = "sigsrv.wakeup:" + kind
		}
		if f := lib.KV(model, "failing"); f != "_" && mon == "" {
			mon = "calls " + f + " should have returned (usurped / protocol error) but are still running"
		}
	}
	// ---- model-independent monitors on the observed traffic ----
	subByWire := map[string]*submission{}
	for _, s := range w.subs {
		subByWire[string(s.wire)] = s
	}
	for _, s := range w.scalls {
		s.mtx.Lock()
		var lastOpen uint64
		open := false
		prevOpen := uint64(0)
		for _, r := range s.resps {
			switch b := r.GetBody().(type) {
			case *signaling.SessionResponse_Opened:
				if b.Opened <= prevOpen {
					mon = fmt.Sprintf("call %d: session epochs announced out of order (%d after %d)", s.id, b.Opened, prevOpen)
				}
				prevOpen, lastOpen, open = b.Opened, b.Opened, true
			case *signaling.SessionResponse_Closed:
				open = false
			case *signaling.SessionResponse_RecvMsg:
				wire, _ := b.RecvMsg.MarshalVT()
				sub := subByWire[string(wire)]
				switch {
				case sub == nil:
					mon = fmt.Sprintf("call %d received a message nobody submitted", s.id)
				case !sub.authentic:
					mon = fmt.Sprintf("call %d (%d->%d) was forwarded a message that is not authentic", s.id, s.src, s.dst)
					key = "sigsrv.forward:forged"
				case sub.src != s.dst || sub.dst != s.src:
					mon = fmt.Sprintf("call %d (%d->%d) was forwarded a message submitted on session %d->%d", s.id, s.src, s.dst, sub.src, sub.dst)
				case !open:
					mon = fmt.Sprintf("call %d was forwarded a message while the session was announced closed", s.id)
				case sub.epoch != lastOpen:
					mon = fmt.Sprintf("call %d: message submitted in epoch %d delivered in epoch %d", s.id, sub.epoch, lastOpen)
					key = "sigsrv.forward:cross-epoch"
				}
			}
		}
		s.mtx.Unlock()
	}
	if !drained && cerr == "" {
		// quiescent state vs announcements and listeners (property statements, from the real server's last logged state)
		final := w.lastSnap
		parts := strings.SplitN(final, "#", 2)
		liveSess := map[[2]int]*sessStream{}
		dup := false
		for _, s := range w.scalls {
			if s.alive() {
				if _, ok := liveSess[[2]int{s.src, s.dst}]; ok {
					dup = true
				}
				liveSess[[2]int{s.src, s.dst}] = s
			}
		}
		if dup && mon == "" {
			mon = "two session calls for the same ordered peer pair are still active at quiescence"
		}
		// C22: every attached peer whose partner is attached has been told the current epoch
		if len(parts) == 2 && parts[1] != "" {
			for _, se := range strings.Split(parts[1], "|") {
				f := strings.Split(se, ":")
				seqno, _ := strconv.ParseUint(f[1], 10, 64)
				for _, at := range f[2:4] {
					if at == "nil" {
						continue
					}
					c, _ := strconv.Atoi(strings.Split(at, "/")[0])
					var cs *sessStream
					for _, s := range w.scalls {
						if s.id == c {
							cs = s
						}
					}
					if cs == nil || !cs.alive() {
						continue
					}
					lo, open := cs.lastOpened()
					both := f[2] != "nil" && f[3] != "nil"
					if both && (!open || lo != seqno) && mon == "" {
						mon = fmt.Sprintf("both peers are attached at epoch %d but call %d (%d->%d) was last told open=%v epoch=%d", seqno, c, cs.src, cs.dst, open, lo)
						key = "sigsrv.announce:" + kind
					}
					if !both && open && mon == "" {
						mon = fmt.Sprintf("partner of call %d is detached but the call was never told the session closed", c)
						key = "sigsrv.announce:" + kind
					}
				}
			}
		}
		// C24: announced-minus-withdrawn equals the peers with a live session request
		for _, l := range w.lcalls {
			select {
			case <-l.done:
				continue
			default:
			}
			set := map[int]bool{}
			l.mtx.Lock()
			for _, r := range l.resps {
				switch b := r.GetBody().(type) {
				case *signaling.ListenResponse_SetPeer:
					set[e.pidIx[b.SetPeer]] = true
				case *signaling.ListenResponse_ClearPeer:
					delete(set, e.pidIx[b.ClearPeer])
				}
			}
			l.mtx.Unlock()
			want := map[int]bool{}
			for k := range liveSess {
				if k[1] == l.pid {
					want[k[0]] = true
				}
			}
			if fmt.Sprint(keys(set)) != fmt.Sprint(keys(want)) && mon == "" {
				mon = fmt.Sprintf("listener for peer %d was told %v but the peers holding a session request towards it are %v", l.pid, keys(set), keys(want))
				key = "sigsrv.listen:" + kind
			}
		}
	}
	if drained {
		np, ns := w.srv.VerifCounts()
		if (np != 0 || ns != 0) && mon == "" {
			mon = fmt.Sprintf("all calls have ended but the relay still holds %d peer trackers and %d session trackers", np, ns)
			key = "sigsrv.drain:" + kind
		}
		// usurped calls must have ended with the replaced errors
		for _, m := range w.mon {
			if mon == "" {
				mon = m
			}
		}
	}
	// C25: a Listen call may only be told it was replaced when a newer Listen call for the same
	// peer registered after it (read off the real server's own event order, not the model)
	if mon == "" {
		type reg struct{ call, pid, at int }
		var regs []reg
		for i, tok := range strings.Split(trace, ";") {
			f := strings.Split(tok, ",")
			switch f[0] {
			case "lreg":
				c, _ := strconv.Atoi(strings.TrimPrefix(f[1], "c="))
				p, _ := strconv.Atoi(strings.TrimPrefix(f[2], "pid="))
				regs = append(regs, reg{c, p, i})
			case "lusurped":
				c, _ := strconv.Atoi(strings.TrimPrefix(f[1], "c="))
				var mine *reg
				for k := range regs {
					if regs[k].call == c {
						mine = &regs[k]
					}
				}
				justified := false
				for _, r := range regs {
					if mine != nil && r.pid == mine.pid && r.call != c && r.at > mine.at {
						justified = true
					}
				}
				if mine != nil && !justified {
					mon = fmt.Sprintf("listen call %d for peer %d was ended as replaced although no newer Listen call for that peer had registered", c, mine.pid)
					key = "sigsrv.listen-replaced:" + kind
				}
			}
		}
	}
	br := "trace." + kind + "." + phase
	mshort := model
	if strings.HasPrefix(model, "ok ") {
		mshort = "ok"
	}
	opShort := "sig.trace[" + phase + "] actions=" + strings.Join(actions, "; ")
	if mshort != impl || mon != "" {
		opShort = op
	}
	e.rep.Case(opShort, mshort, impl, br, true)
	if mshort != impl || mon != "" {
		d := lib.Disagreement{Op: lib.Trunc(strings.Join(actions, "; ")) + " || " + op, Model: model, Impl: impl, Branch: br, Key: key}
		if len(d.Op) > 6000 {
			d.Op = d.Op[:6000] + "…"
		}
		if mon != "" {
			d.Monitor, d.What = "confirmed", mon
		} else {
			d.Monitor, d.What = "unconfirmed", "the real server took a step that is not a step of the model: "+lib.Trunc(model)
		}
		e.rep.Disagree(d)
	}
	e.rep.Extra["events"] = e.rep.Extra["events"].(int) + strings.Count(trace, ";") + 1
}

func keys(m map[int]bool) []int {
	var l []int
	for k := range m {
		l = append(l, k)
	}
	sort.Ints(l)
	return l
}

func (e *engine) run() {
	e.rep.Rule = "seeded random schedules of client actions (attach/usurp/send/stale/future/forged/tampered/ack/clear/re-init/close/cancel/listen) on the real relay server through fake streams with jitter; every server critical section + every response is replayed against the Lean LTS; sentinels: detach+re-attach and usurp while the partner stays (F10), late attach with a single sender (F9), listen across open/close/re-open (F8); distinct = distinct schedule"
	e.rep.Require("trace.random.quiescent", "trace.random.drained", "trace.reattach-race.quiescent", "trace.late-attach.quiescent", "trace.listen-reopen.quiescent", "trace.listen-swap.quiescent", "trace.usurp-while-partner-blocked.quiescent", "trace.listen-stale-cleanup.quiescent")
	e.rep.Extra["events"] = 0
	e.scenario("late-attach", 1)
	e.scenario("listen-reopen", 2)
	e.scenario("usurp-while-partner-blocked", 1)
	e.scenario("listen-swap", 1)
	e.scenario("listen-stale-cleanup", 1)
	for i := 0; i < 3*e.a.Scale; i++ {
		e.scenario("reattach-race", 2+e.rng.Intn(3))
	}
	n := 40 * e.a.Scale
	for i := 0; i < n; i++ {
		e.scenario("random", 6+e.rng.Intn(20))
	}
}

func main() {
	a := lib.ParseArgs()
	lg := logrus.New()
	lg.SetLevel(logrus.PanicLevel)
	lg.SetOutput(io.Discard)
	e := &engine{a: a, rng: lib.NewRng(a.Seed), m: lib.NewModel(a.Driver), le: logrus.NewEntry(lg), pidIx: map[string]int{}}
	e.rep = lib.NewReport("sigsrv", a)
	// three peers, indexed in the order of their peer id strings (the server's session key order)
	type kp struct {
		k  crypto.PrivKey
		id peer.ID
	}
	var kps []kp
	for i := 0; i < 3; i++ {
		p, err := peer.NewPeer(nil)
		if err != nil {
			panic(err)
		}
		k, _ := p.GetPrivKey(context.Background())
		kps = append(kps, kp{k, p.GetPeerID()})
	}
	sort.Slice(kps, func(i, j int) bool { return kps[i].id.String() < kps[j].id.String() })
	e.keys = []crypto.PrivKey{nil}
	e.pids = []peer.ID{""}
	for i, x := range kps {
		e.keys = append(e.keys, x.k)
		e.pids = append(e.pids, x.id)
		e.pidIx[x.id.String()] = i + 1
	}
	switch a.Prop {
	case "C20", "C21", "C22", "C24", "C25":
		e.run()
	default:
		fmt.Println("unknown property", a.Prop)
		return
	}
	e.m.Close()
	e.rep.Write(a.Out)
}
